(* ModelCtr.v — the buffered-keystream CTR state machine shared by every
   back end (generic in key object, block size and batch size), and the
   parallel ECB batch/remainder loops.  Follows src/*-ctr*.c, src/*-parallel.c *)
From Coq Require Import List Bool NArith Arith Lia.
From Skinny Require Import Bits ModelCipher.
Import ListNotations.

(* big-endian byte-wise increment with carry, as skinny*_inc_counter and the
   per-lane *_ctr_increment do it (the carry is dropped after the first byte) *)
Fixpoint inc_rev (l : list byte) (carry : N) : list byte :=
  match l with
  | [] => []
  | b :: r => let s := (N_of_byte b + carry)%N in
              byte_of_N s :: inc_rev r (N.shiftr s 8)
  end.
Definition inc_counter (c : list byte) (k : N) : list byte := rev (inc_rev (rev c) k).

Section Ctr.
  Variable K : Type.
  Variable E : K -> list byte -> list byte.
  Variable bs : nat.     (* block size in bytes *)
  Variable B : nat.      (* blocks per keystream refill: 1, 4 or 8 *)

  Definition BS : nat := B * bs.

  Record ctr : Type := {
    c_key : K;
    c_lanes : list (list byte);     (* B counter blocks *)
    c_ecounter : list byte;         (* B * bs keystream bytes *)
    c_off : nat }.

  Definition with_key (c : ctr) (k : K) : ctr :=
    {| c_key := k; c_lanes := c_lanes c; c_ecounter := c_ecounter c; c_off := c_off c |}.
  Definition with_off (c : ctr) (o : nat) : ctr :=
    {| c_key := c_key c; c_lanes := c_lanes c; c_ecounter := c_ecounter c; c_off := o |}.
  Definition reset_stream (c : ctr) : ctr := with_off c BS.

  (* calloc'ed context, offset set to "empty" *)
  Definition ctr_fresh (k0 : K) : ctr :=
    {| c_key := k0; c_lanes := repeat (zeros bs) B; c_ecounter := zeros BS; c_off := BS |}.

  Definition stagger (blk : list byte) : list (list byte) :=
    map (fun k => inc_counter blk (N.of_nat k)) (seq 0 B).

  (* *_set_counter *)
  Definition set_counter (c : ctr) (cnt : buf) (size : N) : N * ctr :=
    if N.leb size (N.of_nat bs) then
      let n := N.to_nat size in
      let blk := match cnt with
                 | Some b => zeros (bs - n) ++ pad_to n b
                 | None => zeros bs
                 end in
      (1%N, {| c_key := c_key c; c_lanes := stagger blk;
               c_ecounter := c_ecounter c; c_off := BS |})
    else (0%N, c).

  (* a new batch of keystream; every lane then advances by B *)
  Definition refill (c : ctr) : ctr :=
    {| c_key := c_key c;
       c_lanes := map (fun l => inc_counter l (N.of_nat B)) (c_lanes c);
       c_ecounter := concat (map (E (c_key c)) (c_lanes c));
       c_off := c_off c |}.

  (* the while loop of *_ctr_*_encrypt; None = fuel exhausted (excluded by
     crypt_loop_fuel in the proofs) *)
  Fixpoint crypt_loop (fuel : nat) (c : ctr) (inp : list byte) : option (ctr * list byte) :=
    match inp with
    | [] => Some (c, [])
    | _ :: _ =>
      match fuel with
      | O => None
      | S f =>
        if Nat.leb BS (c_off c) then
          let c1 := refill c in
          if Nat.leb BS (length inp) then
            match crypt_loop f c1 (skipn BS inp) with
            | Some (c2, out) => Some (c2, xor_bytes (firstn BS inp) (c_ecounter c1) ++ out)
            | None => None
            end
          else Some (with_off c1 (length inp), xor_bytes inp (c_ecounter c1))
        else
          let temp := Nat.min (BS - c_off c) (length inp) in
          match crypt_loop f (with_off c (c_off c + temp)) (skipn temp inp) with
          | Some (c2, out) =>
              Some (c2, xor_bytes (firstn temp inp) (skipn (c_off c) (c_ecounter c)) ++ out)
          | None => None
          end
      end
    end.

  Definition crypt (c : ctr) (inp : list byte) : option (ctr * list byte) :=
    crypt_loop (S (length inp)) c inp.
End Ctr.

Arguments c_key {K}. Arguments c_lanes {K}. Arguments c_ecounter {K}. Arguments c_off {K}.

(* ------------------------------------------------------------------ *)
(* Parallel ECB: batches through the vector function, then single blocks *)
Fixpoint chunks (fuel n : nat) (l : list byte) : list (list byte) :=
  match fuel with
  | O => []
  | S f => match l with
           | [] => []
           | _ => firstn n l :: chunks f n (skipn n l)
           end
  end.
Definition blocks (bs : nat) (l : list byte) : list (list byte) := chunks (length l) bs l.

Section Par.
  Variable bs : nat.
  Variable f : list byte -> list byte -> list byte.   (* tweak -> block -> block *)

  (* what a vector back end computes on one batch (tie T: lane-wise equal
     to the single-block function) *)
  Definition vec_batch (tw data : list byte) : list byte :=
    concat (map (fun p => f (fst p) (snd p)) (combine (blocks bs tw) (blocks bs data))).

  Fixpoint single_loop (fuel : nat) (tw data : list byte) : list byte :=
    match fuel with
    | O => []
    | S fu => if Nat.leb bs (length data)
              then f (firstn bs tw) (firstn bs data) ++ single_loop fu (skipn bs tw) (skipn bs data)
              else []
    end.
  Fixpoint batch_loop (fuel psize : nat) (tw data : list byte) : list byte :=
    match fuel with
    | O => single_loop (length data) tw data
    | S fu => if Nat.leb psize (length data)
              then vec_batch (firstn psize tw) (firstn psize data)
                   ++ batch_loop fu psize (skipn psize tw) (skipn psize data)
              else single_loop (length data) tw data
    end.
  (* has_vtable = a vector back end was selected *)
  Definition par_crypt (has_vtable : bool) (psize : nat) (tw data : list byte) : list byte :=
    if has_vtable then batch_loop (length data) psize tw data
    else single_loop (length data) tw data.
End Par.
