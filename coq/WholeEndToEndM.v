(* WholeEndToEndM.v — the capstone of WholeEndToEnd.v for MANTIS: mantis_set_key's whole-function specification (encryption
   mode, R rounds; tied to the C code by the mkey* parts) run on any prior 40-byte schedule object, followed by
   mantis_ecb_crypt's own translated code (mblk* parts) on the resulting object, yields SpecMantis.mantis_enc under the
   zero tweak — every 16-byte key, every block, every prior content of every buffer. *)
From Coq Require Import List Bool NArith Arith Lia.
From Skinny Require Import Bits SpecSkinny SpecMantis IR SIR Anf IRCheck KernelSpecs KernelSpecs2 KernelHom KernelHom2 SIRCheck WholeSpecs SIRProofs Frame
                           ModelCipher ProofsMantis WholeBridge WholeKey WholeMantis WholeMantisKey WholeProc WholeCtr WholeCtrModel
                           WholeCompose WholeComposeM.
Import ListNotations.

Theorem c_mantis_set_key_then_crypt_spec :
  forall code fuel R pl pl' sh' c t,                                      (* mantis_ecb_crypt at R rounds *)
  5 <= R <= 8 ->
  flat [mksfA] fuel pl [(mksfA, N.of_nat R)] code = Some (pl', sh', c, t) ->
  check_block callP msizesA c (msteps poly pxor pand pzero pone layA 24 R) (msteps bool xorb andb false true layA 24 R) = true ->
  forall (key ks0 out blk rcj Tj Kj Xj : list byte) (rest : mem bool),
  length key = 16 -> length ks0 = 40 -> length out = 8 -> length blk = 8 -> length rcj = 64 -> length Tj = 8 -> length Kj = 8 -> length Xj = 8 ->
  let ksobj := nth 0 (w_mantis_set_key bool xorb false true R true (bitsB ks0 :: bitsB key :: rest)) [] in
  exists st', interp [mksfA] callB fuel pl (([bitsB out; bitsB blk; ksobj; bitsB rcj; bitsB Tj; bitsB Kj; bitsB Xj] : mem bool), []) code
              = Some (pl', st', t)
    /\ nth 0 (fst st') [] = bitsB (mantis_enc R key (zeros 8) blk)
    /\ nth 1 (fst st') [] = bitsB blk /\ nth 2 (fst st') [] = ksobj.
Proof.
  intros code fuel R pl pl' sh' c t HR Hflat Hcheck key ks0 out blk rcj Tj Kj Xj rest Hk Hks Ho Hb Hrc HT HK HX. cbv zeta. unfold byte in *.
  destruct (w_mantis_set_key_model R 1%N key (bitsB ks0) rest Hk HR) as [_ HW]; [rewrite map_length; unfold byte in *; lia|].
  cbv zeta in HW. change (N.eqb 1 1) with true in HW. unfold byte in *. rewrite HW. cbn [nth]. clear HW.
  destruct (mantis_model_spec (mantis_fresh nib0) key (zeros 8) blk (N.of_nat R) Hk eq_refl Hb ltac:(lia))
    as (ke & kd & Hke & _ & Hcr & _).
  unfold byte in *. rewrite Hke. cbn [snd].
  assert (Hrounds : N.to_nat (mk_rounds ke) = R).
  { unfold mantis_set_key in Hke.
    destruct ((N.eqb 16 16 && N.leb 5 (N.of_nat R) && N.leb (N.of_nat R) 8)%bool); [|discriminate].
    change (N.eqb 1 1) with true in Hke. cbv iota in Hke. inversion Hke. cbn [mk_rounds]. apply Nat2N.id. }
  rewrite Hrounds, skipn_map.
  set (tailrest := skipn 36 ks0).
  assert (Ht : length tailrest = 4) by (unfold tailrest; rewrite skipn_length; unfold byte in *; lia).
  change (rgb (mk_k0 ke) ++ rgb (mk_k0p ke) ++ rgb (mk_k1 ke) ++ rgb (mk_tweak ke) ++ rbytes R ++ bitsB tailrest) with (mimageR ke R tailrest).
  set (tail := map (c8_of_bits bool false) (rbytes R) ++ tailrest).
  assert (Ltail : length tail = 8).
  { unfold tail. rewrite app_length, map_length, rbytes_len. unfold byte in *. lia. }
  assert (LK : length (mimageR ke R tailrest) = 40).
  { rewrite mimageR_mimage. apply (mimage_region ke tail Ltail). }
  assert (HInv : SIRProofs.Inv [mksfA] [(mksfA, N.of_nat R)]
                   [bitsB out; bitsB blk; mimageR ke R tailrest; bitsB rcj; bitsB Tj; bitsB Kj; bitsB Xj]).
  { apply Inv_single.
    - unfold mksfA, mimageR.
      replace (rgb (mk_k0 ke) ++ rgb (mk_k0p ke) ++ rgb (mk_k1 ke) ++ rgb (mk_tweak ke) ++ rbytes R ++ bitsB tailrest)
        with ((rgb (mk_k0 ke) ++ rgb (mk_k0p ke) ++ rgb (mk_k1 ke) ++ rgb (mk_tweak ke)) ++ rbytes R ++ bitsB tailrest)
        by (rewrite <- !app_assoc; reflexivity).
      apply field_val_at; [rewrite !app_length, !rgb_len; reflexivity|].
      apply N.le_lt_trans with (m := 8%N); [lia | vm_compute; reflexivity].
    - unfold mksfA, field_inb. cbn [nth length]. rewrite LK. split; repeat constructor. }
  rewrite mimageR_mimage in *. fold tail in HInv |- *.
  destruct (mcryptA_final code fuel R pl [(mksfA, N.of_nat R)] pl' sh' c t ltac:(lia) Hflat Hcheck out blk tail rcj Tj Kj Xj ke
              Ho Hb Ltail Hrc HT HK HX Hrounds HInv) as [st' [Hint [Hout [H1 H2]]]].
  exists st'. repeat split; try assumption.
  rewrite Hout. f_equal. rewrite Hcr, Nat2N.id. reflexivity.
Qed.
Print Assumptions c_mantis_set_key_then_crypt_spec.
