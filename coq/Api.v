(* Api.v — the public API of the C library as one step function over a world
   of caller-side objects, a heap of library-allocated contexts, a CPU and an
   allocation-failure oracle.  This is what is extracted and run against the
   real library on the same operation scripts (harness/SCRIPT.md). *)
From Coq Require Import List Bool NArith Arith Lia.
From Skinny Require Import Bits SpecSkinny SpecMantis ModelCipher ModelCtr ModelCpu.
Import ListNotations.

(* ---------------- objects ---------------- *)
Inductive kind : Type := K128 | T128 | C128 | P128 | K64 | T64 | C64 | P64 | MK | MC | MP.

(* caller-side CTR object {vtable, ctx}: junk (uninitialised memory), inert
   (vtable NULL), or live: back end, heap block ordinal, context content *)
Inductive ctrobj (K : Type) : Type :=
| CJunk
| CNull
| CLive (be : backend) (blk : N) (st : ctr K).
Arguments CJunk {K}. Arguments CNull {K}. Arguments CLive {K}.

(* caller-side parallel object {vtable, ctx, parallel_size} *)
Inductive parobj (K : Type) : Type :=
| PJunk (fill : byte)
| PObj (vt : backend) (ctx : option (N * K)) (psize : N).
Arguments PJunk {K}. Arguments PObj {K}.

Inductive obj : Type :=
| OK128 (k : ks128) | OT128 (t : tks128) | OK64 (k : ks64) | OT64 (t : tks64)
| OMK (m : mantis_ks)
| OC128 (c : ctrobj tks128) | OC64 (c : ctrobj tks64) | OMC (c : ctrobj mantis_ks)
| OP128 (p : parobj ks128) | OP64 (p : parobj ks64) | OMP (p : parobj mantis_ks).

(* ---------------- heap and configuration ---------------- *)
Record heap : Type := {
  h_next : N;              (* ordinal of the next successful allocation *)
  h_live : list N;         (* blocks allocated and not yet freed *)
  h_fail : N }.            (* 0 = none; k = the k-th request from now fails *)

Inductive cpumode : Type :=
| CpuPinned (be : backend)        (* the real CPU, clamped *)
| CpuSim (c : cpu).

Record world : Type := {
  w_objs : list (N * obj);
  w_heap : heap;
  w_cpu : cpumode;
  w_ambient : N;
  w_build : build;         (* what the library under test was compiled with *)
  w_real : cpu }.          (* description of the real CPU, for pinned mode *)

Definition lookup (w : world) (id : N) : option obj :=
  match find (fun p => N.eqb (fst p) id) (w_objs w) with
  | Some p => Some (snd p)
  | None => None
  end.
Definition store_obj (w : world) (id : N) (o : obj) : world :=
  {| w_objs := (id, o) :: filter (fun p => negb (N.eqb (fst p) id)) (w_objs w);
     w_heap := w_heap w; w_cpu := w_cpu w; w_ambient := w_ambient w;
     w_build := w_build w; w_real := w_real w |}.
Definition with_heap (w : world) (h : heap) : world :=
  {| w_objs := w_objs w; w_heap := h; w_cpu := w_cpu w; w_ambient := w_ambient w;
     w_build := w_build w; w_real := w_real w |}.
Definition with_cpu (w : world) (m : cpumode) : world :=
  {| w_objs := w_objs w; w_heap := w_heap w; w_cpu := m; w_ambient := w_ambient w;
     w_build := w_build w; w_real := w_real w |}.
Definition with_ambient (w : world) (a : N) : world :=
  {| w_objs := w_objs w; w_heap := w_heap w; w_cpu := w_cpu w; w_ambient := a;
     w_build := w_build w; w_real := w_real w |}.

(* ---------------- events (result lines) ---------------- *)
Inductive event : Type :=
| EAlloc (n : N)
| EAllocFail
| EFree (n : N) (zero : bool)
| ERet (r : N)
| ERetOut (r : N) (out : list byte)
| EOut (out : list byte)
| EDone
| EImg (rounds : N) (bytes : list byte) (tweak : option (list byte))
| EWhich (b : option backend)
| EPsize (n : N)
| EProbe (a b : bool)
| EBad (why : N).       (* the script used an object in a way the model does not define *)

(* calloc through the failure oracle *)
Definition alloc (h : heap) : option N * heap * list event :=
  if N.eqb (h_fail h) 1 then
    (None, {| h_next := h_next h; h_live := h_live h; h_fail := 0 |}, [EAllocFail])
  else
    let n := h_next h in
    (Some n, {| h_next := N.succ n; h_live := n :: h_live h; h_fail := N.pred (h_fail h) |},
     [EAlloc n]).
Definition release (h : heap) (n : N) : heap :=
  {| h_next := h_next h; h_live := filter (fun m => negb (N.eqb m n)) (h_live h);
     h_fail := h_fail h |}.

(* ---------------- back end selection ---------------- *)
Definition clamp (be : backend) (c : cpu) : cpu :=
  match be with
  | BV256 => c
  | BV128 => {| max_leaf := max_leaf c; l1_ecx := l1_ecx c; l1_edx := l1_edx c;
                l7_ebx0 := N.clearbit (l7_ebx0 c) 5; l7_ebxN := N.clearbit (l7_ebxN c) 5;
                xcr0 := xcr0 c; oor_ebx := oor_ebx c |}
  | BDef => {| max_leaf := max_leaf c; l1_ecx := l1_ecx c; l1_edx := N.clearbit (l1_edx c) 26;
               l7_ebx0 := N.clearbit (l7_ebx0 c) 5; l7_ebxN := N.clearbit (l7_ebxN c) 5;
               xcr0 := xcr0 c; oor_ebx := oor_ebx c |}
  end.
Definition cur_cpu (w : world) : cpu :=
  match w_cpu w with CpuPinned be => clamp be (w_real w) | CpuSim c => c end.
Definition choose (wide : bool) (w : world) : backend :=
  select wide (w_build w) (cur_cpu w) (w_ambient w).

(* blocks per refill of a CTR back end *)
Definition batch128 (be : backend) : nat := match be with BDef => 1 | BV128 => 4 | BV256 => 8 end.
Definition batch64 (be : backend) : nat := match be with BDef => 1 | _ => 8 end.

(* ---------------- fresh objects ---------------- *)
Definition fill_half128 (f : byte) : half byte := ((f, f, f, f), (f, f, f, f)).
Definition fill_half64 (f : byte) : half nib :=
  ((c8hi f, c8lo f, c8hi f, c8lo f), (c8hi f, c8lo f, c8hi f, c8lo f)).
Definition word32_of_fill (f : byte) : N :=
  let v := N_of_byte f in (v + 256 * v + 65536 * v + 16777216 * v)%N.
Definition word64_of_fill (f : byte) : N :=
  (word32_of_fill f + 4294967296 * word32_of_fill f)%N.
Definition is_zero_byte (f : byte) : bool := N.eqb (N_of_byte f) 0.

Definition fresh_k128 (f : byte) : ks128 :=
  {| ks_rounds := word32_of_fill f; ks_sched := repeat (fill_half128 f) 56 |}.
Definition fresh_k64 (f : byte) : ks64 :=
  {| ks_rounds := word32_of_fill f; ks_sched := repeat (fill_half64 f) 40 |}.
Definition fresh_mk (f : byte) : mantis_ks :=
  let r := (c8hi f, c8lo f, c8hi f, c8lo f) in let s := (r, r, r, r) in
  {| mk_k0 := s; mk_k0p := s; mk_k1 := s; mk_tweak := s; mk_rounds := word32_of_fill f |}.

Definition new_obj (k : kind) (f : byte) : obj :=
  let z := is_zero_byte f in
  match k with
  | K128 => OK128 (fresh_k128 f)
  | T128 => OT128 {| tk_ks := fresh_k128 f; tk_tweak := repeat f 16 |}
  | K64 => OK64 (fresh_k64 f)
  | T64 => OT64 {| tk_ks := fresh_k64 f; tk_tweak := repeat f 8 |}
  | MK => OMK (fresh_mk f)
  | C128 => OC128 (if z then CNull else CJunk)
  | C64 => OC64 (if z then CNull else CJunk)
  | MC => OMC (if z then CNull else CJunk)
  | P128 => OP128 (if z then PObj BDef None 0 else PJunk f)
  | P64 => OP64 (if z then PObj BDef None 0 else PJunk f)
  | MP => OMP (if z then PObj BDef None 0 else PJunk f)
  end.

(* contexts as calloc returns them *)
Definition zero_tks128 : tks128 := {| tk_ks := fresh_k128 byte0; tk_tweak := zeros 16 |}.
Definition zero_tks64 : tks64 := {| tk_ks := fresh_k64 byte0; tk_tweak := zeros 8 |}.
Definition zero_mk : mantis_ks := fresh_mk byte0.

(* ---------------- operations ---------------- *)
Inductive op : Type :=
| ONew (k : kind) (id : N) (fill : byte)
| OCfgBackend (be : backend)
| OCfgCpuReal
| OCfgCpuSim (c : cpu)
| OCfgAmbient (a : N)
| OCfgFail (k : N)
| OProbe
(* key schedules *)
| OSetKey (k : kind) (o : option N) (key : buf) (size : N)          (* K*, C*, P* *)
| OSetTweakedKey (k : kind) (o : option N) (key : buf) (size : N)   (* T*, C128, C64 *)
| OSetTweak (k : kind) (o : option N) (tw : buf) (size : N)         (* T*, C*, MK, MC *)
| OMSetKey (k : kind) (o : option N) (key : buf) (size rounds mode : N)  (* MK, MC, MP *)
| OSwap (k : kind) (o : option N)                                   (* MK, MP *)
| OEnc (k : kind) (o : option N) (blk : list byte)                  (* K*, T*, MK (crypt) *)
| ODec (k : kind) (o : option N) (blk : list byte)
| OCryptT (o : option N) (blk tw : list byte)                       (* MK *)
| OImg (k : kind) (o : option N)
(* CTR and parallel objects *)
| OInit (k : kind) (o : option N)
| OCleanup (k : kind) (o : option N)
| OSetCtr (k : kind) (o : option N) (c : buf) (size : N)
| OCrypt (k : kind) (o : option N) (inp : buf) (size : N) (outnull : bool)
| OParEnc (k : kind) (o : option N) (data : list byte) (size : N)
| OParDec (k : kind) (o : option N) (data : list byte) (size : N)
| OMParCrypt (o : option N) (data tw : list byte) (size : N)
| OWhich (k : kind) (o : option N)
| OPsize (k : kind) (o : option N).

Definition bad (w : world) (n : N) : world * list event := (w, [EBad n]).
Definition ret0 (w : world) : world * list event := (w, [ERet 0]).

(* generic CTR plumbing ------------------------------------------------ *)
Section CtrOps.
  Variable K : Type.
  Variable E : K -> list byte -> list byte.
  Variable bs : nat.
  Variable batch : backend -> nat.
  Variable wide : bool.
  Variable zero_key : K.
  Variable wrap : ctrobj K -> obj.

  Definition ctr_init (w : world) (id : N) : world * list event :=
    let be := choose wide w in
    let '(r, h, ev) := alloc (w_heap w) in
    match r with
    | None => (store_obj (with_heap w h) id (wrap CNull), ev ++ [ERet 0])
    | Some n =>
        let c0 := ctr_fresh K bs (batch be) zero_key in
        let c1 := snd (set_counter K bs (batch be) c0 None 0) in
        (store_obj (with_heap w h) id (wrap (CLive be n c1)), ev ++ [ERet 1])
    end.
  Definition ctr_cleanup (w : world) (id : N) (c : ctrobj K) : world * list event :=
    match c with
    | CJunk => bad w 1
    | CNull => (w, [EDone])
    | CLive be n st =>
        (store_obj (with_heap w (release (w_heap w) n)) id (wrap CNull), [EFree n true; EDone])
    end.
  (* a setter that goes through the vtable: f acts on the context's key object *)
  Definition ctr_setter (w : world) (id : N) (c : ctrobj K)
             (f : K -> N * K) : world * list event :=
    match c with
    | CJunk => bad w 1
    | CNull => ret0 w
    | CLive be n st =>
        let '(r, k') := f (c_key st) in
        if N.eqb r 0 then ret0 w
        else (store_obj w id (wrap (CLive be n (reset_stream K bs (batch be) (with_key K st k')))),
              [ERet 1])
    end.
  Definition ctr_setctr (w : world) (id : N) (c : ctrobj K) (cnt : buf) (size : N)
    : world * list event :=
    match c with
    | CJunk => bad w 1
    | CNull => ret0 w
    | CLive be n st =>
        let '(r, st') := set_counter K bs (batch be) st cnt size in
        if N.eqb r 0 then ret0 w else (store_obj w id (wrap (CLive be n st')), [ERet r])
    end.
  Definition ctr_crypt (w : world) (id : N) (c : ctrobj K) (inp : buf) (size : N)
             (outnull : bool) : world * list event :=
    match c with
    | CJunk => bad w 1
    | CNull => ret0 w
    | CLive be n st =>
        match inp with
        | None => ret0 w
        | Some data =>
            if outnull then ret0 w
            else match crypt K E bs (batch be) st (pad_to (N.to_nat size) data) with
                 | Some (st', out) => (store_obj w id (wrap (CLive be n st')), [ERetOut 1 out])
                 | None => bad w 2
                 end
        end
    end.
  Definition ctr_which (c : ctrobj K) : list event :=
    match c with
    | CJunk => [EBad 1]
    | CNull => [EWhich None]
    | CLive be _ _ => [EWhich (Some be)]
    end.
End CtrOps.

(* generic parallel plumbing ------------------------------------------- *)
Section ParOps.
  Variable K : Type.
  Variable bs : nat.
  Variable wide : bool.
  Variable zero_key : K.
  Variable wrap : parobj K -> obj.

  Definition par_psize (be : backend) : N :=
    if wide then match be with BV256 => 128 | _ => 64 end else 64.

  Definition par_init (w : world) (id : N) (old : parobj K) : world * list event :=
    let '(r, h, ev) := alloc (w_heap w) in
    match r with
    | None =>
        (* the repaired failure path clears vtable and ctx, parallel_size stays *)
        match old with
        | PJunk f => (store_obj (with_heap w h) id (wrap (PObj BDef None (word64_of_fill f))),
                      ev ++ [ERet 0])
        | PObj _ _ ps => (store_obj (with_heap w h) id (wrap (PObj BDef None ps)), ev ++ [ERet 0])
        end
    | Some n =>
        let be := choose wide w in
        (store_obj (with_heap w h) id (wrap (PObj be (Some (n, zero_key)) (par_psize be))),
         ev ++ [ERet 1])
    end.
  Definition par_cleanup (w : world) (id : N) (p : parobj K) : world * list event :=
    match p with
    | PJunk _ => bad w 1
    | PObj vt None ps => (w, [EDone])
    | PObj vt (Some (n, _)) ps =>
        (store_obj (with_heap w (release (w_heap w) n)) id (wrap (PObj vt None ps)),
         [EFree n true; EDone])
    end.
  Definition par_setter (w : world) (id : N) (p : parobj K) (f : K -> N * K)
    : world * list event :=
    match p with
    | PJunk _ => bad w 1
    | PObj vt None ps => ret0 w
    | PObj vt (Some (n, k)) ps =>
        let '(r, k') := f k in
        if N.eqb r 0 then ret0 w
        else (store_obj w id (wrap (PObj vt (Some (n, k')) ps)), [ERet r])
    end.
  Definition par_run (w : world) (p : parobj K) (size : N)
             (f : K -> list byte -> list byte -> list byte) (tw data : list byte)
    : world * list event :=
    match p with
    | PJunk _ => bad w 1
    | PObj vt None ps => ret0 w
    | PObj vt (Some (n, k)) ps =>
        if negb (N.eqb (N.modulo size (N.of_nat bs)) 0) then ret0 w
        else
          let sz := N.to_nat size in
          let has_vt := match vt with BDef => false | _ => true end in
          (w, [ERetOut 1 (par_crypt bs (f k) has_vt (N.to_nat ps) (pad_to sz tw) (pad_to sz data))])
    end.
  Definition par_which (p : parobj K) : list event :=
    match p with
    | PJunk _ => [EBad 1]
    | PObj vt _ _ => [EWhich (Some vt)]
    end.
  Definition par_psize_ev (p : parobj K) : list event :=
    match p with
    | PJunk _ => [EBad 1]
    | PObj _ _ ps => [EPsize ps]
    end.
End ParOps.

(* instances ------------------------------------------------------------ *)
Definition E128 (t : tks128) : list byte -> list byte := m128_encrypt (tk_ks byte t).
Definition E64 (t : tks64) : list byte -> list byte := m64_encrypt (tk_ks nib t).

Definition set_plain128 (t : tks128) (key : buf) (size : N) : N * tks128 :=
  let '(r, k) := m128_set_key (tk_ks byte t) key size in
  (r, {| tk_ks := k; tk_tweak := tk_tweak byte t |}).
Definition set_plain64 (t : tks64) (key : buf) (size : N) : N * tks64 :=
  let '(r, k) := m64_set_key (tk_ks nib t) key size in
  (r, {| tk_ks := k; tk_tweak := tk_tweak nib t |}).

(* the vtable setters reject a NULL key before looking at the context *)
Definition nonnull (b : buf) : bool := match b with Some _ => true | None => false end.

Definition out_blk (bs : nat) (l : list byte) : list byte := pad_to bs l.

Definition step (w : world) (o : op) : world * list event :=
  match o with
  | ONew k id f => (store_obj w id (new_obj k f), [])
  | OCfgBackend be => (with_cpu w (CpuPinned be), [])
  | OCfgCpuReal => (with_cpu w (CpuPinned BV256), [])
  | OCfgCpuSim c => (with_cpu w (CpuSim c), [])
  | OCfgAmbient a => (with_ambient w a, [])
  | OCfgFail k =>
      (with_heap w {| h_next := h_next (w_heap w); h_live := h_live (w_heap w); h_fail := k |}, [])
  | OProbe => (w, [EProbe (probe128 (w_build w) (cur_cpu w) (w_ambient w))
                          (probe256 (w_build w) (cur_cpu w) (w_ambient w))])

  | OSetKey k None _ _ => ret0 w
  | OSetKey k (Some id) key size =>
      match k, lookup w id with
      | K128, Some (OK128 ks) =>
          let '(r, ks') := m128_set_key ks key size in
          if N.eqb r 0 then ret0 w else (store_obj w id (OK128 ks'), [ERet r])
      | K64, Some (OK64 ks) =>
          let '(r, ks') := m64_set_key ks key size in
          if N.eqb r 0 then ret0 w else (store_obj w id (OK64 ks'), [ERet r])
      | C128, Some (OC128 c) =>
          ctr_setter tks128 16 batch128 OC128 w id c (fun t => set_plain128 t key size)
      | C64, Some (OC64 c) =>
          ctr_setter tks64 8 batch64 OC64 w id c (fun t => set_plain64 t key size)
      | P128, Some (OP128 p) => par_setter ks128 OP128 w id p (fun ks => m128_set_key ks key size)
      | P64, Some (OP64 p) => par_setter ks64 OP64 w id p (fun ks => m64_set_key ks key size)
      | _, _ => bad w 9
      end

  | OSetTweakedKey k None _ _ => ret0 w
  | OSetTweakedKey k (Some id) key size =>
      match k, lookup w id with
      | T128, Some (OT128 t) =>
          let '(r, t') := m128_set_tweaked_key t key size in
          if N.eqb r 0 then ret0 w else (store_obj w id (OT128 t'), [ERet r])
      | T64, Some (OT64 t) =>
          let '(r, t') := m64_set_tweaked_key t key size in
          if N.eqb r 0 then ret0 w else (store_obj w id (OT64 t'), [ERet r])
      | C128, Some (OC128 c) =>
          ctr_setter tks128 16 batch128 OC128 w id c (fun t => m128_set_tweaked_key t key size)
      | C64, Some (OC64 c) =>
          ctr_setter tks64 8 batch64 OC64 w id c (fun t => m64_set_tweaked_key t key size)
      | _, _ => bad w 9
      end

  | OSetTweak k None _ _ => ret0 w
  | OSetTweak k (Some id) tw size =>
      match k, lookup w id with
      | T128, Some (OT128 t) =>
          let '(r, t') := m128_set_tweak t tw size in
          if N.eqb r 0 then ret0 w else (store_obj w id (OT128 t'), [ERet r])
      | T64, Some (OT64 t) =>
          let '(r, t') := m64_set_tweak t tw size in
          if N.eqb r 0 then ret0 w else (store_obj w id (OT64 t'), [ERet r])
      | MK, Some (OMK m) =>
          let '(r, m') := mantis_set_tweak m tw size in
          if N.eqb r 0 then ret0 w else (store_obj w id (OMK m'), [ERet r])
      | C128, Some (OC128 c) =>
          ctr_setter tks128 16 batch128 OC128 w id c (fun t => m128_set_tweak t tw size)
      | C64, Some (OC64 c) =>
          ctr_setter tks64 8 batch64 OC64 w id c (fun t => m64_set_tweak t tw size)
      | MC, Some (OMC c) =>
          ctr_setter mantis_ks 8 batch64 OMC w id c (fun m => mantis_set_tweak m tw size)
      | _, _ => bad w 9
      end

  | OMSetKey k None _ _ _ _ => ret0 w
  | OMSetKey k (Some id) key size rounds mode =>
      match k, lookup w id with
      | MK, Some (OMK m) =>
          let '(r, m') := mantis_set_key m key size rounds mode in
          if N.eqb r 0 then ret0 w else (store_obj w id (OMK m'), [ERet r])
      | MC, Some (OMC c) =>
          ctr_setter mantis_ks 8 batch64 OMC w id c
                          (fun m => mantis_set_key m key size rounds 1)
      | MP, Some (OMP p) =>
          par_setter mantis_ks OMP w id p (fun m => mantis_set_key m key size rounds mode)
      | _, _ => bad w 9
      end

  | OSwap k None => (match k with MP => (w, [EDone]) | _ => bad w 8 end)
  | OSwap k (Some id) =>
      match k, lookup w id with
      | MK, Some (OMK m) => (store_obj w id (OMK (mantis_swap_modes m)), [EDone])
      | MP, Some (OMP p) =>
          match p with
          | PJunk _ => bad w 1
          | PObj vt None ps => (w, [EDone])
          | PObj vt (Some (n, m)) ps =>
              (store_obj w id (OMP (PObj vt (Some (n, mantis_swap_modes m)) ps)), [EDone])
          end
      | _, _ => bad w 9
      end

  | OEnc k None _ => bad w 8
  | OEnc k (Some id) blk =>
      match k, lookup w id with
      | K128, Some (OK128 ks) => (w, [EOut (m128_encrypt ks (out_blk 16 blk))])
      | T128, Some (OT128 t) => (w, [EOut (m128_encrypt (tk_ks byte t) (out_blk 16 blk))])
      | K64, Some (OK64 ks) => (w, [EOut (m64_encrypt ks (out_blk 8 blk))])
      | T64, Some (OT64 t) => (w, [EOut (m64_encrypt (tk_ks nib t) (out_blk 8 blk))])
      | MK, Some (OMK m) => (w, [EOut (mantis_crypt m (out_blk 8 blk))])
      | _, _ => bad w 9
      end
  | ODec k None _ => bad w 8
  | ODec k (Some id) blk =>
      match k, lookup w id with
      | K128, Some (OK128 ks) => (w, [EOut (m128_decrypt ks (out_blk 16 blk))])
      | T128, Some (OT128 t) => (w, [EOut (m128_decrypt (tk_ks byte t) (out_blk 16 blk))])
      | K64, Some (OK64 ks) => (w, [EOut (m64_decrypt ks (out_blk 8 blk))])
      | T64, Some (OT64 t) => (w, [EOut (m64_decrypt (tk_ks nib t) (out_blk 8 blk))])
      | _, _ => bad w 9
      end
  | OCryptT None _ _ => bad w 8
  | OCryptT (Some id) blk tw =>
      match lookup w id with
      | Some (OMK m) => (w, [EOut (mantis_crypt_tweaked m (out_blk 8 tw) (out_blk 8 blk))])
      | _ => bad w 9
      end

  | OImg k None => bad w 8
  | OImg k (Some id) =>
      match k, lookup w id with
      | K128, Some (OK128 ks) => let '(r, b) := image128 ks in (w, [EImg r b None])
      | T128, Some (OT128 t) =>
          let '(r, b) := image128 (tk_ks byte t) in (w, [EImg r b (Some (tk_tweak byte t))])
      | K64, Some (OK64 ks) => let '(r, b) := image64 ks in (w, [EImg r b None])
      | T64, Some (OT64 t) =>
          let '(r, b) := image64 (tk_ks nib t) in (w, [EImg r b (Some (tk_tweak nib t))])
      | MK, Some (OMK m) => let '(r, b) := mantis_image m in (w, [EImg r b None])
      | _, _ => bad w 9
      end

  | OInit k None => ret0 w
  | OInit k (Some id) =>
      match k, lookup w id with
      | C128, Some (OC128 _) => ctr_init tks128 16 batch128 true zero_tks128 OC128 w id
      | C64, Some (OC64 _) => ctr_init tks64 8 batch64 false zero_tks64 OC64 w id
      | MC, Some (OMC _) => ctr_init mantis_ks 8 batch64 false zero_mk OMC w id
      | P128, Some (OP128 p) => par_init ks128 true (fresh_k128 byte0) OP128 w id p
      | P64, Some (OP64 p) => par_init ks64 false (fresh_k64 byte0) OP64 w id p
      | MP, Some (OMP p) => par_init mantis_ks false zero_mk OMP w id p
      | _, _ => bad w 9
      end
  | OCleanup k None => (w, [EDone])
  | OCleanup k (Some id) =>
      match k, lookup w id with
      | C128, Some (OC128 c) => ctr_cleanup tks128 OC128 w id c
      | C64, Some (OC64 c) => ctr_cleanup tks64 OC64 w id c
      | MC, Some (OMC c) => ctr_cleanup mantis_ks OMC w id c
      | P128, Some (OP128 p) => par_cleanup ks128 OP128 w id p
      | P64, Some (OP64 p) => par_cleanup ks64 OP64 w id p
      | MP, Some (OMP p) => par_cleanup mantis_ks OMP w id p
      | _, _ => bad w 9
      end

  | OSetCtr k None _ _ => ret0 w
  | OSetCtr k (Some id) cnt size =>
      match k, lookup w id with
      | C128, Some (OC128 c) => ctr_setctr tks128 16 batch128 OC128 w id c cnt size
      | C64, Some (OC64 c) => ctr_setctr tks64 8 batch64 OC64 w id c cnt size
      | MC, Some (OMC c) => ctr_setctr mantis_ks 8 batch64 OMC w id c cnt size
      | _, _ => bad w 9
      end
  | OCrypt k None _ _ _ => ret0 w
  | OCrypt k (Some id) inp size outnull =>
      match k, lookup w id with
      | C128, Some (OC128 c) => ctr_crypt tks128 E128 16 batch128 OC128 w id c inp size outnull
      | C64, Some (OC64 c) => ctr_crypt tks64 E64 8 batch64 OC64 w id c inp size outnull
      | MC, Some (OMC c) => ctr_crypt mantis_ks mantis_crypt 8 batch64 OMC w id c inp size outnull
      | _, _ => bad w 9
      end

  | OParEnc k None _ _ => ret0 w
  | OParEnc k (Some id) data size =>
      match k, lookup w id with
      | P128, Some (OP128 p) => par_run ks128 16 w p size (fun ks _ b => m128_encrypt ks b) data data
      | P64, Some (OP64 p) => par_run ks64 8 w p size (fun ks _ b => m64_encrypt ks b) data data
      | _, _ => bad w 9
      end
  | OParDec k None _ _ => ret0 w
  | OParDec k (Some id) data size =>
      match k, lookup w id with
      | P128, Some (OP128 p) => par_run ks128 16 w p size (fun ks _ b => m128_decrypt ks b) data data
      | P64, Some (OP64 p) => par_run ks64 8 w p size (fun ks _ b => m64_decrypt ks b) data data
      | _, _ => bad w 9
      end
  | OMParCrypt None _ _ _ => ret0 w
  | OMParCrypt (Some id) data tw size =>
      match lookup w id with
      | Some (OMP p) => par_run mantis_ks 8 w p size mantis_crypt_tweaked tw data
      | _ => bad w 9
      end

  | OWhich k None => bad w 8
  | OWhich k (Some id) =>
      match lookup w id with
      | Some (OC128 c) => (w, ctr_which tks128 c)
      | Some (OC64 c) => (w, ctr_which tks64 c)
      | Some (OMC c) => (w, ctr_which mantis_ks c)
      | Some (OP128 p) => (w, par_which ks128 p)
      | Some (OP64 p) => (w, par_which ks64 p)
      | Some (OMP p) => (w, par_which mantis_ks p)
      | _ => bad w 9
      end
  | OPsize k None => bad w 8
  | OPsize k (Some id) =>
      match lookup w id with
      | Some (OP128 p) => (w, par_psize_ev ks128 p)
      | Some (OP64 p) => (w, par_psize_ev ks64 p)
      | Some (OMP p) => (w, par_psize_ev mantis_ks p)
      | _ => bad w 9
      end
  end.

Definition run (w : world) (ops : list op) : world * list (list event) :=
  fold_left (fun acc o => let '(w', ev) := step (fst acc) o in (w', snd acc ++ [ev])) ops (w, []).

Definition init_world (b : build) (real : cpu) : world :=
  {| w_objs := []; w_heap := {| h_next := 1; h_live := []; h_fail := 0 |};
     w_cpu := CpuPinned BV256; w_ambient := 0; w_build := b; w_real := real |}.
