(* KernelHom3.v — the SIMD (row-sliced) specification steps of KernelSpecs3.v:
   1. each commutes with a homomorphism of bit carriers, in particular with [peval rho : poly -> bool]
      ([spec_hom] premises of IRCheck.check_kernel_sound / check_segments), for every lane count n;
   2. on the bool carrier (in fact on any carrier) a vector step is the scalar step of KernelSpecs.v on every
      block, and the two layers of a vector round compose lane-wise to the scalar round. *)
From Coq Require Import List Bool NArith Arith Lia.
From Skinny Require Import Bits SpecSkinny SpecMantis IR Anf IRCheck KernelSpecs KernelHom KernelSpecs3.
Import ListNotations.

(* ================================================================================================== *)
(* 1. a homomorphism h of bit carriers                                                                  *)
(* ================================================================================================== *)
Section CarrierHom3.
  Variables B1 B2 : Type.
  Variables (bx1 ba1 : B1 -> B1 -> B1) (z1 o1 : B1).
  Variables (bx2 ba2 : B2 -> B2 -> B2) (z2 o2 : B2).
  Variable h : B1 -> B2.
  Hypothesis h_bx : forall a b, h (bx1 a b) = bx2 (h a) (h b).
  Hypothesis h_ba : forall a b, h (ba1 a b) = ba2 (h a) (h b).
  Hypothesis h_z : h z1 = z2.
  Hypothesis h_o : h o1 = o2.

  Notation hb := (map (map h)).
  Notation hm := (map (map (map h))).

  Lemma lane_bytes_homG : forall j (r : list (list B1)),
    hb (lane_bytes B1 j r) = lane_bytes B2 j (hb r).
  Proof. intros j r. unfold lane_bytes. rewrite <- firstn_map, <- skipn_map. reflexivity. Qed.

  Lemma vblock_homG : forall (m : mem B1) j, hb (vblock B1 m j) = vblock B2 (hm m) j.
  Proof.
    intros m j. unfold vblock. rewrite !map_app, !lane_bytes_homG, !(reg_homG B1 B2 h). reflexivity.
  Qed.

  Lemma vrow_homG : forall i (blocks : list (list (list B1))),
    hb (vrow B1 i blocks) = vrow B2 i (map hb blocks).
  Proof.
    intros i blocks. unfold vrow. rewrite concat_map, !map_map. f_equal.
    apply map_ext. intros blk. rewrite <- firstn_map, <- skipn_map. reflexivity.
  Qed.

  Lemma vlift_homG : forall n (f1 : mem B1 -> mem B1) (f2 : mem B2 -> mem B2),
    (forall m, hm (f1 m) = f2 (hm m)) ->
    forall m, hm (vlift B1 n f1 m) = vlift B2 n f2 (hm m).
  Proof.
    intros n f1 f2 Hf m. unfold vlift. cbv zeta. cbn [map].
    rewrite !vrow_homG, <- (reg_homG B1 B2 h m 4).
    assert (E : map hb (map (fun j => reg B1 (f1 [vblock B1 m j; reg B1 m 4]) 0) (seq 0 n)) =
                map (fun j => reg B2 (f2 [vblock B2 (hm m) j; reg B2 (hm m) 4]) 0) (seq 0 n)).
    { rewrite map_map. apply map_ext. intros j.
      rewrite <- (reg_homG B1 B2 h), Hf. cbn [map].
      rewrite vblock_homG, (reg_homG B1 B2 h m 4). reflexivity. }
    rewrite E. reflexivity.
  Qed.

  Lemma spec_allbytes_homG : forall f1 f2, (forall l, map h (f1 l) = f2 (map h l)) ->
    forall m, hm (spec_allbytes B1 f1 m) = spec_allbytes B2 f2 (hm m).
  Proof.
    intros f1 f2 Hf m. unfold spec_allbytes. rewrite !map_map. apply map_ext. intros r.
    rewrite !map_map. apply map_ext, Hf.
  Qed.

  Lemma kv128_subcells_homG : forall n m,
    hm (kv128_subcells B1 bx1 ba1 z1 o1 n m) = kv128_subcells B2 bx2 ba2 z2 o2 n (hm m).
  Proof.
    intros n. apply vlift_homG.
    exact (k128_subcells_homG B1 B2 bx1 ba1 z1 o1 bx2 ba2 z2 o2 h h_bx h_ba h_z h_o).
  Qed.
  Lemma kv128_subcells_inv_homG : forall n m,
    hm (kv128_subcells_inv B1 bx1 ba1 z1 o1 n m) = kv128_subcells_inv B2 bx2 ba2 z2 o2 n (hm m).
  Proof.
    intros n. apply vlift_homG.
    exact (k128_subcells_inv_homG B1 B2 bx1 ba1 z1 o1 bx2 ba2 z2 o2 h h_bx h_ba h_z h_o).
  Qed.
  Lemma kv128_enc_linear_homG : forall n m,
    hm (kv128_enc_linear B1 bx1 z1 o1 n m) = kv128_enc_linear B2 bx2 z2 o2 n (hm m).
  Proof.
    intros n. apply vlift_homG.
    exact (k128_enc_linear_homG B1 B2 bx1 z1 o1 bx2 z2 o2 h h_bx h_z h_o).
  Qed.
  Lemma kv128_dec_linear_homG : forall n m,
    hm (kv128_dec_linear B1 bx1 z1 o1 n m) = kv128_dec_linear B2 bx2 z2 o2 n (hm m).
  Proof.
    intros n. apply vlift_homG.
    exact (k128_dec_linear_homG B1 B2 bx1 z1 o1 bx2 z2 o2 h h_bx h_z h_o).
  Qed.
  Lemma kv_sbox128_homG : forall m,
    hm (kv_sbox128 B1 bx1 ba1 z1 o1 m) = kv_sbox128 B2 bx2 ba2 z2 o2 (hm m).
  Proof.
    apply spec_allbytes_homG. apply (on_byte8_homG B1 B2 z1 z2 h h_z).
    exact (h8_S8 B1 B2 bx1 ba1 o1 bx2 ba2 o2 h h_bx h_ba h_o).
  Qed.
  Lemma kv_inv_sbox128_homG : forall m,
    hm (kv_inv_sbox128 B1 bx1 ba1 z1 o1 m) = kv_inv_sbox128 B2 bx2 ba2 z2 o2 (hm m).
  Proof.
    apply spec_allbytes_homG. apply (on_byte8_homG B1 B2 z1 z2 h h_z).
    exact (h8_S8inv B1 B2 bx1 ba1 o1 bx2 ba2 o2 h h_bx h_ba h_o).
  Qed.
End CarrierHom3.

(* ================================================================================================== *)
(* 2. the instance h = peval rho : poly -> bool                                                         *)
(* ================================================================================================== *)
Lemma kv128_subcells_hom : forall n sizes,
  spec_hom sizes (kv128_subcells poly pxor pand pzero pone n) (kv128_subcells bool xorb andb false true n).
Proof. intros n. hom_by kv128_subcells_homG. Qed.
Lemma kv128_subcells_inv_hom : forall n sizes,
  spec_hom sizes (kv128_subcells_inv poly pxor pand pzero pone n)
                 (kv128_subcells_inv bool xorb andb false true n).
Proof. intros n. hom_by kv128_subcells_inv_homG. Qed.
Lemma kv128_enc_linear_hom : forall n sizes,
  spec_hom sizes (kv128_enc_linear poly pxor pzero pone n) (kv128_enc_linear bool xorb false true n).
Proof. intros n. hom_by kv128_enc_linear_homG. Qed.
Lemma kv128_dec_linear_hom : forall n sizes,
  spec_hom sizes (kv128_dec_linear poly pxor pzero pone n) (kv128_dec_linear bool xorb false true n).
Proof. intros n. hom_by kv128_dec_linear_homG. Qed.
Lemma kv_sbox128_hom : forall sizes,
  spec_hom sizes (kv_sbox128 poly pxor pand pzero pone) (kv_sbox128 bool xorb andb false true).
Proof. hom_by kv_sbox128_homG. Qed.
Lemma kv_inv_sbox128_hom : forall sizes,
  spec_hom sizes (kv_inv_sbox128 poly pxor pand pzero pone) (kv_inv_sbox128 bool xorb andb false true).
Proof. hom_by kv_inv_sbox128_homG. Qed.

(* ================================================================================================== *)
(* 3. lane-wise meaning (any carrier; no polynomials involved)                                          *)
(* ================================================================================================== *)
Section Lanes.
  Variable B : Type.
  Variables (bx ba : B -> B -> B) (b0 b1 : B).

  (* the j-th group of 4 in a concatenation of groups of 4 *)
  Lemma firstn_skipn_concat4 : forall (l : list (list (list B))) j,
    Forall (fun x => length x = 4) l ->
    firstn 4 (skipn (4 * j) (concat l)) = nth j l [].
  Proof.
    intros l. induction l as [|a l IH]; intros j Hl.
    - cbn [concat]. rewrite skipn_nil, firstn_nil. destruct j; reflexivity.
    - inversion Hl as [|? ? Ha Hl']; subst. cbn [concat]. destruct j as [|j].
      + rewrite Nat.mul_0_r. cbn [skipn nth]. rewrite firstn_app, Ha, Nat.sub_diag, firstn_O, app_nil_r.
        apply firstn_all2. lia.
      + cbn [nth]. rewrite <- (IH j Hl'). f_equal.
        replace (4 * S j) with (length a + 4 * j) by lia.
        rewrite skipn_app, Nat.add_comm, Nat.add_sub.
        rewrite (skipn_all2 a) by lia. reflexivity.
  Qed.

  Lemma length_firstn4_skipn : forall i (blk : list (list B)), i < 4 -> length blk = 16 ->
    length (firstn 4 (skipn (4 * i) blk)) = 4.
  Proof. intros i blk Hi Hb. rewrite firstn_length, skipn_length. lia. Qed.

  Lemma lane_bytes_vrow : forall i j (blocks : list (list (list B))), i < 4 ->
    Forall (fun blk => length blk = 16) blocks ->
    lane_bytes B j (vrow B i blocks) = firstn 4 (skipn (4 * i) (nth j blocks [])).
  Proof.
    intros i j blocks Hi Hb. unfold lane_bytes, vrow. rewrite firstn_skipn_concat4.
    - apply (nth_map_d (fun blk : list (list B) => firstn 4 (skipn (4 * i) blk))).
      rewrite skipn_nil. apply firstn_nil.
    - apply Forall_forall. intros x Hx. apply in_map_iff in Hx. destruct Hx as [blk [<- Hin]].
      apply length_firstn4_skipn; [exact Hi|]. rewrite Forall_forall in Hb. apply Hb, Hin.
  Qed.

  Lemma rows_of_block16 : forall blk : list (list B), length blk = 16 ->
    firstn 4 (skipn (4 * 0) blk) ++ firstn 4 (skipn (4 * 1) blk) ++
    firstn 4 (skipn (4 * 2) blk) ++ firstn 4 (skipn (4 * 3) blk) = blk.
  Proof.
    intros blk Hb.
    do 16 (destruct blk as [|? blk]; [discriminate Hb|]).
    destruct blk; [reflexivity|discriminate Hb].
  Qed.

  Lemma nth_map_seq : forall (A : Type) (g : nat -> A) n j d, j < n -> nth j (map g (seq 0 n)) d = g j.
  Proof.
    intros A g n j d Hj. rewrite (nth_indep _ d (g 0)) by (rewrite map_length, seq_length; exact Hj).
    rewrite map_nth, seq_nth by exact Hj. reflexivity.
  Qed.

  (* block j of a lifted step = the scalar step on block j *)
  Lemma vblock_vliftG : forall n (f : mem B -> mem B) m j, j < n ->
    (forall x, length (reg B (f x) 0) = 16) ->
    vblock B (vlift B n f m) j = reg B (f [vblock B m j; reg B m 4]) 0.
  Proof.
    intros n f m j Hj Hlen. unfold vlift. cbv zeta.
    set (blocks := map (fun j0 => reg B (f [vblock B m j0; reg B m 4]) 0) (seq 0 n)).
    assert (Hb : Forall (fun blk => length blk = 16) blocks).
    { apply Forall_forall. intros x Hx. apply in_map_iff in Hx. destruct Hx as [j0 [<- _]]. apply Hlen. }
    unfold vblock.
    change (reg B [vrow B 0 blocks; vrow B 1 blocks; vrow B 2 blocks; vrow B 3 blocks; reg B m 4] 0)
      with (vrow B 0 blocks).
    change (reg B [vrow B 0 blocks; vrow B 1 blocks; vrow B 2 blocks; vrow B 3 blocks; reg B m 4] 1)
      with (vrow B 1 blocks).
    change (reg B [vrow B 0 blocks; vrow B 1 blocks; vrow B 2 blocks; vrow B 3 blocks; reg B m 4] 2)
      with (vrow B 2 blocks).
    change (reg B [vrow B 0 blocks; vrow B 1 blocks; vrow B 2 blocks; vrow B 3 blocks; reg B m 4] 3)
      with (vrow B 3 blocks).
    rewrite !lane_bytes_vrow by (try exact Hb; lia).
    assert (E : nth j blocks [] = reg B (f [vblock B m j; reg B m 4]) 0).
    { unfold blocks. apply (nth_map_seq _ (fun j0 => reg B (f [vblock B m j0; reg B m 4]) 0)). exact Hj. }
    rewrite E. apply rows_of_block16, Hlen.
  Qed.

  Lemma vlift_schedG : forall n (f : mem B -> mem B) m, reg B (vlift B n f m) 4 = reg B m 4.
  Proof. reflexivity. Qed.

  (* the region-0 output of the four scalar steps has 16 bytes *)
  Lemma length_reg_of_state128 : forall s, length (reg_of_state128 B s) = 16.
  Proof. intros s. dstate s. reflexivity. Qed.
  Lemma length_k128_subcells : forall x, length (reg B (k128_subcells B bx ba b0 b1 x) 0) = 16.
  Proof. intros x. apply length_reg_of_state128. Qed.
  Lemma length_k128_subcells_inv : forall x, length (reg B (k128_subcells_inv B bx ba b0 b1 x) 0) = 16.
  Proof. intros x. apply length_reg_of_state128. Qed.
  Lemma length_k128_enc_linear : forall x, length (reg B (k128_enc_linear B bx b0 b1 x) 0) = 16.
  Proof. intros x. apply length_reg_of_state128. Qed.
  Lemma length_k128_dec_linear : forall x, length (reg B (k128_dec_linear B bx b0 b1 x) 0) = 16.
  Proof. intros x. apply length_reg_of_state128. Qed.

  (* one lane of each vector step *)
  Lemma kv128_subcells_laneG : forall n m j, j < n ->
    vblock B (kv128_subcells B bx ba b0 b1 n m) j =
    reg B (k128_subcells B bx ba b0 b1 [vblock B m j; reg B m 4]) 0.
  Proof. intros n m j Hj. apply vblock_vliftG; [exact Hj|apply length_k128_subcells]. Qed.
  Lemma kv128_subcells_inv_laneG : forall n m j, j < n ->
    vblock B (kv128_subcells_inv B bx ba b0 b1 n m) j =
    reg B (k128_subcells_inv B bx ba b0 b1 [vblock B m j; reg B m 4]) 0.
  Proof. intros n m j Hj. apply vblock_vliftG; [exact Hj|apply length_k128_subcells_inv]. Qed.
  Lemma kv128_enc_linear_laneG : forall n m j, j < n ->
    vblock B (kv128_enc_linear B bx b0 b1 n m) j =
    reg B (k128_enc_linear B bx b0 b1 [vblock B m j; reg B m 4]) 0.
  Proof. intros n m j Hj. apply vblock_vliftG; [exact Hj|apply length_k128_enc_linear]. Qed.
  Lemma kv128_dec_linear_laneG : forall n m j, j < n ->
    vblock B (kv128_dec_linear B bx b0 b1 n m) j =
    reg B (k128_dec_linear B bx b0 b1 [vblock B m j; reg B m 4]) 0.
  Proof. intros n m j Hj. apply vblock_vliftG; [exact Hj|apply length_k128_dec_linear]. Qed.

  (* the two layers of a vector round compose lane-wise to the scalar round *)
  Lemma kv128_round_laneG : forall n m j, j < n ->
    vblock B (kv128_enc_linear B bx b0 b1 n (kv128_subcells B bx ba b0 b1 n m)) j =
    reg B (k128_enc_linear B bx b0 b1 (k128_subcells B bx ba b0 b1 [vblock B m j; reg B m 4])) 0.
  Proof.
    intros n m j Hj. rewrite (kv128_enc_linear_laneG n _ j Hj), (kv128_subcells_laneG n m j Hj).
    reflexivity.
  Qed.
  Lemma kv128_round_inv_laneG : forall n m j, j < n ->
    vblock B (kv128_subcells_inv B bx ba b0 b1 n (kv128_dec_linear B bx b0 b1 n m)) j =
    reg B (k128_subcells_inv B bx ba b0 b1 (k128_dec_linear B bx b0 b1 [vblock B m j; reg B m 4])) 0.
  Proof.
    intros n m j Hj. rewrite (kv128_subcells_inv_laneG n _ j Hj), (kv128_dec_linear_laneG n m j Hj).
    reflexivity.
  Qed.
  Lemma kv128_round_schedG : forall n m,
    reg B (kv128_enc_linear B bx b0 b1 n (kv128_subcells B bx ba b0 b1 n m)) 4 = reg B m 4.
  Proof. reflexivity. Qed.
  Lemma kv128_round_inv_schedG : forall n m,
    reg B (kv128_subcells_inv B bx ba b0 b1 n (kv128_dec_linear B bx b0 b1 n m)) 4 = reg B m 4.
  Proof. reflexivity. Qed.
End Lanes.

(* ================================================================================================== *)
(* 4. the boolean instances                                                                             *)
(* ================================================================================================== *)
Definition blocks_of (n : nat) (m : mem bool) : list (list (list bool)) := map (vblock bool m) (seq 0 n).

Lemma vblock_vlift : forall n f m j, j < n -> (forall x, length (reg bool (f x) 0) = 16) ->
  vblock bool (vlift bool n f m) j = reg bool (f [vblock bool m j; reg bool m 4]) 0.
Proof. exact (vblock_vliftG bool). Qed.
Lemma vlift_sched : forall n f m, reg bool (vlift bool n f m) 4 = reg bool m 4.
Proof. reflexivity. Qed.

Lemma length_k128_subcells_bool : forall x,
  length (reg bool (k128_subcells bool xorb andb false true x) 0) = 16.
Proof. exact (length_k128_subcells bool xorb andb false true). Qed.
Lemma length_k128_subcells_inv_bool : forall x,
  length (reg bool (k128_subcells_inv bool xorb andb false true x) 0) = 16.
Proof. exact (length_k128_subcells_inv bool xorb andb false true). Qed.
Lemma length_k128_enc_linear_bool : forall x,
  length (reg bool (k128_enc_linear bool xorb false true x) 0) = 16.
Proof. exact (length_k128_enc_linear bool xorb false true). Qed.
Lemma length_k128_dec_linear_bool : forall x,
  length (reg bool (k128_dec_linear bool xorb false true x) 0) = 16.
Proof. exact (length_k128_dec_linear bool xorb false true). Qed.

Lemma kv128_subcells_lane : forall n m j, j < n ->
  vblock bool (kv128_subcells bool xorb andb false true n m) j =
  reg bool (k128_subcells bool xorb andb false true [vblock bool m j; reg bool m 4]) 0.
Proof. exact (kv128_subcells_laneG bool xorb andb false true). Qed.
Lemma kv128_subcells_inv_lane : forall n m j, j < n ->
  vblock bool (kv128_subcells_inv bool xorb andb false true n m) j =
  reg bool (k128_subcells_inv bool xorb andb false true [vblock bool m j; reg bool m 4]) 0.
Proof. exact (kv128_subcells_inv_laneG bool xorb andb false true). Qed.
Lemma kv128_enc_linear_lane : forall n m j, j < n ->
  vblock bool (kv128_enc_linear bool xorb false true n m) j =
  reg bool (k128_enc_linear bool xorb false true [vblock bool m j; reg bool m 4]) 0.
Proof. exact (kv128_enc_linear_laneG bool xorb false true). Qed.
Lemma kv128_dec_linear_lane : forall n m j, j < n ->
  vblock bool (kv128_dec_linear bool xorb false true n m) j =
  reg bool (k128_dec_linear bool xorb false true [vblock bool m j; reg bool m 4]) 0.
Proof. exact (kv128_dec_linear_laneG bool xorb false true). Qed.

Lemma kv128_round_lane : forall n m j, j < n ->
  vblock bool (kv128_enc_linear bool xorb false true n (kv128_subcells bool xorb andb false true n m)) j
  = reg bool (k128_enc_linear bool xorb false true
               (k128_subcells bool xorb andb false true [vblock bool m j; reg bool m 4])) 0.
Proof. exact (kv128_round_laneG bool xorb andb false true). Qed.
Lemma kv128_round_inv_lane : forall n m j, j < n ->
  vblock bool (kv128_subcells_inv bool xorb andb false true n (kv128_dec_linear bool xorb false true n m)) j
  = reg bool (k128_subcells_inv bool xorb andb false true
               (k128_dec_linear bool xorb false true [vblock bool m j; reg bool m 4])) 0.
Proof. exact (kv128_round_inv_laneG bool xorb andb false true). Qed.
Lemma kv128_round_sched : forall n m,
  reg bool (kv128_enc_linear bool xorb false true n (kv128_subcells bool xorb andb false true n m)) 4
  = reg bool m 4.
Proof. reflexivity. Qed.
Lemma kv128_round_inv_sched : forall n m,
  reg bool (kv128_subcells_inv bool xorb andb false true n (kv128_dec_linear bool xorb false true n m)) 4
  = reg bool m 4.
Proof. reflexivity. Qed.

(* lane j of a vector round, in terms of the paper-level round functions (via KernelHom.k128_round_*_is_spec_bool) *)
Lemma kv128_round_lane_spec : forall n m j, j < n ->
  vblock bool (kv128_enc_linear bool xorb false true n (kv128_subcells bool xorb andb false true n m)) j
  = reg_of_state128 bool
      (mix_columns byte (cx8 bool xorb) (shift_rows byte
         (add_c2_ (cx8 bool xorb) (nib8 bool false true false false true false)
            (add_round_tweakey byte (cx8 bool xorb) (half128_of_reg bool false (reg bool m 4))
               (sub_cells byte (S8_ bool xorb andb true) (state128_of_reg bool false (vblock bool m j))))))).
Proof.
  intros n m j Hj. rewrite (kv128_round_lane n m j Hj), k128_round_is_spec_bool. reflexivity.
Qed.
Lemma kv128_round_inv_lane_spec : forall n m j, j < n ->
  vblock bool (kv128_subcells_inv bool xorb andb false true n (kv128_dec_linear bool xorb false true n m)) j
  = reg_of_state128 bool
      (sub_cells_inv byte (S8inv_ bool xorb andb true)
         (add_c2_ (cx8 bool xorb) (nib8 bool false true false false true false)
            (add_round_tweakey byte (cx8 bool xorb) (half128_of_reg bool false (reg bool m 4))
               (shift_rows_inv byte (mix_columns_inv byte (cx8 bool xorb)
                  (state128_of_reg bool false (vblock bool m j))))))).
Proof.
  intros n m j Hj. rewrite (kv128_round_inv_lane n m j Hj), k128_round_inv_is_spec_bool. reflexivity.
Qed.

(* all blocks at once: a vector round is the scalar round on every block *)
Lemma kv128_round_blocks : forall n m,
  blocks_of n (kv128_enc_linear bool xorb false true n (kv128_subcells bool xorb andb false true n m))
  = map (fun blk => reg bool (k128_enc_linear bool xorb false true
                                (k128_subcells bool xorb andb false true [blk; reg bool m 4])) 0)
        (blocks_of n m).
Proof.
  intros n m. unfold blocks_of. rewrite map_map. apply map_ext_in. intros j Hj.
  apply in_seq in Hj. apply kv128_round_lane. lia.
Qed.
Lemma kv128_round_inv_blocks : forall n m,
  blocks_of n (kv128_subcells_inv bool xorb andb false true n (kv128_dec_linear bool xorb false true n m))
  = map (fun blk => reg bool (k128_subcells_inv bool xorb andb false true
                                (k128_dec_linear bool xorb false true [blk; reg bool m 4])) 0)
        (blocks_of n m).
Proof.
  intros n m. unfold blocks_of. rewrite map_map. apply map_ext_in. intros j Hj.
  apply in_seq in Hj. apply kv128_round_inv_lane. lia.
Qed.

Print Assumptions kv128_subcells_hom.
Print Assumptions kv128_subcells_inv_hom.
Print Assumptions kv128_enc_linear_hom.
Print Assumptions kv128_dec_linear_hom.
Print Assumptions kv_sbox128_hom.
Print Assumptions kv_inv_sbox128_hom.
Print Assumptions vblock_vlift.
Print Assumptions vlift_sched.
Print Assumptions length_k128_subcells_bool.
Print Assumptions length_k128_subcells_inv_bool.
Print Assumptions length_k128_enc_linear_bool.
Print Assumptions length_k128_dec_linear_bool.
Print Assumptions kv128_subcells_lane.
Print Assumptions kv128_subcells_inv_lane.
Print Assumptions kv128_enc_linear_lane.
Print Assumptions kv128_dec_linear_lane.
Print Assumptions kv128_round_lane.
Print Assumptions kv128_round_inv_lane.
Print Assumptions kv128_round_sched.
Print Assumptions kv128_round_inv_sched.
Print Assumptions kv128_round_lane_spec.
Print Assumptions kv128_round_inv_lane_spec.
Print Assumptions kv128_round_blocks.
Print Assumptions kv128_round_inv_blocks.
