(* IRDiag.v — diagnosis of a failed kernel obligation: the first output bit whose polynomial differs from the
   specification's, and the numerically smallest monomial of the difference.  Because every proper sub-monomial
   is numerically smaller, setting exactly the variables of that monomial to 1 (all others 0) is a concrete
   kernel input on which code and specification differ in that bit.  Used only to build replays. *)
From Coq Require Import List Bool NArith Arith.
From Skinny Require Import IR Anf IRCheck.
Import ListNotations.

Definition flat (m : mem poly) : list poly := concat (concat m).
Fixpoint first_diff (i : nat) (a b : list poly) : option (nat * N) :=
  match a, b with
  | x :: a', y :: b' => if poly_eqb x y then first_diff (S i) a' b' else Some (i, hd 0%N (pxor x y))
  | [], [] => None
  | _, _ => Some (i, 0%N)
  end.
Definition diag_kernel (cP : nat -> list poly -> list poly) (sizes : list nat) (p : list stmt)
                       (specP : mem poly -> mem poly) : option (nat * N) :=
  first_diff 0 (flat (fst (execP cP p (fresh_mem sizes, [])))) (flat (specP (fresh_mem sizes))).
