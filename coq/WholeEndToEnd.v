(* WholeEndToEnd.v — capstone for SKINNY-128: the key-schedule function and the block function of the CURRENT source, chained.
   skinny128_set_key's whole-function specification (w_set_key128, tied to the C code by the key* parts) run on ANY prior
   schedule object, followed by skinny128_ecb_encrypt's / _decrypt's own translated code (tied by the blk* parts) run on the
   resulting object, yields the SPECIFICATION's cipher (SpecSkinny.skinny128_enc / _dec, the transcription of ePrint
   2016/660) under that key — for every key of a primary size, every block, every prior content of every buffer. *)
From Coq Require Import List Bool NArith Arith Lia.
From Skinny Require Import Bits SpecSkinny IR SIR Anf IRCheck KernelSpecs KernelSpecs2 KernelHom KernelHom2 SIRCheck WholeSpecs SIRProofs Frame
                           ModelCipher ProofsSkinny WholeBridge WholeKey WholeProc WholeCtr WholeCtrModel WholeKeyTweak WholeCompose.
Import ListNotations.

Theorem c_set_key_then_encrypt128_spec :
  forall (z : nat) code fuel pl' sh' c t,                                (* skinny128_ecb_encrypt at the round count of z *)
  In z [1; 2; 3] ->
  flat [ksf] fuel [0; 0; 0]%N [(ksf, N.of_nat (skinny128_rounds z))] code = Some (pl', sh', c, t) ->
  check_block_w callP sizes128 2 8 c (enc_offs 8 8 (skinny128_rounds z))
    (enc_stepsW poly (k128_subcells poly pxor pand pzero pone) (k128_enc_linear poly pxor pzero pone) (skinny128_rounds z))
    (enc_stepsW bool (k128_subcells bool xorb andb false true) (k128_enc_linear bool xorb false true) (skinny128_rounds z)) = true ->
  forall (key hdr out blk st : list byte) (sched : list (half byte)) (rest : mem bool),
  length key = 16 * z -> length hdr = 8 -> length sched = 56 -> length out = 16 -> length blk = 16 -> length st = 16 ->
  (* the key-schedule object after skinny128_set_key(ks, key, 16 z), whatever it held before *)
  let ksobj := nth 0 (w_set_key128 bool xorb false true (length key)
                        ((bitsB hdr ++ concat (map (KernelSpecs2.half_bytes128 bool) sched)) :: bitsB key :: rest)) [] in
  exists st', interp [ksf] callB fuel [0; 0; 0]%N (([bitsB out; bitsB blk; ksobj; bitsB st] : mem bool), []) code = Some (pl', st', t)
    /\ nth 0 (fst st') [] = bitsB (skinny128_enc z key blk)
    /\ nth 1 (fst st') [] = bitsB blk /\ nth 2 (fst st') [] = ksobj.
Proof.
  intros z code fuel pl' sh' c t Hz Hflat Hcheck key hdr out blk st sched rest Hk Hh Hs Ho Hb Hst. cbv zeta. unfold byte in *.
  assert (Hk' : 16 <= length key <= 48) by (destruct Hz as [<-|[<-|[<-|[]]]]; lia).
  destruct (w_set_key128_model key hdr sched [] 0%N rest Hk' Hh Hs) as [_ HW]. cbv zeta in HW.
  rewrite !app_nil_r in HW. unfold byte in *. rewrite HW. cbn [nth]. clear HW.
  destruct (m128_set_key_spec z {| ks_rounds := 0%N; ks_sched := sched |} key Hz Hk Hs) as (ks' & Hset & Hrounds & Hlen & Hspec).
  unfold byte in *. rewrite Hk, Hset. cbn [snd]. rewrite Hrounds, Nat2N.id.
  set (R := skinny128_rounds z) in *.
  assert (HR : 0 < R /\ R <= 56) by (unfold R; destruct Hz as [<-|[<-|[<-|[]]]]; cbn; lia).
  set (hdr' := map (c8_of_bits bool false) (rbytes R) ++ skipn 4 hdr).
  assert (Ehdr : bitsB hdr' = rbytes R ++ skipn 4 (bitsB hdr)).
  { unfold hdr'. rewrite map_app, skipn_map. f_equal. }
  assert (Lhdr : length hdr' = 8).
  { unfold hdr'. rewrite app_length, map_length, rbytes_len, skipn_length. unfold byte in *. lia. }
  rewrite <- Ehdr.
  change (bitsB hdr' ++ concat (map (KernelSpecs2.half_bytes128 bool) (ks_sched byte ks'))) with (ks_image128 (bitsB hdr') (ks_sched byte ks')).
  destruct ks' as [rr ss]. cbn [ks_sched ks_rounds] in *. subst rr.
  destruct (enc128_final code fuel R pl' sh' c t (proj1 HR) (proj2 HR) Hflat Hcheck out blk st hdr' ss Ho Hb Hst Lhdr Hlen)
    as [st' [Hint [Hout [H1 H2]]]].
  { unfold ks_image128, ks_image. rewrite Ehdr. apply field_val_rounds.
    apply N.le_lt_trans with (m := 56%N); [lia | vm_compute; reflexivity]. }
  exists st'. repeat split; try assumption.
  rewrite Hout. f_equal. apply (proj1 (Hspec blk Hb)).
Qed.
Theorem c_set_key_then_decrypt128_spec :
  forall (z : nat) code fuel pl' sh' c t,                                (* skinny128_ecb_decrypt at the round count of z *)
  In z [1; 2; 3] ->
  flat [ksf] fuel [0; 0; 0]%N [(ksf, N.of_nat (skinny128_rounds z))] code = Some (pl', sh', c, t) ->
  check_block_w callP sizes128 2 8 c (dec_offs 8 8 (skinny128_rounds z))
    (dec_stepsW poly (k128_subcells_inv poly pxor pand pzero pone) (k128_dec_linear poly pxor pzero pone) (skinny128_rounds z))
    (dec_stepsW bool (k128_subcells_inv bool xorb andb false true) (k128_dec_linear bool xorb false true) (skinny128_rounds z)) = true ->
  forall (key hdr out blk st : list byte) (sched : list (half byte)) (rest : mem bool),
  length key = 16 * z -> length hdr = 8 -> length sched = 56 -> length out = 16 -> length blk = 16 -> length st = 16 ->
  (* the key-schedule object after skinny128_set_key(ks, key, 16 z), whatever it held before *)
  let ksobj := nth 0 (w_set_key128 bool xorb false true (length key)
                        ((bitsB hdr ++ concat (map (KernelSpecs2.half_bytes128 bool) sched)) :: bitsB key :: rest)) [] in
  exists st', interp [ksf] callB fuel [0; 0; 0]%N (([bitsB out; bitsB blk; ksobj; bitsB st] : mem bool), []) code = Some (pl', st', t)
    /\ nth 0 (fst st') [] = bitsB (skinny128_dec z key blk)
    /\ nth 1 (fst st') [] = bitsB blk /\ nth 2 (fst st') [] = ksobj.
Proof.
  intros z code fuel pl' sh' c t Hz Hflat Hcheck key hdr out blk st sched rest Hk Hh Hs Ho Hb Hst. cbv zeta. unfold byte in *.
  assert (Hk' : 16 <= length key <= 48) by (destruct Hz as [<-|[<-|[<-|[]]]]; lia).
  destruct (w_set_key128_model key hdr sched [] 0%N rest Hk' Hh Hs) as [_ HW]. cbv zeta in HW.
  rewrite !app_nil_r in HW. unfold byte in *. rewrite HW. cbn [nth]. clear HW.
  destruct (m128_set_key_spec z {| ks_rounds := 0%N; ks_sched := sched |} key Hz Hk Hs) as (ks' & Hset & Hrounds & Hlen & Hspec).
  unfold byte in *. rewrite Hk, Hset. cbn [snd]. rewrite Hrounds, Nat2N.id.
  set (R := skinny128_rounds z) in *.
  assert (HR : 0 < R /\ R <= 56) by (unfold R; destruct Hz as [<-|[<-|[<-|[]]]]; cbn; lia).
  set (hdr' := map (c8_of_bits bool false) (rbytes R) ++ skipn 4 hdr).
  assert (Ehdr : bitsB hdr' = rbytes R ++ skipn 4 (bitsB hdr)).
  { unfold hdr'. rewrite map_app, skipn_map. f_equal. }
  assert (Lhdr : length hdr' = 8).
  { unfold hdr'. rewrite app_length, map_length, rbytes_len, skipn_length. unfold byte in *. lia. }
  rewrite <- Ehdr.
  change (bitsB hdr' ++ concat (map (KernelSpecs2.half_bytes128 bool) (ks_sched byte ks'))) with (ks_image128 (bitsB hdr') (ks_sched byte ks')).
  destruct ks' as [rr ss]. cbn [ks_sched ks_rounds] in *. subst rr.
  destruct (dec128_final code fuel R pl' sh' c t (proj1 HR) (proj2 HR) Hflat Hcheck out blk st hdr' ss Ho Hb Hst Lhdr Hlen)
    as [st' [Hint [Hout [H1 H2]]]].
  { unfold ks_image128, ks_image. rewrite Ehdr. apply field_val_rounds.
    apply N.le_lt_trans with (m := 56%N); [lia | vm_compute; reflexivity]. }
  exists st'. repeat split; try assumption.
  rewrite Hout. f_equal. apply (proj2 (Hspec blk Hb)).
Qed.
Theorem c_set_key_then_encrypt64_spec :
  forall (z : nat) code fuel pl' sh' c t,                                (* skinny64_ecb_encrypt at the round count of z *)
  In z [1; 2; 3] ->
  flat [ksf] fuel [0; 0; 0]%N [(ksf, N.of_nat (skinny64_rounds z))] code = Some (pl', sh', c, t) ->
  check_block_w callP sizes64 2 4 c (enc_offs 4 4 (skinny64_rounds z))
    (enc_stepsW poly (k64_subcells poly pxor pand pzero pone) (k64_enc_linear poly pxor pzero pone) (skinny64_rounds z))
    (enc_stepsW bool (k64_subcells bool xorb andb false true) (k64_enc_linear bool xorb false true) (skinny64_rounds z)) = true ->
  forall (key hdr out blk st : list byte) (sched : list (half nib)) (rest : mem bool),
  length key = 8 * z -> length hdr = 4 -> length sched = 40 -> length out = 8 -> length blk = 8 -> length st = 8 ->
  (* the key-schedule object after skinny64_set_key(ks, key, 16 z), whatever it held before *)
  let ksobj := nth 0 (w_set_key64 bool xorb false true (length key)
                        ((bitsB hdr ++ concat (map (KernelSpecs2.half_bytes64 bool) sched)) :: bitsB key :: rest)) [] in
  exists st', interp [ksf] callB fuel [0; 0; 0]%N (([bitsB out; bitsB blk; ksobj; bitsB st] : mem bool), []) code = Some (pl', st', t)
    /\ nth 0 (fst st') [] = bitsB (skinny64_enc z key blk)
    /\ nth 1 (fst st') [] = bitsB blk /\ nth 2 (fst st') [] = ksobj.
Proof.
  intros z code fuel pl' sh' c t Hz Hflat Hcheck key hdr out blk st sched rest Hk Hh Hs Ho Hb Hst. cbv zeta. unfold byte in *.
  assert (Hk' : 8 <= length key <= 24) by (destruct Hz as [<-|[<-|[<-|[]]]]; lia).
  destruct (w_set_key64_model key hdr sched [] 0%N rest Hk' Hh Hs) as [_ HW]. cbv zeta in HW.
  rewrite !app_nil_r in HW. unfold byte in *. rewrite HW. cbn [nth]. clear HW.
  destruct (m64_set_key_spec z {| ks_rounds := 0%N; ks_sched := sched |} key Hz Hk Hs) as (ks' & Hset & Hrounds & Hlen & Hspec).
  unfold byte in *. rewrite Hk, Hset. cbn [snd]. rewrite Hrounds, Nat2N.id.
  set (R := skinny64_rounds z) in *.
  assert (HR : 0 < R /\ R <= 40) by (unfold R; destruct Hz as [<-|[<-|[<-|[]]]]; cbn; lia).
  set (hdr' := map (c8_of_bits bool false) (rbytes R) ++ skipn 4 hdr).
  assert (Ehdr : bitsB hdr' = rbytes R ++ skipn 4 (bitsB hdr)).
  { unfold hdr'. rewrite map_app, skipn_map. f_equal. }
  assert (Lhdr : length hdr' = 4).
  { unfold hdr'. rewrite app_length, map_length, rbytes_len, skipn_length. unfold byte in *. lia. }
  rewrite <- Ehdr.
  change (bitsB hdr' ++ concat (map (KernelSpecs2.half_bytes64 bool) (ks_sched nib ks'))) with (ks_image64 (bitsB hdr') (ks_sched nib ks')).
  destruct ks' as [rr ss]. cbn [ks_sched ks_rounds] in *. subst rr.
  destruct (enc64_final code fuel R pl' sh' c t (proj1 HR) (proj2 HR) Hflat Hcheck out blk st hdr' ss Ho Hb Hst Lhdr Hlen)
    as [st' [Hint [Hout [H1 H2]]]].
  { unfold ks_image64, ks_image. rewrite Ehdr. apply field_val_rounds.
    apply N.le_lt_trans with (m := 40%N); [lia | vm_compute; reflexivity]. }
  exists st'. repeat split; try assumption.
  rewrite Hout. f_equal. apply (proj1 (Hspec blk Hb)).
Qed.
Theorem c_set_key_then_decrypt64_spec :
  forall (z : nat) code fuel pl' sh' c t,                                (* skinny64_ecb_decrypt at the round count of z *)
  In z [1; 2; 3] ->
  flat [ksf] fuel [0; 0; 0]%N [(ksf, N.of_nat (skinny64_rounds z))] code = Some (pl', sh', c, t) ->
  check_block_w callP sizes64 2 4 c (dec_offs 4 4 (skinny64_rounds z))
    (dec_stepsW poly (k64_subcells_inv poly pxor pand pzero pone) (k64_dec_linear poly pxor pzero pone) (skinny64_rounds z))
    (dec_stepsW bool (k64_subcells_inv bool xorb andb false true) (k64_dec_linear bool xorb false true) (skinny64_rounds z)) = true ->
  forall (key hdr out blk st : list byte) (sched : list (half nib)) (rest : mem bool),
  length key = 8 * z -> length hdr = 4 -> length sched = 40 -> length out = 8 -> length blk = 8 -> length st = 8 ->
  (* the key-schedule object after skinny64_set_key(ks, key, 16 z), whatever it held before *)
  let ksobj := nth 0 (w_set_key64 bool xorb false true (length key)
                        ((bitsB hdr ++ concat (map (KernelSpecs2.half_bytes64 bool) sched)) :: bitsB key :: rest)) [] in
  exists st', interp [ksf] callB fuel [0; 0; 0]%N (([bitsB out; bitsB blk; ksobj; bitsB st] : mem bool), []) code = Some (pl', st', t)
    /\ nth 0 (fst st') [] = bitsB (skinny64_dec z key blk)
    /\ nth 1 (fst st') [] = bitsB blk /\ nth 2 (fst st') [] = ksobj.
Proof.
  intros z code fuel pl' sh' c t Hz Hflat Hcheck key hdr out blk st sched rest Hk Hh Hs Ho Hb Hst. cbv zeta. unfold byte in *.
  assert (Hk' : 8 <= length key <= 24) by (destruct Hz as [<-|[<-|[<-|[]]]]; lia).
  destruct (w_set_key64_model key hdr sched [] 0%N rest Hk' Hh Hs) as [_ HW]. cbv zeta in HW.
  rewrite !app_nil_r in HW. unfold byte in *. rewrite HW. cbn [nth]. clear HW.
  destruct (m64_set_key_spec z {| ks_rounds := 0%N; ks_sched := sched |} key Hz Hk Hs) as (ks' & Hset & Hrounds & Hlen & Hspec).
  unfold byte in *. rewrite Hk, Hset. cbn [snd]. rewrite Hrounds, Nat2N.id.
  set (R := skinny64_rounds z) in *.
  assert (HR : 0 < R /\ R <= 40) by (unfold R; destruct Hz as [<-|[<-|[<-|[]]]]; cbn; lia).
  set (hdr' := map (c8_of_bits bool false) (rbytes R) ++ skipn 4 hdr).
  assert (Ehdr : bitsB hdr' = rbytes R ++ skipn 4 (bitsB hdr)).
  { unfold hdr'. rewrite map_app, skipn_map. f_equal. }
  assert (Lhdr : length hdr' = 4).
  { unfold hdr'. rewrite app_length, map_length, rbytes_len, skipn_length. unfold byte in *. lia. }
  rewrite <- Ehdr.
  change (bitsB hdr' ++ concat (map (KernelSpecs2.half_bytes64 bool) (ks_sched nib ks'))) with (ks_image64 (bitsB hdr') (ks_sched nib ks')).
  destruct ks' as [rr ss]. cbn [ks_sched ks_rounds] in *. subst rr.
  destruct (dec64_final code fuel R pl' sh' c t (proj1 HR) (proj2 HR) Hflat Hcheck out blk st hdr' ss Ho Hb Hst Lhdr Hlen)
    as [st' [Hint [Hout [H1 H2]]]].
  { unfold ks_image64, ks_image. rewrite Ehdr. apply field_val_rounds.
    apply N.le_lt_trans with (m := 40%N); [lia | vm_compute; reflexivity]. }
  exists st'. repeat split; try assumption.
  rewrite Hout. f_equal. apply (proj2 (Hspec blk Hb)).
Qed.
Print Assumptions c_set_key_then_encrypt128_spec.
Print Assumptions c_set_key_then_decrypt128_spec.
Print Assumptions c_set_key_then_encrypt64_spec.
Print Assumptions c_set_key_then_decrypt64_spec.
