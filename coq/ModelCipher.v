(* ModelCipher.v — hand-written executable model of the key-schedule objects
   and single-block functions of the C library (src/skinny128-cipher.c,
   src/skinny64-cipher.c, src/mantis-cipher.c).  The model follows the code's
   structure: a precomputed schedule array filled by three separate passes
   (set_tk1/set_tk2/set_tk3), the tweak kept beside the schedule and swapped
   by xor-out/xor-in, MANTIS keys stored pre-arranged per mode.  Its leaf
   steps are the specification's cell functions. *)
From Coq Require Import List Bool NArith Arith Lia.
From Skinny Require Import Bits SpecSkinny SpecMantis.
Import ListNotations.

Definition buf : Type := option (list byte).   (* None = NULL pointer *)
Definition zeros (n : nat) : list byte := repeat byte0 n.
(* the first n bytes of l, missing bytes read as zero *)
Definition pad_to (n : nat) (l : list byte) : list byte := firstn n (l ++ zeros n).

Section Skinny.
  Variable C : Type.
  Variable cx : C -> C -> C.
  Variable cnib : bool -> bool -> bool -> bool -> C.
  Variables sb sbi l2 l3 : C -> C.
  Variable bs : nat.                               (* block size in bytes *)
  Variable load : list byte -> state C.
  Variable store : state C -> list byte.
  Variable czero : C.
  Variable rounds_for : nat -> nat.                (* tweakey blocks -> rounds *)
  Variable max_rounds : nat.

  Notation state := (state C).
  Notation row := (row C).
  Definition half : Type := (row * row)%type.
  Notation rx := (rx C cx).
  Definition hxor (a b : half) : half := (rx (fst a) (fst b), rx (snd a) (snd b)).
  Definition zrow : row := (czero, czero, czero, czero).
  Definition zhalf : half := (zrow, zrow).

  (* image of Skinny*Key_t: the round count and ALL schedule slots *)
  Record keysched : Type := { ks_rounds : N; ks_sched : list half }.
  (* image of Skinny*TweakedKey_t *)
  Record tkeysched : Type := { tk_ks : keysched; tk_tweak : list byte }.

  (* what the schedule stores besides tweakey material: c0 in cell (0,0),
     c1 in cell (1,0), and the tweak-domain bit in cell (0,2) *)
  Definition const_half (tweaked : bool) (r : rc6) : half :=
    let '(r5, r4, r3, r2, r1, r0) := r in
    ((cnib r3 r2 r1 r0, czero, (if tweaked then cnib false false true false else czero), czero),
     (cnib false false r5 r4, czero, czero, czero)).

  (* "for (index = 0; index < rounds; ++index)" over the schedule slots *)
  Fixpoint sched_loop (n : nat) (upd : half -> half -> rc6 -> half)
           (next : state -> state) (tk : state) (r : rc6) (sched : list half) : list half :=
    match n, sched with
    | S n', e :: rest =>
        let r' := rc_next r in
        upd e (rows01 C tk) r' :: sched_loop n' upd next (next tk) r' rest
    | _, _ => sched
    end.

  Definition set_tk1 (n : nat) (key : list byte) (tweaked : bool) (sched : list half) :=
    sched_loop n (fun _ k r => hxor k (const_half tweaked r))
               (next_tk1 C) (load (pad_to bs key)) rc_init sched.
  Definition xor_tk1 (n : nat) (key : list byte) (sched : list half) :=
    sched_loop n (fun e k _ => hxor e k) (next_tk1 C) (load (pad_to bs key)) rc_init sched.
  Definition set_tk2 (n : nat) (key : list byte) (sched : list half) :=
    sched_loop n (fun e k _ => hxor e k) (next_tk2 C l2) (load (pad_to bs key)) rc_init sched.
  Definition set_tk3 (n : nat) (key : list byte) (sched : list half) :=
    sched_loop n (fun e k _ => hxor e k) (next_tk3 C l3) (load (pad_to bs key)) rc_init sched.

  Definition mk_ks (n : nat) (sched : list half) : keysched :=
    {| ks_rounds := N.of_nat n; ks_sched := sched |}.

  (* skinny*_set_key_inner; key has key_size bytes, bs <= key_size <= 3 bs *)
  Definition set_key_inner (ks : keysched) (key : list byte) (tweak : option (list byte))
    : keysched :=
    let size := length key in
    let s := ks_sched ks in
    match tweak with
    | None =>
        if Nat.eqb size bs then
          let n := rounds_for 1 in mk_ks n (set_tk1 n key false s)
        else if Nat.leb size (2 * bs) then
          let n := rounds_for 2 in
          mk_ks n (set_tk2 n (skipn bs key) (set_tk1 n (firstn bs key) false s))
        else
          let n := rounds_for 3 in
          mk_ks n (set_tk3 n (skipn (2 * bs) key)
                     (set_tk2 n (firstn bs (skipn bs key)) (set_tk1 n (firstn bs key) false s)))
    | Some tw =>
        if Nat.eqb size bs then
          let n := rounds_for 2 in mk_ks n (set_tk2 n key (set_tk1 n tw true s))
        else
          let n := rounds_for 3 in
          mk_ks n (set_tk3 n (skipn bs key) (set_tk2 n (firstn bs key) (set_tk1 n tw true s)))
    end.

  Definition size_ok (lo hi : nat) (size : N) : bool :=
    (N.leb (N.of_nat lo) size && N.leb size (N.of_nat hi))%bool.

  (* int skinny*_set_key(ks, key, size): returns (result, new object) *)
  Definition set_key (ks : keysched) (key : buf) (size : N) : N * keysched :=
    match key with
    | Some k => if size_ok bs (3 * bs) size
                then (1%N, set_key_inner ks (pad_to (N.to_nat size) k) None)
                else (0%N, ks)
    | None => (0%N, ks)
    end.
  Definition set_tweaked_key (t : tkeysched) (key : buf) (size : N) : N * tkeysched :=
    match key with
    | Some k => if size_ok bs (2 * bs) size
                then (1%N, {| tk_ks := set_key_inner (tk_ks t) (pad_to (N.to_nat size) k)
                                                     (Some (zeros bs));
                              tk_tweak := zeros bs |})
                else (0%N, t)
    | None => (0%N, t)
    end.
  Definition set_tweak (t : tkeysched) (tw : buf) (size : N) : N * tkeysched :=
    if size_ok 1 bs size then
      let newtw := match tw with
                   | Some b => pad_to bs (firstn (N.to_nat size) b)
                   | None => zeros bs
                   end in
      let n := N.to_nat (ks_rounds (tk_ks t)) in
      let s := xor_tk1 n newtw (xor_tk1 n (tk_tweak t) (ks_sched (tk_ks t))) in
      (1%N, {| tk_ks := {| ks_rounds := ks_rounds (tk_ks t); ks_sched := s |};
               tk_tweak := newtw |})
    else (0%N, t).

  (* one round as the code performs it: S-box, schedule word into rows 0-1,
     constant 2 into cell (2,0), ShiftRows, MixColumns *)
  Definition add_c2 (s : state) : state :=
    let '(s0, s1, s2, s3) := s in
    let '(e0, e1, e2, e3) := s2 in (s0, s1, (cx e0 (cnib false false true false), e1, e2, e3), s3).
  Definition enc_round (e : half) (s : state) : state :=
    mix_columns C cx (shift_rows C (add_c2 (add_round_tweakey C cx e (sub_cells C sb s)))).
  Definition dec_round (e : half) (s : state) : state :=
    sub_cells_inv C sbi (add_c2 (add_round_tweakey C cx e
      (shift_rows_inv C (mix_columns_inv C cx s)))).

  Definition used (ks : keysched) : list half := firstn (N.to_nat (ks_rounds ks)) (ks_sched ks).
  Definition ecb_encrypt (ks : keysched) (blk : list byte) : list byte :=
    store (fold_left (fun s e => enc_round e s) (used ks) (load blk)).
  Definition ecb_decrypt (ks : keysched) (blk : list byte) : list byte :=
    store (fold_left (fun s e => dec_round e s) (rev (used ks)) (load blk)).

  Definition fresh_ks (fill : half) : keysched :=
    {| ks_rounds := 0; ks_sched := repeat fill max_rounds |}.
End Skinny.

(* ------------------------------------------------------------------ *)
(* Instances *)
Definition m128_rounds (z : nat) : nat := skinny128_rounds z.
Definition m64_rounds (z : nat) : nat := skinny64_rounds z.

Notation S8b := (S8 bool xorb andb true).
Notation S8ib := (S8inv bool xorb andb true).
Notation S4b := (S4 bool xorb andb true).
Notation S4ib := (S4inv bool xorb andb true).
Notation cnib8 := (c8nib bool false true).
Notation cnib4 := (c4nib bool false true).

Definition ks128 := keysched byte.
Definition tks128 := tkeysched byte.
Definition ks64 := keysched nib.
Definition tks64 := tkeysched nib.

Definition load128 := state128_of_bytes bool false.
Definition store128 := bytes_of_state128 bool.
Definition load64 := state64_of_bytes bool false.
Definition store64 := bytes_of_state64 bool.

Definition m128_set_key : ks128 -> buf -> N -> N * ks128 :=
  set_key byte bxor8 cnib8 (lfsr2_8 bool xorb) (lfsr3_8 bool xorb) 16 load128 byte0 m128_rounds.
Definition m128_set_tweaked_key : tks128 -> buf -> N -> N * tks128 :=
  set_tweaked_key byte bxor8 cnib8 (lfsr2_8 bool xorb) (lfsr3_8 bool xorb) 16 load128 byte0 m128_rounds.
Definition m128_set_tweak : tks128 -> buf -> N -> N * tks128 :=
  set_tweak byte bxor8 16 load128.
Definition m128_encrypt : ks128 -> list byte -> list byte :=
  ecb_encrypt byte bxor8 cnib8 S8b load128 store128.
Definition m128_decrypt : ks128 -> list byte -> list byte :=
  ecb_decrypt byte bxor8 cnib8 S8ib load128 store128.

Definition m64_set_key : ks64 -> buf -> N -> N * ks64 :=
  set_key nib bxor4 cnib4 (lfsr2_4 bool xorb) (lfsr3_4 bool xorb) 8 load64 nib0 m64_rounds.
Definition m64_set_tweaked_key : tks64 -> buf -> N -> N * tks64 :=
  set_tweaked_key nib bxor4 cnib4 (lfsr2_4 bool xorb) (lfsr3_4 bool xorb) 8 load64 nib0 m64_rounds.
Definition m64_set_tweak : tks64 -> buf -> N -> N * tks64 :=
  set_tweak nib bxor4 8 load64.
Definition m64_encrypt : ks64 -> list byte -> list byte :=
  ecb_encrypt nib bxor4 cnib4 S4b load64 store64.
Definition m64_decrypt : ks64 -> list byte -> list byte :=
  ecb_decrypt nib bxor4 cnib4 S4ib load64 store64.

(* byte images of the schedule slots, as the driver prints them *)
Definition half_bytes128 (h : half byte) : list byte := row_list (fst h) ++ row_list (snd h).
Definition half_bytes64 (h : half nib) : list byte :=
  row_bytes64 bool (fst h) ++ row_bytes64 bool (snd h).
Definition image128 (ks : ks128) : N * list byte :=
  (ks_rounds byte ks, concat (map half_bytes128 (ks_sched byte ks))).
Definition image64 (ks : ks64) : N * list byte :=
  (ks_rounds nib ks, concat (map half_bytes64 (ks_sched nib ks))).

(* ------------------------------------------------------------------ *)
(* MANTIS *)
Record mantis_ks : Type := {
  mk_k0 : state nib; mk_k0p : state nib; mk_k1 : state nib;
  mk_tweak : state nib; mk_rounds : N }.

Notation msx := (sx nib bxor4).
Definition malpha : state nib := alpha_state bool false true.
Definition mk0prime : state nib -> state nib := k0_prime bool xorb false.
Definition mzero : state nib := zero64 bool false.

Definition mantis_set_key (ks : mantis_ks) (key : buf) (size rounds : N) (mode : N)
  : N * mantis_ks :=
  match key with
  | Some k =>
      if (N.eqb size 16 && N.leb 5 rounds && N.leb rounds 8)%bool then
        let k0 := load64 (firstn 8 k) in
        let k1 := load64 (firstn_skip 8 8 k) in
        if N.eqb mode 1 then
          (1%N, {| mk_k0 := k0; mk_k0p := mk0prime k0; mk_k1 := k1;
                   mk_tweak := mzero; mk_rounds := rounds |})
        else
          (1%N, {| mk_k0 := mk0prime k0; mk_k0p := k0; mk_k1 := msx k1 malpha;
                   mk_tweak := mzero; mk_rounds := rounds |})
      else (0%N, ks)
  | None => (0%N, ks)
  end.
Definition mantis_set_tweak (ks : mantis_ks) (tw : buf) (size : N) : N * mantis_ks :=
  if N.eqb size 8 then
    (1%N, {| mk_k0 := mk_k0 ks; mk_k0p := mk_k0p ks; mk_k1 := mk_k1 ks;
             mk_tweak := match tw with Some t => load64 (pad_to 8 t) | None => mzero end;
             mk_rounds := mk_rounds ks |})
  else (0%N, ks).
Definition mantis_swap_modes (ks : mantis_ks) : mantis_ks :=
  {| mk_k0 := mk_k0p ks; mk_k0p := mk_k0 ks; mk_k1 := msx (mk_k1 ks) malpha;
     mk_tweak := mk_tweak ks; mk_rounds := mk_rounds ks |}.
Definition mantis_crypt_tweaked (ks : mantis_ks) (tw blk : list byte) : list byte :=
  store64 (mantis_core bool xorb andb false true (N.to_nat (mk_rounds ks))
             (mk_k0 ks) (mk_k0p ks) (mk_k1 ks) (load64 tw) (load64 blk)).
Definition mantis_crypt (ks : mantis_ks) (blk : list byte) : list byte :=
  store64 (mantis_core bool xorb andb false true (N.to_nat (mk_rounds ks))
             (mk_k0 ks) (mk_k0p ks) (mk_k1 ks) (mk_tweak ks) (load64 blk)).
Definition mantis_image (ks : mantis_ks) : N * list byte :=
  (mk_rounds ks, store64 (mk_k0 ks) ++ store64 (mk_k0p ks) ++ store64 (mk_k1 ks)
                   ++ store64 (mk_tweak ks)).
Definition mantis_fresh (fill : nib) : mantis_ks :=
  let r := (fill, fill, fill, fill) in let s := (r, r, r, r) in
  {| mk_k0 := s; mk_k0p := s; mk_k1 := s; mk_tweak := s; mk_rounds := 0 |}.
