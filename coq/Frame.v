(* Frame.v — a frame theorem for the straight-line IR: a program that only READS region r, and only inside the
   window [a, a+len), behaves on the whole memory as its relocated copy behaves on the memory whose region r is
   cut down to that window.  Used to check the round segments of a whole block function on a small symbolic
   memory (one schedule slot instead of the whole key schedule), see SIRCheck.check_block_w. *)
From Coq Require Import List Bool NArith Arith Lia.
From Skinny Require Import IR Anf IRCheck.
Import ListNotations.

Lemma nth_firstn_lt : forall {A} (l : list A) n i d, i < n -> nth i (firstn n l) d = nth i l d.
Proof.
  intros A l. induction l as [|x l IH]; intros n i d H.
  - rewrite firstn_nil. reflexivity.
  - destruct n as [|n]; [lia|]. destruct i as [|i]; [reflexivity|]. cbn [firstn nth]. apply IH. lia.
Qed.
Lemma nth_skipn' : forall {A} (l : list A) n i d, nth i (skipn n l) d = nth (n + i) l d.
Proof.
  intros A l. induction l as [|x l IH]; intros n i d.
  - rewrite skipn_nil. destruct i, (n + 0), n; reflexivity || (destruct (n + S i); reflexivity) || idtac.
    all: try (destruct (S n + i); reflexivity).
  - destruct n as [|n]; [reflexivity|]. cbn [skipn]. rewrite IH. reflexivity.
Qed.

Lemma set_nth_comm : forall {A} i j (x y : A) l, i <> j ->
  set_nth i x (set_nth j y l) = set_nth j y (set_nth i x l).
Proof.
  intros A i j x y l. revert i j. induction l as [|z l IH]; intros i j H; [destruct i, j; reflexivity|].
  destruct i as [|i], j as [|j]; cbn [set_nth]; try reflexivity; [lia|].
  f_equal. apply IH. lia.
Qed.
Lemma set_nth_set_nth : forall {A} i (x y : A) l, set_nth i x (set_nth i y l) = set_nth i x l.
Proof.
  intros A i x y l. revert i. induction l as [|z l IH]; intros i; [destruct i; reflexivity|].
  destruct i as [|i]; cbn [set_nth]; [reflexivity | f_equal; apply IH].
Qed.
Lemma nth_set_nth_ne : forall {A} i j (x : A) l d, i <> j -> nth j (set_nth i x l) d = nth j l d.
Proof.
  intros A i j x l d H. rewrite nth_set_nth.
  destruct (Nat.eqb j i) eqn:E; [apply Nat.eqb_eq in E; lia | reflexivity].
Qed.
Lemma nth_set_nth_eq : forall {A} i (x : A) l d, i < length l -> nth i (set_nth i x l) d = x.
Proof.
  intros A i x l d H. rewrite nth_set_nth, Nat.eqb_refl.
  destruct (Nat.ltb i (length l)) eqn:E; [reflexivity | apply Nat.ltb_ge in E; lia].
Qed.
Lemma set_nth_same : forall {A} i (l : list A) d, set_nth i (nth i l d) l = l.
Proof.
  intros A i l d. revert i. induction l as [|z l IH]; intros i; [destruct i; reflexivity|].
  destruct i as [|i]; cbn [set_nth nth]; [reflexivity | f_equal; apply IH].
Qed.

Section Frame.
  Variable B : Type.
  Variables (bx ba : B -> B -> B) (b0 b1 : B).
  Variable callf : nat -> list B -> list B.
  Variables (r a len : nat).
  Notation eval' := (eval B bx ba b0 b1 callf).
  Notation exec' := (exec B bx ba b0 b1 callf).
  Notation exec1' := (exec1 B bx ba b0 b1 callf).

  Definition window (m : mem B) : mem B := set_nth r (firstn len (skipn a (nth r m []))) m.
  (* put region r of [m0] back *)
  Definition unwindow (m0 m : mem B) : mem B := set_nth r (nth r m0 []) m.

  Fixpoint reloc_e (e : expr) : option expr :=
    match e with
    | EConst _ _ | ELocal _ => Some e
    | ELoad r' off n =>
        if Nat.eqb r' r
        then (if (Nat.leb a off && Nat.leb (off + n) (a + len))%bool then Some (ELoad r (off - a) n) else None)
        else Some e
    | ENot x => option_map ENot (reloc_e x)
    | EBin o x y => match reloc_e x, reloc_e y with Some x', Some y' => Some (EBin o x' y') | _, _ => None end
    | EShl lw x k => option_map (fun x' => EShl lw x' k) (reloc_e x)
    | EShrL lw x k => option_map (fun x' => EShrL lw x' k) (reloc_e x)
    | EShrA lw x k => option_map (fun x' => EShrA lw x' k) (reloc_e x)
    | ESlice x lo w => option_map (fun x' => ESlice x' lo w) (reloc_e x)
    | EConcat l =>
        option_map EConcat
          ((fix go (l : list expr) : option (list expr) :=
              match l with
              | [] => Some []
              | x :: l' => match reloc_e x, go l' with Some x', Some l'' => Some (x' :: l'') | _, _ => None end
              end) l)
    | EZext w x => option_map (EZext w) (reloc_e x)
    | ESext w x => option_map (ESext w) (reloc_e x)
    | ECall f x => option_map (ECall f) (reloc_e x)
    | EAdd x y => match reloc_e x, reloc_e y with Some x', Some y' => Some (EAdd x' y') | _, _ => None end
    end.

  Definition reloc_s (s : stmt) : option stmt :=
    match s with
    | SLocal x e => option_map (SLocal x) (reloc_e e)
    | SStore r' off n e => if Nat.eqb r' r then None else option_map (SStore r' off n) (reloc_e e)
    end.
  Fixpoint reloc (p : list stmt) : option (list stmt) :=
    match p with
    | [] => Some []
    | s :: p' => match reloc_s s, reloc p' with Some s', Some p'' => Some (s' :: p'') | _, _ => None end
    end.

  Lemma load_window : forall m off n, r < length m -> a <= off -> off + n <= a + len ->
    load B b0 (window m) r (off - a) n = load B b0 m r off n.
  Proof.
    intros m off n Hr Ha Hn. unfold load. f_equal. apply map_ext_in. intros i Hi.
    apply in_seq in Hi. f_equal. unfold window. rewrite nth_set_nth_eq by exact Hr.
    rewrite nth_firstn_lt by lia. rewrite nth_skipn'. f_equal. lia.
  Qed.
  Lemma load_window_other : forall m r' off n, r' <> r -> load B b0 (window m) r' off n = load B b0 m r' off n.
  Proof.
    intros m r' off n H. unfold load, window. rewrite nth_set_nth_ne by congruence. reflexivity.
  Qed.

  Lemma eval_reloc : forall m loc, r < length m -> forall e e', reloc_e e = Some e' ->
    eval' (window m) loc e' = eval' m loc e.
  Proof.
    intros m loc Hr e. induction e using expr_ind2; intros e' He; cbn [reloc_e] in He.
    - inversion He. reflexivity.
    - inversion He. reflexivity.
    - destruct (Nat.eqb r0 r) eqn:E.
      + apply Nat.eqb_eq in E. subst r0.
        destruct (Nat.leb a off && Nat.leb (off + n) (a + len))%bool eqn:E2; [|discriminate].
        apply andb_true_iff in E2. destruct E2 as [E2 E3]. apply Nat.leb_le in E2. apply Nat.leb_le in E3.
        inversion He. cbn [eval]. apply load_window; assumption.
      + apply Nat.eqb_neq in E. inversion He. cbn [eval]. apply load_window_other. exact E.
    - destruct (reloc_e e) as [x'|]; [|discriminate]. inversion He. cbn [eval]. rewrite (IHe x' eq_refl). reflexivity.
    - destruct (reloc_e e1) as [x'|]; [|discriminate]. destruct (reloc_e e2) as [y'|]; [|discriminate].
      inversion He. cbn [eval]. rewrite (IHe1 x' eq_refl), (IHe2 y' eq_refl). reflexivity.
    - destruct (reloc_e e) as [x'|]; [|discriminate]. inversion He. cbn [eval]. rewrite (IHe x' eq_refl). reflexivity.
    - destruct (reloc_e e) as [x'|]; [|discriminate]. inversion He. cbn [eval]. rewrite (IHe x' eq_refl). reflexivity.
    - destruct (reloc_e e) as [x'|]; [|discriminate]. inversion He. cbn [eval]. rewrite (IHe x' eq_refl). reflexivity.
    - destruct (reloc_e e) as [x'|]; [|discriminate]. inversion He. cbn [eval]. rewrite (IHe x' eq_refl). reflexivity.
    - match type of He with context [option_map EConcat ?g] => destruct g as [l''|] eqn:El end; [|discriminate].
      inversion He. cbn [eval]. f_equal. clear He H1 e'. revert l'' El.
      induction H as [|x l Hx Hl IHl]; intros l'' El.
      + inversion El. reflexivity.
      + destruct (reloc_e x) as [x'|] eqn:Ex; [|discriminate].
        match type of El with context [match ?g with _ => _ end] => destruct g as [l3|] eqn:El3 end; [|discriminate].
        inversion El. cbn [map]. rewrite (Hx x' eq_refl), (IHl l3 eq_refl). reflexivity.
    - destruct (reloc_e e) as [x'|]; [|discriminate]. inversion He. cbn [eval]. rewrite (IHe x' eq_refl). reflexivity.
    - destruct (reloc_e e) as [x'|]; [|discriminate]. inversion He. cbn [eval]. rewrite (IHe x' eq_refl). reflexivity.
    - destruct (reloc_e e) as [x'|]; [|discriminate]. inversion He. cbn [eval]. rewrite (IHe x' eq_refl). reflexivity.
    - destruct (reloc_e e1) as [x'|]; [|discriminate]. destruct (reloc_e e2) as [y'|]; [|discriminate].
      inversion He. cbn [eval]. rewrite (IHe1 x' eq_refl), (IHe2 y' eq_refl). reflexivity.
  Qed.

  Lemma store_window : forall m r' off n v, r' <> r ->
    store B b0 (window m) r' off n v = window (store B b0 m r' off n v).
  Proof.
    intros m r' off n v H. unfold store, window.
    rewrite (nth_set_nth_ne r r') by congruence.
    rewrite (nth_set_nth_ne r' r) by congruence.
    apply set_nth_comm. exact H.
  Qed.

  Lemma exec1_reloc : forall m loc s s', r < length m -> reloc_s s = Some s' ->
    exec1' (window m, loc) s' = (window (fst (exec1' (m, loc) s)), snd (exec1' (m, loc) s))
    /\ length (fst (exec1' (m, loc) s)) = length m.
  Proof.
    intros m loc s s' Hr Hs. destruct s as [x e | r' off n e]; cbn [reloc_s] in Hs.
    - destruct (reloc_e e) as [e'|] eqn:E; [|discriminate]. inversion Hs. cbn [exec1 fst snd].
      rewrite (eval_reloc m loc Hr e e' E). split; reflexivity.
    - destruct (Nat.eqb r' r) eqn:Er; [discriminate|]. apply Nat.eqb_neq in Er.
      destruct (reloc_e e) as [e'|] eqn:E; [|discriminate]. inversion Hs. cbn [exec1 fst snd].
      rewrite (eval_reloc m loc Hr e e' E). split.
      + rewrite store_window by exact Er. reflexivity.
      + unfold store. apply set_nth_length.
  Qed.

  Theorem exec_reloc : forall p p' m loc, r < length m -> reloc p = Some p' ->
    exec' p' (window m, loc) = (window (fst (exec' p (m, loc))), snd (exec' p (m, loc))).
  Proof.
    induction p as [|s p IH]; intros p' m loc Hr Hp; cbn [reloc] in Hp.
    - inversion Hp. reflexivity.
    - destruct (reloc_s s) as [s'|] eqn:Es; [|discriminate]. destruct (reloc p) as [p''|] eqn:Ep; [|discriminate].
      inversion Hp. unfold exec. cbn [fold_left].
      destruct (exec1_reloc m loc s s' Hr Es) as [H1 H2]. rewrite H1.
      destruct (exec1' (m, loc) s) as [m1 loc1]. cbn [fst snd] in *.
      apply (IH p'' m1 loc1); [lia | reflexivity].
  Qed.

  (* region r is never written *)
  Lemma exec_reloc_region : forall p p' m loc, reloc p = Some p' -> nth r (fst (exec' p (m, loc))) [] = nth r m [].
  Proof.
    induction p as [|s p IH]; intros p' m loc Hp; cbn [reloc] in Hp; [reflexivity|].
    destruct (reloc_s s) as [s'|] eqn:Es; [|discriminate]. destruct (reloc p) as [p''|] eqn:Ep; [|discriminate].
    unfold exec. cbn [fold_left].
    assert (Hn : nth r (fst (exec1' (m, loc) s)) [] = nth r m []).
    { destruct s as [x e | r' off n e]; cbn [reloc_s] in Es; [reflexivity|].
      destruct (Nat.eqb r' r) eqn:Er; [discriminate|]. apply Nat.eqb_neq in Er.
      cbn [exec1 fst]. unfold store. apply nth_set_nth_ne. exact Er. }
    destruct (exec1' (m, loc) s) as [m1 loc1]. cbn [fst] in Hn.
    rewrite <- Hn. apply (IH p'' m1 loc1 eq_refl).
  Qed.

  Theorem exec_by_window : forall p p' m loc, r < length m -> reloc p = Some p' ->
    fst (exec' p (m, loc)) = unwindow m (fst (exec' p' (window m, loc))).
  Proof.
    intros p p' m loc Hr Hp. rewrite (exec_reloc p p' m loc Hr Hp). cbn [fst].
    unfold unwindow, window. rewrite set_nth_set_nth.
    rewrite <- (exec_reloc_region p p' m loc Hp). symmetry. apply set_nth_same.
  Qed.
End Frame.
