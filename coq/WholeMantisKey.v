(* WholeMantisKey.v — the WHOLE functions mantis_set_key / mantis_set_tweak / mantis_swap_modes of src/mantis-cipher.c (as
   translated into SIR.v and flattened at a public configuration: size, rounds, mode, null-ness of the tweak) against the
   model (ModelCipher.mantis_set_key / mantis_set_tweak / mantis_swap_modes) on the byte image of the schedule object,
   for ALL keys, tweaks and prior contents.  One symbolic run of the flattened function compared on the observable regions
   (SIRCheck.check_obs / WholeKey.obs_final). *)
From Coq Require Import List Bool NArith Arith Lia.
From Skinny Require Import Bits SpecSkinny SpecMantis IR SIR Anf IRCheck KernelSpecs KernelSpecs2 KernelHom KernelHom2 SIRCheck
                           WholeSpecs Frame SIRProofs ModelCipher ProofsSkinny KernelBridge WholeBridge WholeKey WholeMantis.
Import ListNotations.

Section Spec.
  Variable B : Type.
  Variables (bx : B -> B -> B) (b0 b1 : B).
  Notation reg := (reg B).
  Notation rg64 := (reg_of_state64 B).
  Notation C4 := (c4 B).
  Notation sx4 := (sx (c4 B) (cx4 B bx)).
  Notation rd := (rd8 B b0).
  Definition zst : state C4 := zero64 B b0.
  Definition alpha : state C4 := cst B b0 b1 ALPHA.
  Definition rounds_bytes (R : nat) : list (list B) := bytes_of B b0 4 (const_bits B b0 b1 32 (N.of_nat R)).

  (* regions: 0 = the schedule object (k0, k0', k1, tweak, rounds, padding), 1 = key *)
  Definition w_mantis_set_key (R : nat) (enc : bool) (m : mem B) : mem B :=
    let key := reg m 1 in
    let k0 := rd key 0 in let k1 := rd key 8 in let k0' := k0_prime B bx b0 k0 in
    [(if enc then rg64 k0 ++ rg64 k0' ++ rg64 k1 else rg64 k0' ++ rg64 k0 ++ rg64 (sx4 k1 alpha))
       ++ rg64 zst ++ rounds_bytes R ++ skipn 36 (reg m 0); key].
  (* regions: 0 = schedule, 1 = tweak *)
  Definition w_mantis_set_tweak (null : bool) (m : mem B) : mem B :=
    [firstn 24 (reg m 0) ++ (if null then rg64 zst else rg64 (rd (reg m 1) 0)) ++ skipn 32 (reg m 0); reg m 1].
  (* region 0 = schedule (observed alone) *)
  Definition w_mantis_swap (m : mem B) : mem B :=
    let ks := reg m 0 in
    [rg64 (rd ks 8) ++ rg64 (rd ks 0) ++ rg64 (sx4 (rd ks 16) alpha) ++ skipn 24 ks].
End Spec.

(* ---- homomorphisms ---- *)
Section SpecHom.
  Variables B1 B2 : Type.
  Variables (bx1 : B1 -> B1 -> B1) (z1 o1 : B1).
  Variables (bx2 : B2 -> B2 -> B2) (z2 o2 : B2).
  Variable h : B1 -> B2.
  Hypothesis h_bx : forall a b, h (bx1 a b) = bx2 (h a) (h b).
  Hypothesis h_z : h z1 = z2.
  Hypothesis h_o : h o1 = o2.
  Notation hb := (map (map h)).
  Notation hm := (map (map (map h))).
  Notation H4 := (h4 B1 B2 h).
  Notation sm4 := (smapS (c4 B1) (c4 B2) (h4 B1 B2 h)).
  Let Hcx4 := h4_cx4 B1 B2 bx1 bx2 h h_bx.
  Let Hrg := reg_of_state64_homG B1 B2 h.
  Let Hreg := reg_homG B1 B2 h.
  Let Hrd := rd8_homG B1 B2 z1 z2 h h_z.

  Lemma k0_prime_homG : forall s, sm4 (k0_prime B1 bx1 z1 s) = k0_prime B2 bx2 z2 (sm4 s).
  Proof.
    intros s. dstate s. repeat match goal with x : Bits.c4 B1 |- _ => d4 x end.
    cbv. rewrite ?h_bx, ?h_z. reflexivity.
  Qed.
  Lemma zst_homG : sm4 (zst B1 z1) = zst B2 z2.
  Proof. cbv. rewrite ?h_z. reflexivity. Qed.
  Lemma alpha_homG : sm4 (alpha B1 z1 o1) = alpha B2 z2 o2.
  Proof. apply (cst_homG B1 B2 z1 o1 z2 o2 h h_z h_o). Qed.
  Lemma rounds_bytes_homG : forall R, hb (rounds_bytes B1 z1 o1 R) = rounds_bytes B2 z2 o2 R.
  Proof.
    intros R. unfold rounds_bytes.
    rewrite (bytes_of_hom B1 B2 z1 z2 h h_z), (const_bits_hom B1 B2 z1 o1 z2 o2 h h_z h_o). reflexivity.
  Qed.

  Lemma w_mantis_set_key_homG : forall R enc m,
    hm (w_mantis_set_key B1 bx1 z1 o1 R enc m) = w_mantis_set_key B2 bx2 z2 o2 R enc (hm m).
  Proof.
    intros R enc m. unfold w_mantis_set_key. cbv zeta. cbn [map]. rewrite !Hreg. f_equal.
    rewrite !map_app, skipn_map, rounds_bytes_homG, Hrg, zst_homG.
    destruct enc; rewrite !map_app, !Hrg, ?(smapS_sx _ _ H4 _ _ Hcx4), ?k0_prime_homG, ?alpha_homG, !Hrd; reflexivity.
  Qed.
  Lemma w_mantis_set_tweak_homG : forall null m,
    hm (w_mantis_set_tweak B1 z1 null m) = w_mantis_set_tweak B2 z2 null (hm m).
  Proof.
    intros null m. unfold w_mantis_set_tweak. cbn [map]. rewrite !Hreg. f_equal.
    rewrite !map_app, skipn_map, firstn_map. destruct null; rewrite Hrg, ?zst_homG, ?Hrd; reflexivity.
  Qed.
  Lemma w_mantis_swap_homG : forall m, hm (w_mantis_swap B1 bx1 z1 o1 m) = w_mantis_swap B2 bx2 z2 o2 (hm m).
  Proof.
    intros m. unfold w_mantis_swap. cbv zeta. cbn [map]. rewrite !Hreg. f_equal.
    rewrite !map_app, skipn_map, !Hrg, (smapS_sx _ _ H4 _ _ Hcx4), alpha_homG, !Hrd. reflexivity.
  Qed.
End SpecHom.

Lemma w_mantis_set_key_homU : forall R enc,
  homU (w_mantis_set_key poly pxor pzero pone R enc) (w_mantis_set_key bool xorb false true R enc).
Proof. intros R enc. homU_by1 w_mantis_set_key_homG. Qed.
Lemma w_mantis_set_tweak_homU : forall null, homU (w_mantis_set_tweak poly pzero null) (w_mantis_set_tweak bool false null).
Proof. intros null. homU_by1 w_mantis_set_tweak_homG. Qed.
Lemma w_mantis_swap_homU : homU (w_mantis_swap poly pxor pzero pone) (w_mantis_swap bool xorb false true).
Proof. homU_by1 w_mantis_swap_homG. Qed.

(* ---- the specifications on the image of a model schedule = the image of the model's result ---- *)
Notation rd8b := (rd8 bool false).

Lemma skipn8_rgb : forall (s : state nib) l, skipn 8 (rgb s ++ l) = l.
Proof.
  intros s l. rewrite skipn_app, rgb_len, Nat.sub_diag, (skipn_all2 (rgb s)) by (rewrite rgb_len; lia). reflexivity.
Qed.
Lemma skipn_mimage : forall ks tail, skipn 32 (mimage ks tail) = bits tail.
Proof.
  intros ks tail. unfold mimage. change 32 with (8 + (8 + (8 + 8))).
  rewrite !skipn_add, !skipn8_rgb. reflexivity.
Qed.
Lemma skipn24_mimage : forall ks tail, skipn 24 (mimage ks tail) = rgb (mk_tweak ks) ++ bits tail.
Proof.
  intros ks tail. unfold mimage. change 24 with (8 + (8 + 8)).
  rewrite !skipn_add, !skipn8_rgb. reflexivity.
Qed.
Lemma firstn24_mimage : forall ks tail, firstn 24 (mimage ks tail) = rgb (mk_k0 ks) ++ rgb (mk_k0p ks) ++ rgb (mk_k1 ks).
Proof.
  intros ks tail. unfold mimage.
  set (A := rgb (mk_k0 ks) ++ rgb (mk_k0p ks) ++ rgb (mk_k1 ks)).
  assert (HA : length A = 24) by (unfold A; rewrite !app_length, !rgb_len; reflexivity).
  replace (rgb (mk_k0 ks) ++ rgb (mk_k0p ks) ++ rgb (mk_k1 ks) ++ rgb (mk_tweak ks) ++ bits tail)
    with (A ++ rgb (mk_tweak ks) ++ bits tail) by (unfold A; rewrite <- !app_assoc; reflexivity).
  rewrite firstn_app, HA, Nat.sub_diag, firstn_O, app_nil_r. apply firstn_all2. lia.
Qed.

Lemma rd8_bits_firstn : forall key : list byte, 8 <= length key -> rd8b (bits key) 0 = load64 (firstn 8 key).
Proof.
  intros key H. unfold rd8. cbn [skipn]. rewrite firstn_map. apply stb_bits. rewrite firstn_length. lia.
Qed.
Lemma rd8_bits_skip : forall key : list byte, length key = 16 -> rd8b (bits key) 8 = load64 (firstn_skip 8 8 key).
Proof.
  intros key H. unfold rd8, firstn_skip. rewrite skipn_map, firstn_map. apply stb_bits.
  rewrite firstn_length, skipn_length. lia.
Qed.

Definition mtail (R : nat) (tail : list byte) : list (list bool) := rbytes R ++ skipn 4 (bits tail).

(* mantis_set_key: the image of the model's result, whatever the schedule held before *)
Theorem w_mantis_set_key_model : forall (R : nat) (mode : N) (key : list byte) (ks0 : list (list bool)) rest,
  length key = 16 -> 5 <= R <= 8 -> 36 <= length ks0 ->
  let res := mantis_set_key (mantis_fresh nib0) (Some key) 16 (N.of_nat R) mode in
  fst res = 1%N /\
  w_mantis_set_key bool xorb false true R (N.eqb mode 1) (ks0 :: bits key :: rest)
  = [rgb (mk_k0 (snd res)) ++ rgb (mk_k0p (snd res)) ++ rgb (mk_k1 (snd res)) ++ rgb (mk_tweak (snd res))
       ++ rbytes (N.to_nat (mk_rounds (snd res))) ++ skipn 36 ks0; bits key].
Proof.
  intros R mode key ks0 rest Hk HR Hks. cbv zeta. unfold mantis_set_key.
  assert (Hok : (N.eqb 16 16 && N.leb 5 (N.of_nat R) && N.leb (N.of_nat R) 8)%bool = true).
  { apply andb_true_iff. split; [apply andb_true_iff; split; [reflexivity|]|]; apply N.leb_le; lia. }
  rewrite Hok. unfold w_mantis_set_key, reg. cbn [nth]. cbv zeta.
  rewrite (rd8_bits_firstn key) by lia. rewrite (rd8_bits_skip key Hk).
  destruct (N.eqb mode 1); cbn [fst snd mk_k0 mk_k0p mk_k1 mk_tweak mk_rounds]; (split; [reflexivity|]);
    rewrite Nat2N.id; unfold rounds_bytes, rbytes, zst, mzero, mk0prime, alpha, malpha, alpha_state, cst;
    rewrite <- !app_assoc; reflexivity.
Qed.

(* mantis_set_tweak *)
Theorem w_mantis_set_tweak_model : forall (ks : mantis_ks) (tail : list byte) (tw : option (list byte)) rest twreg,
  match tw with Some t => length t = 8 /\ twreg = bits t | None => True end ->
  let res := mantis_set_tweak ks tw 8 in
  fst res = 1%N /\
  w_mantis_set_tweak bool false (match tw with Some _ => false | None => true end) (mimage ks tail :: twreg :: rest)
  = [mimage (snd res) tail; twreg].
Proof.
  intros ks tail tw rest twreg Htw. cbv zeta. unfold mantis_set_tweak. cbn [N.eqb Pos.eqb fst snd]. split; [reflexivity|].
  unfold w_mantis_set_tweak, reg. cbn [nth]. rewrite firstn24_mimage, skipn_mimage.
  unfold mimage at 1. cbn [mk_k0 mk_k0p mk_k1 mk_tweak]. rewrite <- !app_assoc.
  destruct tw as [t|].
  - destruct Htw as [Hl ->]. rewrite rd8_bits0 by exact Hl. rewrite (pad_to_id 8 t Hl). reflexivity.
  - reflexivity.
Qed.

(* mantis_swap_modes *)
Theorem w_mantis_swap_model : forall (ks : mantis_ks) (tail : list byte) rest,
  w_mantis_swap bool xorb false true (mimage ks tail :: rest) = [mimage (mantis_swap_modes ks) tail].
Proof.
  intros ks tail rest. unfold w_mantis_swap, reg. cbn [nth]. cbv zeta.
  rewrite rd8_mimage0, rd8_mimage8, rd8_mimage16, skipn24_mimage.
  unfold mimage, mantis_swap_modes. cbn [mk_k0 mk_k0p mk_k1 mk_tweak]. reflexivity.
Qed.

Print Assumptions w_mantis_set_key_model.
Print Assumptions w_mantis_set_tweak_model.
Print Assumptions w_mantis_swap_model.
