(* KernelSpecs.v — the specification steps that the generated kernels (coq/Gen/*/Kernels.v, produced by
   translator/c2ir.py from the current C source) are compared with, as functions on the IR's byte memory,
   polymorphic in the bit carrier.  They are built from the paper-level functions of SpecSkinny.v /
   SpecMantis.v and fixed byte <-> cell conversions (the byte order of the C API: SKINNY-128 cell i = byte
   i; SKINNY-64 / MANTIS byte i = cells 2i (high nibble), 2i+1 (low nibble)).  IR bytes are lists of 8 bits,
   least significant first; cells are tuples, most significant first. *)
From Coq Require Import List Bool NArith Arith.
From Skinny Require Import Bits SpecSkinny SpecMantis IR.
Import ListNotations.

Section Conv.
  Variable B : Type.
  Variables (bx ba : B -> B -> B) (b0 b1 : B).

  Definition c8_of_bits (l : list B) : c8 B :=
    (nth 7 l b0, nth 6 l b0, nth 5 l b0, nth 4 l b0, nth 3 l b0, nth 2 l b0, nth 1 l b0, nth 0 l b0).
  Definition bits_of_c8 (x : c8 B) : list B :=
    let '(x7, x6, x5, x4, x3, x2, x1, x0) := x in [x0; x1; x2; x3; x4; x5; x6; x7].
  (* per-byte application of an 8-bit cell function, and of a 4-bit cell function to both nibbles *)
  Definition on_byte8 (f : c8 B -> c8 B) (l : list B) : list B := bits_of_c8 (f (c8_of_bits l)).
  Definition on_byte4 (f : c4 B -> c4 B) (l : list B) : list B :=
    let x := c8_of_bits l in bits_of_c8 (c8join (f (c8hi x)) (f (c8lo x))).

  Definition reg (m : mem B) (r : nat) : list (list B) := nth r m [].
  Definition byte_at (m : mem B) (r i : nat) : c8 B := c8_of_bits (nth i (reg m r) []).

  (* word functions: region 0 = argument bytes, region 1 = result bytes *)
  Definition spec_bytemap (f : list B -> list B) (m : mem B) : mem B := [reg m 0; map f (reg m 0)].

  (* 16-byte region <-> SKINNY-128 state; 8-byte region <-> 4-bit-cell state *)
  Definition state128_of_reg (bytes : list (list B)) : state (c8 B) :=
    state128_of_bytes B b0 (map c8_of_bits bytes).
  Definition reg_of_state128 (s : state (c8 B)) : list (list B) := map bits_of_c8 (bytes_of_state128 B s).
  Definition state64_of_reg (bytes : list (list B)) : state (c4 B) :=
    state64_of_bytes B b0 (map c8_of_bits bytes).
  Definition reg_of_state64 (s : state (c4 B)) : list (list B) := map bits_of_c8 (bytes_of_state64 B s).

  (* cells functions: region 0 is read and written *)
  Definition spec_cells128 (f : state (c8 B) -> state (c8 B)) (m : mem B) : mem B :=
    [reg_of_state128 (f (state128_of_reg (reg m 0)))].
  Definition spec_cells64 (f : state (c4 B) -> state (c4 B)) (m : mem B) : mem B :=
    [reg_of_state64 (f (state64_of_reg (reg m 0)))].

  (* the cell functions at this carrier *)
  Definition S8_ := S8 B bx ba b1.        Definition S8inv_ := S8inv B bx ba b1.
  Definition S4_ := S4 B bx ba b1.        Definition S4inv_ := S4inv B bx ba b1.
  Definition Sb0_ := Sb0 B bx ba b1.
  Definition L2_8 := lfsr2_8 B bx.        Definition L3_8 := lfsr3_8 B bx.
  Definition L2_4 := lfsr2_4 B bx.        Definition L3_4 := lfsr3_4 B bx.
  Definition cx8 := @c8x B bx.            Definition cx4 := @c4x B bx.
  Definition nib8 := c8nib B b0 b1.       Definition nib4 := c4nib B b0 b1.

  (* ---- kernel specifications ---- *)
  (* skinny128_sbox / skinny128_inv_sbox (64- or 32-bit word): every byte through S8 / S8^-1 *)
  Definition k_sbox128 := spec_bytemap (on_byte8 S8_).
  Definition k_inv_sbox128 := spec_bytemap (on_byte8 S8inv_).
  (* skinny64_sbox / inv: every nibble through S4 / S4^-1; mantis_sbox: every nibble through Sb0 *)
  Definition k_sbox64 := spec_bytemap (on_byte4 S4_).
  Definition k_inv_sbox64 := spec_bytemap (on_byte4 S4inv_).
  Definition k_mantis_sbox := spec_bytemap (on_byte4 Sb0_).
  (* tweakey LFSRs *)
  Definition k_lfsr2_128 := spec_bytemap (on_byte8 L2_8).
  Definition k_lfsr3_128 := spec_bytemap (on_byte8 L3_8).
  Definition k_lfsr2_64 := spec_bytemap (on_byte4 L2_4).
  Definition k_lfsr3_64 := spec_bytemap (on_byte4 L3_4).
  (* tweakey permutation PT *)
  Definition k_permute_tk128 := spec_cells128 (permute_tk (c8 B)).
  Definition k_permute_tk64 := spec_cells64 (permute_tk (c4 B)).
  (* MANTIS tweak update h and its inverse, cell permutation P and its inverse, MixColumns *)
  Definition k_mantis_h := spec_cells64 (h_perm (c4 B)).
  Definition k_mantis_h_inv := spec_cells64 (h_perm_inv (c4 B)).
  Definition k_mantis_P := spec_cells64 (permute_cells (c4 B)).
  Definition k_mantis_P_inv := spec_cells64 (permute_cells_inv (c4 B)).
  Definition k_mantis_mix := spec_cells64 (mix (c4 B) cx4).

  (* ---- round bodies, cut at the S-box layer.  Regions: 0 = state, 1 = schedule word (8 / 4 bytes) ---- *)
  Definition half128_of_reg (bytes : list (list B)) : row (c8 B) * row (c8 B) :=
    let g i := c8_of_bits (nth i bytes []) in ((g 0, g 1, g 2, g 3), (g 4, g 5, g 6, g 7)).
  Definition half64_of_reg (bytes : list (list B)) : row (c4 B) * row (c4 B) :=
    let h i := c8hi (c8_of_bits (nth i bytes [])) in let w i := c8lo (c8_of_bits (nth i bytes [])) in
    ((h 0, w 0, h 1, w 1), (h 2, w 2, h 3, w 3)).
  (* constant 2 into cell (2,0): what the code adds besides the schedule word *)
  Definition add_c2_ {C} (cx : C -> C -> C) (c2 : C) (s : state C) : state C :=
    let '(s0, s1, s2, s3) := s in let '(e0, e1, e2, e3) := s2 in (s0, s1, (cx e0 c2, e1, e2, e3), s3).

  (* SKINNY-128 encryption round = linear part after SubCells; decryption round = linear part before SubCells^-1 *)
  Definition k128_subcells (m : mem B) : mem B :=
    [reg_of_state128 (sub_cells (c8 B) S8_ (state128_of_reg (reg m 0))); reg m 1].
  Definition k128_subcells_inv (m : mem B) : mem B :=
    [reg_of_state128 (sub_cells_inv (c8 B) S8inv_ (state128_of_reg (reg m 0))); reg m 1].
  Definition k128_enc_linear (m : mem B) : mem B :=
    [reg_of_state128 (mix_columns (c8 B) cx8 (shift_rows (c8 B)
       (add_c2_ cx8 (nib8 false false true false)
          (add_round_tweakey (c8 B) cx8 (half128_of_reg (reg m 1)) (state128_of_reg (reg m 0))))));
     reg m 1].
  Definition k128_dec_linear (m : mem B) : mem B :=
    [reg_of_state128 (add_c2_ cx8 (nib8 false false true false)
       (add_round_tweakey (c8 B) cx8 (half128_of_reg (reg m 1))
          (shift_rows_inv (c8 B) (mix_columns_inv (c8 B) cx8 (state128_of_reg (reg m 0))))));
     reg m 1].
  Definition k64_subcells (m : mem B) : mem B :=
    [reg_of_state64 (sub_cells (c4 B) S4_ (state64_of_reg (reg m 0))); reg m 1].
  Definition k64_subcells_inv (m : mem B) : mem B :=
    [reg_of_state64 (sub_cells_inv (c4 B) S4inv_ (state64_of_reg (reg m 0))); reg m 1].
  Definition k64_enc_linear (m : mem B) : mem B :=
    [reg_of_state64 (mix_columns (c4 B) cx4 (shift_rows (c4 B)
       (add_c2_ cx4 (nib4 false false true false)
          (add_round_tweakey (c4 B) cx4 (half64_of_reg (reg m 1)) (state64_of_reg (reg m 0))))));
     reg m 1].
  Definition k64_dec_linear (m : mem B) : mem B :=
    [reg_of_state64 (add_c2_ cx4 (nib4 false false true false)
       (add_round_tweakey (c4 B) cx4 (half64_of_reg (reg m 1))
          (shift_rows_inv (c4 B) (mix_columns_inv (c4 B) cx4 (state64_of_reg (reg m 0))))));
     reg m 1].

  (* opaque word functions of the generated round bodies: number -> what it computes on a word's bits *)
  Definition word_bytes (f : list B -> list B) (bits : list B) : list B :=
    concat (map f (bytes_of B b0 (length bits / 8) bits)).
  Definition callf_spec (f : nat) (bits : list B) : list B :=
    match f with
    | 0 => word_bytes (on_byte8 S8_) bits          (* skinny128_sbox *)
    | 1 => word_bytes (on_byte8 S8inv_) bits       (* skinny128_inv_sbox *)
    | 2 => word_bytes (on_byte4 S4_) bits          (* skinny64_sbox *)
    | 3 => word_bytes (on_byte4 S4inv_) bits       (* skinny64_inv_sbox *)
    | 4 => word_bytes (on_byte4 Sb0_) bits         (* mantis_sbox *)
    | _ => bits
    end.
End Conv.
