(* WholeParKey.v — the key setters of the parallel-ECB objects (skinny128/64_parallel_ecb_set_key, mantis_parallel_ecb_set_key,
   mantis_parallel_ecb_swap_modes) as WHOLE functions: thin wrappers that run the cipher's key function on the key schedule
   object the parallel object points to.  The specification applies the key-schedule specifications of WholeKey.v /
   WholeMantisKey.v to that region.  Memory: 0 = the parallel-ECB object, 1 = key, rks = the key schedule object. *)
From Coq Require Import List Bool NArith Arith Lia.
From Skinny Require Import Bits IR SIR Anf IRCheck KernelSpecs KernelSpecs2 KernelHom KernelHom2 SIRCheck WholeSpecs SIRProofs Frame
                           ModelCipher WholeBridge WholeKey WholeMantis WholeMantisKey.
Import ListNotations.

Section Lift.
  Variable B : Type.
  Notation reg := (reg B).
  Definition w_par_lift (inner : mem B -> mem B) (rks : nat) (m : mem B) : mem B :=
    [reg m 0; reg m 1; reg (inner [reg m rks; reg m 1]) 0].
  (* swap_modes: no key argument; the object and the schedule are observed *)
  Definition w_par_swap (inner : mem B -> mem B) (rks : nat) (m : mem B) : mem B :=
    [reg m 0; reg (inner [reg m rks]) 0].
End Lift.

Lemma w_par_lift_homU : forall innerP innerB rks, homU innerP innerB ->
  homU (w_par_lift poly innerP rks) (w_par_lift bool innerB rks).
Proof.
  intros innerP innerB rks H rho m. unfold w_par_lift.
  unfold mmap at 1. cbn [map]. rewrite !reg_mmap. f_equal. f_equal. f_equal.
  rewrite <- reg_mmap, H. unfold mmap at 1. cbn [map]. reflexivity.
Qed.
Lemma w_par_swap_homU : forall innerP innerB rks, homU innerP innerB ->
  homU (w_par_swap poly innerP rks) (w_par_swap bool innerB rks).
Proof.
  intros innerP innerB rks H rho m. unfold w_par_swap.
  unfold mmap at 1. cbn [map]. rewrite !reg_mmap. f_equal. f_equal.
  rewrite <- reg_mmap, H. unfold mmap at 1. cbn [map]. reflexivity.
Qed.
Print Assumptions w_par_lift_homU.
