(* ProofsSkinny.v — proofs about the SKINNY specification and the hand model of
   the C library's key-schedule objects:
     - the S-boxes are bijections, decryption inverts encryption (spec);
     - C01: the model (precomputed schedule, three passes) computes the
       specification's cipher;
     - C10: every key length in range behaves as the zero-padded key;
     - C04: tweakable schedules depend only on the key and the latest tweak.
   No axioms. *)
From Coq Require Import List Bool NArith Arith Lia.
From Skinny Require Import Bits SpecSkinny ModelCipher.
Import ListNotations.

(* ------------------------------------------------------------------ *)
(* S-boxes *)
Lemma S8_inv_l : forall x : byte, S8inv bool xorb andb true (S8 bool xorb andb true x) = x.
Proof. intros x. destruct x as [[[[[[[[] []] []] []] []] []] []] []]; reflexivity. Qed.
Lemma S8_inv_r : forall x : byte, S8 bool xorb andb true (S8inv bool xorb andb true x) = x.
Proof. intros x. destruct x as [[[[[[[[] []] []] []] []] []] []] []]; reflexivity. Qed.
Lemma S4_inv_l : forall x : nib, S4inv bool xorb andb true (S4 bool xorb andb true x) = x.
Proof. intros x. destruct x as [[[[] []] []] []]; reflexivity. Qed.
Lemma S4_inv_r : forall x : nib, S4 bool xorb andb true (S4inv bool xorb andb true x) = x.
Proof. intros x. destruct x as [[[[] []] []] []]; reflexivity. Qed.

(* ------------------------------------------------------------------ *)
(* A reflexive decision procedure for equations in an elementary abelian
   2-group (associative, commutative, every element its own inverse). *)
Inductive xex : Type := XV (n : nat) | XZ | XX (a b : xex).

Section XorGroup.
  Variable G : Type.
  Variable op : G -> G -> G.
  Variable e : G.
  Hypothesis opA : forall a b c, op (op a b) c = op a (op b c).
  Hypothesis opC : forall a b, op a b = op b a.
  Hypothesis opN : forall a, op a a = e.
  Hypothesis op0 : forall a, op a e = a.

  Fixpoint xev (env : list G) (t : xex) : G :=
    match t with
    | XV n => nth n env e
    | XZ => e
    | XX a b => op (xev env a) (xev env b)
    end.
  Fixpoint xunit (n : nat) : list bool :=
    match n with O => [true] | S n' => false :: xunit n' end.
  Fixpoint vxor (a b : list bool) : list bool :=
    match a with
    | [] => b
    | x :: a' => match b with [] => a | y :: b' => xorb x y :: vxor a' b' end
    end.
  Fixpoint xnf (t : xex) : list bool :=
    match t with
    | XV n => xunit n
    | XZ => []
    | XX a b => vxor (xnf a) (xnf b)
    end.
  Fixpoint vev (env : list G) (v : list bool) {struct v} : G :=
    match v with
    | [] => e
    | b :: v' => match env with
                 | [] => e
                 | g :: env' => op (if b then g else e) (vev env' v')
                 end
    end.

  Lemma op0l a : op e a = a.
  Proof. rewrite opC. apply op0. Qed.
  Lemma op4 a b c d : op (op a b) (op c d) = op (op a c) (op b d).
  Proof.
    rewrite (opA a b (op c d)), <- (opA b c d), (opC b c), (opA c b d), <- (opA a c (op b d)).
    reflexivity.
  Qed.
  Lemma vev_vxor : forall a b env, vev env (vxor a b) = op (vev env a) (vev env b).
  Proof.
    induction a as [|x a IH]; intros b env; simpl.
    - now rewrite op0l.
    - destruct b as [|y b]; simpl.
      + destruct env; now rewrite op0.
      + destruct env as [|g env]; [now rewrite op0|].
        rewrite IH, op4. f_equal.
        destruct x, y; simpl; auto using op0, op0l.
  Qed.
  Lemma vev_unit : forall n env, vev env (xunit n) = nth n env e.
  Proof.
    induction n as [|n IH]; intros [|g env]; simpl; try reflexivity.
    - apply op0.
    - rewrite op0l. apply IH.
  Qed.
  Lemma xev_sound env t : xev env t = vev env (xnf t).
  Proof.
    induction t as [n| |a IHa b IHb]; simpl.
    - now rewrite vev_unit.
    - reflexivity.
    - now rewrite vev_vxor, IHa, IHb.
  Qed.
  Lemma vev_allfalse : forall v env, forallb negb v = true -> vev env v = e.
  Proof.
    induction v as [|b v IH]; intros env H; simpl in *; auto.
    apply andb_prop in H as [Hb Hv]. destruct env as [|g env]; auto.
    destruct b; [discriminate|]. rewrite IH by assumption. apply op0.
  Qed.
  Lemma xg_solve env t1 t2 :
    forallb negb (xnf (XX t1 t2)) = true -> xev env t1 = xev env t2.
  Proof.
    intros H. apply (vev_allfalse _ env) in H. rewrite <- xev_sound in H. simpl in H.
    rewrite <- (op0 (xev env t1)), <- (opN (xev env t2)), <- opA, H. apply op0l.
  Qed.
End XorGroup.

Ltac xg_in x l :=
  match l with
  | nil => constr:(false)
  | cons x _ => constr:(true)
  | cons _ ?t => xg_in x t
  end.
Ltac xg_add x l :=
  let b := xg_in x l in
  match b with true => l | false => constr:(cons x l) end.
Ltac xg_collect op e t l :=
  match t with
  | op ?a ?b => let l1 := xg_collect op e a l in xg_collect op e b l1
  | e => l
  | _ => xg_add t l
  end.
Ltac xg_idx x l :=
  match l with
  | cons x _ => constr:(O)
  | cons _ ?t => let n := xg_idx x t in constr:(S n)
  end.
Ltac xg_reify op e t l :=
  match t with
  | op ?a ?b => let ra := xg_reify op e a l in
                let rb := xg_reify op e b l in constr:(XX ra rb)
  | e => constr:(XZ)
  | _ => let n := xg_idx t l in constr:(XV n)
  end.
(* [lem] is [xg_solve] applied to the group and its four laws *)
Ltac xg_tac G op e lem :=
  match goal with
  | |- ?L = ?R =>
      let l0 := xg_collect op e L (@nil G) in
      let l := xg_collect op e R l0 in
      let tl := xg_reify op e L l in
      let tr := xg_reify op e R l in
      change (xev G op e l tl = xev G op e l tr); apply lem; reflexivity
  end.

(* ------------------------------------------------------------------ *)
(* byte-string helpers *)
Lemma firstn_repeat {A} (x : A) : forall k n, k <= n -> firstn k (repeat x n) = repeat x k.
Proof.
  induction k as [|k IH]; intros [|n] H; simpl; auto; try lia.
  f_equal. apply IH. lia.
Qed.
Lemma firstn_app_zeros l : forall n m, n <= m ->
  firstn n (l ++ zeros m) = firstn n l ++ zeros (n - length l).
Proof.
  intros n m H. rewrite firstn_app. f_equal. unfold zeros. apply firstn_repeat. lia.
Qed.
Lemma pad_to_length n l : length (pad_to n l) = n.
Proof.
  unfold pad_to. rewrite firstn_length, app_length. unfold zeros. rewrite repeat_length. lia.
Qed.
Lemma pad_to_id n l : length l = n -> pad_to n l = l.
Proof.
  intros H. unfold pad_to. rewrite firstn_app, H, Nat.sub_diag. simpl.
  rewrite app_nil_r. apply firstn_all2. lia.
Qed.
Lemma pad_to_ge n l : length l <= n -> pad_to n l = l ++ zeros (n - length l).
Proof.
  intros H. unfold pad_to. rewrite firstn_app_zeros by lia. f_equal. apply firstn_all2. lia.
Qed.
Lemma pad_to_app_zeros n a k : pad_to n (a ++ zeros k) = pad_to n a.
Proof.
  unfold pad_to. rewrite <- app_assoc. unfold zeros at 1 2. rewrite <- repeat_app.
  fold (zeros (k + n)). rewrite !firstn_app_zeros by lia. reflexivity.
Qed.
Lemma firstn_app_le {A} n (l x : list A) : n <= length l -> firstn n (l ++ x) = firstn n l.
Proof.
  intros H. rewrite firstn_app. replace (n - length l) with 0 by lia. simpl. apply app_nil_r.
Qed.
Lemma skipn_app_le {A} n (l x : list A) : n <= length l -> skipn n (l ++ x) = skipn n l ++ x.
Proof.
  intros H. rewrite skipn_app. replace (n - length l) with 0 by lia. reflexivity.
Qed.
Lemma zeros_length n : length (zeros n) = n.
Proof. apply repeat_length. Qed.

(* ------------------------------------------------------------------ *)
(* C04 vocabulary: a tweak-change request as the API sees it: buffer
   (None = NULL) and size *)
Definition tweak_req : Type := (buf * N)%type.
Definition tweak_valid (bs : nat) (q : tweak_req) : bool :=
  (N.leb 1 (snd q) && N.leb (snd q) (N.of_nat bs))%bool.
Definition tweak_bytes (bs : nat) (q : tweak_req) : list byte :=
  match fst q with Some b => pad_to bs (firstn (N.to_nat (snd q)) b) | None => zeros bs end.
(* the tweak in force after a history of requests (invalid ones are ignored),
   starting from [cur] *)
Definition latest_tweak (bs : nat) (cur : list byte) (qs : list tweak_req) : list byte :=
  fold_left (fun t q => if tweak_valid bs q then tweak_bytes bs q else t) qs cur.

Lemma tweak_bytes_length bs q : length (tweak_bytes bs q) = bs.
Proof. unfold tweak_bytes. destruct (fst q); [apply pad_to_length|apply zeros_length]. Qed.
Lemma size_ok_true lo hi n : lo <= n <= hi -> size_ok lo hi (N.of_nat n) = true.
Proof. intros H. unfold size_ok. apply andb_true_intro. split; apply N.leb_le; lia. Qed.

(* ------------------------------------------------------------------ *)
(* Generic development over a cell type with an xor-group structure *)
Section Gen.
  Variable C : Type.
  Variable cx : C -> C -> C.
  Variable cnib : bool -> bool -> bool -> bool -> C.
  Variables sb sbi l2 l3 : C -> C.
  Variable bs : nat.
  Variable load : list byte -> state C.
  Variable store : state C -> list byte.
  Variable czero : C.
  Variable rounds_for : nat -> nat.

  Hypothesis cxA : forall a b c, cx (cx a b) c = cx a (cx b c).
  Hypothesis cxC : forall a b, cx a b = cx b a.
  Hypothesis cxN : forall a, cx a a = czero.
  Hypothesis cx0 : forall a, cx a czero = a.
  Hypothesis sbi_sb : forall x, sbi (sb x) = x.
  Hypothesis sb_sbi : forall x, sb (sbi x) = x.
  Hypothesis l2_0 : l2 czero = czero.
  Hypothesis l3_0 : l3 czero = czero.
  Hypothesis bs_pos : 0 < bs.

  Ltac cxs := xg_tac C cx czero (xg_solve C cx czero cxA cxC cxN cx0).
  Ltac dstate s :=
    let a := fresh "a" in let b := fresh "b" in let c := fresh "c" in let d := fresh "d" in
    destruct s as [[[[[[a ?] ?] ?] [[[b ?] ?] ?]] [[[c ?] ?] ?]] [[[d ?] ?] ?]].
  Ltac dhalf k :=
    let a := fresh "k" in let b := fresh "k" in
    destruct k as [[[[a ?] ?] ?] [[[b ?] ?] ?]].

  (* --- the layers of a round and their inverses --- *)
  Lemma mc_inv_mc s : mix_columns_inv C cx (mix_columns C cx s) = s.
  Proof. dstate s. cbn. pair_eq; try reflexivity; cxs. Qed.
  Lemma mc_mc_inv s : mix_columns C cx (mix_columns_inv C cx s) = s.
  Proof. dstate s. cbn. pair_eq; try reflexivity; cxs. Qed.
  Lemma sr_inv_sr s : shift_rows_inv C (shift_rows C s) = s.
  Proof. dstate s. reflexivity. Qed.
  Lemma sr_sr_inv s : shift_rows C (shift_rows_inv C s) = s.
  Proof. dstate s. reflexivity. Qed.
  Lemma atb_invol tw s : add_tweak_bit C cx cnib tw (add_tweak_bit C cx cnib tw s) = s.
  Proof. destruct tw; [|reflexivity]. dstate s. cbn. pair_eq; try reflexivity; cxs. Qed.
  Lemma art_invol k s : add_round_tweakey C cx k (add_round_tweakey C cx k s) = s.
  Proof. dstate s. dhalf k. cbn. pair_eq; try reflexivity; cxs. Qed.
  Lemma ac_invol r s : add_constants C cx cnib r (add_constants C cx cnib r s) = s.
  Proof.
    dstate s. destruct r as [[[[[r5 r4] r3] r2] r1] r0]. cbn. pair_eq; try reflexivity; cxs.
  Qed.
  Lemma sc_inv_sc s : sub_cells_inv C sbi (sub_cells C sb s) = s.
  Proof. dstate s. cbn. now rewrite !sbi_sb. Qed.
  Lemma sc_sc_inv s : sub_cells C sb (sub_cells_inv C sbi s) = s.
  Proof. dstate s. cbn. now rewrite !sb_sbi. Qed.

  Lemma round_inv_round tw r k s :
    round_inv C cx cnib sbi tw r k (round C cx cnib sb tw r k s) = s.
  Proof.
    unfold round_inv, round.
    now rewrite mc_inv_mc, sr_inv_sr, atb_invol, art_invol, ac_invol, sc_inv_sc.
  Qed.
  Lemma round_round_inv tw r k s :
    round C cx cnib sb tw r k (round_inv C cx cnib sbi tw r k s) = s.
  Proof.
    unfold round_inv, round.
    now rewrite sc_sc_inv, ac_invol, art_invol, atb_invol, sr_sr_inv, mc_mc_inv.
  Qed.

  Lemma dec_enc_with tw ks : forall s,
    decrypt_with C cx cnib sbi tw ks (encrypt_with C cx cnib sb tw ks s) = s.
  Proof.
    unfold decrypt_with, encrypt_with.
    induction ks as [|k ks IH]; intros s; simpl; auto.
    rewrite fold_left_app. simpl. rewrite IH. apply round_inv_round.
  Qed.
  Lemma enc_dec_with tw ks : forall s,
    encrypt_with C cx cnib sb tw ks (decrypt_with C cx cnib sbi tw ks s) = s.
  Proof.
    unfold decrypt_with, encrypt_with.
    induction ks as [|k ks IH]; intros s; simpl; auto.
    rewrite fold_left_app. simpl. rewrite round_round_inv. apply IH.
  Qed.
  Lemma dec_enc_gen tw n t1 t2 t3 s :
    decrypt C cx cnib sbi l2 l3 tw n t1 t2 t3 (encrypt C cx cnib sb l2 l3 tw n t1 t2 t3 s) = s.
  Proof. apply dec_enc_with. Qed.
  Lemma enc_dec_gen tw n t1 t2 t3 s :
    encrypt C cx cnib sb l2 l3 tw n t1 t2 t3 (decrypt C cx cnib sbi l2 l3 tw n t1 t2 t3 s) = s.
  Proof. apply enc_dec_with. Qed.

  (* ---------------------------------------------------------------- *)
  (* the model's rounds against the specification's *)
  Notation half := (half C).
  Notation hxor := (hxor C cx).
  Notation chalf := (const_half C cnib czero).
  Notation zrow := (zrow C czero).
  Notation zhalf := (zhalf C czero).
  Notation rkeys := (round_keys C cx l2 l3).
  Notation sloop := (sched_loop C).
  Definition zstate : state C := (zrow, zrow, zrow, zrow).
  (* what a schedule slot holds for round constant and round tweakey [k] *)
  Definition kf (tw : bool) (k : rc6 * (row C * row C)) : half :=
    hxor (snd k) (chalf tw (fst k)).
  (* the update functions of the passes *)
  Notation upd_set tw := (fun (_ k : half) (r : rc6) => hxor k (chalf tw r)).
  Notation upd_xor := (fun (e k : half) (_ : rc6) => hxor e k).

  Lemma enc_round_kf tw k s :
    enc_round C cx cnib sb (kf tw k) s = round C cx cnib sb tw (fst k) (snd k) s.
  Proof.
    destruct k as [r k]. unfold enc_round, round, kf. do 2 f_equal. simpl fst; simpl snd.
    generalize (sub_cells C sb s). clear s. intros s.
    dstate s. dhalf k. destruct r as [[[[[r5 r4] r3] r2] r1] r0].
    destruct tw; cbn; pair_eq; try reflexivity; cxs.
  Qed.
  Lemma dec_round_kf tw k s :
    dec_round C cx cnib sbi (kf tw k) s = round_inv C cx cnib sbi tw (fst k) (snd k) s.
  Proof.
    destruct k as [r k]. unfold dec_round, round_inv, kf. f_equal. simpl fst; simpl snd.
    generalize (shift_rows_inv C (mix_columns_inv C cx s)). clear s. intros s.
    dstate s. dhalf k. destruct r as [[[[[r5 r4] r3] r2] r1] r0].
    destruct tw; cbn; pair_eq; try reflexivity; cxs.
  Qed.
  Lemma fold_enc_kf tw ks : forall s,
    fold_left (fun s e => enc_round C cx cnib sb e s) (map (kf tw) ks) s
    = encrypt_with C cx cnib sb tw ks s.
  Proof.
    unfold encrypt_with. induction ks as [|k ks IH]; intros s; simpl; auto.
    rewrite enc_round_kf. apply IH.
  Qed.
  Lemma fold_dec_kf tw ks : forall s,
    fold_left (fun s e => dec_round C cx cnib sbi e s) (rev (map (kf tw) ks)) s
    = decrypt_with C cx cnib sbi tw ks s.
  Proof.
    unfold decrypt_with. rewrite <- map_rev. generalize (rev ks). clear ks.
    induction l as [|k ks IH]; intros s; simpl; auto.
    rewrite dec_round_kf. apply IH.
  Qed.

  (* a schedule whose used part is the specification's round tweakeys *)
  Lemma crypt_of_sched tw n t1 t2 t3 (ks : keysched C) :
    ks_rounds C ks = N.of_nat n ->
    firstn n (ks_sched C ks) = map (kf tw) (rkeys n rc_init t1 t2 t3) ->
    forall blk,
      ecb_encrypt C cx cnib sb load store ks blk
      = store (encrypt C cx cnib sb l2 l3 tw n t1 t2 t3 (load blk))
      /\ ecb_decrypt C cx cnib sbi load store ks blk
         = store (decrypt C cx cnib sbi l2 l3 tw n t1 t2 t3 (load blk)).
  Proof.
    intros Hr Hs blk. unfold ecb_encrypt, ecb_decrypt, used. rewrite Hr, Nat2N.id, Hs.
    rewrite fold_enc_kf, fold_dec_kf. split; reflexivity.
  Qed.

  (* --- the schedule loop --- *)
  Lemma sloop_length n upd next : forall tk r s, length (sloop n upd next tk r s) = length s.
  Proof.
    induction n as [|n IH]; intros tk r [|e s]; simpl; auto.
  Qed.

  Lemma zstate_next2 : next_tk2 C l2 zstate = zstate.
  Proof. unfold next_tk2, zstate. cbn. now rewrite l2_0. Qed.
  Lemma zstate_next3 : next_tk3 C l3 zstate = zstate.
  Proof. unfold next_tk3, zstate. cbn. now rewrite l3_0. Qed.
  Lemma hxor_zhalf e : hxor e zhalf = e.
  Proof.
    dhalf e. unfold ModelCipher.hxor, ModelCipher.zhalf, ModelCipher.zrow. cbn. now rewrite !cx0.
  Qed.
  Lemma zero_pass next : next zstate = zstate ->
    forall n r s, sloop n upd_xor next zstate r s = s.
  Proof.
    intros Hn. induction n as [|n IH]; intros r [|e s]; simpl; auto.
    rewrite Hn, IH. f_equal. apply hxor_zhalf.
  Qed.

  Lemma three_pass tw : forall n t1 t2 t3 r s, n <= length s ->
    firstn n (sloop n upd_xor (next_tk3 C l3) t3 r
               (sloop n upd_xor (next_tk2 C l2) t2 r
                  (sloop n (upd_set tw) (next_tk1 C) t1 r s)))
    = map (kf tw) (rkeys n r t1 t2 t3).
  Proof.
    induction n as [|n IH]; intros t1 t2 t3 r [|e s] H; simpl in *; auto; try lia.
    f_equal; [|apply IH; lia].
    unfold kf. simpl fst; simpl snd. generalize (chalf tw (rc_next r)). intros c.
    dstate t1. dstate t2. dstate t3. dhalf c. unfold ModelCipher.hxor. cbn. pair_eq; cxs.
  Qed.
  Lemma two_pass tw n t1 t2 r s : n <= length s ->
    firstn n (sloop n upd_xor (next_tk2 C l2) t2 r (sloop n (upd_set tw) (next_tk1 C) t1 r s))
    = map (kf tw) (rkeys n r t1 t2 zstate).
  Proof.
    intros H. rewrite <- (three_pass tw n t1 t2 zstate r s H).
    now rewrite (zero_pass _ zstate_next3).
  Qed.
  Lemma one_pass tw n t1 r s : n <= length s ->
    firstn n (sloop n (upd_set tw) (next_tk1 C) t1 r s)
    = map (kf tw) (rkeys n r t1 zstate zstate).
  Proof.
    intros H. rewrite <- (two_pass tw n t1 zstate r s H).
    now rewrite (zero_pass _ zstate_next2).
  Qed.

  (* xor the TK1 stream of [ta] out and that of [tb] in *)
  Lemma swap_tk1 tw : forall n ta tb t2 t3 r s, n <= length s ->
    firstn n s = map (kf tw) (rkeys n r ta t2 t3) ->
    firstn n (sloop n upd_xor (next_tk1 C) tb r (sloop n upd_xor (next_tk1 C) ta r s))
    = map (kf tw) (rkeys n r tb t2 t3).
  Proof.
    induction n as [|n IH]; intros ta tb t2 t3 r [|e s] H Hs; simpl in *; auto; try lia.
    injection Hs as He Hs. f_equal; [|apply IH with (ta := next_tk1 C ta); [lia|exact Hs]].
    subst e. unfold kf. simpl fst; simpl snd. generalize (chalf tw (rc_next r)). intros c.
    dstate ta. dstate tb. dstate t2. dstate t3. dhalf c. unfold ModelCipher.hxor. cbn. pair_eq; cxs.
  Qed.

  (* ---------------------------------------------------------------- *)
  (* set_key_inner: what each branch leaves in the schedule *)
  Notation skinner := (set_key_inner C cx cnib l2 l3 bs load czero rounds_for).
  Definition tkz (z i : nat) (key : list byte) : state C :=
    if Nat.ltb i z then load (firstn bs (skipn (bs * i) key)) else zstate.
  Lemma tkz_lt z i key : i < z -> tkz z i key = load (firstn bs (skipn (bs * i) key)).
  Proof. intros H. unfold tkz. destruct (Nat.ltb_spec i z); [reflexivity|lia]. Qed.
  Lemma tkz_ge z i key : z <= i -> tkz z i key = zstate.
  Proof. intros H. unfold tkz. destruct (Nat.ltb_spec i z); [lia|reflexivity]. Qed.

  Definition sched_ok (tw : bool) (n : nat) (t1 t2 t3 : state C) (len : nat)
             (ks : keysched C) : Prop :=
    ks_rounds C ks = N.of_nat n /\ length (ks_sched C ks) = len
    /\ firstn n (ks_sched C ks) = map (kf tw) (rkeys n rc_init t1 t2 t3).

  Lemma inner_None z ks key :
    In z [1; 2; 3] -> length key = z * bs -> rounds_for z <= length (ks_sched C ks) ->
    sched_ok false (rounds_for z) (tkz z 0 key) (tkz z 1 key) (tkz z 2 key)
             (length (ks_sched C ks)) (skinner ks key None).
  Proof.
    intros Hz Hl Hn. unfold set_key_inner.
    assert (E0 : firstn bs (skipn (bs * 0) key) = firstn bs key) by (now rewrite Nat.mul_0_r).
    destruct Hz as [<-|[<-|[<-|[]]]].
    - destruct (Nat.eqb_spec (length key) bs); [|lia].
      rewrite (tkz_lt 1 0), (tkz_ge 1 1), (tkz_ge 1 2), E0 by lia.
      rewrite firstn_all2 by lia.
      split; [reflexivity|split].
      + apply sloop_length.
      + unfold mk_ks, ks_sched, set_tk1. rewrite pad_to_id by lia. now apply one_pass.
    - destruct (Nat.eqb_spec (length key) bs); [lia|].
      destruct (Nat.leb_spec (length key) (2 * bs)); [|lia].
      rewrite (tkz_lt 2 0), (tkz_lt 2 1), (tkz_ge 2 2), E0 by lia.
      rewrite Nat.mul_1_r. rewrite (firstn_all2 (skipn bs key)) by (rewrite skipn_length; lia).
      split; [reflexivity|split].
      + unfold mk_ks, ks_sched, set_tk2, set_tk1. now rewrite !sloop_length.
      + unfold mk_ks, ks_sched, set_tk2, set_tk1.
        rewrite !pad_to_id by (rewrite ?firstn_length, ?skipn_length; lia).
        now apply two_pass.
    - destruct (Nat.eqb_spec (length key) bs); [lia|].
      destruct (Nat.leb_spec (length key) (2 * bs)); [lia|].
      rewrite (tkz_lt 3 0), (tkz_lt 3 1), (tkz_lt 3 2), E0 by lia.
      rewrite Nat.mul_1_r. replace (bs * 2) with (2 * bs) by lia.
      rewrite (firstn_all2 (skipn (2 * bs) key)) by (rewrite skipn_length; lia).
      split; [reflexivity|split].
      + unfold mk_ks, ks_sched, set_tk3, set_tk2, set_tk1. now rewrite !sloop_length.
      + unfold mk_ks, ks_sched, set_tk3, set_tk2, set_tk1.
        rewrite !pad_to_id by (rewrite ?firstn_length, ?skipn_length; lia).
        now apply three_pass.
  Qed.

  Lemma inner_Some zk ks key tweak :
    In zk [1; 2] -> length key = zk * bs -> length tweak = bs ->
    rounds_for (S zk) <= length (ks_sched C ks) ->
    sched_ok true (rounds_for (S zk)) (load tweak) (tkz zk 0 key) (tkz zk 1 key)
             (length (ks_sched C ks)) (skinner ks key (Some tweak)).
  Proof.
    intros Hz Hl Ht Hn. unfold set_key_inner.
    assert (E0 : firstn bs (skipn (bs * 0) key) = firstn bs key) by (now rewrite Nat.mul_0_r).
    destruct Hz as [<-|[<-|[]]].
    - destruct (Nat.eqb_spec (length key) bs); [|lia].
      rewrite (tkz_lt 1 0), (tkz_ge 1 1), E0 by lia.
      rewrite firstn_all2 by lia.
      split; [reflexivity|split].
      + unfold mk_ks, ks_sched, set_tk2, set_tk1. now rewrite !sloop_length.
      + unfold mk_ks, ks_sched, set_tk2, set_tk1.
        rewrite !pad_to_id by lia. now apply two_pass.
    - destruct (Nat.eqb_spec (length key) bs); [lia|].
      rewrite (tkz_lt 2 0), (tkz_lt 2 1), E0 by lia.
      rewrite Nat.mul_1_r. rewrite (firstn_all2 (skipn bs key)) by (rewrite skipn_length; lia).
      split; [reflexivity|split].
      + unfold mk_ks, ks_sched, set_tk3, set_tk2, set_tk1. now rewrite !sloop_length.
      + unfold mk_ks, ks_sched, set_tk3, set_tk2, set_tk1.
        rewrite !pad_to_id by (rewrite ?firstn_length, ?skipn_length; lia).
        now apply three_pass.
  Qed.

  (* the API wrappers on exact sizes *)
  Notation skey := (set_key C cx cnib l2 l3 bs load czero rounds_for).
  Notation stkey := (set_tweaked_key C cx cnib l2 l3 bs load czero rounds_for).
  Notation stweak := (set_tweak C cx bs load).

  Lemma set_key_exact z n ks key :
    In z [1; 2; 3] -> n = z * bs -> length key = n ->
    skey ks (Some key) (N.of_nat n) = (1%N, skinner ks key None).
  Proof.
    intros Hz Hn Hl. unfold set_key.
    rewrite size_ok_true by (destruct Hz as [<-|[<-|[<-|[]]]]; lia).
    now rewrite Nat2N.id, pad_to_id.
  Qed.
  Lemma set_tweaked_key_exact zk n t key :
    In zk [1; 2] -> n = zk * bs -> length key = n ->
    stkey t (Some key) (N.of_nat n)
    = (1%N, {| tk_ks := skinner (tk_ks C t) key (Some (zeros bs)); tk_tweak := zeros bs |}).
  Proof.
    intros Hz Hn Hl. unfold set_tweaked_key.
    rewrite size_ok_true by (destruct Hz as [<-|[<-|[]]]; lia).
    now rewrite Nat2N.id, pad_to_id.
  Qed.

  (* ---------------------------------------------------------------- *)
  (* C10: padding *)
  Lemma inner_pad_None z ks key :
    In z [1; 2; 3] -> bs <= length key -> (z - 1) * bs < length key <= z * bs ->
    skinner ks key None = skinner ks (pad_to (z * bs) key) None.
  Proof.
    intros Hz Hb Hl. destruct Hz as [<-|[<-|[<-|[]]]].
    - now rewrite pad_to_id by lia.
    - rewrite (pad_to_ge (2 * bs) key) by lia. unfold set_key_inner.
      rewrite app_length, zeros_length.
      destruct (Nat.eqb_spec (length key) bs); [lia|].
      destruct (Nat.leb_spec (length key) (2 * bs)); [|lia].
      destruct (Nat.eqb_spec (length key + (2 * bs - length key)) bs); [lia|].
      destruct (Nat.leb_spec (length key + (2 * bs - length key)) (2 * bs)); [|lia].
      rewrite firstn_app_le, skipn_app_le by lia. unfold set_tk2.
      now rewrite pad_to_app_zeros.
    - rewrite (pad_to_ge (3 * bs) key) by lia. unfold set_key_inner.
      rewrite app_length, zeros_length.
      destruct (Nat.eqb_spec (length key) bs); [lia|].
      destruct (Nat.leb_spec (length key) (2 * bs)); [lia|].
      destruct (Nat.eqb_spec (length key + (3 * bs - length key)) bs); [lia|].
      destruct (Nat.leb_spec (length key + (3 * bs - length key)) (2 * bs)); [lia|].
      rewrite firstn_app_le by lia. rewrite !skipn_app_le by lia.
      rewrite firstn_app_le by (rewrite skipn_length; lia). unfold set_tk3.
      now rewrite pad_to_app_zeros.
  Qed.
  Lemma inner_pad_Some z ks key tweak :
    In z [1; 2] -> bs <= length key -> (z - 1) * bs < length key <= z * bs ->
    skinner ks key (Some tweak) = skinner ks (pad_to (z * bs) key) (Some tweak).
  Proof.
    intros Hz Hb Hl. destruct Hz as [<-|[<-|[]]].
    - now rewrite pad_to_id by lia.
    - rewrite (pad_to_ge (2 * bs) key) by lia. unfold set_key_inner.
      rewrite app_length, zeros_length.
      destruct (Nat.eqb_spec (length key) bs); [lia|].
      destruct (Nat.eqb_spec (length key + (2 * bs - length key)) bs); [lia|].
      rewrite firstn_app_le, skipn_app_le by lia. unfold set_tk3.
      now rewrite pad_to_app_zeros.
  Qed.
  Lemma set_key_pad z n m ks key :
    In z [1; 2; 3] -> bs <= n -> (z - 1) * bs < n <= z * bs -> length key = n -> m = z * bs ->
    skey ks (Some key) (N.of_nat n) = skey ks (Some (pad_to m key)) (N.of_nat m).
  Proof.
    intros Hz Hb Hn Hl ->. unfold set_key.
    rewrite !size_ok_true by (destruct Hz as [<-|[<-|[<-|[]]]]; lia).
    rewrite !Nat2N.id. rewrite (pad_to_id n key Hl), (pad_to_id _ _ (pad_to_length _ _)).
    f_equal. apply inner_pad_None; auto; lia.
  Qed.
  Lemma set_tweaked_key_pad z n m t key :
    In z [1; 2] -> bs <= n -> (z - 1) * bs < n <= z * bs -> length key = n -> m = z * bs ->
    stkey t (Some key) (N.of_nat n) = stkey t (Some (pad_to m key)) (N.of_nat m).
  Proof.
    intros Hz Hb Hn Hl ->. unfold set_tweaked_key.
    rewrite !size_ok_true by (destruct Hz as [<-|[<-|[]]]; lia).
    rewrite !Nat2N.id. rewrite (pad_to_id n key Hl), (pad_to_id _ _ (pad_to_length _ _)).
    do 2 f_equal. apply inner_pad_Some; auto; lia.
  Qed.

  (* ---------------------------------------------------------------- *)
  (* C04: a history of tweak changes *)
  Definition tstep (t : tkeysched C) (q : tweak_req) : tkeysched C :=
    snd (stweak t (fst q) (snd q)).
  Definition tinv (n : nat) (t2 t3 : state C) (len : nat) (t : tkeysched C) (tw : list byte)
    : Prop :=
    tk_tweak C t = tw /\ length tw = bs /\ n <= len
    /\ sched_ok true n (load tw) t2 t3 len (tk_ks C t).

  Lemma set_tweak_ret t q :
    fst (stweak t (fst q) (snd q)) = if tweak_valid bs q then 1%N else 0%N.
  Proof.
    unfold set_tweak. change (size_ok 1 bs (snd q)) with (tweak_valid bs q).
    now destruct (tweak_valid bs q).
  Qed.
  Lemma set_tweak_invalid t b size :
    tweak_valid bs (b, size) = false -> stweak t b size = (0%N, t).
  Proof.
    intros H. unfold set_tweak. change (size_ok 1 bs size) with (tweak_valid bs (b, size)).
    now rewrite H.
  Qed.

  Lemma tstep_inv n t2 t3 len t tw q :
    tinv n t2 t3 len t tw ->
    tinv n t2 t3 len (tstep t q) (if tweak_valid bs q then tweak_bytes bs q else tw).
  Proof.
    intros H. unfold tstep, set_tweak.
    change (size_ok 1 bs (snd q)) with (tweak_valid bs q).
    destruct (tweak_valid bs q); [|exact H].
    change (match fst q with
            | Some b => pad_to bs (firstn (N.to_nat (snd q)) b)
            | None => zeros bs
            end) with (tweak_bytes bs q).
    destruct H as (Ht & Hl & Hn & Hr & Hlen & Hs).
    pose proof (tweak_bytes_length bs q) as Hq.
    unfold tinv, sched_ok. simpl.
    split; [reflexivity|split; [exact Hq|split; [exact Hn|split; [exact Hr|split]]]].
    - unfold xor_tk1. now rewrite !sloop_length.
    - rewrite Hr, Nat2N.id, Ht. unfold xor_tk1. rewrite !pad_to_id by assumption.
      apply swap_tk1; [lia|exact Hs].
  Qed.
  Lemma tfold_inv n t2 t3 len : forall qs t tw,
    tinv n t2 t3 len t tw ->
    tinv n t2 t3 len (fold_left tstep qs t) (latest_tweak bs tw qs).
  Proof.
    induction qs as [|q qs IH]; intros t tw H; [exact H|].
    exact (IH _ _ (tstep_inv _ _ _ _ _ _ q H)).
  Qed.
  Lemma tinv_init zk t key :
    In zk [1; 2] -> length key = zk * bs -> rounds_for (S zk) <= length (ks_sched C (tk_ks C t)) ->
    tinv (rounds_for (S zk)) (tkz zk 0 key) (tkz zk 1 key) (length (ks_sched C (tk_ks C t)))
         {| tk_ks := skinner (tk_ks C t) key (Some (zeros bs)); tk_tweak := zeros bs |}
         (zeros bs).
  Proof.
    intros Hz Hl Hn. unfold tinv. simpl.
    split; [reflexivity|split; [apply zeros_length|split; [exact Hn|]]].
    apply inner_Some; auto. apply zeros_length.
  Qed.

  (* ---------------------------------------------------------------- *)
  (* the statements of C01 and C04 over the abstract cell type *)
  Theorem set_key_spec_gen z ks key len :
    In z [1; 2; 3] -> length key = bs * z -> length (ks_sched C ks) = len ->
    rounds_for z <= len ->
    exists ks', skey ks (Some key) (N.of_nat (bs * z)) = (1%N, ks')
      /\ ks_rounds C ks' = N.of_nat (rounds_for z)
      /\ length (ks_sched C ks') = len
      /\ (forall blk,
            ecb_encrypt C cx cnib sb load store ks' blk
            = store (encrypt C cx cnib sb l2 l3 false (rounds_for z)
                       (tkz z 0 key) (tkz z 1 key) (tkz z 2 key) (load blk))
            /\ ecb_decrypt C cx cnib sbi load store ks' blk
               = store (decrypt C cx cnib sbi l2 l3 false (rounds_for z)
                          (tkz z 0 key) (tkz z 1 key) (tkz z 2 key) (load blk))).
  Proof.
    intros Hz Hl Hs Hn. exists (skinner ks key None).
    destruct (inner_None z ks key Hz) as (H1 & H2 & H3); [lia|lia|].
    split; [apply (set_key_exact z); auto; lia|].
    split; [exact H1|]. split; [lia|].
    intros blk. exact (crypt_of_sched false _ _ _ _ _ H1 H3 blk).
  Qed.

  Theorem c04_gen zk t0 key qs len :
    In zk [1; 2] -> length key = bs * zk -> length (ks_sched C (tk_ks C t0)) = len ->
    rounds_for (S zk) <= len ->
    let t1 := snd (stkey t0 (Some key) (N.of_nat (bs * zk))) in
    let t2 := fold_left (fun t q => snd (stweak t (fst q) (snd q))) qs t1 in
    fst (stkey t0 (Some key) (N.of_nat (bs * zk))) = 1%N
    /\ tk_tweak C t2 = latest_tweak bs (zeros bs) qs
    /\ ks_rounds C (tk_ks C t2) = N.of_nat (rounds_for (S zk))
    /\ (forall blk,
          ecb_encrypt C cx cnib sb load store (tk_ks C t2) blk
          = store (encrypt C cx cnib sb l2 l3 true (rounds_for (S zk))
                     (load (latest_tweak bs (zeros bs) qs)) (tkz zk 0 key) (tkz zk 1 key)
                     (load blk))
          /\ ecb_decrypt C cx cnib sbi load store (tk_ks C t2) blk
             = store (decrypt C cx cnib sbi l2 l3 true (rounds_for (S zk))
                        (load (latest_tweak bs (zeros bs) qs)) (tkz zk 0 key) (tkz zk 1 key)
                        (load blk)))
    /\ (forall q, fst (stweak t2 (fst q) (snd q)) = if tweak_valid bs q then 1%N else 0%N).
  Proof.
    intros Hz Hl Hs Hn t1 t2.
    assert (E : stkey t0 (Some key) (N.of_nat (bs * zk))
                = (1%N, {| tk_ks := skinner (tk_ks C t0) key (Some (zeros bs));
                           tk_tweak := zeros bs |}))
      by (apply (set_tweaked_key_exact zk); auto; lia).
    assert (I : tinv (rounds_for (S zk)) (tkz zk 0 key) (tkz zk 1 key) len t2
                     (latest_tweak bs (zeros bs) qs)).
    { subst t2 t1. rewrite E. simpl snd. rewrite <- Hs.
      apply (tfold_inv _ _ _ _ qs). apply tinv_init; auto; lia. }
    destruct I as (It & Il & In' & Ir & Ilen & Is).
    split; [now rewrite E|]. split; [exact It|]. split; [exact Ir|].
    split; [|intros q; apply set_tweak_ret].
    intros blk. exact (crypt_of_sched true _ _ _ _ _ Ir Is blk).
  Qed.
End Gen.

(* ------------------------------------------------------------------ *)
(* Instances: SKINNY-128 (byte cells) and SKINNY-64 (nibble cells) *)
Notation l2_8 := (lfsr2_8 bool xorb).
Notation l3_8 := (lfsr3_8 bool xorb).
Notation l2_4 := (lfsr2_4 bool xorb).
Notation l3_4 := (lfsr3_4 bool xorb).

Lemma load_store128 s : load128 (store128 s) = s.
Proof.
  destruct s as [[[[[[a ?] ?] ?] [[[b ?] ?] ?]] [[[c ?] ?] ?]] [[[d ?] ?] ?]]. reflexivity.
Qed.
Lemma store_load128 blk : length blk = 16 -> store128 (load128 blk) = blk.
Proof.
  intros H. do 16 (destruct blk as [|? blk]; [discriminate|]).
  destruct blk; [reflexivity|discriminate].
Qed.
Lemma load_store64 s : load64 (store64 s) = s.
Proof.
  destruct s as [[[[[[a ?] ?] ?] [[[b ?] ?] ?]] [[[c ?] ?] ?]] [[[d ?] ?] ?]].
  unfold load64, store64, state64_of_bytes, bytes_of_state64, row_bytes64. cbn [app nth].
  now rewrite !c8hi_join, !c8lo_join.
Qed.
Lemma store_load64 blk : length blk = 8 -> store64 (load64 blk) = blk.
Proof.
  intros H. do 8 (destruct blk as [|? blk]; [discriminate|]).
  destruct blk; [|discriminate].
  unfold load64, store64, state64_of_bytes, bytes_of_state64, row_bytes64. cbn [app nth].
  now rewrite !c8join_hi_lo.
Qed.

Lemma tk128_tkz z i key : tk128 z i key = tkz byte 16 load128 byte0 z i key.
Proof. reflexivity. Qed.
Lemma tk64_tkz z i key : tk64 z i key = tkz nib 8 load64 nib0 z i key.
Proof. reflexivity. Qed.

(* the specification's decryption inverts its encryption *)
Theorem skinny128_dec_enc : forall z key blk, length blk = 16 ->
  skinny128_dec z key (skinny128_enc z key blk) = blk.
Proof.
  intros z key blk H. unfold skinny128_dec, skinny128_enc.
  fold load128. fold store128. rewrite load_store128.
  unfold sk128_decrypt, sk128_encrypt.
  rewrite (dec_enc_gen byte bxor8 cnib8 S8b S8ib l2_8 l3_8 byte0
             bxor8_assoc bxor8_comm bxor8_nilp bxor8_0_r S8_inv_l).
  now apply store_load128.
Qed.
Theorem skinny128_enc_dec : forall z key blk, length blk = 16 ->
  skinny128_enc z key (skinny128_dec z key blk) = blk.
Proof.
  intros z key blk H. unfold skinny128_dec, skinny128_enc.
  fold load128. fold store128. rewrite load_store128.
  unfold sk128_decrypt, sk128_encrypt.
  rewrite (enc_dec_gen byte bxor8 cnib8 S8b S8ib l2_8 l3_8 byte0
             bxor8_assoc bxor8_comm bxor8_nilp bxor8_0_r S8_inv_r).
  now apply store_load128.
Qed.
Theorem skinny64_dec_enc : forall z key blk, length blk = 8 ->
  skinny64_dec z key (skinny64_enc z key blk) = blk.
Proof.
  intros z key blk H. unfold skinny64_dec, skinny64_enc.
  fold load64. fold store64. rewrite load_store64.
  unfold sk64_decrypt, sk64_encrypt.
  rewrite (dec_enc_gen nib bxor4 cnib4 S4b S4ib l2_4 l3_4 nib0
             bxor4_assoc bxor4_comm bxor4_nilp bxor4_0_r S4_inv_l).
  now apply store_load64.
Qed.
Theorem skinny64_enc_dec : forall z key blk, length blk = 8 ->
  skinny64_enc z key (skinny64_dec z key blk) = blk.
Proof.
  intros z key blk H. unfold skinny64_dec, skinny64_enc.
  fold load64. fold store64. rewrite load_store64.
  unfold sk64_decrypt, sk64_encrypt.
  rewrite (enc_dec_gen nib bxor4 cnib4 S4b S4ib l2_4 l3_4 nib0
             bxor4_assoc bxor4_comm bxor4_nilp bxor4_0_r S4_inv_r).
  now apply store_load64.
Qed.
Theorem skinny128_tweaked_dec_enc : forall zk key tw blk, length blk = 16 ->
  skinny128_tweaked_dec zk key tw (skinny128_tweaked_enc zk key tw blk) = blk.
Proof.
  intros zk key tw blk H. unfold skinny128_tweaked_dec, skinny128_tweaked_enc.
  fold load128. fold store128. rewrite load_store128.
  unfold sk128_decrypt, sk128_encrypt.
  rewrite (dec_enc_gen byte bxor8 cnib8 S8b S8ib l2_8 l3_8 byte0
             bxor8_assoc bxor8_comm bxor8_nilp bxor8_0_r S8_inv_l).
  now apply store_load128.
Qed.
Theorem skinny128_tweaked_enc_dec : forall zk key tw blk, length blk = 16 ->
  skinny128_tweaked_enc zk key tw (skinny128_tweaked_dec zk key tw blk) = blk.
Proof.
  intros zk key tw blk H. unfold skinny128_tweaked_dec, skinny128_tweaked_enc.
  fold load128. fold store128. rewrite load_store128.
  unfold sk128_decrypt, sk128_encrypt.
  rewrite (enc_dec_gen byte bxor8 cnib8 S8b S8ib l2_8 l3_8 byte0
             bxor8_assoc bxor8_comm bxor8_nilp bxor8_0_r S8_inv_r).
  now apply store_load128.
Qed.
Theorem skinny64_tweaked_dec_enc : forall zk key tw blk, length blk = 8 ->
  skinny64_tweaked_dec zk key tw (skinny64_tweaked_enc zk key tw blk) = blk.
Proof.
  intros zk key tw blk H. unfold skinny64_tweaked_dec, skinny64_tweaked_enc.
  fold load64. fold store64. rewrite load_store64.
  unfold sk64_decrypt, sk64_encrypt.
  rewrite (dec_enc_gen nib bxor4 cnib4 S4b S4ib l2_4 l3_4 nib0
             bxor4_assoc bxor4_comm bxor4_nilp bxor4_0_r S4_inv_l).
  now apply store_load64.
Qed.
Theorem skinny64_tweaked_enc_dec : forall zk key tw blk, length blk = 8 ->
  skinny64_tweaked_enc zk key tw (skinny64_tweaked_dec zk key tw blk) = blk.
Proof.
  intros zk key tw blk H. unfold skinny64_tweaked_dec, skinny64_tweaked_enc.
  fold load64. fold store64. rewrite load_store64.
  unfold sk64_decrypt, sk64_encrypt.
  rewrite (enc_dec_gen nib bxor4 cnib4 S4b S4ib l2_4 l3_4 nib0
             bxor4_assoc bxor4_comm bxor4_nilp bxor4_0_r S4_inv_r).
  now apply store_load64.
Qed.

(* ------------------------------------------------------------------ *)
(* C01: the model computes the specification's cipher, primary key sizes *)
Theorem m128_set_key_spec : forall (z : nat) (ks : ks128) (key : list byte),
  In z [1; 2; 3] -> length key = 16 * z -> length (ks_sched byte ks) = 56 ->
  exists ks', m128_set_key ks (Some key) (N.of_nat (16 * z)) = (1%N, ks')
    /\ ks_rounds byte ks' = N.of_nat (skinny128_rounds z)
    /\ length (ks_sched byte ks') = 56
    /\ (forall blk, length blk = 16 ->
          m128_encrypt ks' blk = skinny128_enc z key blk
          /\ m128_decrypt ks' blk = skinny128_dec z key blk).
Proof.
  intros z ks key Hz Hl Hs.
  assert (Hn : m128_rounds z <= 56) by (destruct Hz as [<-|[<-|[<-|[]]]]; simpl; lia).
  destruct (set_key_spec_gen byte bxor8 cnib8 S8b S8ib l2_8 l3_8 16 load128 store128 byte0
              m128_rounds bxor8_assoc bxor8_comm bxor8_nilp bxor8_0_r eq_refl eq_refl
              (Nat.lt_0_succ _) z ks key 56 Hz Hl Hs Hn) as (ks' & H1 & H2 & H3 & H4).
  exists ks'. split; [exact H1|split; [exact H2|split; [exact H3|]]].
  intros blk _. exact (H4 blk).
Qed.
Theorem m64_set_key_spec : forall (z : nat) (ks : ks64) (key : list byte),
  In z [1; 2; 3] -> length key = 8 * z -> length (ks_sched nib ks) = 40 ->
  exists ks', m64_set_key ks (Some key) (N.of_nat (8 * z)) = (1%N, ks')
    /\ ks_rounds nib ks' = N.of_nat (skinny64_rounds z)
    /\ length (ks_sched nib ks') = 40
    /\ (forall blk, length blk = 8 ->
          m64_encrypt ks' blk = skinny64_enc z key blk
          /\ m64_decrypt ks' blk = skinny64_dec z key blk).
Proof.
  intros z ks key Hz Hl Hs.
  assert (Hn : m64_rounds z <= 40) by (destruct Hz as [<-|[<-|[<-|[]]]]; simpl; lia).
  destruct (set_key_spec_gen nib bxor4 cnib4 S4b S4ib l2_4 l3_4 8 load64 store64 nib0
              m64_rounds bxor4_assoc bxor4_comm bxor4_nilp bxor4_0_r eq_refl eq_refl
              (Nat.lt_0_succ _) z ks key 40 Hz Hl Hs Hn) as (ks' & H1 & H2 & H3 & H4).
  exists ks'. split; [exact H1|split; [exact H2|split; [exact H3|]]].
  intros blk _. exact (H4 blk).
Qed.

(* ------------------------------------------------------------------ *)
(* C10: key lengths *)
Lemma ceil_blocks bs' n zmax : let bs := S bs' in
  bs <= n <= zmax * bs ->
  exists z, 1 <= z <= zmax /\ (z - 1) * bs < n <= z * bs /\ (n + bs') / bs = z.
Proof.
  intros bs H. exists ((n + bs') / bs).
  pose proof (Nat.div_mod (n + bs') bs ltac:(discriminate)) as E.
  pose proof (Nat.mod_upper_bound (n + bs') bs ltac:(discriminate)) as U.
  set (q := (n + bs') / bs) in *. set (r := (n + bs') mod bs) in *.
  assert (bs = S bs') by reflexivity.
  split; [|split; [nia|reflexivity]]. nia.
Qed.
Lemma in123 z : 1 <= z <= 3 -> In z [1; 2; 3].
Proof. intros H. simpl. lia. Qed.
Lemma in12 z : 1 <= z <= 2 -> In z [1; 2].
Proof. intros H. simpl. lia. Qed.

Theorem m128_set_key_padding : forall (ks : ks128) (key : list byte) (n : nat),
  16 <= n <= 48 -> length key = n ->
  m128_set_key ks (Some key) (N.of_nat n)
  = m128_set_key ks (Some (pad_to (16 * ((n + 15) / 16)) key)) (N.of_nat (16 * ((n + 15) / 16))).
Proof.
  intros ks key n Hn Hl.
  destruct (ceil_blocks 15 n 3 Hn) as (z & Hz & Hr & ->).
  apply (set_key_pad byte bxor8 cnib8 l2_8 l3_8 16 load128 byte0 m128_rounds
           (Nat.lt_0_succ _) z n (16 * z) ks key (in123 z Hz)); auto; lia.
Qed.
Theorem m128_set_key_reject : forall (ks : ks128) (key : buf) (size : N),
  (key = None \/ (size < 16)%N \/ (48 < size)%N) -> m128_set_key ks key size = (0%N, ks).
Proof.
  intros ks key size H. unfold m128_set_key, set_key. destruct key as [k|]; [|reflexivity].
  destruct (size_ok 16 (3 * 16) size) eqn:E; [|reflexivity]. exfalso.
  unfold size_ok in E. apply andb_prop in E as [E1 E2]. apply N.leb_le in E1, E2.
  simpl in E1, E2. destruct H as [H|[H|H]]; [discriminate|lia|lia].
Qed.
Theorem m128_set_tweaked_key_padding : forall (t : tks128) key n, 16 <= n <= 32 -> length key = n ->
  m128_set_tweaked_key t (Some key) (N.of_nat n)
  = m128_set_tweaked_key t (Some (pad_to (16 * ((n + 15) / 16)) key))
                         (N.of_nat (16 * ((n + 15) / 16))).
Proof.
  intros t key n Hn Hl.
  destruct (ceil_blocks 15 n 2 Hn) as (z & Hz & Hr & ->).
  apply (set_tweaked_key_pad byte bxor8 cnib8 l2_8 l3_8 16 load128 byte0 m128_rounds
           (Nat.lt_0_succ _) z n (16 * z) t key (in12 z Hz)); auto; lia.
Qed.
Theorem m128_set_tweaked_key_reject : forall (t : tks128) key size,
  (key = None \/ (size < 16)%N \/ (32 < size)%N) -> m128_set_tweaked_key t key size = (0%N, t).
Proof.
  intros t key size H. unfold m128_set_tweaked_key, set_tweaked_key.
  destruct key as [k|]; [|reflexivity].
  destruct (size_ok 16 (2 * 16) size) eqn:E; [|reflexivity]. exfalso.
  unfold size_ok in E. apply andb_prop in E as [E1 E2]. apply N.leb_le in E1, E2.
  simpl in E1, E2. destruct H as [H|[H|H]]; [discriminate|lia|lia].
Qed.

Theorem m64_set_key_padding : forall (ks : ks64) (key : list byte) (n : nat),
  8 <= n <= 24 -> length key = n ->
  m64_set_key ks (Some key) (N.of_nat n)
  = m64_set_key ks (Some (pad_to (8 * ((n + 7) / 8)) key)) (N.of_nat (8 * ((n + 7) / 8))).
Proof.
  intros ks key n Hn Hl.
  destruct (ceil_blocks 7 n 3 Hn) as (z & Hz & Hr & ->).
  apply (set_key_pad nib bxor4 cnib4 l2_4 l3_4 8 load64 nib0 m64_rounds
           (Nat.lt_0_succ _) z n (8 * z) ks key (in123 z Hz)); auto; lia.
Qed.
Theorem m64_set_key_reject : forall (ks : ks64) (key : buf) (size : N),
  (key = None \/ (size < 8)%N \/ (24 < size)%N) -> m64_set_key ks key size = (0%N, ks).
Proof.
  intros ks key size H. unfold m64_set_key, set_key. destruct key as [k|]; [|reflexivity].
  destruct (size_ok 8 (3 * 8) size) eqn:E; [|reflexivity]. exfalso.
  unfold size_ok in E. apply andb_prop in E as [E1 E2]. apply N.leb_le in E1, E2.
  simpl in E1, E2. destruct H as [H|[H|H]]; [discriminate|lia|lia].
Qed.
Theorem m64_set_tweaked_key_padding : forall (t : tks64) key n, 8 <= n <= 16 -> length key = n ->
  m64_set_tweaked_key t (Some key) (N.of_nat n)
  = m64_set_tweaked_key t (Some (pad_to (8 * ((n + 7) / 8)) key))
                        (N.of_nat (8 * ((n + 7) / 8))).
Proof.
  intros t key n Hn Hl.
  destruct (ceil_blocks 7 n 2 Hn) as (z & Hz & Hr & ->).
  apply (set_tweaked_key_pad nib bxor4 cnib4 l2_4 l3_4 8 load64 nib0 m64_rounds
           (Nat.lt_0_succ _) z n (8 * z) t key (in12 z Hz)); auto; lia.
Qed.
Theorem m64_set_tweaked_key_reject : forall (t : tks64) key size,
  (key = None \/ (size < 8)%N \/ (16 < size)%N) -> m64_set_tweaked_key t key size = (0%N, t).
Proof.
  intros t key size H. unfold m64_set_tweaked_key, set_tweaked_key.
  destruct key as [k|]; [|reflexivity].
  destruct (size_ok 8 (2 * 8) size) eqn:E; [|reflexivity]. exfalso.
  unfold size_ok in E. apply andb_prop in E as [E1 E2]. apply N.leb_le in E1, E2.
  simpl in E1, E2. destruct H as [H|[H|H]]; [discriminate|lia|lia].
Qed.

(* ------------------------------------------------------------------ *)
(* C04: tweakable schedules depend only on the key and the latest valid tweak *)
Theorem c04_tweak_history128 : forall (zk : nat) (t0 : tks128) (key : list byte) (qs : list tweak_req),
  In zk [1; 2] -> length key = 16 * zk -> length (ks_sched byte (tk_ks byte t0)) = 56 ->
  let t1 := snd (m128_set_tweaked_key t0 (Some key) (N.of_nat (16 * zk))) in
  let t2 := fold_left (fun t q => snd (m128_set_tweak t (fst q) (snd q))) qs t1 in
  fst (m128_set_tweaked_key t0 (Some key) (N.of_nat (16 * zk))) = 1%N
  /\ tk_tweak byte t2 = latest_tweak 16 (zeros 16) qs
  /\ ks_rounds byte (tk_ks byte t2) = N.of_nat (skinny128_rounds (S zk))
  /\ (forall blk, length blk = 16 ->
        m128_encrypt (tk_ks byte t2) blk
        = skinny128_tweaked_enc zk key (latest_tweak 16 (zeros 16) qs) blk
     /\ m128_decrypt (tk_ks byte t2) blk
        = skinny128_tweaked_dec zk key (latest_tweak 16 (zeros 16) qs) blk)
  /\ (forall q, In q qs ->
        fst (m128_set_tweak t2 (fst q) (snd q)) = if tweak_valid 16 q then 1%N else 0%N).
Proof.
  intros zk t0 key qs Hz Hl Hs.
  assert (Hn : m128_rounds (S zk) <= 56) by (destruct Hz as [<-|[<-|[]]]; simpl; lia).
  pose proof (c04_gen byte bxor8 cnib8 S8b S8ib l2_8 l3_8 16 load128 store128 byte0
                m128_rounds bxor8_assoc bxor8_comm bxor8_nilp bxor8_0_r eq_refl
                (Nat.lt_0_succ _) zk t0 key qs 56 Hz Hl Hs Hn) as H.
  cbv zeta in H. intros t1 t2. destruct H as (H1 & H2 & H3 & H4 & H5).
  split; [exact H1|split; [exact H2|split; [exact H3|split]]].
  - intros blk _. exact (H4 blk).
  - intros q _. exact (H5 q).
Qed.
Theorem c04_tweak_history64 : forall (zk : nat) (t0 : tks64) (key : list byte) (qs : list tweak_req),
  In zk [1; 2] -> length key = 8 * zk -> length (ks_sched nib (tk_ks nib t0)) = 40 ->
  let t1 := snd (m64_set_tweaked_key t0 (Some key) (N.of_nat (8 * zk))) in
  let t2 := fold_left (fun t q => snd (m64_set_tweak t (fst q) (snd q))) qs t1 in
  fst (m64_set_tweaked_key t0 (Some key) (N.of_nat (8 * zk))) = 1%N
  /\ tk_tweak nib t2 = latest_tweak 8 (zeros 8) qs
  /\ ks_rounds nib (tk_ks nib t2) = N.of_nat (skinny64_rounds (S zk))
  /\ (forall blk, length blk = 8 ->
        m64_encrypt (tk_ks nib t2) blk
        = skinny64_tweaked_enc zk key (latest_tweak 8 (zeros 8) qs) blk
     /\ m64_decrypt (tk_ks nib t2) blk
        = skinny64_tweaked_dec zk key (latest_tweak 8 (zeros 8) qs) blk)
  /\ (forall q, In q qs ->
        fst (m64_set_tweak t2 (fst q) (snd q)) = if tweak_valid 8 q then 1%N else 0%N).
Proof.
  intros zk t0 key qs Hz Hl Hs.
  assert (Hn : m64_rounds (S zk) <= 40) by (destruct Hz as [<-|[<-|[]]]; simpl; lia).
  pose proof (c04_gen nib bxor4 cnib4 S4b S4ib l2_4 l3_4 8 load64 store64 nib0
                m64_rounds bxor4_assoc bxor4_comm bxor4_nilp bxor4_0_r eq_refl
                (Nat.lt_0_succ _) zk t0 key qs 40 Hz Hl Hs Hn) as H.
  cbv zeta in H. intros t1 t2. destruct H as (H1 & H2 & H3 & H4 & H5).
  split; [exact H1|split; [exact H2|split; [exact H3|split]]].
  - intros blk _. exact (H4 blk).
  - intros q _. exact (H5 q).
Qed.
(* an invalid set_tweak request changes nothing *)
Theorem m128_set_tweak_reject : forall (t : tks128) tw size,
  tweak_valid 16 (tw, size) = false -> m128_set_tweak t tw size = (0%N, t).
Proof. intros t tw size H. exact (set_tweak_invalid byte bxor8 16 load128 t tw size H). Qed.
Theorem m64_set_tweak_reject : forall (t : tks64) tw size,
  tweak_valid 8 (tw, size) = false -> m64_set_tweak t tw size = (0%N, t).
Proof. intros t tw size H. exact (set_tweak_invalid nib bxor4 8 load64 t tw size H). Qed.

(* ------------------------------------------------------------------ *)
Print Assumptions S8_inv_l.
Print Assumptions S8_inv_r.
Print Assumptions S4_inv_l.
Print Assumptions S4_inv_r.
Print Assumptions skinny128_dec_enc.
Print Assumptions skinny128_enc_dec.
Print Assumptions skinny64_dec_enc.
Print Assumptions skinny64_enc_dec.
Print Assumptions skinny128_tweaked_dec_enc.
Print Assumptions skinny128_tweaked_enc_dec.
Print Assumptions skinny64_tweaked_dec_enc.
Print Assumptions skinny64_tweaked_enc_dec.
Print Assumptions m128_set_key_spec.
Print Assumptions m64_set_key_spec.
Print Assumptions m128_set_key_padding.
Print Assumptions m128_set_key_reject.
Print Assumptions m128_set_tweaked_key_padding.
Print Assumptions m128_set_tweaked_key_reject.
Print Assumptions m64_set_key_padding.
Print Assumptions m64_set_key_reject.
Print Assumptions m64_set_tweaked_key_padding.
Print Assumptions m64_set_tweaked_key_reject.
Print Assumptions c04_tweak_history128.
Print Assumptions c04_tweak_history64.
Print Assumptions m128_set_tweak_reject.
Print Assumptions m64_set_tweak_reject.
