(* SIRCheck.v — checking WHOLE functions (SIR.v programs flattened on a public configuration) against
   specifications, for all data:
     - [check_obs]: one symbolic run compared on the observable regions only (scratch locals are ignored);
     - [split_runs] / [zip_segs]: cutting a flattened block function at its S-box layers into segments for
       IRCheck.check_segments_b, the specification of each segment built from the round number;
     - lifting of the two-region round specifications of KernelSpecs.v to the memory of the whole function. *)
From Coq Require Import List Bool NArith Arith Lia.
From Skinny Require Import IR Anf IRCheck KernelSpecs.
Import ListNotations.

(* ================================================================================================== *)
(* 1. observable regions                                                                                *)
(* ================================================================================================== *)
Definition proj {B} (obs : list nat) (m : mem B) : mem B := map (fun r => nth r m []) obs.

Lemma proj_mmap : forall rho obs (m : mem poly), proj obs (mmap rho m) = mmap rho (proj obs m).
Proof.
  intros rho obs m. unfold proj, mmap. rewrite map_map. apply map_ext. intros r.
  exact (map_nth (map (vmap rho)) m [] r).
Qed.

Definition check_obs (cP : nat -> list poly -> list poly) (sizes obs : list nat) (p : list stmt)
                     (specP : mem poly -> mem poly) : bool :=
  mem_eqb (proj obs (fst (execP cP p (fresh_mem sizes, [])))) (specP (fresh_mem sizes)).

Theorem check_obs_sound : forall cP cB sizes obs p sP sB,
  call_hom cP cB -> spec_hom sizes sP sB -> check_obs cP sizes obs p sP = true ->
  forall m : mem bool, shaped sizes m -> proj obs (fst (execB cB p (m, []))) = sB m.
Proof.
  intros cP cB sizes obs p sP sB Hc Hs Hk m Hm.
  unfold check_obs in Hk. apply mem_eqb_eq in Hk.
  pose proof (exec_hom_pair cP cB (assign_of sizes m) Hc p (fresh_mem sizes) []) as He.
  rewrite fresh_mem_assign in He by exact Hm.
  cbn [map] in He. rewrite He. cbn [fst].
  rewrite proj_mmap, Hk, Hs by apply fresh_mem_shaped.
  rewrite fresh_mem_assign by exact Hm. reflexivity.
Qed.

(* ================================================================================================== *)
(* 2. cutting at the S-box layers                                                                       *)
(* ================================================================================================== *)
Definition is_call (s : stmt) : bool :=
  match s with
  | SStore r off n (ECall _ (ELoad r' off' n')) => (Nat.eqb r r' && Nat.eqb off off' && Nat.eqb n n')%bool
  | _ => false
  end.

(* groups maximal runs of call / non-call statements; [cur] is the run being built (reversed) of kind [k] *)
Fixpoint split_runs_from (p : list stmt) (cur : list stmt) (k : bool) : list (list stmt) :=
  match p with
  | [] => match cur with [] => [] | _ => [rev cur] end
  | s :: p' =>
      if Bool.eqb (is_call s) k then split_runs_from p' (s :: cur) k
      else match cur with
           | [] => split_runs_from p' [s] (is_call s)
           | _ => rev cur :: split_runs_from p' [s] (is_call s)
           end
  end.
Definition split_runs (p : list stmt) : list (list stmt) := split_runs_from p [] false.

Lemma split_runs_from_concat : forall p cur k, concat (split_runs_from p cur k) = rev cur ++ p.
Proof.
  induction p as [|s p IH]; intros cur k; cbn [split_runs_from].
  - destruct cur; cbn [concat]; rewrite ?app_nil_r; reflexivity.
  - destruct (Bool.eqb (is_call s) k).
    + rewrite IH. cbn [rev]. rewrite <- app_assoc. reflexivity.
    + destruct cur as [|c cur]; cbn [concat]; rewrite IH; reflexivity.
Qed.
Theorem split_runs_concat : forall p, concat (split_runs p) = p.
Proof. intros p. unfold split_runs. rewrite split_runs_from_concat. reflexivity. Qed.

Fixpoint zip_segs (runs : list (list stmt)) (sP : list (mem poly -> mem poly)) (sB : list (mem bool -> mem bool))
  : option (list segment) :=
  match runs, sP, sB with
  | [], [], [] => Some []
  | r :: runs', p :: sP', b :: sB' =>
      match zip_segs runs' sP' sB' with Some l => Some (mkSeg r p b :: l) | None => None end
  | _, _, _ => None
  end.

Lemma zip_segs_prog : forall runs sP sB segs, zip_segs runs sP sB = Some segs -> segs_prog segs = concat runs.
Proof.
  induction runs as [|r runs IH]; intros sP sB segs H; destruct sP as [|p sP]; destruct sB as [|b sB];
    cbn [zip_segs] in H; try discriminate.
  - inversion H. reflexivity.
  - destruct (zip_segs runs sP sB) as [l|] eqn:E; [|discriminate]. inversion H; subst.
    unfold segs_prog. cbn [map concat seg_prog]. f_equal. apply (IH sP sB l E).
Qed.
Lemma zip_segs_specB : forall runs sP sB segs, zip_segs runs sP sB = Some segs ->
  forall m, segs_specB segs m = fold_left (fun acc f => f acc) sB m.
Proof.
  induction runs as [|r runs IH]; intros sP sB segs H m; destruct sP as [|p sP]; destruct sB as [|b sB];
    cbn [zip_segs] in H; try discriminate.
  - inversion H. reflexivity.
  - destruct (zip_segs runs sP sB) as [l|] eqn:E; [|discriminate]. inversion H; subst.
    unfold segs_specB. cbn [fold_left seg_specB]. apply (IH sP sB l E).
Qed.
Lemma zip_segs_hom : forall sizes runs sP sB segs, zip_segs runs sP sB = Some segs ->
  Forall2 (spec_hom sizes) sP sB ->
  Forall (fun s => spec_hom sizes (seg_specP s) (seg_specB s)) segs.
Proof.
  intros sizes. induction runs as [|r runs IH]; intros sP sB segs H F; destruct sP as [|p sP]; destruct sB as [|b sB];
    cbn [zip_segs] in H; try discriminate.
  - inversion H. constructor.
  - destruct (zip_segs runs sP sB) as [l|] eqn:E; [|discriminate]. inversion H; subst.
    inversion F; subst. constructor; [assumption | apply (IH sP sB l E); assumption].
Qed.

(* the whole-function checker for block functions: flatten, cut, zip with the specification steps, check *)
Definition check_block (cP : nat -> list poly -> list poly) (sizes : list nat) (code : list stmt)
           (sP : list (mem poly -> mem poly)) (sB : list (mem bool -> mem bool)) : bool :=
  match zip_segs (split_runs code) sP sB with
  | Some segs => check_segments_b cP sizes segs
  | None => false
  end.

Theorem check_block_sound : forall cP cB sizes code sP sB,
  call_hom cP cB -> Forall2 (spec_hom sizes) sP sB ->
  check_block cP sizes code sP sB = true ->
  forall m, shaped sizes m ->
  fst (execB cB code (m, [])) = fold_left (fun acc f => f acc) sB m.
Proof.
  intros cP cB sizes code sP sB Hc HF Hk m Hm. unfold check_block in Hk.
  destruct (zip_segs (split_runs code) sP sB) as [segs|] eqn:E; [|discriminate].
  rewrite <- (zip_segs_specB _ _ _ _ E).
  rewrite <- (split_runs_concat code) at 1. rewrite <- (zip_segs_prog _ _ _ _ E).
  apply (check_segments_b_sound cP cB sizes segs Hc); [ | exact Hk | exact Hm].
  apply (zip_segs_hom sizes _ _ _ _ E HF).
Qed.

(* ================================================================================================== *)
(* 3. homomorphisms: composition and lifting                                                            *)
(* ================================================================================================== *)
Lemma spec_hom_compose : forall sizes f1P f1B f2P f2B,
  spec_hom sizes f1P f1B -> spec_hom sizes f2P f2B ->
  (forall m : mem poly, shaped sizes m -> shaped sizes (f1P m)) ->
  spec_hom sizes (fun m => f2P (f1P m)) (fun m => f2B (f1B m)).
Proof.
  intros sizes f1P f1B f2P f2B H1 H2 Hs rho m Hm.
  rewrite H2 by (apply Hs; exact Hm). rewrite H1 by exact Hm. reflexivity.
Qed.

(* ================================================================================================== *)
(* 4. windowed segments: each segment is checked on a memory whose (read-only) region r is cut down to    *)
(*    the window [off, off+len) the segment reads (Frame.v)                                              *)
(* ================================================================================================== *)
From Skinny Require Import Frame.

Record wseg : Type := mkW {
  w_prog : list stmt;
  w_off : nat;
  w_specP : mem poly -> mem poly;
  w_specB : mem bool -> mem bool
}.

Lemma In_firstn : forall {A} n (l : list A) x, In x (firstn n l) -> In x l.
Proof.
  intros A n. induction n as [|n IH]; intros l x H; [destruct H|].
  destruct l as [|y l]; [destruct H|]. destruct H as [H|H]; [left; exact H | right; apply IH; exact H].
Qed.
Lemma In_skipn : forall {A} n (l : list A) x, In x (skipn n l) -> In x l.
Proof.
  intros A n. induction n as [|n IH]; intros l x H; [exact H|].
  destruct l as [|y l]; [destruct H|]. right. apply IH. exact H.
Qed.

Section Windowed.
  Variable cP : nat -> list poly -> list poly.
  Variable cB : nat -> list bool -> list bool.
  Variable sizes : list nat.
  Variables (r len : nat).
  Definition sizesW : list nat := set_nth r len sizes.

  Lemma window_shaped : forall a (m : mem bool), shaped sizes m -> r < length sizes -> a + len <= nth r sizes 0 ->
    shaped sizesW (window bool r a len m).
  Proof.
    intros a m [Hl Hr] Hlt Ha. unfold sizesW, window. split.
    - rewrite !set_nth_length. exact Hl.
    - rewrite set_nth_length. intros r' Hr'.
      destruct (Nat.eq_dec r' r) as [->|Hne].
      + rewrite !nth_set_nth_eq by lia. destruct (Hr r Hlt) as [H1 H2]. split.
        * rewrite firstn_length, skipn_length. lia.
        * apply Forall_forall. intros x Hx. rewrite Forall_forall in H2. apply H2.
          apply (In_skipn a). apply (In_firstn len). exact Hx.
      + rewrite !nth_set_nth_ne by congruence. apply Hr. exact Hr'.
  Qed.

  Definition wseg_ok (s : wseg) : bool :=
    match reloc r (w_off s) len (w_prog s) with
    | Some pW => check_kernel cP sizesW pW (w_specP s) && stores_in_bounds sizes (w_prog s) &&
                 locals_closed (w_prog s) && Nat.leb (w_off s + len) (nth r sizes 0)
    | None => false
    end.
  Definition specF (s : wseg) (m : mem bool) : mem bool :=
    unwindow bool r m (w_specB s (window bool r (w_off s) len m)).

  Hypothesis Hc : call_hom cP cB.
  Hypothesis Hr : r < length sizes.

  Lemma wseg_sound : forall s, spec_hom sizesW (w_specP s) (w_specB s) -> wseg_ok s = true ->
    forall m loc, shaped sizes m ->
    fst (execB cB (w_prog s) (m, loc)) = specF s m /\ shaped sizes (fst (execB cB (w_prog s) (m, loc))).
  Proof.
    intros s Hs Hk m loc Hm. unfold wseg_ok in Hk.
    destruct (reloc r (w_off s) len (w_prog s)) as [pW|] eqn:Er; [|discriminate].
    apply andb_true_iff in Hk. destruct Hk as [Hk H4]. apply andb_true_iff in Hk. destruct Hk as [Hk H3].
    apply andb_true_iff in Hk. destruct Hk as [H1 H2]. apply Nat.leb_le in H4.
    split; [|apply exec_shaped; assumption].
    rewrite execB_closed by exact H3.
    assert (Hlen : r < length m) by (destruct Hm as [Hl _]; lia).
    pose proof (exec_by_window bool xorb andb false true cB r (w_off s) len (w_prog s) pW m [] Hlen Er) as Hw.
    unfold execB. etransitivity; [exact Hw|].
    unfold specF. f_equal.
    apply (check_kernel_sound cP cB sizesW pW (w_specP s) (w_specB s) Hc Hs H1).
    apply window_shaped; assumption.
  Qed.

  Theorem wsegs_sound : forall segs,
    Forall (fun s => spec_hom sizesW (w_specP s) (w_specB s)) segs ->
    forallb wseg_ok segs = true ->
    forall m loc, shaped sizes m ->
    fst (execB cB (concat (map w_prog segs)) (m, loc)) = fold_left (fun acc s => specF s acc) segs m.
  Proof.
    induction segs as [|s segs IH]; intros Hh Hk m loc Hm; [reflexivity|].
    inversion Hh as [|s' segs' Hs Hh']; subst. cbn [forallb] in Hk. apply andb_true_iff in Hk. destruct Hk as [K1 K2].
    cbn [map concat fold_left]. rewrite execB_app.
    destruct (wseg_sound s Hs K1 m loc Hm) as [E Sh].
    destruct (execB cB (w_prog s) (m, loc)) as [m1 loc1]. cbn [fst] in E, Sh. subst m1.
    apply (IH Hh' K2 _ loc1 Sh).
  Qed.
End Windowed.

Fixpoint zip_wsegs (runs : list (list stmt)) (offs : list nat) (sP : list (mem poly -> mem poly))
                   (sB : list (mem bool -> mem bool)) : option (list wseg) :=
  match runs, offs, sP, sB with
  | [], [], [], [] => Some []
  | c :: runs', o :: offs', p :: sP', b :: sB' =>
      match zip_wsegs runs' offs' sP' sB' with Some l => Some (mkW c o p b :: l) | None => None end
  | _, _, _, _ => None
  end.
Lemma zip_wsegs_prog : forall runs offs sP sB segs, zip_wsegs runs offs sP sB = Some segs ->
  concat (map w_prog segs) = concat runs.
Proof.
  induction runs as [|c runs IH]; intros offs sP sB segs H; destruct offs as [|o offs]; destruct sP as [|p sP];
    destruct sB as [|b sB]; cbn [zip_wsegs] in H; try discriminate.
  - inversion H. reflexivity.
  - destruct (zip_wsegs runs offs sP sB) as [l|] eqn:E; [|discriminate]. inversion H; subst.
    cbn [map concat w_prog]. f_equal. apply (IH offs sP sB l E).
Qed.
Lemma zip_wsegs_hom : forall sizesW runs offs sP sB segs, zip_wsegs runs offs sP sB = Some segs ->
  Forall2 (spec_hom sizesW) sP sB ->
  Forall (fun s => spec_hom sizesW (w_specP s) (w_specB s)) segs.
Proof.
  intros sizesW. induction runs as [|c runs IH]; intros offs sP sB segs H F; destruct offs as [|o offs];
    destruct sP as [|p sP]; destruct sB as [|b sB]; cbn [zip_wsegs] in H; try discriminate.
  - inversion H. constructor.
  - destruct (zip_wsegs runs offs sP sB) as [l|] eqn:E; [|discriminate]. inversion H; subst.
    inversion F; subst. constructor; [assumption | apply (IH offs sP sB l E); assumption].
Qed.
Lemma zip_wsegs_fold : forall r len runs offs sP sB segs, zip_wsegs runs offs sP sB = Some segs ->
  forall m, fold_left (fun acc s => specF r len s acc) segs m
          = fold_left (fun acc (ob : nat * (mem bool -> mem bool)) =>
                         unwindow bool r acc (snd ob (window bool r (fst ob) len acc))) (combine offs sB) m.
Proof.
  intros r len. induction runs as [|c runs IH]; intros offs sP sB segs H m; destruct offs as [|o offs];
    destruct sP as [|p sP]; destruct sB as [|b sB]; cbn [zip_wsegs] in H; try discriminate.
  - inversion H. reflexivity.
  - destruct (zip_wsegs runs offs sP sB) as [l|] eqn:E; [|discriminate]. inversion H; subst.
    cbn [combine fold_left]. unfold specF at 2. cbn [w_off w_specB fst snd]. apply (IH offs sP sB l E).
Qed.

(* the windowed whole-function checker for block functions: region r = the key schedule object, window length len *)
Definition check_block_w (cP : nat -> list poly -> list poly) (sizes : list nat) (r len : nat) (code : list stmt)
           (offs : list nat) (sP : list (mem poly -> mem poly)) (sB : list (mem bool -> mem bool)) : bool :=
  match zip_wsegs (split_runs code) offs sP sB with
  | Some segs => forallb (wseg_ok cP sizes r len) segs && Nat.ltb r (length sizes)
  | None => false
  end.

Theorem check_block_w_sound : forall cP cB sizes r len code offs sP sB,
  call_hom cP cB -> Forall2 (spec_hom (sizesW sizes r len)) sP sB ->
  check_block_w cP sizes r len code offs sP sB = true ->
  forall m, shaped sizes m ->
  fst (execB cB code (m, []))
  = fold_left (fun acc (ob : nat * (mem bool -> mem bool)) =>
                 unwindow bool r acc (snd ob (window bool r (fst ob) len acc))) (combine offs sB) m.
Proof.
  intros cP cB sizes r len code offs sP sB Hc HF Hk m Hm. unfold check_block_w in Hk.
  destruct (zip_wsegs (split_runs code) offs sP sB) as [segs|] eqn:E; [|discriminate].
  apply andb_true_iff in Hk. destruct Hk as [K1 K2]. apply Nat.ltb_lt in K2.
  rewrite <- (zip_wsegs_fold r len _ _ _ _ _ E).
  rewrite <- (split_runs_concat code) at 1. rewrite <- (zip_wsegs_prog _ _ _ _ _ E).
  apply (wsegs_sound cP cB sizes r len Hc K2 segs); [ | exact K1 | exact Hm].
  apply (zip_wsegs_hom _ _ _ _ _ _ E HF).
Qed.
