(* ProofsJunk.v — results are a function of the API inputs only (property C11): nothing the model
   computes depends on what the caller's object memory held before it was keyed or initialised.
   The model has no other source of indeterminacy: `step` is a function of (world, op), and the only
   places where earlier memory content enters a world are `ONew` (the fill byte of caller-side memory)
   and the stale schedule slots beyond the round count. *)
From Coq Require Import List Bool NArith Arith Lia.
From Skinny Require Import Bits SpecSkinny SpecMantis ModelCipher ModelCtr ModelCpu Api
  ProofsSkinny ProofsMantis ProofsCtr ProofsApiCtr.
Import ListNotations.
Require Import ZArith ZifyNat.
Local Ltac Zify.zify_post_hook ::= Z.div_mod_to_equations.

Lemma ceil_z128 n : 16 <= n <= 48 -> In ((n + 15) / 16) [1; 2; 3].
Proof.
  intros H. assert (Hq : 1 <= (n + 15) / 16 <= 3) by lia.
  set (q := (n + 15) / 16) in *. clearbody q. cbn. lia.
Qed.
Lemma ceil_z64 n : 8 <= n <= 24 -> In ((n + 7) / 8) [1; 2; 3].
Proof.
  intros H. assert (Hq : 1 <= (n + 7) / 8 <= 3) by lia.
  set (q := (n + 7) / 8) in *. clearbody q. cbn. lia.
Qed.

(* after a successful set_key the cipher is the specification's cipher of the zero-padded key,
   whatever the object held before *)
Theorem m128_keyed_is_spec : forall (ks : ks128) key (n : nat), 16 <= n <= 48 -> length key = n ->
  length (ks_sched byte ks) = 56 ->
  let z := (n + 15) / 16 in
  exists ks', m128_set_key ks (Some key) (N.of_nat n) = (1%N, ks') /\
    forall blk, length blk = 16 ->
      m128_encrypt ks' blk = skinny128_enc z (pad_to (16 * z) key) blk /\
      m128_decrypt ks' blk = skinny128_dec z (pad_to (16 * z) key) blk.
Proof.
  intros ks key n Hn Hk Hs z.
  rewrite (m128_set_key_padding ks key n Hn Hk). fold z.
  destruct (m128_set_key_spec z ks (pad_to (16 * z) key)) as (ks' & E & _ & _ & Hb).
  - apply ceil_z128; exact Hn.
  - apply ProofsSkinny.pad_to_length.
  - exact Hs.
  - exists ks'. split; [exact E | exact Hb].
Qed.
Theorem m64_keyed_is_spec : forall (ks : ks64) key (n : nat), 8 <= n <= 24 -> length key = n ->
  length (ks_sched nib ks) = 40 ->
  let z := (n + 7) / 8 in
  exists ks', m64_set_key ks (Some key) (N.of_nat n) = (1%N, ks') /\
    forall blk, length blk = 8 ->
      m64_encrypt ks' blk = skinny64_enc z (pad_to (8 * z) key) blk /\
      m64_decrypt ks' blk = skinny64_dec z (pad_to (8 * z) key) blk.
Proof.
  intros ks key n Hn Hk Hs z.
  rewrite (m64_set_key_padding ks key n Hn Hk). fold z.
  destruct (m64_set_key_spec z ks (pad_to (8 * z) key)) as (ks' & E & _ & _ & Hb).
  - apply ceil_z64; exact Hn.
  - apply ProofsSkinny.pad_to_length.
  - exact Hs.
  - exists ks'. split; [exact E | exact Hb].
Qed.

(* hence two objects with different prior contents behave identically once keyed *)
Theorem m128_prior_content_irrelevant : forall (ks1 ks2 : ks128) key (n : nat) blk,
  16 <= n <= 48 -> length key = n -> length blk = 16 ->
  length (ks_sched byte ks1) = 56 -> length (ks_sched byte ks2) = 56 ->
  m128_encrypt (snd (m128_set_key ks1 (Some key) (N.of_nat n))) blk
  = m128_encrypt (snd (m128_set_key ks2 (Some key) (N.of_nat n))) blk
  /\ m128_decrypt (snd (m128_set_key ks1 (Some key) (N.of_nat n))) blk
  = m128_decrypt (snd (m128_set_key ks2 (Some key) (N.of_nat n))) blk.
Proof.
  intros ks1 ks2 key n blk Hn Hk Hb H1 H2.
  destruct (m128_keyed_is_spec ks1 key n Hn Hk H1) as (k1 & E1 & S1).
  destruct (m128_keyed_is_spec ks2 key n Hn Hk H2) as (k2 & E2 & S2).
  rewrite E1, E2. cbn [snd].
  destruct (S1 blk Hb) as [A1 B1]. destruct (S2 blk Hb) as [A2 B2].
  now rewrite A1, A2, B1, B2.
Qed.
Theorem m64_prior_content_irrelevant : forall (ks1 ks2 : ks64) key (n : nat) blk,
  8 <= n <= 24 -> length key = n -> length blk = 8 ->
  length (ks_sched nib ks1) = 40 -> length (ks_sched nib ks2) = 40 ->
  m64_encrypt (snd (m64_set_key ks1 (Some key) (N.of_nat n))) blk
  = m64_encrypt (snd (m64_set_key ks2 (Some key) (N.of_nat n))) blk
  /\ m64_decrypt (snd (m64_set_key ks1 (Some key) (N.of_nat n))) blk
  = m64_decrypt (snd (m64_set_key ks2 (Some key) (N.of_nat n))) blk.
Proof.
  intros ks1 ks2 key n blk Hn Hk Hb H1 H2.
  destruct (m64_keyed_is_spec ks1 key n Hn Hk H1) as (k1 & E1 & S1).
  destruct (m64_keyed_is_spec ks2 key n Hn Hk H2) as (k2 & E2 & S2).
  rewrite E1, E2. cbn [snd].
  destruct (S1 blk Hb) as [A1 B1]. destruct (S2 blk Hb) as [A2 B2].
  now rewrite A1, A2, B1, B2.
Qed.

(* MANTIS: a successful set_key overwrites every field *)
Theorem mantis_prior_content_irrelevant : forall ks1 ks2 key size r mode,
  fst (mantis_set_key ks1 key size r mode) = 1%N ->
  mantis_set_key ks1 key size r mode = mantis_set_key ks2 key size r mode.
Proof.
  intros ks1 ks2 key size r mode. unfold mantis_set_key.
  destruct key as [k|]; [|cbn; discriminate].
  destruct (N.eqb size 16 && N.leb 5 r && N.leb r 8)%bool; [|cbn; discriminate].
  destruct (N.eqb mode 1); reflexivity.
Qed.

(* initialisation of CTR objects: the resulting object does not depend on the caller's memory *)
Theorem ctr_init_prior_content_irrelevant : forall w id (f1 f2 : byte),
  let w1 := fst (step w (ONew C128 id f1)) in
  let w2 := fst (step w (ONew C128 id f2)) in
  snd (step w1 (OInit C128 (Some id))) = snd (step w2 (OInit C128 (Some id)))
  /\ lookup (fst (step w1 (OInit C128 (Some id)))) id = lookup (fst (step w2 (OInit C128 (Some id)))) id.
Proof.
  intros w id f1 f2 w1 w2. subst w1 w2. cbn [step fst].
  rewrite !lookup_store_same.
  unfold new_obj. destruct (is_zero_byte f1), (is_zero_byte f2); cbn [step];
  unfold ctr_init, choose, cur_cpu; cbn [w_heap w_cpu w_ambient w_build w_real store_obj];
  destruct (alloc (w_heap w)) as [[[n|] h] ev]; cbn [fst snd]; rewrite ?lookup_store_same; auto.
Qed.
