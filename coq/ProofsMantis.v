(* ProofsMantis.v — MANTIS: the core inverts itself under swapped whitening
   keys and k1 xor alpha; byte-level round trips; the model of the C key
   schedule object computes the specification (C02); mode switching (C03). *)
From Coq Require Import List Bool NArith Arith Lia.
From Skinny Require Import Bits SpecSkinny SpecMantis ModelCipher.
Import ListNotations.

(* ------------------------------------------------------------------ *)
(* S-box *)
Lemma Sb0_involutive : forall x : nib, Sb0 bool xorb andb true (Sb0 bool xorb andb true x) = x.
Proof. intros x. destruct x as [[[[] []] []] []]; reflexivity. Qed.

(* ------------------------------------------------------------------ *)
(* Structure of the core over an abstract cell type *)
Section GenericInv.
  Variable C : Type.
  Variable cx : C -> C -> C.
  Variable cnib : bool -> bool -> bool -> bool -> C.
  Variable sb : C -> C.
  Hypothesis cx_cancel : forall a b, cx (cx a b) b = a.
  Hypothesis mixc0 : forall a b c d,
    cx (cx a (cx c d)) (cx (cx a (cx b d)) (cx a (cx b c))) = a.
  Hypothesis mixc1 : forall a b c d,
    cx (cx b (cx c d)) (cx (cx a (cx b d)) (cx a (cx b c))) = b.
  Hypothesis mixc2 : forall a b c d,
    cx (cx b (cx c d)) (cx (cx a (cx c d)) (cx a (cx b c))) = c.
  Hypothesis mixc3 : forall a b c d,
    cx (cx b (cx c d)) (cx (cx a (cx c d)) (cx a (cx b d))) = d.
  Hypothesis sb_inv : forall x, sb (sb x) = x.

  Notation st := (state C).
  Notation gsx := (sx C cx).
  Notation gsub := (sub C sb).
  Notation gmix := (mix C cx).
  Notation gpc := (permute_cells C).
  Notation gpci := (permute_cells_inv C).
  Notation gh := (h_perm C).
  Notation ghi := (h_perm_inv C).
  Notation gconst := (const_state C cnib).
  Notation gfwd := (fwd C cx cnib sb).
  Notation gbwd := (bwd C cx cnib sb).

  Ltac dstate s :=
    let r0 := fresh "r" in let r1 := fresh "r" in let r2 := fresh "r" in let r3 := fresh "r" in
    destruct s as [[[r0 r1] r2] r3];
    destruct r0 as [[[? ?] ?] ?]; destruct r1 as [[[? ?] ?] ?];
    destruct r2 as [[[? ?] ?] ?]; destruct r3 as [[[? ?] ?] ?].

  Lemma gsx_cancel (a b : st) : gsx (gsx a b) b = a.
  Proof. dstate a; dstate b. cbn. pair_eq; apply cx_cancel. Qed.

  Lemma gsub_inv (s : st) : gsub (gsub s) = s.
  Proof. dstate s. unfold sub. cbn. rewrite !sb_inv. reflexivity. Qed.

  Lemma gmix_inv (s : st) : gmix (gmix s) = s.
  Proof.
    dstate s. cbn. pair_eq; first [apply mixc0 | apply mixc1 | apply mixc2 | apply mixc3].
  Qed.

  Lemma gpci_pc (s : st) : gpci (gpc s) = s.
  Proof. dstate s. reflexivity. Qed.
  Lemma gpc_pci (s : st) : gpc (gpci s) = s.
  Proof. dstate s. reflexivity. Qed.
  Lemma ghi_h (s : st) : ghi (gh s) = s.
  Proof. dstate s. reflexivity. Qed.
  Lemma gh_hi (s : st) : gh (ghi s) = s.
  Proof. dstate s. reflexivity. Qed.

  (* one forward and one backward round *)
  Definition Frnd (rc : N) (k t x : st) : st :=
    gmix (gpc (gsx (gsx (gsub x) (gconst rc)) (gsx k t))).
  Definition Grnd (rc : N) (k t x : st) : st :=
    gsub (gsx (gsx (gpci (gmix x)) (gsx k t)) (gconst rc)).

  Lemma G_F rc k t x : Grnd rc k t (Frnd rc k t x) = x.
  Proof.
    unfold Grnd, Frnd. rewrite gmix_inv, gpci_pc, !gsx_cancel. apply gsub_inv.
  Qed.
  Lemma F_G rc k t x : Frnd rc k t (Grnd rc k t x) = x.
  Proof.
    unfold Grnd, Frnd. rewrite gsub_inv, !gsx_cancel, gpc_pci. apply gmix_inv.
  Qed.

  Lemma fwd_cons rc rest k t x :
    gfwd (rc :: rest) k t x = gfwd rest k (gh t) (Frnd rc k (gh t) x).
  Proof. reflexivity. Qed.
  Lemma bwd_cons rc rest k t x :
    gbwd (rc :: rest) k t x = gbwd rest k (ghi t) (Grnd rc k t x).
  Proof. reflexivity. Qed.

  Lemma bwd_app l1 : forall l2 k t x,
    gbwd (l1 ++ l2) k t x = gbwd l2 k (snd (gbwd l1 k t x)) (fst (gbwd l1 k t x)).
  Proof.
    induction l1 as [|rc l1 IH]; intros l2 k t x.
    - reflexivity.
    - rewrite <- app_comm_cons, !bwd_cons. apply IH.
  Qed.

  (* the tweak that comes out of the backward rounds does not depend on the
     key or the data *)
  Lemma bwd_snd_indep l : forall k k' t x x',
    snd (gbwd l k t x) = snd (gbwd l k' t x').
  Proof.
    induction l as [|rc l IH]; intros k k' t x x'.
    - reflexivity.
    - rewrite !bwd_cons. apply IH.
  Qed.

  (* backward rounds undo forward rounds *)
  Lemma bwd_fwd rcs : forall k t x,
    gbwd (rev rcs) k (snd (gfwd rcs k t x)) (fst (gfwd rcs k t x)) = (x, t).
  Proof.
    induction rcs as [|rc rcs IH]; intros k t x.
    - reflexivity.
    - rewrite fwd_cons. change (rev (rc :: rcs)) with (rev rcs ++ [rc]).
      rewrite bwd_app, IH. cbn [fst snd]. rewrite bwd_cons.
      rewrite G_F, ghi_h. reflexivity.
  Qed.

  (* forward rounds undo backward rounds *)
  Lemma fwd_bwd rcs : forall k t x,
    gfwd rcs k (snd (gbwd (rev rcs) k t x)) (fst (gbwd (rev rcs) k t x)) = (x, t).
  Proof.
    induction rcs as [|rc rcs IH]; intros k t x.
    - reflexivity.
    - change (rev (rc :: rcs)) with (rev rcs ++ [rc]).
      rewrite bwd_app. rewrite bwd_cons. cbn [gbwd fst snd].
      rewrite fwd_cons. rewrite gh_hi, F_G. apply IH.
  Qed.

  Lemma core_unfold r k0 k0' k1 t m :
    core C cx cnib sb r k0 k0' k1 t m =
    let rcs := firstn r RCs in
    let p := gfwd rcs k1 t (gsx m (gsx k0 (gsx k1 t))) in
    let k1a := gsx k1 (gconst ALPHA) in
    let q := gbwd (rev rcs) k1a (snd p) (gsub (gmix (gsub (fst p)))) in
    gsx (fst q) (gsx k0' (gsx k1a (snd q))).
  Proof.
    unfold core. cbv zeta.
    destruct (gfwd (firstn r RCs) k1 t (gsx m (gsx k0 (gsx k1 t)))) as [x tr].
    cbn [fst snd].
    destruct (gbwd (rev (firstn r RCs)) (gsx k1 (gconst ALPHA)) tr (gsub (gmix (gsub x)))) as [y t0].
    reflexivity.
  Qed.

  Theorem core_inverse r k0 k0' k1 t m :
    core C cx cnib sb r k0' k0 (gsx k1 (gconst ALPHA)) t
      (core C cx cnib sb r k0 k0' k1 t m) = m.
  Proof.
    rewrite (core_unfold r k0 k0' k1 t m). cbv zeta.
    set (rcs := firstn r RCs).
    set (x0 := gsx m (gsx k0 (gsx k1 t))).
    set (k1a := gsx k1 (gconst ALPHA)).
    set (p := gfwd rcs k1 t x0).
    set (x' := gsub (gmix (gsub (fst p)))).
    set (q := gbwd (rev rcs) k1a (snd p) x').
    (* the tweak comes back *)
    assert (Ht : snd q = t).
    { unfold q. rewrite (bwd_snd_indep (rev rcs) k1a k1 (snd p) x' (fst p)).
      unfold p. rewrite bwd_fwd. reflexivity. }
    rewrite Ht.
    rewrite core_unfold. cbv zeta. fold rcs. fold k1a.
    rewrite gsx_cancel.
    assert (Hf : gfwd rcs k1a t (fst q) = (x', snd p)).
    { rewrite <- Ht at 1. unfold q. apply fwd_bwd. }
    rewrite Hf. cbn [fst snd].
    unfold x'. rewrite gsub_inv, gmix_inv, gsub_inv.
    assert (Hk : gsx k1a (gconst ALPHA) = k1) by (unfold k1a; apply gsx_cancel).
    rewrite !Hk.
    unfold p. rewrite bwd_fwd. cbn [fst snd].
    unfold x0. apply gsx_cancel.
  Qed.
End GenericInv.

(* ------------------------------------------------------------------ *)
(* The instance at 4-bit cells over bool *)
Lemma xmix0 (a b c d : bool) :
  xorb (xorb a (xorb c d)) (xorb (xorb a (xorb b d)) (xorb a (xorb b c))) = a.
Proof. destruct a, b, c, d; reflexivity. Qed.
Lemma xmix1 (a b c d : bool) :
  xorb (xorb b (xorb c d)) (xorb (xorb a (xorb b d)) (xorb a (xorb b c))) = b.
Proof. destruct a, b, c, d; reflexivity. Qed.
Lemma xmix2 (a b c d : bool) :
  xorb (xorb b (xorb c d)) (xorb (xorb a (xorb c d)) (xorb a (xorb b c))) = c.
Proof. destruct a, b, c, d; reflexivity. Qed.
Lemma xmix3 (a b c d : bool) :
  xorb (xorb b (xorb c d)) (xorb (xorb a (xorb c d)) (xorb a (xorb b d))) = d.
Proof. destruct a, b, c, d; reflexivity. Qed.

Ltac dnib x := destruct x as [[[? ?] ?] ?].

Lemma nmix0 (a b c d : nib) :
  bxor4 (bxor4 a (bxor4 c d)) (bxor4 (bxor4 a (bxor4 b d)) (bxor4 a (bxor4 b c))) = a.
Proof. dnib a; dnib b; dnib c; dnib d. cbn. pair_eq; apply xmix0. Qed.
Lemma nmix1 (a b c d : nib) :
  bxor4 (bxor4 b (bxor4 c d)) (bxor4 (bxor4 a (bxor4 b d)) (bxor4 a (bxor4 b c))) = b.
Proof. dnib a; dnib b; dnib c; dnib d. cbn. pair_eq; apply xmix1. Qed.
Lemma nmix2 (a b c d : nib) :
  bxor4 (bxor4 b (bxor4 c d)) (bxor4 (bxor4 a (bxor4 c d)) (bxor4 a (bxor4 b c))) = c.
Proof. dnib a; dnib b; dnib c; dnib d. cbn. pair_eq; apply xmix2. Qed.
Lemma nmix3 (a b c d : nib) :
  bxor4 (bxor4 b (bxor4 c d)) (bxor4 (bxor4 a (bxor4 c d)) (bxor4 a (bxor4 b d))) = d.
Proof. dnib a; dnib b; dnib c; dnib d. cbn. pair_eq; apply xmix3. Qed.

Notation mcore := (mantis_core bool xorb andb false true).

Lemma msx_cancel (a b : state nib) : msx (msx a b) b = a.
Proof. exact (gsx_cancel nib bxor4 bxor4_cancel_r a b). Qed.

(* core inverts itself under swapped whitening keys and k1 xor alpha — all
   states, all r *)
Theorem mantis_core_inverse : forall (r : nat) (k0 k0' k1 t m : state nib),
  mantis_core bool xorb andb false true r k0' k0 (sx nib bxor4 k1 (alpha_state bool false true)) t
    (mantis_core bool xorb andb false true r k0 k0' k1 t m) = m.
Proof.
  intros r k0 k0' k1 t m.
  exact (core_inverse nib bxor4 (c4nib bool false true) (Sb0 bool xorb andb true)
           bxor4_cancel_r nmix0 nmix1 nmix2 nmix3 Sb0_involutive r k0 k0' k1 t m).
Qed.

(* the same read in the other direction *)
Lemma mantis_core_inverse' : forall (r : nat) (k0 k0' k1 t m : state nib),
  mcore r k0 k0' k1 t (mcore r k0' k0 (msx k1 malpha) t m) = m.
Proof.
  intros r k0 k0' k1 t m.
  pose proof (mantis_core_inverse r k0' k0 (msx k1 malpha) t m) as H.
  fold malpha in H. rewrite msx_cancel in H. exact H.
Qed.

(* ------------------------------------------------------------------ *)
(* bytes <-> state round trips *)
Lemma load64_store64 (s : state nib) : load64 (store64 s) = s.
Proof.
  destruct s as [[[r0 r1] r2] r3].
  destruct r0 as [[[? ?] ?] ?]; destruct r1 as [[[? ?] ?] ?];
  destruct r2 as [[[? ?] ?] ?]; destruct r3 as [[[? ?] ?] ?].
  unfold load64, store64, state64_of_bytes, bytes_of_state64, row_bytes64.
  cbn [app nth]. rewrite !c8hi_join, !c8lo_join. reflexivity.
Qed.

Lemma store64_load64 (blk : list byte) : length blk = 8 -> store64 (load64 blk) = blk.
Proof.
  intros H.
  destruct blk as [|b0 [|b1 [|b2 [|b3 [|b4 [|b5 [|b6 [|b7 [|b8 blk]]]]]]]]]; try discriminate H.
  unfold load64, store64, state64_of_bytes, bytes_of_state64, row_bytes64.
  cbn [app nth]. rewrite !c8join_hi_lo. reflexivity.
Qed.

(* ------------------------------------------------------------------ *)
(* byte-string level: for all keys, tweaks, blocks, round counts *)
Theorem mantis_dec_enc : forall r key tw blk, length blk = 8 ->
  mantis_dec r key tw (mantis_enc r key tw blk) = blk.
Proof.
  intros r key tw blk H. unfold mantis_dec, mantis_enc, mantis_decrypt, mantis_encrypt.
  rewrite (load64_store64 _). rewrite mantis_core_inverse. apply (store64_load64 _ H).
Qed.

Theorem mantis_enc_dec : forall r key tw blk, length blk = 8 ->
  mantis_enc r key tw (mantis_dec r key tw blk) = blk.
Proof.
  intros r key tw blk H. unfold mantis_dec, mantis_enc, mantis_decrypt, mantis_encrypt.
  rewrite (load64_store64 _). rewrite (mantis_core_inverse' r). apply (store64_load64 _ H).
Qed.

(* ------------------------------------------------------------------ *)
(* The model's key-schedule object *)
Definition mkey_enc (key : list byte) (r : N) : mantis_ks :=
  {| mk_k0 := load64 (firstn 8 key); mk_k0p := mk0prime (load64 (firstn 8 key));
     mk_k1 := load64 (firstn_skip 8 8 key); mk_tweak := mzero; mk_rounds := r |}.
Definition mkey_dec (key : list byte) (r : N) : mantis_ks :=
  {| mk_k0 := mk0prime (load64 (firstn 8 key)); mk_k0p := load64 (firstn 8 key);
     mk_k1 := msx (load64 (firstn_skip 8 8 key)) malpha; mk_tweak := mzero; mk_rounds := r |}.
Definition mkey (enc : bool) (key : list byte) (r : N) : mantis_ks :=
  if enc then mkey_enc key r else mkey_dec key r.
Definition mode_of (enc : bool) : N := if enc then 1%N else 0%N.

Lemma set_key_ok ks key r mode : (5 <= r <= 8)%N ->
  mantis_set_key ks (Some key) 16 r mode
  = (1%N, if N.eqb mode 1 then mkey_enc key r else mkey_dec key r).
Proof.
  intros [H5 H8]. unfold mantis_set_key.
  apply N.leb_le in H5. apply N.leb_le in H8. rewrite H5, H8.
  change (N.eqb 16 16 && true && true)%bool with true. cbv iota.
  destruct (N.eqb mode 1); reflexivity.
Qed.

Lemma set_key_mode ks key r enc : (5 <= r <= 8)%N ->
  mantis_set_key ks (Some key) 16 r (mode_of enc) = (1%N, mkey enc key r).
Proof. intros H. rewrite (set_key_ok ks key r _ H). destruct enc; reflexivity. Qed.

Definition tweak_state (tw : buf) : state nib :=
  match tw with Some t => load64 (pad_to 8 t) | None => mzero end.
Definition with_tweak (ks : mantis_ks) (t : state nib) : mantis_ks :=
  {| mk_k0 := mk_k0 ks; mk_k0p := mk_k0p ks; mk_k1 := mk_k1 ks;
     mk_tweak := t; mk_rounds := mk_rounds ks |}.
Lemma set_tweak_ok ks tw : mantis_set_tweak ks tw 8 = (1%N, with_tweak ks (tweak_state tw)).
Proof. reflexivity. Qed.

Lemma pad_to_full (l : list byte) n : length l = n -> pad_to n l = l.
Proof.
  intros H. unfold pad_to. rewrite firstn_app, H, Nat.sub_diag. cbn [firstn].
  rewrite app_nil_r. rewrite <- H. apply firstn_all.
Qed.

Lemma load64_zeros : load64 (zeros 8) = mzero.
Proof. reflexivity. Qed.

(* C02: the model's key-schedule object and block function compute the specification *)
Theorem mantis_model_spec : forall (ks : mantis_ks) (key tw blk : list byte) (r : N),
  length key = 16 -> length tw = 8 -> length blk = 8 -> (5 <= r <= 8)%N ->
  exists ke kd,
    mantis_set_key ks (Some key) 16 r 1 = (1%N, ke) /\
    mantis_set_key ks (Some key) 16 r 0 = (1%N, kd) /\
    mantis_crypt ke blk = mantis_enc (N.to_nat r) key (zeros 8) blk /\
    mantis_crypt_tweaked ke tw blk = mantis_enc (N.to_nat r) key tw blk /\
    mantis_crypt (snd (mantis_set_tweak ke (Some tw) 8)) blk = mantis_enc (N.to_nat r) key tw blk /\
    mantis_crypt (snd (mantis_set_tweak ke None 8)) blk = mantis_enc (N.to_nat r) key (zeros 8) blk /\
    mantis_crypt_tweaked kd tw blk = mantis_dec (N.to_nat r) key tw blk /\
    mantis_crypt (snd (mantis_set_tweak kd (Some tw) 8)) blk = mantis_dec (N.to_nat r) key tw blk.
Proof.
  intros ks key tw blk r Hk Ht Hb Hr.
  exists (mkey_enc key r), (mkey_dec key r).
  split; [apply (set_key_ok ks key r 1 Hr)|].
  split; [apply (set_key_ok ks key r 0 Hr)|].
  rewrite !set_tweak_ok. unfold tweak_state. rewrite (pad_to_full tw 8 Ht).
  repeat split; reflexivity.
Qed.

(* rejected calls change nothing *)
Theorem mantis_set_key_reject : forall ks key size r mode,
  (key = None \/ size <> 16%N \/ (r < 5)%N \/ (8 < r)%N) -> mantis_set_key ks key size r mode = (0%N, ks).
Proof.
  intros ks key size r mode H. unfold mantis_set_key.
  destruct key as [k|]; [|reflexivity].
  destruct H as [H|[H|[H|H]]].
  - discriminate H.
  - apply N.eqb_neq in H. rewrite H. reflexivity.
  - apply N.leb_gt in H. rewrite H. rewrite andb_false_r. reflexivity.
  - apply N.leb_gt in H. rewrite H. rewrite andb_false_r. reflexivity.
Qed.

Theorem mantis_set_tweak_reject : forall ks tw size, size <> 8%N -> mantis_set_tweak ks tw size = (0%N, ks).
Proof.
  intros ks tw size H. unfold mantis_set_tweak. apply N.eqb_neq in H. rewrite H. reflexivity.
Qed.

(* ------------------------------------------------------------------ *)
(* C03 (MANTIS part): mode switching *)
Theorem swap_swap : forall ks, mantis_swap_modes (mantis_swap_modes ks) = ks.
Proof.
  intros [k0 k0p k1 t r]. unfold mantis_swap_modes. cbn [mk_k0 mk_k0p mk_k1 mk_tweak mk_rounds].
  rewrite msx_cancel. reflexivity.
Qed.

Theorem crypt_swap_inverse : forall ks blk, length blk = 8 ->
  mantis_crypt (mantis_swap_modes ks) (mantis_crypt ks blk) = blk.
Proof.
  intros [k0 k0p k1 t r] blk H. unfold mantis_crypt, mantis_swap_modes.
  cbn [mk_k0 mk_k0p mk_k1 mk_tweak mk_rounds].
  rewrite load64_store64. unfold malpha. rewrite mantis_core_inverse. apply (store64_load64 _ H).
Qed.

Theorem crypt_tweaked_swap_inverse : forall ks tw blk, length blk = 8 ->
  mantis_crypt_tweaked (mantis_swap_modes ks) tw (mantis_crypt_tweaked ks tw blk) = blk.
Proof.
  intros [k0 k0p k1 t r] tw blk H. unfold mantis_crypt_tweaked, mantis_swap_modes.
  cbn [mk_k0 mk_k0p mk_k1 mk_tweak mk_rounds].
  rewrite load64_store64. unfold malpha. rewrite mantis_core_inverse. apply (store64_load64 _ H).
Qed.

Lemma swap_mkey enc key r t :
  mantis_swap_modes (with_tweak (mkey enc key r) t) = with_tweak (mkey (negb enc) key r) t.
Proof.
  destruct enc; unfold mantis_swap_modes, with_tweak, mkey, mkey_enc, mkey_dec;
    cbn [negb mk_k0 mk_k0p mk_k1 mk_tweak mk_rounds].
  - reflexivity.
  - rewrite msx_cancel. reflexivity.
Qed.

(* switching once = keying afresh in the other mode and re-applying the tweak *)
Theorem swap_is_rekey : forall ks key r tw (enc : bool), length key = 16 -> (5 <= r <= 8)%N ->
  let m := if enc then 1%N else 0%N in let m' := if enc then 0%N else 1%N in
  mantis_swap_modes (snd (mantis_set_tweak (snd (mantis_set_key ks (Some key) 16 r m)) tw 8))
  = snd (mantis_set_tweak (snd (mantis_set_key ks (Some key) 16 r m')) tw 8).
Proof.
  intros ks key r tw enc Hk Hr. cbv zeta.
  change (if enc then 1%N else 0%N) with (mode_of enc).
  replace (if enc then 0%N else 1%N) with (mode_of (negb enc)) by (destruct enc; reflexivity).
  rewrite !set_key_mode by exact Hr. rewrite !set_tweak_ok. cbn [snd].
  apply swap_mkey.
Qed.

(* any history of mode switches and tweak changes *)
Inductive mop : Type := MSwap | MTweak (tw : buf).
Definition mapply (ks : mantis_ks) (o : mop) : mantis_ks :=
  match o with MSwap => mantis_swap_modes ks | MTweak tw => snd (mantis_set_tweak ks tw 8) end.
Definition mparity (enc : bool) (ops : list mop) : bool :=
  fold_left (fun b o => match o with MSwap => negb b | MTweak _ => b end) ops enc.
Definition mlast (ops : list mop) : buf :=   (* latest tweak request; None = NULL = zero tweak; initially zero *)
  fold_left (fun t o => match o with MSwap => t | MTweak tw => tw end) ops None.

Lemma history_gen key r (ops : list mop) : forall (enc : bool) (t : buf),
  fold_left mapply ops (with_tweak (mkey enc key r) (tweak_state t))
  = with_tweak (mkey (mparity enc ops) key r)
      (tweak_state (fold_left (fun t o => match o with MSwap => t | MTweak tw => tw end) ops t)).
Proof.
  induction ops as [|o ops IH]; intros enc t.
  - reflexivity.
  - cbn [fold_left]. unfold mparity. cbn [fold_left]. fold (mparity (match o with MSwap => negb enc | MTweak _ => enc end) ops).
    destruct o as [|tw]; cbn [mapply].
    + rewrite swap_mkey. apply IH.
    + rewrite set_tweak_ok. cbn [snd].
      change (with_tweak (with_tweak (mkey enc key r) (tweak_state t)) (tweak_state tw))
        with (with_tweak (mkey enc key r) (tweak_state tw)).
      apply IH.
Qed.

Theorem swap_tweak_history : forall ks key r (enc : bool) (ops : list mop), length key = 16 -> (5 <= r <= 8)%N ->
  fold_left mapply ops (snd (mantis_set_key ks (Some key) 16 r (if enc then 1%N else 0%N)))
  = snd (mantis_set_tweak (snd (mantis_set_key ks (Some key) 16 r (if mparity enc ops then 1%N else 0%N))) (mlast ops) 8).
Proof.
  intros ks key r enc ops Hk Hr.
  change (if enc then 1%N else 0%N) with (mode_of enc).
  change (if mparity enc ops then 1%N else 0%N) with (mode_of (mparity enc ops)).
  rewrite !set_key_mode by exact Hr. rewrite set_tweak_ok. cbn [snd].
  replace (mkey enc key r) with (with_tweak (mkey enc key r) (tweak_state None))
    by (destruct enc; reflexivity).
  unfold mlast. apply history_gen.
Qed.

Print Assumptions Sb0_involutive.
Print Assumptions mantis_core_inverse.
Print Assumptions mantis_dec_enc.
Print Assumptions mantis_enc_dec.
Print Assumptions mantis_model_spec.
Print Assumptions mantis_set_key_reject.
Print Assumptions mantis_set_tweak_reject.
Print Assumptions swap_swap.
Print Assumptions crypt_swap_inverse.
Print Assumptions crypt_tweaked_swap_inverse.
Print Assumptions swap_is_rekey.
Print Assumptions swap_tweak_history.
