(* WholeCtr.v — the WHOLE generic CTR encryption function (skinny128_ctr_def_encrypt / skinny64_ctr_def_encrypt /
   mantis_ctr_def_encrypt of src/*-ctr.c) as translated into SIR.v with the block function kept as a PROCEDURE CALL
   (WholeProc.v), flattened at a public configuration (request size, buffered-key-stream offset), against a specification
   program that mirrors ModelCtr.crypt_loop: per loop iteration either
        refill:   ecounter := E(counter) [the procedure call]; counter := counter + 1 (big endian, byte-wise carries);
                  output[pos..] := input[pos..] xor ecounter[..]; offset field updated for a final partial block
        leftover: output[pos..] := input[pos..] xor ecounter[offset..]; offset := offset + n.
   Memory: 0 = output, 1 = input, 2 = the CTR object, 3 = the context (key schedule object at 0, counter at coff, ecounter at
   eoff, the public field offset at ooff). *)
From Coq Require Import List Bool NArith Arith Lia.
From Skinny Require Import Bits IR SIR Anf IRCheck KernelSpecs KernelSpecs2 KernelHom KernelHom2 SIRCheck WholeSpecs SIRProofs
                           ModelCipher ModelCtr WholeProc.
Import ListNotations.

Section CtrSpec.
  Variable B : Type.
  Variables (bx ba : B -> B -> B) (b0 b1 : B).
  Variables (bs kn coff eoff ooff fno : nat).
  Notation reg := (reg B).
  Definition sub (l : list (list B)) (off n : nat) : list (list B) := firstn n (skipn off l).
  Definition xorB (a b : list (list B)) : list (list B) :=
    map (fun p => map2 B bx (fst p) (snd p)) (combine a b).
  Definition mk4m (o i c x : list (list B)) : mem B := [o; i; c; x].

  Definition s_xor (pos epos n : nat) (m : mem B) : mem B :=
    mk4m (splice B (reg m 0) pos (xorB (sub (reg m 1) pos n) (sub (reg m 3) epos n))) (reg m 1) (reg m 2) (reg m 3).
  Definition s_setoff (v : nat) (m : mem B) : mem B :=
    mk4m (reg m 0) (reg m 1) (reg m 2) (splice B (reg m 3) ooff (bytes_of B b0 4 (const_bits B b0 b1 32 (N.of_nat v)))).
  (* one byte of skinny*_inc_counter: inc += byte; byte := (uint8_t)inc; inc >>= 8   (inc is a 16-bit value) *)
  Definition inc_step (carry byte : list B) : list B * list B :=
    let s := take_pad B 16 b0 (add_bits B bx ba b0 (take_pad B 32 b0 carry) (take_pad B 32 b0 byte)) in
    (take_pad B 8 b0 s, take_pad B 16 b0 (skipn 8 s)).
  Fixpoint inc_rev_bits (l : list (list B)) (carry : list B) : list (list B) :=
    match l with
    | [] => []
    | b :: r => let '(b', c') := inc_step carry b in b' :: inc_rev_bits r c'
    end.
  Definition incB (c : list (list B)) : list (list B) := rev (inc_rev_bits (rev c) (const_bits B b0 b1 16 1)).
  Definition s_inc (m : mem B) : mem B :=
    mk4m (reg m 0) (reg m 1) (reg m 2) (splice B (reg m 3) coff (incB (sub (reg m 3) coff bs))).

  Definition pstmt : stmt := SStore 3 eoff bs (ECall fno (EConcat [ELoad 3 coff bs; ELoad 3 0 kn])).
  Definition ident (m : mem B) : mem B := m.

  (* the specification program, one entry per micro step; mirrors ModelCtr.crypt_loop at batch size 1 *)
  Fixpoint cmicro (fuel off size pos : nat) : list (entry B) :=
    match size with
    | O => []
    | S _ =>
      match fuel with
      | O => []
      | S f =>
        if Nat.leb bs off then
          (Some [pstmt], ident) :: (None, s_inc) ::
          (if Nat.leb bs size then (None, s_xor pos eoff bs) :: cmicro f off (size - bs) (pos + bs)
           else [(None, s_xor pos eoff size); (None, s_setoff size)])
        else
          let temp := Nat.min (bs - off) size in
          (None, s_xor pos (eoff + off) temp) :: (None, s_setoff (off + temp)) :: cmicro f (off + temp) (size - temp) (pos + temp)
      end
    end.

  (* consecutive specification steps are one run of the flattened code *)
  Fixpoint emerge_from (l : list (entry B)) (cur : entry B) : list (entry B) :=
    match l with
    | [] => [cur]
    | e :: l' =>
        match fst cur, fst e with
        | None, None => emerge_from l' (None, fun m => snd e (snd cur m))
        | _, _ => cur :: emerge_from l' e
        end
    end.
  Definition emerge (l : list (entry B)) : list (entry B) := match l with [] => [] | e :: l' => emerge_from l' e end.
  Definition cspec (off size : nat) : list (entry B) := emerge (cmicro (S size) off size 0).
End CtrSpec.

(* ---- merging preserves the meaning ---- *)
Lemma mixed_sem_cons : forall cB e l m, mixed_sem cB (e :: l) m = mixed_sem cB l (entry_sem cB e m).
Proof. reflexivity. Qed.
Lemma emerge_from_sem : forall cB l cur m,
  mixed_sem cB (emerge_from bool l cur) m = mixed_sem cB l (entry_sem cB cur m).
Proof.
  intros cB l. induction l as [|e l IH]; intros cur m; [reflexivity|].
  cbn [emerge_from]. destruct cur as [[a|] f]; destruct e as [[b|] g]; cbn [fst snd];
    rewrite ?mixed_sem_cons, IH, ?mixed_sem_cons; reflexivity.
Qed.
Lemma emerge_sem : forall cB l m, mixed_sem cB (emerge bool l) m = mixed_sem cB l m.
Proof. intros cB [|e l] m; [reflexivity|]. unfold emerge. rewrite emerge_from_sem. reflexivity. Qed.

(* ---- homomorphisms ---- *)
Section CtrHom.
  Variables B1 B2 : Type.
  Variables (bx1 ba1 : B1 -> B1 -> B1) (z1 o1 : B1).
  Variables (bx2 ba2 : B2 -> B2 -> B2) (z2 o2 : B2).
  Variable h : B1 -> B2.
  Hypothesis h_bx : forall a b, h (bx1 a b) = bx2 (h a) (h b).
  Hypothesis h_ba : forall a b, h (ba1 a b) = ba2 (h a) (h b).
  Hypothesis h_z : h z1 = z2.
  Hypothesis h_o : h o1 = o2.
  Notation hb := (map (map h)).
  Notation hm := (map (map (map h))).
  Let Hreg := reg_homG B1 B2 h.

  Lemma sub_homG : forall l off n, hb (sub B1 l off n) = sub B2 (hb l) off n.
  Proof. intros. unfold sub. rewrite skipn_map, firstn_map. reflexivity. Qed.
  Lemma xorB_homG : forall a b, hb (xorB B1 bx1 a b) = xorB B2 bx2 (hb a) (hb b).
  Proof.
    induction a as [|x a IH]; intros [|y b]; try reflexivity.
    unfold xorB in *. cbn [combine map fst snd]. rewrite IH. f_equal.
    apply (map2_hom B1 B2 h bx1 bx2 h_bx).
  Qed.
  Lemma splice_homG : forall bytes off new, hb (splice B1 bytes off new) = splice B2 (hb bytes) off (hb new).
  Proof. intros. unfold splice. rewrite !map_app, map_length, firstn_map, skipn_map. reflexivity. Qed.
  Lemma inc_step_homG : forall c b,
    (map h (fst (inc_step B1 bx1 ba1 z1 c b)), map h (snd (inc_step B1 bx1 ba1 z1 c b)))
    = inc_step B2 bx2 ba2 z2 (map h c) (map h b).
  Proof.
    intros c b. unfold inc_step. cbv zeta. cbn [fst snd].
    rewrite !(take_pad_hom B1 B2 h). rewrite <- skipn_map.
    rewrite !(take_pad_hom B1 B2 h), (add_bits_hom B1 B2 bx1 ba1 bx2 ba2 h h_bx h_ba), !(take_pad_hom B1 B2 h), !h_z. reflexivity.
  Qed.
  Lemma inc_rev_bits_homG : forall l c,
    hb (inc_rev_bits B1 bx1 ba1 z1 l c) = inc_rev_bits B2 bx2 ba2 z2 (hb l) (map h c).
  Proof.
    induction l as [|b l IH]; intros c; [reflexivity|].
    cbn [inc_rev_bits map]. pose proof (inc_step_homG c b) as E.
    destruct (inc_step B1 bx1 ba1 z1 c b) as [b' c']. destruct (inc_step B2 bx2 ba2 z2 (map h c) (map h b)) as [b'' c''].
    cbn [fst snd] in E. inversion E; subst. cbn [map]. rewrite IH. reflexivity.
  Qed.
  Lemma incB_homG : forall c, hb (incB B1 bx1 ba1 z1 o1 c) = incB B2 bx2 ba2 z2 o2 (hb c).
  Proof.
    intros c. unfold incB. rewrite map_rev, inc_rev_bits_homG, map_rev, (const_bits_hom B1 B2 z1 o1 z2 o2 h h_z h_o). reflexivity.
  Qed.

  Lemma s_xor_homG : forall pos epos n m, hm (s_xor B1 bx1 pos epos n m) = s_xor B2 bx2 pos epos n (hm m).
  Proof.
    intros. unfold s_xor, mk4m. cbn [map]. rewrite !Hreg, splice_homG, xorB_homG, !sub_homG. reflexivity.
  Qed.
  Lemma s_setoff_homG : forall ooff v m, hm (s_setoff B1 z1 o1 ooff v m) = s_setoff B2 z2 o2 ooff v (hm m).
  Proof.
    intros. unfold s_setoff, mk4m. cbn [map]. rewrite !Hreg, splice_homG.
    rewrite (bytes_of_hom B1 B2 z1 z2 h h_z), (const_bits_hom B1 B2 z1 o1 z2 o2 h h_z h_o). reflexivity.
  Qed.
  Lemma s_inc_homG : forall bs coff m, hm (s_inc B1 bx1 ba1 z1 o1 bs coff m) = s_inc B2 bx2 ba2 z2 o2 bs coff (hm m).
  Proof.
    intros. unfold s_inc, mk4m. cbn [map]. rewrite !Hreg, splice_homG, incB_homG, sub_homG. reflexivity.
  Qed.
End CtrHom.

Lemma s_xor_homU : forall pos epos n, homU (s_xor poly pxor pos epos n) (s_xor bool xorb pos epos n).
Proof. intros. intros rho m. unfold mmap, vmap. apply s_xor_homG. intros; apply peval_pxor. Qed.
Lemma s_setoff_homU : forall ooff v, homU (s_setoff poly pzero pone ooff v) (s_setoff bool false true ooff v).
Proof. intros. intros rho m. unfold mmap, vmap. apply s_setoff_homG; reflexivity. Qed.
Lemma s_inc_homU : forall bs coff, homU (s_inc poly pxor pand pzero pone bs coff) (s_inc bool xorb andb false true bs coff).
Proof.
  intros. intros rho m. unfold mmap, vmap.
  apply s_inc_homG; intros; first [apply peval_pxor | apply peval_pand | reflexivity].
Qed.
Lemma ident_homU : homU (ident poly) (ident bool).
Proof. intros rho m. reflexivity. Qed.

Notation cmicroP := (cmicro poly pxor pand pzero pone).
Notation cmicroB := (cmicro bool xorb andb false true).

Definition entry_homU (a : entry poly) (b : entry bool) : Prop := fst a = fst b /\ homU (snd a) (snd b).
Lemma entry_homU_hom : forall sizes lP lB, Forall2 entry_homU lP lB -> Forall2 (entry_hom sizes) lP lB.
Proof.
  intros sizes lP lB H. induction H as [|a b lP lB [H1 H2] _ IH]; constructor; [|exact IH].
  split; [exact H1 | intros _; apply homU_spec_hom; exact H2].
Qed.

Lemma cmicro_hom : forall bs kn coff eoff ooff fno fuel off size pos,
  Forall2 entry_homU (cmicroP bs kn coff eoff ooff fno fuel off size pos) (cmicroB bs kn coff eoff ooff fno fuel off size pos).
Proof.
  intros bs kn coff eoff ooff fno fuel. induction fuel as [|f IH]; intros off size pos.
  - destruct size; constructor.
  - destruct size as [|sz]; [constructor|]. cbn [cmicro].
    destruct (Nat.leb bs off).
    + constructor; [split; [reflexivity | apply ident_homU]|].
      constructor; [split; [reflexivity | apply s_inc_homU]|].
      destruct (Nat.leb bs (S sz)).
      * constructor; [split; [reflexivity | apply s_xor_homU] | apply IH].
      * constructor; [split; [reflexivity | apply s_xor_homU]|].
        constructor; [split; [reflexivity | apply s_setoff_homU] | constructor].
    + constructor; [split; [reflexivity | apply s_xor_homU]|].
      constructor; [split; [reflexivity | apply s_setoff_homU] | apply IH].
Qed.

Lemma emerge_from_hom : forall lP lB, Forall2 entry_homU lP lB -> forall cP cB', entry_homU cP cB' ->
  Forall2 entry_homU (emerge_from poly lP cP) (emerge_from bool lB cB').
Proof.
  intros lP lB H. induction H as [|a b lP lB [H1 H2] _ IH]; intros [oc fc] [oc' fc'] [K1 K2]; cbn [fst snd] in *; subst.
  - constructor; [split; [reflexivity | exact K2] | constructor].
  - cbn [emerge_from fst snd]. destruct a as [oa fa], b as [ob fb]. cbn [fst snd] in *. subst ob.
    destruct oc', oa; try (constructor; [split; [reflexivity | exact K2] | apply IH; split; [reflexivity | exact H2]]).
    apply IH. split; [reflexivity|]. apply (homU_compose fc fc' fa fb K2 H2).
Qed.
Theorem cspec_hom : forall sizes bs kn coff eoff ooff fno off size,
  Forall2 (entry_hom sizes) (cspec poly pxor pand pzero pone bs kn coff eoff ooff fno off size)
                            (cspec bool xorb andb false true bs kn coff eoff ooff fno off size).
Proof.
  intros. apply entry_homU_hom. unfold cspec, emerge.
  pose proof (cmicro_hom bs kn coff eoff ooff fno (S size) off size 0) as H.
  destruct H as [|a b lP lB Hab Hl]; [constructor | apply emerge_from_hom; assumption].
Qed.
Print Assumptions cspec_hom.

(* ================================================================================================== *)
(* the final form of a CTR obligation: the translated function, run by the reference interpreter under ANY interpretation  *)
(* cB of the procedure call, computes the specification program [cspec] (the procedure call executed as it stands)          *)
(* ================================================================================================== *)
Theorem pctr_final : forall fields code fuel pl sh pl' sh' c t sizes bs kn coff eoff ooff fno off size,
  fields_okb fields = true ->
  flat fields fuel pl sh code = Some (pl', sh', c, t) ->
  check_proc sizes c (cspec poly pxor pand pzero pone bs kn coff eoff ooff fno off size) = true ->
  forall (cB : nat -> list bool -> list bool) (m : mem bool), shaped sizes m -> Inv fields sh m ->
  interp fields cB fuel pl (m, []) code = Some (pl', execB cB c (m, []), t)
  /\ fst (execB cB c (m, [])) = mixed_sem cB (cmicroB bs kn coff eoff ooff fno (S size) off size 0) m.
Proof.
  intros fields code fuel pl sh pl' sh' c t sizes bs kn coff eoff ooff fno off size Hf Hfl Hk cB m Hm HI.
  destruct (fields_okb_sound fields Hf) as [Hd Hn]. split.
  - apply (interp_of_flat fields cB Hd Hn fuel code pl sh m pl' sh' c t HI Hfl).
  - rewrite (check_proc_sound sizes cB c _ _ (cspec_hom sizes bs kn coff eoff ooff fno off size) Hk m Hm).
    unfold cspec. apply emerge_sem.
Qed.
Print Assumptions pctr_final.
