(* KernelSpecs2.v — specification steps for the key-schedule loop bodies (set_tk1 / xor_tk1 / set_tk2 / set_tk3 of
   SKINNY-128 and SKINNY-64) and for the MANTIS forward / backward round bodies, on the IR's byte memory,
   polymorphic in the bit carrier.  Conventions as in KernelSpecs.v. *)
From Coq Require Import List Bool NArith Arith.
From Skinny Require Import Bits SpecSkinny SpecMantis IR KernelSpecs.
Import ListNotations.

Section Conv2.
  Variable B : Type.
  Variables (bx ba : B -> B -> B) (b0 b1 : B).
  Notation reg := (reg B).
  Notation c8b := (c8_of_bits B b0).

  (* replace bytes off .. off+|new|-1 of a region *)
  Definition splice (bytes : list (list B)) (off : nat) (new : list (list B)) : list (list B) :=
    firstn off bytes ++ new ++ skipn (off + length new) bytes.
  Definition half_bytes128 (h : row (c8 B) * row (c8 B)) : list (list B) :=
    map (bits_of_c8 B) (row_list (fst h) ++ row_list (snd h)).
  Definition half_bytes64 (h : row (c4 B) * row (c4 B)) : list (list B) :=
    map (bits_of_c8 B) (row_bytes64 B (fst h) ++ row_bytes64 B (snd h)).
  Definition hxor8 (a b : row (c8 B) * row (c8 B)) := (rx (c8 B) (cx8 B bx) (fst a) (fst b), rx (c8 B) (cx8 B bx) (snd a) (snd b)).
  Definition hxor4 (a b : row (c4 B) * row (c4 B)) := (rx (c4 B) (cx4 B bx) (fst a) (fst b), rx (c4 B) (cx4 B bx) (snd a) (snd b)).

  (* ---- key schedule bodies.  Regions: 0 = the local tweakey array tk (16 / 8 bytes), 1 = the head of the key
     schedule object up to and including slot 0: 16 bytes with the slot at offset 8 (SKINNY-128), 8 bytes with the
     slot at offset 4 (SKINNY-64); for set_tk1 region 2 = the round-constant byte rc ---- *)
  Definition k128_xor_body (next : state (c8 B) -> state (c8 B)) (m : mem B) : mem B :=
    let tk := state128_of_reg B b0 (reg m 0) in
    let slot := half128_of_reg B b0 (skipn 8 (reg m 1)) in
    [reg_of_state128 B (next tk); splice (reg m 1) 8 (half_bytes128 (hxor8 slot (rows01 (c8 B) tk)))].
  Definition k128_xor_tk1_body := k128_xor_body (next_tk1 (c8 B)).
  Definition k128_tk2_body := k128_xor_body (next_tk2 (c8 B) (L2_8 B bx)).
  Definition k128_tk3_body := k128_xor_body (next_tk3 (c8 B) (L3_8 B bx)).
  Definition k64_xor_body (next : state (c4 B) -> state (c4 B)) (m : mem B) : mem B :=
    let tk := state64_of_reg B b0 (reg m 0) in
    let slot := half64_of_reg B b0 (skipn 4 (reg m 1)) in
    [reg_of_state64 B (next tk); splice (reg m 1) 4 (half_bytes64 (hxor4 slot (rows01 (c4 B) tk)))].
  Definition k64_xor_tk1_body := k64_xor_body (next_tk1 (c4 B)).
  Definition k64_tk2_body := k64_xor_body (next_tk2 (c4 B) (L2_4 B bx)).
  Definition k64_tk3_body := k64_xor_body (next_tk3 (c4 B) (L3_4 B bx)).

  (* the 6-bit round-constant LFSR on the bits of the rc byte (least significant first):
     rc' = ((rc << 1) ^ ((rc >> 5) & 1) ^ ((rc >> 4) & 1) ^ 1) & 0x3f *)
  Definition rc_next_bits (l : list B) : list B :=
    let g i := nth i l b0 in [bx (bx (g 5) (g 4)) b1; g 0; g 1; g 2; g 3; g 4; b0; b0].
  (* what set_tk1 stores: rows 0-1 of tk, c0 = rc'[3..0] into cell (0,0), c1 = rc'[5..4] into cell (1,0), and for
     tweakable schedules the constant 2 into cell (0,2) *)
  Definition k128_tk1_body (tweaked : bool) (m : mem B) : mem B :=
    let tk := state128_of_reg B b0 (reg m 0) in
    let r := rc_next_bits (nth 0 (reg m 2) []) in
    let g i := nth i r b0 in
    let c0 : c8 B := (b0, b0, b0, b0, g 3, g 2, g 1, g 0) in
    let c1 : c8 B := (b0, b0, b0, b0, b0, b0, g 5, g 4) in
    let '(t0, t1) := rows01 (c8 B) tk in
    let '(a0, a1, a2, a3) := t0 in let '(d0, d1, d2, d3) := t1 in
    let a2' := if tweaked then cx8 B bx a2 (nib8 B b0 b1 false false true false) else a2 in
    [reg_of_state128 B (next_tk1 (c8 B) tk);
     splice (reg m 1) 8 (half_bytes128 ((cx8 B bx a0 c0, a1, a2', a3), (cx8 B bx d0 c1, d1, d2, d3)));
     [r]].
  Definition k64_tk1_body (tweaked : bool) (m : mem B) : mem B :=
    let tk := state64_of_reg B b0 (reg m 0) in
    let r := rc_next_bits (nth 0 (reg m 2) []) in
    let g i := nth i r b0 in
    let c0 : c4 B := (g 3, g 2, g 1, g 0) in
    let c1 : c4 B := (b0, b0, g 5, g 4) in
    let '(t0, t1) := rows01 (c4 B) tk in
    let '(a0, a1, a2, a3) := t0 in let '(d0, d1, d2, d3) := t1 in
    let a2' := if tweaked then cx4 B bx a2 (nib4 B b0 b1 false false true false) else a2 in
    [reg_of_state64 B (next_tk1 (c4 B) tk);
     splice (reg m 1) 4 (half_bytes64 ((cx4 B bx a0 c0, a1, a2', a3), (cx4 B bx d0 c1, d1, d2, d3)));
     [r]].

  (* ---- MANTIS round bodies.  Regions: 0 = tweak, 1 = state, 2 = the round constant of this round (8 bytes as
     they lie in the rc table), 3 = k1 ---- *)
  Notation st64 := (state64_of_reg B b0).
  Notation rg64 := (reg_of_state64 B).
  Notation sx4 := (sx (c4 B) (cx4 B bx)).
  Definition mk4 (a b c d : list (list B)) : mem B := [a; b; c; d].
  Definition km_h (m : mem B) : mem B := mk4 (rg64 (h_perm (c4 B) (st64 (reg m 0)))) (reg m 1) (reg m 2) (reg m 3).
  Definition km_h_inv (m : mem B) : mem B := mk4 (rg64 (h_perm_inv (c4 B) (st64 (reg m 0)))) (reg m 1) (reg m 2) (reg m 3).
  Definition km_sub (m : mem B) : mem B :=
    mk4 (reg m 0) (rg64 (smap (c4 B) (Sb0_ B bx ba b1) (st64 (reg m 1)))) (reg m 2) (reg m 3).
  (* forward: state := M (P (state ^ rc ^ k1 ^ tweak)) *)
  Definition km_fwd_linear (m : mem B) : mem B :=
    mk4 (reg m 0)
        (rg64 (mix (c4 B) (cx4 B bx) (permute_cells (c4 B)
           (sx4 (sx4 (st64 (reg m 1)) (st64 (reg m 2))) (sx4 (st64 (reg m 3)) (st64 (reg m 0)))))))
        (reg m 2) (reg m 3).
  (* backward: state := P^-1 (M state) ^ k1 ^ tweak ^ rc *)
  Definition km_bwd_linear (m : mem B) : mem B :=
    mk4 (reg m 0)
        (rg64 (sx4 (sx4 (permute_cells_inv (c4 B) (mix (c4 B) (cx4 B bx) (st64 (reg m 1))))
                        (sx4 (st64 (reg m 3)) (st64 (reg m 0)))) (st64 (reg m 2))))
        (reg m 2) (reg m 3).
End Conv2.
