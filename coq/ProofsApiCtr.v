(* ProofsApiCtr.v — the CTR / parallel results of ProofsCtr.v, ProofsSkinny.v and
   ProofsMantis.v lifted to the API step function of Api.v:
   C05 (stream refinement), C06 (back-end independence and the refutation of its
   unrestricted form), C07 (parallel = block by block), C03 (round trips through
   the parallel entry points, every accepted key length). *)
From Coq Require Import List Bool NArith Arith Lia.
From Skinny Require Import Bits SpecSkinny SpecMantis ModelCipher ModelCtr ModelCpu Api
  ProofsSkinny ProofsMantis ProofsCtr.
Import ListNotations.

(* ================================================================== *)
(* basic facts                                                         *)
(* ================================================================== *)
Lemma find_filter_other (id id' : N) (l : list (N * obj)) : id' <> id ->
  find (fun p => N.eqb (fst p) id') (filter (fun p => negb (N.eqb (fst p) id)) l)
  = find (fun p => N.eqb (fst p) id') l.
Proof.
  intros Hne. induction l as [|[i o] l IH]; [reflexivity|].
  cbn [filter find fst]. destruct (N.eqb_spec i id) as [->|Hi]; cbn [negb].
  - destruct (N.eqb_spec id id') as [E|_]; [congruence|exact IH].
  - cbn [find fst]. destruct (N.eqb i id'); [reflexivity|exact IH].
Qed.

Lemma lookup_store_same : forall w id o, lookup (store_obj w id o) id = Some o.
Proof.
  intros w id o. unfold lookup, store_obj. cbn [w_objs find fst].
  rewrite N.eqb_refl. reflexivity.
Qed.

Lemma lookup_store_other : forall w id id' o, id' <> id ->
  lookup (store_obj w id o) id' = lookup w id'.
Proof.
  intros w id id' o Hne. unfold lookup, store_obj. cbn [w_objs find fst].
  destruct (N.eqb_spec id id') as [E|_]; [congruence|].
  rewrite find_filter_other by exact Hne. reflexivity.
Qed.

Lemma store128_length s : length (store128 s) = 16.
Proof.
  destruct s as [[[[[[a ?] ?] ?] [[[b ?] ?] ?]] [[[c ?] ?] ?]] [[[d ?] ?] ?]]. reflexivity.
Qed.
Lemma store64_length s : length (store64 s) = 8.
Proof.
  destruct s as [[[[[[a ?] ?] ?] [[[b ?] ?] ?]] [[[c ?] ?] ?]] [[[d ?] ?] ?]]. reflexivity.
Qed.

Lemma m128_encrypt_length : forall ks blk, length (m128_encrypt ks blk) = 16.
Proof. intros ks blk. unfold m128_encrypt, ecb_encrypt. apply store128_length. Qed.
Lemma m128_decrypt_length : forall ks blk, length (m128_decrypt ks blk) = 16.
Proof. intros ks blk. unfold m128_decrypt, ecb_decrypt. apply store128_length. Qed.
Lemma m64_encrypt_length : forall ks blk, length (m64_encrypt ks blk) = 8.
Proof. intros ks blk. unfold m64_encrypt, ecb_encrypt. apply store64_length. Qed.
Lemma m64_decrypt_length : forall ks blk, length (m64_decrypt ks blk) = 8.
Proof. intros ks blk. unfold m64_decrypt, ecb_decrypt. apply store64_length. Qed.
Lemma mantis_crypt_length : forall ks blk, length (mantis_crypt ks blk) = 8.
Proof. intros ks blk. unfold mantis_crypt. apply store64_length. Qed.
Lemma mantis_crypt_tweaked_length : forall ks tw blk, length (mantis_crypt_tweaked ks tw blk) = 8.
Proof. intros ks tw blk. unfold mantis_crypt_tweaked. apply store64_length. Qed.

Lemma E128_length : forall t blk, length (E128 t blk) = 16.
Proof. intros t blk. apply m128_encrypt_length. Qed.
Lemma E64_length : forall t blk, length (E64 t blk) = 8.
Proof. intros t blk. apply m64_encrypt_length. Qed.

Lemma batch128_pos be : 0 < batch128 be.
Proof. destruct be; cbn; lia. Qed.
Lemma batch64_pos be : 0 < batch64 be.
Proof. destruct be; cbn; lia. Qed.

Lemma pad_to_self (d : list byte) : pad_to (length d) d = d.
Proof. apply ProofsSkinny.pad_to_id. reflexivity. Qed.

(* ================================================================== *)
(* run, one operation at a time                                        *)
(* ================================================================== *)
Definition run_step (acc : world * list (list event)) (o : op) : world * list (list event) :=
  let '(w', ev) := step (fst acc) o in (w', snd acc ++ [ev]).

Lemma run_step_eq w a o : run_step (w, a) o = (fst (step w o), a ++ [snd (step w o)]).
Proof. unfold run_step. cbn [fst snd]. destruct (step w o); reflexivity. Qed.

Lemma run_fold : forall ops w acc,
  fold_left run_step ops (w, acc) = (fst (run w ops), acc ++ snd (run w ops)).
Proof.
  unfold run. fold run_step.
  induction ops as [|o ops IH]; intros w acc.
  - cbn [fold_left fst snd]. rewrite List.app_nil_r. reflexivity.
  - cbn [fold_left]. rewrite !run_step_eq.
    rewrite (IH _ (acc ++ _)), (IH _ ([] ++ _)).
    cbn [fst snd app]. rewrite <- List.app_assoc. reflexivity.
Qed.

Lemma run_nil w : run w [] = (w, []).
Proof. reflexivity. Qed.

Lemma run_cons w o ops :
  run w (o :: ops) = (fst (run (fst (step w o)) ops), snd (step w o) :: snd (run (fst (step w o)) ops)).
Proof.
  unfold run at 1. fold run_step. cbn [fold_left]. rewrite run_step_eq, run_fold. reflexivity.
Qed.

(* ================================================================== *)
(* C05 / C06 at API level                                              *)
(* ================================================================== *)
(* A CTR data call as scripts issue it: buffer d, size = length d, output pointer non-NULL *)
Definition crypt_op (k : kind) (id : N) (d : list byte) : op :=
  OCrypt k (Some id) (Some d) (N.of_nat (length d)) false.

Definition ret_out (o : list byte) : list event := [ERetOut 1 o].

Lemma split_by_lengths {A} : forall (a b : list (list A)),
  concat a = concat b -> map (@length A) a = map (@length A) b -> a = b.
Proof.
  induction a as [|x a IH]; intros [|y b] Hc Hl; cbn in Hl; try discriminate; [reflexivity|].
  injection Hl as Hxy Hl. cbn [concat] in Hc.
  assert (Hx : x = y).
  { apply (f_equal (firstn (length x))) in Hc.
    rewrite firstn_app, Nat.sub_diag, firstn_O, app_nil_r, firstn_all in Hc.
    rewrite Hxy, firstn_app, Nat.sub_diag, firstn_O, app_nil_r, firstn_all in Hc. exact Hc. }
  subst y. apply app_inv_head in Hc. f_equal. now apply IH.
Qed.

Section CtrApi.
  Variable K : Type.
  Variable E : K -> list byte -> list byte.
  Variable bs : nat.
  Variable batch : backend -> nat.
  Variable wrap : ctrobj K -> obj.
  Variable kd : kind.
  Hypothesis Hbs : 0 < bs.
  Hypothesis Hbatch : forall be, 0 < batch be.
  Hypothesis HE : forall k blk, length (E k blk) = bs.
  Hypothesis Hstep : forall w id c inp size outnull, lookup w id = Some (wrap c) ->
    step w (OCrypt kd (Some id) inp size outnull) = ctr_crypt K E bs batch wrap w id c inp size outnull.

  Lemma step_crypt_op w id be n st d st' o :
    lookup w id = Some (wrap (CLive be n st)) -> crypt K E bs (batch be) st d = Some (st', o) ->
    step w (crypt_op kd id d) = (store_obj w id (wrap (CLive be n st')), [ERetOut 1 o]).
  Proof.
    intros Hl Hc. unfold crypt_op. rewrite (Hstep w id _ _ _ _ Hl). unfold ctr_crypt.
    rewrite Nat2N.id, pad_to_self, Hc. reflexivity.
  Qed.

  Lemma run_crypt_ops id be n : forall datas w st st' outs,
    lookup w id = Some (wrap (CLive be n st)) ->
    run_calls K E bs (batch be) st datas = Some (st', outs) ->
    exists w', run w (map (crypt_op kd id) datas) = (w', map (fun o => [ERetOut 1 o]) outs)
      /\ lookup w' id = Some (wrap (CLive be n st')).
  Proof.
    induction datas as [|d datas IH]; intros w st st' outs Hl Hr.
    - cbn [run_calls] in Hr. injection Hr as <- <-. exists w. split; [reflexivity|exact Hl].
    - cbn [run_calls] in Hr.
      destruct (crypt K E bs (batch be) st d) as [[st1 o]|] eqn:Hc; [|discriminate].
      destruct (run_calls K E bs (batch be) st1 datas) as [[st2 os]|] eqn:Hr2; [|discriminate].
      injection Hr as <- <-.
      destruct (IH (store_obj w id (wrap (CLive be n st1))) st1 st2 os
                  (lookup_store_same _ _ _) Hr2) as (w' & Hrun & Hl').
      exists w'. split; [|exact Hl'].
      cbn [map]. rewrite run_cons, (step_crypt_op w id be n st d st1 o Hl Hc).
      cbn [fst snd]. rewrite Hrun. reflexivity.
  Qed.

  Theorem api_ctr_stream_gen : forall w id be n st c0 (datas : list (list byte)),
    lookup w id = Some (wrap (CLive be n st)) -> fresh_at K bs (batch be) st c0 ->
    exists w' outs st',
      run w (map (crypt_op kd id) datas) = (w', map (fun o => [ERetOut 1 o]) outs)
      /\ concat outs = ctr_xor bs (E (c_key st)) c0 0 (concat datas)
      /\ map (@length byte) outs = map (@length byte) datas
      /\ lookup w' id = Some (wrap (CLive be n st')) /\ c_key st' = c_key st.
  Proof.
    intros w id be n st c0 datas Hl Hf.
    destruct (ctr_refinement K E bs (batch be) Hbs (Hbatch be) HE st c0 datas Hf)
      as (st' & outs & Hr & Hc & Hm & Hk).
    destruct (run_crypt_ops id be n datas w st st' outs Hl Hr) as (w' & Hrun & Hl').
    exists w', outs, st'. repeat split; assumption.
  Qed.

  Theorem api_ctr_backend_independent_gen : forall w1 w2 id be1 be2 n1 n2 st1 st2 c0 datas,
    lookup w1 id = Some (wrap (CLive be1 n1 st1)) -> lookup w2 id = Some (wrap (CLive be2 n2 st2)) ->
    c_key st1 = c_key st2 ->
    fresh_at K bs (batch be1) st1 c0 -> fresh_at K bs (batch be2) st2 c0 ->
    snd (run w1 (map (crypt_op kd id) datas)) = snd (run w2 (map (crypt_op kd id) datas)).
  Proof.
    intros w1 w2 id be1 be2 n1 n2 st1 st2 c0 datas L1 L2 Hk F1 F2.
    destruct (api_ctr_stream_gen w1 id be1 n1 st1 c0 datas L1 F1)
      as (w1' & o1 & s1 & R1 & C1 & M1 & _).
    destruct (api_ctr_stream_gen w2 id be2 n2 st2 c0 datas L2 F2)
      as (w2' & o2 & s2 & R2 & C2 & M2 & _).
    rewrite R1, R2. cbn [snd]. f_equal. apply split_by_lengths.
    - rewrite C1, C2, Hk. reflexivity.
    - rewrite M1, M2. reflexivity.
  Qed.
End CtrApi.

Lemma step_crypt128 : forall w id c inp size outnull, lookup w id = Some (OC128 c) ->
  step w (OCrypt C128 (Some id) inp size outnull)
  = ctr_crypt tks128 E128 16 batch128 OC128 w id c inp size outnull.
Proof. intros w id c inp size outnull H. unfold step. rewrite H. reflexivity. Qed.
Lemma step_crypt64 : forall w id c inp size outnull, lookup w id = Some (OC64 c) ->
  step w (OCrypt C64 (Some id) inp size outnull)
  = ctr_crypt tks64 E64 8 batch64 OC64 w id c inp size outnull.
Proof. intros w id c inp size outnull H. unfold step. rewrite H. reflexivity. Qed.
Lemma step_cryptm : forall w id c inp size outnull, lookup w id = Some (OMC c) ->
  step w (OCrypt MC (Some id) inp size outnull)
  = ctr_crypt mantis_ks mantis_crypt 8 batch64 OMC w id c inp size outnull.
Proof. intros w id c inp size outnull H. unfold step. rewrite H. reflexivity. Qed.

Theorem api_ctr128_stream : forall w id be n st c0 (datas : list (list byte)),
  lookup w id = Some (OC128 (CLive be n st)) -> fresh_at tks128 16 (batch128 be) st c0 ->
  exists w' outs st',
    run w (map (crypt_op C128 id) datas) = (w', map (fun o => [ERetOut 1 o]) outs)
    /\ concat outs = ctr_xor 16 (E128 (c_key st)) c0 0 (concat datas)
    /\ map (@length byte) outs = map (@length byte) datas
    /\ lookup w' id = Some (OC128 (CLive be n st')) /\ c_key st' = c_key st.
Proof.
  exact (api_ctr_stream_gen tks128 E128 16 batch128 OC128 C128 (Nat.lt_0_succ _)
           batch128_pos E128_length step_crypt128).
Qed.

Theorem api_ctr64_stream : forall w id be n st c0 (datas : list (list byte)),
  lookup w id = Some (OC64 (CLive be n st)) -> fresh_at tks64 8 (batch64 be) st c0 ->
  exists w' outs st',
    run w (map (crypt_op C64 id) datas) = (w', map (fun o => [ERetOut 1 o]) outs)
    /\ concat outs = ctr_xor 8 (E64 (c_key st)) c0 0 (concat datas)
    /\ map (@length byte) outs = map (@length byte) datas
    /\ lookup w' id = Some (OC64 (CLive be n st')) /\ c_key st' = c_key st.
Proof.
  exact (api_ctr_stream_gen tks64 E64 8 batch64 OC64 C64 (Nat.lt_0_succ _)
           batch64_pos E64_length step_crypt64).
Qed.

Theorem api_mctr_stream : forall w id be n st c0 (datas : list (list byte)),
  lookup w id = Some (OMC (CLive be n st)) -> fresh_at mantis_ks 8 (batch64 be) st c0 ->
  exists w' outs st',
    run w (map (crypt_op MC id) datas) = (w', map (fun o => [ERetOut 1 o]) outs)
    /\ concat outs = ctr_xor 8 (mantis_crypt (c_key st)) c0 0 (concat datas)
    /\ map (@length byte) outs = map (@length byte) datas
    /\ lookup w' id = Some (OMC (CLive be n st')) /\ c_key st' = c_key st.
Proof.
  exact (api_ctr_stream_gen mantis_ks mantis_crypt 8 batch64 OMC MC (Nat.lt_0_succ _)
           batch64_pos mantis_crypt_length step_cryptm).
Qed.

(* C06 at API level: the same calls on two objects served by different back ends give
   identical result lines, as long as both streams start from the same counter under
   the same key *)
Theorem api_ctr128_backend_independent : forall w1 w2 id be1 be2 n1 n2 st1 st2 c0 datas,
  lookup w1 id = Some (OC128 (CLive be1 n1 st1)) -> lookup w2 id = Some (OC128 (CLive be2 n2 st2)) ->
  c_key st1 = c_key st2 ->
  fresh_at tks128 16 (batch128 be1) st1 c0 -> fresh_at tks128 16 (batch128 be2) st2 c0 ->
  snd (run w1 (map (crypt_op C128 id) datas)) = snd (run w2 (map (crypt_op C128 id) datas)).
Proof.
  exact (api_ctr_backend_independent_gen tks128 E128 16 batch128 OC128 C128 (Nat.lt_0_succ _)
           batch128_pos E128_length step_crypt128).
Qed.

Theorem api_ctr64_backend_independent : forall w1 w2 id be1 be2 n1 n2 st1 st2 c0 datas,
  lookup w1 id = Some (OC64 (CLive be1 n1 st1)) -> lookup w2 id = Some (OC64 (CLive be2 n2 st2)) ->
  c_key st1 = c_key st2 ->
  fresh_at tks64 8 (batch64 be1) st1 c0 -> fresh_at tks64 8 (batch64 be2) st2 c0 ->
  snd (run w1 (map (crypt_op C64 id) datas)) = snd (run w2 (map (crypt_op C64 id) datas)).
Proof.
  exact (api_ctr_backend_independent_gen tks64 E64 8 batch64 OC64 C64 (Nat.lt_0_succ _)
           batch64_pos E64_length step_crypt64).
Qed.

Theorem api_mctr_backend_independent : forall w1 w2 id be1 be2 n1 n2 st1 st2 c0 datas,
  lookup w1 id = Some (OMC (CLive be1 n1 st1)) -> lookup w2 id = Some (OMC (CLive be2 n2 st2)) ->
  c_key st1 = c_key st2 ->
  fresh_at mantis_ks 8 (batch64 be1) st1 c0 -> fresh_at mantis_ks 8 (batch64 be2) st2 c0 ->
  snd (run w1 (map (crypt_op MC id) datas)) = snd (run w2 (map (crypt_op MC id) datas)).
Proof.
  exact (api_ctr_backend_independent_gen mantis_ks mantis_crypt 8 batch64 OMC MC (Nat.lt_0_succ _)
           batch64_pos mantis_crypt_length step_cryptm).
Qed.

(* ... and the unrestricted statement is false of the faithful model (and of the
   library): a key change in the middle of a batch makes the generic and the 128-bit
   SIMD back end continue at different counters. *)
Definition c06_world (be : backend) : world :=
  with_cpu (init_world {| has128 := true; has256 := true |}
              {| max_leaf := 13; l1_ecx := 0x7ffafbff%N; l1_edx := 0xbfebfbff%N; l7_ebx0 := 0x20%N;
                 l7_ebxN := 0; xcr0 := 7; oor_ebx := 0 |})
           (CpuPinned be).
Definition c06_witness : list op :=
  [ONew C128 1 byte0; OInit C128 (Some 1%N);
   OSetKey C128 (Some 1%N) (Some (zeros 16)) 16;
   OCrypt C128 (Some 1%N) (Some (zeros 1)) 1 false;   (* one byte: the generic back end has used block 0 only *)
   OSetKey C128 (Some 1%N) (Some (zeros 16)) 16;      (* "rekey" (same key is enough) without a counter set *)
   OCrypt C128 (Some 1%N) (Some (zeros 16)) 16 false].

(* the observation: the bytes returned by the last operation, and which back end served *)
Definition c06_obs (evs : list (list event)) : list N :=
  match nth 5 evs [] with
  | [ERetOut _ o] => Ns_of_bytes o
  | _ => []
  end.

Lemma c06_obs_def :
  c06_obs (snd (run (c06_world BDef) c06_witness))
  = [249; 89; 39; 191; 141; 146; 191; 241; 203; 7; 219; 137; 239; 41; 181; 242]%N.
Proof. vm_compute. reflexivity. Qed.

Lemma c06_obs_v128 :
  c06_obs (snd (run (c06_world BV128) c06_witness))
  = [211; 10; 210; 49; 0; 233; 53; 160; 109; 156; 189; 189; 2; 88; 118; 50]%N.
Proof. vm_compute. reflexivity. Qed.

(* the two objects really are served by different back ends *)
Lemma c06_backends :
  snd (run (c06_world BDef) (firstn 2 c06_witness ++ [OWhich C128 (Some 1%N)]))
  = [[]; [EAlloc 1; ERet 1]; [EWhich (Some BDef)]]
  /\ snd (run (c06_world BV128) (firstn 2 c06_witness ++ [OWhich C128 (Some 1%N)]))
  = [[]; [EAlloc 1; ERet 1]; [EWhich (Some BV128)]].
Proof. split; vm_compute; reflexivity. Qed.

Theorem c06_unrestricted_refuted :
  snd (run (c06_world BDef) c06_witness) <> snd (run (c06_world BV128) c06_witness).
Proof.
  intros H. apply (f_equal c06_obs) in H. rewrite c06_obs_def, c06_obs_v128 in H.
  discriminate H.
Qed.

(* ================================================================== *)
(* C07 at API level                                                    *)
(* ================================================================== *)
Lemma mod_of_nat_eqb a b : a mod b = 0 -> N.eqb (N.modulo (N.of_nat a) (N.of_nat b)) 0 = true.
Proof. intros H. rewrite <- Nat2N.inj_mod, H. reflexivity. Qed.

Lemma map_combine_diag {A B} (g : A -> B) : forall l : list A,
  map (fun p => g (snd p)) (combine l l) = map g l.
Proof. induction l as [|a l IH]; [reflexivity|]. cbn [combine map snd]. now rewrite IH. Qed.

Section ParApi.
  Variable K : Type.
  Variable bs : nat.
  Hypothesis Hbs : 0 < bs.

  Lemma par_run_ok w vt n (k : K) ps f tw data :
    0 < N.to_nat ps -> N.to_nat ps mod bs = 0 -> length data mod bs = 0 ->
    length tw = length data ->
    par_run K bs w (PObj vt (Some (n, k)) ps) (N.of_nat (length data)) f tw data
    = (w, [ERetOut 1 (concat (map (fun p => f k (fst p) (snd p))
                                  (combine (blocks bs tw) (blocks bs data))))]).
  Proof.
    intros Hp Hpm Hd Ht. unfold par_run.
    rewrite (mod_of_nat_eqb _ _ Hd). cbn [negb]. rewrite Nat2N.id.
    rewrite <- Ht at 1. rewrite !pad_to_self.
    rewrite (par_crypt_spec bs (f k) _ (N.to_nat ps) tw data Hbs Hp Hpm Hd Ht). reflexivity.
  Qed.

  Lemma par_run_ok_diag w vt n (k : K) ps (g : K -> list byte -> list byte) data :
    0 < N.to_nat ps -> N.to_nat ps mod bs = 0 -> length data mod bs = 0 ->
    par_run K bs w (PObj vt (Some (n, k)) ps) (N.of_nat (length data)) (fun ks _ b => g ks b) data data
    = (w, [ERetOut 1 (concat (map (g k) (blocks bs data)))]).
  Proof.
    intros Hp Hpm Hd. rewrite par_run_ok by auto. cbv beta.
    rewrite (map_combine_diag (g k)). reflexivity.
  Qed.
End ParApi.

Lemma psize128_ok ps : (ps = 64 \/ ps = 128)%N -> 0 < N.to_nat ps /\ N.to_nat ps mod 16 = 0.
Proof. intros [-> | ->]; split; try reflexivity; cbn; lia. Qed.
Lemma psize64_ok ps : ps = 64%N -> 0 < N.to_nat ps /\ N.to_nat ps mod 8 = 0.
Proof. intros ->; split; try reflexivity; cbn; lia. Qed.

Theorem api_par128_enc : forall w id vt n ks ps data,
  lookup w id = Some (OP128 (PObj vt (Some (n, ks)) ps)) -> (ps = 64 \/ ps = 128)%N ->
  length data mod 16 = 0 ->
  step w (OParEnc P128 (Some id) data (N.of_nat (length data)))
  = (w, [ERetOut 1 (concat (map (m128_encrypt ks) (blocks 16 data)))]).
Proof.
  intros w id vt n ks ps data Hl Hps Hd. destruct (psize128_ok ps Hps) as [Hp Hpm].
  unfold step. rewrite Hl.
  exact (par_run_ok_diag ks128 16 (Nat.lt_0_succ _) w vt n ks ps m128_encrypt data Hp Hpm Hd).
Qed.

Theorem api_par128_dec : forall w id vt n ks ps data,
  lookup w id = Some (OP128 (PObj vt (Some (n, ks)) ps)) -> (ps = 64 \/ ps = 128)%N ->
  length data mod 16 = 0 ->
  step w (OParDec P128 (Some id) data (N.of_nat (length data)))
  = (w, [ERetOut 1 (concat (map (m128_decrypt ks) (blocks 16 data)))]).
Proof.
  intros w id vt n ks ps data Hl Hps Hd. destruct (psize128_ok ps Hps) as [Hp Hpm].
  unfold step. rewrite Hl.
  exact (par_run_ok_diag ks128 16 (Nat.lt_0_succ _) w vt n ks ps m128_decrypt data Hp Hpm Hd).
Qed.

Theorem api_par64_enc : forall w id vt n ks ps data,
  lookup w id = Some (OP64 (PObj vt (Some (n, ks)) ps)) -> ps = 64%N ->
  length data mod 8 = 0 ->
  step w (OParEnc P64 (Some id) data (N.of_nat (length data)))
  = (w, [ERetOut 1 (concat (map (m64_encrypt ks) (blocks 8 data)))]).
Proof.
  intros w id vt n ks ps data Hl Hps Hd. destruct (psize64_ok ps Hps) as [Hp Hpm].
  unfold step. rewrite Hl.
  exact (par_run_ok_diag ks64 8 (Nat.lt_0_succ _) w vt n ks ps m64_encrypt data Hp Hpm Hd).
Qed.

Theorem api_par64_dec : forall w id vt n ks ps data,
  lookup w id = Some (OP64 (PObj vt (Some (n, ks)) ps)) -> ps = 64%N ->
  length data mod 8 = 0 ->
  step w (OParDec P64 (Some id) data (N.of_nat (length data)))
  = (w, [ERetOut 1 (concat (map (m64_decrypt ks) (blocks 8 data)))]).
Proof.
  intros w id vt n ks ps data Hl Hps Hd. destruct (psize64_ok ps Hps) as [Hp Hpm].
  unfold step. rewrite Hl.
  exact (par_run_ok_diag ks64 8 (Nat.lt_0_succ _) w vt n ks ps m64_decrypt data Hp Hpm Hd).
Qed.

Theorem api_mpar_crypt : forall w id vt n ks ps data tw,
  lookup w id = Some (OMP (PObj vt (Some (n, ks)) ps)) -> ps = 64%N ->
  length data mod 8 = 0 -> length tw = length data ->
  step w (OMParCrypt (Some id) data tw (N.of_nat (length data)))
  = (w, [ERetOut 1 (concat (map (fun p => mantis_crypt_tweaked ks (fst p) (snd p))
                                (combine (blocks 8 tw) (blocks 8 data))))]).
Proof.
  intros w id vt n ks ps data tw Hl Hps Hd Ht. destruct (psize64_ok ps Hps) as [Hp Hpm].
  unfold step. rewrite Hl.
  exact (par_run_ok mantis_ks 8 (Nat.lt_0_succ _) w vt n ks ps mantis_crypt_tweaked tw data
           Hp Hpm Hd Ht).
Qed.

(* ================================================================== *)
(* C03 at API level: round trips                                       *)
(* ================================================================== *)
Theorem m128_keyed_roundtrip : forall (ks : ks128) key (n : nat) ks', 16 <= n <= 48 ->
  length key = n -> length (ks_sched byte ks) = 56 ->
  m128_set_key ks (Some key) (N.of_nat n) = (1%N, ks') ->
  forall blk, length blk = 16 ->
    m128_decrypt ks' (m128_encrypt ks' blk) = blk /\ m128_encrypt ks' (m128_decrypt ks' blk) = blk.
Proof.
  intros ks key n ks' Hn Hl Hs Hk blk Hb.
  rewrite (m128_set_key_padding ks key n Hn Hl) in Hk.
  destruct (ceil_blocks 15 n 3 Hn) as (z & Hz & _ & Ez). rewrite Ez in Hk.
  destruct (m128_set_key_spec z ks (pad_to (16 * z) key) (in123 z Hz)
              (ProofsSkinny.pad_to_length _ _) Hs) as (ks2 & H1 & _ & _ & H4).
  rewrite H1 in Hk. injection Hk as <-.
  split.
  - destruct (H4 blk Hb) as [He _]. rewrite He.
    destruct (H4 (skinny128_enc z (pad_to (16 * z) key) blk)) as [_ Hd].
    { rewrite <- He. apply m128_encrypt_length. }
    rewrite Hd. now apply skinny128_dec_enc.
  - destruct (H4 blk Hb) as [_ Hd]. rewrite Hd.
    destruct (H4 (skinny128_dec z (pad_to (16 * z) key) blk)) as [He _].
    { rewrite <- Hd. apply m128_decrypt_length. }
    rewrite He. now apply skinny128_enc_dec.
Qed.

Theorem m64_keyed_roundtrip : forall (ks : ks64) key (n : nat) ks', 8 <= n <= 24 ->
  length key = n -> length (ks_sched nib ks) = 40 ->
  m64_set_key ks (Some key) (N.of_nat n) = (1%N, ks') ->
  forall blk, length blk = 8 ->
    m64_decrypt ks' (m64_encrypt ks' blk) = blk /\ m64_encrypt ks' (m64_decrypt ks' blk) = blk.
Proof.
  intros ks key n ks' Hn Hl Hs Hk blk Hb.
  rewrite (m64_set_key_padding ks key n Hn Hl) in Hk.
  destruct (ceil_blocks 7 n 3 Hn) as (z & Hz & _ & Ez). rewrite Ez in Hk.
  destruct (m64_set_key_spec z ks (pad_to (8 * z) key) (in123 z Hz)
              (ProofsSkinny.pad_to_length _ _) Hs) as (ks2 & H1 & _ & _ & H4).
  rewrite H1 in Hk. injection Hk as <-.
  split.
  - destruct (H4 blk Hb) as [He _]. rewrite He.
    destruct (H4 (skinny64_enc z (pad_to (8 * z) key) blk)) as [_ Hd].
    { rewrite <- He. apply m64_encrypt_length. }
    rewrite Hd. now apply skinny64_dec_enc.
  - destruct (H4 blk Hb) as [_ Hd]. rewrite Hd.
    destruct (H4 (skinny64_dec z (pad_to (8 * z) key) blk)) as [He _].
    { rewrite <- Hd. apply m64_decrypt_length. }
    rewrite He. now apply skinny64_enc_dec.
Qed.

Lemma blocks_single bs (a : list byte) : 0 < bs -> length a = bs -> blocks bs a = [a].
Proof.
  intros Hbs Ha. rewrite blocks_step; [|exact Hbs|intros ->; cbn in Ha; lia].
  rewrite firstn_all2, skipn_all2 by lia. reflexivity.
Qed.

Lemma blocks_of_concat bs : 0 < bs -> forall l : list (list byte),
  Forall (fun b => length b = bs) l -> blocks bs (concat l) = l.
Proof.
  intros Hbs l H. induction H as [|a l Ha _ IH]; [reflexivity|].
  cbn [concat]. rewrite (blocks_app bs Hbs 1 a (concat l)) by lia.
  rewrite (blocks_single bs a Hbs Ha), IH. reflexivity.
Qed.

Lemma map_id_Forall {A} (P : A -> Prop) (g : A -> A) : (forall x, P x -> g x = x) ->
  forall l, Forall P l -> map g l = l.
Proof.
  intros Hg l H. induction H as [|a l Ha _ IH]; [reflexivity|].
  cbn [map]. now rewrite (Hg a Ha), IH.
Qed.

Section ParRoundtrip.
  Variable bs : nat.
  Variables f g : list byte -> list byte.
  Hypothesis Hbs : 0 < bs.
  Hypothesis Hf : forall b, length (f b) = bs.
  Hypothesis Hgf : forall b, length b = bs -> g (f b) = b.

  Lemma par_roundtrip_gen data : length data mod bs = 0 ->
    concat (map g (blocks bs (concat (map f (blocks bs data))))) = data.
  Proof.
    intros Hd. destruct (blocks_length bs data Hbs Hd) as [HF _].
    rewrite (blocks_of_concat bs Hbs).
    - rewrite map_map, (map_id_Forall (fun b => length b = bs) (fun x => g (f x)) Hgf _ HF).
      now apply blocks_concat.
    - apply Forall_forall. intros x Hx. apply in_map_iff in Hx as (y & <- & _). apply Hf.
  Qed.
End ParRoundtrip.

Theorem par128_roundtrip : forall (ks : ks128) key (n : nat) ks' data, 16 <= n <= 48 ->
  length key = n -> length (ks_sched byte ks) = 56 ->
  m128_set_key ks (Some key) (N.of_nat n) = (1%N, ks') -> length data mod 16 = 0 ->
  concat (map (m128_decrypt ks') (blocks 16 (concat (map (m128_encrypt ks') (blocks 16 data))))) = data
  /\ concat (map (m128_encrypt ks') (blocks 16 (concat (map (m128_decrypt ks') (blocks 16 data))))) = data.
Proof.
  intros ks key n ks' data Hn Hl Hs Hk Hd.
  pose proof (m128_keyed_roundtrip ks key n ks' Hn Hl Hs Hk) as RT.
  split; apply par_roundtrip_gen; auto using m128_encrypt_length, m128_decrypt_length;
    try lia; intros b Hb; apply (RT b Hb).
Qed.

Theorem par64_roundtrip : forall (ks : ks64) key (n : nat) ks' data, 8 <= n <= 24 ->
  length key = n -> length (ks_sched nib ks) = 40 ->
  m64_set_key ks (Some key) (N.of_nat n) = (1%N, ks') -> length data mod 8 = 0 ->
  concat (map (m64_decrypt ks') (blocks 8 (concat (map (m64_encrypt ks') (blocks 8 data))))) = data
  /\ concat (map (m64_encrypt ks') (blocks 8 (concat (map (m64_decrypt ks') (blocks 8 data))))) = data.
Proof.
  intros ks key n ks' data Hn Hl Hs Hk Hd.
  pose proof (m64_keyed_roundtrip ks key n ks' Hn Hl Hs Hk) as RT.
  split; apply par_roundtrip_gen; auto using m64_encrypt_length, m64_decrypt_length;
    try lia; intros b Hb; apply (RT b Hb).
Qed.

(* MANTIS: the parallel entry point after a mode swap inverts the parallel entry point before it *)
Theorem mpar_roundtrip : forall (ks : mantis_ks) tw data, length data mod 8 = 0 ->
  length tw = length data ->
  let run_par k d := concat (map (fun p => mantis_crypt_tweaked k (fst p) (snd p))
                                 (combine (blocks 8 tw) (blocks 8 d))) in
  run_par (mantis_swap_modes ks) (run_par ks data) = data.
Proof.
  intros ks tw data Hd Ht run_par. subst run_par. cbv beta.
  assert (H8 : 0 < 8) by lia.
  assert (Htm : length tw mod 8 = 0) by now rewrite Ht.
  destruct (blocks_length 8 data H8 Hd) as [HFd HLd].
  destruct (blocks_length 8 tw H8 Htm) as [HFt HLt].
  rewrite (blocks_of_concat 8 H8).
  2:{ apply Forall_forall. intros x Hx. apply in_map_iff in Hx as (y & <- & _).
      apply mantis_crypt_tweaked_length. }
  rewrite <- (blocks_concat 8 data H8) at 2.
  assert (HL : length (blocks 8 tw) = length (blocks 8 data)) by now rewrite HLt, HLd, Ht.
  f_equal. revert HL HFd. generalize (blocks 8 data) as bd. generalize (blocks 8 tw) as bt.
  induction bt as [|t bt IH]; intros [|d bd] HL HF; cbn in HL; try discriminate; [reflexivity|].
  cbn [combine map fst snd]. inversion HF as [|? ? Hd1 HF']; subst. f_equal.
  - now apply crypt_tweaked_swap_inverse.
  - apply IH; [lia|exact HF'].
Qed.

Print Assumptions lookup_store_same.
Print Assumptions lookup_store_other.
Print Assumptions m128_encrypt_length.
Print Assumptions m128_decrypt_length.
Print Assumptions m64_encrypt_length.
Print Assumptions m64_decrypt_length.
Print Assumptions mantis_crypt_length.
Print Assumptions mantis_crypt_tweaked_length.
Print Assumptions api_ctr128_stream.
Print Assumptions api_ctr64_stream.
Print Assumptions api_mctr_stream.
Print Assumptions api_ctr128_backend_independent.
Print Assumptions api_ctr64_backend_independent.
Print Assumptions api_mctr_backend_independent.
Print Assumptions c06_backends.
Print Assumptions c06_unrestricted_refuted.
Print Assumptions api_par128_enc.
Print Assumptions api_par128_dec.
Print Assumptions api_par64_enc.
Print Assumptions api_par64_dec.
Print Assumptions api_mpar_crypt.
Print Assumptions m128_keyed_roundtrip.
Print Assumptions m64_keyed_roundtrip.
Print Assumptions par128_roundtrip.
Print Assumptions par64_roundtrip.
Print Assumptions mpar_roundtrip.
