(* Anf.v — algebraic normal form polynomials over GF(2), the symbolic carrier of a bit for the reflective
   checkers of IRCheck.v.  A monomial is the bit mask of its variables, a polynomial the list of its monomials
   (kept strictly increasing by the operations, but NO lemma below depends on that: the evaluation lemmas hold
   for arbitrary lists, so soundness of the checkers never relies on normal forms, only completeness does). *)
From Coq Require Import List Bool NArith Arith Lia.
Import ListNotations.

Definition mono := N.
Definition poly := list mono.
Definition pzero : poly := [].
Definition pone : poly := [0%N].
Definition pvar (i : nat) : poly := [N.shiftl 1 (N.of_nat i)].

(* symmetric difference of two sorted lists, by merging *)
Fixpoint pxor (a : poly) : poly -> poly :=
  match a with
  | [] => fun b => b
  | x :: a' =>
      fix aux (b : poly) : poly :=
        match b with
        | [] => a
        | y :: b' =>
            match N.compare x y with
            | Eq => pxor a' b'
            | Lt => x :: pxor a' b
            | Gt => y :: aux b'
            end
        end
  end.

Lemma pxor_nil_l : forall b, pxor [] b = b.
Proof. reflexivity. Qed.
Lemma pxor_nil_r : forall a, pxor a [] = a.
Proof. destruct a; reflexivity. Qed.
Lemma pxor_cons : forall x a y b,
  pxor (x :: a) (y :: b) =
  match N.compare x y with
  | Eq => pxor a b
  | Lt => x :: pxor a (y :: b)
  | Gt => y :: pxor (x :: a) b
  end.
Proof. reflexivity. Qed.

(* xor of a list of polynomials by a balanced tree of merges *)
Fixpoint merge_pairs (l : list poly) : list poly :=
  match l with
  | a :: b :: l' => pxor a b :: merge_pairs l'
  | _ => l
  end.
Fixpoint merge_all (fuel : nat) (l : list poly) : poly :=
  match fuel with
  | O => fold_right pxor [] l
  | S f => match l with
           | [] => []
           | [a] => a
           | _ => merge_all f (merge_pairs l)
           end
  end.
(* sort and cancel duplicates *)
Definition pnorm (l : list mono) : poly := merge_all (length l) (map (fun m => [m]) l).
(* multiply by one monomial *)
Definition pmul1 (m : mono) (b : poly) : poly :=
  match m with
  | N0 => b
  | _ => pnorm (map (N.lor m) b)
  end.
Definition pand (a b : poly) : poly :=
  match a, b with
  | [], _ => []
  | _, [] => []
  | _, _ => merge_all (length a) (map (fun m => pmul1 m b) a)
  end.

(* ---------- evaluation ---------- *)
Definition assignment := nat -> bool.

Fixpoint meval_pos (rho : assignment) (i : nat) (p : positive) : bool :=
  match p with
  | xH => rho i
  | xO p' => meval_pos rho (S i) p'
  | xI p' => rho i && meval_pos rho (S i) p'
  end.
Definition meval (rho : assignment) (m : mono) : bool :=
  match m with
  | N0 => true
  | Npos p => meval_pos rho 0 p
  end.
Fixpoint peval (rho : assignment) (p : poly) : bool :=
  match p with
  | [] => false
  | m :: p' => xorb (meval rho m) (peval rho p')
  end.

Lemma peval_pzero : forall rho, peval rho pzero = false.
Proof. reflexivity. Qed.
Lemma peval_pone : forall rho, peval rho pone = true.
Proof. reflexivity. Qed.

Lemma shiftl1_pos : forall rho i,
  exists p, N.shiftl 1 (N.of_nat i) = Npos p /\ forall k, meval_pos rho k p = rho (k + i).
Proof.
  intros rho i. induction i as [|i IH].
  - exists xH. split; [reflexivity|]. intros k. simpl. f_equal. lia.
  - destruct IH as [p [Hp Hk]].
    exists (xO p). split.
    + rewrite Nat2N.inj_succ, N.shiftl_succ_r, Hp. reflexivity.
    + intros k. simpl. rewrite Hk. f_equal. lia.
Qed.

Lemma meval_pvar : forall rho i, meval rho (N.shiftl 1 (N.of_nat i)) = rho i.
Proof.
  intros rho i. destruct (shiftl1_pos rho i) as [p [Hp Hk]].
  rewrite Hp. simpl. apply Hk.
Qed.
Lemma peval_pvar : forall rho i, peval rho (pvar i) = rho i.
Proof.
  intros rho i. unfold pvar. cbn [peval]. rewrite meval_pvar. apply xorb_false_r.
Qed.

Lemma peval_pxor : forall rho a b, peval rho (pxor a b) = xorb (peval rho a) (peval rho b).
Proof.
  intros rho a. induction a as [|x a IHa]; intros b.
  - simpl. destruct (peval rho b); reflexivity.
  - induction b as [|y b IHb].
    + rewrite pxor_nil_r. cbn [peval]. rewrite xorb_false_r. reflexivity.
    + rewrite pxor_cons. destruct (N.compare_spec x y) as [E|L|G].
      * subst y. rewrite IHa. cbn [peval].
        destruct (meval rho x), (peval rho a), (peval rho b); reflexivity.
      * cbn [peval]. rewrite IHa. cbn [peval].
        destruct (meval rho x), (meval rho y), (peval rho a), (peval rho b); reflexivity.
      * cbn [peval]. rewrite IHb. cbn [peval].
        destruct (meval rho x), (meval rho y), (peval rho a), (peval rho b); reflexivity.
Qed.

Lemma meval_pos_lor : forall rho p q i,
  meval_pos rho i (Pos.lor p q) = meval_pos rho i p && meval_pos rho i q.
Proof.
  intros rho p. induction p as [p IH|p IH|]; intros q i; destruct q as [q|q|]; simpl;
    try rewrite IH;
    destruct (rho i); simpl; try reflexivity;
    try (destruct (meval_pos rho (S i) p); simpl; try reflexivity;
         try (destruct (meval_pos rho (S i) q); reflexivity)).
  all: try (destruct (meval_pos rho (S i) q); reflexivity).
Qed.

Lemma meval_lor : forall rho m1 m2, meval rho (N.lor m1 m2) = andb (meval rho m1) (meval rho m2).
Proof.
  intros rho [|p] [|q]; simpl; try reflexivity.
  - symmetry. apply andb_true_r.
  - apply meval_pos_lor.
Qed.

(* xor of the values of a list of polynomials *)
Fixpoint psum_eval (rho : assignment) (l : list poly) : bool :=
  match l with
  | [] => false
  | a :: l' => xorb (peval rho a) (psum_eval rho l')
  end.

Lemma psum_eval_merge_pairs : forall rho l, psum_eval rho (merge_pairs l) = psum_eval rho l.
Proof.
  intros rho l.
  assert (H : psum_eval rho (merge_pairs l) = psum_eval rho l /\
              forall a, psum_eval rho (merge_pairs (a :: l)) = psum_eval rho (a :: l)).
  { induction l as [|b l [IH1 IH2]].
    - split; [reflexivity|]. intros a. reflexivity.
    - split; [apply IH2|]. intros a. cbn [merge_pairs psum_eval].
      rewrite peval_pxor, IH1. rewrite xorb_assoc. reflexivity. }
  apply H.
Qed.

Lemma peval_fold_pxor : forall rho l, peval rho (fold_right pxor [] l) = psum_eval rho l.
Proof.
  intros rho l. induction l as [|a l IH]; [reflexivity|].
  cbn [fold_right psum_eval]. rewrite peval_pxor, IH. reflexivity.
Qed.

Lemma peval_merge_all : forall rho fuel l, peval rho (merge_all fuel l) = psum_eval rho l.
Proof.
  intros rho fuel. induction fuel as [|f IH]; intros l.
  - apply peval_fold_pxor.
  - destruct l as [|a [|b l]].
    + reflexivity.
    + cbn [merge_all psum_eval]. rewrite xorb_false_r. reflexivity.
    + cbn [merge_all]. rewrite IH. apply psum_eval_merge_pairs.
Qed.

Lemma peval_pnorm : forall rho l, peval rho (pnorm l) = peval rho l.
Proof.
  intros rho l. unfold pnorm. rewrite peval_merge_all.
  induction l as [|m l IH]; [reflexivity|].
  cbn [map psum_eval peval]. rewrite IH, xorb_false_r. reflexivity.
Qed.

Lemma peval_map_lor : forall rho m b,
  peval rho (map (N.lor m) b) = meval rho m && peval rho b.
Proof.
  intros rho m b. induction b as [|x b IH].
  - simpl. symmetry. apply andb_false_r.
  - cbn [map peval]. rewrite IH, meval_lor.
    destruct (meval rho m), (meval rho x), (peval rho b); reflexivity.
Qed.

Lemma peval_pmul1 : forall rho m b, peval rho (pmul1 m b) = meval rho m && peval rho b.
Proof.
  intros rho m b. destruct m as [|p].
  - reflexivity.
  - unfold pmul1. rewrite peval_pnorm. apply peval_map_lor.
Qed.

Lemma psum_eval_pmul : forall rho a b,
  psum_eval rho (map (fun m => pmul1 m b) a) = peval rho a && peval rho b.
Proof.
  intros rho a b. induction a as [|x a IH]; [reflexivity|].
  cbn [map psum_eval peval]. rewrite IH, peval_pmul1.
  destruct (meval rho x), (peval rho a), (peval rho b); reflexivity.
Qed.

Lemma peval_pand : forall rho a b, peval rho (pand a b) = andb (peval rho a) (peval rho b).
Proof.
  intros rho a b. unfold pand. destruct a as [|x a]; [reflexivity|].
  destruct b as [|y b].
  - cbn [peval]. symmetry. apply andb_false_r.
  - rewrite peval_merge_all. apply psum_eval_pmul.
Qed.

(* ---------- decidable equality ---------- *)
Fixpoint list_eqb {A : Type} (eqb : A -> A -> bool) (a b : list A) : bool :=
  match a, b with
  | [], [] => true
  | x :: a', y :: b' => eqb x y && list_eqb eqb a' b'
  | _, _ => false
  end.
Lemma list_eqb_eq : forall {A : Type} (eqb : A -> A -> bool),
  (forall x y, eqb x y = true -> x = y) ->
  forall a b, list_eqb eqb a b = true -> a = b.
Proof.
  intros A eqb H a. induction a as [|x a IH]; intros [|y b] E; simpl in E; try discriminate.
  - reflexivity.
  - apply andb_true_iff in E. destruct E as [E1 E2].
    f_equal; [apply H, E1 | apply IH, E2].
Qed.
Lemma list_eqb_refl : forall {A : Type} (eqb : A -> A -> bool),
  (forall x, eqb x x = true) -> forall a, list_eqb eqb a a = true.
Proof.
  intros A eqb H a. induction a as [|x a IH]; simpl; [reflexivity|]. rewrite H, IH. reflexivity.
Qed.

Definition poly_eqb : poly -> poly -> bool := list_eqb N.eqb.
Lemma poly_eqb_eq : forall a b, poly_eqb a b = true -> a = b.
Proof. apply list_eqb_eq. intros x y H. apply N.eqb_eq, H. Qed.
Lemma poly_eqb_refl : forall a, poly_eqb a a = true.
Proof. apply list_eqb_refl. apply N.eqb_refl. Qed.

(* ---------- variable support ---------- *)
Definition agree_below (n : nat) (r1 r2 : assignment) := forall i, i < n -> r1 i = r2 i.

(* ---------- sanity tests ---------- *)
Example anf_test1 :
  pand (pxor (pvar 0) (pvar 1)) (pxor (pvar 0) pone) = pxor (pand (pvar 0) (pvar 1)) (pvar 1).
Proof. vm_compute. reflexivity. Qed.
Example anf_test2 : pxor (pand (pvar 3) (pvar 2)) (pand (pvar 2) (pvar 3)) = pzero.
Proof. vm_compute. reflexivity. Qed.
