(* ProofsApiHeap.v — heap discipline of the API model (properties C15, C16, C17):
   init/cleanup balance, inertness after cleanup or failed init, allocation
   failure, wipe-before-free, leak freedom. *)
From Coq Require Import List Bool NArith Arith Lia Permutation.
From Skinny Require Import Bits SpecSkinny SpecMantis ModelCipher ModelCtr ModelCpu Api.
Import ListNotations.

(* ------------------------------------------------------------------ *)
(* vocabulary                                                          *)
(* ------------------------------------------------------------------ *)

(* the heap block an object owns, if any *)
Definition owned (o : obj) : option N :=
  match o with
  | OC128 (CLive _ n _) | OC64 (CLive _ n _) | OMC (CLive _ n _) => Some n
  | OP128 (PObj _ (Some (n, _)) _) | OP64 (PObj _ (Some (n, _)) _)
  | OMP (PObj _ (Some (n, _)) _) => Some n
  | _ => None
  end.

Definition olist {A : Type} (o : option A) : list A :=
  match o with Some a => [a] | None => [] end.
Definition obind {A B : Type} (f : A -> option B) (o : option A) : option B :=
  match o with Some a => f a | None => None end.

Definition blocks_of (l : list (N * obj)) : list N :=
  flat_map (fun p => olist (owned (snd p))) l.
(* the blocks owned by the objects bound in w_objs, one entry per binding *)
Definition owned_blocks (w : world) : list N := blocks_of (w_objs w).

Definition obj_kind (o : obj) : kind :=
  match o with
  | OK128 _ => K128 | OT128 _ => T128 | OK64 _ => K64 | OT64 _ => T64 | OMK _ => MK
  | OC128 _ => C128 | OC64 _ => C64 | OMC _ => MC
  | OP128 _ => P128 | OP64 _ => P64 | OMP _ => MP
  end.
Definition obj_has_kind (o : obj) (k : kind) : Prop := obj_kind o = k.

Definition ctr_kind (k : kind) : Prop := k = C128 \/ k = C64 \/ k = MC.
Definition par_kind (k : kind) : Prop := k = P128 \/ k = P64 \/ k = MP.
(* the kinds that have init / cleanup *)
Definition heap_kind (k : kind) : Prop := ctr_kind k \/ par_kind k.

(* inert: vtable NULL (CTR) / ctx NULL (parallel) *)
Definition is_inert (o : obj) : bool :=
  match o with
  | OC128 CNull | OC64 CNull | OMC CNull => true
  | OP128 (PObj _ None _) | OP64 (PObj _ None _) | OMP (PObj _ None _) => true
  | _ => false
  end.
Definition is_live_owning (o : obj) (n : N) : Prop := owned o = Some n.

(* id is bound in w to an inert object of kind k *)
Definition inert_at (w : world) (id : N) (k : kind) : Prop :=
  exists o, lookup w id = Some o /\ obj_has_kind o k /\ is_inert o = true.
(* id is bound in w to a live object of kind k owning block n *)
Definition live_at (w : world) (id : N) (k : kind) (n : N) : Prop :=
  exists o, lookup w id = Some o /\ obj_has_kind o k /\ is_live_owning o n.

Lemma inert_heap_kind : forall o, is_inert o = true -> heap_kind (obj_kind o).
Proof.
  unfold heap_kind, ctr_kind, par_kind.
  intros [| | | | |c|c|c|p|p|p] H; try discriminate H; cbn; tauto.
Qed.
Lemma inert_owns_nothing : forall o, is_inert o = true -> owned o = None.
Proof.
  intros [| | | | |[]|[]|[]|[|? [[]|] ?]|[|? [[]|] ?]|[|? [[]|] ?]] H;
    try discriminate H; reflexivity.
Qed.
Lemma owning_heap_kind : forall o n, owned o = Some n -> heap_kind (obj_kind o).
Proof.
  unfold heap_kind, ctr_kind, par_kind.
  intros [| | | | |c|c|c|p|p|p] n H; try discriminate H; cbn; tauto.
Qed.

(* a history is disciplined when it never initialises an object that currently
   owns a block and never re-creates an id whose object currently owns a block *)
Definition owns_nothing (w : world) (id : N) : bool :=
  match obind owned (lookup w id) with Some _ => false | None => true end.
Definition disciplined (w : world) (o : op) : bool :=
  match o with
  | ONew _ id _ => owns_nothing w id
  | OInit _ (Some id) => owns_nothing w id
  | _ => true
  end.
Fixpoint disciplined_history (w : world) (ops : list op) : Prop :=
  match ops with
  | [] => True
  | o :: r => disciplined w o = true /\ disciplined_history (fst (step w o)) r
  end.

(* Invariant: ids unique; h_live duplicate free; live blocks below h_next;
   owned blocks pairwise distinct; live blocks = owned blocks up to order *)
Definition HeapInv (w : world) : Prop :=
  NoDup (map fst (w_objs w)) /\
  NoDup (h_live (w_heap w)) /\
  (forall n, In n (h_live (w_heap w)) -> (n < h_next (w_heap w))%N) /\
  NoDup (owned_blocks w) /\
  Permutation (owned_blocks w) (h_live (w_heap w)).

(* ------------------------------------------------------------------ *)
(* association-list facts                                              *)
(* ------------------------------------------------------------------ *)
Definition rest (l : list (N * obj)) (id : N) : list (N * obj) :=
  filter (fun p => negb (N.eqb (fst p) id)) l.
Definition lookupl (l : list (N * obj)) (id : N) : option obj :=
  match find (fun p => N.eqb (fst p) id) l with
  | Some p => Some (snd p)
  | None => None
  end.

Lemma lookup_store_same : forall w id o, lookup (store_obj w id o) id = Some o.
Proof.
  intros. unfold lookup, store_obj. cbn [w_objs find fst snd].
  rewrite N.eqb_refl. reflexivity.
Qed.
Lemma lookup_store_other : forall w id id' o, id' <> id ->
  lookup (store_obj w id o) id' = lookup w id'.
Proof.
  intros w id id' o Hne. unfold lookup, store_obj. cbn [w_objs find fst snd].
  destruct (N.eqb id id') eqn:E; [apply N.eqb_eq in E; congruence|].
  induction (w_objs w) as [|[i ob] l IH]; [reflexivity|].
  cbn [filter find fst]. destruct (N.eqb i id) eqn:E1; cbn [negb].
  - destruct (N.eqb i id') eqn:E2.
    + apply N.eqb_eq in E1, E2. congruence.
    + exact IH.
  - cbn [find fst]. destruct (N.eqb i id'); [reflexivity|exact IH].
Qed.

Lemma rest_notin : forall l id, ~ In id (map fst l) -> rest l id = l.
Proof.
  induction l as [|[i ob] l IH]; intros id H; [reflexivity|].
  cbn in H. unfold rest. cbn [filter fst].
  destruct (N.eqb i id) eqn:E.
  - apply N.eqb_eq in E. tauto.
  - cbn [negb]. f_equal. apply IH. tauto.
Qed.
Lemma rest_ids_in : forall l id i, In i (map fst (rest l id)) -> In i (map fst l) /\ i <> id.
Proof.
  intros l id i H. apply in_map_iff in H. destruct H as ([i' ob] & <- & H).
  apply filter_In in H. destruct H as [H1 H2]. cbn [fst] in *. split.
  - apply in_map_iff. exists (i', ob). split; [reflexivity|assumption].
  - intros ->. rewrite N.eqb_refl in H2. discriminate.
Qed.
Lemma rest_ids_nodup : forall l id, NoDup (map fst l) -> NoDup (map fst (rest l id)).
Proof.
  induction l as [|[i ob] l IH]; intros id H; [constructor|].
  cbn [map fst] in H. apply NoDup_cons_iff in H. destruct H as [H1 H2].
  unfold rest. cbn [filter fst]. destruct (negb (N.eqb i id)).
  - cbn [map fst]. constructor; [|apply IH; assumption].
    intros C. apply rest_ids_in in C. tauto.
  - apply IH; assumption.
Qed.
Lemma store_ids_nodup : forall l id o, NoDup (map fst l) ->
  NoDup (map fst ((id, o) :: rest l id)).
Proof.
  intros. cbn [map fst]. constructor.
  - intros C. apply rest_ids_in in C. tauto.
  - apply rest_ids_nodup. assumption.
Qed.

(* with unique ids, the owned blocks split into id's contribution and the rest *)
Lemma blocks_split : forall l id, NoDup (map fst l) ->
  Permutation (blocks_of l) (olist (obind owned (lookupl l id)) ++ blocks_of (rest l id)).
Proof.
  induction l as [|[i ob] l IH]; intros id H; [apply Permutation_refl|].
  cbn [map fst] in H. apply NoDup_cons_iff in H. destruct H as [H1 H2].
  unfold lookupl, rest, blocks_of. cbn [find filter fst flat_map snd].
  destruct (N.eqb i id) eqn:E; cbn [negb snd obind].
  - apply N.eqb_eq in E. subst i.
    fold (rest l id). rewrite (rest_notin l id H1). apply Permutation_refl.
  - cbn [flat_map snd]. fold (rest l id). fold (blocks_of l). fold (blocks_of (rest l id)).
    fold (lookupl l id).
    eapply Permutation_trans; [apply Permutation_app_head; apply (IH id H2)|].
    apply Permutation_app_swap_app.
Qed.

Lemma lookup_lookupl : forall w id, lookup w id = lookupl (w_objs w) id.
Proof. reflexivity. Qed.
Lemma owned_blocks_store : forall w h id o,
  owned_blocks (store_obj (with_heap w h) id o) = olist (owned o) ++ blocks_of (rest (w_objs w) id).
Proof. reflexivity. Qed.
Lemma owned_blocks_store' : forall w id o,
  owned_blocks (store_obj w id o) = olist (owned o) ++ blocks_of (rest (w_objs w) id).
Proof. reflexivity. Qed.

Lemma lookup_owned_in : forall w id o n, lookup w id = Some o -> owned o = Some n ->
  In n (owned_blocks w).
Proof.
  intros w id o n L Ho. unfold lookup in L.
  destruct (find _ (w_objs w)) as [p|] eqn:F; [|discriminate].
  injection L as <-. apply find_some in F. destruct F as [F _].
  unfold owned_blocks, blocks_of. apply in_flat_map. exists p. split; [assumption|].
  rewrite Ho. left. reflexivity.
Qed.

Lemma perm_filter : forall (A : Type) (f : A -> bool) l l',
  Permutation l l' -> Permutation (filter f l) (filter f l').
Proof.
  intros A f l l' P. induction P; cbn [filter].
  - constructor.
  - destruct (f x); [constructor|]; assumption.
  - destruct (f x), (f y); try apply Permutation_refl. apply perm_swap.
  - eapply Permutation_trans; eassumption.
Qed.
Lemma filter_ne_notin : forall l n, ~ In n l -> filter (fun m => negb (N.eqb m n)) l = l.
Proof.
  induction l as [|a l IH]; intros n H; [reflexivity|].
  cbn in H. cbn [filter]. destruct (N.eqb a n) eqn:E.
  - apply N.eqb_eq in E. tauto.
  - cbn [negb]. f_equal. apply IH. tauto.
Qed.
Lemma filter_ne_not_in : forall l n, ~ In n (filter (fun m => negb (N.eqb m n)) l).
Proof.
  intros l n H. apply filter_In in H. destruct H as [_ H].
  rewrite N.eqb_refl in H. discriminate.
Qed.

(* ------------------------------------------------------------------ *)
(* generic facts about the CTR plumbing                                *)
(* ------------------------------------------------------------------ *)
Definition cown {K : Type} (c : ctrobj K) : option N :=
  match c with CLive _ n _ => Some n | _ => None end.
Definition pown {K : Type} (p : parobj K) : option N :=
  match p with PObj _ (Some (n, _)) _ => Some n | _ => None end.
(* what a failed parallel init leaves behind *)
Definition par_inert {K : Type} (p : parobj K) : parobj K :=
  match p with
  | PJunk f => PObj BDef None (word64_of_fill f)
  | PObj _ _ ps => PObj BDef None ps
  end.

Definition heap_failed (h : heap) : heap :=
  {| h_next := h_next h; h_live := h_live h; h_fail := 0 |}.
Definition heap_alloced (h : heap) : heap :=
  {| h_next := N.succ (h_next h); h_live := h_next h :: h_live h; h_fail := N.pred (h_fail h) |}.

Lemma alloc_fail : forall h, h_fail h = 1%N -> alloc h = (None, heap_failed h, [EAllocFail]).
Proof. intros h H. unfold alloc. rewrite H. reflexivity. Qed.
Lemma alloc_ok : forall h, h_fail h <> 1%N ->
  alloc h = (Some (h_next h), heap_alloced h, [EAlloc (h_next h)]).
Proof.
  intros h H. unfold alloc. destruct (N.eqb (h_fail h) 1) eqn:E; [|reflexivity].
  apply N.eqb_eq in E. contradiction.
Qed.

Section CtrGeneric.
  Variable K : Type.
  Variable bs : nat.
  Variable batch : backend -> nat.
  Variable wide : bool.
  Variable zero_key : K.
  Variable wrap : ctrobj K -> obj.

  Lemma ctr_init_fail_eq : forall w id, h_fail (w_heap w) = 1%N ->
    ctr_init K bs batch wide zero_key wrap w id =
    (store_obj (with_heap w (heap_failed (w_heap w))) id (wrap CNull), [EAllocFail; ERet 0]).
  Proof. intros w id H. unfold ctr_init. rewrite (alloc_fail _ H). reflexivity. Qed.

  Lemma ctr_init_ok_eq : forall w id, h_fail (w_heap w) <> 1%N ->
    exists be st,
    ctr_init K bs batch wide zero_key wrap w id =
    (store_obj (with_heap w (heap_alloced (w_heap w))) id (wrap (CLive be (h_next (w_heap w)) st)),
     [EAlloc (h_next (w_heap w)); ERet 1]).
  Proof.
    intros w id H. unfold ctr_init. rewrite (alloc_ok _ H).
    eexists. eexists. reflexivity.
  Qed.
End CtrGeneric.

Section ParGeneric.
  Variable K : Type.
  Variable wide : bool.
  Variable zero_key : K.
  Variable wrap : parobj K -> obj.

  Lemma par_init_fail_eq : forall w id old, h_fail (w_heap w) = 1%N ->
    par_init K wide zero_key wrap w id old =
    (store_obj (with_heap w (heap_failed (w_heap w))) id (wrap (par_inert old)),
     [EAllocFail; ERet 0]).
  Proof.
    intros w id old H. unfold par_init. rewrite (alloc_fail _ H).
    destruct old; reflexivity.
  Qed.

  Lemma par_init_ok_eq : forall w id old, h_fail (w_heap w) <> 1%N ->
    exists be ps,
    par_init K wide zero_key wrap w id old =
    (store_obj (with_heap w (heap_alloced (w_heap w))) id
               (wrap (PObj be (Some (h_next (w_heap w), zero_key)) ps)),
     [EAlloc (h_next (w_heap w)); ERet 1]).
  Proof.
    intros w id old H. unfold par_init. rewrite (alloc_ok _ H).
    eexists. eexists. reflexivity.
  Qed.
End ParGeneric.

(* ------------------------------------------------------------------ *)
(* C15: cleanup of NULL / inert objects does nothing                   *)
(* ------------------------------------------------------------------ *)
Theorem cleanup_inert_noop : forall w k ob,
  (ob = None \/ exists id, ob = Some id /\ inert_at w id k) ->
  step w (OCleanup k ob) = (w, [EDone]).
Proof.
  intros w k ob [->|(id & -> & o & L & Hk & Hi)]; [reflexivity|].
  unfold obj_has_kind in Hk. subst k.
  destruct o as [| | | | |[]|[]|[]|[|? [[]|] ?]|[|? [[]|] ?]|[|? [[]|] ?]];
    try discriminate Hi; cbn [step obj_kind]; rewrite L; reflexivity.
Qed.

(* cleanup makes the object inert and releases its block; a second cleanup is a no-op *)
Theorem cleanup_releases : forall w k id n, live_at w id k n ->
  exists w', step w (OCleanup k (Some id)) = (w', [EFree n true; EDone]) /\
             inert_at w' id k /\
             h_live (w_heap w') = filter (fun m => negb (N.eqb m n)) (h_live (w_heap w)) /\
             h_next (w_heap w') = h_next (w_heap w) /\
             step w' (OCleanup k (Some id)) = (w', [EDone]).
Proof.
  intros w k id n (o & L & Hk & Ho). unfold obj_has_kind in Hk. subst k.
  unfold is_live_owning in Ho.
  assert (forall w' o', w' = store_obj (with_heap w (release (w_heap w) n)) id o' ->
            obj_kind o' = obj_kind o -> is_inert o' = true ->
            inert_at w' id (obj_kind o) /\
            h_live (w_heap w') = filter (fun m => negb (N.eqb m n)) (h_live (w_heap w)) /\
            h_next (w_heap w') = h_next (w_heap w) /\
            step w' (OCleanup (obj_kind o) (Some id)) = (w', [EDone])) as Fin.
  { intros w' o' -> Hk' Hi'.
    assert (inert_at (store_obj (with_heap w (release (w_heap w) n)) id o') id (obj_kind o)) as I.
    { exists o'. split; [apply lookup_store_same|]. split; assumption. }
    split; [exact I|]. split; [reflexivity|]. split; [reflexivity|].
    apply cleanup_inert_noop. right. exists id. split; [reflexivity|exact I]. }
  destruct o as [| | | | |[]|[]|[]|[|? [[]|] ?]|[|? [[]|] ?]|[|? [[]|] ?]];
    try discriminate Ho; injection Ho as ->; cbn [step obj_kind]; rewrite L;
    (eexists; split; [reflexivity|]; eapply Fin; reflexivity).
Qed.

(* ------------------------------------------------------------------ *)
(* C16: allocation failure inside init                                 *)
(* ------------------------------------------------------------------ *)
Theorem init_alloc_failure : forall w k id o,
  lookup w id = Some o -> obj_has_kind o k -> heap_kind k ->
  h_fail (w_heap w) = 1%N ->
  exists w', step w (OInit k (Some id)) = (w', [EAllocFail; ERet 0])
    /\ h_live (w_heap w') = h_live (w_heap w)
    /\ h_next (w_heap w') = h_next (w_heap w)
    /\ h_fail (w_heap w') = 0%N
    /\ inert_at w' id k
    /\ step w' (OCleanup k (Some id)) = (w', [EDone]).
Proof.
  intros w k id o L Hk Hh Hf. unfold obj_has_kind in Hk. subst k.
  assert (forall w' o', w' = store_obj (with_heap w (heap_failed (w_heap w))) id o' ->
            obj_kind o' = obj_kind o -> is_inert o' = true ->
            h_live (w_heap w') = h_live (w_heap w)
            /\ h_next (w_heap w') = h_next (w_heap w)
            /\ h_fail (w_heap w') = 0%N
            /\ inert_at w' id (obj_kind o)
            /\ step w' (OCleanup (obj_kind o) (Some id)) = (w', [EDone])) as Fin.
  { intros w' o' -> Hk' Hi'.
    assert (inert_at (store_obj (with_heap w (heap_failed (w_heap w))) id o') id (obj_kind o)) as I.
    { exists o'. split; [apply lookup_store_same|]. split; assumption. }
    split; [reflexivity|]. split; [reflexivity|]. split; [reflexivity|]. split; [exact I|].
    apply cleanup_inert_noop. right. exists id. split; [reflexivity|exact I]. }
  unfold heap_kind, ctr_kind, par_kind in Hh.
  destruct o as [| | | | |c|c|c|p|p|p]; cbn [obj_kind] in *;
    try (exfalso; intuition discriminate); cbn [step]; rewrite L.
  1-3: rewrite ctr_init_fail_eq by assumption;
       (eexists; split; [reflexivity|]; eapply Fin; reflexivity).
  all: rewrite par_init_fail_eq by assumption;
       (eexists; split; [reflexivity|]; eapply Fin; [reflexivity|reflexivity|destruct p; reflexivity]).
Qed.

(* every int-returning call on an inert object returns 0 and changes nothing *)
Theorem inert_object_rejects : forall w k id, inert_at w id k ->
  (In k [C128; C64; P128; P64] ->
     forall key size, step w (OSetKey k (Some id) key size) = (w, [ERet 0])) /\
  (In k [C128; C64] ->
     forall key size, step w (OSetTweakedKey k (Some id) key size) = (w, [ERet 0])) /\
  (In k [C128; C64; MC] ->
     forall tw size, step w (OSetTweak k (Some id) tw size) = (w, [ERet 0])) /\
  (In k [MC; MP] ->
     forall key size rounds mode,
       step w (OMSetKey k (Some id) key size rounds mode) = (w, [ERet 0])) /\
  (In k [C128; C64; MC] ->
     forall c size, step w (OSetCtr k (Some id) c size) = (w, [ERet 0])) /\
  (In k [C128; C64; MC] ->
     forall inp size outnull, step w (OCrypt k (Some id) inp size outnull) = (w, [ERet 0])) /\
  (In k [P128; P64] ->
     forall data size, step w (OParEnc k (Some id) data size) = (w, [ERet 0])) /\
  (In k [P128; P64] ->
     forall data size, step w (OParDec k (Some id) data size) = (w, [ERet 0])) /\
  (k = MP ->
     forall data tw size, step w (OMParCrypt (Some id) data tw size) = (w, [ERet 0])).
Proof.
  intros w k id (o & L & Hk & Hi). unfold obj_has_kind in Hk. subst k.
  destruct o as [| | | | |[]|[]|[]|[|? [[]|] ?]|[|? [[]|] ?]|[|? [[]|] ?]];
    try discriminate Hi; cbn [obj_kind];
    repeat split; intros Hin; intros;
    first [ cbn [step]; rewrite L; reflexivity
          | exfalso; cbn in Hin; intuition discriminate
          | discriminate Hin ].
Qed.

(* the separate conjuncts, for convenience *)
Theorem inert_rejects_set_key : forall w k id, inert_at w id k ->
  In k [C128; C64; P128; P64] ->
  forall key size, step w (OSetKey k (Some id) key size) = (w, [ERet 0]).
Proof. intros w k id H. apply (inert_object_rejects w k id H). Qed.
Theorem inert_rejects_set_tweaked_key : forall w k id, inert_at w id k ->
  In k [C128; C64] ->
  forall key size, step w (OSetTweakedKey k (Some id) key size) = (w, [ERet 0]).
Proof. intros w k id H. apply (inert_object_rejects w k id H). Qed.
Theorem inert_rejects_set_tweak : forall w k id, inert_at w id k ->
  In k [C128; C64; MC] ->
  forall tw size, step w (OSetTweak k (Some id) tw size) = (w, [ERet 0]).
Proof. intros w k id H. apply (inert_object_rejects w k id H). Qed.
Theorem inert_rejects_mantis_set_key : forall w k id, inert_at w id k ->
  In k [MC; MP] ->
  forall key size rounds mode,
    step w (OMSetKey k (Some id) key size rounds mode) = (w, [ERet 0]).
Proof. intros w k id H. apply (inert_object_rejects w k id H). Qed.
Theorem inert_rejects_set_counter : forall w k id, inert_at w id k ->
  In k [C128; C64; MC] ->
  forall c size, step w (OSetCtr k (Some id) c size) = (w, [ERet 0]).
Proof. intros w k id H. apply (inert_object_rejects w k id H). Qed.
Theorem inert_rejects_crypt : forall w k id, inert_at w id k ->
  In k [C128; C64; MC] ->
  forall inp size outnull, step w (OCrypt k (Some id) inp size outnull) = (w, [ERet 0]).
Proof. intros w k id H. apply (inert_object_rejects w k id H). Qed.
Theorem inert_rejects_par_encrypt : forall w k id, inert_at w id k ->
  In k [P128; P64] ->
  forall data size, step w (OParEnc k (Some id) data size) = (w, [ERet 0]).
Proof. intros w k id H. apply (inert_object_rejects w k id H). Qed.
Theorem inert_rejects_par_decrypt : forall w k id, inert_at w id k ->
  In k [P128; P64] ->
  forall data size, step w (OParDec k (Some id) data size) = (w, [ERet 0]).
Proof. intros w k id H. apply (inert_object_rejects w k id H). Qed.
Theorem inert_rejects_mantis_par_crypt : forall w id, inert_at w id MP ->
  forall data tw size, step w (OMParCrypt (Some id) data tw size) = (w, [ERet 0]).
Proof. intros w id H. apply (inert_object_rejects w MP id H). reflexivity. Qed.

(* ------------------------------------------------------------------ *)
(* the shape of a step, as far as objects and heap are concerned       *)
(* ------------------------------------------------------------------ *)
Definition nofree (ev : list event) : bool :=
  forallb (fun e => match e with EFree _ _ => false | _ => true end) ev.
Lemma nofree_spec : forall ev n z, nofree ev = true -> ~ In (EFree n z) ev.
Proof.
  intros ev n z H C. unfold nofree in H. rewrite forallb_forall in H.
  apply H in C. discriminate.
Qed.

Inductive shape (w : world) (o : op) : world * list event -> Prop :=
| SS_same : forall w' ev,
    w_objs w' = w_objs w ->
    h_live (w_heap w') = h_live (w_heap w) ->
    h_next (w_heap w') = h_next (w_heap w) ->
    nofree ev = true ->
    shape w o (w', ev)
| SS_upd : forall id old o' ev,
    lookup w id = Some old -> owned o' = owned old -> nofree ev = true ->
    shape w o (store_obj w id o', ev)
| SS_new : forall k id f,
    o = ONew k id f ->
    shape w o (store_obj w id (new_obj k f), [])
| SS_init_fail : forall k id old o',
    o = OInit k (Some id) -> lookup w id = Some old ->
    h_fail (w_heap w) = 1%N -> owned o' = None ->
    shape w o (store_obj (with_heap w (heap_failed (w_heap w))) id o', [EAllocFail; ERet 0])
| SS_init_ok : forall k id old o',
    o = OInit k (Some id) -> lookup w id = Some old ->
    h_fail (w_heap w) <> 1%N -> owned o' = Some (h_next (w_heap w)) ->
    shape w o (store_obj (with_heap w (heap_alloced (w_heap w))) id o',
               [EAlloc (h_next (w_heap w)); ERet 1])
| SS_cleanup : forall k id old n o',
    o = OCleanup k (Some id) -> lookup w id = Some old ->
    owned old = Some n -> owned o' = None ->
    shape w o (store_obj (with_heap w (release (w_heap w) n)) id o', [EFree n true; EDone]).

Lemma shape_id : forall w o ev, nofree ev = true -> shape w o (w, ev).
Proof. intros. apply SS_same; auto. Qed.
Lemma shape_bad : forall w o n, shape w o (bad w n).
Proof. intros. apply shape_id. reflexivity. Qed.
Lemma shape_ret0 : forall w o, shape w o (ret0 w).
Proof. intros. apply shape_id. reflexivity. Qed.

Section CtrShape.
  Variable K : Type.
  Variable E : K -> list byte -> list byte.
  Variable bs : nat.
  Variable batch : backend -> nat.
  Variable wide : bool.
  Variable zero_key : K.
  Variable wrap : ctrobj K -> obj.
  Hypothesis wrap_owned : forall c, owned (wrap c) = cown c.

  Lemma ctr_init_shape : forall w k id old, lookup w id = Some old ->
    shape w (OInit k (Some id)) (ctr_init K bs batch wide zero_key wrap w id).
  Proof.
    intros w k id old L. destruct (N.eq_dec (h_fail (w_heap w)) 1) as [Hf|Hf].
    - rewrite ctr_init_fail_eq by assumption.
      eapply SS_init_fail; eauto. rewrite wrap_owned. reflexivity.
    - destruct (ctr_init_ok_eq K bs batch wide zero_key wrap w id Hf) as (be & st & ->).
      eapply SS_init_ok; eauto. rewrite wrap_owned. reflexivity.
  Qed.
  Lemma ctr_cleanup_shape : forall w k id c, lookup w id = Some (wrap c) ->
    shape w (OCleanup k (Some id)) (ctr_cleanup K wrap w id c).
  Proof.
    intros w k id c L. destruct c; cbn [ctr_cleanup].
    - apply shape_bad.
    - apply shape_id. reflexivity.
    - eapply SS_cleanup; eauto; rewrite wrap_owned; reflexivity.
  Qed.
  Lemma ctr_setter_shape : forall w o id c f, lookup w id = Some (wrap c) ->
    shape w o (ctr_setter K bs batch wrap w id c f).
  Proof.
    intros w o id c f L. destruct c; cbn [ctr_setter].
    - apply shape_bad.
    - apply shape_ret0.
    - destruct (f (c_key st)) as [r k']. destruct (N.eqb r 0); [apply shape_ret0|].
      eapply SS_upd; eauto. rewrite !wrap_owned. reflexivity.
  Qed.
  Lemma ctr_setctr_shape : forall w o id c cnt size, lookup w id = Some (wrap c) ->
    shape w o (ctr_setctr K bs batch wrap w id c cnt size).
  Proof.
    intros w o id c cnt size L. destruct c; cbn [ctr_setctr].
    - apply shape_bad.
    - apply shape_ret0.
    - destruct (set_counter K bs (batch be) st cnt size) as [r st'].
      destruct (N.eqb r 0); [apply shape_ret0|].
      eapply SS_upd; eauto. rewrite !wrap_owned. reflexivity.
  Qed.
  Lemma ctr_crypt_shape : forall w o id c inp size outnull, lookup w id = Some (wrap c) ->
    shape w o (ctr_crypt K E bs batch wrap w id c inp size outnull).
  Proof.
    intros w o id c inp size outnull L. destruct c; cbn [ctr_crypt].
    - apply shape_bad.
    - apply shape_ret0.
    - destruct inp as [data|]; [|apply shape_ret0].
      destruct outnull; [apply shape_ret0|].
      destruct (crypt K E bs (batch be) st (pad_to (N.to_nat size) data)) as [[st' out]|];
        [|apply shape_bad].
      eapply SS_upd; eauto. rewrite !wrap_owned. reflexivity.
  Qed.
End CtrShape.

Section ParShape.
  Variable K : Type.
  Variable bs : nat.
  Variable wide : bool.
  Variable zero_key : K.
  Variable wrap : parobj K -> obj.
  Hypothesis wrap_owned : forall p, owned (wrap p) = pown p.

  Lemma par_init_shape : forall w k id p, lookup w id = Some (wrap p) ->
    shape w (OInit k (Some id)) (par_init K wide zero_key wrap w id p).
  Proof.
    intros w k id p L. destruct (N.eq_dec (h_fail (w_heap w)) 1) as [Hf|Hf].
    - rewrite par_init_fail_eq by assumption.
      eapply SS_init_fail; eauto. rewrite wrap_owned. destruct p; reflexivity.
    - destruct (par_init_ok_eq K wide zero_key wrap w id p Hf) as (be & ps & ->).
      eapply SS_init_ok; eauto. rewrite wrap_owned. reflexivity.
  Qed.
  Lemma par_cleanup_shape : forall w k id p, lookup w id = Some (wrap p) ->
    shape w (OCleanup k (Some id)) (par_cleanup K wrap w id p).
  Proof.
    intros w k id p L. destruct p as [f|vt [[n key]|] ps]; cbn [par_cleanup].
    - apply shape_bad.
    - eapply SS_cleanup; eauto; rewrite wrap_owned; reflexivity.
    - apply shape_id. reflexivity.
  Qed.
  Lemma par_setter_shape : forall w o id p f, lookup w id = Some (wrap p) ->
    shape w o (par_setter K wrap w id p f).
  Proof.
    intros w o id p f L. destruct p as [fl|vt [[n key]|] ps]; cbn [par_setter].
    - apply shape_bad.
    - destruct (f key) as [r k']. destruct (N.eqb r 0); [apply shape_ret0|].
      eapply SS_upd; eauto. rewrite !wrap_owned. reflexivity.
    - apply shape_ret0.
  Qed.
  Lemma par_run_shape : forall w o p size f tw data,
    shape w o (par_run K bs w p size f tw data).
  Proof.
    intros w o p size f tw data. destruct p as [fl|vt [[n key]|] ps]; cbn [par_run].
    - apply shape_bad.
    - destruct (negb _); [apply shape_ret0|]. apply shape_id. reflexivity.
    - apply shape_ret0.
  Qed.
End ParShape.

Lemma wrap_c128 : forall c, owned (OC128 c) = cown c. Proof. intros []; reflexivity. Qed.
Lemma wrap_c64 : forall c, owned (OC64 c) = cown c. Proof. intros []; reflexivity. Qed.
Lemma wrap_mc : forall c, owned (OMC c) = cown c. Proof. intros []; reflexivity. Qed.
Lemma wrap_p128 : forall p, owned (OP128 p) = pown p.
Proof. intros [|? [[]|] ?]; reflexivity. Qed.
Lemma wrap_p64 : forall p, owned (OP64 p) = pown p.
Proof. intros [|? [[]|] ?]; reflexivity. Qed.
Lemma wrap_mp : forall p, owned (OMP p) = pown p.
Proof. intros [|? [[]|] ?]; reflexivity. Qed.

Lemma new_obj_owns_nothing : forall k f, owned (new_obj k f) = None.
Proof. intros k f. destruct k; cbn [new_obj]; destruct (is_zero_byte f); reflexivity. Qed.

(* plain (non-heap) objects: any update keeps "owns nothing" *)
Ltac shape_plain L :=
  repeat match goal with
         | |- context [let '(_, _) := ?x in _] => destruct x
         | |- context [if ?b then _ else _] => destruct b
         end;
  first [ apply shape_bad | apply shape_ret0
        | apply shape_id; reflexivity
        | eapply SS_upd; [exact L|reflexivity|reflexivity] ].

Ltac shape_heapobj L :=
  first
    [ apply ctr_setter_shape; [first [exact wrap_c128|exact wrap_c64|exact wrap_mc]|exact L]
    | apply ctr_setctr_shape; [first [exact wrap_c128|exact wrap_c64|exact wrap_mc]|exact L]
    | apply ctr_crypt_shape; [first [exact wrap_c128|exact wrap_c64|exact wrap_mc]|exact L]
    | eapply ctr_init_shape; [first [exact wrap_c128|exact wrap_c64|exact wrap_mc]|exact L]
    | apply ctr_cleanup_shape; [first [exact wrap_c128|exact wrap_c64|exact wrap_mc]|exact L]
    | apply par_setter_shape; [first [exact wrap_p128|exact wrap_p64|exact wrap_mp]|exact L]
    | apply par_init_shape; [first [exact wrap_p128|exact wrap_p64|exact wrap_mp]|exact L]
    | apply par_cleanup_shape; [first [exact wrap_p128|exact wrap_p64|exact wrap_mp]|exact L]
    | apply par_run_shape ].

Ltac shape_kinded w k id :=
  cbn [step];
  let L := fresh "L" in
  destruct k; destruct (lookup w id) as [[]|] eqn:L;
  first [ apply shape_bad | shape_heapobj L | shape_plain L ].

Lemma step_shape : forall w o, shape w o (step w o).
Proof.
  intros w o.
  destruct o as [k id f|be| |c|a|kf| |k [id|] key size|k [id|] key size|k [id|] tw size
                |k [id|] key size rounds mode|k [id|]|k [id|] blk|k [id|] blk|[id|] blk tw
                |k [id|]|k [id|]|k [id|]|k [id|] c size|k [id|] inp size outnull
                |k [id|] data size|k [id|] data size|[id|] data tw size|k [id|]|k [id|]].
  - eapply SS_new. reflexivity.
  - apply SS_same; reflexivity.
  - apply SS_same; reflexivity.
  - apply SS_same; reflexivity.
  - apply SS_same; reflexivity.
  - apply SS_same; reflexivity.
  - apply shape_id. reflexivity.
  - shape_kinded w k id.
  - apply shape_ret0.
  - shape_kinded w k id.
  - apply shape_ret0.
  - shape_kinded w k id.
  - apply shape_ret0.
  - shape_kinded w k id.
  - apply shape_ret0.
  - (* OSwap *)
    cbn [step]. destruct k; destruct (lookup w id) as [[]|] eqn:L;
      try apply shape_bad; try shape_plain L.
    destruct p as [fl|vt [[n m]|] ps];
      first [apply shape_bad | apply shape_id; reflexivity
            | eapply SS_upd; [exact L|reflexivity|reflexivity]].
  - cbn [step]. destruct k; first [apply shape_bad|apply shape_id; reflexivity].
  - shape_kinded w k id.
  - apply shape_bad.
  - shape_kinded w k id.
  - apply shape_bad.
  - cbn [step]. destruct (lookup w id) as [[]|] eqn:L; shape_plain L.
  - apply shape_bad.
  - shape_kinded w k id.
  - apply shape_bad.
  - shape_kinded w k id.
  - apply shape_ret0.
  - shape_kinded w k id.
  - apply shape_id. reflexivity.
  - shape_kinded w k id.
  - apply shape_ret0.
  - shape_kinded w k id.
  - apply shape_ret0.
  - shape_kinded w k id.
  - apply shape_ret0.
  - shape_kinded w k id.
  - apply shape_ret0.
  - cbn [step]. destruct (lookup w id) as [[]|] eqn:L;
      first [apply shape_bad | apply par_run_shape].
  - apply shape_ret0.
  - cbn [step]. destruct (lookup w id) as [[]|] eqn:L; try apply shape_bad;
      apply shape_id; match goal with |- context [ctr_which _ ?c] => destruct c
                                 | |- context [par_which _ ?p] => destruct p end; reflexivity.
  - apply shape_bad.
  - cbn [step]. destruct (lookup w id) as [[]|] eqn:L; try apply shape_bad;
      apply shape_id; match goal with |- context [par_psize_ev _ ?p] => destruct p end;
      reflexivity.
  - apply shape_bad.
Qed.

(* ------------------------------------------------------------------ *)
(* C17: every free is of wiped memory                                  *)
(* ------------------------------------------------------------------ *)
Lemma step_free_wiped : forall w o n z, In (EFree n z) (snd (step w o)) -> z = true.
Proof.
  intros w o n z H. destruct (step_shape w o); cbn [snd] in H;
    try (exfalso; eapply nofree_spec; eassumption).
  - destruct H.
  - destruct H as [H|[H|[]]]; discriminate.
  - destruct H as [H|[H|[]]]; discriminate.
  - destruct H as [H|[H|[]]]; [injection H as _ <-; reflexivity|discriminate].
Qed.

Definition run_f (acc : world * list (list event)) (o : op) : world * list (list event) :=
  let '(w', ev) := step (fst acc) o in (w', snd acc ++ [ev]).
Lemma run_f_eq : forall w acc o,
  run_f (w, acc) o = (fst (step w o), acc ++ [snd (step w o)]).
Proof. intros. unfold run_f. cbn [fst snd]. destruct (step w o). reflexivity. Qed.
Lemma run_eq : forall w ops, run w ops = fold_left run_f ops (w, []).
Proof. reflexivity. Qed.
Lemma run_acc : forall ops w acc,
  fold_left run_f ops (w, acc) =
  (fst (fold_left run_f ops (w, [])), acc ++ snd (fold_left run_f ops (w, []))).
Proof.
  induction ops as [|o ops IH]; intros w acc.
  - cbn. rewrite app_nil_r. reflexivity.
  - cbn [fold_left]. rewrite !run_f_eq.
    rewrite (IH _ (acc ++ [snd (step w o)])), (IH _ ([] ++ [snd (step w o)])).
    cbn [fst snd app]. rewrite <- app_assoc. reflexivity.
Qed.
Lemma run_nil : forall w, run w [] = (w, []).
Proof. reflexivity. Qed.
Lemma run_cons : forall w o ops,
  run w (o :: ops) =
  (fst (run (fst (step w o)) ops), snd (step w o) :: snd (run (fst (step w o)) ops)).
Proof.
  intros. rewrite !run_eq. cbn [fold_left]. rewrite run_f_eq, run_acc. reflexivity.
Qed.

Theorem every_free_is_wiped : forall ops w n z,
  In (EFree n z) (concat (snd (run w ops))) -> z = true.
Proof.
  induction ops as [|o ops IH]; intros w n z H.
  - destruct H.
  - rewrite run_cons in H. cbn [snd concat] in H. apply in_app_or in H. destruct H as [H|H].
    + eapply step_free_wiped. eassumption.
    + eapply IH. eassumption.
Qed.

(* ------------------------------------------------------------------ *)
(* the heap invariant                                                  *)
(* ------------------------------------------------------------------ *)
Lemma heapinv_init : forall b c, HeapInv (init_world b c).
Proof.
  intros. unfold HeapInv. cbn. repeat split; try constructor. intros n [].
Qed.

Lemma heapinv_same : forall w w',
  w_objs w' = w_objs w -> h_live (w_heap w') = h_live (w_heap w) ->
  h_next (w_heap w') = h_next (w_heap w) -> HeapInv w -> HeapInv w'.
Proof.
  unfold HeapInv, owned_blocks. intros w w' -> -> ->. tauto.
Qed.

(* replacing id's object by one that owns the same (in particular: creating a
   fresh id, or overwriting an object that owns nothing) *)
Lemma heapinv_upd : forall w id o',
  HeapInv w -> obind owned (lookup w id) = owned o' -> HeapInv (store_obj w id o').
Proof.
  intros w id o' (Hid & Hl & Hlt & Ho & Hp) Heq.
  pose proof (blocks_split (w_objs w) id Hid) as S.
  rewrite <- lookup_lookupl, Heq in S. fold (owned_blocks w) in S.
  unfold HeapInv. rewrite owned_blocks_store'. cbn [store_obj w_objs w_heap].
  split; [apply store_ids_nodup; assumption|]. split; [assumption|]. split; [assumption|].
  split.
  - eapply Permutation_NoDup; eassumption.
  - eapply Permutation_trans; [apply Permutation_sym; exact S|exact Hp].
Qed.

Lemma heapinv_init_fail : forall w id o',
  HeapInv w -> obind owned (lookup w id) = None -> owned o' = None ->
  HeapInv (store_obj (with_heap w (heap_failed (w_heap w))) id o').
Proof.
  intros w id o' H L Ho.
  apply (heapinv_same (store_obj w id o')); try reflexivity.
  apply heapinv_upd; [assumption|]. congruence.
Qed.

Lemma heapinv_init_ok : forall w id o',
  HeapInv w -> obind owned (lookup w id) = None -> owned o' = Some (h_next (w_heap w)) ->
  HeapInv (store_obj (with_heap w (heap_alloced (w_heap w))) id o').
Proof.
  intros w id o' (Hid & Hl & Hlt & Ho & Hp) L Hown.
  pose proof (blocks_split (w_objs w) id Hid) as S.
  rewrite <- lookup_lookupl, L in S. fold (owned_blocks w) in S. cbn [olist app] in S.
  assert (~ In (h_next (w_heap w)) (h_live (w_heap w))) as Hfresh.
  { intros C. apply Hlt in C. lia. }
  unfold HeapInv. rewrite owned_blocks_store, Hown.
  cbn [store_obj with_heap heap_alloced w_objs w_heap h_live h_next olist app].
  assert (Permutation (h_next (w_heap w) :: blocks_of (rest (w_objs w) id))
                      (h_next (w_heap w) :: h_live (w_heap w))) as P.
  { constructor. eapply Permutation_trans; [apply Permutation_sym; exact S|exact Hp]. }
  assert (NoDup (h_next (w_heap w) :: h_live (w_heap w))) as ND.
  { constructor; assumption. }
  split; [apply store_ids_nodup; assumption|]. split; [exact ND|]. split.
  - intros n [<-|Hn]; [lia|]. apply Hlt in Hn. lia.
  - split; [|exact P]. eapply Permutation_NoDup; [apply Permutation_sym; exact P|exact ND].
Qed.

Lemma heapinv_cleanup : forall w id old n o',
  HeapInv w -> lookup w id = Some old -> owned old = Some n -> owned o' = None ->
  HeapInv (store_obj (with_heap w (release (w_heap w) n)) id o') /\
  ~ In n (owned_blocks (store_obj (with_heap w (release (w_heap w) n)) id o')).
Proof.
  intros w id old n o' (Hid & Hl & Hlt & Ho & Hp) L Hold Hown.
  pose proof (blocks_split (w_objs w) id Hid) as S.
  rewrite <- lookup_lookupl, L in S. cbn [obind] in S. rewrite Hold in S.
  fold (owned_blocks w) in S. cbn [olist app] in S.
  pose proof (Permutation_NoDup S Ho) as ND. apply NoDup_cons_iff in ND.
  destruct ND as [Hn ND].
  unfold HeapInv. rewrite owned_blocks_store, Hown.
  cbn [store_obj with_heap release w_objs w_heap h_live h_next olist app].
  split; [|exact Hn].
  split; [apply store_ids_nodup; assumption|]. split; [apply NoDup_filter; assumption|]. split.
  - intros m Hm. apply filter_In in Hm. apply Hlt. tauto.
  - split; [exact ND|].
    rewrite <- (filter_ne_notin _ n Hn) at 1.
    change (filter (fun m => negb (N.eqb m n)) (blocks_of (rest (w_objs w) id)))
      with (filter (fun m => negb (N.eqb m n)) ([] ++ blocks_of (rest (w_objs w) id))).
    assert (filter (fun m => negb (N.eqb m n)) (n :: blocks_of (rest (w_objs w) id)) =
            filter (fun m => negb (N.eqb m n)) (blocks_of (rest (w_objs w) id))) as F.
    { cbn [filter]. rewrite N.eqb_refl. reflexivity. }
    cbn [app]. rewrite <- F. apply perm_filter.
    eapply Permutation_trans; [apply Permutation_sym; exact S|exact Hp].
Qed.

Lemma owns_nothing_spec : forall w id, owns_nothing w id = true ->
  obind owned (lookup w id) = None.
Proof.
  unfold owns_nothing. intros w id H. destruct (obind owned (lookup w id)); [discriminate|reflexivity].
Qed.

Theorem heapinv_step : forall w o,
  HeapInv w -> disciplined w o = true -> HeapInv (fst (step w o)).
Proof.
  intros w o H D. destruct (step_shape w o); cbn [fst].
  - eapply heapinv_same; eassumption.
  - apply heapinv_upd; [assumption|]. rewrite H0. cbn [obind]. congruence.
  - subst o. cbn [disciplined] in D. apply heapinv_upd; [assumption|].
    rewrite new_obj_owns_nothing. apply owns_nothing_spec. assumption.
  - subst o. cbn [disciplined] in D. apply heapinv_init_fail; try assumption.
    apply owns_nothing_spec. assumption.
  - subst o. cbn [disciplined] in D. apply heapinv_init_ok; try assumption.
    apply owns_nothing_spec. assumption.
  - eapply heapinv_cleanup; eassumption.
Qed.

Theorem heapinv_run : forall ops w,
  HeapInv w -> disciplined_history w ops -> HeapInv (fst (run w ops)).
Proof.
  induction ops as [|o ops IH]; intros w H D.
  - exact H.
  - rewrite run_cons. cbn [fst]. destruct D as [D1 D2].
    apply IH; [apply heapinv_step; assumption|assumption].
Qed.

(* C15: every free is of a live block that the object owned, it happens once
   (the block is neither live nor owned afterwards), and the block is wiped *)
Theorem free_is_of_owned_live_block : forall w o n z,
  HeapInv w -> In (EFree n z) (snd (step w o)) ->
  z = true /\ In n (h_live (w_heap w)) /\
  ~ In n (h_live (w_heap (fst (step w o)))) /\
  ~ In n (owned_blocks (fst (step w o))) /\
  exists k id, o = OCleanup k (Some id) /\ option_map owned (lookup w id) = Some (Some n).
Proof.
  intros w o n z H Hin. destruct (step_shape w o); cbn [fst snd] in *;
    try (exfalso; eapply nofree_spec; eassumption).
  - destruct Hin.
  - destruct Hin as [C|[C|[]]]; discriminate.
  - destruct Hin as [C|[C|[]]]; discriminate.
  - destruct Hin as [C|[C|[]]]; [|discriminate]. injection C as -> <-.
    split; [reflexivity|]. split.
    + destruct H as (_ & _ & _ & _ & Hp). eapply Permutation_in; [exact Hp|].
      eapply lookup_owned_in; eassumption.
    + split; [apply filter_ne_not_in|]. split.
      * eapply heapinv_cleanup; eassumption.
      * exists k, id. split; [assumption|]. rewrite H1. cbn [option_map]. congruence.
Qed.

(* leak freedom *)
Theorem no_leak : forall w, HeapInv w -> owned_blocks w = [] -> h_live (w_heap w) = [].
Proof.
  intros w (_ & _ & _ & _ & Hp) E. rewrite E in Hp. apply Permutation_nil. exact Hp.
Qed.

(* leak freedom along a disciplined history from the initial world *)
Corollary no_leak_run : forall b c ops,
  disciplined_history (init_world b c) ops ->
  owned_blocks (fst (run (init_world b c) ops)) = [] ->
  h_live (w_heap (fst (run (init_world b c) ops))) = [].
Proof.
  intros b c ops D E. apply no_leak; [|exact E].
  apply heapinv_run; [apply heapinv_init|exact D].
Qed.

(* an inert object can be initialised (again) and is then live on a fresh block *)
Theorem reinit_after_cleanup : forall w k id,
  HeapInv w -> inert_at w id k -> h_fail (w_heap w) <> 1%N ->
  exists w', step w (OInit k (Some id)) = (w', [EAlloc (h_next (w_heap w)); ERet 1]) /\
             option_map owned (lookup w' id) = Some (Some (h_next (w_heap w))) /\
             live_at w' id k (h_next (w_heap w)) /\
             ~ In (h_next (w_heap w)) (h_live (w_heap w)) /\
             h_live (w_heap w') = h_next (w_heap w) :: h_live (w_heap w) /\
             HeapInv w'.
Proof.
  intros w k id H (o & L & Hk & Hi) Hf. unfold obj_has_kind in Hk. subst k.
  assert (~ In (h_next (w_heap w)) (h_live (w_heap w))) as Hfresh.
  { destruct H as (_ & _ & Hlt & _). intros C. apply Hlt in C. lia. }
  assert (forall w' o', w' = store_obj (with_heap w (heap_alloced (w_heap w))) id o' ->
            obj_kind o' = obj_kind o -> owned o' = Some (h_next (w_heap w)) ->
            option_map owned (lookup w' id) = Some (Some (h_next (w_heap w))) /\
            live_at w' id (obj_kind o) (h_next (w_heap w)) /\
            ~ In (h_next (w_heap w)) (h_live (w_heap w)) /\
            h_live (w_heap w') = h_next (w_heap w) :: h_live (w_heap w) /\
            HeapInv w') as Fin.
  { intros w' o' -> Hk' Ho'. rewrite lookup_store_same. cbn [option_map]. rewrite Ho'.
    split; [reflexivity|]. split.
    - exists o'. split; [apply lookup_store_same|]. split; assumption.
    - split; [exact Hfresh|]. split; [reflexivity|].
      apply heapinv_init_ok; try assumption. rewrite L. cbn [obind].
      apply inert_owns_nothing. assumption. }
  destruct o as [| | | | |[]|[]|[]|[|? [[]|] ?]|[|? [[]|] ?]|[|? [[]|] ?]];
    try discriminate Hi; cbn [step obj_kind]; rewrite L.
  1: destruct (ctr_init_ok_eq tks128 16 batch128 true zero_tks128 OC128 w id Hf) as (be & st & ->).
  2: destruct (ctr_init_ok_eq tks64 8 batch64 false zero_tks64 OC64 w id Hf) as (be & st & ->).
  3: destruct (ctr_init_ok_eq mantis_ks 8 batch64 false zero_mk OMC w id Hf) as (be & st & ->).
  4: destruct (par_init_ok_eq ks128 true (fresh_k128 byte0) OP128 w id (PObj vt None psize) Hf)
       as (be & ps & ->).
  5: destruct (par_init_ok_eq ks64 false (fresh_k64 byte0) OP64 w id (PObj vt None psize) Hf)
       as (be & ps & ->).
  6: destruct (par_init_ok_eq mantis_ks false zero_mk OMP w id (PObj vt None psize) Hf)
       as (be & ps & ->).
  all: eexists; split; [reflexivity|]; eapply Fin; reflexivity.
Qed.

(* ------------------------------------------------------------------ *)
Print Assumptions heapinv_init.
Print Assumptions heapinv_step.
Print Assumptions heapinv_run.
Print Assumptions free_is_of_owned_live_block.
Print Assumptions every_free_is_wiped.
Print Assumptions cleanup_inert_noop.
Print Assumptions cleanup_releases.
Print Assumptions no_leak.
Print Assumptions no_leak_run.
Print Assumptions reinit_after_cleanup.
Print Assumptions init_alloc_failure.
Print Assumptions inert_object_rejects.
Print Assumptions inert_rejects_set_key.
Print Assumptions inert_rejects_set_tweaked_key.
Print Assumptions inert_rejects_set_tweak.
Print Assumptions inert_rejects_mantis_set_key.
Print Assumptions inert_rejects_set_counter.
Print Assumptions inert_rejects_crypt.
Print Assumptions inert_rejects_par_encrypt.
Print Assumptions inert_rejects_par_decrypt.
Print Assumptions inert_rejects_mantis_par_crypt.
Print Assumptions step_shape.
