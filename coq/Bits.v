(* Bits.v — bit carriers, 4- and 8-bit cells as tuples, xor algebra.
   Everything that the specifications use is polymorphic in the carrier [B]
   of a bit (Section variables), so that the same definitions run on [bool]
   (the executable reference) and on GF(2) polynomials (symbolic checking of
   code kernels, file Anf.v). *)
From Coq Require Import List Bool NArith Arith Lia.
Import ListNotations.

Section Carrier.
  Variable B : Type.
  Variables (bx ba : B -> B -> B) (b0 b1 : B).

  Definition bnot (a : B) : B := bx a b1.
  Definition bnor (a b : B) : B := ba (bnot a) (bnot b).
  Definition bor (a b : B) : B := bnot (bnor a b).
  Definition bnand (a b : B) : B := bnot (ba a b).
  Definition bconst (b : bool) : B := if b then b1 else b0.

  (* cells, most significant bit first *)
  Definition c4 : Type := (B * B * B * B)%type.
  Definition c8 : Type := (B * B * B * B * B * B * B * B)%type.

  Definition c4x (a b : c4) : c4 :=
    let '(a3, a2, a1, a0) := a in let '(d3, d2, d1, d0) := b in
    (bx a3 d3, bx a2 d2, bx a1 d1, bx a0 d0).
  Definition c8x (a b : c8) : c8 :=
    let '(a7, a6, a5, a4, a3, a2, a1, a0) := a in
    let '(d7, d6, d5, d4, d3, d2, d1, d0) := b in
    (bx a7 d7, bx a6 d6, bx a5 d5, bx a4 d4, bx a3 d3, bx a2 d2, bx a1 d1, bx a0 d0).

  Definition c4zero : c4 := (b0, b0, b0, b0).
  Definition c8zero : c8 := (b0, b0, b0, b0, b0, b0, b0, b0).
  (* a public constant whose low nibble is given *)
  Definition c4nib (x3 x2 x1 x0 : bool) : c4 :=
    (bconst x3, bconst x2, bconst x1, bconst x0).
  Definition c8nib (x3 x2 x1 x0 : bool) : c8 :=
    (b0, b0, b0, b0, bconst x3, bconst x2, bconst x1, bconst x0).

  (* a byte is two 4-bit cells, high nibble first *)
  Definition c8hi (x : c8) : c4 :=
    let '(x7, x6, x5, x4, _, _, _, _) := x in (x7, x6, x5, x4).
  Definition c8lo (x : c8) : c4 :=
    let '(_, _, _, _, x3, x2, x1, x0) := x in (x3, x2, x1, x0).
  Definition c8join (h l : c4) : c8 :=
    let '(x7, x6, x5, x4) := h in let '(x3, x2, x1, x0) := l in
    (x7, x6, x5, x4, x3, x2, x1, x0).

  Definition c8bits (x : c8) : list B :=
    let '(x7, x6, x5, x4, x3, x2, x1, x0) := x in [x7; x6; x5; x4; x3; x2; x1; x0].
  Definition c4bits (x : c4) : list B :=
    let '(x3, x2, x1, x0) := x in [x3; x2; x1; x0].
  Definition c8ofbits (l : list B) : c8 :=
    match l with
    | x7 :: x6 :: x5 :: x4 :: x3 :: x2 :: x1 :: x0 :: _ => (x7, x6, x5, x4, x3, x2, x1, x0)
    | _ => c8zero
    end.
  Definition c4ofbits (l : list B) : c4 :=
    match l with
    | x3 :: x2 :: x1 :: x0 :: _ => (x3, x2, x1, x0)
    | _ => c4zero
    end.
End Carrier.

Arguments c4x {B}. Arguments c8x {B}. Arguments c8hi {B}. Arguments c8lo {B}.
Arguments c8join {B}. Arguments c8bits {B}. Arguments c4bits {B}.
Arguments c8ofbits {B}. Arguments c4ofbits {B}.

(* ------------------------------------------------------------------ *)
(* The boolean instance *)

Definition byte : Type := c8 bool.
Definition nib : Type := c4 bool.
Definition bxor8 : byte -> byte -> byte := c8x xorb.
Definition bxor4 : nib -> nib -> nib := c4x xorb.
Definition byte0 : byte := c8zero bool false.
Definition nib0 : nib := c4zero bool false.

Definition byte_of_N (n : N) : byte :=
  (N.testbit n 7, N.testbit n 6, N.testbit n 5, N.testbit n 4,
   N.testbit n 3, N.testbit n 2, N.testbit n 1, N.testbit n 0).
Definition N_of_bits (l : list bool) : N :=
  fold_left (fun (acc : N) (b : bool) => (2 * acc + (if b then 1 else 0))%N) l 0%N.
Definition N_of_byte (x : byte) : N := N_of_bits (c8bits x).
Definition nib_of_N (n : N) : nib :=
  (N.testbit n 3, N.testbit n 2, N.testbit n 1, N.testbit n 0).
Definition N_of_nib (x : nib) : N := N_of_bits (c4bits x).

Definition bytes_of_Ns (l : list N) : list byte := map byte_of_N l.
Definition Ns_of_bytes (l : list byte) : list N := map N_of_byte l.

Definition all_bytes : list byte := map byte_of_N (map N.of_nat (seq 0 256)).
Definition all_nibs : list nib := map nib_of_N (map N.of_nat (seq 0 16)).

Lemma byte_of_N_of_byte x : byte_of_N (N_of_byte x) = x.
Proof. destruct x as [[[[[[[[] []] []] []] []] []] []] []]; reflexivity. Qed.
Lemma nib_of_N_of_nib x : nib_of_N (N_of_nib x) = x.
Proof. destruct x as [[[[] []] []] []]; reflexivity. Qed.
Lemma N_of_byte_lt x : (N.to_nat (N_of_byte x) < 256)%nat.
Proof. destruct x as [[[[[[[[] []] []] []] []] []] []] []]; vm_compute; lia. Qed.
Lemma N_of_nib_lt x : (N.to_nat (N_of_nib x) < 16)%nat.
Proof. destruct x as [[[[] []] []] []]; vm_compute; lia. Qed.

Lemma all_bytes_complete : forall x : byte, In x all_bytes.
Proof.
  intros x. rewrite <- (byte_of_N_of_byte x). unfold all_bytes.
  apply in_map. rewrite <- (N2Nat.id (N_of_byte x)). apply in_map.
  apply in_seq. pose proof (N_of_byte_lt x). lia.
Qed.
Lemma all_nibs_complete : forall x : nib, In x all_nibs.
Proof.
  intros x. rewrite <- (nib_of_N_of_nib x). unfold all_nibs.
  apply in_map. rewrite <- (N2Nat.id (N_of_nib x)). apply in_map.
  apply in_seq. pose proof (N_of_nib_lt x). lia.
Qed.

Definition byte_eqb (a b : byte) : bool := N.eqb (N_of_byte a) (N_of_byte b).
Lemma byte_eqb_eq a b : byte_eqb a b = true <-> a = b.
Proof.
  split; [|intros ->; unfold byte_eqb; apply N.eqb_refl].
  unfold byte_eqb. intros H. apply N.eqb_eq in H.
  rewrite <- (byte_of_N_of_byte a), <- (byte_of_N_of_byte b). now rewrite H.
Qed.
Definition nib_eqb (a b : nib) : bool := N.eqb (N_of_nib a) (N_of_nib b).
Lemma nib_eqb_eq a b : nib_eqb a b = true <-> a = b.
Proof.
  split; [|intros ->; unfold nib_eqb; apply N.eqb_refl].
  unfold nib_eqb. intros H. apply N.eqb_eq in H.
  rewrite <- (nib_of_N_of_nib a), <- (nib_of_N_of_nib b). now rewrite H.
Qed.

(* a finite sweep lifted to a universally quantified statement *)
Lemma forall_bytes (P : byte -> bool) :
  forallb P all_bytes = true -> forall x, P x = true.
Proof. intros H x. rewrite forallb_forall in H. apply H, all_bytes_complete. Qed.
Lemma forall_nibs (P : nib -> bool) :
  forallb P all_nibs = true -> forall x, P x = true.
Proof. intros H x. rewrite forallb_forall in H. apply H, all_nibs_complete. Qed.

Ltac pair_eq := repeat match goal with |- (_, _) = (_, _) => apply f_equal2 end.

(* xor algebra on cells *)
Lemma bxor8_comm a b : bxor8 a b = bxor8 b a.
Proof.
  destruct a as [[[[[[[a7 a6] a5] a4] a3] a2] a1] a0], b as [[[[[[[d7 d6] d5] d4] d3] d2] d1] d0].
  cbn. pair_eq; apply xorb_comm.
Qed.
Lemma bxor8_assoc a b c : bxor8 (bxor8 a b) c = bxor8 a (bxor8 b c).
Proof.
  destruct a as [[[[[[[a7 a6] a5] a4] a3] a2] a1] a0], b as [[[[[[[d7 d6] d5] d4] d3] d2] d1] d0],
           c as [[[[[[[e7 e6] e5] e4] e3] e2] e1] e0].
  cbn. pair_eq; apply xorb_assoc.
Qed.
Lemma bxor8_nilp a : bxor8 a a = byte0.
Proof.
  destruct a as [[[[[[[a7 a6] a5] a4] a3] a2] a1] a0]. cbn. unfold byte0, c8zero.
  pair_eq; apply xorb_nilpotent.
Qed.
Lemma bxor8_0_r a : bxor8 a byte0 = a.
Proof.
  destruct a as [[[[[[[a7 a6] a5] a4] a3] a2] a1] a0]. cbn.
  pair_eq; apply xorb_false_r.
Qed.
Lemma bxor8_0_l a : bxor8 byte0 a = a.
Proof. rewrite bxor8_comm. apply bxor8_0_r. Qed.
Lemma bxor8_cancel_r a b : bxor8 (bxor8 a b) b = a.
Proof. now rewrite bxor8_assoc, bxor8_nilp, bxor8_0_r. Qed.

Lemma bxor4_comm a b : bxor4 a b = bxor4 b a.
Proof.
  destruct a as [[[a3 a2] a1] a0], b as [[[d3 d2] d1] d0]. cbn. pair_eq; apply xorb_comm.
Qed.
Lemma bxor4_assoc a b c : bxor4 (bxor4 a b) c = bxor4 a (bxor4 b c).
Proof.
  destruct a as [[[a3 a2] a1] a0], b as [[[d3 d2] d1] d0], c as [[[e3 e2] e1] e0].
  cbn. pair_eq; apply xorb_assoc.
Qed.
Lemma bxor4_nilp a : bxor4 a a = nib0.
Proof.
  destruct a as [[[a3 a2] a1] a0]. cbn. unfold nib0, c4zero. pair_eq; apply xorb_nilpotent.
Qed.
Lemma bxor4_0_r a : bxor4 a nib0 = a.
Proof. destruct a as [[[a3 a2] a1] a0]. cbn. pair_eq; apply xorb_false_r. Qed.
Lemma bxor4_0_l a : bxor4 nib0 a = a.
Proof. rewrite bxor4_comm. apply bxor4_0_r. Qed.
Lemma bxor4_cancel_r a b : bxor4 (bxor4 a b) b = a.
Proof. now rewrite bxor4_assoc, bxor4_nilp, bxor4_0_r. Qed.

Lemma c8join_hi_lo (x : byte) : c8join (c8hi x) (c8lo x) = x.
Proof. now destruct x as [[[[[[[a7 a6] a5] a4] a3] a2] a1] a0]. Qed.
Lemma c8hi_join (h l : nib) : c8hi (c8join h l) = h.
Proof. now destruct h as [[[a3 a2] a1] a0], l as [[[d3 d2] d1] d0]. Qed.
Lemma c8lo_join (h l : nib) : c8lo (c8join h l) = l.
Proof. now destruct h as [[[a3 a2] a1] a0], l as [[[d3 d2] d1] d0]. Qed.

(* xor of byte strings, position by position (the shorter one decides) *)
Fixpoint xor_bytes (a b : list byte) : list byte :=
  match a, b with
  | x :: a', y :: b' => bxor8 x y :: xor_bytes a' b'
  | _, _ => []
  end.
Lemma xor_bytes_length a : forall b, length (xor_bytes a b) = Nat.min (length a) (length b).
Proof. induction a as [|x a IH]; intros [|y b]; cbn; auto. Qed.
Lemma xor_bytes_app a1 : forall b1 a2 b2, length a1 = length b1 ->
  xor_bytes (a1 ++ a2) (b1 ++ b2) = xor_bytes a1 b1 ++ xor_bytes a2 b2.
Proof.
  induction a1 as [|x a1 IH]; intros [|y b1] a2 b2 H; cbn in *; try discriminate; auto.
  f_equal. apply IH. lia.
Qed.
Lemma xor_bytes_involutive a : forall k, length a <= length k ->
  xor_bytes (xor_bytes a k) k = a.
Proof.
  induction a as [|x a IH]; intros [|y k] H; cbn in *; auto; try lia.
  rewrite bxor8_cancel_r. f_equal. apply IH. lia.
Qed.
