(* WholeComposeDec.v — the decryption side of WholeCompose.v / WholeComposePar.v: the call contract proved for
   skinny128/64_ecb_decrypt's own translated code (dec128/64_contract), and parallel-ECB decryption with the single-block
   callee run by that code (ppar128/64_dec_composed); the vector callee stays a procedure under its contract. *)
From Coq Require Import List Bool NArith Arith Lia.
From Skinny Require Import Bits SpecSkinny IR SIR Anf IRCheck KernelSpecs KernelSpecs2 KernelHom KernelHom2 SIRCheck WholeSpecs SIRProofs Frame
                           ModelCipher ModelCtr ProofsCtr WholeBridge WholeKey WholeProc WholeCtr WholeCtrModel WholePar WholeContracts
                           WholeKeyTweak WholeCompose WholeComposePar ProofsApiCtr.
Import ListNotations.

Section ComposeDec128.
  Variables (code : list SIR.sstmt) (fuel R : nat) (pl' : list N) (sh' : SIR.shadow) (c : list IR.stmt) (t : list SIR.event).
  Hypothesis HR0 : 0 < R.
  Hypothesis HR : R <= 56.
  Hypothesis Hflat : flat [ksf] fuel [0; 0; 0]%N [(ksf, N.of_nat R)] code = Some (pl', sh', c, t).
  Hypothesis Hcheck : check_block_w callP sizes128 2 8 c (dec_offs 8 8 R)
    (dec_stepsW poly (k128_subcells_inv poly pxor pand pzero pone) (k128_dec_linear poly pxor pzero pone) R)
    (dec_stepsW bool (k128_subcells_inv bool xorb andb false true) (k128_dec_linear bool xorb false true) R) = true.

  (* the contract of pctr_model / vctr_model / ppar_model, proved for the callee's code *)
  Theorem dec128_contract : forall fno (KS : list (list bool)) (hdrtail : list byte) (sched : list (half byte)),
    length hdrtail = 4 -> length sched = 56 ->
    firstn 456 KS = (rbytes R ++ bitsB hdrtail) ++ concat (map (KernelSpecs2.half_bytes128 bool) sched) ->
    forall blk, length blk = 16 ->
    cB_run 16 456 code fuel fno (concat (bitsB blk) ++ concat (firstn 456 KS))
    = concat (bitsB (m128_decrypt {| ks_rounds := N.of_nat R; ks_sched := sched |} blk)).
  Proof.
    intros fno KS hdrtail sched Hh Hs HKS blk Hb. unfold cB_run. cbv zeta.
    (* the header as a byte list: rbytes R is the image of 4 bytes *)
    set (hdr := map (c8_of_bits bool false) (rbytes R) ++ hdrtail).
    assert (Ehdr : bitsB hdr = rbytes R ++ bitsB hdrtail).
    { unfold hdr. rewrite map_app. f_equal. }
    assert (Lhdr : length hdr = 8).
    { unfold hdr. rewrite app_length, map_length. unfold rbytes. cbn [bytes_of length]. unfold byte in *. lia. }
    assert (Lks : length (firstn 456 KS) = 456).
    { rewrite HKS, <- Ehdr, app_length, map_length, sched_image_len128. unfold byte in *. lia. }
    assert (K8 : bytes8 (firstn 456 KS)).
    { rewrite HKS, <- Ehdr. apply Forall_app. split; [apply bitsB_bytes8|].
      apply Forall_concat. apply Forall_forall. intros x Hx. apply in_map_iff in Hx. destruct Hx as [e [<- _]]. apply hb128_len8. }
    rewrite (decode_arg blk (firstn 456 KS) 16 456 Hb Lks K8).
    rewrite firstn_app, map_length, Hb, Nat.sub_diag, firstn_O, app_nil_r, firstn_all2 by (rewrite map_length; lia).
    rewrite skipn_app, map_length, Hb, Nat.sub_diag, skipn_all2 by (rewrite map_length; lia). cbn [app skipn].
    rewrite HKS, <- Ehdr.
    change (repeat (zbyte bool false) 16) with (bitsB (zeros 16)).
    change (bitsB hdr ++ concat (map (KernelSpecs2.half_bytes128 bool) sched)) with (ks_image128 (bitsB hdr) sched).
    destruct (dec128_final code fuel R pl' sh' c t HR0 HR Hflat Hcheck (zeros 16) blk (zeros 16) hdr sched
                eq_refl Hb eq_refl Lhdr Hs) as [st' [Hint [Hout _]]].
    { unfold ks_image128, ks_image. rewrite Ehdr. apply field_val_rounds.
      apply N.le_lt_trans with (m := 56%N); [lia | vm_compute; reflexivity]. }
    rewrite Hint, Hout. reflexivity.
  Qed.
End ComposeDec128.
Section ComposeDec64.
  Variables (code : list SIR.sstmt) (fuel R : nat) (pl' : list N) (sh' : SIR.shadow) (c : list IR.stmt) (t : list SIR.event).
  Hypothesis HR0 : 0 < R.
  Hypothesis HR : R <= 40.
  Hypothesis Hflat : flat [ksf] fuel [0; 0; 0]%N [(ksf, N.of_nat R)] code = Some (pl', sh', c, t).
  Hypothesis Hcheck : check_block_w callP sizes64 2 4 c (dec_offs 4 4 R)
    (dec_stepsW poly (k64_subcells_inv poly pxor pand pzero pone) (k64_dec_linear poly pxor pzero pone) R)
    (dec_stepsW bool (k64_subcells_inv bool xorb andb false true) (k64_dec_linear bool xorb false true) R) = true.

  (* the contract of pctr_model / vctr_model / ppar_model, proved for the callee's code *)
  Theorem dec64_contract : forall fno (KS : list (list bool)) (hdrtail : list byte) (sched : list (half nib)),
    length hdrtail = 0 -> length sched = 40 ->
    firstn 164 KS = (rbytes R ++ bitsB hdrtail) ++ concat (map (KernelSpecs2.half_bytes64 bool) sched) ->
    forall blk, length blk = 8 ->
    cB_run 8 164 code fuel fno (concat (bitsB blk) ++ concat (firstn 164 KS))
    = concat (bitsB (m64_decrypt {| ks_rounds := N.of_nat R; ks_sched := sched |} blk)).
  Proof.
    intros fno KS hdrtail sched Hh Hs HKS blk Hb. unfold cB_run. cbv zeta.
    (* the header as a byte list: rbytes R is the image of 4 bytes *)
    set (hdr := map (c8_of_bits bool false) (rbytes R) ++ hdrtail).
    assert (Ehdr : bitsB hdr = rbytes R ++ bitsB hdrtail).
    { unfold hdr. rewrite map_app. f_equal. }
    assert (Lhdr : length hdr = 4).
    { unfold hdr. rewrite app_length, map_length. unfold rbytes. cbn [bytes_of length]. unfold byte in *. lia. }
    assert (Lks : length (firstn 164 KS) = 164).
    { rewrite HKS, <- Ehdr, app_length, map_length, sched_image_len64. unfold byte in *. lia. }
    assert (K8 : bytes8 (firstn 164 KS)).
    { rewrite HKS, <- Ehdr. apply Forall_app. split; [apply bitsB_bytes8|].
      apply Forall_concat. apply Forall_forall. intros x Hx. apply in_map_iff in Hx. destruct Hx as [e [<- _]]. apply hb64_len8. }
    rewrite (decode_arg blk (firstn 164 KS) 8 164 Hb Lks K8).
    rewrite firstn_app, map_length, Hb, Nat.sub_diag, firstn_O, app_nil_r, firstn_all2 by (rewrite map_length; lia).
    rewrite skipn_app, map_length, Hb, Nat.sub_diag, skipn_all2 by (rewrite map_length; lia). cbn [app skipn].
    rewrite HKS, <- Ehdr.
    change (repeat (zbyte bool false) 8) with (bitsB (zeros 8)).
    change (bitsB hdr ++ concat (map (KernelSpecs2.half_bytes64 bool) sched)) with (ks_image64 (bitsB hdr) sched).
    destruct (dec64_final code fuel R pl' sh' c t HR0 HR Hflat Hcheck (zeros 8) blk (zeros 8) hdr sched
                eq_refl Hb eq_refl Lhdr Hs) as [st' [Hint [Hout _]]].
    { unfold ks_image64, ks_image. rewrite Ehdr. apply field_val_rounds.
      apply N.le_lt_trans with (m := 40%N); [lia | vm_compute; reflexivity]. }
    rewrite Hint, Hout. reflexivity.
  Qed.
End ComposeDec64.
Theorem ppar128_dec_composed :
  forall fields code fuel pl sh pl' sh' c t has_vt psize fvec fblk size (rsz : list nat)     (* skinny128_parallel_ecb_decrypt *)
         code2 fuel2 R pl2 sh2 c2 t2,                                                        (* skinny128_ecb_decrypt *)
  fields_okb fields = true ->
  flat fields fuel pl sh code = Some (pl', sh', c, t) ->
  check_proc (size :: size :: rsz) c (pspec 456 poly has_vt psize 16 fvec fblk size) = true ->
  0 < R -> R <= 56 ->
  flat [ksf] fuel2 [0; 0; 0]%N [(ksf, N.of_nat R)] code2 = Some (pl2, sh2, c2, t2) ->
  check_block_w callP sizes128 2 8 c2 (dec_offs 8 8 R)
    (dec_stepsW poly (k128_subcells_inv poly pxor pand pzero pone) (k128_dec_linear poly pxor pzero pone) R)
    (dec_stepsW bool (k128_subcells_inv bool xorb andb false true) (k128_dec_linear bool xorb false true) R) = true ->
  forall (V : nat -> list bool -> list bool) (out inp hdrtail : list byte) (sched : list (half byte)) (EO back : list (list bool)) (rest : mem bool),
  0 < psize -> psize mod 16 = 0 -> size mod 16 = 0 -> fvec <> fblk ->
  length out = size -> length inp = size -> length hdrtail = 4 -> length sched = 56 -> bytes8 back ->
  let KS := ((rbytes R ++ bitsB hdrtail) ++ concat (map (KernelSpecs2.half_bytes128 bool) sched)) ++ back in
  let E := m128_decrypt {| ks_rounds := N.of_nat R; ks_sched := sched |} in
  (forall grp, length grp = psize ->
     V fvec (concat (bitsB grp) ++ concat (firstn 456 KS)) = concat (bitsB (concat (map E (blocks 16 grp))))) ->
  let m0 : mem bool := bitsB out :: bitsB inp :: EO :: KS :: rest in
  shaped (size :: size :: rsz) m0 -> SIRProofs.Inv fields sh m0 ->
  exists st', interp fields (cB_half fblk (cB_run 16 456 code2 fuel2) V) fuel pl (m0, []) code = Some (pl', st', t)
    /\ fst st' = bitsB (concat (map E (blocks 16 inp))) :: bitsB inp :: EO :: KS :: rest.
Proof.
  intros fields code fuel pl sh pl' sh' c t has_vt psize fvec fblk size rsz code2 fuel2 R pl2 sh2 c2 t2 Hf Hfl Hk HR0 HR Hfl2 Hk2
         V out inp hdrtail sched EO back rest Hps Hpm Hsm Hne Ho Hi Hh Hs Hb8 KS E HV m0 Hm HI.
  unfold byte in *.
  assert (Lpre : length ((rbytes R ++ bitsB hdrtail) ++ concat (map (KernelSpecs2.half_bytes128 bool) sched)) = 456).
  { rewrite !app_length, map_length, sched_image_len128, rbytes_len. unfold byte in *. lia. }
  assert (FKS : firstn 456 KS = (rbytes R ++ bitsB hdrtail) ++ concat (map (KernelSpecs2.half_bytes128 bool) sched)).
  { unfold KS. rewrite <- Lpre, firstn_app, Nat.sub_diag, firstn_O, app_nil_r. apply firstn_all. }
  assert (KS8 : bytes8 KS).
  { unfold KS. repeat (apply Forall_app; split); try apply bitsB_bytes8; try apply bytes_of_bytes8; try assumption.
    apply Forall_concat. apply Forall_forall. intros x Hx. apply in_map_iff in Hx. destruct Hx as [e [<- _]]. apply hb128_len8. }
  apply (ppar_model fields code fuel pl sh pl' sh' c t 456 has_vt psize 16 fvec fblk size rsz Hf Hfl Hk
           (cB_half fblk (cB_run 16 456 code2 fuel2) V) E out inp EO KS rest); try assumption; try lia.
  - unfold KS. rewrite app_length, Lpre. lia.
  - intros blk _. apply m128_decrypt_length.
  - intros blk Hb. unfold cB_half. rewrite Nat.eqb_refl.
    exact (dec128_contract code2 fuel2 R pl2 sh2 c2 t2 HR0 HR Hfl2 Hk2 fblk KS hdrtail sched Hh Hs FKS blk Hb).
  - intros grp Hg. unfold cB_half. destruct (Nat.eqb fvec fblk) eqn:Ef; [apply Nat.eqb_eq in Ef; congruence|]. apply HV. exact Hg.
Qed.
Theorem ppar64_dec_composed :
  forall fields code fuel pl sh pl' sh' c t has_vt psize fvec fblk size (rsz : list nat)     (* skinny64_parallel_ecb_decrypt *)
         code2 fuel2 R pl2 sh2 c2 t2,                                                        (* skinny64_ecb_decrypt *)
  fields_okb fields = true ->
  flat fields fuel pl sh code = Some (pl', sh', c, t) ->
  check_proc (size :: size :: rsz) c (pspec 164 poly has_vt psize 8 fvec fblk size) = true ->
  0 < R -> R <= 40 ->
  flat [ksf] fuel2 [0; 0; 0]%N [(ksf, N.of_nat R)] code2 = Some (pl2, sh2, c2, t2) ->
  check_block_w callP sizes64 2 4 c2 (dec_offs 4 4 R)
    (dec_stepsW poly (k64_subcells_inv poly pxor pand pzero pone) (k64_dec_linear poly pxor pzero pone) R)
    (dec_stepsW bool (k64_subcells_inv bool xorb andb false true) (k64_dec_linear bool xorb false true) R) = true ->
  forall (V : nat -> list bool -> list bool) (out inp hdrtail : list byte) (sched : list (half nib)) (EO back : list (list bool)) (rest : mem bool),
  0 < psize -> psize mod 8 = 0 -> size mod 8 = 0 -> fvec <> fblk ->
  length out = size -> length inp = size -> length hdrtail = 0 -> length sched = 40 -> bytes8 back ->
  let KS := ((rbytes R ++ bitsB hdrtail) ++ concat (map (KernelSpecs2.half_bytes64 bool) sched)) ++ back in
  let E := m64_decrypt {| ks_rounds := N.of_nat R; ks_sched := sched |} in
  (forall grp, length grp = psize ->
     V fvec (concat (bitsB grp) ++ concat (firstn 164 KS)) = concat (bitsB (concat (map E (blocks 8 grp))))) ->
  let m0 : mem bool := bitsB out :: bitsB inp :: EO :: KS :: rest in
  shaped (size :: size :: rsz) m0 -> SIRProofs.Inv fields sh m0 ->
  exists st', interp fields (cB_half fblk (cB_run 8 164 code2 fuel2) V) fuel pl (m0, []) code = Some (pl', st', t)
    /\ fst st' = bitsB (concat (map E (blocks 8 inp))) :: bitsB inp :: EO :: KS :: rest.
Proof.
  intros fields code fuel pl sh pl' sh' c t has_vt psize fvec fblk size rsz code2 fuel2 R pl2 sh2 c2 t2 Hf Hfl Hk HR0 HR Hfl2 Hk2
         V out inp hdrtail sched EO back rest Hps Hpm Hsm Hne Ho Hi Hh Hs Hb8 KS E HV m0 Hm HI.
  unfold byte in *.
  assert (Lpre : length ((rbytes R ++ bitsB hdrtail) ++ concat (map (KernelSpecs2.half_bytes64 bool) sched)) = 164).
  { rewrite !app_length, map_length, sched_image_len64, rbytes_len. unfold byte in *. lia. }
  assert (FKS : firstn 164 KS = (rbytes R ++ bitsB hdrtail) ++ concat (map (KernelSpecs2.half_bytes64 bool) sched)).
  { unfold KS. rewrite <- Lpre, firstn_app, Nat.sub_diag, firstn_O, app_nil_r. apply firstn_all. }
  assert (KS8 : bytes8 KS).
  { unfold KS. repeat (apply Forall_app; split); try apply bitsB_bytes8; try apply bytes_of_bytes8; try assumption.
    apply Forall_concat. apply Forall_forall. intros x Hx. apply in_map_iff in Hx. destruct Hx as [e [<- _]]. apply hb64_len8. }
  apply (ppar_model fields code fuel pl sh pl' sh' c t 164 has_vt psize 8 fvec fblk size rsz Hf Hfl Hk
           (cB_half fblk (cB_run 8 164 code2 fuel2) V) E out inp EO KS rest); try assumption; try lia.
  - unfold KS. rewrite app_length, Lpre. lia.
  - intros blk _. apply m64_decrypt_length.
  - intros blk Hb. unfold cB_half. rewrite Nat.eqb_refl.
    exact (dec64_contract code2 fuel2 R pl2 sh2 c2 t2 HR0 HR Hfl2 Hk2 fblk KS hdrtail sched Hh Hs FKS blk Hb).
  - intros grp Hg. unfold cB_half. destruct (Nat.eqb fvec fblk) eqn:Ef; [apply Nat.eqb_eq in Ef; congruence|]. apply HV. exact Hg.
Qed.
Print Assumptions dec128_contract.
Print Assumptions dec64_contract.
Print Assumptions ppar128_dec_composed.
Print Assumptions ppar64_dec_composed.
