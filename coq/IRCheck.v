(* IRCheck.v — the evaluator of IR.v commutes with any homomorphism of bit carriers, in particular with the
   evaluation of GF(2) polynomials (Anf.v) under an assignment; the reflective kernel checker and its
   soundness; segment chaining. *)
From Coq Require Import List Bool NArith Arith Lia.
From Skinny Require Import IR Anf.
Import ListNotations.

(* ================================================================================================== *)
(* generic list facts                                                                                   *)
(* ================================================================================================== *)
Lemma map_repeat' : forall {A B : Type} (f : A -> B) x n, map f (repeat x n) = repeat (f x) n.
Proof. intros A B f x n. induction n as [|n IH]; simpl; [reflexivity | rewrite IH; reflexivity]. Qed.

Lemma last_map' : forall {A B : Type} (f : A -> B) l d, last (map f l) (f d) = f (last l d).
Proof.
  intros A B f l d. induction l as [|x l IH]; [reflexivity|].
  destruct l as [|y l]; [reflexivity|].
  change (last (map f (x :: y :: l)) (f d)) with (last (map f (y :: l)) (f d)).
  rewrite IH. reflexivity.
Qed.

Lemma set_nth_map : forall {A A' : Type} (g : A -> A') i x l,
  map g (set_nth i x l) = set_nth i (g x) (map g l).
Proof.
  intros A A' g i x l. revert i. induction l as [|y l IH]; intros i; [destruct i; reflexivity|].
  destruct i as [|i]; simpl; [reflexivity | rewrite IH; reflexivity].
Qed.

Lemma set_nth_length : forall {A : Type} i (x : A) l, length (set_nth i x l) = length l.
Proof.
  intros A i x l. revert i. induction l as [|y l IH]; intros i; [destruct i; reflexivity|].
  destruct i as [|i]; simpl; [reflexivity | rewrite IH; reflexivity].
Qed.

Lemma Forall_set_nth : forall {A : Type} (P : A -> Prop) i x l,
  P x -> Forall P l -> Forall P (set_nth i x l).
Proof.
  intros A P i x l Hx Hl. revert i. induction Hl as [|y l Hy Hl IH]; intros i; [destruct i; constructor|].
  destruct i as [|i]; simpl; constructor; auto.
Qed.

Lemma nth_set_nth : forall {A : Type} i (x : A) l j d,
  nth j (set_nth i x l) d = if (Nat.eqb j i && Nat.ltb i (length l))%bool then x else nth j l d.
Proof.
  intros A i x l. revert i. induction l as [|y l IH]; intros i j d.
  - destruct i; simpl; rewrite andb_false_r; reflexivity.
  - destruct i as [|i]; destruct j as [|j]; simpl; try reflexivity.
    rewrite IH. reflexivity.
Qed.

Lemma take_pad_length : forall {B : Type} n (p : B) l, length (take_pad B n p l) = n.
Proof.
  intros B n p. induction n as [|n IH]; intros l; [reflexivity|].
  destruct l; simpl; rewrite IH; reflexivity.
Qed.

Lemma lanes_cons : forall {B : Type} f lw (x : B) l,
  lanes B (S f) lw (x :: l) = firstn lw (x :: l) :: lanes B f lw (skipn lw (x :: l)).
Proof. reflexivity. Qed.

(* induction principle for the nested inductive [expr] *)
Lemma expr_ind2 (P : expr -> Prop)
  (HConst : forall w v, P (EConst w v))
  (HLocal : forall x, P (ELocal x))
  (HLoad : forall r off n, P (ELoad r off n))
  (HNot : forall a, P a -> P (ENot a))
  (HBin : forall o a b, P a -> P b -> P (EBin o a b))
  (HShl : forall lw a k, P a -> P (EShl lw a k))
  (HShrL : forall lw a k, P a -> P (EShrL lw a k))
  (HShrA : forall lw a k, P a -> P (EShrA lw a k))
  (HSlice : forall a lo w, P a -> P (ESlice a lo w))
  (HConcat : forall l, Forall P l -> P (EConcat l))
  (HZext : forall w a, P a -> P (EZext w a))
  (HSext : forall w a, P a -> P (ESext w a))
  (HCall : forall f a, P a -> P (ECall f a))
  (HAdd : forall a b, P a -> P b -> P (EAdd a b)) : forall e, P e.
Proof.
  fix IH 1. intros e. destruct e.
  - apply HConst.
  - apply HLocal.
  - apply HLoad.
  - apply HNot, IH.
  - apply HBin; apply IH.
  - apply HShl, IH.
  - apply HShrL, IH.
  - apply HShrA, IH.
  - apply HSlice, IH.
  - apply HConcat. induction l as [|a l IHl]; constructor; [apply IH | exact IHl].
  - apply HZext, IH.
  - apply HSext, IH.
  - apply HCall, IH.
  - apply HAdd; apply IH.
Qed.

(* ================================================================================================== *)
(* the evaluator commutes with homomorphisms of the bit carrier                                         *)
(* ================================================================================================== *)
Section Hom.
  Variables B1 B2 : Type.
  Variables (bx1 ba1 : B1 -> B1 -> B1) (z1 o1 : B1).
  Variables (bx2 ba2 : B2 -> B2 -> B2) (z2 o2 : B2).
  Variable h : B1 -> B2.
  Hypothesis h_bx : forall a b, h (bx1 a b) = bx2 (h a) (h b).
  Hypothesis h_ba : forall a b, h (ba1 a b) = ba2 (h a) (h b).
  Hypothesis h_z : h z1 = z2.
  Hypothesis h_o : h o1 = o2.
  Variable c1 : nat -> list B1 -> list B1.
  Variable c2 : nat -> list B2 -> list B2.
  Hypothesis h_call : forall f l, map h (c1 f l) = c2 f (map h l).

  Definition hm (m : mem B1) : mem B2 := map (map (map h)) m.
  Definition hst (st : mem B1 * list (list B1)) : mem B2 * list (list B2) :=
    (hm (fst st), map (map h) (snd st)).

  Lemma map2_hom : forall f1 f2, (forall x y, h (f1 x y) = f2 (h x) (h y)) ->
    forall a b, map h (map2 B1 f1 a b) = map2 B2 f2 (map h a) (map h b).
  Proof.
    intros f1 f2 Hf a. induction a as [|x a IH]; intros b; [reflexivity|].
    destruct b as [|y b]; [reflexivity|]. simpl. rewrite Hf, IH. reflexivity.
  Qed.

  Lemma add_bits_hom : forall a b c, map h (add_bits B1 bx1 ba1 c a b) = add_bits B2 bx2 ba2 (h c) (map h a) (map h b).
  Proof.
    intros a. induction a as [|x a IH]; intros b c; [reflexivity|].
    destruct b as [|y b]; [reflexivity|]. cbn [add_bits map]. rewrite IH, !h_bx, !h_ba, !h_bx. reflexivity.
  Qed.

  Lemma zeros_hom : forall n, map h (zeros_ B1 z1 n) = zeros_ B2 z2 n.
  Proof. intros n. unfold zeros_. rewrite map_repeat', h_z. reflexivity. Qed.

  Lemma take_pad_hom : forall n p l, map h (take_pad B1 n p l) = take_pad B2 n (h p) (map h l).
  Proof.
    intros n p. induction n as [|n IH]; intros l; [reflexivity|].
    destruct l as [|x l]; simpl.
    - rewrite (IH []). reflexivity.
    - rewrite IH. reflexivity.
  Qed.

  Lemma const_bits_hom : forall w v, map h (const_bits B1 z1 o1 w v) = const_bits B2 z2 o2 w v.
  Proof.
    intros w v. unfold const_bits. rewrite map_map. apply map_ext. intros i.
    destruct (N.testbit v (N.of_nat i)); assumption.
  Qed.

  Lemma lanes_hom : forall fuel lw l, map (map h) (lanes B1 fuel lw l) = lanes B2 fuel lw (map h l).
  Proof.
    intros fuel lw. induction fuel as [|f IH]; intros l; [reflexivity|].
    destruct l as [|x l]; [reflexivity|].
    change (lanes B2 (S f) lw (map h (x :: l)))
      with (firstn lw (map h (x :: l)) :: lanes B2 f lw (skipn lw (map h (x :: l)))).
    rewrite firstn_map, skipn_map, <- IH. reflexivity.
  Qed.

  Lemma on_lanes_hom : forall lw f1 f2, (forall l, map h (f1 l) = f2 (map h l)) ->
    forall l, map h (on_lanes B1 lw f1 l) = on_lanes B2 lw f2 (map h l).
  Proof.
    intros lw f1 f2 Hf l. unfold on_lanes. destruct (Nat.eqb lw 0); [reflexivity|].
    rewrite concat_map, map_map, map_length, <- lanes_hom, map_map.
    f_equal. apply map_ext. intros x. apply Hf.
  Qed.

  Lemma shl1_hom : forall k l, map h (shl1 B1 z1 k l) = shl1 B2 z2 k (map h l).
  Proof.
    intros k l. unfold shl1. rewrite <- firstn_map, map_app, zeros_hom, map_length. reflexivity.
  Qed.

  Lemma shrl1_hom : forall k l, map h (shrl1 B1 z1 k l) = shrl1 B2 z2 k (map h l).
  Proof.
    intros k l. unfold shrl1. rewrite take_pad_hom, <- skipn_map, map_length, h_z. reflexivity.
  Qed.

  Lemma shra1_hom : forall k l, map h (shra1 B1 z1 k l) = shra1 B2 z2 k (map h l).
  Proof.
    intros k l. unfold shra1.
    rewrite take_pad_hom, <- skipn_map, map_length, <- last_map', h_z. reflexivity.
  Qed.

  Lemma nth_hm : forall r m, nth r (hm m) [] = map (map h) (nth r m []).
  Proof.
    intros r m. unfold hm. exact (map_nth (map (map h)) m [] r).
  Qed.

  Lemma load_hom : forall m r off n, map h (load B1 z1 m r off n) = load B2 z2 (hm m) r off n.
  Proof.
    intros m r off n. unfold load. rewrite concat_map, map_map.
    f_equal. apply map_ext. intros i.
    rewrite take_pad_hom, h_z. f_equal.
    rewrite nth_hm.
    replace (byte0_ B2 z2) with (map h (byte0_ B1 z1)) by apply zeros_hom.
    symmetry. apply map_nth.
  Qed.

  Lemma bytes_of_hom : forall n l, map (map h) (bytes_of B1 z1 n l) = bytes_of B2 z2 n (map h l).
  Proof.
    intros n. induction n as [|n IH]; intros l; [reflexivity|].
    cbn [bytes_of map]. rewrite take_pad_hom, h_z, IH, firstn_map, skipn_map. reflexivity.
  Qed.

  Lemma store_bytes_hom : forall bs off reg,
    map (map h) (store_bytes B1 off bs reg) = store_bytes B2 off (map (map h) bs) (map (map h) reg).
  Proof.
    intros bs. induction bs as [|b bs IH]; intros off reg; [reflexivity|].
    simpl. rewrite IH, set_nth_map. reflexivity.
  Qed.

  Lemma store_hom : forall m r off n v,
    hm (store B1 z1 m r off n v) = store B2 z2 (hm m) r off n (map h v).
  Proof.
    intros m r off n v. unfold store.
    rewrite nth_hm, <- bytes_of_hom, <- store_bytes_hom.
    unfold hm. apply set_nth_map.
  Qed.

  Lemma bnot_hom : forall a, h (bnot_ B1 bx1 o1 a) = bnot_ B2 bx2 o2 (h a).
  Proof. intros a. unfold bnot_. rewrite h_bx, h_o. reflexivity. Qed.
  Lemma bor_hom : forall a b, h (bor_ B1 bx1 ba1 a b) = bor_ B2 bx2 ba2 (h a) (h b).
  Proof. intros a b. unfold bor_. rewrite !h_bx, h_ba. reflexivity. Qed.

  Lemma nth_loc_hom : forall x (loc : list (list B1)), nth x (map (map h) loc) [] = map h (nth x loc []).
  Proof.
    intros x loc. exact (map_nth (map h) loc [] x).
  Qed.

  Theorem eval_hom_gen : forall m loc e,
    map h (eval B1 bx1 ba1 z1 o1 c1 m loc e) =
    eval B2 bx2 ba2 z2 o2 c2 (hm m) (map (map h) loc) e.
  Proof.
    intros m loc e. induction e using expr_ind2; cbn [eval].
    - apply const_bits_hom.
    - symmetry. apply nth_loc_hom.
    - apply load_hom.
    - rewrite <- IHe, !map_map. apply map_ext. apply bnot_hom.
    - rewrite <- IHe1, <- IHe2. apply map2_hom.
      destruct o; [apply h_ba | apply bor_hom | apply h_bx].
    - rewrite <- IHe. apply on_lanes_hom. apply shl1_hom.
    - rewrite <- IHe. apply on_lanes_hom. apply shrl1_hom.
    - rewrite <- IHe. apply on_lanes_hom. apply shra1_hom.
    - rewrite <- IHe, take_pad_hom, h_z, skipn_map. reflexivity.
    - rewrite concat_map, map_map. f_equal.
      apply map_ext_in. rewrite Forall_forall in H. exact H.
    - rewrite <- IHe, take_pad_hom, h_z. reflexivity.
    - rewrite <- IHe, take_pad_hom, <- last_map', h_z. reflexivity.
    - rewrite <- IHe. apply h_call.
    - rewrite <- IHe1, <- IHe2, <- h_z. apply add_bits_hom.
  Qed.

  Lemma exec1_hom : forall st s,
    exec1 B2 bx2 ba2 z2 o2 c2 (hst st) s = hst (exec1 B1 bx1 ba1 z1 o1 c1 st s).
  Proof.
    intros [m loc] s. unfold hst. cbn [fst snd]. destruct s as [x e | r off n e]; cbn [exec1 fst snd].
    - rewrite <- eval_hom_gen, map_length. f_equal.
      destruct (Nat.ltb x (length loc)).
      + rewrite set_nth_map. reflexivity.
      + rewrite !map_app, map_repeat'. reflexivity.
    - rewrite <- eval_hom_gen, store_hom. reflexivity.
  Qed.

  Theorem exec_hom_gen : forall p st,
    exec B2 bx2 ba2 z2 o2 c2 p (hst st) = hst (exec B1 bx1 ba1 z1 o1 c1 p st).
  Proof.
    intros p. induction p as [|s p IH]; intros st; [reflexivity|].
    unfold exec in *. cbn [fold_left]. rewrite exec1_hom. apply IH.
  Qed.
End Hom.

(* ================================================================================================== *)
(* the polynomial instance                                                                              *)
(* ================================================================================================== *)
Definition evalP := eval poly pxor pand pzero pone.
Definition execP := exec poly pxor pand pzero pone.
Definition evalB := eval bool xorb andb false true.
Definition execB := exec bool xorb andb false true.
Definition vmap (rho : assignment) (l : list poly) : list bool := map (peval rho) l.
Definition mmap (rho : assignment) (m : mem poly) : mem bool := map (map (vmap rho)) m.

Definition call_hom (cP : nat -> list poly -> list poly) (cB : nat -> list bool -> list bool) : Prop :=
  forall rho f l, vmap rho (cP f l) = cB f (vmap rho l).

Theorem eval_hom : forall cP cB rho, call_hom cP cB -> forall e m loc,
  vmap rho (evalP cP m loc e) = evalB cB (mmap rho m) (map (vmap rho) loc) e.
Proof.
  intros cP cB rho Hc e m loc. unfold vmap, evalP, evalB, mmap.
  apply (eval_hom_gen poly bool pxor pand pzero pone xorb andb false true (peval rho)
           (peval_pxor rho) (peval_pand rho) (peval_pzero rho) (peval_pone rho) cP cB (Hc rho)).
Qed.

Lemma exec_hom_pair : forall cP cB rho, call_hom cP cB -> forall p m loc,
  execB cB p (mmap rho m, map (vmap rho) loc) =
  (mmap rho (fst (execP cP p (m, loc))), map (vmap rho) (snd (execP cP p (m, loc)))).
Proof.
  intros cP cB rho Hc p m loc.
  apply (exec_hom_gen poly bool pxor pand pzero pone xorb andb false true (peval rho)
           (peval_pxor rho) (peval_pand rho) (peval_pzero rho) (peval_pone rho) cP cB (Hc rho) p (m, loc)).
Qed.

Theorem exec_hom : forall cP cB rho, call_hom cP cB -> forall p m loc,
  let '(m', loc') := execP cP p (m, loc) in
  execB cB p (mmap rho m, map (vmap rho) loc) = (mmap rho m', map (vmap rho) loc').
Proof.
  intros cP cB rho Hc p m loc.
  pose proof (exec_hom_pair cP cB rho Hc p m loc) as H.
  destruct (execP cP p (m, loc)) as [m' loc']. exact H.
Qed.

Lemma nth_mmap : forall rho r m, nth r (mmap rho m) [] = map (vmap rho) (nth r m []).
Proof. intros rho r m. unfold mmap. exact (map_nth (map (vmap rho)) m [] r). Qed.

(* ================================================================================================== *)
(* shapes                                                                                               *)
(* ================================================================================================== *)
Definition shaped (sizes : list nat) {B} (m : mem B) : Prop :=
  length m = length sizes /\
  forall r, r < length sizes ->
    length (nth r m []) = nth r sizes 0 /\ Forall (fun b => length b = 8) (nth r m []).

Definition region_ok {B} (n : nat) (reg : list (list B)) : Prop :=
  length reg = n /\ Forall (fun b => length b = 8) reg.
Definition shapedF (sizes : list nat) {B} (m : mem B) : Prop := Forall2 region_ok sizes m.

Lemma shaped_shapedF : forall sizes {B} (m : mem B), shaped sizes m -> shapedF sizes m.
Proof.
  intros sizes B. induction sizes as [|n s IH]; intros m [Hl Hr].
  - destruct m; [constructor | discriminate].
  - destruct m as [|reg m]; [discriminate|].
    constructor.
    + apply (Hr 0). simpl. lia.
    + apply IH. split.
      * simpl in Hl. lia.
      * intros r Hlt. apply (Hr (S r)). simpl. lia.
Qed.

Lemma shapedF_shaped : forall sizes {B} (m : mem B), shapedF sizes m -> shaped sizes m.
Proof.
  intros sizes B m H. induction H as [|n reg s m Hreg Hrest IH].
  - split; [reflexivity|]. intros r Hr. simpl in Hr. lia.
  - destruct IH as [IHl IHr]. split.
    + simpl. rewrite IHl. reflexivity.
    + intros [|r] Hr.
      * exact Hreg.
      * apply IHr. simpl in Hr. lia.
Qed.

Lemma mmap_shapedF : forall rho sizes (m : mem poly), shapedF sizes m -> shapedF sizes (mmap rho m).
Proof.
  intros rho sizes m H. induction H as [|n reg s m [Hl Hf] Hrest IH]; [constructor|].
  unfold mmap. rewrite map_cons. constructor; [|exact IH].
  split.
  - rewrite map_length. exact Hl.
  - apply Forall_map. eapply Forall_impl; [|exact Hf].
    intros b Hb. unfold vmap. rewrite map_length. exact Hb.
Qed.

Lemma mmap_shaped : forall rho sizes (m : mem poly), shaped sizes m -> shaped sizes (mmap rho m).
Proof. intros. apply shapedF_shaped, mmap_shapedF, shaped_shapedF. assumption. Qed.

(* ================================================================================================== *)
(* fresh symbolic memory                                                                                *)
(* ================================================================================================== *)
Definition fresh_byte (k : nat) : list poly := map pvar (seq k 8).
Fixpoint fresh_region (k n : nat) : list (list poly) :=
  match n with
  | O => []
  | S n' => fresh_byte k :: fresh_region (k + 8) n'
  end.
Fixpoint fresh_from (k : nat) (sizes : list nat) : mem poly :=
  match sizes with
  | [] => []
  | n :: s => fresh_region k n :: fresh_from (k + 8 * n) s
  end.
Definition fresh_mem (sizes : list nat) : mem poly := fresh_from 0 sizes.

(* variable v is the v-th bit of the flattened memory *)
Definition assign_of (sizes : list nat) (m : mem bool) : assignment :=
  fun v => nth v (concat (concat m)) false.

Lemma fresh_region_ok : forall n k, region_ok n (fresh_region k n).
Proof.
  induction n as [|n IH]; intros k.
  - split; [reflexivity | constructor].
  - destruct (IH (k + 8)) as [Hl Hf]. split.
    + simpl. rewrite Hl. reflexivity.
    + constructor; [reflexivity | exact Hf].
Qed.

Lemma fresh_from_shapedF : forall sizes k, shapedF sizes (fresh_from k sizes).
Proof.
  induction sizes as [|n s IH]; intros k; [constructor|].
  constructor; [apply fresh_region_ok | apply IH].
Qed.

Lemma fresh_mem_shaped : forall sizes, shaped sizes (fresh_mem sizes).
Proof. intros. apply shapedF_shaped, fresh_from_shapedF. Qed.

Lemma map_seq_flat : forall (rho : nat -> bool) (l : list bool) k,
  (forall j, j < length l -> rho (k + j) = nth j l false) -> map rho (seq k (length l)) = l.
Proof.
  intros rho l. induction l as [|x l IH]; intros k H; [reflexivity|].
  simpl. f_equal.
  - specialize (H 0). rewrite Nat.add_0_r in H. apply H. simpl. lia.
  - apply IH. intros j Hj. specialize (H (S j)). rewrite Nat.add_succ_r in H.
    simpl in H. apply H. lia.
Qed.

Lemma fresh_byte_assign : forall rho k (b : list bool),
  length b = 8 -> (forall j, j < 8 -> rho (k + j) = nth j b false) ->
  vmap rho (fresh_byte k) = b.
Proof.
  intros rho k b Hl H. unfold vmap, fresh_byte. rewrite map_map.
  rewrite (map_ext (fun x => peval rho (pvar x)) rho) by (intros; apply peval_pvar).
  rewrite <- Hl. apply map_seq_flat. rewrite Hl. exact H.
Qed.

Lemma concat_len8 : forall {B} (reg : list (list B)),
  Forall (fun b => length b = 8) reg -> length (concat reg) = 8 * length reg.
Proof.
  intros B reg H. induction H as [|b reg Hb Hr IH]; [reflexivity|].
  cbn [concat length]. rewrite app_length, IH, Hb. lia.
Qed.

Lemma fresh_region_assign : forall rho (reg : list (list bool)) k,
  Forall (fun b => length b = 8) reg ->
  (forall v, v < 8 * length reg -> rho (k + v) = nth v (concat reg) false) ->
  map (vmap rho) (fresh_region k (length reg)) = reg.
Proof.
  intros rho reg. induction reg as [|b reg IH]; intros k Hf H; [reflexivity|].
  inversion Hf as [|b' reg' Hb Hreg]; subst.
  cbn [length fresh_region map]. f_equal.
  - apply fresh_byte_assign; [exact Hb|].
    intros j Hj. rewrite H by (cbn [length]; lia).
    cbn [concat]. apply app_nth1. lia.
  - apply IH; [exact Hreg|].
    intros v Hv. rewrite <- Nat.add_assoc. rewrite H by (cbn [length]; lia).
    cbn [concat]. rewrite app_nth2 by lia. f_equal. lia.
Qed.

Lemma fresh_from_assign : forall rho sizes (m : mem bool) k,
  shapedF sizes m ->
  (forall v, rho (k + v) = nth v (concat (concat m)) false) ->
  mmap rho (fresh_from k sizes) = m.
Proof.
  intros rho sizes m k Hs. revert k.
  induction Hs as [|n reg s m [Hl Hf] Hrest IH]; intros k H; [reflexivity|].
  cbn [fresh_from]. unfold mmap. rewrite map_cons. f_equal.
  - subst n. apply fresh_region_assign; [exact Hf|].
    intros v Hv. rewrite H. cbn [concat]. rewrite concat_app. apply app_nth1.
    rewrite concat_len8 by exact Hf. exact Hv.
  - apply IH. intros v. rewrite <- Nat.add_assoc, H. cbn [concat]. rewrite concat_app.
    rewrite app_nth2; rewrite concat_len8 by exact Hf; subst n; [f_equal|]; lia.
Qed.

Lemma fresh_mem_assign : forall sizes m, shaped sizes m ->
  mmap (assign_of sizes m) (fresh_mem sizes) = m.
Proof.
  intros sizes m Hs. apply fresh_from_assign.
  - apply shaped_shapedF, Hs.
  - intros v. reflexivity.
Qed.

(* ================================================================================================== *)
(* memory equality and the kernel checker                                                               *)
(* ================================================================================================== *)
Definition mem_eqb : mem poly -> mem poly -> bool := list_eqb (list_eqb (list_eqb poly_eqb)).
Lemma mem_eqb_eq : forall a b, mem_eqb a b = true -> a = b.
Proof.
  apply list_eqb_eq. apply list_eqb_eq. apply list_eqb_eq. apply poly_eqb_eq.
Qed.
Lemma mem_eqb_refl : forall a, mem_eqb a a = true.
Proof.
  apply list_eqb_refl. apply list_eqb_refl. apply list_eqb_refl. apply poly_eqb_refl.
Qed.

Definition check_kernel (cP : nat -> list poly -> list poly) (sizes : list nat) (p : list stmt)
                        (specP : mem poly -> mem poly) : bool :=
  mem_eqb (fst (execP cP p (fresh_mem sizes, []))) (specP (fresh_mem sizes)).

Definition spec_hom (sizes : list nat) (sP : mem poly -> mem poly) (sB : mem bool -> mem bool) : Prop :=
  forall rho m, shaped sizes m -> mmap rho (sP m) = sB (mmap rho m).

Theorem check_kernel_sound : forall cP cB sizes p sP sB,
  call_hom cP cB -> spec_hom sizes sP sB -> check_kernel cP sizes p sP = true ->
  forall m : mem bool, shaped sizes m -> fst (execB cB p (m, [])) = sB m.
Proof.
  intros cP cB sizes p sP sB Hc Hs Hk m Hm.
  unfold check_kernel in Hk. apply mem_eqb_eq in Hk.
  pose proof (exec_hom_pair cP cB (assign_of sizes m) Hc p (fresh_mem sizes) []) as He.
  rewrite fresh_mem_assign in He by exact Hm.
  cbn [map] in He. rewrite He. cbn [fst].
  rewrite Hk, Hs by apply fresh_mem_shaped.
  rewrite fresh_mem_assign by exact Hm. reflexivity.
Qed.

(* ================================================================================================== *)
(* sequencing                                                                                           *)
(* ================================================================================================== *)
Lemma exec_app : forall {B} bx ba b0 b1 callf p1 p2 st,
  exec B bx ba b0 b1 callf (p1 ++ p2) st = exec B bx ba b0 b1 callf p2 (exec B bx ba b0 b1 callf p1 st).
Proof. intros. unfold exec. apply fold_left_app. Qed.

(* ================================================================================================== *)
(* locals: a segment that assigns every local before reading it does not depend on the incoming locals   *)
(* ================================================================================================== *)
Definition mem_nat (x : nat) (l : list nat) : bool := existsb (Nat.eqb x) l.

Fixpoint expr_closed (asg : list nat) (e : expr) : bool :=
  match e with
  | EConst _ _ => true
  | ELocal x => mem_nat x asg
  | ELoad _ _ _ => true
  | ENot a => expr_closed asg a
  | EBin _ a b => expr_closed asg a && expr_closed asg b
  | EShl _ a _ => expr_closed asg a
  | EShrL _ a _ => expr_closed asg a
  | EShrA _ a _ => expr_closed asg a
  | ESlice a _ _ => expr_closed asg a
  | EConcat l => forallb (expr_closed asg) l
  | EZext _ a => expr_closed asg a
  | ESext _ a => expr_closed asg a
  | ECall _ a => expr_closed asg a
  | EAdd a b => expr_closed asg a && expr_closed asg b
  end.

Fixpoint locals_closed_from (asg : list nat) (p : list stmt) : bool :=
  match p with
  | [] => true
  | SLocal x e :: p' => expr_closed asg e && locals_closed_from (x :: asg) p'
  | SStore _ _ _ e :: p' => expr_closed asg e && locals_closed_from asg p'
  end.
Definition locals_closed (p : list stmt) : bool := locals_closed_from [] p.

Lemma mem_nat_In : forall x l, mem_nat x l = true -> In x l.
Proof.
  intros x l H. unfold mem_nat in H. apply existsb_exists in H.
  destruct H as [y [Hy E]]. apply Nat.eqb_eq in E. subst y. exact Hy.
Qed.

Definition upd_local {B} (x : nat) (v : list B) (loc : list (list B)) : list (list B) :=
  if Nat.ltb x (length loc) then set_nth x v loc else loc ++ repeat [] (x - length loc) ++ [v].

Lemma nth_upd_local : forall {B} x (v : list B) loc y,
  nth y (upd_local x v loc) [] = if Nat.eqb y x then v else nth y loc [].
Proof.
  intros B x v loc y. unfold upd_local.
  destruct (Nat.ltb x (length loc)) eqn:Hx.
  - rewrite nth_set_nth, Hx, andb_true_r. reflexivity.
  - apply Nat.ltb_ge in Hx.
    destruct (Nat.eqb y x) eqn:Hy.
    + apply Nat.eqb_eq in Hy. subst y.
      rewrite app_nth2 by lia. rewrite app_nth2 by (rewrite repeat_length; lia).
      rewrite repeat_length. replace (x - length loc - (x - length loc)) with 0 by lia. reflexivity.
    + apply Nat.eqb_neq in Hy.
      destruct (Nat.lt_ge_cases y (length loc)) as [Hlt|Hge].
      * apply app_nth1. exact Hlt.
      * rewrite app_nth2 by lia. rewrite (nth_overflow loc) by lia.
        destruct (Nat.lt_ge_cases (y - length loc) (x - length loc)) as [Hlt2|Hge2].
        -- rewrite app_nth1 by (rewrite repeat_length; exact Hlt2). apply nth_repeat.
        -- apply nth_overflow. rewrite app_length, repeat_length. simpl. lia.
Qed.

Section Closed.
  Variable B : Type.
  Variables (bx ba : B -> B -> B) (b0 b1 : B).
  Variable callf : nat -> list B -> list B.

  Definition agree_on (asg : list nat) (l1 l2 : list (list B)) : Prop :=
    forall x, In x asg -> nth x l1 [] = nth x l2 [].

  Lemma eval_agree : forall asg m l1 l2 e, agree_on asg l1 l2 -> expr_closed asg e = true ->
    eval B bx ba b0 b1 callf m l1 e = eval B bx ba b0 b1 callf m l2 e.
  Proof.
    intros asg m l1 l2 e Ha. induction e using expr_ind2; cbn [eval expr_closed]; intros Hc.
    - reflexivity.
    - apply Ha. apply mem_nat_In. exact Hc.
    - reflexivity.
    - rewrite IHe by exact Hc. reflexivity.
    - apply andb_true_iff in Hc. destruct Hc as [H1 H2].
      rewrite IHe1, IHe2 by assumption. reflexivity.
    - rewrite IHe by exact Hc. reflexivity.
    - rewrite IHe by exact Hc. reflexivity.
    - rewrite IHe by exact Hc. reflexivity.
    - rewrite IHe by exact Hc. reflexivity.
    - f_equal. apply map_ext_in. intros a Hin.
      rewrite Forall_forall in H. apply H; [exact Hin|].
      rewrite forallb_forall in Hc. apply Hc. exact Hin.
    - rewrite IHe by exact Hc. reflexivity.
    - rewrite IHe by exact Hc. reflexivity.
    - rewrite IHe by exact Hc. reflexivity.
    - apply andb_true_iff in Hc. destruct Hc as [H1 H2].
      rewrite IHe1, IHe2 by assumption. reflexivity.
  Qed.

  Lemma exec_agree : forall p asg m l1 l2, agree_on asg l1 l2 -> locals_closed_from asg p = true ->
    fst (exec B bx ba b0 b1 callf p (m, l1)) = fst (exec B bx ba b0 b1 callf p (m, l2)).
  Proof.
    intros p. induction p as [|s p IH]; intros asg m l1 l2 Ha Hc; [reflexivity|].
    unfold exec in *. cbn [fold_left]. destruct s as [x e | r off n e]; cbn [locals_closed_from] in Hc;
      apply andb_true_iff in Hc; destruct Hc as [He Hp]; cbn [exec1].
    - rewrite (eval_agree asg m l1 l2 e Ha He).
      apply (IH (x :: asg)); [|exact Hp].
      intros y Hy.
      change (nth y (upd_local x (eval B bx ba b0 b1 callf m l2 e) l1) [] =
              nth y (upd_local x (eval B bx ba b0 b1 callf m l2 e) l2) []).
      rewrite !nth_upd_local. destruct (Nat.eqb y x) eqn:E; [reflexivity|].
      apply Ha. destruct Hy as [Hy|Hy]; [|exact Hy].
      apply Nat.eqb_neq in E. congruence.
    - rewrite (eval_agree asg m l1 l2 e Ha He).
      apply (IH asg); assumption.
  Qed.
End Closed.

Theorem locals_closed_sound : forall {B} bx ba b0 b1 callf p m loc, locals_closed p = true ->
  fst (exec B bx ba b0 b1 callf p (m, loc)) = fst (exec B bx ba b0 b1 callf p (m, [])).
Proof.
  intros B bx ba b0 b1 callf p m loc H.
  apply (exec_agree B bx ba b0 b1 callf p [] m loc []); [|exact H].
  intros x [].
Qed.

(* ================================================================================================== *)
(* shape preservation                                                                                   *)
(* ================================================================================================== *)
Fixpoint stores_in_bounds (sizes : list nat) (p : list stmt) : bool :=
  match p with
  | [] => true
  | SLocal _ _ :: p' => stores_in_bounds sizes p'
  | SStore r off n _ :: p' =>
      Nat.ltb r (length sizes) && Nat.leb (off + n) (nth r sizes 0) && stores_in_bounds sizes p'
  end.

Lemma store_bytes_length : forall {B} bs off (reg : list (list B)),
  length (store_bytes B off bs reg) = length reg.
Proof.
  intros B bs. induction bs as [|b bs IH]; intros off reg; [reflexivity|].
  simpl. rewrite IH. apply set_nth_length.
Qed.

Lemma store_bytes_len8 : forall {B} bs off (reg : list (list B)),
  Forall (fun b => length b = 8) bs -> Forall (fun b => length b = 8) reg ->
  Forall (fun b => length b = 8) (store_bytes B off bs reg).
Proof.
  intros B bs. induction bs as [|b bs IH]; intros off reg Hbs Hreg; [exact Hreg|].
  inversion Hbs; subst. simpl. apply IH; [assumption|].
  apply Forall_set_nth; assumption.
Qed.

Lemma bytes_of_len8 : forall {B} (z : B) n l, Forall (fun b => length b = 8) (bytes_of B z n l).
Proof.
  intros B z n. induction n as [|n IH]; intros l; [constructor|].
  cbn [bytes_of]. constructor; [apply take_pad_length | apply IH].
Qed.

Lemma Forall2_set_nth_upd : forall {A C} (R : A -> C -> Prop) (g : C -> C) (d : C) s m r,
  (forall a c, R a c -> R a (g c)) -> Forall2 R s m ->
  Forall2 R s (set_nth r (g (nth r m d)) m).
Proof.
  intros A C R g d s m r Hg H. revert r.
  induction H as [|a c s m Hac Hrest IH]; intros r; [destruct r; constructor|].
  destruct r as [|r]; simpl.
  - constructor; [apply Hg, Hac | exact Hrest].
  - constructor; [exact Hac | apply IH].
Qed.

(* stores never change the shape (even out-of-bounds ones, which [set_nth] ignores) *)
Lemma store_shapedF : forall {B} (z : B) sizes m r off n v,
  shapedF sizes m -> shapedF sizes (store B z m r off n v).
Proof.
  intros B z sizes m r off n v H. unfold store, shapedF.
  apply (Forall2_set_nth_upd region_ok (store_bytes B off (bytes_of B z n v)) []); [|exact H].
  intros a c [Hl Hf]. split.
  - rewrite store_bytes_length. exact Hl.
  - apply store_bytes_len8; [apply bytes_of_len8 | exact Hf].
Qed.

Theorem exec_shaped_gen : forall {B} bx ba b0 b1 callf sizes p (m : mem B) loc,
  shaped sizes m -> shaped sizes (fst (exec B bx ba b0 b1 callf p (m, loc))).
Proof.
  intros B bx ba b0 b1 callf sizes p. induction p as [|s p IH]; intros m loc H; [exact H|].
  unfold exec in *. cbn [fold_left]. destruct s as [x e | r off n e]; cbn [exec1].
  - apply IH, H.
  - apply IH. apply shapedF_shaped, store_shapedF, shaped_shapedF, H.
Qed.

Theorem exec_shaped : forall cB sizes p m loc, stores_in_bounds sizes p = true -> shaped sizes m ->
  shaped sizes (fst (execB cB p (m, loc))).
Proof. intros cB sizes p m loc _ H. apply exec_shaped_gen, H. Qed.

(* ================================================================================================== *)
(* chaining checked segments                                                                            *)
(* ================================================================================================== *)
Lemma execB_app : forall cB p1 p2 st, execB cB (p1 ++ p2) st = execB cB p2 (execB cB p1 st).
Proof. intros. apply exec_app. Qed.
Lemma execB_closed : forall cB p m loc, locals_closed p = true ->
  fst (execB cB p (m, loc)) = fst (execB cB p (m, [])).
Proof. intros. apply locals_closed_sound. assumption. Qed.

Theorem check_two_segments : forall cP cB sizes p1 p2 s1P s1B s2P s2B,
  call_hom cP cB -> spec_hom sizes s1P s1B -> spec_hom sizes s2P s2B ->
  check_kernel cP sizes p1 s1P = true -> check_kernel cP sizes p2 s2P = true ->
  locals_closed p2 = true -> stores_in_bounds sizes p1 = true ->
  forall m, shaped sizes m -> fst (execB cB (p1 ++ p2) (m, [])) = s2B (s1B m).
Proof.
  intros cP cB sizes p1 p2 s1P s1B s2P s2B Hc H1 H2 K1 K2 L2 S1 m Hm.
  rewrite execB_app.
  pose proof (check_kernel_sound cP cB sizes p1 s1P s1B Hc H1 K1 m Hm) as E1.
  pose proof (exec_shaped cB sizes p1 m [] S1 Hm) as Sh1.
  destruct (execB cB p1 (m, [])) as [m1 loc1]. cbn [fst] in E1, Sh1.
  rewrite execB_closed by exact L2.
  rewrite (check_kernel_sound cP cB sizes p2 s2P s2B Hc H2 K2 m1 Sh1).
  rewrite E1. reflexivity.
Qed.

(* the n-ary version: a segment is a program with the two instances of its specification step *)
Record segment : Type := mkSeg {
  seg_prog : list stmt;
  seg_specP : mem poly -> mem poly;
  seg_specB : mem bool -> mem bool
}.

Definition seg_checked (cP : nat -> list poly -> list poly) (sizes : list nat) (s : segment) : Prop :=
  spec_hom sizes (seg_specP s) (seg_specB s) /\
  check_kernel cP sizes (seg_prog s) (seg_specP s) = true /\
  stores_in_bounds sizes (seg_prog s) = true.

Definition segs_prog (segs : list segment) : list stmt := concat (map seg_prog segs).
Definition segs_specB (segs : list segment) (m : mem bool) : mem bool :=
  fold_left (fun acc s => seg_specB s acc) segs m.

(* the computable part of the hypotheses of [check_segments] (everything except [spec_hom]) *)
Definition check_segments_b (cP : nat -> list poly -> list poly) (sizes : list nat)
                            (segs : list segment) : bool :=
  forallb (fun s => check_kernel cP sizes (seg_prog s) (seg_specP s) &&
                    stores_in_bounds sizes (seg_prog s)) segs &&
  forallb (fun s => locals_closed (seg_prog s)) (tl segs).

Lemma check_segments_any_locals : forall cP cB sizes segs,
  call_hom cP cB ->
  Forall (seg_checked cP sizes) segs ->
  Forall (fun s => locals_closed (seg_prog s) = true) segs ->
  forall m loc, shaped sizes m ->
  fst (execB cB (segs_prog segs) (m, loc)) = segs_specB segs m.
Proof.
  intros cP cB sizes segs Hc. induction segs as [|s segs IH]; intros Hk Hl m loc Hm; [reflexivity|].
  inversion Hk as [|s' segs' [Hs [Kc Sb]] Hk']; subst.
  inversion Hl as [|s' segs' Ls Hl']; subst.
  unfold segs_prog, segs_specB. cbn [map concat fold_left].
  rewrite execB_app.
  assert (E : fst (execB cB (seg_prog s) (m, loc)) = seg_specB s m).
  { rewrite execB_closed by exact Ls.
    apply (check_kernel_sound cP cB sizes (seg_prog s) (seg_specP s) (seg_specB s) Hc Hs Kc m Hm). }
  pose proof (exec_shaped cB sizes (seg_prog s) m loc Sb Hm) as Sh.
  destruct (execB cB (seg_prog s) (m, loc)) as [m1 loc1]. cbn [fst] in E, Sh.
  subst m1. apply (IH Hk' Hl' _ loc1 Sh).
Qed.

Theorem check_segments : forall cP cB sizes segs,
  call_hom cP cB ->
  Forall (seg_checked cP sizes) segs ->
  Forall (fun s => locals_closed (seg_prog s) = true) (tl segs) ->
  forall m, shaped sizes m ->
  fst (execB cB (segs_prog segs) (m, [])) = segs_specB segs m.
Proof.
  intros cP cB sizes segs Hc Hk Hl m Hm. destruct segs as [|s segs]; [reflexivity|].
  cbn [tl] in Hl. inversion Hk as [|s' segs' [Hs [Kc Sb]] Hk']; subst.
  unfold segs_prog, segs_specB. cbn [map concat fold_left].
  rewrite execB_app.
  pose proof (check_kernel_sound cP cB sizes (seg_prog s) (seg_specP s) (seg_specB s) Hc Hs Kc m Hm) as E.
  pose proof (exec_shaped cB sizes (seg_prog s) m [] Sb Hm) as Sh.
  destruct (execB cB (seg_prog s) (m, [])) as [m1 loc1]. cbn [fst] in E, Sh.
  subst m1. apply (check_segments_any_locals cP cB sizes segs Hc Hk' Hl _ loc1 Sh).
Qed.

(* the boolean form: [spec_hom] for every segment plus one computation *)
Theorem check_segments_b_sound : forall cP cB sizes segs,
  call_hom cP cB ->
  Forall (fun s => spec_hom sizes (seg_specP s) (seg_specB s)) segs ->
  check_segments_b cP sizes segs = true ->
  forall m, shaped sizes m ->
  fst (execB cB (segs_prog segs) (m, [])) = segs_specB segs m.
Proof.
  intros cP cB sizes segs Hc Hs Hb. unfold check_segments_b in Hb.
  apply andb_true_iff in Hb. destruct Hb as [Hb1 Hb2].
  rewrite forallb_forall in Hb1. rewrite forallb_forall in Hb2. rewrite Forall_forall in Hs.
  apply (check_segments cP cB sizes segs); [exact Hc | |].
  - apply Forall_forall. intros s Hin. specialize (Hb1 s Hin).
    apply andb_true_iff in Hb1. destruct Hb1 as [K S].
    split; [apply Hs, Hin | split; assumption].
  - apply Forall_forall. exact Hb2.
Qed.

(* ================================================================================================== *)
(* well-formedness of generated programs (a sanity obligation, checked by computation)                  *)
(* ================================================================================================== *)
Fixpoint loads_ok (sizes : list nat) (e : expr) : bool :=
  match e with
  | EConst _ _ => true
  | ELocal _ => true
  | ELoad r off n => Nat.ltb r (length sizes) && Nat.leb (off + n) (nth r sizes 0)
  | ENot a => loads_ok sizes a
  | EBin _ a b => loads_ok sizes a && loads_ok sizes b
  | EShl _ a _ => loads_ok sizes a
  | EShrL _ a _ => loads_ok sizes a
  | EShrA _ a _ => loads_ok sizes a
  | ESlice a _ _ => loads_ok sizes a
  | EConcat l => forallb (loads_ok sizes) l
  | EZext _ a => loads_ok sizes a
  | ESext _ a => loads_ok sizes a
  | ECall _ a => loads_ok sizes a
  | EAdd a b => loads_ok sizes a && loads_ok sizes b
  end.

(* the running list of local widths, updated like the local environment of [exec1]
   (a never-assigned local below an assigned one is the empty vector, of width 0) *)
Definition set_width (x w : nat) (lw : list nat) : list nat :=
  if Nat.ltb x (length lw) then set_nth x w lw else lw ++ repeat 0 (x - length lw) ++ [w].

Fixpoint wf_prog_from (sizes : list nat) (lw : list nat) (p : list stmt) : bool :=
  match p with
  | [] => true
  | SLocal x e :: p' =>
      loads_ok sizes e &&
      match width lw e with
      | Some w => wf_prog_from sizes (set_width x w lw) p'
      | None => false
      end
  | SStore r off n e :: p' =>
      loads_ok sizes e &&
      Nat.ltb r (length sizes) && Nat.leb (off + n) (nth r sizes 0) &&
      match width lw e with
      | Some w => Nat.leb (8 * n) w && wf_prog_from sizes lw p'
      | None => false
      end
  end.
Definition wf_prog (sizes : list nat) (p : list stmt) : bool := wf_prog_from sizes [] p.

(* ================================================================================================== *)
(* toy tests                                                                                            *)
(* ================================================================================================== *)
Module Toy.
  Definition noP : nat -> list poly -> list poly := fun _ l => l.
  Definition noB : nat -> list bool -> list bool := fun _ l => l.
  Definition sizes := [1; 1].
  Definition p : list stmt :=
    [SLocal 0 (ELoad 0 0 1);
     SStore 1 0 1 (EBin BXor (ELocal 0) (EShl 8 (ELocal 0) 1))].

  (* the specification step, written once for any carrier: region 1 byte 0 := x xor (x << 1), x = region 0 byte 0 *)
  Definition spec {B} (bx : B -> B -> B) (z : B) (m : mem B) : mem B :=
    let x := take_pad B 8 z (nth 0 (nth 0 m []) (repeat z 8)) in
    let y := map2 B bx x (firstn 8 (z :: x)) in
    set_nth 1 (set_nth 0 y (nth 1 m [])) m.
  Definition specP := spec pxor pzero.
  Definition specB := spec xorb false.
  (* a wrong specification: shift by two *)
  Definition bad {B} (bx : B -> B -> B) (z : B) (m : mem B) : mem B :=
    let x := take_pad B 8 z (nth 0 (nth 0 m []) (repeat z 8)) in
    let y := map2 B bx x (firstn 8 (z :: z :: x)) in
    set_nth 1 (set_nth 0 y (nth 1 m [])) m.

  Example toy_wf : wf_prog sizes p = true.
  Proof. vm_compute. reflexivity. Qed.
  Example toy_closed : locals_closed p = true.
  Proof. vm_compute. reflexivity. Qed.
  Example toy_bounds : stores_in_bounds sizes p = true.
  Proof. vm_compute. reflexivity. Qed.
  Example toy_check : check_kernel noP sizes p specP = true.
  Proof. vm_compute. reflexivity. Qed.
  Example toy_check_bad : check_kernel noP sizes p (bad pxor pzero) = false.
  Proof. vm_compute. reflexivity. Qed.
  Example toy_not_closed : locals_closed [SStore 1 0 1 (ELocal 0)] = false.
  Proof. vm_compute. reflexivity. Qed.
  Example toy_not_wf : wf_prog sizes [SStore 1 1 1 (ELoad 0 0 1)] = false.
  Proof. vm_compute. reflexivity. Qed.

  Lemma toy_call_hom : call_hom noP noB.
  Proof. intros rho f l. reflexivity. Qed.

  Lemma toy_spec_hom : spec_hom sizes specP specB.
  Proof.
    intros rho m _. unfold specP, specB, spec.
    rewrite !nth_mmap. unfold mmap at 1. rewrite !set_nth_map. fold (mmap rho m).
    f_equal. f_equal. unfold vmap.
    rewrite (map2_hom poly bool (peval rho) pxor xorb (peval_pxor rho)).
    rewrite <- firstn_map. cbn [map].
    rewrite (take_pad_hom poly bool (peval rho)).
    change (peval rho pzero) with false.
    change (repeat false 8) with (map (peval rho) (repeat pzero 8)).
    rewrite map_nth. reflexivity.
  Qed.

  Theorem toy_correct : forall m : mem bool, shaped sizes m -> fst (execB noB p (m, [])) = specB m.
  Proof.
    apply (check_kernel_sound noP noB sizes p specP specB toy_call_hom toy_spec_hom toy_check).
  Qed.
End Toy.
