(* ProofsApiErr.v — the error contract of the library's public API, proved on
   the API model (Api.v):

   PART 1.  An independent boolean classifier [invalid] of the calls the
   documentation calls invalid (NULL object, NULL key, key / tweak / counter
   length out of range, unsupported MANTIS round count, a byte count that is
   not a whole number of blocks, NULL data pointers, an object that is zeroed,
   failed to initialise or was cleaned up).  Invalid calls return 0 and leave
   the world exactly as it was; valid calls return 1; any history gives the
   same results with the invalid calls removed.

   PART 2.  Read-only operations leave the world untouched; [step] respects
   world equivalence; operations on different objects commute; interleavings
   of two threads working on disjoint objects give each thread the results of
   its own sequential run. *)
From Coq Require Import List Bool NArith Arith Lia.
From Skinny Require Import Bits SpecSkinny SpecMantis ModelCipher ModelCtr ModelCpu Api
  ProofsSkinny ProofsMantis ProofsCtr.
Import ListNotations.

(* ================================================================== *)
(* PART 1 — the classifier                                              *)
(* ================================================================== *)

(* block size of the family a kind belongs to *)
Definition kbs (k : kind) : N := match k with K128 | T128 | C128 | P128 => 16 | _ => 8 end.
(* zeroed, failed init, cleaned up *)
Definition inert_ctr {K} (c : ctrobj K) : bool := match c with CNull => true | _ => false end.
Definition inert_par {K} (p : parobj K) : bool := match p with PObj _ None _ => true | _ => false end.
(* is the named object an inert CTR / parallel object? (false for other kinds and absent ids) *)
Definition inert (w : world) (id : N) : bool :=
  match lookup w id with
  | Some (OC128 c) => inert_ctr c | Some (OC64 c) => inert_ctr c | Some (OMC c) => inert_ctr c
  | Some (OP128 p) => inert_par p | Some (OP64 p) => inert_par p | Some (OMP p) => inert_par p
  | _ => false end.
Definition isnull {A} (o : option A) : bool := match o with None => true | Some _ => false end.
Definition out_of (lo hi size : N) : bool := (size <? lo)%N || (hi <? size)%N.
(* NULL object or inert object *)
Definition obj_inert (w : world) (o : option N) : bool :=
  match o with None => true | Some id => inert w id end.

Definition invalid (w : world) (o : op) : bool :=
  match o with
  | OSetKey k ob key size => obj_inert w ob || isnull key || out_of (kbs k) (3 * kbs k) size
  | OSetTweakedKey k ob key size => obj_inert w ob || isnull key || out_of (kbs k) (2 * kbs k) size
  | OSetTweak k ob tw size =>
      obj_inert w ob || (match k with MK | MC => negb (size =? 8)%N | _ => out_of 1 (kbs k) size end)
  | OMSetKey k ob key size rounds mode =>
      obj_inert w ob || isnull key || negb (size =? 16)%N || out_of 5 8 rounds
  | OInit k ob => isnull ob
  | OSetCtr k ob c size => obj_inert w ob || (kbs k <? size)%N
  | OCrypt k ob inp size outnull => obj_inert w ob || isnull inp || outnull
  | OParEnc k ob data size | OParDec k ob data size =>
      obj_inert w ob || negb (N.modulo size (kbs k) =? 0)%N
  | OMParCrypt ob data tw size => obj_inert w ob || negb (N.modulo size 8 =? 0)%N
  | _ => false
  end.

(* int-returning = the ops listed in [invalid] *)
Definition int_returning (o : op) : bool :=
  match o with
  | OSetKey _ _ _ _ | OSetTweakedKey _ _ _ _ | OSetTweak _ _ _ _ | OMSetKey _ _ _ _ _ _
  | OInit _ _ | OSetCtr _ _ _ _ | OCrypt _ _ _ _ _ | OParEnc _ _ _ _ | OParDec _ _ _ _
  | OMParCrypt _ _ _ _ => true
  | _ => false
  end.

(* ---------------- well-typed calls ---------------- *)
Definition live_ctr {K} (c : ctrobj K) : bool := match c with CJunk => false | _ => true end.
Definition live_par {K} (p : parobj K) : bool := match p with PJunk _ => false | _ => true end.

(* object x is of kind k and is not uninitialised memory *)
Definition has_kind (k : kind) (x : obj) : bool :=
  match k, x with
  | K128, OK128 _ | T128, OT128 _ | K64, OK64 _ | T64, OT64 _ | MK, OMK _ => true
  | C128, OC128 c => live_ctr c | C64, OC64 c => live_ctr c | MC, OMC c => live_ctr c
  | P128, OP128 p => live_par p | P64, OP64 p => live_par p | MP, OMP p => live_par p
  | _, _ => false
  end.
(* object x is of kind k; uninitialised memory allowed (what init accepts) *)
Definition has_kind_raw (k : kind) (x : obj) : bool :=
  match k, x with
  | C128, OC128 _ | C64, OC64 _ | MC, OMC _ | P128, OP128 _ | P64, OP64 _ | MP, OMP _ => true
  | _, _ => false
  end.
Definition typed_at (w : world) (ob : option N) (nullok : bool) (allowed : bool) (k : kind) : bool :=
  match ob with
  | None => nullok
  | Some id => allowed && match lookup w id with Some x => has_kind k x | None => false end
  end.

Definition welltyped (w : world) (o : op) : bool :=
  match o with
  | ONew _ _ _ | OCfgBackend _ | OCfgCpuReal | OCfgCpuSim _ | OCfgAmbient _ | OCfgFail _ | OProbe => true
  | OSetKey k ob _ _ =>
      typed_at w ob true (match k with K128 | K64 | C128 | C64 | P128 | P64 => true | _ => false end) k
  | OSetTweakedKey k ob _ _ =>
      typed_at w ob true (match k with T128 | T64 | C128 | C64 => true | _ => false end) k
  | OSetTweak k ob _ _ =>
      typed_at w ob true (match k with T128 | T64 | C128 | C64 | MK | MC => true | _ => false end) k
  | OMSetKey k ob _ _ _ _ =>
      typed_at w ob true (match k with MK | MC | MP => true | _ => false end) k
  | OSwap k ob =>
      typed_at w ob (match k with MP => true | _ => false end)
               (match k with MK | MP => true | _ => false end) k
  | OEnc k ob _ | OImg k ob =>
      typed_at w ob false (match k with K128 | T128 | K64 | T64 | MK => true | _ => false end) k
  | ODec k ob _ =>
      typed_at w ob false (match k with K128 | T128 | K64 | T64 => true | _ => false end) k
  | OCryptT ob _ _ => typed_at w ob false true MK
  | OInit k ob =>
      match ob with
      | None => true
      | Some id => match lookup w id with Some x => has_kind_raw k x | None => false end
      end
  | OCleanup k ob =>
      typed_at w ob true (match k with C128 | C64 | MC | P128 | P64 | MP => true | _ => false end) k
  | OSetCtr k ob _ _ | OCrypt k ob _ _ _ =>
      typed_at w ob true (match k with C128 | C64 | MC => true | _ => false end) k
  | OParEnc k ob _ _ | OParDec k ob _ _ =>
      typed_at w ob true (match k with P128 | P64 => true | _ => false end) k
  | OMParCrypt ob _ _ _ => typed_at w ob true true MP
  | OWhich k ob =>
      typed_at w ob false (match k with C128 | C64 | MC | P128 | P64 | MP => true | _ => false end) k
  | OPsize k ob =>
      typed_at w ob false (match k with P128 | P64 | MP => true | _ => false end) k
  end.

(* ---------------- return codes of the model's setters ---------------- *)
Lemma size_ok_out_of lo hi size :
  size_ok lo hi size = negb (out_of (N.of_nat lo) (N.of_nat hi) size).
Proof.
  unfold size_ok, out_of. rewrite negb_orb, !N.ltb_antisym, !negb_involutive. reflexivity.
Qed.

Definition code (b : bool) : N := if b then 0%N else 1%N.

Section SkinnyCodes.
  Variable C : Type.
  Variable cx : C -> C -> C.
  Variable cnib : bool -> bool -> bool -> bool -> C.
  Variables l2 l3 : C -> C.
  Variable bs : nat.
  Variable load : list byte -> state C.
  Variable czero : C.
  Variable rounds_for : nat -> nat.

  Lemma code_set_key ks key size :
    fst (set_key C cx cnib l2 l3 bs load czero rounds_for ks key size)
    = code (isnull key || out_of (N.of_nat bs) (N.of_nat (3 * bs)) size).
  Proof.
    unfold set_key. destruct key as [k|]; [|reflexivity].
    rewrite size_ok_out_of. cbn [isnull orb].
    destruct (out_of (N.of_nat bs) (N.of_nat (3 * bs)) size); reflexivity.
  Qed.
  Lemma code_set_tweaked_key t key size :
    fst (set_tweaked_key C cx cnib l2 l3 bs load czero rounds_for t key size)
    = code (isnull key || out_of (N.of_nat bs) (N.of_nat (2 * bs)) size).
  Proof.
    unfold set_tweaked_key. destruct key as [k|]; [|reflexivity].
    rewrite size_ok_out_of. cbn [isnull orb].
    destruct (out_of (N.of_nat bs) (N.of_nat (2 * bs)) size); reflexivity.
  Qed.
  Lemma code_set_tweak t tw size :
    fst (set_tweak C cx bs load t tw size) = code (out_of 1 (N.of_nat bs) size).
  Proof.
    unfold set_tweak. rewrite size_ok_out_of. change (N.of_nat 1) with 1%N.
    destruct (out_of 1 (N.of_nat bs) size); reflexivity.
  Qed.
End SkinnyCodes.

Lemma code_m128_set_key ks key size :
  fst (m128_set_key ks key size) = code (isnull key || out_of 16 48 size).
Proof. apply code_set_key. Qed.
Lemma code_m64_set_key ks key size :
  fst (m64_set_key ks key size) = code (isnull key || out_of 8 24 size).
Proof. apply code_set_key. Qed.
Lemma code_m128_set_tweaked_key t key size :
  fst (m128_set_tweaked_key t key size) = code (isnull key || out_of 16 32 size).
Proof. apply code_set_tweaked_key. Qed.
Lemma code_m64_set_tweaked_key t key size :
  fst (m64_set_tweaked_key t key size) = code (isnull key || out_of 8 16 size).
Proof. apply code_set_tweaked_key. Qed.
Lemma code_m128_set_tweak t tw size :
  fst (m128_set_tweak t tw size) = code (out_of 1 16 size).
Proof. apply code_set_tweak. Qed.
Lemma code_m64_set_tweak t tw size :
  fst (m64_set_tweak t tw size) = code (out_of 1 8 size).
Proof. apply code_set_tweak. Qed.
Lemma code_set_plain128 t key size :
  fst (set_plain128 t key size) = code (isnull key || out_of 16 48 size).
Proof.
  unfold set_plain128. rewrite <- code_m128_set_key with (ks := tk_ks byte t).
  destruct (m128_set_key (tk_ks byte t) key size); reflexivity.
Qed.
Lemma code_set_plain64 t key size :
  fst (set_plain64 t key size) = code (isnull key || out_of 8 24 size).
Proof.
  unfold set_plain64. rewrite <- code_m64_set_key with (ks := tk_ks nib t).
  destruct (m64_set_key (tk_ks nib t) key size); reflexivity.
Qed.
Lemma code_mantis_set_key m key size rounds mode :
  fst (mantis_set_key m key size rounds mode)
  = code (isnull key || negb (size =? 16)%N || out_of 5 8 rounds).
Proof.
  unfold mantis_set_key, out_of. destruct key as [k|]; [|reflexivity].
  rewrite !N.ltb_antisym. cbn [isnull orb].
  destruct (size =? 16)%N, (5 <=? rounds)%N, (rounds <=? 8)%N; cbn [andb negb orb];
    try reflexivity; destruct (mode =? 1)%N; reflexivity.
Qed.
Lemma code_mantis_set_tweak m tw size :
  fst (mantis_set_tweak m tw size) = code (negb (size =? 8)%N).
Proof. unfold mantis_set_tweak. destruct (size =? 8)%N; reflexivity. Qed.
Lemma code_set_counter K bs B st cnt size :
  fst (set_counter K bs B st cnt size) = code (N.of_nat bs <? size)%N.
Proof.
  unfold set_counter. rewrite N.ltb_antisym. destruct (size <=? N.of_nat bs)%N; reflexivity.
Qed.

(* ---------------- outcome of a call with reject condition b ---------------- *)
Definition outcome (b : bool) (w : world) (r : world * list event) : Prop :=
  if b then r = (w, [ERet 0%N])
  else exists w', r = (w', [ERet 1%N]) \/ exists out, r = (w', [ERetOut 1%N out]).

Lemma outcome_direct {X} (p : N * X) w id (W : X -> obj) b :
  fst p = code b ->
  outcome b w (let '(r, x') := p in
               if N.eqb r 0 then ret0 w else (store_obj w id (W x'), [ERet r])).
Proof.
  destruct p as [r x']. cbn [fst]. intros ->. destruct b; cbn.
  - reflexivity.
  - eexists. left. reflexivity.
Qed.

Lemma outcome_ctr_setter K bs batch wrap w id be n st (f : K -> N * K) b :
  (forall k, fst (f k) = code b) ->
  outcome b w (ctr_setter K bs batch wrap w id (CLive be n st) f).
Proof.
  intros Hf. unfold ctr_setter. specialize (Hf (c_key st)).
  destruct (f (c_key st)) as [r k']. cbn [fst] in Hf. subst r. destruct b; cbn.
  - reflexivity.
  - eexists. left. reflexivity.
Qed.

Lemma outcome_par_setter K wrap w id vt n k ps (f : K -> N * K) b :
  (forall k, fst (f k) = code b) ->
  outcome b w (par_setter K wrap w id (PObj vt (Some (n, k)) ps) f).
Proof.
  intros Hf. unfold par_setter. specialize (Hf k).
  destruct (f k) as [r k']. cbn [fst] in Hf. subst r. destruct b; cbn.
  - reflexivity.
  - eexists. left. reflexivity.
Qed.

Lemma outcome_ctr_setctr K bs batch wrap w id be n st cnt size :
  outcome (N.of_nat bs <? size)%N w (ctr_setctr K bs batch wrap w id (CLive be n st) cnt size).
Proof.
  unfold ctr_setctr. pose proof (code_set_counter K bs (batch be) st cnt size) as Hc.
  destruct (set_counter K bs (batch be) st cnt size) as [r st']. cbn [fst] in Hc. subst r.
  destruct (N.of_nat bs <? size)%N; cbn.
  - reflexivity.
  - eexists. left. reflexivity.
Qed.

Lemma outcome_ctr_crypt K E bs batch wrap w id be n st inp size outnull :
  0 < bs -> (forall b, 0 < batch b) -> (forall k blk, length (E k blk) = bs) ->
  outcome (isnull inp || outnull) w
          (ctr_crypt K E bs batch wrap w id (CLive be n st) inp size outnull).
Proof.
  intros Hbs HB HE. unfold ctr_crypt. destruct inp as [data|]; [|reflexivity].
  destruct outnull; [reflexivity|]. cbn [isnull orb outcome].
  destruct (crypt_total_any K E bs (batch be) Hbs (HB be) HE st (pad_to (N.to_nat size) data))
    as (st' & out & ->).
  eexists. right. eexists. reflexivity.
Qed.

Lemma outcome_par_run K bs w vt n k ps size f tw data :
  outcome (negb (size mod N.of_nat bs =? 0)%N) w
          (par_run K bs w (PObj vt (Some (n, k)) ps) size f tw data).
Proof.
  unfold par_run. destruct (negb (size mod N.of_nat bs =? 0)%N); cbn.
  - reflexivity.
  - eexists. right. eexists. reflexivity.
Qed.

(* block ciphers return whole blocks *)
Lemma store128_length s : length (store128 s) = 16.
Proof.
  destruct s as [[[r0 r1] r2] r3].
  destruct r0 as [[[? ?] ?] ?], r1 as [[[? ?] ?] ?], r2 as [[[? ?] ?] ?], r3 as [[[? ?] ?] ?].
  reflexivity.
Qed.
Lemma store64_length s : length (store64 s) = 8.
Proof.
  destruct s as [[[r0 r1] r2] r3].
  destruct r0 as [[[? ?] ?] ?], r1 as [[[? ?] ?] ?], r2 as [[[? ?] ?] ?], r3 as [[[? ?] ?] ?].
  reflexivity.
Qed.
Lemma E128_length t blk : length (E128 t blk) = 16.
Proof. unfold E128, m128_encrypt, ecb_encrypt. apply store128_length. Qed.
Lemma E64_length t blk : length (E64 t blk) = 8.
Proof. unfold E64, m64_encrypt, ecb_encrypt. apply store64_length. Qed.
Lemma mantis_crypt_length m blk : length (mantis_crypt m blk) = 8.
Proof. unfold mantis_crypt. apply store64_length. Qed.
Lemma batch128_pos b : 0 < batch128 b. Proof. destruct b; cbn; lia. Qed.
Lemma batch64_pos b : 0 < batch64 b. Proof. destruct b; cbn; lia. Qed.

Ltac code_lemma :=
  first [ exact (code_m128_set_key _ _ _) | exact (code_m64_set_key _ _ _)
        | exact (code_m128_set_tweaked_key _ _ _) | exact (code_m64_set_tweaked_key _ _ _)
        | exact (code_m128_set_tweak _ _ _) | exact (code_m64_set_tweak _ _ _)
        | exact (code_set_plain128 _ _ _) | exact (code_set_plain64 _ _ _)
        | exact (code_mantis_set_key _ _ _ _ _) | exact (code_mantis_set_tweak _ _ _) ].

(* case analysis on a well-typed call on a named object: the kind tag, the
   stored object, and (for CTR / parallel objects) its state *)
Ltac by_kind k w id L :=
  destruct k; try discriminate;
  destruct (lookup w id) as [[]|] eqn:L; try discriminate;
  try match goal with c : ctrobj _ |- _ => destruct c as [| |?be ?n ?st]; try discriminate end;
  try match goal with p : parobj _ |- _ => destruct p as [?f|?vt [[?n ?k0]|] ?ps]; try discriminate end.

Ltac finish_outcome :=
  first [ reflexivity
        | apply outcome_direct; code_lemma
        | apply outcome_ctr_setter; intro; code_lemma
        | apply outcome_par_setter; intro; code_lemma
        | exact (outcome_ctr_setctr _ _ _ _ _ _ _ _ _ _ _)
        | apply outcome_ctr_crypt;
          [ lia | first [exact batch128_pos | exact batch64_pos]
          | first [exact E128_length | exact E64_length | exact mantis_crypt_length] ]
        | exact (outcome_par_run _ _ _ _ _ _ _ _ _ _ _) ].

Lemma step_outcome w o :
  welltyped w o = true -> int_returning o = true ->
  (forall k id, o <> OInit k (Some id)) ->
  outcome (invalid w o) w (step w o).
Proof.
  intros Hwt Hint Hni.
  destruct o as [k id f|be| |c|a|kf| |k ob key size|k ob key size|k ob tw size
                |k ob key size rounds mode|k ob|k ob blk|k ob blk|ob blk tw|k ob
                |k ob|k ob|k ob c size|k ob inp size outnull|k ob data size|k ob data size
                |ob data tw size|k ob|k ob]; try discriminate Hint; clear Hint.
  - (* OSetKey *)
    destruct ob as [id|]; [|reflexivity].
    unfold welltyped, typed_at in Hwt. by_kind k w id L;
      unfold invalid, obj_inert, inert, step; rewrite L; finish_outcome.
  - (* OSetTweakedKey *)
    destruct ob as [id|]; [|reflexivity].
    unfold welltyped, typed_at in Hwt. by_kind k w id L;
      unfold invalid, obj_inert, inert, step; rewrite L; finish_outcome.
  - (* OSetTweak *)
    destruct ob as [id|]; [|reflexivity].
    unfold welltyped, typed_at in Hwt. by_kind k w id L;
      unfold invalid, obj_inert, inert, step; rewrite L; finish_outcome.
  - (* OMSetKey *)
    destruct ob as [id|]; [|reflexivity].
    unfold welltyped, typed_at in Hwt. by_kind k w id L;
      unfold invalid, obj_inert, inert, step; rewrite L; finish_outcome.
  - (* OInit *)
    destruct ob as [id|]; [|reflexivity]. exfalso. exact (Hni k id eq_refl).
  - (* OSetCtr *)
    destruct ob as [id|]; [|reflexivity].
    unfold welltyped, typed_at in Hwt. by_kind k w id L;
      unfold invalid, obj_inert, inert, step; rewrite L; finish_outcome.
  - (* OCrypt *)
    destruct ob as [id|]; [|reflexivity].
    unfold welltyped, typed_at in Hwt. by_kind k w id L;
      unfold invalid, obj_inert, inert, step; rewrite L; finish_outcome.
  - (* OParEnc *)
    destruct ob as [id|]; [|reflexivity].
    unfold welltyped, typed_at in Hwt. by_kind k w id L;
      unfold invalid, obj_inert, inert, step; rewrite L; finish_outcome.
  - (* OParDec *)
    destruct ob as [id|]; [|reflexivity].
    unfold welltyped, typed_at in Hwt. by_kind k w id L;
      unfold invalid, obj_inert, inert, step; rewrite L; finish_outcome.
  - (* OMParCrypt *)
    destruct ob as [id|]; [|reflexivity].
    unfold welltyped, typed_at in Hwt.
    destruct (lookup w id) as [[]|] eqn:L; try discriminate;
    match goal with p : parobj _ |- _ => destruct p as [?f|?vt [[?n ?k0]|] ?ps]; try discriminate end;
      unfold invalid, obj_inert, inert, step; rewrite L; finish_outcome.
Qed.

(* ---------------- the contract ---------------- *)
Theorem invalid_changes_nothing : forall w o,
  welltyped w o = true -> invalid w o = true -> step w o = (w, [ERet 0%N]).
Proof.
  intros w o Hwt Hinv.
  assert (Hint : int_returning o = true) by (destruct o; try discriminate Hinv; reflexivity).
  destruct (match o with OInit _ (Some _) => true | _ => false end) eqn:Hi.
  - destruct o; try discriminate Hi. destruct o; discriminate.
  - pose proof (step_outcome w o Hwt Hint) as H. rewrite Hinv in H. apply H.
    intros k id ->. discriminate Hi.
Qed.

Theorem valid_returns_1 : forall w o,
  welltyped w o = true -> int_returning o = true -> invalid w o = false ->
  (forall k ob, o <> OInit k ob) ->          (* init may also fail for lack of memory *)
  exists w' evs, step w o = (w', evs) /\
    (last evs EDone = ERet 1%N \/ exists out, last evs EDone = ERetOut 1%N out).
Proof.
  intros w o Hwt Hint Hinv Hni.
  pose proof (step_outcome w o Hwt Hint (fun k id => Hni k (Some id))) as H.
  rewrite Hinv in H. destruct H as (w' & [H | (out & H)]); rewrite H.
  - exists w', [ERet 1%N]. split; [reflexivity|]. left. reflexivity.
  - exists w', [ERetOut 1%N out]. split; [reflexivity|]. right. exists out. reflexivity.
Qed.

(* run, one call at a time *)
Lemma run_acc : forall ops w acc,
  fold_left (fun a o => let '(w', ev) := step (fst a) o in (w', snd a ++ [ev])) ops (w, acc)
  = let '(w', evs) := run w ops in (w', acc ++ evs).
Proof.
  unfold run. induction ops as [|o ops IH]; intros w acc; cbn [fold_left].
  - rewrite app_nil_r. reflexivity.
  - cbn [fst snd]. destruct (step w o) as [w1 ev].
    rewrite (IH w1 (acc ++ [ev])), (IH w1 ([] ++ [ev])).
    destruct (fold_left _ ops (w1, [])) as [w' evs]. rewrite <- app_assoc. reflexivity.
Qed.
Lemma run_cons : forall w o ops,
  run w (o :: ops) = let '(w1, ev) := step w o in let '(w', evs) := run w1 ops in (w', ev :: evs).
Proof.
  intros w o ops. unfold run at 1. cbn [fold_left fst snd].
  destruct (step w o) as [w1 ev]. rewrite run_acc. reflexivity.
Qed.
Lemma run_nil : forall w, run w [] = (w, []).
Proof. reflexivity. Qed.

(* any history gives the same results with the invalid calls removed: run_skipping
   does not execute a call that is invalid in the world it would be executed in *)
Fixpoint run_skipping (w : world) (ops : list op) : world * list (list event) :=
  match ops with
  | [] => (w, [])
  | o :: rest =>
      if welltyped w o && invalid w o
      then let '(w', evs) := run_skipping w rest in (w', [ERet 0%N] :: evs)
      else let '(w1, ev) := step w o in
           let '(w', evs) := run_skipping w1 rest in (w', ev :: evs)
  end.

Theorem history_without_invalid : forall ops w, run w ops = run_skipping w ops.
Proof.
  induction ops as [|o ops IH]; intros w; [reflexivity|].
  rewrite run_cons. cbn [run_skipping].
  destruct (welltyped w o && invalid w o) eqn:Hb.
  - apply andb_true_iff in Hb. destruct Hb as [Hwt Hinv].
    rewrite (invalid_changes_nothing w o Hwt Hinv), IH. reflexivity.
  - destruct (step w o) as [w1 ev]. rewrite IH. reflexivity.
Qed.

(* the well-typedness hypothesis excludes exactly the calls the model does not
   define: an ill-typed int-returning call makes step emit EBad *)
Theorem illtyped_is_bad : forall w o,
  int_returning o = true -> welltyped w o = false -> exists n, step w o = (w, [EBad n]).
Proof.
  intros w o Hint Hwt.
  destruct o as [k id f|be| |c|a|kf| |k ob key size|k ob key size|k ob tw size
                |k ob key size rounds mode|k ob|k ob blk|k ob blk|ob blk tw|k ob
                |k ob|k ob|k ob c size|k ob inp size outnull|k ob data size|k ob data size
                |ob data tw size|k ob|k ob]; try discriminate Hint; clear Hint;
  (destruct ob as [id|]; [|discriminate Hwt]);
  unfold welltyped, typed_at in Hwt; unfold step;
  try (destruct k; try (eexists; reflexivity));
  destruct (lookup w id) as [[]|]; try (eexists; reflexivity); try discriminate Hwt;
  match goal with
  | c : ctrobj _ |- _ => destruct c; try discriminate Hwt; eexists; reflexivity
  | p : parobj _ |- _ => destruct p; try discriminate Hwt; eexists; reflexivity
  end.
Qed.

(* ================================================================== *)
(* PART 2 — locality of step                                            *)
(* ================================================================== *)

Definition readonly (o : op) : bool :=
  match o with
  | OEnc _ _ _ | ODec _ _ _ | OCryptT _ _ _ | OImg _ _ | OParEnc _ _ _ _
  | OParDec _ _ _ _ | OMParCrypt _ _ _ _ | OWhich _ _ | OPsize _ _ | OProbe => true
  | _ => false
  end.

Ltac dmatch :=
  repeat match goal with
         | |- context [match ?x with _ => _ end] => destruct x
         end.

Theorem readonly_same_world : forall w o, readonly o = true -> fst (step w o) = w.
Proof.
  intros w o Hr.
  destruct o; try discriminate Hr; clear Hr; unfold step, par_run, bad, ret0;
    dmatch; reflexivity.
Qed.

(* ---------------- worlds as finite maps ---------------- *)
Lemma lookup_store_same w id x : lookup (store_obj w id x) id = Some x.
Proof. unfold lookup, store_obj. cbn. rewrite N.eqb_refl. reflexivity. Qed.

Lemma find_filter_other (l : list (N * obj)) id id' : id' <> id ->
  find (fun p => N.eqb (fst p) id') (filter (fun p => negb (N.eqb (fst p) id)) l)
  = find (fun p => N.eqb (fst p) id') l.
Proof.
  intros Hne. induction l as [|[i x] l IH]; [reflexivity|]. cbn [filter find fst].
  destruct (N.eqb_spec i id) as [->|Hi]; cbn [negb].
  - destruct (N.eqb_spec id id') as [E|_]; [congruence|]. exact IH.
  - cbn [find fst]. rewrite IH. reflexivity.
Qed.
Lemma lookup_store_other w id x id' : id' <> id -> lookup (store_obj w id x) id' = lookup w id'.
Proof.
  intros Hne. unfold lookup, store_obj. cbn [w_objs find fst].
  destruct (N.eqb_spec id id') as [E|_]; [congruence|].
  rewrite find_filter_other by exact Hne. reflexivity.
Qed.

(* worlds are association lists; equivalence = same binding for every id and
   same heap/cpu/config fields *)
Definition weq (w1 w2 : world) : Prop :=
  (forall id, lookup w1 id = lookup w2 id) /\ w_heap w1 = w_heap w2 /\ w_cpu w1 = w_cpu w2
  /\ w_ambient w1 = w_ambient w2 /\ w_build w1 = w_build w2 /\ w_real w1 = w_real w2.

Lemma weq_refl w : weq w w.
Proof. repeat split. Qed.
Lemma weq_sym w1 w2 : weq w1 w2 -> weq w2 w1.
Proof.
  intros (H & ? & ? & ? & ? & ?).
  split; [intro id; symmetry; apply H | repeat split; congruence].
Qed.
Lemma weq_trans w1 w2 w3 : weq w1 w2 -> weq w2 w3 -> weq w1 w3.
Proof.
  intros (H & ? & ? & ? & ? & ?) (H' & ? & ? & ? & ? & ?).
  split; [intro id; rewrite H; apply H' | repeat split; congruence].
Qed.

(* everything step reads beside the target object *)
Definition same_env (w w' : world) : Prop :=
  w_heap w = w_heap w' /\ w_cpu w = w_cpu w' /\ w_ambient w = w_ambient w'
  /\ w_build w = w_build w' /\ w_real w = w_real w'.

Lemma same_env_choose wide w w' : same_env w w' -> choose wide w = choose wide w'.
Proof.
  intros (_ & Hc & Ha & Hb & Hr). unfold choose, cur_cpu. rewrite Hc, Ha, Hb, Hr. reflexivity.
Qed.

(* the object an op acts on *)
Definition target (o : op) : option N :=
  match o with
  | ONew _ id _ => Some id
  | OCfgBackend _ | OCfgCpuReal | OCfgCpuSim _ | OCfgAmbient _ | OCfgFail _ | OProbe => None
  | OSetKey _ ob _ _ | OSetTweakedKey _ ob _ _ | OSetTweak _ ob _ _ | OMSetKey _ ob _ _ _ _
  | OSwap _ ob | OEnc _ ob _ | ODec _ ob _ | OCryptT ob _ _ | OImg _ ob | OInit _ ob
  | OCleanup _ ob | OSetCtr _ ob _ _ | OCrypt _ ob _ _ _ | OParEnc _ ob _ _ | OParDec _ ob _ _
  | OMParCrypt ob _ _ _ | OWhich _ ob | OPsize _ ob => ob
  end.

(* heap-neutral ops: everything except OInit, OCleanup, OCfg*, ONew *)
Definition heap_neutral (o : op) : bool :=
  match o with
  | ONew _ _ _ | OCfgBackend _ | OCfgCpuReal | OCfgCpuSim _ | OCfgAmbient _ | OCfgFail _
  | OInit _ _ | OCleanup _ _ => false
  | _ => true
  end.

(* the shapes of world update step can perform; t = the op's target, hn = whether
   the op is heap-neutral.  The same update is applied to both worlds. *)
Inductive same_upd (w w' : world) : option N -> bool -> world -> world -> Prop :=
| SU_id t hn : same_upd w w' t hn w w'
| SU_store id x hn : same_upd w w' (Some id) hn (store_obj w id x) (store_obj w' id x)
| SU_hstore h id x :
    same_upd w w' (Some id) false (store_obj (with_heap w h) id x) (store_obj (with_heap w' h) id x)
| SU_heap h t : same_upd w w' t false (with_heap w h) (with_heap w' h)
| SU_cpu m t : same_upd w w' t false (with_cpu w m) (with_cpu w' m)
| SU_amb a t : same_upd w w' t false (with_ambient w a) (with_ambient w' a).

(* step reads only the target object and the environment fields, and updates
   only the target object and (init / cleanup / cfg) the environment *)
Lemma step_local : forall w w' o,
  (forall id, target o = Some id -> lookup w id = lookup w' id) ->
  same_env w w' ->
  snd (step w o) = snd (step w' o)
  /\ same_upd w w' (target o) (heap_neutral o) (fst (step w o)) (fst (step w' o)).
Proof.
  intros w w' o Hl He.
  pose proof (same_env_choose true w w' He) as Hct.
  pose proof (same_env_choose false w w' He) as Hcf.
  destruct He as (Hh & Hc & Ha & Hb & Hr).
  destruct o as [k id f|be| |c|a|kf| |k ob key size|k ob key size|k ob tw size
                |k ob key size rounds mode|k ob|k ob blk|k ob blk|ob blk tw|k ob
                |k ob|k ob|k ob c size|k ob inp size outnull|k ob data size|k ob data size
                |ob data tw size|k ob|k ob]; cbn [target heap_neutral] in *;
  try (destruct ob as [id|]; [specialize (Hl id eq_refl)|clear Hl]).
  all: unfold step, ctr_init, ctr_cleanup, ctr_setter, ctr_setctr, ctr_crypt, ctr_which,
         par_init, par_cleanup, par_setter, par_run, par_which, par_psize_ev, bad, ret0, cur_cpu.
  all: try rewrite Hl; try rewrite Hct; try rewrite Hcf; try rewrite Hh; try rewrite Hc;
       try rewrite Ha; try rewrite Hb; try rewrite Hr.
  all: dmatch; cbn [fst snd]; (split; [reflexivity | constructor]).
Qed.

Lemma weq_store w1 w2 id x : weq w1 w2 -> weq (store_obj w1 id x) (store_obj w2 id x).
Proof.
  intros (H & Hrest). split; [|exact Hrest].
  intro id'. destruct (N.eq_dec id' id) as [->|Hne].
  - rewrite !lookup_store_same. reflexivity.
  - rewrite !lookup_store_other by exact Hne. apply H.
Qed.
Lemma weq_with_heap w1 w2 h : weq w1 w2 -> weq (with_heap w1 h) (with_heap w2 h).
Proof. intros (H & _ & Hrest). split; [exact H|]. split; [reflexivity|exact Hrest]. Qed.
Lemma weq_with_cpu w1 w2 m : weq w1 w2 -> weq (with_cpu w1 m) (with_cpu w2 m).
Proof.
  intros (H & Hh & _ & Hrest). split; [exact H|]. split; [exact Hh|]. split; [reflexivity|exact Hrest].
Qed.
Lemma weq_with_ambient w1 w2 a : weq w1 w2 -> weq (with_ambient w1 a) (with_ambient w2 a).
Proof.
  intros (H & Hh & Hc & _ & Hrest).
  split; [exact H|]. split; [exact Hh|]. split; [exact Hc|]. split; [reflexivity|exact Hrest].
Qed.

Lemma same_upd_weq w w' t hn wa wb : weq w w' -> same_upd w w' t hn wa wb -> weq wa wb.
Proof.
  intros Hw Hu. destruct Hu.
  - exact Hw.
  - apply weq_store, Hw.
  - apply weq_store, weq_with_heap, Hw.
  - apply weq_with_heap, Hw.
  - apply weq_with_cpu, Hw.
  - apply weq_with_ambient, Hw.
Qed.

Theorem step_respects_weq : forall w1 w2 o,
  weq w1 w2 -> weq (fst (step w1 o)) (fst (step w2 o)) /\ snd (step w1 o) = snd (step w2 o).
Proof.
  intros w1 w2 o Hw. pose proof Hw as (Hl & He).
  destruct (step_local w1 w2 o (fun id _ => Hl id) He) as [Hev Hu].
  split; [exact (same_upd_weq _ _ _ _ _ _ Hw Hu) | exact Hev].
Qed.

(* a heap-neutral op either leaves both worlds alone or stores the same new
   object under its target in both *)
Lemma same_upd_neutral w w' t wa wb :
  same_upd w w' t true wa wb ->
  (wa = w /\ wb = w') \/
  (exists id x, t = Some id /\ wa = store_obj w id x /\ wb = store_obj w' id x).
Proof.
  intros Hu. inversion Hu; subst.
  - left. split; reflexivity.
  - right. eexists _, _. repeat split.
Qed.

Lemma same_env_refl w : same_env w w.
Proof. repeat split. Qed.
Lemma same_env_store_l w w' id x : same_env w w' -> same_env (store_obj w id x) w'.
Proof. intros H. exact H. Qed.
Lemma same_env_store_r w w' id x : same_env w w' -> same_env w (store_obj w' id x).
Proof. intros H. exact H. Qed.

Theorem distinct_objects_commute : forall w o1 o2 id1 id2,
  target o1 = Some id1 -> target o2 = Some id2 -> id1 <> id2 ->
  heap_neutral o1 = true -> heap_neutral o2 = true ->
  let '(wa, ea1) := step w o1 in let '(wab, ea2) := step wa o2 in
  let '(wb, eb2) := step w o2 in let '(wba, eb1) := step wb o1 in
  weq wab wba /\ ea1 = eb1 /\ ea2 = eb2.
Proof.
  intros w o1 o2 id1 id2 Ht1 Ht2 Hne Hn1 Hn2.
  (* o2 from w: unchanged or a store under id2 *)
  destruct (step_local w w o2 (fun _ _ => eq_refl) (same_env_refl w)) as [_ Hu2].
  rewrite Hn2, Ht2 in Hu2. apply same_upd_neutral in Hu2.
  (* o1 from w and from wb *)
  assert (H1 : snd (step w o1) = snd (step (fst (step w o2)) o1)
               /\ same_upd w (fst (step w o2)) (Some id1) true
                           (fst (step w o1)) (fst (step (fst (step w o2)) o1))).
  { rewrite <- Ht1, <- Hn1. apply step_local.
    - intros id Hid. rewrite Ht1 in Hid. injection Hid as <-.
      destruct Hu2 as [[-> _] | (i & x & Hi & -> & _)]; [reflexivity|].
      injection Hi as <-. rewrite lookup_store_other by exact Hne. reflexivity.
    - destruct Hu2 as [[-> _] | (i & x & Hi & -> & _)]; [apply same_env_refl|].
      apply same_env_store_r, same_env_refl. }
  destruct H1 as [He1 Hu1]. apply same_upd_neutral in Hu1.
  (* o2 from wa and from w *)
  assert (H2 : snd (step (fst (step w o1)) o2) = snd (step w o2)
               /\ same_upd (fst (step w o1)) w (Some id2) true
                           (fst (step (fst (step w o1)) o2)) (fst (step w o2))).
  { rewrite <- Ht2, <- Hn2. apply step_local.
    - intros id Hid. rewrite Ht2 in Hid. injection Hid as <-.
      destruct Hu1 as [[-> _] | (i & x & Hi & -> & _)]; [reflexivity|].
      injection Hi as <-. apply lookup_store_other. intro E. apply Hne. symmetry. exact E.
    - destruct Hu1 as [[-> _] | (i & x & Hi & -> & _)]; [apply same_env_refl|].
      apply same_env_store_l, same_env_refl. }
  destruct H2 as [He2 Hu2']. apply same_upd_neutral in Hu2'.
  clear Hu2.
  destruct (step w o1) as [wa ea1]. cbn [fst snd] in *.
  destruct (step wa o2) as [wab ea2]. cbn [fst snd] in *.
  destruct (step w o2) as [wb eb2]. cbn [fst snd] in *.
  destruct (step wb o1) as [wba eb1]. cbn [fst snd] in *.
  split; [|split; [exact He1 | exact He2]].
  destruct Hu1 as [[-> ->] | (i1 & x1 & Hi1 & -> & ->)];
    destruct Hu2' as [[-> E2] | (i2 & x2 & Hi2 & -> & E2)].
  - subst. apply weq_refl.
  - subst. apply weq_refl.
  - subst. apply weq_refl.
  - injection Hi1 as <-. injection Hi2 as <-. subst wb.
    split; [|repeat split].
    intro id. destruct (N.eq_dec id id1) as [->|N1].
    + rewrite lookup_store_other by exact Hne. rewrite !lookup_store_same. reflexivity.
    + destruct (N.eq_dec id id2) as [->|N2].
      * rewrite lookup_store_same. rewrite lookup_store_other by exact N1.
        rewrite lookup_store_same. reflexivity.
      * rewrite !lookup_store_other by assumption. reflexivity.
Qed.

(* ---------------- two threads on disjoint objects ---------------- *)
Lemma run_cons_fst w o ops : fst (run w (o :: ops)) = fst (run (fst (step w o)) ops).
Proof. rewrite run_cons. destruct (step w o) as [w1 ev]. cbn [fst]. destruct (run w1 ops). reflexivity. Qed.
Lemma run_cons_snd w o ops :
  snd (run w (o :: ops)) = snd (step w o) :: snd (run (fst (step w o)) ops).
Proof. rewrite run_cons. destruct (step w o) as [w1 ev]. cbn [fst snd]. destruct (run w1 ops). reflexivity. Qed.

(* l is an interleaving of l1 (tagged true) and l2 (tagged false) *)
Inductive interleave {A : Type} : list A -> list A -> list (bool * A) -> Prop :=
| il_nil : interleave [] [] []
| il_left a l1 l2 l : interleave l1 l2 l -> interleave (a :: l1) l2 ((true, a) :: l)
| il_right a l1 l2 l : interleave l1 l2 l -> interleave l1 (a :: l2) ((false, a) :: l).

(* the results that belong to one thread *)
Fixpoint proj {B : Type} (side : bool) (tags : list bool) (evs : list B) : list B :=
  match tags, evs with
  | t :: ts, e :: es => if Bool.eqb t side then e :: proj side ts es else proj side ts es
  | _, _ => []
  end.

(* the ids a history acts on *)
Definition touches (l : list op) (id : N) : Prop := exists o, In o l /\ target o = Some id.

(* two worlds agree on a set of objects and on the environment *)
Definition agree_on (S : N -> Prop) (w w1 : world) : Prop :=
  (forall id, S id -> lookup w id = lookup w1 id) /\ same_env w w1.

Lemma step_own (S : N -> Prop) w w1 o :
  agree_on S w w1 -> heap_neutral o = true -> (forall id, target o = Some id -> S id) ->
  snd (step w o) = snd (step w1 o) /\ agree_on S (fst (step w o)) (fst (step w1 o)).
Proof.
  intros [Hl He] Hn Ht.
  destruct (step_local w w1 o (fun id H => Hl id (Ht id H)) He) as [Hev Hu].
  split; [exact Hev|]. rewrite Hn in Hu. apply same_upd_neutral in Hu.
  destruct Hu as [[-> ->] | (i & x & Hi & -> & ->)]; [split; assumption|].
  split; [|exact He].
  intros id Hid. destruct (N.eq_dec id i) as [->|Hne].
  - rewrite !lookup_store_same. reflexivity.
  - rewrite !lookup_store_other by exact Hne. apply Hl, Hid.
Qed.

Lemma step_other (S : N -> Prop) w w1 o :
  agree_on S w w1 -> heap_neutral o = true -> (forall id, target o = Some id -> ~ S id) ->
  agree_on S (fst (step w o)) w1.
Proof.
  intros [Hl He] Hn Ht.
  destruct (step_local w w o (fun _ _ => eq_refl) (same_env_refl w)) as [_ Hu].
  rewrite Hn in Hu. apply same_upd_neutral in Hu.
  destruct Hu as [[-> _] | (i & x & Hi & -> & _)]; [split; assumption|].
  split; [|exact He].
  intros id Hid. rewrite lookup_store_other; [apply Hl, Hid|].
  intros ->. exact (Ht i Hi Hid).
Qed.

Lemma interleave_side : forall l1 l2 l, interleave l1 l2 l ->
  forall (b : bool) (S : N -> Prop) w w1,
  (forall o, In o l1 -> heap_neutral o = true) ->
  (forall o, In o l2 -> heap_neutral o = true) ->
  (forall o id, In o (if b then l1 else l2) -> target o = Some id -> S id) ->
  (forall o id, In o (if b then l2 else l1) -> target o = Some id -> ~ S id) ->
  agree_on S w w1 ->
  proj b (map fst l) (snd (run w (map snd l))) = snd (run w1 (if b then l1 else l2))
  /\ agree_on S (fst (run w (map snd l))) (fst (run w1 (if b then l1 else l2))).
Proof.
  induction 1 as [|a l1 l2 l Hil IH|a l1 l2 l Hil IH]; intros b S w w1 Hn1 Hn2 Hin Hout Hag.
  - destruct b; cbn; split; try reflexivity; exact Hag.
  - cbn [map fst snd]. rewrite run_cons_fst, run_cons_snd. cbn [proj].
    destruct b; cbn [Bool.eqb].
    + destruct (step_own S w w1 a Hag (Hn1 a (or_introl eq_refl))
                         (fun id H => Hin a id (or_introl eq_refl) H)) as [Hev Hag'].
      rewrite run_cons_fst, run_cons_snd, Hev.
      destruct (IH true S _ _ (fun o H => Hn1 o (or_intror H)) Hn2
                   (fun o id H => Hin o id (or_intror H)) Hout Hag') as [IHe IHa].
      split; [f_equal; exact IHe | exact IHa].
    + pose proof (step_other S w w1 a Hag (Hn1 a (or_introl eq_refl))
                             (fun id H => Hout a id (or_introl eq_refl) H)) as Hag'.
      exact (IH false S _ _ (fun o H => Hn1 o (or_intror H)) Hn2
                Hin (fun o id H => Hout o id (or_intror H)) Hag').
  - cbn [map fst snd]. rewrite run_cons_fst, run_cons_snd. cbn [proj].
    destruct b; cbn [Bool.eqb].
    + pose proof (step_other S w w1 a Hag (Hn2 a (or_introl eq_refl))
                             (fun id H => Hout a id (or_introl eq_refl) H)) as Hag'.
      exact (IH true S _ _ Hn1 (fun o H => Hn2 o (or_intror H))
                Hin (fun o id H => Hout o id (or_intror H)) Hag').
    + destruct (step_own S w w1 a Hag (Hn2 a (or_introl eq_refl))
                         (fun id H => Hin a id (or_introl eq_refl) H)) as [Hev Hag'].
      rewrite run_cons_fst, run_cons_snd, Hev.
      destruct (IH false S _ _ Hn1 (fun o H => Hn2 o (or_intror H))
                   (fun o id H => Hin o id (or_intror H)) Hout Hag') as [IHe IHa].
      split; [f_equal; exact IHe | exact IHa].
Qed.

Lemma agree_on_refl S w : agree_on S w w.
Proof. split; [reflexivity | apply same_env_refl]. Qed.

(* any interleaving of two threads' heap-neutral histories on disjoint sets of
   objects gives each thread the results of its own sequential run, and leaves
   each thread's objects as its own sequential run leaves them *)
Theorem interleaving_independent : forall l1 l2 l w,
  interleave l1 l2 l ->
  (forall o, In o l1 -> heap_neutral o = true) ->
  (forall o, In o l2 -> heap_neutral o = true) ->
  (forall id, touches l1 id -> touches l2 id -> False) ->
  let r := run w (map snd l) in
  proj true (map fst l) (snd r) = snd (run w l1)
  /\ proj false (map fst l) (snd r) = snd (run w l2)
  /\ (forall id, touches l1 id -> lookup (fst r) id = lookup (fst (run w l1)) id)
  /\ (forall id, touches l2 id -> lookup (fst r) id = lookup (fst (run w l2)) id).
Proof.
  intros l1 l2 l w Hil Hn1 Hn2 Hdis r.
  destruct (interleave_side l1 l2 l Hil true (touches l1) w w Hn1 Hn2) as [E1 [A1 _]].
  - intros o id Ho Ht. exists o. split; assumption.
  - intros o id Ho Ht H1. apply (Hdis id H1). exists o. split; assumption.
  - apply agree_on_refl.
  - destruct (interleave_side l1 l2 l Hil false (touches l2) w w Hn1 Hn2) as [E2 [A2 _]].
    + intros o id Ho Ht. exists o. split; assumption.
    + intros o id Ho Ht H2. apply (Hdis id); [|exact H2]. exists o. split; assumption.
    + apply agree_on_refl.
    + repeat split; assumption.
Qed.

(* ---------------- appendix: well-typed calls are the defined ones ---------------- *)
(* together with illtyped_is_bad: step emits EBad exactly on the calls the
   well-typedness hypothesis excludes (for the int-returning functions) *)
Definition no_bad (evs : list event) : Prop := forall n, ~ In (EBad n) evs.

Lemma no_bad_outcome b w r : outcome b w r -> no_bad (snd r).
Proof.
  unfold outcome. destruct b.
  - intros -> n [H|[]]. discriminate H.
  - intros (w' & [-> | (out & ->)]) n [H|[]]; discriminate H.
Qed.

Lemma alloc_no_bad h : no_bad (snd (alloc h)).
Proof. unfold alloc. destruct (h_fail h =? 1)%N; cbn; intros n [H|[]]; discriminate H. Qed.

Theorem welltyped_no_bad : forall w o, welltyped w o = true -> no_bad (snd (step w o)).
Proof.
  intros w o Hwt.
  destruct (int_returning o && negb (match o with OInit _ (Some _) => true | _ => false end)) eqn:Hi.
  - apply andb_true_iff in Hi. destruct Hi as [Hi Hn].
    apply (no_bad_outcome (invalid w o) w). apply step_outcome; try assumption.
    intros k id ->. discriminate Hn.
  - destruct o as [k id f|be| |c|a|kf| |k ob key size|k ob key size|k ob tw size
                |k ob key size rounds mode|k ob|k ob blk|k ob blk|ob blk tw|k ob
                |k ob|k ob|k ob c size|k ob inp size outnull|k ob data size|k ob data size
                |ob data tw size|k ob|k ob]; try discriminate Hi; clear Hi;
    try (intros n [H|[]]; discriminate H); try (intros n []);
    unfold welltyped, typed_at in Hwt;
    (destruct ob as [id|]; [|try discriminate Hwt; try (destruct k; try discriminate Hwt); intros n [H|[]]; discriminate H]).
    all: try (by_kind k w id L).
    all: unfold step, ctr_init, ctr_cleanup, par_init, par_cleanup, ctr_which, par_which, par_psize_ev; try rewrite L.
    all: try (pose proof (alloc_no_bad (w_heap w)) as HA;
              destruct (alloc (w_heap w)) as [[? ?] ?]; cbn [snd] in HA).
    all: dmatch; cbn; intros n' H';
      try (apply in_app_or in H'; destruct H' as [H'|H']; [exact (HA _ H')|]); repeat (destruct H' as [H'|H']; try discriminate H'); try contradiction; try discriminate Hwt.
Qed.

Print Assumptions invalid_changes_nothing.
Print Assumptions valid_returns_1.
Print Assumptions history_without_invalid.
Print Assumptions illtyped_is_bad.
Print Assumptions welltyped_no_bad.
Print Assumptions readonly_same_world.
Print Assumptions step_respects_weq.
Print Assumptions distinct_objects_commute.
Print Assumptions interleaving_independent.
