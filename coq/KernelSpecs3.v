(* KernelSpecs3.v — specification steps for the SIMD (row-sliced) SKINNY-128 kernels: n blocks are processed at
   once, vector variable row_i holds row i of every block (lane j = block j, 4 bytes per lane, little endian).
   A vector step is the scalar step of KernelSpecs.v applied to every lane.  Regions: 0..3 = row0..row3
   (4n bytes each), 4 = the schedule word (8 bytes). *)
From Coq Require Import List Bool NArith Arith.
From Skinny Require Import Bits SpecSkinny IR KernelSpecs.
Import ListNotations.

Section Conv3.
  Variable B : Type.
  Variables (bx ba : B -> B -> B) (b0 b1 : B).
  Notation reg := (reg B).

  Definition lane_bytes (j : nat) (r : list (list B)) : list (list B) := firstn 4 (skipn (4 * j) r).
  (* the 16 state bytes of block j *)
  Definition vblock (m : mem B) (j : nat) : list (list B) :=
    lane_bytes j (reg m 0) ++ lane_bytes j (reg m 1) ++ lane_bytes j (reg m 2) ++ lane_bytes j (reg m 3).
  (* row i of every block, lane by lane *)
  Definition vrow (i : nat) (blocks : list (list (list B))) : list (list B) :=
    concat (map (fun blk => firstn 4 (skipn (4 * i) blk)) blocks).
  (* lift a scalar step on [state; schedule word] to n lanes *)
  Definition vlift (n : nat) (f : mem B -> mem B) (m : mem B) : mem B :=
    let blocks := map (fun j => reg (f [vblock m j; reg m 4]) 0) (seq 0 n) in
    [vrow 0 blocks; vrow 1 blocks; vrow 2 blocks; vrow 3 blocks; reg m 4].

  Definition kv128_subcells (n : nat) := vlift n (k128_subcells B bx ba b0 b1).
  Definition kv128_subcells_inv (n : nat) := vlift n (k128_subcells_inv B bx ba b0 b1).
  Definition kv128_enc_linear (n : nat) := vlift n (k128_enc_linear B bx b0 b1).
  Definition kv128_dec_linear (n : nat) := vlift n (k128_dec_linear B bx b0 b1).

  (* the interleaved S-box procedures: every byte of every argument vector through S8 / S8^-1 *)
  Definition spec_allbytes (f : list B -> list B) (m : mem B) : mem B := map (map f) m.
  Definition kv_sbox128 := spec_allbytes (on_byte8 B b0 (S8_ B bx ba b1)).
  Definition kv_inv_sbox128 := spec_allbytes (on_byte8 B b0 (S8inv_ B bx ba b1)).
End Conv3.
