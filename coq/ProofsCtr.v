(* ProofsCtr.v — proofs about the CTR model (ModelCtr.v):
   1. the byte-wise counter increment is big-endian addition modulo 2^(8n);
   2. the buffered keystream state machine refines the textbook CTR stream;
   3. the parallel ECB loops equal block-by-block ECB. *)
From Coq Require Import List Bool NArith ZArith Arith Lia ZifyBool ZifyNat ZifyN.
From Skinny Require Import Bits ModelCipher ModelCtr.
Import ListNotations.
Ltac Zify.zify_post_hook ::= Z.div_mod_to_equations.

(* ================================================================== *)
(* PART 1 — counter arithmetic                                         *)
(* ================================================================== *)

Definition be_value (l : list byte) : N :=
  fold_left (fun acc b => (256 * acc + N_of_byte b)%N) l 0%N.
Fixpoint le_bytes (n : nat) (v : N) : list byte :=
  match n with O => [] | S n' => byte_of_N v :: le_bytes n' (N.shiftr v 8) end.
Definition be_bytes (n : nat) (v : N) : list byte := rev (le_bytes n v).
(* big-endian addition modulo 2^(8 * length c) *)
Definition ctr_add (c : list byte) (k : N) : list byte :=
  be_bytes (length c) (be_value c + k).

(* --- bytes and numbers --- *)
Lemma byte_of_N_mod v : byte_of_N (v mod 256) = byte_of_N v.
Proof.
  unfold byte_of_N. change 256%N with (2 ^ 8)%N.
  rewrite !N.mod_pow2_bits_low by reflexivity. reflexivity.
Qed.

Lemma N_of_byte_small_nat :
  forallb (fun m => N.eqb (N_of_byte (byte_of_N (N.of_nat m))) (N.of_nat m)) (seq 0 256) = true.
Proof. vm_compute. reflexivity. Qed.

Lemma N_of_byte_small n : (n < 256)%N -> N_of_byte (byte_of_N n) = n.
Proof.
  intros H. pose proof N_of_byte_small_nat as S. rewrite forallb_forall in S.
  specialize (S (N.to_nat n)). rewrite N2Nat.id in S. apply N.eqb_eq, S.
  apply in_seq. lia.
Qed.

Lemma N_of_byte_of_N v : N_of_byte (byte_of_N v) = (v mod 256)%N.
Proof.
  rewrite <- byte_of_N_mod. apply N_of_byte_small. apply N.mod_lt. discriminate.
Qed.

Lemma N_of_byte_lt256 b : (N_of_byte b < 256)%N.
Proof. pose proof (N_of_byte_lt b). lia. Qed.

Lemma pow256_S n : (2 ^ (8 * N.of_nat (S n)) = 256 * 2 ^ (8 * N.of_nat n))%N.
Proof.
  rewrite Nat2N.inj_succ, N.mul_succ_r, N.add_comm, N.pow_add_r. reflexivity.
Qed.
Lemma pow256_nz n : (2 ^ (8 * N.of_nat n) <> 0)%N.
Proof. apply N.pow_nonzero. discriminate. Qed.

(* --- little-endian view --- *)
Fixpoint le_value (l : list byte) : N :=
  match l with [] => 0%N | b :: r => (N_of_byte b + 256 * le_value r)%N end.

Lemma be_value_snoc l b : be_value (l ++ [b]) = (256 * be_value l + N_of_byte b)%N.
Proof. unfold be_value. rewrite fold_left_app. reflexivity. Qed.

Lemma be_value_rev l : be_value (rev l) = le_value l.
Proof.
  induction l as [|b r IH]; cbn [rev le_value]; [reflexivity|].
  rewrite be_value_snoc, IH. lia.
Qed.

Lemma be_value_le l : be_value l = le_value (rev l).
Proof. rewrite <- be_value_rev, rev_involutive. reflexivity. Qed.

Lemma le_value_lt l : (le_value l < 2 ^ (8 * N.of_nat (length l)))%N.
Proof.
  induction l as [|b r IH]; [cbn; lia|].
  cbn [le_value length]. rewrite pow256_S. pose proof (N_of_byte_lt256 b). lia.
Qed.

Lemma le_bytes_length n : forall v, length (le_bytes n v) = n.
Proof. induction n as [|n IH]; intros v; cbn; [reflexivity|]. now rewrite IH. Qed.

Lemma le_value_le_bytes n : forall v, le_value (le_bytes n v) = (v mod 2 ^ (8 * N.of_nat n))%N.
Proof.
  induction n as [|n IH]; intros v.
  - cbn. now rewrite N.mod_1_r.
  - cbn [le_bytes le_value]. rewrite N_of_byte_of_N, IH, N.shiftr_div_pow2, pow256_S.
    change (2 ^ 8)%N with 256%N.
    rewrite N.mod_mul_r; [reflexivity | discriminate | apply pow256_nz].
Qed.

Lemma le_bytes_le_value l : le_bytes (length l) (le_value l) = l.
Proof.
  induction l as [|b r IH]; [reflexivity|].
  cbn [length le_value le_bytes]. pose proof (N_of_byte_lt256 b) as Hb. f_equal.
  - rewrite <- byte_of_N_mod.
    replace ((N_of_byte b + 256 * le_value r) mod 256)%N with (N_of_byte b) by lia.
    apply byte_of_N_of_byte.
  - rewrite N.shiftr_div_pow2. change (2 ^ 8)%N with 256%N.
    replace ((N_of_byte b + 256 * le_value r) / 256)%N with (le_value r) by lia.
    exact IH.
Qed.

Lemma le_bytes_mod n v : le_bytes n (v mod 2 ^ (8 * N.of_nat n)) = le_bytes n v.
Proof.
  rewrite <- le_value_le_bytes.
  pose proof (le_bytes_le_value (le_bytes n v)) as H.
  rewrite le_bytes_length in H. exact H.
Qed.

Lemma inc_rev_le l : forall k, inc_rev l k = le_bytes (length l) (le_value l + k).
Proof.
  induction l as [|b r IH]; intros k; [reflexivity|].
  cbn [inc_rev length le_value le_bytes]. pose proof (N_of_byte_lt256 b) as Hb. f_equal.
  - rewrite <- byte_of_N_mod, <- (byte_of_N_mod (N_of_byte b + 256 * le_value r + k)).
    f_equal. lia.
  - rewrite IH. f_equal. rewrite !N.shiftr_div_pow2. change (2 ^ 8)%N with 256%N. lia.
Qed.

(* --- the stated lemmas --- *)
Lemma be_value_lt : forall l, (be_value l < 2 ^ (8 * N.of_nat (length l)))%N.
Proof. intros l. rewrite be_value_le, <- (rev_length l). apply le_value_lt. Qed.

Lemma be_value_be_bytes : forall n v, be_value (be_bytes n v) = (v mod 2 ^ (8 * N.of_nat n))%N.
Proof. intros n v. unfold be_bytes. rewrite be_value_rev. apply le_value_le_bytes. Qed.

Lemma be_bytes_be_value : forall c, be_bytes (length c) (be_value c) = c.
Proof.
  intros c. unfold be_bytes. rewrite be_value_le, <- (rev_length c), le_bytes_le_value.
  apply rev_involutive.
Qed.

Lemma be_bytes_length : forall n v, length (be_bytes n v) = n.
Proof. intros n v. unfold be_bytes. rewrite rev_length. apply le_bytes_length. Qed.

Lemma be_bytes_mod n v : be_bytes n (v mod 2 ^ (8 * N.of_nat n)) = be_bytes n v.
Proof. unfold be_bytes. now rewrite le_bytes_mod. Qed.

Theorem inc_counter_is_add : forall c k, inc_counter c k = ctr_add c k.
Proof.
  intros c k. unfold inc_counter, ctr_add, be_bytes.
  rewrite inc_rev_le, rev_length, <- be_value_le. reflexivity.
Qed.

Corollary inc_counter_value : forall c k,
  be_value (inc_counter c k) = ((be_value c + k) mod 2 ^ (8 * N.of_nat (length c)))%N.
Proof. intros c k. rewrite inc_counter_is_add. unfold ctr_add. apply be_value_be_bytes. Qed.

Lemma ctr_add_length : forall c k, length (ctr_add c k) = length c.
Proof. intros c k. apply be_bytes_length. Qed.

Lemma ctr_add_0 : forall c, ctr_add c 0 = c.
Proof. intros c. unfold ctr_add. rewrite N.add_0_r. apply be_bytes_be_value. Qed.

Lemma ctr_add_add : forall c a b, ctr_add (ctr_add c a) b = ctr_add c (a + b).
Proof.
  intros c a b. unfold ctr_add at 1. rewrite ctr_add_length.
  unfold ctr_add at 1. rewrite be_value_be_bytes.
  rewrite <- be_bytes_mod, N.add_mod_idemp_l by apply pow256_nz.
  rewrite be_bytes_mod. unfold ctr_add. now rewrite N.add_assoc.
Qed.

(* ================================================================== *)
(* PART 2 — the buffered CTR state machine refines the CTR stream      *)
(* ================================================================== *)

(* --- list helpers --- *)
Lemma skipn_skipn {A} : forall y x (l : list A), skipn x (skipn y l) = skipn (y + x) l.
Proof.
  induction y as [|y IH]; intros x l; [reflexivity|].
  destruct l as [|a l]; cbn [skipn plus]; [now rewrite skipn_nil | apply IH].
Qed.

Lemma xor_bytes_prefix a : forall b c, length a <= length b ->
  xor_bytes a (b ++ c) = xor_bytes a b.
Proof.
  induction a as [|x a IH]; intros [|y b] c H; cbn in *; try lia; auto.
  f_equal. apply IH. lia.
Qed.

Lemma xor_bytes_firstn a : forall b, xor_bytes a (firstn (length a) b) = xor_bytes a b.
Proof. induction a as [|x a IH]; intros [|y b]; cbn; auto. f_equal. apply IH. Qed.

Lemma concat_map_length {A} (f : A -> list byte) n :
  (forall x, length (f x) = n) -> forall l, length (concat (map f l)) = length l * n.
Proof.
  intros H l. induction l as [|a l IH]; [reflexivity|].
  cbn [map concat length]. rewrite app_length, H, IH. lia.
Qed.

Lemma div_bound x n : 0 < n -> x < S (x / n) * n.
Proof.
  intros Hn. pose proof (Nat.div_mod x n ltac:(lia)) as H1.
  pose proof (Nat.mod_upper_bound x n ltac:(lia)) as H2. nia.
Qed.

(* keystream of the block function Eb from counter block c0:
   Eb(c0) ++ Eb(c0+1) ++ ... (n blocks) *)
Definition keystream (Eb : list byte -> list byte) (c0 : list byte) (n : nat) : list byte :=
  concat (map (fun i => Eb (ctr_add c0 (N.of_nat i))) (seq 0 n)).

Lemma keystream_shift Eb c0 m : forall s,
  concat (map (fun i => Eb (ctr_add c0 (N.of_nat i))) (seq s m))
  = keystream Eb (ctr_add c0 (N.of_nat s)) m.
Proof.
  unfold keystream. induction m as [|m IH]; intros s; [reflexivity|].
  cbn [seq map concat]. f_equal.
  - change (N.of_nat 0) with 0%N. now rewrite ctr_add_0.
  - rewrite IH, <- seq_shift, map_map. f_equal. apply map_ext. intros i.
    rewrite !ctr_add_add. f_equal. f_equal. lia.
Qed.

Lemma keystream_app Eb c0 n m :
  keystream Eb c0 (n + m) = keystream Eb c0 n ++ keystream Eb (ctr_add c0 (N.of_nat n)) m.
Proof.
  unfold keystream at 1. rewrite seq_app, map_app, concat_app. cbn [plus].
  rewrite (keystream_shift Eb c0 m n). reflexivity.
Qed.

Lemma stagger_add Bn c : stagger Bn c = map (fun k => ctr_add c (N.of_nat k)) (seq 0 Bn).
Proof. unfold stagger. apply map_ext. intros k. apply inc_counter_is_add. Qed.

Lemma stagger_keystream Eb Bn c : concat (map Eb (stagger Bn c)) = keystream Eb c Bn.
Proof. rewrite stagger_add, map_map. reflexivity. Qed.

Lemma stagger_advance Bn c :
  map (fun l => inc_counter l (N.of_nat Bn)) (stagger Bn c) = stagger Bn (ctr_add c (N.of_nat Bn)).
Proof.
  rewrite !stagger_add, map_map. apply map_ext. intros k.
  rewrite inc_counter_is_add, !ctr_add_add. f_equal. lia.
Qed.

Section StreamSpec.
  Variable bs : nat.
  Hypothesis Hbs : 0 < bs.

  (* data xor the keystream from byte position pos on *)
  Definition ctr_xor (Eb : list byte -> list byte) (c0 : list byte) (pos : nat)
             (data : list byte) : list byte :=
    xor_bytes data (skipn pos (keystream Eb c0 (S ((pos + length data) / bs)))).

  Section Stream.
    Variable Eb : list byte -> list byte.
    Hypothesis Hlen : forall b, length (Eb b) = bs.

    Lemma keystream_length c0 n : length (keystream Eb c0 n) = n * bs.
    Proof.
      unfold keystream. rewrite (concat_map_length _ bs); [now rewrite seq_length|].
      intros i. apply Hlen.
    Qed.

    Lemma ks_prefix c0 pos d n m : pos + length d <= n * bs ->
      xor_bytes d (skipn pos (keystream Eb c0 (n + m)))
      = xor_bytes d (skipn pos (keystream Eb c0 n)).
    Proof.
      intros H. rewrite keystream_app, skipn_app. apply xor_bytes_prefix.
      rewrite skipn_length, keystream_length. lia.
    Qed.

    (* any sufficient number of keystream blocks gives the same result *)
    Lemma ctr_xor_gen c0 pos d n : pos + length d <= n * bs ->
      xor_bytes d (skipn pos (keystream Eb c0 n)) = ctr_xor Eb c0 pos d.
    Proof.
      intros H. unfold ctr_xor. set (n0 := S ((pos + length d) / bs)).
      assert (H0 : pos + length d <= n0 * bs).
      { pose proof (div_bound (pos + length d) bs Hbs). subst n0. lia. }
      destruct (le_ge_dec n n0) as [L|L].
      - replace n0 with (n + (n0 - n)) by lia. symmetry. now apply ks_prefix.
      - replace n with (n0 + (n - n0)) by lia. now apply ks_prefix.
    Qed.

    Lemma ctr_xor_length c0 pos d : length (ctr_xor Eb c0 pos d) = length d.
    Proof.
      unfold ctr_xor. rewrite xor_bytes_length, skipn_length, keystream_length.
      pose proof (div_bound (pos + length d) bs Hbs). lia.
    Qed.

    (* position pos = a whole blocks + r bytes: the bytes come from the
       keystream that starts at counter c0 + a *)
    Lemma ctr_xor_chunk c0 pos a r m d : pos = a * bs + r -> r + length d <= m * bs ->
      ctr_xor Eb c0 pos d = xor_bytes d (skipn r (keystream Eb (ctr_add c0 (N.of_nat a)) m)).
    Proof.
      intros -> H. rewrite <- (ctr_xor_gen c0 _ d (a + m)) by lia.
      rewrite keystream_app, skipn_app, keystream_length.
      rewrite skipn_all2 by (rewrite keystream_length; lia).
      cbn [app]. f_equal. f_equal. lia.
    Qed.

    (* consecutive pieces concatenate *)
    Lemma ctr_xor_app c0 pos d1 d2 :
      ctr_xor Eb c0 pos (d1 ++ d2)
      = ctr_xor Eb c0 pos d1 ++ ctr_xor Eb c0 (pos + length d1) d2.
    Proof.
      set (n := S ((pos + length (d1 ++ d2)) / bs)).
      assert (Hn : pos + length (d1 ++ d2) <= n * bs).
      { pose proof (div_bound (pos + length (d1 ++ d2)) bs Hbs). subst n. lia. }
      rewrite app_length in Hn.
      rewrite <- (ctr_xor_gen c0 pos d1 n), <- (ctr_xor_gen c0 (pos + length d1) d2 n) by lia.
      unfold ctr_xor. fold n.
      set (L := skipn pos (keystream Eb c0 n)).
      assert (HL : length d1 + length d2 <= length L).
      { subst L. rewrite skipn_length, keystream_length. lia. }
      rewrite <- (firstn_skipn (length d1) L) at 1.
      rewrite xor_bytes_app by (rewrite firstn_length; lia).
      rewrite xor_bytes_firstn. subst L. rewrite skipn_skipn. reflexivity.
    Qed.

    Lemma ctr_xor_split c0 pos t d : t <= length d ->
      ctr_xor Eb c0 pos d
      = ctr_xor Eb c0 pos (firstn t d) ++ ctr_xor Eb c0 (pos + t) (skipn t d).
    Proof.
      intros H. rewrite <- (firstn_skipn t d) at 1. rewrite ctr_xor_app.
      rewrite firstn_length_le by exact H. reflexivity.
    Qed.

    Lemma step_out B c0 pos inp t a r ks :
      t <= length inp -> pos = a * bs + r -> r + t <= B * bs ->
      ks = keystream Eb (ctr_add c0 (N.of_nat a)) B ->
      xor_bytes (firstn t inp) (skipn r ks) ++ ctr_xor Eb c0 (pos + t) (skipn t inp)
      = ctr_xor Eb c0 pos inp.
    Proof.
      intros Ht Hp Hr ->. rewrite (ctr_xor_split c0 pos t inp Ht). f_equal.
      symmetry. apply ctr_xor_chunk; [exact Hp|]. rewrite firstn_length. lia.
    Qed.

    Corollary ctr_involution_gen c0 pos data :
      ctr_xor Eb c0 pos (ctr_xor Eb c0 pos data) = data.
    Proof.
      unfold ctr_xor at 1. rewrite ctr_xor_length. unfold ctr_xor.
      apply xor_bytes_involutive. rewrite skipn_length, keystream_length.
      pose proof (div_bound (pos + length data) bs Hbs). lia.
    Qed.
  End Stream.

  Corollary ctr_involution : forall Eb c0 data, (forall b, length (Eb b) = bs) ->
    ctr_xor Eb c0 0 (ctr_xor Eb c0 0 data) = data.
  Proof. intros Eb c0 data H. now apply ctr_involution_gen. Qed.
End StreamSpec.

Section CtrRefine.
  Variable K : Type.
  Variable E : K -> list byte -> list byte.
  Variables bs B : nat.
  Hypothesis Hbs : 0 < bs.
  Hypothesis HB : 0 < B.
  Hypothesis HE : forall k blk, length (E k blk) = bs.

  Lemma BS_pos : 0 < B * bs.
  Proof. nia. Qed.

  (* run a sequence of encrypt calls *)
  Fixpoint run_calls (st : ctr K) (calls : list (list byte))
    : option (ctr K * list (list byte)) :=
    match calls with
    | [] => Some (st, [])
    | d :: rest => match crypt K E bs B st d with
                   | Some (st1, o) => match run_calls st1 rest with
                                      | Some (st2, os) => Some (st2, o :: os)
                                      | None => None end
                   | None => None end
    end.

  (* the state right after a counter set: lanes staggered from c0, keystream buffer empty *)
  Definition fresh_at (st : ctr K) (c0 : list byte) : Prop :=
    length c0 = bs /\ c_lanes st = stagger B c0 /\ c_off st = BS bs B.

  (* "pos bytes of the stream that starts at counter c0 have been consumed";
     q = index of the next batch the lanes will produce *)
  Definition Inv (k : K) (st : ctr K) (c0 : list byte) (pos : nat) : Prop :=
    length c0 = bs /\ c_key st = k /\
    exists q, c_lanes st = stagger B (ctr_add c0 (N.of_nat (q * B)))
      /\ 0 < c_off st <= B * bs
      /\ pos + B * bs = q * (B * bs) + c_off st
      /\ (c_off st < B * bs ->
          c_ecounter st = keystream (E k) (ctr_add c0 (N.of_nat ((q - 1) * B))) B).

  Lemma fresh_Inv st c0 : fresh_at st c0 -> Inv (c_key st) st c0 0.
  Proof.
    intros (H1 & H2 & H3). unfold BS in H3. pose proof BS_pos.
    split; [exact H1|]. split; [reflexivity|]. exists 0.
    cbn [Nat.mul]. change (N.of_nat 0) with 0%N. rewrite ctr_add_0.
    repeat split; try lia. exact H2.
  Qed.

  Lemma crypt_loop_nil fuel c : crypt_loop K E bs B fuel c [] = Some (c, []).
  Proof. destruct fuel; reflexivity. Qed.

  Lemma crypt_loop_S f c x r :
    crypt_loop K E bs B (S f) c (x :: r) =
    let inp := x :: r in
    if Nat.leb (B * bs) (c_off c) then
      let c1 := refill K E B c in
      if Nat.leb (B * bs) (length inp) then
        match crypt_loop K E bs B f c1 (skipn (B * bs) inp) with
        | Some (c2, out) => Some (c2, xor_bytes (firstn (B * bs) inp) (c_ecounter c1) ++ out)
        | None => None
        end
      else Some (with_off K c1 (length inp), xor_bytes inp (c_ecounter c1))
    else
      let temp := Nat.min (B * bs - c_off c) (length inp) in
      match crypt_loop K E bs B f (with_off K c (c_off c + temp)) (skipn temp inp) with
      | Some (c2, out) =>
          Some (c2, xor_bytes (firstn temp inp) (skipn (c_off c) (c_ecounter c)) ++ out)
      | None => None
      end.
  Proof. reflexivity. Qed.

  Lemma refill_lanes st c0 q :
    c_lanes st = stagger B (ctr_add c0 (N.of_nat (q * B))) ->
    c_lanes (refill K E B st) = stagger B (ctr_add c0 (N.of_nat (S q * B))).
  Proof.
    intros H. cbn [refill c_lanes]. rewrite H, stagger_advance, ctr_add_add.
    f_equal. f_equal. lia.
  Qed.

  Lemma refill_ecounter st c0 q :
    c_lanes st = stagger B (ctr_add c0 (N.of_nat (q * B))) ->
    c_ecounter (refill K E B st)
    = keystream (E (c_key st)) (ctr_add c0 (N.of_nat (q * B))) B.
  Proof. intros H. cbn [refill c_ecounter]. rewrite H. apply stagger_keystream. Qed.

  Lemma crypt_loop_spec k c0 : forall fuel st pos d,
    Inv k st c0 pos -> length d <= fuel ->
    exists st' o, crypt_loop K E bs B fuel st d = Some (st', o)
      /\ o = ctr_xor bs (E k) c0 pos d /\ Inv k st' c0 (pos + length d).
  Proof.
    pose proof BS_pos as HBS.
    assert (Hlen : forall b, length (E k b) = bs) by (intros b; apply HE).
    induction fuel as [|fuel IH]; intros st pos d HI Hf.
    - destruct d as [|x r]; [|cbn in Hf; lia].
      exists st, []. cbn [length]. rewrite Nat.add_0_r.
      split; [reflexivity|]. split; [reflexivity|]. exact HI.
    - destruct d as [|x r].
      { exists st, []. cbn [length]. rewrite Nat.add_0_r.
        split; [reflexivity|]. split; [reflexivity|]. exact HI. }
      rewrite crypt_loop_S. cbv zeta. set (inp := x :: r) in *.
      assert (Hinp : 0 < length inp) by (cbn; lia).
      destruct HI as (Hc0 & Hk & q & Hl & Ho & Hp & He).
      destruct (Nat.leb_spec (B * bs) (c_off st)) as [Hoff|Hoff].
      + (* buffer empty: refill *)
        pose proof (refill_lanes st c0 q Hl) as Hl1.
        pose proof (refill_ecounter st c0 q Hl) as He1. rewrite Hk in He1.
        destruct (Nat.leb_spec (B * bs) (length inp)) as [Hfull|Hpart].
        * (* a whole batch *)
          destruct (IH (refill K E B st) (pos + B * bs) (skipn (B * bs) inp))
            as (st' & o & Heq & -> & HI').
          { split; [exact Hc0|]. split; [exact Hk|]. exists (S q).
            split; [exact Hl1|]. cbn [refill c_off]. repeat split; lia. }
          { rewrite skipn_length. lia. }
          rewrite Heq. eexists _, _. split; [reflexivity|]. split.
          -- exact (step_out bs Hbs (E k) Hlen B c0 pos inp (B * bs) (q * B) 0 _
                      Hfull ltac:(lia) ltac:(lia) He1).
          -- replace (pos + length inp) with (pos + B * bs + length (skipn (B * bs) inp)).
             exact HI'. rewrite skipn_length. lia.
        * (* the last, partial piece *)
          eexists _, _. split; [reflexivity|]. split.
          -- rewrite He1. symmetry.
             apply (ctr_xor_chunk bs Hbs (E k) Hlen c0 pos (q * B) 0 B inp); lia.
          -- split; [exact Hc0|]. split; [exact Hk|]. exists (S q).
             split; [exact Hl1|]. cbn [with_off c_off c_ecounter].
             repeat split; try lia.
             intros _. replace (S q - 1) with q by lia. exact He1.
      + (* keystream bytes left in the buffer *)
        set (temp := Nat.min (B * bs - c_off st) (length inp)).
        assert (Ht : 0 < temp <= length inp /\ c_off st + temp <= B * bs) by lia.
        destruct q as [|q]; [lia|].
        replace (S q - 1) with q in He by lia. specialize (He Hoff).
        destruct (IH (with_off K st (c_off st + temp)) (pos + temp) (skipn temp inp))
          as (st' & o & Heq & -> & HI').
        { split; [exact Hc0|]. split; [exact Hk|]. exists (S q).
          cbn [with_off c_lanes c_off c_ecounter]. split; [exact Hl|].
          repeat split; try lia. intros _. replace (S q - 1) with q by lia. exact He. }
        { rewrite skipn_length. lia. }
        rewrite Heq. eexists _, _. split; [reflexivity|]. split.
        -- apply (step_out bs Hbs (E k) Hlen B c0 pos inp temp (q * B) (c_off st)); try lia.
           exact He.
        -- replace (pos + length inp) with (pos + temp + length (skipn temp inp)).
           exact HI'. rewrite skipn_length. lia.
  Qed.

  Lemma crypt_spec k st c0 pos d : Inv k st c0 pos ->
    exists st' o, crypt K E bs B st d = Some (st', o)
      /\ o = ctr_xor bs (E k) c0 pos d /\ Inv k st' c0 (pos + length d).
  Proof. intros HI. unfold crypt. apply crypt_loop_spec; [exact HI | lia]. Qed.

  (* the fuel never runs out, whatever the state *)
  Lemma crypt_loop_total : forall fuel st d, length d <= fuel ->
    exists st' o, crypt_loop K E bs B fuel st d = Some (st', o).
  Proof.
    pose proof BS_pos as HBS.
    induction fuel as [|fuel IH]; intros st d Hf.
    - destruct d as [|x r]; [|cbn in Hf; lia]. now exists st, [].
    - destruct d as [|x r]; [now exists st, []|].
      rewrite crypt_loop_S. cbv zeta. set (inp := x :: r) in *.
      assert (Hinp : 0 < length inp) by (cbn; lia).
      destruct (Nat.leb_spec (B * bs) (c_off st)) as [Hoff|Hoff].
      + destruct (Nat.leb_spec (B * bs) (length inp)) as [Hfull|Hpart].
        * destruct (IH (refill K E B st) (skipn (B * bs) inp)) as (st' & o & Heq).
          { rewrite skipn_length. lia. }
          rewrite Heq. now eexists _, _.
        * now eexists _, _.
      + set (temp := Nat.min (B * bs - c_off st) (length inp)).
        destruct (IH (with_off K st (c_off st + temp)) (skipn temp inp)) as (st' & o & Heq).
        { rewrite skipn_length. lia. }
        rewrite Heq. now eexists _, _.
  Qed.

  Lemma crypt_total_any : forall st d, exists st' o, crypt K E bs B st d = Some (st', o).
  Proof. intros st d. unfold crypt. apply crypt_loop_total. lia. Qed.

  (* ... and under the invariant the output is as long as the input *)
  Lemma crypt_total : forall k st c0 pos d, Inv k st c0 pos ->
    exists st' o, crypt K E bs B st d = Some (st', o) /\ length o = length d.
  Proof.
    intros k st c0 pos d HI.
    destruct (crypt_spec k st c0 pos d HI) as (st' & o & Heq & -> & _).
    exists st', (ctr_xor bs (E k) c0 pos d). split; [exact Heq|].
    apply ctr_xor_length; [exact Hbs | intros b; apply HE].
  Qed.

  Lemma run_calls_spec k c0 : forall calls st pos, Inv k st c0 pos ->
    exists st' outs, run_calls st calls = Some (st', outs)
      /\ concat outs = ctr_xor bs (E k) c0 pos (concat calls)
      /\ map (@length byte) outs = map (@length byte) calls
      /\ Inv k st' c0 (pos + length (concat calls)).
  Proof.
    assert (Hlen : forall b, length (E k b) = bs) by (intros b; apply HE).
    induction calls as [|d rest IH]; intros st pos HI.
    - exists st, []. cbn [run_calls concat map length]. rewrite Nat.add_0_r.
      split; [reflexivity|]. split; [reflexivity|]. split; [reflexivity|]. exact HI.
    - destruct (crypt_spec k st c0 pos d HI) as (st1 & o & Heq & Ho & HI1).
      destruct (IH st1 (pos + length d) HI1) as (st2 & os & Heq2 & Hc & Hm & HI2).
      exists st2, (o :: os). cbn [run_calls]. rewrite Heq, Heq2.
      split; [reflexivity|]. cbn [concat map]. split; [|split].
      + rewrite (ctr_xor_app bs Hbs (E k) Hlen), Hc, Ho. reflexivity.
      + rewrite Hm, Ho, (ctr_xor_length bs Hbs (E k) Hlen). reflexivity.
      + rewrite app_length, Nat.add_assoc. exact HI2.
  Qed.

  Theorem ctr_refinement : forall st c0 calls, fresh_at st c0 ->
    exists st' outs, run_calls st calls = Some (st', outs)
      /\ concat outs = ctr_xor bs (E (c_key st)) c0 0 (concat calls)
      /\ map (@length byte) outs = map (@length byte) calls
      /\ c_key st' = c_key st.
  Proof.
    intros st c0 calls Hf.
    destruct (run_calls_spec (c_key st) c0 calls st 0 (fresh_Inv st c0 Hf))
      as (st' & outs & H1 & H2 & H3 & H4).
    exists st', outs. repeat split; auto. apply H4.
  Qed.

  (* consequences *)
  Corollary ctr_split_independent : forall st c0 calls1 calls2,
    fresh_at st c0 -> concat calls1 = concat calls2 ->
    forall s1 o1 s2 o2, run_calls st calls1 = Some (s1, o1) ->
      run_calls st calls2 = Some (s2, o2) -> concat o1 = concat o2.
  Proof.
    intros st c0 calls1 calls2 Hf Hc s1 o1 s2 o2 H1 H2.
    destruct (ctr_refinement st c0 calls1 Hf) as (s1' & o1' & E1 & C1 & _).
    destruct (ctr_refinement st c0 calls2 Hf) as (s2' & o2' & E2 & C2 & _).
    rewrite H1 in E1. rewrite H2 in E2. inversion E1; inversion E2; subst.
    rewrite C1, C2, Hc. reflexivity.
  Qed.

  (* set_counter establishes fresh_at; counters shorter than a block are
     left-padded with zeros, NULL = zero *)
  Lemma zeros_length n : length (zeros n) = n.
  Proof. apply repeat_length. Qed.

  Lemma pad_to_length n l : length (pad_to n l) = n.
  Proof. unfold pad_to. rewrite firstn_length, app_length, zeros_length. lia. Qed.

  Theorem set_counter_fresh : forall st cnt size, (size <= N.of_nat bs)%N ->
    let blk := match cnt with
               | Some b => zeros (bs - N.to_nat size) ++ pad_to (N.to_nat size) b
               | None => zeros bs end in
    set_counter K bs B st cnt size = (1%N, snd (set_counter K bs B st cnt size))
    /\ fresh_at (snd (set_counter K bs B st cnt size)) blk
    /\ c_key (snd (set_counter K bs B st cnt size)) = c_key st.
  Proof.
    intros st cnt size Hs blk. unfold set_counter.
    destruct (N.leb_spec size (N.of_nat bs)) as [_|Hc]; [|lia].
    cbn [snd]. split; [reflexivity|]. split; [|reflexivity].
    unfold fresh_at. cbn [c_lanes c_off]. split; [|split; reflexivity].
    subst blk. destruct cnt as [b|].
    - rewrite app_length, zeros_length, pad_to_length. lia.
    - apply zeros_length.
  Qed.

  Theorem set_counter_reject : forall st cnt size, (N.of_nat bs < size)%N ->
    set_counter K bs B st cnt size = (0%N, st).
  Proof.
    intros st cnt size Hs. unfold set_counter.
    destruct (N.leb_spec size (N.of_nat bs)) as [Hc|_]; [lia|reflexivity].
  Qed.

  Lemma be_value_zeros_app m b : be_value (zeros m ++ b) = be_value b.
  Proof.
    unfold be_value. rewrite fold_left_app. f_equal.
    induction m as [|m IH]; [reflexivity|]. cbn [zeros repeat fold_left]. exact IH.
  Qed.

  Lemma counter_block_value : forall b n, length b = n -> n <= bs ->
    be_value (zeros (bs - n) ++ b) = be_value b.
  Proof. intros b n _ _. apply be_value_zeros_app. Qed.

  (* key or tweak change in the middle of a stream (the library only resets
     the buffer offset): the stream restarts at the counter of lane 0, i.e. at
     c0 + B * ceil(pos / (B*bs)) where pos bytes had been consumed *)
  Theorem rekey_restarts : forall st c0 calls st' outs k',
    fresh_at st c0 -> run_calls st calls = Some (st', outs) ->
    fresh_at (reset_stream K bs B (with_key K st' k'))
             (ctr_add c0 (N.of_nat (B * ((length (concat calls) + B * bs - 1) / (B * bs))))).
  Proof.
    intros st c0 calls st' outs k' Hf Hr. pose proof BS_pos as HBS.
    destruct (run_calls_spec (c_key st) c0 calls st 0 (fresh_Inv st c0 Hf))
      as (st2 & outs2 & H1 & _ & _ & HI).
    rewrite Hr in H1. inversion H1; subst st2 outs2. clear H1.
    destruct HI as (Hc0 & _ & q & Hl & Ho & Hp & _). cbn [plus] in Hp.
    assert (Hq : (length (concat calls) + B * bs - 1) / (B * bs) = q).
    { symmetry. apply (Nat.div_unique _ _ q (c_off st' - 1)); lia. }
    rewrite Hq. unfold fresh_at.
    cbn [reset_stream with_off with_key c_lanes c_off].
    split; [now rewrite ctr_add_length|]. split; [|reflexivity].
    rewrite Hl, Nat.mul_comm. reflexivity.
  Qed.
End CtrRefine.

(* ================================================================== *)
(* PART 3 — parallel ECB = block-by-block ECB                          *)
(* ================================================================== *)

Lemma chunks_nil fuel n : chunks fuel n [] = [].
Proof. destruct fuel; reflexivity. Qed.

Lemma chunks_fuel n : 0 < n -> forall f1 f2 l, length l <= f1 -> length l <= f2 ->
  chunks f1 n l = chunks f2 n l.
Proof.
  intros Hn. induction f1 as [|f1 IH]; intros f2 l H1 H2.
  - destruct l; [|cbn in H1; lia]. now rewrite !chunks_nil.
  - destruct l as [|x l]; [now rewrite !chunks_nil|].
    destruct f2 as [|f2]; [cbn in H2; lia|].
    cbn [chunks]. f_equal. apply IH; rewrite skipn_length; cbn [length] in *; lia.
Qed.

Lemma blocks_nil bs : blocks bs [] = [].
Proof. reflexivity. Qed.

Lemma blocks_step bs l : 0 < bs -> l <> [] ->
  blocks bs l = firstn bs l :: blocks bs (skipn bs l).
Proof.
  intros Hbs Hl. unfold blocks. destruct l as [|x l]; [congruence|].
  cbn [length chunks]. f_equal. apply chunks_fuel; [exact Hbs| |lia].
  rewrite skipn_length. cbn [length]. lia.
Qed.

Lemma blocks_concat : forall bs l, 0 < bs -> concat (blocks bs l) = l.
Proof.
  intros bs l Hbs. unfold blocks.
  assert (G : forall f l, length l <= f -> concat (chunks f bs l) = l).
  { induction f as [|f IH]; intros l0 H.
    - destruct l0; [reflexivity|cbn in H; lia].
    - destruct l0 as [|x l0]; [reflexivity|]. cbn [chunks concat].
      rewrite IH; [apply firstn_skipn|]. rewrite skipn_length. cbn [length] in *. lia. }
  apply G. lia.
Qed.

Lemma len_mult_nil_or_ge {A} bs k (l : list A) : 0 < bs -> length l = S k * bs ->
  l <> [] /\ length (skipn bs l) = k * bs /\ length (firstn bs l) = bs.
Proof.
  intros Hbs H. split; [|split].
  - intros ->. cbn in H. lia.
  - rewrite skipn_length. lia.
  - rewrite firstn_length. lia.
Qed.

Lemma blocks_length_k bs : 0 < bs -> forall k l, length l = k * bs ->
  Forall (fun b => length b = bs) (blocks bs l) /\ length (blocks bs l) = k.
Proof.
  intros Hbs. induction k as [|k IH]; intros l H.
  - destruct l; [|cbn in H; lia]. split; [constructor|reflexivity].
  - destruct (len_mult_nil_or_ge bs k l Hbs H) as (Hn & Hs & Hf).
    rewrite (blocks_step bs l Hbs Hn). destruct (IH _ Hs) as (F & L).
    split; [constructor; assumption|]. cbn [length]. now rewrite L.
Qed.

Lemma mod0_mult a b : 0 < b -> a mod b = 0 -> exists k, a = k * b.
Proof.
  intros Hb H. apply Nat.mod_divides in H; [|lia]. destruct H as (c & ->).
  exists c. apply Nat.mul_comm.
Qed.

Lemma blocks_length : forall bs l, 0 < bs -> length l mod bs = 0 ->
  Forall (fun b => length b = bs) (blocks bs l) /\ length (blocks bs l) = length l / bs.
Proof.
  intros bs l Hbs Hm. destruct (mod0_mult _ _ Hbs Hm) as (k & Hk).
  rewrite Hk, Nat.div_mul by lia. now apply blocks_length_k.
Qed.

Lemma blocks_app bs : 0 < bs -> forall k l1 l2, length l1 = k * bs ->
  blocks bs (l1 ++ l2) = blocks bs l1 ++ blocks bs l2.
Proof.
  intros Hbs. induction k as [|k IH]; intros l1 l2 H.
  - destruct l1; [reflexivity|cbn in H; lia].
  - destruct (len_mult_nil_or_ge bs k l1 Hbs H) as (Hn & Hs & Hf).
    rewrite (blocks_step bs l1 Hbs Hn).
    rewrite (blocks_step bs (l1 ++ l2) Hbs) by (destruct l1; [congruence|discriminate]).
    rewrite firstn_app, skipn_app.
    replace (bs - length l1) with 0 by lia. rewrite firstn_O, skipn_O, app_nil_r.
    cbn [app]. f_equal. now apply IH.
Qed.

Lemma combine_app {A C} (a1 : list A) : forall (b1 : list C) a2 b2, length a1 = length b1 ->
  combine (a1 ++ a2) (b1 ++ b2) = combine a1 b1 ++ combine a2 b2.
Proof.
  induction a1 as [|x a1 IH]; intros [|y b1] a2 b2 H; cbn in *; try discriminate; auto.
  f_equal. apply IH. lia.
Qed.

Section ParProofs.
  Variable bs : nat.
  Variable f : list byte -> list byte -> list byte.
  Hypothesis Hbs : 0 < bs.

  Lemma vec_batch_nil : vec_batch bs f [] [] = [].
  Proof. reflexivity. Qed.

  Lemma vec_batch_app k tw1 d1 tw2 d2 : length tw1 = k * bs -> length d1 = k * bs ->
    vec_batch bs f (tw1 ++ tw2) (d1 ++ d2) = vec_batch bs f tw1 d1 ++ vec_batch bs f tw2 d2.
  Proof.
    intros Ht Hd. unfold vec_batch.
    rewrite (blocks_app bs Hbs k tw1 tw2 Ht), (blocks_app bs Hbs k d1 d2 Hd).
    rewrite combine_app, map_app, concat_app; [reflexivity|].
    destruct (blocks_length_k bs Hbs k tw1 Ht) as (_ & ->).
    destruct (blocks_length_k bs Hbs k d1 Hd) as (_ & ->). reflexivity.
  Qed.

  Lemma vec_batch_step k tw d : length tw = S k * bs -> length d = S k * bs ->
    vec_batch bs f tw d
    = f (firstn bs tw) (firstn bs d) ++ vec_batch bs f (skipn bs tw) (skipn bs d).
  Proof.
    intros Ht Hd. unfold vec_batch.
    destruct (len_mult_nil_or_ge bs k tw Hbs Ht) as (Hn1 & _ & _).
    destruct (len_mult_nil_or_ge bs k d Hbs Hd) as (Hn2 & _ & _).
    rewrite (blocks_step bs tw Hbs Hn1), (blocks_step bs d Hbs Hn2). reflexivity.
  Qed.

  Lemma single_loop_spec : forall k fuel tw d, length tw = k * bs -> length d = k * bs ->
    k <= fuel -> single_loop bs f fuel tw d = vec_batch bs f tw d.
  Proof.
    induction k as [|k IH]; intros fuel tw d Ht Hd Hf.
    - destruct tw; [|cbn in Ht; lia]. destruct d; [|cbn in Hd; lia].
      destruct fuel; cbn [single_loop length]; [reflexivity|].
      destruct (Nat.leb_spec bs 0); [lia|reflexivity].
    - destruct fuel as [|fuel]; [lia|]. cbn [single_loop].
      destruct (len_mult_nil_or_ge bs k tw Hbs Ht) as (_ & Hs1 & _).
      destruct (len_mult_nil_or_ge bs k d Hbs Hd) as (_ & Hs2 & _).
      destruct (Nat.leb_spec bs (length d)); [|lia].
      rewrite (vec_batch_step k tw d Ht Hd). f_equal. apply IH; auto. lia.
  Qed.

  Lemma single_loop_len k tw d : length tw = k * bs -> length d = k * bs ->
    single_loop bs f (length d) tw d = vec_batch bs f tw d.
  Proof. intros Ht Hd. apply (single_loop_spec k); auto. nia. Qed.

  Lemma batch_loop_spec p : forall fuel k tw d, length tw = k * bs -> length d = k * bs ->
    batch_loop bs f fuel (p * bs) tw d = vec_batch bs f tw d.
  Proof.
    induction fuel as [|fuel IH]; intros k tw d Ht Hd; cbn [batch_loop].
    - now apply (single_loop_len k).
    - destruct (Nat.leb_spec (p * bs) (length d)) as [Hle|Hgt]; [|now apply (single_loop_len k)].
      assert (Hpk : p <= k) by nia.
      rewrite (IH (k - p)).
      + rewrite <- (vec_batch_app p).
        * now rewrite !firstn_skipn.
        * rewrite firstn_length. lia.
        * rewrite firstn_length. lia.
      + rewrite skipn_length, Ht, Nat.mul_sub_distr_r. reflexivity.
      + rewrite skipn_length, Hd, Nat.mul_sub_distr_r. reflexivity.
  Qed.
End ParProofs.

Theorem par_crypt_spec : forall (bs : nat) (f : list byte -> list byte -> list byte)
    (has_vt : bool) (psize : nat) (tw data : list byte),
  0 < bs -> 0 < psize -> psize mod bs = 0 -> length data mod bs = 0 ->
  length tw = length data ->
  par_crypt bs f has_vt psize tw data
  = concat (map (fun p => f (fst p) (snd p)) (combine (blocks bs tw) (blocks bs data))).
Proof.
  intros bs f has_vt psize tw data Hbs Hp Hpm Hdm Hlen.
  destruct (mod0_mult _ _ Hbs Hpm) as (p & ->).
  destruct (mod0_mult _ _ Hbs Hdm) as (k & Hk).
  change (concat _) with (vec_batch bs f tw data).
  unfold par_crypt. destruct has_vt.
  - apply (batch_loop_spec bs f Hbs p _ k); congruence.
  - apply (single_loop_len bs f Hbs k); congruence.
Qed.

(* hence the result does not depend on the advertised parallel size or on
   whether a vector back end is present *)
Corollary par_crypt_indep : forall bs f v1 p1 v2 p2 tw data,
  0 < bs -> 0 < p1 -> p1 mod bs = 0 -> 0 < p2 -> p2 mod bs = 0 ->
  length data mod bs = 0 -> length tw = length data ->
  par_crypt bs f v1 p1 tw data = par_crypt bs f v2 p2 tw data.
Proof.
  intros. rewrite !par_crypt_spec by assumption. reflexivity.
Qed.

Print Assumptions inc_counter_is_add.
Print Assumptions ctr_refinement.
Print Assumptions set_counter_fresh.
Print Assumptions rekey_restarts.
Print Assumptions par_crypt_spec.
Print Assumptions ctr_split_independent.
Print Assumptions ctr_involution.
Print Assumptions crypt_total.
Print Assumptions par_crypt_indep.
