(* WholeParM.v — the WHOLE function mantis_parallel_ecb_crypt of src/mantis-parallel.c with both callees as procedure calls that
   take a SECOND data argument, the tweak: the vector function on a whole group (parallel_size bytes of input and of tweaks), the
   single-block function mantis_ecb_crypt_tweaked on a left-over block.  The flattened function must be exactly the expected list
   of calls — groups first, then single blocks, output / input / tweak pointers advancing together —, and under the contracts
   "block function = E tweak block" and "vector function = E on every (tweak, block) pair of the group" the output is
   ModelCtr.vec_batch: block i processed under the i-th tweak (property C07 for MANTIS, all data at that configuration).
   Memory: 0 = output, 1 = input, 2 = tweaks, 3 = the parallel-ECB object, 4 = the key schedule object, then whatever else. *)
From Coq Require Import List Bool NArith Arith Lia.
From Skinny Require Import Bits IR SIR Anf IRCheck KernelSpecs KernelSpecs2 KernelHom SIRCheck WholeSpecs SIRProofs Frame
                           ModelCipher ModelCtr ProofsCtr WholeBridge WholeKey WholeProc WholeCtr WholeCtrModel WholePar.
Import ListNotations.

Section ParSpecM.
  Variable kn : nat.
  Definition pcallM (fno pos n : nat) : stmt :=
    SStore 0 pos n (ECall fno (EConcat [ELoad 1 pos n; ELoad 2 pos n; ELoad 4 0 kn])).
  Fixpoint chunk_callsM (l : list (nat * nat)) (pos : nat) : list stmt :=
    match l with
    | [] => []
    | (n, fno) :: l' => pcallM fno pos n :: chunk_callsM l' (pos + n)
    end.
  Definition par_callsM (has_vt : bool) (psize bs fvec fblk size : nat) : list stmt :=
    chunk_callsM (par_chunks has_vt psize bs fvec fblk size) 0.
  Definition pspecM (B : Type) (has_vt : bool) (psize bs fvec fblk size : nat) : list (entry B) :=
    match par_callsM has_vt psize bs fvec fblk size with
    | [] => []
    | l => [(Some l, ident B)]
    end.
End ParSpecM.

Lemma pspecM_hom : forall sizes kn has_vt psize bs fvec fblk size,
  Forall2 (entry_hom sizes) (pspecM kn poly has_vt psize bs fvec fblk size) (pspecM kn bool has_vt psize bs fvec fblk size).
Proof.
  intros. unfold pspecM. destruct (par_callsM kn has_vt psize bs fvec fblk size); [constructor|].
  constructor; [|constructor]. split; [reflexivity | discriminate].
Qed.

Theorem pparM_final : forall fields code fuel pl sh pl' sh' c t sizes kn has_vt psize bs fvec fblk size,
  fields_okb fields = true ->
  flat fields fuel pl sh code = Some (pl', sh', c, t) ->
  check_proc sizes c (pspecM kn poly has_vt psize bs fvec fblk size) = true ->
  forall (cB : nat -> list bool -> list bool) (m : mem bool), shaped sizes m -> SIRProofs.Inv fields sh m ->
  interp fields cB fuel pl (m, []) code = Some (pl', execB cB c (m, []), t)
  /\ fst (execB cB c (m, [])) = fst (execB cB (par_callsM kn has_vt psize bs fvec fblk size) (m, [])).
Proof.
  intros fields code fuel pl sh pl' sh' c t sizes kn has_vt psize bs fvec fblk size Hf Hfl Hk cB m Hm HI.
  destruct (fields_okb_sound fields Hf) as [Hd Hn]. split.
  - apply (interp_of_flat fields cB Hd Hn fuel code pl sh m pl' sh' c t HI Hfl).
  - rewrite (check_proc_sound sizes cB c _ _ (pspecM_hom sizes kn has_vt psize bs fvec fblk size) Hk m Hm).
    unfold pspecM. destruct (par_callsM kn has_vt psize bs fvec fblk size); reflexivity.
Qed.

(* ---- a list of consecutive chunk calls with tweaks on the image ---- *)
Section ChunksM.
  Variable kn : nat.
  Variable cB : nat -> list bool -> list bool.
  Variable G : nat -> list byte -> list byte -> list byte.        (* call number -> tweaks -> data -> result *)
  Variables (EO KS : list (list bool)) (rest : mem bool) (inp tw : list byte).
  Hypothesis HKS8 : bytes8 KS.
  Hypothesis Hkn : kn <= length KS.
  Hypothesis Htw : length tw = length inp.

  Fixpoint chunk_outM (l : list (nat * nat)) (tws data : list byte) : list byte :=
    match l with
    | [] => []
    | (n, fno) :: l' => G fno (firstn n tws) (firstn n data) ++ chunk_outM l' (skipn n tws) (skipn n data)
    end.
  Definition contractM (l : list (nat * nat)) : Prop :=
    forall n fno, In (n, fno) l -> forall t x : list byte, length t = n -> length x = n ->
      cB fno (concat (bitsB x) ++ concat (bitsB t) ++ concat (firstn kn KS)) = concat (bitsB (G fno t x)) /\ length (G fno t x) = n.

  Lemma chunk_outM_length : forall l tws data, contractM l -> total l <= length data -> total l <= length tws ->
    length (chunk_outM l tws data) = total l.
  Proof.
    induction l as [|[n fno] l IH]; intros tws data Hc Ht Ht2; unfold byte in *; [reflexivity|]. cbn [chunk_outM total] in *.
    rewrite app_length. destruct (Hc n fno (or_introl eq_refl) (firstn n tws) (firstn n data)) as [_ Hl];
      [rewrite firstn_length; lia | rewrite firstn_length; lia |].
    unfold byte in *. rewrite Hl, IH; [reflexivity | intros n' f' Hin; apply Hc; right; exact Hin | rewrite skipn_length; lia | rewrite skipn_length; lia].
  Qed.

  Notation MEM O := ((O : list (list bool)) :: bitsB inp :: bitsB tw :: EO :: KS :: rest).

  Theorem chunksM_exec : forall l pos O, contractM l -> pos + total l <= length inp -> length O = length inp ->
    execB cB (chunk_callsM kn l pos) (MEM O, []) = (MEM (spl O pos (bitsB (chunk_outM l (skipn pos tw) (skipn pos inp)))), []).
  Proof.
    induction l as [|[n fno] l IH]; intros pos O Hc Ht HO; unfold byte in *.
    - cbn [chunk_callsM chunk_outM map]. rewrite splice_nil. reflexivity.
    - cbn [chunk_callsM chunk_outM total] in *. unfold execB, exec. cbn [fold_left].
      unfold pcallM at 1. cbn [exec1 eval map concat]. rewrite app_nil_r. unfold store. cbn [nth set_nth].
      destruct (Hc n fno (or_introl eq_refl) (firstn n (skipn pos tw)) (firstn n (skipn pos inp))) as [Hcb Hl];
        [rewrite firstn_length, skipn_length; unfold byte in *; lia | rewrite firstn_length, skipn_length; unfold byte in *; lia |].
      unfold byte in *.
      rewrite !load_slice; cbn [nth]; try apply bits_len8; try exact HKS8; try (rewrite map_length; unfold byte in *; lia); try lia.
      change (slice (bitsB inp) pos n) with (subB (bitsB inp) pos n). change (slice (bitsB tw) pos n) with (subB (bitsB tw) pos n).
      rewrite !sub_bits.
      change (slice KS 0 kn) with (firstn kn KS). unfold byte. rewrite Hcb.
      rewrite (bytes_of_concat_n (bitsB (G fno (firstn n (skipn pos tw)) (firstn n (skipn pos inp)))) n (bits_len8 _)) by (rewrite map_length; exact Hl).
      rewrite store_bytes_splice by (rewrite map_length, Hl, HO; lia).
      change (fold_left (exec1 bool xorb andb false true cB) (chunk_callsM kn l (pos + n))) with (execB cB (chunk_callsM kn l (pos + n))).
      rewrite IH; [ | intros n' f' Hin; apply Hc; right; exact Hin | lia | ].
      + f_equal. f_equal. rewrite map_app, splice_app.
        * rewrite map_length, Hl, <- !skipn_add. reflexivity.
        * rewrite !map_length, Hl, chunk_outM_length; [unfold byte in *; lia | intros n' f' Hin; apply Hc; right; exact Hin
            | rewrite !skipn_length; unfold byte in *; lia | rewrite !skipn_length; unfold byte in *; lia].
      + rewrite splice_length; [exact HO | rewrite map_length, Hl; lia].
  Qed.
End ChunksM.

(* ---- grouping does not matter: the chunks, under the contracts, are vec_batch (block i under tweak i) ---- *)
Section ParBlocksM.
  Variable E : list byte -> list byte -> list byte.           (* tweak -> block -> block *)
  Variables (bs psize fvec fblk : nat).
  Hypothesis Hbs : 0 < bs.
  Hypothesis Hps : 0 < psize.
  Hypothesis Hpm : psize mod bs = 0.
  Hypothesis Hne : fvec <> fblk.
  Definition GparM (f : nat) (t x : list byte) : list byte :=
    if Nat.eqb f fvec then vec_batch bs E t x else E t x.
  Notation cout := (chunk_outM GparM).

  Lemma chunk_outM_app : forall l1 l2 tws data,
    cout (l1 ++ l2) tws data = cout l1 tws data ++ cout l2 (skipn (total l1) tws) (skipn (total l1) data).
  Proof.
    induction l1 as [|[n f] l1 IH]; intros l2 tws data; [reflexivity|].
    cbn [app chunk_outM total]. rewrite IH, <- app_assoc, !skipn_add. reflexivity.
  Qed.

  Lemma chunk_outM_vec : forall k tws data, k * psize <= length data -> length tws = length data ->
    cout (repeat (psize, fvec) k) tws data = vec_batch bs E (firstn (k * psize) tws) (firstn (k * psize) data).
  Proof.
    destruct (mod0_mult _ _ Hbs Hpm) as (p & Hp).
    induction k as [|k IH]; intros tws data Hk Hlen; [reflexivity|].
    cbn [repeat chunk_outM]. rewrite IH by (rewrite !skipn_length; lia).
    unfold GparM. rewrite Nat.eqb_refl.
    replace (S k * psize) with (psize + k * psize) by lia.
    assert (Hsplit : forall (l : list byte), psize + k * psize <= length l ->
              firstn (psize + k * psize) l = firstn psize l ++ firstn (k * psize) (skipn psize l)).
    { intros l Hl. rewrite <- (firstn_skipn psize l) at 1. rewrite firstn_app, firstn_length, Nat.min_l by lia.
      rewrite firstn_all2 by (rewrite firstn_length; lia). f_equal. f_equal. lia. }
    rewrite (Hsplit tws) by lia. rewrite (Hsplit data) by lia.
    rewrite (vec_batch_app bs E Hbs p) by (rewrite firstn_length, Nat.min_l by lia; exact Hp). reflexivity.
  Qed.

  Lemma chunk_outM_blk : forall k tws data, length data = k * bs -> length tws = k * bs ->
    cout (repeat (bs, fblk) k) tws data = vec_batch bs E tws data.
  Proof.
    induction k as [|k IH]; intros tws data Hk Ht.
    - destruct data; [|cbn in Hk; lia]. destruct tws; [reflexivity | cbn in Ht; lia].
    - cbn [repeat chunk_outM]. rewrite IH by (rewrite skipn_length; lia).
      unfold GparM. destruct (Nat.eqb fblk fvec) eqn:Ef; [apply Nat.eqb_eq in Ef; congruence|].
      rewrite (vec_batch_step bs E Hbs k tws data Ht Hk). reflexivity.
  Qed.

  Theorem par_chunk_outM_blocks : forall has_vt (tws inp : list byte), length inp mod bs = 0 -> length tws = length inp ->
    cout (par_chunks has_vt psize bs fvec fblk (length inp)) tws inp = vec_batch bs E tws inp.
  Proof.
    intros has_vt tws inp Hm Hlen. unfold par_chunks. cbv zeta.
    destruct (mod0_mult _ _ Hbs Hpm) as (p & Hp). destruct (mod0_mult _ _ Hbs Hm) as (k & Hk).
    set (nv := if has_vt then length inp / psize else 0).
    assert (Hnv : nv * psize <= length inp).
    { unfold nv. destruct has_vt; [|lia]. rewrite Nat.mul_comm. apply Nat.mul_div_le. lia. }
    rewrite chunk_outM_app, total_repeat', chunk_outM_vec by assumption.
    assert (Hrest : length (skipn (nv * psize) inp) = ((length inp - nv * psize) / bs) * bs).
    { rewrite skipn_length. rewrite Hk, Hp. replace (k * bs - nv * (p * bs)) with ((k - nv * p) * bs) by nia.
      rewrite Nat.div_mul by lia. reflexivity. }
    assert (Hrest2 : length (skipn (nv * psize) tws) = ((length inp - nv * psize) / bs) * bs).
    { pose proof Hrest as Hr'. rewrite skipn_length in Hr'. rewrite skipn_length, Hlen. exact Hr'. }
    rewrite (chunk_outM_blk ((length inp - nv * psize) / bs) _ _ Hrest Hrest2).
    rewrite <- (vec_batch_app bs E Hbs (nv * p)) by (rewrite firstn_length, Nat.min_l by lia; rewrite Hp; lia).
    rewrite !firstn_skipn. reflexivity.
  Qed.
End ParBlocksM.
Print Assumptions pparM_final.
Print Assumptions chunksM_exec.
Print Assumptions par_chunk_outM_blocks.

(* ================================================================================================== *)
(* the final statement                                                                                  *)
(* ================================================================================================== *)
Theorem pparM_model : forall fields code fuel pl sh pl' sh' c t kn has_vt psize bs fvec fblk size (rsz : list nat),
  fields_okb fields = true ->
  flat fields fuel pl sh code = Some (pl', sh', c, t) ->
  check_proc (size :: size :: size :: rsz) c (pspecM kn poly has_vt psize bs fvec fblk size) = true ->
  forall (cB : nat -> list bool -> list bool) (E : list byte -> list byte -> list byte) (out inp tw : list byte)
         (EO KS : list (list bool)) (rest : mem bool),
  0 < bs -> 0 < psize -> psize mod bs = 0 -> size mod bs = 0 -> fvec <> fblk -> kn <= length KS -> bytes8 KS ->
  length out = size -> length inp = size -> length tw = size ->
  (forall t' blk, length t' = bs -> length blk = bs -> length (E t' blk) = bs) ->
  (forall t' blk, length t' = bs -> length blk = bs ->
     cB fblk (concat (bitsB blk) ++ concat (bitsB t') ++ concat (firstn kn KS)) = concat (bitsB (E t' blk))) ->
  (forall tg grp, length tg = psize -> length grp = psize ->
     cB fvec (concat (bitsB grp) ++ concat (bitsB tg) ++ concat (firstn kn KS)) = concat (bitsB (vec_batch bs E tg grp))) ->
  let m0 : mem bool := bitsB out :: bitsB inp :: bitsB tw :: EO :: KS :: rest in
  shaped (size :: size :: size :: rsz) m0 -> SIRProofs.Inv fields sh m0 ->
  exists st', interp fields cB fuel pl (m0, []) code = Some (pl', st', t)
    /\ fst st' = bitsB (vec_batch bs E tw inp) :: bitsB inp :: bitsB tw :: EO :: KS :: rest.
Proof.
  intros fields code fuel pl sh pl' sh' c t kn has_vt psize bs fvec fblk size rsz Hf Hfl Hk cB E out inp tw EO KS rest
         Hbs Hps Hpm Hsm Hne Hkn HKS8 Ho Hi Htw HE Hcblk Hcvec m0 Hm HI.
  destruct (pparM_final fields code fuel pl sh pl' sh' c t _ kn has_vt psize bs fvec fblk size Hf Hfl Hk cB m0 Hm HI) as [Hint Hsem].
  exists (execB cB c (m0, [])). split; [exact Hint|]. rewrite Hsem. unfold par_callsM, m0.
  assert (HVlen : forall k (t' x : list byte), length x = k * bs -> length t' = k * bs -> length (vec_batch bs E t' x) = k * bs).
  { induction k as [|k IHk]; intros t' x Hx Ht'.
    - destruct x; [|cbn in Hx; lia]. destruct t'; [reflexivity | cbn in Ht'; lia].
    - rewrite (vec_batch_step bs E Hbs k t' x Ht' Hx). rewrite app_length.
      rewrite HE by (rewrite firstn_length; lia). rewrite IHk by (rewrite skipn_length; lia). lia. }
  assert (Htwi : length tw = length inp) by (unfold byte in *; lia).
  rewrite (chunksM_exec kn cB (GparM E bs fvec) EO KS rest inp tw HKS8 Hkn Htwi).
  - cbn [fst skipn]. f_equal. rewrite <- Hi at 1.
    rewrite (par_chunk_outM_blocks E bs psize fvec fblk Hbs Hps Hpm Hne has_vt tw inp) by (rewrite ?Hi; assumption).
    destruct (mod0_mult _ _ Hbs Hsm) as (k & Hk').
    unfold splice. cbn [firstn app plus]. rewrite skipn_all2; [apply app_nil_r|].
    rewrite !map_length, (HVlen k) by (unfold byte in *; lia). unfold byte in *. lia.
  - intros n fno Hin t' x Ht' Hx. unfold par_chunks in Hin. apply in_app_or in Hin. destruct Hin as [Hin|Hin]; apply repeat_spec in Hin;
      injection Hin as Hn Hf'; rewrite Hn in Ht', Hx |- *; rewrite Hf'; unfold GparM.
    + rewrite Nat.eqb_refl. split; [apply Hcvec; assumption|].
      destruct (mod0_mult _ _ Hbs Hpm) as (p & Hp). rewrite (HVlen p) by lia. lia.
    + destruct (Nat.eqb fblk fvec) eqn:Ef; [apply Nat.eqb_eq in Ef; congruence|]. split; [apply Hcblk; assumption | apply HE; assumption].
  - assert (Ht : total (par_chunks has_vt psize bs fvec fblk size) <= size).
    { unfold par_chunks. cbv zeta. set (nv := if has_vt then size / psize else 0).
      assert (nv * psize <= size) by (unfold nv; destruct has_vt; [rewrite Nat.mul_comm; apply Nat.mul_div_le; lia | lia]).
      clear - H Hbs. rewrite total_app_repeat. pose proof (Nat.mul_div_le (size - nv * psize) bs ltac:(lia)). lia. }
    unfold byte in *. lia.
  - rewrite map_length. unfold byte in *. lia.
Qed.
Print Assumptions pparM_model.
