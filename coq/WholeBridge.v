(* WholeBridge.v — from the whole-function obligations (generated per build configuration by translator/c2sir.py:
   check_block_w ... = true for the flattened skinny*_ecb_encrypt / _decrypt of the CURRENT source at each round
   count) to the hand-written model (ModelCipher.v), hence to the paper-level specification:

     for every memory whose key-schedule region is the byte image of a model key schedule with R rounds, the
     output region after running the C function is the model's (= the specification's) ciphertext / plaintext.

   The statements quantify over ALL blocks, ALL schedule contents (all 56 / 40 slots), the prior content of the
   output buffer and of the local state. *)
From Coq Require Import List Bool NArith Arith Lia.
From Skinny Require Import Bits SpecSkinny IR SIR Anf IRCheck KernelSpecs KernelSpecs2 KernelHom SIRCheck WholeSpecs Frame
                           SIRProofs ModelCipher KernelBridge.
Import ListNotations.

(* ================================================================================================== *)
(* generic: indexing a schedule image                                                                   *)
(* ================================================================================================== *)
Lemma skipn_add : forall {A} a b (l : list A), skipn (a + b) l = skipn b (skipn a l).
Proof.
  intros A a. induction a as [|a IH]; intros b l; [reflexivity|].
  destruct l as [|x l]; [rewrite skipn_nil; destruct b; reflexivity|]. cbn [plus skipn]. apply IH.
Qed.

Lemma fold_seq_nth : forall {St E : Type} (F : St -> E -> St) (l : list E) (d : E) n k st,
  k + n <= length l ->
  fold_left (fun s i => F s (nth i l d)) (seq k n) st = fold_left F (firstn n (skipn k l)) st.
Proof.
  intros St E F l d n. induction n as [|n IH]; intros k st H; [reflexivity|].
  cbn [seq fold_left]. rewrite IH by lia.
  destruct (skipn k l) as [|x l'] eqn:E1.
  - assert (length (skipn k l) = 0) by (rewrite E1; reflexivity). rewrite skipn_length in H0. lia.
  - assert (Hx : nth k l d = x).
    { rewrite <- (Nat.add_0_r k), <- (nth_skipn' l k 0 d), E1. reflexivity. }
    assert (Hs : skipn (S k) l = l').
    { replace (S k) with (k + 1) by lia. rewrite skipn_add, E1. reflexivity. }
    rewrite Hx, Hs. reflexivity.
Qed.

Lemma fold_seq_nth_rev : forall {St E : Type} (F : St -> E -> St) (l : list E) (d : E) n st,
  n <= length l ->
  fold_left (fun s i => F s (nth i l d)) (rev (seq 0 n)) st = fold_left F (rev (firstn n l)) st.
Proof.
  intros St E F l d n. induction n as [|n IH]; intros st H; [reflexivity|].
  rewrite seq_S, rev_app_distr. cbn [plus rev app fold_left].
  assert (Hf : firstn (S n) l = firstn n l ++ [nth n l d]).
  { clear IH. revert n H. induction l as [|x l IHl]; intros n H; [cbn [length] in H; lia|].
    destruct n as [|n]; [reflexivity|]. cbn [firstn nth app]. rewrite <- IHl by (cbn [length] in H; lia). reflexivity. }
  rewrite Hf, rev_app_distr. cbn [rev app fold_left]. apply IH. lia.
Qed.

Lemma slot_in_image : forall {A} (hdr : list A) (slots : list (list A)) sz i,
  Forall (fun s => length s = sz) slots -> i < length slots ->
  firstn sz (skipn (length hdr + sz * i) (hdr ++ concat slots)) = nth i slots [].
Proof.
  intros A hdr slots sz i Hs Hi.
  rewrite skipn_add. rewrite skipn_app, skipn_all, Nat.sub_diag. cbn [app skipn].
  revert i Hi. induction Hs as [|s slots Hl Hs IH]; intros i Hi; [cbn [length] in Hi; lia|].
  destruct i as [|i].
  - rewrite Nat.mul_0_r. cbn [skipn concat nth]. rewrite firstn_app, Hl, Nat.sub_diag, firstn_all2 by lia.
    cbn [firstn]. apply app_nil_r.
  - cbn [concat nth]. replace (sz * S i) with (length s + sz * i) by lia.
    rewrite skipn_add. rewrite skipn_app, skipn_all, Nat.sub_diag. cbn [app skipn].
    apply IH. cbn [length] in Hi. lia.
Qed.

Lemma fold_left_ext_in : forall {St E : Type} (f g : St -> E -> St) l,
  (forall i, In i l -> forall s, f s i = g s i) -> forall s, fold_left f l s = fold_left g l s.
Proof.
  intros St E f g l. induction l as [|x l IH]; intros H s; [reflexivity|].
  cbn [fold_left]. rewrite (H x) by (left; reflexivity). apply IH. intros i Hi. apply H. right. exact Hi.
Qed.

Lemma bits_len8 : forall (l : list byte), Forall (fun b => length b = 8) (map (bits_of_c8 bool) l).
Proof.
  intros l. apply Forall_forall. intros b Hb. apply in_map_iff in Hb. destruct Hb as [x [<- _]].
  destruct x as [[[[[[[? ?] ?] ?] ?] ?] ?] ?]. reflexivity.
Qed.

(* ================================================================================================== *)
(* generic statement: a checked block function computes the fold of the kernel round steps              *)
(* ================================================================================================== *)
Section Generic.
  Variables (bs kssize slot0 slotsz : nat).
  Variable E : Type.                                          (* schedule slot of the model: half byte / half nib *)
  Variable hb : E -> list (list bool).                        (* its byte image *)
  Variables (subP linP : mem poly -> mem poly) (subB linB : mem bool -> mem bool).
  Hypothesis Hsub : homU subP subB.
  Hypothesis Hlin : homU linP linB.
  Hypothesis hb_len : forall e, length (hb e) = slotsz.
  Hypothesis hb_len8 : forall e, Forall (fun b => length b = 8) (hb e).
  Let sizes := [bs; bs; kssize; bs].
  Notation callP := (callf_spec poly pxor pand pzero pone).
  Notation callB := (callf_spec bool xorb andb false true).

  Definition ks_image (hdr : list (list bool)) (sched : list E) : list (list bool) := hdr ++ concat (map hb sched).

  Lemma slot_of_image : forall hdr sched i d, length hdr = slot0 -> i < length sched ->
    slot_of slot0 slotsz (ks_image hdr sched) i = hb (nth i sched d).
  Proof.
    intros hdr sched i d Hh Hi. unfold slot_of, slot_off, ks_image. rewrite <- Hh.
    rewrite slot_in_image.
    - rewrite (nth_indep _ [] (hb d)) by (rewrite map_length; exact Hi). apply map_nth.
    - apply Forall_forall. intros s Hs. apply in_map_iff in Hs. destruct Hs as [e [<- _]]. apply hb_len.
    - rewrite map_length. exact Hi.
  Qed.

  Lemma shaped4 : forall (out blk st : list byte) (hdr : list (list bool)) (sched : list E),
    length out = bs -> length blk = bs -> length st = bs -> length hdr = slot0 ->
    Forall (fun b => length b = 8) hdr -> slot0 + slotsz * length sched = kssize ->
    shaped sizes [map (bits_of_c8 bool) out; map (bits_of_c8 bool) blk; ks_image hdr sched; map (bits_of_c8 bool) st].
  Proof.
    intros out blk st hdr sched Ho Hb Hs Hh Hh8 Hk. apply shapedF_shaped. unfold sizes.
    repeat constructor; try (rewrite map_length; assumption); try apply bits_len8.
    - unfold ks_image. rewrite app_length, Hh, <- Hk. f_equal.
      clear Hk. induction sched as [|e sched IH]; [cbn; lia|]. cbn [map concat length]. rewrite app_length, hb_len, IH. lia.
    - unfold ks_image. apply Forall_app. split; [exact Hh8|]. clear Hk.
      induction sched as [|e sched IH]; [constructor|]. cbn [map concat]. apply Forall_app. split; [apply hb_len8 | exact IH].
  Qed.

  Theorem whole_enc_generic : forall code R, 0 < R ->
    check_block_w callP sizes 2 slotsz code (enc_offs slot0 slotsz R) (enc_stepsW poly subP linP R) (enc_stepsW bool subB linB R) = true ->
    forall x0 blk hdr (sched : list E) st (d : E), shaped sizes [x0; blk; ks_image hdr sched; st] ->
    length hdr = slot0 -> R <= length sched ->
    nth 0 (fst (execB callB code (([x0; blk; ks_image hdr sched; st] : mem bool), []))) []
    = fold_left (fun s e => reg bool (linB [reg bool (subB [s; hb e]) 0; hb e]) 0) (firstn R sched) blk
    /\ nth 1 (fst (execB callB code (([x0; blk; ks_image hdr sched; st] : mem bool), []))) [] = blk
    /\ nth 2 (fst (execB callB code (([x0; blk; ks_image hdr sched; st] : mem bool), []))) [] = ks_image hdr sched.
  Proof.
    intros code R HR Hk x0 blk hdr sched st d Hm Hh HRs.
    rewrite (check_block_w_sound callP callB sizes 2 slotsz code _ _ _ callf_spec_hom
               (enc_stepsW_hom _ subP subB linP linB R Hsub Hlin) Hk _ Hm).
    rewrite (enc_closed slot0 slotsz subB linB R x0 blk (ks_image hdr sched) st HR). cbn zeta. cbn [nth].
    split; [|split; reflexivity].
    rewrite (fold_left_ext_in (enc_step slot0 slotsz subB linB (ks_image hdr sched))
               (fun s i => (fun s e => reg bool (linB [reg bool (subB [s; hb e]) 0; hb e]) 0) s (nth i sched d))).
    - rewrite (fold_seq_nth (fun s e => reg bool (linB [reg bool (subB [s; hb e]) 0; hb e]) 0) sched d R 0 blk) by lia.
      cbn [skipn]. reflexivity.
    - intros i Hi s. apply in_seq in Hi. unfold enc_step. rewrite (slot_of_image hdr sched i d Hh) by lia. reflexivity.
  Qed.

  Theorem whole_dec_generic : forall code R, 0 < R ->
    check_block_w callP sizes 2 slotsz code (dec_offs slot0 slotsz R) (dec_stepsW poly subP linP R) (dec_stepsW bool subB linB R) = true ->
    forall x0 blk hdr (sched : list E) st (d : E), shaped sizes [x0; blk; ks_image hdr sched; st] ->
    length hdr = slot0 -> R <= length sched ->
    nth 0 (fst (execB callB code (([x0; blk; ks_image hdr sched; st] : mem bool), []))) []
    = fold_left (fun s e => reg bool (subB [reg bool (linB [s; hb e]) 0; hb e]) 0) (rev (firstn R sched)) blk
    /\ nth 1 (fst (execB callB code (([x0; blk; ks_image hdr sched; st] : mem bool), []))) [] = blk
    /\ nth 2 (fst (execB callB code (([x0; blk; ks_image hdr sched; st] : mem bool), []))) [] = ks_image hdr sched.
  Proof.
    intros code R HR Hk x0 blk hdr sched st d Hm Hh HRs.
    rewrite (check_block_w_sound callP callB sizes 2 slotsz code _ _ _ callf_spec_hom
               (dec_stepsW_hom _ subP subB linP linB R Hsub Hlin) Hk _ Hm).
    rewrite (dec_closed slot0 slotsz subB linB R x0 blk (ks_image hdr sched) st HR). cbn zeta. cbn [nth].
    split; [|split; reflexivity].
    rewrite (fold_left_ext_in (dec_step slot0 slotsz subB linB (ks_image hdr sched))
               (fun s i => (fun s e => reg bool (subB [reg bool (linB [s; hb e]) 0; hb e]) 0) s (nth i sched d))).
    - apply (fold_seq_nth_rev (fun s e => reg bool (subB [reg bool (linB [s; hb e]) 0; hb e]) 0) sched d R blk). exact HRs.
    - intros i Hi s. apply in_rev in Hi. apply in_seq in Hi. unfold dec_step.
      rewrite (slot_of_image hdr sched i d Hh) by lia. reflexivity.
  Qed.
End Generic.

(* ================================================================================================== *)
(* instances: the four block functions against the model                                                *)
(* ================================================================================================== *)
Notation callP := (callf_spec poly pxor pand pzero pone).
Notation callB := (callf_spec bool xorb andb false true).
Notation bits := (map (bits_of_c8 bool)).

Lemma fold_left_ext : forall {St E : Type} (f g : St -> E -> St), (forall s e, f s e = g s e) ->
  forall l s, fold_left f l s = fold_left g l s.
Proof. intros St E f g H l. induction l as [|x l IH]; intros s; [reflexivity|]. cbn [fold_left]. rewrite H. apply IH. Qed.

Lemma hb128_len : forall e : half byte, length (KernelSpecs2.half_bytes128 bool e) = 8.
Proof. intros [[[[? ?] ?] ?] [[[? ?] ?] ?]]. reflexivity. Qed.
Lemma hb128_len8 : forall e : half byte, Forall (fun b => length b = 8) (KernelSpecs2.half_bytes128 bool e).
Proof. intros e. unfold KernelSpecs2.half_bytes128. apply bits_len8. Qed.
Lemma hb64_len : forall e : half nib, length (KernelSpecs2.half_bytes64 bool e) = 4.
Proof. intros [[[[? ?] ?] ?] [[[? ?] ?] ?]]. reflexivity. Qed.
Lemma hb64_len8 : forall e : half nib, Forall (fun b => length b = 8) (KernelSpecs2.half_bytes64 bool e).
Proof. intros e. unfold KernelSpecs2.half_bytes64. apply bits_len8. Qed.

Definition ks_image128 := ks_image (half byte) (KernelSpecs2.half_bytes128 bool).
Definition ks_image64 := ks_image (half nib) (KernelSpecs2.half_bytes64 bool).
Definition sizes128 : list nat := [16; 16; 456; 16].
Definition sizes64 : list nat := [8; 8; 164; 8].

Section Inst128.
  Variables (out blk st hdr : list byte) (sched : list (half byte)).
  Hypothesis Ho : length out = 16.
  Hypothesis Hb : length blk = 16.
  Hypothesis Hs : length st = 16.
  Hypothesis Hh : length hdr = 8.
  Hypothesis Hsc : length sched = 56.
  Let m0 : mem bool := [bits out; bits blk; ks_image128 (bits hdr) sched; bits st].
  Lemma m0_shaped128 : shaped sizes128 m0.
  Proof.
    apply (shaped4 16 456 8 8 (half byte) (KernelSpecs2.half_bytes128 bool) hb128_len hb128_len8 out blk st (bits hdr) sched);
      try assumption; try (rewrite map_length; assumption); [apply bits_len8 | rewrite Hsc; reflexivity].
  Qed.

  Theorem whole_enc128_model : forall code R, 0 < R -> R <= 56 ->
    check_block_w callP sizes128 2 8 code (enc_offs 8 8 R)
      (enc_stepsW poly (k128_subcells poly pxor pand pzero pone) (k128_enc_linear poly pxor pzero pone) R)
      (enc_stepsW bool (k128_subcells bool xorb andb false true) (k128_enc_linear bool xorb false true) R) = true ->
    let m' := fst (execB callB code (m0, [])) in
    nth 0 m' [] = bits (m128_encrypt {| ks_rounds := N.of_nat R; ks_sched := sched |} blk)
    /\ nth 1 m' [] = bits blk /\ nth 2 m' [] = ks_image128 (bits hdr) sched.
  Proof.
    intros code R HR HR56 Hk. cbv zeta.
    destruct (whole_enc_generic 16 456 8 8 (half byte) (KernelSpecs2.half_bytes128 bool) _ _ _ _
                k128_subcells_homU k128_enc_linear_homU hb128_len code R HR Hk
                (bits out) (bits blk) (bits hdr) sched (bits st) (zhalf byte byte0) m0_shaped128)
      as [H0 H12]; [rewrite map_length; exact Hh | lia |].
    split; [|exact H12].
    etransitivity; [exact H0|]. rewrite m128_encrypt_by_kernels by exact Hb.
    unfold used. cbn [ks_rounds ks_sched]. rewrite Nat2N.id.
    apply fold_left_ext. intros s e. reflexivity.
  Qed.

  Theorem whole_dec128_model : forall code R, 0 < R -> R <= 56 ->
    check_block_w callP sizes128 2 8 code (dec_offs 8 8 R)
      (dec_stepsW poly (k128_subcells_inv poly pxor pand pzero pone) (k128_dec_linear poly pxor pzero pone) R)
      (dec_stepsW bool (k128_subcells_inv bool xorb andb false true) (k128_dec_linear bool xorb false true) R) = true ->
    let m' := fst (execB callB code (m0, [])) in
    nth 0 m' [] = bits (m128_decrypt {| ks_rounds := N.of_nat R; ks_sched := sched |} blk)
    /\ nth 1 m' [] = bits blk /\ nth 2 m' [] = ks_image128 (bits hdr) sched.
  Proof.
    intros code R HR HR56 Hk. cbv zeta.
    destruct (whole_dec_generic 16 456 8 8 (half byte) (KernelSpecs2.half_bytes128 bool) _ _ _ _
                k128_subcells_inv_homU k128_dec_linear_homU hb128_len code R HR Hk
                (bits out) (bits blk) (bits hdr) sched (bits st) (zhalf byte byte0) m0_shaped128)
      as [H0 H12]; [rewrite map_length; exact Hh | lia |].
    split; [|exact H12].
    etransitivity; [exact H0|]. rewrite m128_decrypt_by_kernels by exact Hb.
    unfold used. cbn [ks_rounds ks_sched]. rewrite Nat2N.id.
    apply fold_left_ext. intros s e. reflexivity.
  Qed.
End Inst128.

Section Inst64.
  Variables (out blk st hdr : list byte) (sched : list (half nib)).
  Hypothesis Ho : length out = 8.
  Hypothesis Hb : length blk = 8.
  Hypothesis Hs : length st = 8.
  Hypothesis Hh : length hdr = 4.
  Hypothesis Hsc : length sched = 40.
  Let m0 : mem bool := [bits out; bits blk; ks_image64 (bits hdr) sched; bits st].
  Lemma m0_shaped64 : shaped sizes64 m0.
  Proof.
    apply (shaped4 8 164 4 4 (half nib) (KernelSpecs2.half_bytes64 bool) hb64_len hb64_len8 out blk st (bits hdr) sched);
      try assumption; try (rewrite map_length; assumption); [apply bits_len8 | rewrite Hsc; reflexivity].
  Qed.

  Theorem whole_enc64_model : forall code R, 0 < R -> R <= 40 ->
    check_block_w callP sizes64 2 4 code (enc_offs 4 4 R)
      (enc_stepsW poly (k64_subcells poly pxor pand pzero pone) (k64_enc_linear poly pxor pzero pone) R)
      (enc_stepsW bool (k64_subcells bool xorb andb false true) (k64_enc_linear bool xorb false true) R) = true ->
    let m' := fst (execB callB code (m0, [])) in
    nth 0 m' [] = bits (m64_encrypt {| ks_rounds := N.of_nat R; ks_sched := sched |} blk)
    /\ nth 1 m' [] = bits blk /\ nth 2 m' [] = ks_image64 (bits hdr) sched.
  Proof.
    intros code R HR HR40 Hk. cbv zeta.
    destruct (whole_enc_generic 8 164 4 4 (half nib) (KernelSpecs2.half_bytes64 bool) _ _ _ _
                k64_subcells_homU k64_enc_linear_homU hb64_len code R HR Hk
                (bits out) (bits blk) (bits hdr) sched (bits st) (zhalf nib nib0) m0_shaped64)
      as [H0 H12]; [rewrite map_length; exact Hh | lia |].
    split; [|exact H12].
    etransitivity; [exact H0|]. rewrite m64_encrypt_by_kernels by exact Hb.
    unfold used. cbn [ks_rounds ks_sched]. rewrite Nat2N.id.
    apply fold_left_ext. intros s e. reflexivity.
  Qed.

  Theorem whole_dec64_model : forall code R, 0 < R -> R <= 40 ->
    check_block_w callP sizes64 2 4 code (dec_offs 4 4 R)
      (dec_stepsW poly (k64_subcells_inv poly pxor pand pzero pone) (k64_dec_linear poly pxor pzero pone) R)
      (dec_stepsW bool (k64_subcells_inv bool xorb andb false true) (k64_dec_linear bool xorb false true) R) = true ->
    let m' := fst (execB callB code (m0, [])) in
    nth 0 m' [] = bits (m64_decrypt {| ks_rounds := N.of_nat R; ks_sched := sched |} blk)
    /\ nth 1 m' [] = bits blk /\ nth 2 m' [] = ks_image64 (bits hdr) sched.
  Proof.
    intros code R HR HR40 Hk. cbv zeta.
    destruct (whole_dec_generic 8 164 4 4 (half nib) (KernelSpecs2.half_bytes64 bool) _ _ _ _
                k64_subcells_inv_homU k64_dec_linear_homU hb64_len code R HR Hk
                (bits out) (bits blk) (bits hdr) sched (bits st) (zhalf nib nib0) m0_shaped64)
      as [H0 H12]; [rewrite map_length; exact Hh | lia |].
    split; [|exact H12].
    etransitivity; [exact H0|]. rewrite m64_decrypt_by_kernels by exact Hb.
    unfold used. cbn [ks_rounds ks_sched]. rewrite Nat2N.id.
    apply fold_left_ext. intros s e. reflexivity.
  Qed.
End Inst64.

(* ================================================================================================== *)
(* running the structured program (reference interpreter) = flatten + straight-line code: the final      *)
(* statements about the C functions as translated                                                       *)
(* ================================================================================================== *)
Definition ksf : field := (2, 0, 4).            (* the public field ks->rounds *)

Section Run.
  Variable bs kssize : nat.
  Variable sizes : list nat.
  Hypothesis Hsizes : sizes = [bs; bs; kssize; bs].
  Hypothesis Hks : 4 <= kssize.

  Lemma run_block : forall code fuel R pl' sh' c t (m0 : mem bool),
    flat [ksf] fuel [0; 0; 0]%N [(ksf, N.of_nat R)] code = Some (pl', sh', c, t) ->
    shaped sizes m0 -> field_val m0 ksf = N.of_nat R ->
    interp [ksf] callB fuel [0; 0; 0]%N (m0, []) code = Some (pl', execB callB c (m0, []), t).
  Proof.
    intros code fuel R pl' sh' c t m0 Hf Hm Hv.
    apply (interp_of_flat [ksf] callB (disjoint_single ksf) (nodup_single ksf) fuel code [0; 0; 0]%N [(ksf, N.of_nat R)] m0 pl' sh' c t); [|exact Hf].
    apply Inv_single; [exact Hv|]. subst sizes. destruct Hm as [Hl Hr]. cbn [length] in Hl.
    unfold ksf. cbn [field_inb]. split; [lia|]. destruct (Hr 2) as [H2 _]; [cbn; lia|]. cbn [nth] in H2. lia.
  Qed.
End Run.

(* the final form, one per block function; the generated files instantiate code, fuel, R and discharge the
   three computational hypotheses (layout, flat, check_block_w) by vm_compute *)
Ltac final_tac model_thm sizes_shaped bsz ksz :=
  intros code fuel R pl' sh' c t HR HRmax Hflat Hcheck out blk st hdr sched Ho Hb Hs Hh Hsc m0 Hv;
  pose proof (sizes_shaped out blk st hdr sched Ho Hb Hs Hh Hsc) as Hm;
  exists (execB callB c (m0, []));
  split; [ apply (run_block bsz ksz _ eq_refl ltac:(lia) code fuel R pl' sh' c t m0 Hflat Hm Hv)
         | exact (model_thm out blk st hdr sched Ho Hb Hs Hh Hsc c R HR HRmax Hcheck) ].

Theorem enc128_final : forall code fuel R pl' sh' c t, 0 < R -> R <= 56 ->
  flat [ksf] fuel [0; 0; 0]%N [(ksf, N.of_nat R)] code = Some (pl', sh', c, t) ->
  check_block_w callP sizes128 2 8 c (enc_offs 8 8 R)
    (enc_stepsW poly (k128_subcells poly pxor pand pzero pone) (k128_enc_linear poly pxor pzero pone) R)
    (enc_stepsW bool (k128_subcells bool xorb andb false true) (k128_enc_linear bool xorb false true) R) = true ->
  forall (out blk st hdr : list byte) (sched : list (half byte)),
  length out = 16 -> length blk = 16 -> length st = 16 -> length hdr = 8 -> length sched = 56 ->
  let m0 : mem bool := [bits out; bits blk; ks_image128 (bits hdr) sched; bits st] in
  field_val m0 ksf = N.of_nat R ->
  exists st', interp [ksf] callB fuel [0; 0; 0]%N (m0, []) code = Some (pl', st', t)
    /\ nth 0 (fst st') [] = bits (m128_encrypt {| ks_rounds := N.of_nat R; ks_sched := sched |} blk)
    /\ nth 1 (fst st') [] = bits blk /\ nth 2 (fst st') [] = ks_image128 (bits hdr) sched.
Proof. final_tac whole_enc128_model m0_shaped128 16 456. Qed.

Theorem dec128_final : forall code fuel R pl' sh' c t, 0 < R -> R <= 56 ->
  flat [ksf] fuel [0; 0; 0]%N [(ksf, N.of_nat R)] code = Some (pl', sh', c, t) ->
  check_block_w callP sizes128 2 8 c (dec_offs 8 8 R)
    (dec_stepsW poly (k128_subcells_inv poly pxor pand pzero pone) (k128_dec_linear poly pxor pzero pone) R)
    (dec_stepsW bool (k128_subcells_inv bool xorb andb false true) (k128_dec_linear bool xorb false true) R) = true ->
  forall (out blk st hdr : list byte) (sched : list (half byte)),
  length out = 16 -> length blk = 16 -> length st = 16 -> length hdr = 8 -> length sched = 56 ->
  let m0 : mem bool := [bits out; bits blk; ks_image128 (bits hdr) sched; bits st] in
  field_val m0 ksf = N.of_nat R ->
  exists st', interp [ksf] callB fuel [0; 0; 0]%N (m0, []) code = Some (pl', st', t)
    /\ nth 0 (fst st') [] = bits (m128_decrypt {| ks_rounds := N.of_nat R; ks_sched := sched |} blk)
    /\ nth 1 (fst st') [] = bits blk /\ nth 2 (fst st') [] = ks_image128 (bits hdr) sched.
Proof. final_tac whole_dec128_model m0_shaped128 16 456. Qed.

Theorem enc64_final : forall code fuel R pl' sh' c t, 0 < R -> R <= 40 ->
  flat [ksf] fuel [0; 0; 0]%N [(ksf, N.of_nat R)] code = Some (pl', sh', c, t) ->
  check_block_w callP sizes64 2 4 c (enc_offs 4 4 R)
    (enc_stepsW poly (k64_subcells poly pxor pand pzero pone) (k64_enc_linear poly pxor pzero pone) R)
    (enc_stepsW bool (k64_subcells bool xorb andb false true) (k64_enc_linear bool xorb false true) R) = true ->
  forall (out blk st hdr : list byte) (sched : list (half nib)),
  length out = 8 -> length blk = 8 -> length st = 8 -> length hdr = 4 -> length sched = 40 ->
  let m0 : mem bool := [bits out; bits blk; ks_image64 (bits hdr) sched; bits st] in
  field_val m0 ksf = N.of_nat R ->
  exists st', interp [ksf] callB fuel [0; 0; 0]%N (m0, []) code = Some (pl', st', t)
    /\ nth 0 (fst st') [] = bits (m64_encrypt {| ks_rounds := N.of_nat R; ks_sched := sched |} blk)
    /\ nth 1 (fst st') [] = bits blk /\ nth 2 (fst st') [] = ks_image64 (bits hdr) sched.
Proof. final_tac whole_enc64_model m0_shaped64 8 164. Qed.

Theorem dec64_final : forall code fuel R pl' sh' c t, 0 < R -> R <= 40 ->
  flat [ksf] fuel [0; 0; 0]%N [(ksf, N.of_nat R)] code = Some (pl', sh', c, t) ->
  check_block_w callP sizes64 2 4 c (dec_offs 4 4 R)
    (dec_stepsW poly (k64_subcells_inv poly pxor pand pzero pone) (k64_dec_linear poly pxor pzero pone) R)
    (dec_stepsW bool (k64_subcells_inv bool xorb andb false true) (k64_dec_linear bool xorb false true) R) = true ->
  forall (out blk st hdr : list byte) (sched : list (half nib)),
  length out = 8 -> length blk = 8 -> length st = 8 -> length hdr = 4 -> length sched = 40 ->
  let m0 : mem bool := [bits out; bits blk; ks_image64 (bits hdr) sched; bits st] in
  field_val m0 ksf = N.of_nat R ->
  exists st', interp [ksf] callB fuel [0; 0; 0]%N (m0, []) code = Some (pl', st', t)
    /\ nth 0 (fst st') [] = bits (m64_decrypt {| ks_rounds := N.of_nat R; ks_sched := sched |} blk)
    /\ nth 1 (fst st') [] = bits blk /\ nth 2 (fst st') [] = ks_image64 (bits hdr) sched.
Proof. final_tac whole_dec64_model m0_shaped64 8 164. Qed.
