(* ArdApi.v — step function over Arduino objects, extracted and run against the host-compiled C++ classes
   (harness/arduino_driver.cpp) on the same scripts. *)
From Coq Require Import List Bool NArith Arith.
From Skinny Require Import Bits SpecSkinny SpecMantis ModelCipher ModelCtr ModelArduino.
Import ListNotations.

Inductive acls : Type :=
| AS128 (z : nat) | AS128T (zk : nat) | AS64 (z : nat) | AS64T (zk : nat) | AM8
| ACTR (z : nat) | ACTRT (zk : nat).

Inductive aobj : Type :=
| O128 (z : nat) (tweaked : bool) (a : ard128)
| O64 (z : nat) (tweaked : bool) (a : ard64)
| OM8 (m : mantis_ks)
| OCTR (z : nat) (tweaked : bool) (c : actr ard128).

Inductive aop : Type :=
| ANew (c : acls) (id : N)
| ASetKey (id : N) (key : list byte)
| ASetTweak (id : N) (tw : buf) (len : nat)
| AEnc (id : N) (blk : list byte) | ADec (id : N) (blk : list byte)
| ASwap (id : N) | AClear (id : N)
| ASetIV (id : N) (iv : list byte) | ASetCtrSize (id : N) (n : nat) | ACrypt (id : N) (d : list byte).

Inductive aev : Type := ARet (b : bool) | AOut (o : list byte) | ADone | ABad.

Definition aworld := list (N * aobj).
Definition alookup (w : aworld) (id : N) : option aobj :=
  match find (fun p => N.eqb (fst p) id) w with Some p => Some (snd p) | None => None end.
Definition astore (w : aworld) (id : N) (o : aobj) : aworld :=
  (id, o) :: filter (fun p => negb (N.eqb (fst p) id)) w.

Definition new_aobj (c : acls) : aobj :=
  match c with
  | AS128 z => O128 z false (a128_new (skinny128_rounds z))
  | AS128T zk => O128 zk true (a128_new (skinny128_rounds (S zk)))
  | AS64 z => O64 z false (a64_new (skinny64_rounds z))
  | AS64T zk => O64 zk true (a64_new (skinny64_rounds (S zk)))
  | AM8 => OM8 {| mk_k0 := mzero; mk_k0p := mzero; mk_k1 := mzero; mk_tweak := mzero; mk_rounds := 8 |}
  | ACTR z => OCTR z false (actr_new ard128 (a128_new (skinny128_rounds z)))
  | ACTRT zk => OCTR zk true (actr_new ard128 (a128_new (skinny128_rounds (S zk))))
  end.

Definition key128 (z : nat) (tweaked : bool) (a : ard128) (key : list byte) : bool * ard128 :=
  if tweaked then a128_set_key_tweaked z a key else a128_set_key z a key.
Definition key64 (z : nat) (tweaked : bool) (a : ard64) (key : list byte) : bool * ard64 :=
  if tweaked then a64_set_key_tweaked z a key else a64_set_key z a key.
Definition with_ckey (c : actr ard128) (k : ard128) : actr ard128 :=
  {| ac_key := k; ac_counter := ac_counter ard128 c; ac_state := ac_state ard128 c;
     ac_posn := ac_posn ard128 c; ac_start := ac_start ard128 c |}.

Definition astep (w : aworld) (o : aop) : aworld * aev :=
  match o with
  | ANew c id => (astore w id (new_aobj c), ADone)
  | ASetKey id key =>
      match alookup w id with
      | Some (O128 z t a) => let '(r, a') := key128 z t a key in (astore w id (O128 z t a'), ARet r)
      | Some (O64 z t a) => let '(r, a') := key64 z t a key in (astore w id (O64 z t a'), ARet r)
      | Some (OM8 m) => let '(r, m') := am_set_key m key in (astore w id (OM8 m'), ARet r)
      | Some (OCTR z t c) =>
          let '(r, a') := key128 z t (ac_key ard128 c) key in (astore w id (OCTR z t (with_ckey c a')), ARet r)
      | None => (w, ABad)
      end
  | ASetTweak id tw len =>
      match alookup w id with
      | Some (O128 z true a) => let '(r, a') := a128_set_tweak a tw len in (astore w id (O128 z true a'), ARet r)
      | Some (O64 z true a) => let '(r, a') := a64_set_tweak a tw len in (astore w id (O64 z true a'), ARet r)
      | Some (OM8 m) => let '(r, m') := am_set_tweak m tw len in (astore w id (OM8 m'), ARet r)
      | _ => (w, ABad)
      end
  | AEnc id blk =>
      match alookup w id with
      | Some (O128 _ _ a) => (w, AOut (a128_encrypt a (pad_to 16 blk)))
      | Some (O64 _ _ a) => (w, AOut (a64_encrypt a (pad_to 8 blk)))
      | Some (OM8 m) => (w, AOut (am_crypt m (pad_to 8 blk)))
      | _ => (w, ABad)
      end
  | ADec id blk =>
      match alookup w id with
      | Some (O128 _ _ a) => (w, AOut (a128_decrypt a (pad_to 16 blk)))
      | Some (O64 _ _ a) => (w, AOut (a64_decrypt a (pad_to 8 blk)))
      | Some (OM8 m) => (w, AOut (am_crypt m (pad_to 8 blk)))
      | _ => (w, ABad)
      end
  | ASwap id =>
      match alookup w id with
      | Some (OM8 m) => (astore w id (OM8 (am_swap m)), ADone)
      | _ => (w, ABad)
      end
  | AClear id =>
      match alookup w id with
      | Some (O128 z t a) => (astore w id (O128 z t (ard_clear byte 16 byte0 a)), ADone)
      | Some (O64 z t a) => (astore w id (O64 z t (ard_clear nib 8 nib0 a)), ADone)
      | Some (OM8 m) => (astore w id (OM8 (am_clear m)), ADone)
      | Some (OCTR z t c) =>
          (astore w id (OCTR z t {| ac_key := ard_clear byte 16 byte0 (ac_key ard128 c); ac_counter := zeros 16;
                                    ac_state := zeros 16; ac_posn := 16; ac_start := ac_start ard128 c |}), ADone)
      | None => (w, ABad)
      end
  | ASetIV id iv =>
      match alookup w id with
      | Some (OCTR z t c) => let '(r, c') := actr_set_iv ard128 c iv in (astore w id (OCTR z t c'), ARet r)
      | _ => (w, ABad)
      end
  | ASetCtrSize id n =>
      match alookup w id with
      | Some (OCTR z t c) => let '(r, c') := actr_set_counter_size ard128 c n in (astore w id (OCTR z t c'), ARet r)
      | _ => (w, ABad)
      end
  | ACrypt id d =>
      match alookup w id with
      | Some (OCTR z t c) =>
          let '(c', out) := actr_encrypt ard128 a128_encrypt c d in (astore w id (OCTR z t c'), AOut out)
      | _ => (w, ABad)
      end
  end.
