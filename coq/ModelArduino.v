(* ModelArduino.v — the Arduino port (arduino/libraries/Skinny, portable C++ path): the eleven block-cipher
   classes and the CTR<T> wrapper, modelled from the C++ code's own structure: a schedule array of exactly
   `rounds` slots owned by the object, setTK1/xorTK1/setTK2/setTK3 passes, exact key lengths only, tweak of
   exactly one block (NULL = zero), clear() zeroing the schedule; Mantis8 with swapModes; CTRCommon with its
   one-block keystream buffer, posn, and a counter of configurable width. *)
From Coq Require Import List Bool NArith Arith.
From Skinny Require Import Bits SpecSkinny SpecMantis ModelCipher ModelCtr.
Import ListNotations.

Section ArduinoSkinny.
  Variable C : Type.
  Variable cx : C -> C -> C.
  Variable cnib : bool -> bool -> bool -> bool -> C.
  Variables sb sbi l2 l3 : C -> C.
  Variable bs : nat.
  Variable load : list byte -> state C.
  Variable store : state C -> list byte.
  Variable czero : C.

  (* object state: the schedule (r slots) and, for tweakable classes, the current tweak *)
  Record ard : Type := { a_sched : list (half C); a_tweak : list byte }.
  Definition ard_new (r : nat) : ard := {| a_sched := repeat (zhalf C czero) r; a_tweak := zeros bs |}.
  Definition with_sched (a : ard) (s : list (half C)) : ard := {| a_sched := s; a_tweak := a_tweak a |}.

  Definition r_of (a : ard) : nat := length (a_sched a).
  Notation TK1 := (set_tk1 C cx cnib bs load czero).
  Notation XTK1 := (xor_tk1 C cx bs load).
  Notation TK2 := (set_tk2 C cx l2 bs load).
  Notation TK3 := (set_tk3 C cx l3 bs load).

  (* SkinnyNN_<k>::setKey for the plain classes: z tweakey blocks, exact length only *)
  Definition ard_set_key (z : nat) (a : ard) (key : list byte) : bool * ard :=
    if Nat.eqb (length key) (z * bs) then
      let r := r_of a in
      let s1 := TK1 r (firstn bs key) false (a_sched a) in
      let s2 := if Nat.leb 2 z then TK2 r (firstn bs (skipn bs key)) s1 else s1 in
      let s3 := if Nat.leb 3 z then TK3 r (firstn bs (skipn (2 * bs) key)) s2 else s2 in
      (true, with_sched a s3)
    else (false, a).
  (* tweakable classes: zk key blocks; resetTweak() then TK2 (and TK3) *)
  Definition ard_set_key_tweaked (zk : nat) (a : ard) (key : list byte) : bool * ard :=
    if Nat.eqb (length key) (zk * bs) then
      let r := r_of a in
      let s1 := TK1 r (zeros bs) true (a_sched a) in
      let s2 := TK2 r (firstn bs key) s1 in
      let s3 := if Nat.leb 2 zk then TK3 r (firstn bs (skipn bs key)) s2 else s2 in
      (true, {| a_sched := s3; a_tweak := zeros bs |})
    else (false, a).
  (* setTweak: exactly one block; NULL = zero tweak *)
  Definition ard_set_tweak (a : ard) (tw : buf) (len : nat) : bool * ard :=
    if Nat.eqb len bs then
      let r := r_of a in
      let s1 := XTK1 r (a_tweak a) (a_sched a) in
      match tw with
      | Some t => let t' := pad_to bs t in (true, {| a_sched := XTK1 r t' s1; a_tweak := t' |})
      | None => (true, {| a_sched := s1; a_tweak := zeros bs |})
      end
    else (false, a).
  Definition ard_clear (a : ard) : ard :=
    {| a_sched := repeat (zhalf C czero) (r_of a); a_tweak := zeros bs |}.
  Definition ard_encrypt (a : ard) (blk : list byte) : list byte :=
    store (fold_left (fun s e => enc_round C cx cnib sb e s) (a_sched a) (load blk)).
  Definition ard_decrypt (a : ard) (blk : list byte) : list byte :=
    store (fold_left (fun s e => dec_round C cx cnib sbi e s) (rev (a_sched a)) (load blk)).
End ArduinoSkinny.

(* instances *)
Definition ard128 := ard byte.
Definition ard64 := ard nib.
Definition a128_new := ard_new byte 16 byte0.
Definition a64_new := ard_new nib 8 nib0.
Definition a128_set_key := ard_set_key byte bxor8 cnib8 (lfsr2_8 bool xorb) (lfsr3_8 bool xorb) 16 load128 byte0.
Definition a128_set_key_tweaked :=
  ard_set_key_tweaked byte bxor8 cnib8 (lfsr2_8 bool xorb) (lfsr3_8 bool xorb) 16 load128 byte0.
Definition a128_set_tweak := ard_set_tweak byte bxor8 16 load128.
Definition a128_encrypt := ard_encrypt byte bxor8 cnib8 S8b load128 store128.
Definition a128_decrypt := ard_decrypt byte bxor8 cnib8 S8ib load128 store128.
Definition a64_set_key := ard_set_key nib bxor4 cnib4 (lfsr2_4 bool xorb) (lfsr3_4 bool xorb) 8 load64 nib0.
Definition a64_set_key_tweaked :=
  ard_set_key_tweaked nib bxor4 cnib4 (lfsr2_4 bool xorb) (lfsr3_4 bool xorb) 8 load64 nib0.
Definition a64_set_tweak := ard_set_tweak nib bxor4 8 load64.
Definition a64_encrypt := ard_encrypt nib bxor4 cnib4 S4b load64 store64.
Definition a64_decrypt := ard_decrypt nib bxor4 cnib4 S4ib load64 store64.

(* Mantis8: always keyed for encryption with 8 rounds; decryptBlock = encryptBlock (callers swap modes) *)
Definition am_set_key (m : mantis_ks) (key : list byte) : bool * mantis_ks :=
  if Nat.eqb (length key) 16 then
    let k0 := load64 (firstn 8 key) in
    (true, {| mk_k0 := k0; mk_k0p := mk0prime k0; mk_k1 := load64 (firstn_skip 8 8 key);
              mk_tweak := mzero; mk_rounds := 8 |})
  else (false, m).
Definition am_set_tweak (m : mantis_ks) (tw : buf) (len : nat) : bool * mantis_ks :=
  if Nat.eqb len 8 then
    (true, {| mk_k0 := mk_k0 m; mk_k0p := mk_k0p m; mk_k1 := mk_k1 m;
              mk_tweak := match tw with Some t => load64 (pad_to 8 t) | None => mzero end;
              mk_rounds := mk_rounds m |})
  else (false, m).
Definition am_swap := mantis_swap_modes.
Definition am_crypt := mantis_crypt.
Definition am_clear (m : mantis_ks) : mantis_ks :=
  {| mk_k0 := mzero; mk_k0p := mzero; mk_k1 := mzero; mk_tweak := mzero; mk_rounds := mk_rounds m |}.

(* CTRCommon over a 16-byte block cipher E *)
Section ArduinoCtr.
  Variable K : Type.
  Variable E : K -> list byte -> list byte.
  Record actr : Type := {
    ac_key : K; ac_counter : list byte; ac_state : list byte; ac_posn : nat; ac_start : nat }.
  Definition actr_new (k : K) : actr :=
    {| ac_key := k; ac_counter := zeros 16; ac_state := zeros 16; ac_posn := 16; ac_start := 0 |}.
  Definition actr_set_counter_size (a : actr) (size : nat) : bool * actr :=
    if Nat.leb 1 size && Nat.leb size 16 then
      (true, {| ac_key := ac_key a; ac_counter := ac_counter a; ac_state := ac_state a;
                ac_posn := ac_posn a; ac_start := 16 - size |})
    else (false, a).
  Definition actr_set_iv (a : actr) (iv : list byte) : bool * actr :=
    if Nat.eqb (length iv) 16 then
      (true, {| ac_key := ac_key a; ac_counter := iv; ac_state := ac_state a; ac_posn := 16;
                ac_start := ac_start a |})
    else (false, a).
  (* increment only the bytes at positions >= counterStart *)
  Definition actr_inc (start : nat) (c : list byte) : list byte :=
    firstn start c ++ inc_counter (skipn start c) 1.
  Fixpoint actr_loop (fuel : nat) (a : actr) (inp : list byte) : actr * list byte :=
    match fuel with
    | O => (a, [])
    | S f =>
      match inp with
      | [] => (a, [])
      | _ =>
        let a1 := if Nat.leb 16 (ac_posn a) then
                    {| ac_key := ac_key a; ac_counter := actr_inc (ac_start a) (ac_counter a);
                       ac_state := E (ac_key a) (ac_counter a); ac_posn := 0; ac_start := ac_start a |}
                  else a in
        let n := Nat.min (16 - ac_posn a1) (length inp) in
        let out := xor_bytes (firstn n inp) (skipn (ac_posn a1) (ac_state a1)) in
        let a2 := {| ac_key := ac_key a1; ac_counter := ac_counter a1; ac_state := ac_state a1;
                     ac_posn := ac_posn a1 + n; ac_start := ac_start a1 |} in
        let '(a3, rest) := actr_loop f a2 (skipn n inp) in
        (a3, out ++ rest)
      end
    end.
  Definition actr_encrypt (a : actr) (inp : list byte) : actr * list byte :=
    actr_loop (S (length inp)) a inp.
End ArduinoCtr.
