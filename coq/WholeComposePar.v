(* WholeComposePar.v — the parallel-ECB encryption of SKINNY-128 / SKINNY-64 (WholePar.v) with the SINGLE-BLOCK callee — the
   path taken for the blocks left over after the last whole group, and for every block of a request shorter than a group —
   interpreted by skinny128/64_ecb_encrypt's own translated code (cB_run, WholeCompose.v).  The VECTOR callee stays a
   procedure V under its contract "E on every block of the group" (its body is tied by the vector-kernel obligations of tie T
   and by C; see DESIGN.md section 9). *)
From Coq Require Import List Bool NArith Arith Lia.
From Skinny Require Import Bits SpecSkinny IR SIR Anf IRCheck KernelSpecs KernelSpecs2 KernelHom KernelHom2 SIRCheck WholeSpecs SIRProofs Frame
                           ModelCipher ModelCtr ProofsCtr WholeBridge WholeKey WholeProc WholeCtr WholeCtrModel WholePar WholeContracts
                           WholeKeyTweak WholeCompose ProofsApiCtr.
Import ListNotations.

Definition cB_half (fblk : nat) (run V : nat -> list bool -> list bool) (f : nat) (bits : list bool) : list bool :=
  if Nat.eqb f fblk then run f bits else V f bits.

Theorem ppar128_enc_composed :
  forall fields code fuel pl sh pl' sh' c t has_vt psize fvec fblk size (rsz : list nat)     (* skinny128_parallel_ecb_encrypt *)
         code2 fuel2 R pl2 sh2 c2 t2,                                                        (* skinny128_ecb_encrypt *)
  fields_okb fields = true ->
  flat fields fuel pl sh code = Some (pl', sh', c, t) ->
  check_proc (size :: size :: rsz) c (pspec 456 poly has_vt psize 16 fvec fblk size) = true ->
  0 < R -> R <= 56 ->
  flat [ksf] fuel2 [0; 0; 0]%N [(ksf, N.of_nat R)] code2 = Some (pl2, sh2, c2, t2) ->
  check_block_w callP sizes128 2 8 c2 (enc_offs 8 8 R)
    (enc_stepsW poly (k128_subcells poly pxor pand pzero pone) (k128_enc_linear poly pxor pzero pone) R)
    (enc_stepsW bool (k128_subcells bool xorb andb false true) (k128_enc_linear bool xorb false true) R) = true ->
  forall (V : nat -> list bool -> list bool) (out inp hdrtail : list byte) (sched : list (half byte)) (EO back : list (list bool)) (rest : mem bool),
  0 < psize -> psize mod 16 = 0 -> size mod 16 = 0 -> fvec <> fblk ->
  length out = size -> length inp = size -> length hdrtail = 4 -> length sched = 56 -> bytes8 back ->
  let KS := ((rbytes R ++ bitsB hdrtail) ++ concat (map (KernelSpecs2.half_bytes128 bool) sched)) ++ back in
  let E := m128_encrypt {| ks_rounds := N.of_nat R; ks_sched := sched |} in
  (forall grp, length grp = psize ->
     V fvec (concat (bitsB grp) ++ concat (firstn 456 KS)) = concat (bitsB (concat (map E (blocks 16 grp))))) ->
  let m0 : mem bool := bitsB out :: bitsB inp :: EO :: KS :: rest in
  shaped (size :: size :: rsz) m0 -> SIRProofs.Inv fields sh m0 ->
  exists st', interp fields (cB_half fblk (cB_run 16 456 code2 fuel2) V) fuel pl (m0, []) code = Some (pl', st', t)
    /\ fst st' = bitsB (concat (map E (blocks 16 inp))) :: bitsB inp :: EO :: KS :: rest.
Proof.
  intros fields code fuel pl sh pl' sh' c t has_vt psize fvec fblk size rsz code2 fuel2 R pl2 sh2 c2 t2 Hf Hfl Hk HR0 HR Hfl2 Hk2
         V out inp hdrtail sched EO back rest Hps Hpm Hsm Hne Ho Hi Hh Hs Hb8 KS E HV m0 Hm HI.
  unfold byte in *.
  assert (Lpre : length ((rbytes R ++ bitsB hdrtail) ++ concat (map (KernelSpecs2.half_bytes128 bool) sched)) = 456).
  { rewrite !app_length, map_length, sched_image_len128, rbytes_len. unfold byte in *. lia. }
  assert (FKS : firstn 456 KS = (rbytes R ++ bitsB hdrtail) ++ concat (map (KernelSpecs2.half_bytes128 bool) sched)).
  { unfold KS. rewrite <- Lpre, firstn_app, Nat.sub_diag, firstn_O, app_nil_r. apply firstn_all. }
  assert (KS8 : bytes8 KS).
  { unfold KS. repeat (apply Forall_app; split); try apply bitsB_bytes8; try apply bytes_of_bytes8; try assumption.
    apply Forall_concat. apply Forall_forall. intros x Hx. apply in_map_iff in Hx. destruct Hx as [e [<- _]]. apply hb128_len8. }
  apply (ppar_model fields code fuel pl sh pl' sh' c t 456 has_vt psize 16 fvec fblk size rsz Hf Hfl Hk
           (cB_half fblk (cB_run 16 456 code2 fuel2) V) E out inp EO KS rest); try assumption; try lia.
  - unfold KS. rewrite app_length, Lpre. lia.
  - intros blk _. apply m128_encrypt_length.
  - intros blk Hb. unfold cB_half. rewrite Nat.eqb_refl.
    exact (enc128_contract code2 fuel2 R pl2 sh2 c2 t2 HR0 HR Hfl2 Hk2 fblk KS hdrtail sched Hh Hs FKS blk Hb).
  - intros grp Hg. unfold cB_half. destruct (Nat.eqb fvec fblk) eqn:Ef; [apply Nat.eqb_eq in Ef; congruence|]. apply HV. exact Hg.
Qed.
Theorem ppar64_enc_composed :
  forall fields code fuel pl sh pl' sh' c t has_vt psize fvec fblk size (rsz : list nat)     (* skinny64_parallel_ecb_encrypt *)
         code2 fuel2 R pl2 sh2 c2 t2,                                                        (* skinny64_ecb_encrypt *)
  fields_okb fields = true ->
  flat fields fuel pl sh code = Some (pl', sh', c, t) ->
  check_proc (size :: size :: rsz) c (pspec 164 poly has_vt psize 8 fvec fblk size) = true ->
  0 < R -> R <= 40 ->
  flat [ksf] fuel2 [0; 0; 0]%N [(ksf, N.of_nat R)] code2 = Some (pl2, sh2, c2, t2) ->
  check_block_w callP sizes64 2 4 c2 (enc_offs 4 4 R)
    (enc_stepsW poly (k64_subcells poly pxor pand pzero pone) (k64_enc_linear poly pxor pzero pone) R)
    (enc_stepsW bool (k64_subcells bool xorb andb false true) (k64_enc_linear bool xorb false true) R) = true ->
  forall (V : nat -> list bool -> list bool) (out inp hdrtail : list byte) (sched : list (half nib)) (EO back : list (list bool)) (rest : mem bool),
  0 < psize -> psize mod 8 = 0 -> size mod 8 = 0 -> fvec <> fblk ->
  length out = size -> length inp = size -> length hdrtail = 0 -> length sched = 40 -> bytes8 back ->
  let KS := ((rbytes R ++ bitsB hdrtail) ++ concat (map (KernelSpecs2.half_bytes64 bool) sched)) ++ back in
  let E := m64_encrypt {| ks_rounds := N.of_nat R; ks_sched := sched |} in
  (forall grp, length grp = psize ->
     V fvec (concat (bitsB grp) ++ concat (firstn 164 KS)) = concat (bitsB (concat (map E (blocks 8 grp))))) ->
  let m0 : mem bool := bitsB out :: bitsB inp :: EO :: KS :: rest in
  shaped (size :: size :: rsz) m0 -> SIRProofs.Inv fields sh m0 ->
  exists st', interp fields (cB_half fblk (cB_run 8 164 code2 fuel2) V) fuel pl (m0, []) code = Some (pl', st', t)
    /\ fst st' = bitsB (concat (map E (blocks 8 inp))) :: bitsB inp :: EO :: KS :: rest.
Proof.
  intros fields code fuel pl sh pl' sh' c t has_vt psize fvec fblk size rsz code2 fuel2 R pl2 sh2 c2 t2 Hf Hfl Hk HR0 HR Hfl2 Hk2
         V out inp hdrtail sched EO back rest Hps Hpm Hsm Hne Ho Hi Hh Hs Hb8 KS E HV m0 Hm HI.
  unfold byte in *.
  assert (Lpre : length ((rbytes R ++ bitsB hdrtail) ++ concat (map (KernelSpecs2.half_bytes64 bool) sched)) = 164).
  { rewrite !app_length, map_length, sched_image_len64, rbytes_len. unfold byte in *. lia. }
  assert (FKS : firstn 164 KS = (rbytes R ++ bitsB hdrtail) ++ concat (map (KernelSpecs2.half_bytes64 bool) sched)).
  { unfold KS. rewrite <- Lpre, firstn_app, Nat.sub_diag, firstn_O, app_nil_r. apply firstn_all. }
  assert (KS8 : bytes8 KS).
  { unfold KS. repeat (apply Forall_app; split); try apply bitsB_bytes8; try apply bytes_of_bytes8; try assumption.
    apply Forall_concat. apply Forall_forall. intros x Hx. apply in_map_iff in Hx. destruct Hx as [e [<- _]]. apply hb64_len8. }
  apply (ppar_model fields code fuel pl sh pl' sh' c t 164 has_vt psize 8 fvec fblk size rsz Hf Hfl Hk
           (cB_half fblk (cB_run 8 164 code2 fuel2) V) E out inp EO KS rest); try assumption; try lia.
  - unfold KS. rewrite app_length, Lpre. lia.
  - intros blk _. apply m64_encrypt_length.
  - intros blk Hb. unfold cB_half. rewrite Nat.eqb_refl.
    exact (enc64_contract code2 fuel2 R pl2 sh2 c2 t2 HR0 HR Hfl2 Hk2 fblk KS hdrtail sched Hh Hs FKS blk Hb).
  - intros grp Hg. unfold cB_half. destruct (Nat.eqb fvec fblk) eqn:Ef; [apply Nat.eqb_eq in Ef; congruence|]. apply HV. exact Hg.
Qed.
Print Assumptions ppar128_enc_composed.
Print Assumptions ppar64_enc_composed.
