(* KernelHom.v — every specification step of KernelSpecs.v commutes with a homomorphism of bit carriers
   (in particular with evaluation of GF(2) polynomials, [peval rho : poly -> bool]), so that it can be used
   as the [spec_hom] premise of IRCheck.check_kernel_sound / check_segments; and the two layers in which the
   round bodies are cut compose to the full round. *)
From Coq Require Import List Bool NArith Arith Lia.
From Skinny Require Import Bits SpecSkinny SpecMantis IR Anf IRCheck KernelSpecs.
Import ListNotations.

Lemma nth_map_d : forall {A A' : Type} (f : A -> A') l d d' i,
  f d = d' -> nth i (map f l) d' = f (nth i l d).
Proof. intros A A' f l d d' i <-. apply map_nth. Qed.

Ltac d4 x := destruct x as [[[? ?] ?] ?].
Ltac d8 x := destruct x as [[[[[[[? ?] ?] ?] ?] ?] ?] ?].
Ltac drow r := destruct r as [[[? ?] ?] ?].
Ltac dstate s := destruct s as [[[[[[? ?] ?] ?] [[[? ?] ?] ?]] [[[? ?] ?] ?]] [[[? ?] ?] ?]].

(* ================================================================================================== *)
(* 1. states over two cell types related by a map g                                                     *)
(* ================================================================================================== *)
Section StateHom.
  Variables C1 C2 : Type.
  Variable g : C1 -> C2.

  Definition rmapS (r : row C1) : row C2 := let '(a, b, c, d) := r in (g a, g b, g c, g d).
  Definition smapS (s : state C1) : state C2 :=
    let '(s0, s1, s2, s3) := s in (rmapS s0, rmapS s1, rmapS s2, rmapS s3).

  Variable cx1 : C1 -> C1 -> C1.
  Variable cx2 : C2 -> C2 -> C2.
  Hypothesis g_cx : forall a b, g (cx1 a b) = cx2 (g a) (g b).

  Lemma smapS_smap : forall f1 f2, (forall x, g (f1 x) = f2 (g x)) ->
    forall s, smapS (smap C1 f1 s) = smap C2 f2 (smapS s).
  Proof. intros f1 f2 H s. dstate s. cbv [smapS rmapS smap rmap]. rewrite !H. reflexivity. Qed.
  Lemma smapS_sub_cells : forall f1 f2, (forall x, g (f1 x) = f2 (g x)) ->
    forall s, smapS (sub_cells C1 f1 s) = sub_cells C2 f2 (smapS s).
  Proof. intros f1 f2 H s. unfold sub_cells. apply smapS_smap, H. Qed.
  Lemma smapS_sub_cells_inv : forall f1 f2, (forall x, g (f1 x) = f2 (g x)) ->
    forall s, smapS (sub_cells_inv C1 f1 s) = sub_cells_inv C2 f2 (smapS s).
  Proof. intros f1 f2 H s. unfold sub_cells_inv. apply smapS_smap, H. Qed.

  Lemma smapS_shift_rows : forall s, smapS (shift_rows C1 s) = shift_rows C2 (smapS s).
  Proof. intros s. dstate s. reflexivity. Qed.
  Lemma smapS_shift_rows_inv : forall s, smapS (shift_rows_inv C1 s) = shift_rows_inv C2 (smapS s).
  Proof. intros s. dstate s. reflexivity. Qed.
  Lemma smapS_permute_tk : forall s, smapS (permute_tk C1 s) = permute_tk C2 (smapS s).
  Proof. intros s. dstate s. reflexivity. Qed.
  Lemma smapS_h_perm : forall s, smapS (h_perm C1 s) = h_perm C2 (smapS s).
  Proof. intros s. dstate s. reflexivity. Qed.
  Lemma smapS_h_perm_inv : forall s, smapS (h_perm_inv C1 s) = h_perm_inv C2 (smapS s).
  Proof. intros s. dstate s. reflexivity. Qed.
  Lemma smapS_permute_cells : forall s, smapS (permute_cells C1 s) = permute_cells C2 (smapS s).
  Proof. intros s. dstate s. reflexivity. Qed.
  Lemma smapS_permute_cells_inv : forall s, smapS (permute_cells_inv C1 s) = permute_cells_inv C2 (smapS s).
  Proof. intros s. dstate s. reflexivity. Qed.

  Lemma smapS_mix_columns : forall s, smapS (mix_columns C1 cx1 s) = mix_columns C2 cx2 (smapS s).
  Proof. intros s. dstate s. cbv [smapS rmapS mix_columns rx]. rewrite !g_cx. reflexivity. Qed.
  Lemma smapS_mix_columns_inv : forall s, smapS (mix_columns_inv C1 cx1 s) = mix_columns_inv C2 cx2 (smapS s).
  Proof. intros s. dstate s. cbv [smapS rmapS mix_columns_inv rx]. rewrite !g_cx. reflexivity. Qed.
  Lemma smapS_mix : forall s, smapS (mix C1 cx1 s) = mix C2 cx2 (smapS s).
  Proof. intros s. dstate s. cbv [smapS rmapS mix rx]. rewrite !g_cx. reflexivity. Qed.
  Lemma smapS_sx : forall s t, smapS (sx C1 cx1 s t) = sx C2 cx2 (smapS s) (smapS t).
  Proof. intros s t. dstate s. dstate t. cbv [smapS rmapS sx rx]. rewrite !g_cx. reflexivity. Qed.

  Definition hmapS (k : row C1 * row C1) : row C2 * row C2 := (rmapS (fst k), rmapS (snd k)).
  Lemma smapS_add_round_tweakey : forall k s,
    smapS (add_round_tweakey C1 cx1 k s) = add_round_tweakey C2 cx2 (hmapS k) (smapS s).
  Proof.
    intros [k0 k1] s. drow k0. drow k1. dstate s.
    cbv [smapS rmapS hmapS add_round_tweakey rx fst snd]. rewrite !g_cx. reflexivity.
  Qed.
  Lemma smapS_add_c2 : forall c s, smapS (add_c2_ cx1 c s) = add_c2_ cx2 (g c) (smapS s).
  Proof. intros c s. dstate s. cbv [smapS rmapS add_c2_]. rewrite !g_cx. reflexivity. Qed.
End StateHom.

(* ================================================================================================== *)
(* 2. a homomorphism h of bit carriers: cells, conversions, kernel specifications                       *)
(* ================================================================================================== *)
Section CarrierHom.
  Variables B1 B2 : Type.
  Variables (bx1 ba1 : B1 -> B1 -> B1) (z1 o1 : B1).
  Variables (bx2 ba2 : B2 -> B2 -> B2) (z2 o2 : B2).
  Variable h : B1 -> B2.
  Hypothesis h_bx : forall a b, h (bx1 a b) = bx2 (h a) (h b).
  Hypothesis h_ba : forall a b, h (ba1 a b) = ba2 (h a) (h b).
  Hypothesis h_z : h z1 = z2.
  Hypothesis h_o : h o1 = o2.

  Definition h4 (x : c4 B1) : c4 B2 := let '(x3, x2, x1, x0) := x in (h x3, h x2, h x1, h x0).
  Definition h8 (x : c8 B1) : c8 B2 :=
    let '(x7, x6, x5, x4, x3, x2, x1, x0) := x in (h x7, h x6, h x5, h x4, h x3, h x2, h x1, h x0).

  (* ---- cell level ---- *)
  Lemma h8_c8x : forall a b, h8 (c8x bx1 a b) = c8x bx2 (h8 a) (h8 b).
  Proof. intros a b. d8 a. d8 b. cbv [h8 c8x]. rewrite !h_bx. reflexivity. Qed.
  Lemma h4_c4x : forall a b, h4 (c4x bx1 a b) = c4x bx2 (h4 a) (h4 b).
  Proof. intros a b. d4 a. d4 b. cbv [h4 c4x]. rewrite !h_bx. reflexivity. Qed.
  Lemma h8_cx8 : forall a b, h8 (cx8 B1 bx1 a b) = cx8 B2 bx2 (h8 a) (h8 b).
  Proof. exact h8_c8x. Qed.
  Lemma h4_cx4 : forall a b, h4 (cx4 B1 bx1 a b) = cx4 B2 bx2 (h4 a) (h4 b).
  Proof. exact h4_c4x. Qed.

  Lemma h8_S8 : forall x, h8 (S8 B1 bx1 ba1 o1 x) = S8 B2 bx2 ba2 o2 (h8 x).
  Proof.
    intros x. d8 x. cbv [h8 S8 s8_swap s8_step s8_perm bnor bnot].
    repeat (rewrite h_bx || rewrite h_ba || rewrite h_o). reflexivity.
  Qed.
  Lemma h8_S8inv : forall x, h8 (S8inv B1 bx1 ba1 o1 x) = S8inv B2 bx2 ba2 o2 (h8 x).
  Proof.
    intros x. d8 x. cbv [h8 S8inv s8_swap s8_step s8_perm_inv bnor bnot].
    repeat (rewrite h_bx || rewrite h_ba || rewrite h_o). reflexivity.
  Qed.
  Lemma h4_S4 : forall x, h4 (S4 B1 bx1 ba1 o1 x) = S4 B2 bx2 ba2 o2 (h4 x).
  Proof.
    intros x. d4 x. cbv [h4 S4 s4_step s4_rot bnor bnot].
    repeat (rewrite h_bx || rewrite h_ba || rewrite h_o). reflexivity.
  Qed.
  Lemma h4_S4inv : forall x, h4 (S4inv B1 bx1 ba1 o1 x) = S4inv B2 bx2 ba2 o2 (h4 x).
  Proof.
    intros x. d4 x. cbv [h4 S4inv s4_step s4_rot_inv bnor bnot].
    repeat (rewrite h_bx || rewrite h_ba || rewrite h_o). reflexivity.
  Qed.
  Lemma h4_Sb0 : forall x, h4 (Sb0 B1 bx1 ba1 o1 x) = Sb0 B2 bx2 ba2 o2 (h4 x).
  Proof.
    intros x. d4 x. cbv [h4 Sb0 bnor bnand bor bnot].
    repeat (rewrite h_bx || rewrite h_ba || rewrite h_o). reflexivity.
  Qed.
  Lemma h8_lfsr2 : forall x, h8 (lfsr2_8 B1 bx1 x) = lfsr2_8 B2 bx2 (h8 x).
  Proof. intros x. d8 x. cbv [h8 lfsr2_8]. rewrite !h_bx. reflexivity. Qed.
  Lemma h8_lfsr3 : forall x, h8 (lfsr3_8 B1 bx1 x) = lfsr3_8 B2 bx2 (h8 x).
  Proof. intros x. d8 x. cbv [h8 lfsr3_8]. rewrite !h_bx. reflexivity. Qed.
  Lemma h4_lfsr2 : forall x, h4 (lfsr2_4 B1 bx1 x) = lfsr2_4 B2 bx2 (h4 x).
  Proof. intros x. d4 x. cbv [h4 lfsr2_4]. rewrite !h_bx. reflexivity. Qed.
  Lemma h4_lfsr3 : forall x, h4 (lfsr3_4 B1 bx1 x) = lfsr3_4 B2 bx2 (h4 x).
  Proof. intros x. d4 x. cbv [h4 lfsr3_4]. rewrite !h_bx. reflexivity. Qed.

  Lemma h_bconst : forall b, h (bconst B1 z1 o1 b) = bconst B2 z2 o2 b.
  Proof. intros []; assumption. Qed.
  Lemma h8_c8nib : forall a b c d, h8 (c8nib B1 z1 o1 a b c d) = c8nib B2 z2 o2 a b c d.
  Proof. intros a b c d. cbv [h8 c8nib]. rewrite !h_bconst, !h_z. reflexivity. Qed.
  Lemma h4_c4nib : forall a b c d, h4 (c4nib B1 z1 o1 a b c d) = c4nib B2 z2 o2 a b c d.
  Proof. intros a b c d. cbv [h4 c4nib]. rewrite !h_bconst. reflexivity. Qed.
  Lemma h8_z8 : h8 (z8 B1 z1) = z8 B2 z2.
  Proof. cbv [h8 z8 c8zero]. rewrite !h_z. reflexivity. Qed.

  Lemma h4_c8hi : forall x, h4 (c8hi x) = c8hi (h8 x).
  Proof. intros x. d8 x. reflexivity. Qed.
  Lemma h4_c8lo : forall x, h4 (c8lo x) = c8lo (h8 x).
  Proof. intros x. d8 x. reflexivity. Qed.
  Lemma h8_c8join : forall a b, h8 (c8join a b) = c8join (h4 a) (h4 b).
  Proof. intros a b. d4 a. d4 b. reflexivity. Qed.

  (* ---- bytes of the IR <-> cells ---- *)
  Lemma nth_map_z : forall i l, nth i (map h l) z2 = h (nth i l z1).
  Proof. intros i l. apply nth_map_d, h_z. Qed.
  Lemma h8_c8_of_bits : forall l, h8 (c8_of_bits B1 z1 l) = c8_of_bits B2 z2 (map h l).
  Proof. intros l. cbv [h8 c8_of_bits]. rewrite !nth_map_z. reflexivity. Qed.
  Lemma map_bits_of_c8 : forall x, map h (bits_of_c8 B1 x) = bits_of_c8 B2 (h8 x).
  Proof. intros x. d8 x. reflexivity. Qed.

  Lemma on_byte8_homG : forall f1 f2, (forall x, h8 (f1 x) = f2 (h8 x)) ->
    forall l, map h (on_byte8 B1 z1 f1 l) = on_byte8 B2 z2 f2 (map h l).
  Proof.
    intros f1 f2 Hf l. unfold on_byte8. rewrite map_bits_of_c8, Hf, h8_c8_of_bits. reflexivity.
  Qed.
  Lemma on_byte4_homG : forall f1 f2, (forall x, h4 (f1 x) = f2 (h4 x)) ->
    forall l, map h (on_byte4 B1 z1 f1 l) = on_byte4 B2 z2 f2 (map h l).
  Proof.
    intros f1 f2 Hf l. unfold on_byte4. cbv zeta.
    rewrite map_bits_of_c8, h8_c8join, !Hf, h4_c8hi, h4_c8lo, h8_c8_of_bits. reflexivity.
  Qed.

  (* ---- memories ---- *)
  Notation hb := (map (map h)).
  Notation hm := (map (map (map h))).

  Lemma nth_hb : forall i (bytes : list (list B1)), nth i (hb bytes) [] = map h (nth i bytes []).
  Proof. intros i bytes. exact (map_nth (map h) bytes [] i). Qed.
  Lemma reg_homG : forall (m : mem B1) r, reg B2 (hm m) r = hb (reg B1 m r).
  Proof. intros m r. unfold reg. exact (map_nth hb m [] r). Qed.

  Lemma nth_cells_hb : forall i bytes,
    nth i (map (c8_of_bits B2 z2) (hb bytes)) (z8 B2 z2) =
    h8 (nth i (map (c8_of_bits B1 z1) bytes) (z8 B1 z1)).
  Proof.
    intros i bytes. rewrite <- (nth_map_d h8 _ (z8 B1 z1) (z8 B2 z2) i h8_z8).
    f_equal. rewrite !map_map. apply map_ext. intros l. symmetry. apply h8_c8_of_bits.
  Qed.

  Lemma state128_of_reg_homG : forall bytes,
    smapS _ _ h8 (state128_of_reg B1 z1 bytes) = state128_of_reg B2 z2 (hb bytes).
  Proof.
    intros bytes. cbv [state128_of_reg state128_of_bytes smapS rmapS].
    rewrite !nth_cells_hb. reflexivity.
  Qed.
  Lemma state64_of_reg_homG : forall bytes,
    smapS _ _ h4 (state64_of_reg B1 z1 bytes) = state64_of_reg B2 z2 (hb bytes).
  Proof.
    intros bytes. cbv [state64_of_reg state64_of_bytes smapS rmapS].
    rewrite !nth_cells_hb, !h4_c8hi, !h4_c8lo. reflexivity.
  Qed.
  Lemma reg_of_state128_homG : forall s,
    hb (reg_of_state128 B1 s) = reg_of_state128 B2 (smapS _ _ h8 s).
  Proof.
    intros s. dstate s. cbv [reg_of_state128 bytes_of_state128 row_list smapS rmapS app map].
    rewrite <- !map_bits_of_c8. reflexivity.
  Qed.
  Lemma reg_of_state64_homG : forall s,
    hb (reg_of_state64 B1 s) = reg_of_state64 B2 (smapS _ _ h4 s).
  Proof.
    intros s. dstate s. cbv [reg_of_state64 bytes_of_state64 row_bytes64 smapS rmapS app map].
    rewrite <- !h8_c8join, <- !map_bits_of_c8. reflexivity.
  Qed.
  Lemma half128_of_reg_homG : forall bytes,
    hmapS _ _ h8 (half128_of_reg B1 z1 bytes) = half128_of_reg B2 z2 (hb bytes).
  Proof.
    intros bytes. cbv [half128_of_reg hmapS rmapS fst snd].
    rewrite !nth_hb, <- !h8_c8_of_bits. reflexivity.
  Qed.
  Lemma half64_of_reg_homG : forall bytes,
    hmapS _ _ h4 (half64_of_reg B1 z1 bytes) = half64_of_reg B2 z2 (hb bytes).
  Proof.
    intros bytes. cbv [half64_of_reg hmapS rmapS fst snd].
    rewrite !nth_hb, <- !h8_c8_of_bits, !h4_c8hi, !h4_c8lo. reflexivity.
  Qed.

  (* ---- the three shapes of specification ---- *)
  Lemma spec_bytemap_homG : forall f1 f2, (forall l, map h (f1 l) = f2 (map h l)) ->
    forall m, hm (spec_bytemap B1 f1 m) = spec_bytemap B2 f2 (hm m).
  Proof.
    intros f1 f2 Hf m. unfold spec_bytemap. rewrite reg_homG. cbn [map].
    f_equal. f_equal. rewrite !map_map. apply map_ext, Hf.
  Qed.
  Lemma spec_cells128_homG : forall f1 f2, (forall s, smapS _ _ h8 (f1 s) = f2 (smapS _ _ h8 s)) ->
    forall m, hm (spec_cells128 B1 z1 f1 m) = spec_cells128 B2 z2 f2 (hm m).
  Proof.
    intros f1 f2 Hf m. unfold spec_cells128. cbn [map].
    rewrite reg_homG, reg_of_state128_homG, Hf, state128_of_reg_homG. reflexivity.
  Qed.
  Lemma spec_cells64_homG : forall f1 f2, (forall s, smapS _ _ h4 (f1 s) = f2 (smapS _ _ h4 s)) ->
    forall m, hm (spec_cells64 B1 z1 f1 m) = spec_cells64 B2 z2 f2 (hm m).
  Proof.
    intros f1 f2 Hf m. unfold spec_cells64. cbn [map].
    rewrite reg_homG, reg_of_state64_homG, Hf, state64_of_reg_homG. reflexivity.
  Qed.

  (* ---- word functions ---- *)
  Lemma k_sbox128_homG : forall m, hm (k_sbox128 B1 bx1 ba1 z1 o1 m) = k_sbox128 B2 bx2 ba2 z2 o2 (hm m).
  Proof. apply spec_bytemap_homG, on_byte8_homG. exact h8_S8. Qed.
  Lemma k_inv_sbox128_homG : forall m,
    hm (k_inv_sbox128 B1 bx1 ba1 z1 o1 m) = k_inv_sbox128 B2 bx2 ba2 z2 o2 (hm m).
  Proof. apply spec_bytemap_homG, on_byte8_homG. exact h8_S8inv. Qed.
  Lemma k_sbox64_homG : forall m, hm (k_sbox64 B1 bx1 ba1 z1 o1 m) = k_sbox64 B2 bx2 ba2 z2 o2 (hm m).
  Proof. apply spec_bytemap_homG, on_byte4_homG. exact h4_S4. Qed.
  Lemma k_inv_sbox64_homG : forall m,
    hm (k_inv_sbox64 B1 bx1 ba1 z1 o1 m) = k_inv_sbox64 B2 bx2 ba2 z2 o2 (hm m).
  Proof. apply spec_bytemap_homG, on_byte4_homG. exact h4_S4inv. Qed.
  Lemma k_mantis_sbox_homG : forall m,
    hm (k_mantis_sbox B1 bx1 ba1 z1 o1 m) = k_mantis_sbox B2 bx2 ba2 z2 o2 (hm m).
  Proof. apply spec_bytemap_homG, on_byte4_homG. exact h4_Sb0. Qed.
  Lemma k_lfsr2_128_homG : forall m, hm (k_lfsr2_128 B1 bx1 z1 m) = k_lfsr2_128 B2 bx2 z2 (hm m).
  Proof. apply spec_bytemap_homG, on_byte8_homG. exact h8_lfsr2. Qed.
  Lemma k_lfsr3_128_homG : forall m, hm (k_lfsr3_128 B1 bx1 z1 m) = k_lfsr3_128 B2 bx2 z2 (hm m).
  Proof. apply spec_bytemap_homG, on_byte8_homG. exact h8_lfsr3. Qed.
  Lemma k_lfsr2_64_homG : forall m, hm (k_lfsr2_64 B1 bx1 z1 m) = k_lfsr2_64 B2 bx2 z2 (hm m).
  Proof. apply spec_bytemap_homG, on_byte4_homG. exact h4_lfsr2. Qed.
  Lemma k_lfsr3_64_homG : forall m, hm (k_lfsr3_64 B1 bx1 z1 m) = k_lfsr3_64 B2 bx2 z2 (hm m).
  Proof. apply spec_bytemap_homG, on_byte4_homG. exact h4_lfsr3. Qed.

  (* ---- cells functions ---- *)
  Lemma k_permute_tk128_homG : forall m, hm (k_permute_tk128 B1 z1 m) = k_permute_tk128 B2 z2 (hm m).
  Proof. apply spec_cells128_homG. apply smapS_permute_tk. Qed.
  Lemma k_permute_tk64_homG : forall m, hm (k_permute_tk64 B1 z1 m) = k_permute_tk64 B2 z2 (hm m).
  Proof. apply spec_cells64_homG. apply smapS_permute_tk. Qed.
  Lemma k_mantis_h_homG : forall m, hm (k_mantis_h B1 z1 m) = k_mantis_h B2 z2 (hm m).
  Proof. apply spec_cells64_homG. apply smapS_h_perm. Qed.
  Lemma k_mantis_h_inv_homG : forall m, hm (k_mantis_h_inv B1 z1 m) = k_mantis_h_inv B2 z2 (hm m).
  Proof. apply spec_cells64_homG. apply smapS_h_perm_inv. Qed.
  Lemma k_mantis_P_homG : forall m, hm (k_mantis_P B1 z1 m) = k_mantis_P B2 z2 (hm m).
  Proof. apply spec_cells64_homG. apply smapS_permute_cells. Qed.
  Lemma k_mantis_P_inv_homG : forall m, hm (k_mantis_P_inv B1 z1 m) = k_mantis_P_inv B2 z2 (hm m).
  Proof. apply spec_cells64_homG. apply smapS_permute_cells_inv. Qed.
  Lemma k_mantis_mix_homG : forall m, hm (k_mantis_mix B1 bx1 z1 m) = k_mantis_mix B2 bx2 z2 (hm m).
  Proof. apply spec_cells64_homG. apply smapS_mix. exact h4_cx4. Qed.

  (* ---- round bodies ---- *)
  Lemma k128_subcells_homG : forall m,
    hm (k128_subcells B1 bx1 ba1 z1 o1 m) = k128_subcells B2 bx2 ba2 z2 o2 (hm m).
  Proof.
    intros m. unfold k128_subcells. cbn [map]. rewrite !reg_homG, reg_of_state128_homG.
    rewrite (smapS_sub_cells _ _ h8 (S8_ B1 bx1 ba1 o1) (S8_ B2 bx2 ba2 o2) h8_S8).
    rewrite state128_of_reg_homG. reflexivity.
  Qed.
  Lemma k128_subcells_inv_homG : forall m,
    hm (k128_subcells_inv B1 bx1 ba1 z1 o1 m) = k128_subcells_inv B2 bx2 ba2 z2 o2 (hm m).
  Proof.
    intros m. unfold k128_subcells_inv. cbn [map]. rewrite !reg_homG, reg_of_state128_homG.
    rewrite (smapS_sub_cells_inv _ _ h8 (S8inv_ B1 bx1 ba1 o1) (S8inv_ B2 bx2 ba2 o2) h8_S8inv).
    rewrite state128_of_reg_homG. reflexivity.
  Qed.
  Lemma k64_subcells_homG : forall m,
    hm (k64_subcells B1 bx1 ba1 z1 o1 m) = k64_subcells B2 bx2 ba2 z2 o2 (hm m).
  Proof.
    intros m. unfold k64_subcells. cbn [map]. rewrite !reg_homG, reg_of_state64_homG.
    rewrite (smapS_sub_cells _ _ h4 (S4_ B1 bx1 ba1 o1) (S4_ B2 bx2 ba2 o2) h4_S4).
    rewrite state64_of_reg_homG. reflexivity.
  Qed.
  Lemma k64_subcells_inv_homG : forall m,
    hm (k64_subcells_inv B1 bx1 ba1 z1 o1 m) = k64_subcells_inv B2 bx2 ba2 z2 o2 (hm m).
  Proof.
    intros m. unfold k64_subcells_inv. cbn [map]. rewrite !reg_homG, reg_of_state64_homG.
    rewrite (smapS_sub_cells_inv _ _ h4 (S4inv_ B1 bx1 ba1 o1) (S4inv_ B2 bx2 ba2 o2) h4_S4inv).
    rewrite state64_of_reg_homG. reflexivity.
  Qed.

  Lemma k128_enc_linear_homG : forall m,
    hm (k128_enc_linear B1 bx1 z1 o1 m) = k128_enc_linear B2 bx2 z2 o2 (hm m).
  Proof.
    intros m. unfold k128_enc_linear. cbn [map]. rewrite !reg_homG, reg_of_state128_homG.
    rewrite (smapS_mix_columns _ _ h8 _ _ h8_cx8), smapS_shift_rows.
    rewrite (smapS_add_c2 _ _ h8 _ _ h8_cx8), (smapS_add_round_tweakey _ _ h8 _ _ h8_cx8).
    unfold nib8. rewrite h8_c8nib, half128_of_reg_homG, state128_of_reg_homG. reflexivity.
  Qed.
  Lemma k128_dec_linear_homG : forall m,
    hm (k128_dec_linear B1 bx1 z1 o1 m) = k128_dec_linear B2 bx2 z2 o2 (hm m).
  Proof.
    intros m. unfold k128_dec_linear. cbn [map]. rewrite !reg_homG, reg_of_state128_homG.
    rewrite (smapS_add_c2 _ _ h8 _ _ h8_cx8), (smapS_add_round_tweakey _ _ h8 _ _ h8_cx8).
    rewrite smapS_shift_rows_inv, (smapS_mix_columns_inv _ _ h8 _ _ h8_cx8).
    unfold nib8. rewrite h8_c8nib, half128_of_reg_homG, state128_of_reg_homG. reflexivity.
  Qed.
  Lemma k64_enc_linear_homG : forall m,
    hm (k64_enc_linear B1 bx1 z1 o1 m) = k64_enc_linear B2 bx2 z2 o2 (hm m).
  Proof.
    intros m. unfold k64_enc_linear. cbn [map]. rewrite !reg_homG, reg_of_state64_homG.
    rewrite (smapS_mix_columns _ _ h4 _ _ h4_cx4), smapS_shift_rows.
    rewrite (smapS_add_c2 _ _ h4 _ _ h4_cx4), (smapS_add_round_tweakey _ _ h4 _ _ h4_cx4).
    unfold nib4. rewrite h4_c4nib, half64_of_reg_homG, state64_of_reg_homG. reflexivity.
  Qed.
  Lemma k64_dec_linear_homG : forall m,
    hm (k64_dec_linear B1 bx1 z1 o1 m) = k64_dec_linear B2 bx2 z2 o2 (hm m).
  Proof.
    intros m. unfold k64_dec_linear. cbn [map]. rewrite !reg_homG, reg_of_state64_homG.
    rewrite (smapS_add_c2 _ _ h4 _ _ h4_cx4), (smapS_add_round_tweakey _ _ h4 _ _ h4_cx4).
    rewrite smapS_shift_rows_inv, (smapS_mix_columns_inv _ _ h4 _ _ h4_cx4).
    unfold nib4. rewrite h4_c4nib, half64_of_reg_homG, state64_of_reg_homG. reflexivity.
  Qed.

  (* ---- opaque word functions of the round bodies ---- *)
  Lemma take_pad_homG : forall n p l, map h (take_pad B1 n p l) = take_pad B2 n (h p) (map h l).
  Proof.
    intros n p. induction n as [|n IH]; intros l; [reflexivity|].
    destruct l as [|x l]; simpl.
    - rewrite (IH []). reflexivity.
    - rewrite IH. reflexivity.
  Qed.
  Lemma bytes_of_homG : forall n l, hb (bytes_of B1 z1 n l) = bytes_of B2 z2 n (map h l).
  Proof.
    intros n. induction n as [|n IH]; intros l; [reflexivity|].
    cbn [bytes_of map]. rewrite take_pad_homG, h_z, IH, firstn_map, skipn_map. reflexivity.
  Qed.
  Lemma word_bytes_homG : forall f1 f2, (forall l, map h (f1 l) = f2 (map h l)) ->
    forall bits, map h (word_bytes B1 z1 f1 bits) = word_bytes B2 z2 f2 (map h bits).
  Proof.
    intros f1 f2 Hf bits. unfold word_bytes.
    rewrite concat_map, map_map, map_length, <- bytes_of_homG, map_map. f_equal.
    apply map_ext, Hf.
  Qed.
  Lemma callf_spec_homG : forall f l,
    map h (callf_spec B1 bx1 ba1 z1 o1 f l) = callf_spec B2 bx2 ba2 z2 o2 f (map h l).
  Proof.
    intros f l. destruct f as [|[|[|[|[|f]]]]]; [apply word_bytes_homG ..|reflexivity].
    - apply on_byte8_homG. exact h8_S8.
    - apply on_byte8_homG. exact h8_S8inv.
    - apply on_byte4_homG. exact h4_S4.
    - apply on_byte4_homG. exact h4_S4inv.
    - apply on_byte4_homG. exact h4_Sb0.
  Qed.
End CarrierHom.

(* ================================================================================================== *)
(* 3. the instance h = peval rho : poly -> bool                                                         *)
(* ================================================================================================== *)
Ltac hom_by L :=
  intros sizes rho m _; unfold mmap, vmap;
  apply L; intros; first [apply peval_pxor | apply peval_pand | reflexivity].

Lemma k_sbox128_hom : forall sizes,
  spec_hom sizes (k_sbox128 poly pxor pand pzero pone) (k_sbox128 bool xorb andb false true).
Proof. hom_by k_sbox128_homG. Qed.
Lemma k_inv_sbox128_hom : forall sizes,
  spec_hom sizes (k_inv_sbox128 poly pxor pand pzero pone) (k_inv_sbox128 bool xorb andb false true).
Proof. hom_by k_inv_sbox128_homG. Qed.
Lemma k_sbox64_hom : forall sizes,
  spec_hom sizes (k_sbox64 poly pxor pand pzero pone) (k_sbox64 bool xorb andb false true).
Proof. hom_by k_sbox64_homG. Qed.
Lemma k_inv_sbox64_hom : forall sizes,
  spec_hom sizes (k_inv_sbox64 poly pxor pand pzero pone) (k_inv_sbox64 bool xorb andb false true).
Proof. hom_by k_inv_sbox64_homG. Qed.
Lemma k_mantis_sbox_hom : forall sizes,
  spec_hom sizes (k_mantis_sbox poly pxor pand pzero pone) (k_mantis_sbox bool xorb andb false true).
Proof. hom_by k_mantis_sbox_homG. Qed.
Lemma k_lfsr2_128_hom : forall sizes,
  spec_hom sizes (k_lfsr2_128 poly pxor pzero) (k_lfsr2_128 bool xorb false).
Proof. hom_by k_lfsr2_128_homG. Qed.
Lemma k_lfsr3_128_hom : forall sizes,
  spec_hom sizes (k_lfsr3_128 poly pxor pzero) (k_lfsr3_128 bool xorb false).
Proof. hom_by k_lfsr3_128_homG. Qed.
Lemma k_lfsr2_64_hom : forall sizes,
  spec_hom sizes (k_lfsr2_64 poly pxor pzero) (k_lfsr2_64 bool xorb false).
Proof. hom_by k_lfsr2_64_homG. Qed.
Lemma k_lfsr3_64_hom : forall sizes,
  spec_hom sizes (k_lfsr3_64 poly pxor pzero) (k_lfsr3_64 bool xorb false).
Proof. hom_by k_lfsr3_64_homG. Qed.
Lemma k_permute_tk128_hom : forall sizes,
  spec_hom sizes (k_permute_tk128 poly pzero) (k_permute_tk128 bool false).
Proof. hom_by k_permute_tk128_homG. Qed.
Lemma k_permute_tk64_hom : forall sizes,
  spec_hom sizes (k_permute_tk64 poly pzero) (k_permute_tk64 bool false).
Proof. hom_by k_permute_tk64_homG. Qed.
Lemma k_mantis_h_hom : forall sizes,
  spec_hom sizes (k_mantis_h poly pzero) (k_mantis_h bool false).
Proof. hom_by k_mantis_h_homG. Qed.
Lemma k_mantis_h_inv_hom : forall sizes,
  spec_hom sizes (k_mantis_h_inv poly pzero) (k_mantis_h_inv bool false).
Proof. hom_by k_mantis_h_inv_homG. Qed.
Lemma k_mantis_P_hom : forall sizes,
  spec_hom sizes (k_mantis_P poly pzero) (k_mantis_P bool false).
Proof. hom_by k_mantis_P_homG. Qed.
Lemma k_mantis_P_inv_hom : forall sizes,
  spec_hom sizes (k_mantis_P_inv poly pzero) (k_mantis_P_inv bool false).
Proof. hom_by k_mantis_P_inv_homG. Qed.
Lemma k_mantis_mix_hom : forall sizes,
  spec_hom sizes (k_mantis_mix poly pxor pzero) (k_mantis_mix bool xorb false).
Proof. hom_by k_mantis_mix_homG. Qed.
Lemma k128_subcells_hom : forall sizes,
  spec_hom sizes (k128_subcells poly pxor pand pzero pone) (k128_subcells bool xorb andb false true).
Proof. hom_by k128_subcells_homG. Qed.
Lemma k128_subcells_inv_hom : forall sizes,
  spec_hom sizes (k128_subcells_inv poly pxor pand pzero pone) (k128_subcells_inv bool xorb andb false true).
Proof. hom_by k128_subcells_inv_homG. Qed.
Lemma k128_enc_linear_hom : forall sizes,
  spec_hom sizes (k128_enc_linear poly pxor pzero pone) (k128_enc_linear bool xorb false true).
Proof. hom_by k128_enc_linear_homG. Qed.
Lemma k128_dec_linear_hom : forall sizes,
  spec_hom sizes (k128_dec_linear poly pxor pzero pone) (k128_dec_linear bool xorb false true).
Proof. hom_by k128_dec_linear_homG. Qed.
Lemma k64_subcells_hom : forall sizes,
  spec_hom sizes (k64_subcells poly pxor pand pzero pone) (k64_subcells bool xorb andb false true).
Proof. hom_by k64_subcells_homG. Qed.
Lemma k64_subcells_inv_hom : forall sizes,
  spec_hom sizes (k64_subcells_inv poly pxor pand pzero pone) (k64_subcells_inv bool xorb andb false true).
Proof. hom_by k64_subcells_inv_homG. Qed.
Lemma k64_enc_linear_hom : forall sizes,
  spec_hom sizes (k64_enc_linear poly pxor pzero pone) (k64_enc_linear bool xorb false true).
Proof. hom_by k64_enc_linear_homG. Qed.
Lemma k64_dec_linear_hom : forall sizes,
  spec_hom sizes (k64_dec_linear poly pxor pzero pone) (k64_dec_linear bool xorb false true).
Proof. hom_by k64_dec_linear_homG. Qed.

Lemma callf_spec_hom :
  call_hom (callf_spec poly pxor pand pzero pone) (callf_spec bool xorb andb false true).
Proof.
  intros rho f l. unfold vmap.
  apply callf_spec_homG; intros; first [apply peval_pxor | apply peval_pand | reflexivity].
Qed.

(* ================================================================================================== *)
(* 4. the two layers of a round body compose (any carrier; no polynomials involved)                     *)
(* ================================================================================================== *)
Section Compose.
  Variable B : Type.
  Variables (bx ba : B -> B -> B) (b0 b1 : B).

  Lemma c8_of_bits_of_c8 : forall x, c8_of_bits B b0 (bits_of_c8 B x) = x.
  Proof. intros x. d8 x. reflexivity. Qed.
  Lemma c8hi_joinG : forall a b : c4 B, c8hi (c8join a b) = a.
  Proof. intros a b. d4 a. d4 b. reflexivity. Qed.
  Lemma c8lo_joinG : forall a b : c4 B, c8lo (c8join a b) = b.
  Proof. intros a b. d4 a. d4 b. reflexivity. Qed.
  Lemma state128_of_reg_of_state128 : forall s, state128_of_reg B b0 (reg_of_state128 B s) = s.
  Proof. intros s. dstate s. cbv -[c8_of_bits bits_of_c8]. rewrite !c8_of_bits_of_c8. reflexivity. Qed.
  Lemma state64_of_reg_of_state64 : forall s, state64_of_reg B b0 (reg_of_state64 B s) = s.
  Proof.
    intros s. dstate s. cbv -[c8_of_bits bits_of_c8 c8hi c8lo c8join].
    rewrite !c8_of_bits_of_c8, !c8hi_joinG, !c8lo_joinG. reflexivity.
  Qed.
  Lemma reg_cons2_0 : forall (a b : list (list B)), reg B [a; b] 0 = a.
  Proof. reflexivity. Qed.
  Lemma reg_cons2_1 : forall (a b : list (list B)), reg B [a; b] 1 = b.
  Proof. reflexivity. Qed.

  (* encryption round = linear layer after SubCells *)
  Lemma k128_round_is_spec : forall m : mem B,
    k128_enc_linear B bx b0 b1 (k128_subcells B bx ba b0 b1 m) =
    [reg_of_state128 B
       (mix_columns (c8 B) (cx8 B bx) (shift_rows (c8 B)
          (add_c2_ (cx8 B bx) (nib8 B b0 b1 false false true false)
             (add_round_tweakey (c8 B) (cx8 B bx) (half128_of_reg B b0 (reg B m 1))
                (sub_cells (c8 B) (S8_ B bx ba b1) (state128_of_reg B b0 (reg B m 0)))))));
     reg B m 1].
  Proof.
    intros m. unfold k128_enc_linear, k128_subcells.
    rewrite reg_cons2_0, reg_cons2_1, state128_of_reg_of_state128. reflexivity.
  Qed.
  (* decryption round = SubCells^-1 after the linear layer *)
  Lemma k128_round_inv_is_spec : forall m : mem B,
    k128_subcells_inv B bx ba b0 b1 (k128_dec_linear B bx b0 b1 m) =
    [reg_of_state128 B
       (sub_cells_inv (c8 B) (S8inv_ B bx ba b1)
          (add_c2_ (cx8 B bx) (nib8 B b0 b1 false false true false)
             (add_round_tweakey (c8 B) (cx8 B bx) (half128_of_reg B b0 (reg B m 1))
                (shift_rows_inv (c8 B) (mix_columns_inv (c8 B) (cx8 B bx)
                   (state128_of_reg B b0 (reg B m 0)))))));
     reg B m 1].
  Proof.
    intros m. unfold k128_dec_linear, k128_subcells_inv.
    rewrite reg_cons2_0, reg_cons2_1, state128_of_reg_of_state128. reflexivity.
  Qed.
  Lemma k64_round_is_spec : forall m : mem B,
    k64_enc_linear B bx b0 b1 (k64_subcells B bx ba b0 b1 m) =
    [reg_of_state64 B
       (mix_columns (c4 B) (cx4 B bx) (shift_rows (c4 B)
          (add_c2_ (cx4 B bx) (nib4 B b0 b1 false false true false)
             (add_round_tweakey (c4 B) (cx4 B bx) (half64_of_reg B b0 (reg B m 1))
                (sub_cells (c4 B) (S4_ B bx ba b1) (state64_of_reg B b0 (reg B m 0)))))));
     reg B m 1].
  Proof.
    intros m. unfold k64_enc_linear, k64_subcells.
    rewrite reg_cons2_0, reg_cons2_1, state64_of_reg_of_state64. reflexivity.
  Qed.
  Lemma k64_round_inv_is_spec : forall m : mem B,
    k64_subcells_inv B bx ba b0 b1 (k64_dec_linear B bx b0 b1 m) =
    [reg_of_state64 B
       (sub_cells_inv (c4 B) (S4inv_ B bx ba b1)
          (add_c2_ (cx4 B bx) (nib4 B b0 b1 false false true false)
             (add_round_tweakey (c4 B) (cx4 B bx) (half64_of_reg B b0 (reg B m 1))
                (shift_rows_inv (c4 B) (mix_columns_inv (c4 B) (cx4 B bx)
                   (state64_of_reg B b0 (reg B m 0)))))));
     reg B m 1].
  Proof.
    intros m. unfold k64_dec_linear, k64_subcells_inv.
    rewrite reg_cons2_0, reg_cons2_1, state64_of_reg_of_state64. reflexivity.
  Qed.
End Compose.

(* the boolean instances, as used by the generated obligation files *)
Lemma k128_round_is_spec_bool : forall m : mem bool,
  k128_enc_linear bool xorb false true (k128_subcells bool xorb andb false true m) =
  [reg_of_state128 bool
     (mix_columns byte (cx8 bool xorb) (shift_rows byte
        (add_c2_ (cx8 bool xorb) (nib8 bool false true false false true false)
           (add_round_tweakey byte (cx8 bool xorb) (half128_of_reg bool false (reg bool m 1))
              (sub_cells byte (S8_ bool xorb andb true) (state128_of_reg bool false (reg bool m 0)))))));
   reg bool m 1].
Proof. exact (k128_round_is_spec bool xorb andb false true). Qed.
Lemma k128_round_inv_is_spec_bool : forall m : mem bool,
  k128_subcells_inv bool xorb andb false true (k128_dec_linear bool xorb false true m) =
  [reg_of_state128 bool
     (sub_cells_inv byte (S8inv_ bool xorb andb true)
        (add_c2_ (cx8 bool xorb) (nib8 bool false true false false true false)
           (add_round_tweakey byte (cx8 bool xorb) (half128_of_reg bool false (reg bool m 1))
              (shift_rows_inv byte (mix_columns_inv byte (cx8 bool xorb)
                 (state128_of_reg bool false (reg bool m 0)))))));
   reg bool m 1].
Proof. exact (k128_round_inv_is_spec bool xorb andb false true). Qed.
Lemma k64_round_is_spec_bool : forall m : mem bool,
  k64_enc_linear bool xorb false true (k64_subcells bool xorb andb false true m) =
  [reg_of_state64 bool
     (mix_columns nib (cx4 bool xorb) (shift_rows nib
        (add_c2_ (cx4 bool xorb) (nib4 bool false true false false true false)
           (add_round_tweakey nib (cx4 bool xorb) (half64_of_reg bool false (reg bool m 1))
              (sub_cells nib (S4_ bool xorb andb true) (state64_of_reg bool false (reg bool m 0)))))));
   reg bool m 1].
Proof. exact (k64_round_is_spec bool xorb andb false true). Qed.
Lemma k64_round_inv_is_spec_bool : forall m : mem bool,
  k64_subcells_inv bool xorb andb false true (k64_dec_linear bool xorb false true m) =
  [reg_of_state64 bool
     (sub_cells_inv nib (S4inv_ bool xorb andb true)
        (add_c2_ (cx4 bool xorb) (nib4 bool false true false false true false)
           (add_round_tweakey nib (cx4 bool xorb) (half64_of_reg bool false (reg bool m 1))
              (shift_rows_inv nib (mix_columns_inv nib (cx4 bool xorb)
                 (state64_of_reg bool false (reg bool m 0)))))));
   reg bool m 1].
Proof. exact (k64_round_inv_is_spec bool xorb andb false true). Qed.

Print Assumptions k_sbox128_hom.
Print Assumptions k_inv_sbox128_hom.
Print Assumptions k_sbox64_hom.
Print Assumptions k_inv_sbox64_hom.
Print Assumptions k_mantis_sbox_hom.
Print Assumptions k_lfsr2_128_hom.
Print Assumptions k_lfsr3_128_hom.
Print Assumptions k_lfsr2_64_hom.
Print Assumptions k_lfsr3_64_hom.
Print Assumptions k_permute_tk128_hom.
Print Assumptions k_permute_tk64_hom.
Print Assumptions k_mantis_h_hom.
Print Assumptions k_mantis_h_inv_hom.
Print Assumptions k_mantis_P_hom.
Print Assumptions k_mantis_P_inv_hom.
Print Assumptions k_mantis_mix_hom.
Print Assumptions k128_subcells_hom.
Print Assumptions k128_subcells_inv_hom.
Print Assumptions k128_enc_linear_hom.
Print Assumptions k128_dec_linear_hom.
Print Assumptions k64_subcells_hom.
Print Assumptions k64_subcells_inv_hom.
Print Assumptions k64_enc_linear_hom.
Print Assumptions k64_dec_linear_hom.
Print Assumptions callf_spec_hom.
Print Assumptions k128_round_is_spec_bool.
Print Assumptions k128_round_inv_is_spec_bool.
Print Assumptions k64_round_is_spec_bool.
Print Assumptions k64_round_inv_is_spec_bool.
