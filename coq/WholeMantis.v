(* WholeMantis.v — the WHOLE functions mantis_ecb_crypt / mantis_ecb_crypt_tweaked of src/mantis-cipher.c (as translated
   into SIR.v by translator/c2sir.py and flattened at a round count r) against the model (ModelCipher.mantis_crypt /
   mantis_crypt_tweaked = SpecMantis.mantis_core, the paper's MANTIS-r), for ALL blocks, keys, tweaks and prior contents of
   the output buffer and of the locals.

   The flattened code is cut at its S-box layers (SIRCheck.split_runs / check_block).  The specification is a list of
   steps on a CANONICAL eight-region memory
        0 = output, 1 = input, 2 = key schedule object, 3 = tweak source, 4 = rc table, 5 = tk, 6 = k1, 7 = state
   written as tagged micro steps (h, S-box layer, linear layers, ...) which [merge] groups exactly as split_runs groups the
   code; a [layout] maps the canonical regions onto the regions of the translated function (two layouts: the tweak comes
   from the schedule object at offset 24, or from its own parameter). *)
From Coq Require Import List Bool NArith Arith Lia.
From Skinny Require Import Bits SpecSkinny SpecMantis IR SIR Anf IRCheck KernelSpecs KernelSpecs2 KernelHom KernelHom2 SIRCheck
                           WholeSpecs Frame SIRProofs ModelCipher KernelBridge WholeBridge.
Import ListNotations.

(* ================================================================================================== *)
(* 1. merging tagged micro steps into runs                                                              *)
(* ================================================================================================== *)
Section Merge.
  Variable M : Type.
  Notation F := (M -> M).
  Fixpoint merge_from (l : list (bool * F)) (k : bool) (f : F) : list F :=
    match l with
    | [] => [f]
    | (k', g) :: l' => if Bool.eqb k k' then merge_from l' k (fun m => g (f m)) else f :: merge_from l' k' g
    end.
  Definition merge (l : list (bool * F)) : list F :=
    match l with [] => [] | (k, g) :: l' => merge_from l' k g end.

  Lemma merge_from_fold : forall l k f m,
    fold_left (fun acc g => g acc) (merge_from l k f) m = fold_left (fun acc (g : bool * F) => snd g acc) l (f m).
  Proof.
    induction l as [|[k' g] l IH]; intros k f m; [reflexivity|].
    cbn [merge_from]. destruct (Bool.eqb k k'); [rewrite IH; reflexivity|].
    cbn [fold_left snd]. rewrite IH. reflexivity.
  Qed.
  Lemma merge_fold : forall l m,
    fold_left (fun acc g => g acc) (merge l) m = fold_left (fun acc (g : bool * F) => snd g acc) l m.
  Proof. intros [|[k g] l] m; [reflexivity|]. unfold merge. rewrite merge_from_fold. reflexivity. Qed.
End Merge.

Definition tagged_hom (a : bool * (mem poly -> mem poly)) (b : bool * (mem bool -> mem bool)) : Prop :=
  fst a = fst b /\ homU (snd a) (snd b).
Lemma merge_from_hom : forall lP lB, Forall2 tagged_hom lP lB -> forall k fP fB, homU fP fB ->
  Forall2 homU (merge_from _ lP k fP) (merge_from _ lB k fB).
Proof.
  intros lP lB H. induction H as [|[k1 g1] [k2 g2] lP lB [Hk Hg] Hr IH]; intros k fP fB Hf.
  - constructor; [exact Hf | constructor].
  - cbn [fst snd] in Hk, Hg. subst k2. cbn [merge_from]. destruct (Bool.eqb k k1).
    + apply IH. apply (homU_compose fP fB g1 g2 Hf Hg).
    + constructor; [exact Hf | apply IH; exact Hg].
Qed.
Lemma merge_hom : forall lP lB, Forall2 tagged_hom lP lB -> Forall2 homU (merge _ lP) (merge _ lB).
Proof.
  intros lP lB H. destruct H as [|[k1 g1] [k2 g2] lP lB [Hk Hg] Hr]; [constructor|].
  cbn [fst snd] in Hk, Hg. subst k2. unfold merge. apply merge_from_hom; assumption.
Qed.

(* ================================================================================================== *)
(* 2. the canonical steps                                                                               *)
(* ================================================================================================== *)
Section Canon.
  Variable B : Type.
  Variables (bx ba : B -> B -> B) (b0 b1 : B).
  Notation reg := (reg B).
  Notation st64 := (state64_of_reg B b0).
  Notation rg64 := (reg_of_state64 B).
  Notation C4 := (c4 B).
  Notation sx4 := (sx (c4 B) (cx4 B bx)).

  Definition rd8 (l : list (list B)) (off : nat) : state C4 := st64 (firstn 8 (skipn off l)).
  Definition cst (n : N) : state C4 := const_state C4 (c4nib B b0 b1) n.
  Definition rc_bytes : list (list B) := concat (map (fun n => rg64 (cst n)) RCs).
  Definition mkc (o i ks tw rc T K X : list (list B)) : mem B := [o; i; ks; tw; rc; T; K; X].
  Notation keep c := (mkc (reg c 0) (reg c 1) (reg c 2) (reg c 3)).

  (* rc table, tk := tweak, k1 := ks->k1, state := input ^ k0 ^ k1 ^ tk *)
  Definition c_init (toff : nat) (c : mem B) : mem B :=
    let k0 := rd8 (reg c 2) 0 in let k1 := rd8 (reg c 2) 16 in let t := rd8 (reg c 3) toff in
    keep c rc_bytes (rg64 t) (rg64 k1) (rg64 (sx4 (st64 (reg c 1)) (sx4 k0 (sx4 k1 t)))).
  Definition c_h (c : mem B) : mem B :=
    keep c (reg c 4) (rg64 (h_perm C4 (st64 (reg c 5)))) (reg c 6) (reg c 7).
  Definition c_hinv (c : mem B) : mem B :=
    keep c (reg c 4) (rg64 (h_perm_inv C4 (st64 (reg c 5)))) (reg c 6) (reg c 7).
  Definition c_sub (c : mem B) : mem B :=
    keep c (reg c 4) (reg c 5) (reg c 6) (rg64 (smap C4 (Sb0 B bx ba b1) (st64 (reg c 7)))).
  Definition c_mix (c : mem B) : mem B :=
    keep c (reg c 4) (reg c 5) (reg c 6) (rg64 (mix C4 (cx4 B bx) (st64 (reg c 7)))).
  Definition c_alpha (c : mem B) : mem B :=
    keep c (reg c 4) (reg c 5) (rg64 (sx4 (st64 (reg c 6)) (cst ALPHA))) (reg c 7).
  (* forward linear layer of round i: state := M (P (state ^ rc[i] ^ k1 ^ tk)) *)
  Definition c_lf (i : nat) (c : mem B) : mem B :=
    keep c (reg c 4) (reg c 5) (reg c 6)
      (rg64 (mix C4 (cx4 B bx) (permute_cells C4
         (sx4 (sx4 (st64 (reg c 7)) (rd8 (reg c 4) (8 * i))) (sx4 (st64 (reg c 6)) (st64 (reg c 5))))))).
  (* backward linear layer of round j: state := P^-1 (M state) ^ k1 ^ tk ^ rc[j] *)
  Definition c_lb (j : nat) (c : mem B) : mem B :=
    keep c (reg c 4) (reg c 5) (reg c 6)
      (rg64 (sx4 (sx4 (permute_cells_inv C4 (mix C4 (cx4 B bx) (st64 (reg c 7))))
                      (sx4 (st64 (reg c 6)) (st64 (reg c 5)))) (rd8 (reg c 4) (8 * j)))).
  (* state ^= k0' ^ k1 ^ tk; output := state *)
  Definition c_fin (c : mem B) : mem B :=
    let y := rg64 (sx4 (st64 (reg c 7)) (sx4 (rd8 (reg c 2) 8) (sx4 (st64 (reg c 6)) (st64 (reg c 5))))) in
    mkc y (reg c 1) (reg c 2) (reg c 3) (reg c 4) (reg c 5) (reg c 6) y.

  Definition fwd_round (i : nat) : list (bool * (mem B -> mem B)) := [(false, c_h); (true, c_sub); (false, c_lf i)].
  Definition bwd_round (j : nat) : list (bool * (mem B -> mem B)) := [(false, c_lb j); (true, c_sub); (false, c_hinv)].
  Definition micro (toff r : nat) : list (bool * (mem B -> mem B)) :=
    [(false, c_init toff)] ++ concat (map fwd_round (seq 0 r))
    ++ [(true, c_sub); (false, c_mix); (true, c_sub); (false, c_alpha)]
    ++ concat (map bwd_round (rev (seq 0 r))) ++ [(false, c_fin)].

  (* ---- layouts ---- *)
  Record layout : Type := { lo : nat; li : nat; lks : nat; ltw : nat; lrc : nat; lT : nat; lK : nat; lX : nat }.
  Definition perm (L : layout) (m : mem B) : mem B :=
    proj [lo L; li L; lks L; ltw L; lrc L; lT L; lK L; lX L] m.
  Definition unperm (L : layout) (c m : mem B) : mem B :=
    set_nth (lo L) (reg c 0) (set_nth (lrc L) (reg c 4) (set_nth (lT L) (reg c 5)
      (set_nth (lK L) (reg c 6) (set_nth (lX L) (reg c 7) m)))).
  Definition onlay (L : layout) (f : mem B -> mem B) (m : mem B) : mem B := unperm L (f (perm L m)) m.
  Definition msteps (L : layout) (toff r : nat) : list (mem B -> mem B) := map (onlay L) (merge _ (micro toff r)).
End Canon.

Definition layA : layout := {| lo := 0; li := 1; lks := 2; ltw := 2; lrc := 3; lT := 4; lK := 5; lX := 6 |}.
Definition layB : layout := {| lo := 0; li := 1; lks := 3; ltw := 2; lrc := 4; lT := 5; lK := 6; lX := 7 |}.
Definition msizesA : list nat := [8; 8; 40; 64; 8; 8; 8].
Definition msizesB : list nat := [8; 8; 8; 40; 64; 8; 8; 8].

(* ================================================================================================== *)
(* 3. homomorphisms                                                                                     *)
(* ================================================================================================== *)
Section CanonHom.
  Variables B1 B2 : Type.
  Variables (bx1 ba1 : B1 -> B1 -> B1) (z1 o1 : B1).
  Variables (bx2 ba2 : B2 -> B2 -> B2) (z2 o2 : B2).
  Variable h : B1 -> B2.
  Hypothesis h_bx : forall a b, h (bx1 a b) = bx2 (h a) (h b).
  Hypothesis h_ba : forall a b, h (ba1 a b) = ba2 (h a) (h b).
  Hypothesis h_z : h z1 = z2.
  Hypothesis h_o : h o1 = o2.
  Notation hb := (map (map h)).
  Notation hm := (map (map (map h))).
  Notation H4 := (h4 B1 B2 h).
  Notation sm4 := (smapS (c4 B1) (c4 B2) (h4 B1 B2 h)).
  Let Hcx4 := h4_cx4 B1 B2 bx1 bx2 h h_bx.
  Let Hst64 := state64_of_reg_homG B1 B2 z1 z2 h h_z.
  Let Hrg := reg_of_state64_homG B1 B2 h.
  Let Hreg := reg_homG B1 B2 h.

  Lemma rd8_homG : forall l off, sm4 (rd8 B1 z1 l off) = rd8 B2 z2 (hb l) off.
  Proof. intros l off. unfold rd8. rewrite Hst64, skipn_map, firstn_map. reflexivity. Qed.
  Lemma cst_homG : forall n, sm4 (cst B1 z1 o1 n) = cst B2 z2 o2 n.
  Proof.
    intros n. unfold cst, const_state, nibc. cbv [smapS rmapS].
    rewrite !(h4_c4nib B1 B2 z1 o1 z2 o2 h h_z h_o). reflexivity.
  Qed.
  Lemma rc_bytes_homG : hb (rc_bytes B1 z1 o1) = rc_bytes B2 z2 o2.
  Proof.
    unfold rc_bytes. rewrite concat_map, map_map. f_equal. apply map_ext. intros n.
    rewrite Hrg, cst_homG. reflexivity.
  Qed.

  Ltac step_hom := intros c; cbv beta delta [c_init c_h c_hinv c_sub c_mix c_alpha c_lf c_lb c_fin mkc] zeta; cbn [map];
    rewrite ?Hreg, ?Hrg.
  Lemma c_init_homG : forall toff c, hm (c_init B1 bx1 z1 o1 toff c) = c_init B2 bx2 z2 o2 toff (hm c).
  Proof.
    intros toff. step_hom. rewrite !(smapS_sx _ _ H4 _ _ Hcx4), !rd8_homG, Hst64, rc_bytes_homG. reflexivity.
  Qed.
  Lemma c_h_homG : forall c, hm (c_h B1 z1 c) = c_h B2 z2 (hm c).
  Proof. step_hom. rewrite smapS_h_perm, Hst64. reflexivity. Qed.
  Lemma c_hinv_homG : forall c, hm (c_hinv B1 z1 c) = c_hinv B2 z2 (hm c).
  Proof. step_hom. rewrite smapS_h_perm_inv, Hst64. reflexivity. Qed.
  Lemma c_sub_homG : forall c, hm (c_sub B1 bx1 ba1 z1 o1 c) = c_sub B2 bx2 ba2 z2 o2 (hm c).
  Proof.
    step_hom.
    rewrite (smapS_smap _ _ H4 (Sb0 B1 bx1 ba1 o1) (Sb0 B2 bx2 ba2 o2) (h4_Sb0 B1 B2 bx1 ba1 o1 bx2 ba2 o2 h h_bx h_ba h_o)).
    rewrite Hst64. reflexivity.
  Qed.
  Lemma c_mix_homG : forall c, hm (c_mix B1 bx1 z1 c) = c_mix B2 bx2 z2 (hm c).
  Proof. step_hom. rewrite (smapS_mix _ _ H4 _ _ Hcx4), Hst64. reflexivity. Qed.
  Lemma c_alpha_homG : forall c, hm (c_alpha B1 bx1 z1 o1 c) = c_alpha B2 bx2 z2 o2 (hm c).
  Proof. step_hom. rewrite (smapS_sx _ _ H4 _ _ Hcx4), cst_homG, Hst64. reflexivity. Qed.
  Lemma c_lf_homG : forall i c, hm (c_lf B1 bx1 z1 i c) = c_lf B2 bx2 z2 i (hm c).
  Proof.
    intros i. step_hom.
    rewrite (smapS_mix _ _ H4 _ _ Hcx4), smapS_permute_cells, !(smapS_sx _ _ H4 _ _ Hcx4), rd8_homG, !Hst64. reflexivity.
  Qed.
  Lemma c_lb_homG : forall j c, hm (c_lb B1 bx1 z1 j c) = c_lb B2 bx2 z2 j (hm c).
  Proof.
    intros j. step_hom.
    rewrite !(smapS_sx _ _ H4 _ _ Hcx4), smapS_permute_cells_inv, (smapS_mix _ _ H4 _ _ Hcx4), rd8_homG, !Hst64. reflexivity.
  Qed.
  Lemma c_fin_homG : forall c, hm (c_fin B1 bx1 z1 c) = c_fin B2 bx2 z2 (hm c).
  Proof. step_hom. rewrite !(smapS_sx _ _ H4 _ _ Hcx4), rd8_homG, !Hst64. reflexivity. Qed.

  Lemma map_set_nth : forall {X Y : Type} (g : X -> Y) i x l, map g (set_nth i x l) = set_nth i (g x) (map g l).
  Proof.
    intros X Y g i x l. revert i. induction l as [|y l IH]; intros i; [destruct i; reflexivity|].
    destruct i as [|i]; cbn [set_nth map]; [reflexivity | rewrite IH; reflexivity].
  Qed.
  Lemma perm_homG : forall L m, hm (perm B1 L m) = perm B2 L (hm m).
  Proof.
    intros L m. unfold perm, proj. rewrite map_map. apply map_ext. intros r. symmetry. exact (map_nth hb m [] r).
  Qed.
  Lemma unperm_homG : forall L c m, hm (unperm B1 L c m) = unperm B2 L (hm c) (hm m).
  Proof. intros L c m. unfold unperm. rewrite !map_set_nth, !Hreg. reflexivity. Qed.
End CanonHom.

Ltac homU_by1 L :=
  intros rho m; unfold mmap, vmap;
  apply L; intros; first [apply peval_pxor | apply peval_pand | reflexivity].

Notation PA := (poly) (only parsing).
Lemma c_init_homU : forall toff, homU (c_init poly pxor pzero pone toff) (c_init bool xorb false true toff).
Proof. intros toff. homU_by1 c_init_homG. Qed.
Lemma c_h_homU : homU (c_h poly pzero) (c_h bool false).
Proof. homU_by1 c_h_homG. Qed.
Lemma c_hinv_homU : homU (c_hinv poly pzero) (c_hinv bool false).
Proof. homU_by1 c_hinv_homG. Qed.
Lemma c_sub_homU : homU (c_sub poly pxor pand pzero pone) (c_sub bool xorb andb false true).
Proof. homU_by1 c_sub_homG. Qed.
Lemma c_mix_homU : homU (c_mix poly pxor pzero) (c_mix bool xorb false).
Proof. homU_by1 c_mix_homG. Qed.
Lemma c_alpha_homU : homU (c_alpha poly pxor pzero pone) (c_alpha bool xorb false true).
Proof. homU_by1 c_alpha_homG. Qed.
Lemma c_lf_homU : forall i, homU (c_lf poly pxor pzero i) (c_lf bool xorb false i).
Proof. intros i. homU_by1 c_lf_homG. Qed.
Lemma c_lb_homU : forall j, homU (c_lb poly pxor pzero j) (c_lb bool xorb false j).
Proof. intros j. homU_by1 c_lb_homG. Qed.
Lemma c_fin_homU : homU (c_fin poly pxor pzero) (c_fin bool xorb false).
Proof. homU_by1 c_fin_homG. Qed.

Lemma onlay_homU : forall L fP fB, homU fP fB -> homU (onlay poly L fP) (onlay bool L fB).
Proof.
  intros L fP fB H rho m. unfold onlay, mmap, vmap.
  rewrite (unperm_homG poly bool (peval rho)). f_equal.
  rewrite <- (perm_homG poly bool (peval rho)). apply H.
Qed.

Notation microP := (micro poly pxor pand pzero pone).
Notation microB := (micro bool xorb andb false true).

Lemma Forall2_app_t : forall {X Y} (R : X -> Y -> Prop) a1 b1 a2 b2,
  Forall2 R a1 b1 -> Forall2 R a2 b2 -> Forall2 R (a1 ++ a2) (b1 ++ b2).
Proof. intros X Y R a1 b1 a2 b2 H1 H2. induction H1; [exact H2 | constructor; assumption]. Qed.
Lemma Forall2_concat_map : forall {I X Y} (R : X -> Y -> Prop) (f : I -> list X) (g : I -> list Y) l,
  (forall i, Forall2 R (f i) (g i)) -> Forall2 R (concat (map f l)) (concat (map g l)).
Proof.
  intros I X Y R f g l H. induction l as [|i l IH]; [constructor|]. cbn [map concat]. apply Forall2_app_t; [apply H | exact IH].
Qed.

Lemma micro_hom : forall toff r, Forall2 tagged_hom (microP toff r) (microB toff r).
Proof.
  intros toff r. unfold micro.
  repeat apply Forall2_app_t.
  - constructor; [split; [reflexivity | apply c_init_homU] | constructor].
  - apply Forall2_concat_map. intros i. unfold fwd_round.
    repeat (constructor; [split; [reflexivity|] |]); [apply c_h_homU | apply c_sub_homU | apply c_lf_homU | constructor].
  - repeat (constructor; [split; [reflexivity|] |]); [apply c_sub_homU | apply c_mix_homU | apply c_sub_homU | apply c_alpha_homU | constructor].
  - apply Forall2_concat_map. intros j. unfold bwd_round.
    repeat (constructor; [split; [reflexivity|] |]); [apply c_lb_homU | apply c_sub_homU | apply c_hinv_homU | constructor].
  - constructor; [split; [reflexivity | apply c_fin_homU] | constructor].
Qed.

Theorem msteps_hom : forall sizes L toff r,
  Forall2 (spec_hom sizes) (msteps poly pxor pand pzero pone L toff r) (msteps bool xorb andb false true L toff r).
Proof.
  intros sizes L toff r. apply Forall2_homU_spec_hom. unfold msteps.
  pose proof (merge_hom _ _ (micro_hom toff r)) as H.
  induction H; cbn [map]; constructor; [apply onlay_homU; assumption | assumption].
Qed.

(* ================================================================================================== *)
(* 4. closed form of the micro steps on a canonical memory (bool carrier) = SpecMantis.core              *)
(* ================================================================================================== *)
Notation rgb := (reg_of_state64 bool).
Notation stb := (state64_of_reg bool false).
Notation cstb := (cst bool false true).
Notation RCB := (rc_bytes bool false true).
Notation ap := (fun (acc : mem bool) (g : bool * (mem bool -> mem bool)) => snd g acc).
Notation fwdB := (fwd nib bxor4 cnib4 (Sb0 bool xorb andb true)).
Notation bwdB := (bwd nib bxor4 cnib4 (Sb0 bool xorb andb true)).
Notation mkcb := (mkc bool).

Lemma rgb_len : forall s : state nib, length (rgb s) = 8.
Proof. intros s. dstate s. reflexivity. Qed.
Lemma stb_rgb : forall s : state nib, stb (rgb s) = s.
Proof. exact (state64_of_reg_of_state64 bool false). Qed.
Lemma rd8_app0 : forall (s : state nib) l, rd8 bool false (rgb s ++ l) 0 = s.
Proof.
  intros s l. unfold rd8. cbn [skipn]. rewrite firstn_app, rgb_len, Nat.sub_diag, (firstn_all2 (rgb s)) by (rewrite rgb_len; lia).
  cbn [firstn]. rewrite app_nil_r. apply stb_rgb.
Qed.
Lemma rd8_skip8 : forall (s : state nib) l off, rd8 bool false (rgb s ++ l) (8 + off) = rd8 bool false l off.
Proof.
  intros s l off. unfold rd8. rewrite skipn_add. rewrite skipn_app, rgb_len, Nat.sub_diag, (skipn_all2 (rgb s)) by (rewrite rgb_len; lia).
  reflexivity.
Qed.
Lemma rd8_rc : forall i, i < 8 -> rd8 bool false RCB (8 * i) = cstb (nth i RCs 0%N).
Proof.
  intros i Hi. do 8 (destruct i as [|i]; [vm_compute; reflexivity|]). lia.
Qed.

Section ClosedM.
  Variables (o i ks tw : list (list bool)).
  Notation CM rc T K X := ([o; i; ks; tw; rc; T; K; X] : mem bool).

  Lemma fwd_closed : forall (idx : list nat), (forall j, In j idx -> j < 8) -> forall T K X,
    fold_left ap (concat (map (fwd_round bool xorb andb false true) idx)) (CM RCB (rgb T) (rgb K) (rgb X))
    = let '(X', T') := fwdB (map (fun j => nth j RCs 0%N) idx) K T X in CM RCB (rgb T') (rgb K) (rgb X').
  Proof.
    induction idx as [|j idx IH]; intros Hj T K X; [reflexivity|].
    cbn [map concat fwd_round app fold_left snd fwd].
    unfold c_h at 1. unfold mkc, reg. cbn [nth]. rewrite stb_rgb.
    unfold c_sub at 1. unfold mkc, reg. cbn [nth]. rewrite stb_rgb.
    unfold c_lf at 1. unfold mkc, reg. cbn [nth]. rewrite !stb_rgb, rd8_rc by (apply Hj; left; reflexivity).
    unfold cst. rewrite IH by (intros j' Hj'; apply Hj; right; exact Hj'). reflexivity.
  Qed.

  Lemma bwd_closed : forall (idx : list nat), (forall j, In j idx -> j < 8) -> forall T K X,
    fold_left ap (concat (map (bwd_round bool xorb andb false true) idx)) (CM RCB (rgb T) (rgb K) (rgb X))
    = let '(X', T') := bwdB (map (fun j => nth j RCs 0%N) idx) K T X in CM RCB (rgb T') (rgb K) (rgb X').
  Proof.
    induction idx as [|j idx IH]; intros Hj T K X; [reflexivity|].
    cbn [map concat bwd_round app fold_left snd bwd].
    unfold c_lb at 1. unfold mkc, reg. cbn [nth]. rewrite !stb_rgb, rd8_rc by (apply Hj; left; reflexivity).
    unfold c_sub at 1. unfold mkc, reg. cbn [nth]. rewrite stb_rgb.
    unfold c_hinv at 1. unfold mkc, reg. cbn [nth]. rewrite stb_rgb.
    unfold cst. rewrite IH by (intros j' Hj'; apply Hj; right; exact Hj'). reflexivity.
  Qed.

  Lemma firstn_RCs : forall r, r <= 8 -> firstn r RCs = map (fun j => nth j RCs 0%N) (seq 0 r).
  Proof. intros r Hr. do 9 (destruct r as [|r]; [reflexivity|]). lia. Qed.

  Theorem micro_closed : forall toff r rc0 T0 K0 X0 (k0 k0p k1 t : state nib), r <= 8 ->
    rd8 bool false ks 0 = k0 -> rd8 bool false ks 8 = k0p -> rd8 bool false ks 16 = k1 -> rd8 bool false tw toff = t ->
    exists T' K',
    fold_left ap (microB toff r) (CM rc0 T0 K0 X0)
    = let y := rgb (mantis_core bool xorb andb false true r k0 k0p k1 t (stb i)) in [y; i; ks; tw; RCB; T'; K'; y].
  Proof.
    intros toff r rc0 T0 K0 X0 k0 k0p k1 t Hr Hk0 Hk0p Hk1 Ht.
    unfold micro. rewrite !fold_left_app. cbn [fold_left snd].
    unfold c_init at 1. unfold mkc, reg. cbn [nth]. rewrite Hk0, Hk1, Ht.
    rewrite fwd_closed by (intros j Hj; apply in_seq in Hj; lia).
    unfold mantis_core, core. rewrite (firstn_RCs r Hr).
    change (cx4 bool xorb) with bxor4. change (c4x xorb) with bxor4. change (c4 bool) with nib.
    destruct (fwdB (map (fun j => nth j RCs 0%N) (seq 0 r)) k1 t (sx nib bxor4 (stb i) (sx nib bxor4 k0 (sx nib bxor4 k1 t)))) as [x tr].
    unfold c_alpha, c_sub, c_mix, mkc, reg. cbn [nth]. rewrite !stb_rgb.
    rewrite bwd_closed by (intros j Hj; apply in_rev in Hj; apply in_seq in Hj; lia).
    rewrite map_rev. unfold cst, sub.
    change (cx4 bool xorb) with bxor4. change (c4 bool) with nib. change (c4nib bool false true) with cnib4.
    match goal with |- context [bwdB ?l ?k ?tt ?xx] => destruct (bwdB l k tt xx) as [y t0] end.
    unfold c_fin. unfold mkc, reg. cbn [nth]. rewrite !stb_rgb, Hk0p.
    eexists; eexists. reflexivity.
  Qed.
End ClosedM.

(* ================================================================================================== *)
(* 5. from the canonical memory to the memory of the translated function                                *)
(* ================================================================================================== *)
Definition good (f : mem bool -> mem bool) : Prop :=
  forall c, length (f c) = 8 /\ reg bool (f c) 1 = reg bool c 1 /\ reg bool (f c) 2 = reg bool c 2 /\ reg bool (f c) 3 = reg bool c 3.
Lemma good_compose : forall f g, good f -> good g -> good (fun c => g (f c)).
Proof.
  intros f g Hf Hg c. destruct (Hf c) as [_ [F1 [F2 F3]]]. destruct (Hg (f c)) as [G0 [G1 [G2 G3]]].
  repeat split; congruence.
Qed.
Lemma merge_from_good : forall l, Forall (fun g : bool * (mem bool -> mem bool) => good (snd g)) l ->
  forall k f, good f -> Forall good (merge_from _ l k f).
Proof.
  intros l H. induction H as [|[k' g] l Hg Hl IH]; intros k f Hf; cbn [merge_from].
  - constructor; [exact Hf | constructor].
  - destruct (Bool.eqb k k'); [apply IH, good_compose; assumption | constructor; [exact Hf | apply IH; exact Hg]].
Qed.
Lemma merge_good : forall l, Forall (fun g : bool * (mem bool -> mem bool) => good (snd g)) l -> Forall good (merge _ l).
Proof. intros l H. destruct H as [|[k g] l Hg Hl]; [constructor | apply merge_from_good; assumption]. Qed.

Lemma micro_good : forall toff r, Forall (fun g : bool * (mem bool -> mem bool) => good (snd g)) (microB toff r).
Proof.
  intros toff r. unfold micro. rewrite !Forall_app.
  assert (Hr : forall (rd : nat -> list (bool * (mem bool -> mem bool))) l,
            (forall j, Forall (fun g => good (snd g)) (rd j)) -> Forall (fun g => good (snd g)) (concat (map rd l))).
  { intros rd l H. induction l as [|j l IH]; [constructor|]. cbn [map concat]. apply Forall_app. split; [apply H | exact IH]. }
  repeat split.
  - repeat constructor.
  - apply Hr. intros j. repeat constructor.
  - repeat constructor.
  - apply Hr. intros j. repeat constructor.
  - repeat constructor.
Qed.

Section OnLayout.
  Variable L : layout.
  Variable n : nat.
  Hypothesis H1 : forall c m : mem bool, length m = n -> length c = 8 ->
    reg bool c 1 = reg bool m (li L) -> reg bool c 2 = reg bool m (lks L) -> reg bool c 3 = reg bool m (ltw L) ->
    perm bool L (unperm bool L c m) = c.
  Hypothesis H2 : forall c c' m : mem bool, length m = n -> unperm bool L c' (unperm bool L c m) = unperm bool L c' m.

  Lemma unperm_length : forall c m : mem bool, length (unperm bool L c m) = length m.
  Proof. intros c m. unfold unperm. rewrite !set_nth_length. reflexivity. Qed.

  Lemma onlay_fold : forall fs f m, good f -> Forall good fs -> length m = n ->
    fold_left (fun acc g => g acc) (map (onlay bool L) (f :: fs)) m
    = unperm bool L (fold_left (fun acc g => g acc) (f :: fs) (perm bool L m)) m.
  Proof.
    induction fs as [|g fs IH]; intros f m Hf Hfs Hm; [reflexivity|].
    pose proof (Forall_inv Hfs) as Hg. pose proof (Forall_inv_tail Hfs) as Hfs'.
    change (map (onlay bool L) (f :: g :: fs)) with (onlay bool L f :: map (onlay bool L) (g :: fs)).
    cbn [fold_left]. rewrite (IH g (onlay bool L f m) Hg Hfs') by (unfold onlay; rewrite unperm_length; exact Hm).
    unfold onlay. destruct (Hf (perm bool L m)) as [F0 [F1 [F2 F3]]].
    rewrite (H1 (f (perm bool L m)) m Hm F0 F1 F2 F3).
    rewrite H2 by exact Hm. reflexivity.
  Qed.
End OnLayout.

Lemma len7 : forall {A} (m : list A), length m = 7 -> exists a b c d e f g, m = [a; b; c; d; e; f; g].
Proof. intros A m H. do 7 (destruct m as [|? m]; [discriminate|]). destruct m; [|discriminate]. repeat eexists. Qed.
Lemma len8 : forall {A} (m : list A), length m = 8 -> exists a b c d e f g h, m = [a; b; c; d; e; f; g; h].
Proof. intros A m H. do 8 (destruct m as [|? m]; [discriminate|]). destruct m; [|discriminate]. repeat eexists. Qed.

Lemma layA_H1 : forall c m : mem bool, length m = 7 -> length c = 8 ->
  reg bool c 1 = reg bool m (li layA) -> reg bool c 2 = reg bool m (lks layA) -> reg bool c 3 = reg bool m (ltw layA) ->
  perm bool layA (unperm bool layA c m) = c.
Proof.
  intros c m Hm Hc. destruct (len7 m Hm) as (a0 & a1 & a2 & a3 & a4 & a5 & a6 & ->).
  destruct (len8 c Hc) as (c0 & c1 & c2 & c3 & c4 & c5 & c6 & c7 & ->).
  unfold reg. cbn. intros -> -> ->. reflexivity.
Qed.
Lemma layA_H2 : forall c c' m : mem bool, length m = 7 -> unperm bool layA c' (unperm bool layA c m) = unperm bool layA c' m.
Proof. intros c c' m Hm. destruct (len7 m Hm) as (a0 & a1 & a2 & a3 & a4 & a5 & a6 & ->). reflexivity. Qed.
Lemma layB_H1 : forall c m : mem bool, length m = 8 -> length c = 8 ->
  reg bool c 1 = reg bool m (li layB) -> reg bool c 2 = reg bool m (lks layB) -> reg bool c 3 = reg bool m (ltw layB) ->
  perm bool layB (unperm bool layB c m) = c.
Proof.
  intros c m Hm Hc. destruct (len8 m Hm) as (a0 & a1 & a2 & a3 & a4 & a5 & a6 & a7 & ->).
  destruct (len8 c Hc) as (c0 & c1 & c2 & c3 & c4 & c5 & c6 & c7 & ->).
  unfold reg. cbn. intros -> -> ->. reflexivity.
Qed.
Lemma layB_H2 : forall c c' m : mem bool, length m = 8 -> unperm bool layB c' (unperm bool layB c m) = unperm bool layB c' m.
Proof. intros c c' m Hm. destruct (len8 m Hm) as (a0 & a1 & a2 & a3 & a4 & a5 & a6 & a7 & ->). reflexivity. Qed.

Lemma merge_from_ne : forall M l k f, merge_from M l k f <> [].
Proof.
  intros M l. induction l as [|[k' g] l IH]; intros k f; cbn [merge_from]; [discriminate|].
  destruct (Bool.eqb k k'); [apply IH | discriminate].
Qed.
(* the fold of the merged, laid-out steps = the fold of the micro steps on the canonical view *)
Lemma msteps_fold : forall L n, 
  (forall c m : mem bool, length m = n -> length c = 8 ->
    reg bool c 1 = reg bool m (li L) -> reg bool c 2 = reg bool m (lks L) -> reg bool c 3 = reg bool m (ltw L) ->
    perm bool L (unperm bool L c m) = c) ->
  (forall c c' m : mem bool, length m = n -> unperm bool L c' (unperm bool L c m) = unperm bool L c' m) ->
  forall toff r m, length m = n ->
  fold_left (fun acc g => g acc) (msteps bool xorb andb false true L toff r) m
  = unperm bool L (fold_left ap (microB toff r) (perm bool L m)) m.
Proof.
  intros L n H1 H2 toff r m Hm. unfold msteps. rewrite <- merge_fold.
  pose proof (merge_good _ (micro_good toff r)) as Hg.
  destruct (merge (mem bool) (microB toff r)) as [|f fs] eqn:E.
  - exfalso. unfold micro in E. cbn [app merge] in E. exact (merge_from_ne _ _ _ _ E).
  - apply (onlay_fold L n H1 H2); [exact (Forall_inv Hg) | exact (Forall_inv_tail Hg) | exact Hm].
Qed.

(* ================================================================================================== *)
(* 6. the final statements: the translated C functions, run by the reference interpreter, compute the    *)
(*    model's (= the specification's) MANTIS-r for all data                                             *)
(* ================================================================================================== *)
Definition mimage (ks : mantis_ks) (tail : list byte) : list (list bool) :=
  rgb (mk_k0 ks) ++ rgb (mk_k0p ks) ++ rgb (mk_k1 ks) ++ rgb (mk_tweak ks) ++ bits tail.
Definition mksfA : field := (2, 32, 4).      (* ks->rounds, layout A *)
Definition mksfB : field := (3, 32, 4).      (* ks->rounds, layout B *)

Lemma rgb_len8 : forall s : state nib, Forall (fun b => length b = 8) (rgb s).
Proof. intros s. unfold reg_of_state64. apply bits_len8. Qed.
Lemma mimage_region : forall ks tail, length tail = 8 -> region_ok 40 (mimage ks tail).
Proof.
  intros ks tail Ht. unfold mimage. split.
  - rewrite !app_length, !rgb_len. rewrite map_length. unfold byte in *. lia.
  - repeat (apply Forall_app; split; [apply rgb_len8|]). apply bits_len8.
Qed.
Lemma bits_region : forall n (l : list byte), length l = n -> region_ok n (bits l).
Proof. intros n l H. split; [rewrite map_length; exact H | apply bits_len8]. Qed.
Lemma rd8_mimage0 : forall ks tail, rd8 bool false (mimage ks tail) 0 = mk_k0 ks.
Proof. intros. apply rd8_app0. Qed.
Lemma rd8_mimage8 : forall ks tail, rd8 bool false (mimage ks tail) 8 = mk_k0p ks.
Proof. intros. unfold mimage. change 8 with (8 + 0) at 1. rewrite rd8_skip8. apply rd8_app0. Qed.
Lemma rd8_mimage16 : forall ks tail, rd8 bool false (mimage ks tail) 16 = mk_k1 ks.
Proof. intros. unfold mimage. change 16 with (8 + (8 + 0)). rewrite !rd8_skip8. apply rd8_app0. Qed.
Lemma rd8_mimage24 : forall ks tail, rd8 bool false (mimage ks tail) 24 = mk_tweak ks.
Proof. intros. unfold mimage. change 24 with (8 + (8 + (8 + 0))). rewrite !rd8_skip8. apply rd8_app0. Qed.
Lemma stb_bits : forall blk : list byte, length blk = 8 -> stb (bits blk) = load64 blk.
Proof. intros blk H. rewrite <- (reg_of_state64_load64 blk H). apply stb_rgb. Qed.
Lemma rd8_bits0 : forall tw : list byte, length tw = 8 -> rd8 bool false (bits tw) 0 = load64 tw.
Proof.
  intros tw H. unfold rd8. cbn [skipn]. rewrite firstn_all2 by (rewrite map_length; unfold byte in *; lia). apply stb_bits. exact H.
Qed.

Theorem mcryptA_final : forall code fuel r pl sh pl' sh' c t, r <= 8 ->
  flat [mksfA] fuel pl sh code = Some (pl', sh', c, t) ->
  check_block callP msizesA c (msteps poly pxor pand pzero pone layA 24 r) (msteps bool xorb andb false true layA 24 r) = true ->
  forall (out blk tail rcj Tj Kj Xj : list byte) (ks : mantis_ks),
  length out = 8 -> length blk = 8 -> length tail = 8 -> length rcj = 64 -> length Tj = 8 -> length Kj = 8 -> length Xj = 8 ->
  N.to_nat (mk_rounds ks) = r ->
  let m0 : mem bool := [bits out; bits blk; mimage ks tail; bits rcj; bits Tj; bits Kj; bits Xj] in
  Inv [mksfA] sh m0 ->
  exists st', interp [mksfA] callB fuel pl (m0, []) code = Some (pl', st', t)
    /\ nth 0 (fst st') [] = bits (mantis_crypt ks blk)
    /\ nth 1 (fst st') [] = bits blk /\ nth 2 (fst st') [] = mimage ks tail.
Proof.
  intros code fuel r pl sh pl' sh' c t Hr Hflat Hcheck out blk tail rcj Tj Kj Xj ks Ho Hb Ht Hrc HT HK HX Hrounds m0 HInv.
  assert (Hm : shaped msizesA m0).
  { apply shapedF_shaped. unfold msizesA, m0.
    repeat constructor; try (apply bits_region; assumption); try (rewrite map_length; assumption); try apply bits_len8;
      apply mimage_region; exact Ht. }
  exists (execB callB c (m0, [])). split.
  - exact (interp_of_flat [mksfA] callB (disjoint_single _) (nodup_single _) fuel code pl sh m0 pl' sh' c t HInv Hflat).
  - rewrite (check_block_sound callP callB msizesA c _ _ callf_spec_hom (msteps_hom msizesA layA 24 r) Hcheck m0 Hm).
    rewrite (msteps_fold layA 7 layA_H1 layA_H2 24 r m0 eq_refl).
    change (perm bool layA m0) with ([bits out; bits blk; mimage ks tail; mimage ks tail; bits rcj; bits Tj; bits Kj; bits Xj] : mem bool).
    destruct (micro_closed (bits out) (bits blk) (mimage ks tail) (mimage ks tail) 24 r (bits rcj) (bits Tj) (bits Kj) (bits Xj)
                (mk_k0 ks) (mk_k0p ks) (mk_k1 ks) (mk_tweak ks) Hr (rd8_mimage0 ks tail) (rd8_mimage8 ks tail) (rd8_mimage16 ks tail)
                (rd8_mimage24 ks tail)) as (T' & K' & E).
    rewrite E. cbv zeta. unfold unperm, layA, m0, reg. cbn [lo lrc lT lK lX set_nth nth].
    repeat split. unfold mantis_crypt. rewrite stb_bits by exact Hb. rewrite Hrounds. reflexivity.
Qed.

Theorem mcryptB_final : forall code fuel r pl sh pl' sh' c t, r <= 8 ->
  flat [mksfB] fuel pl sh code = Some (pl', sh', c, t) ->
  check_block callP msizesB c (msteps poly pxor pand pzero pone layB 0 r) (msteps bool xorb andb false true layB 0 r) = true ->
  forall (out blk tw tail rcj Tj Kj Xj : list byte) (ks : mantis_ks),
  length out = 8 -> length blk = 8 -> length tw = 8 -> length tail = 8 -> length rcj = 64 -> length Tj = 8 -> length Kj = 8 ->
  length Xj = 8 -> N.to_nat (mk_rounds ks) = r ->
  let m0 : mem bool := [bits out; bits blk; bits tw; mimage ks tail; bits rcj; bits Tj; bits Kj; bits Xj] in
  Inv [mksfB] sh m0 ->
  exists st', interp [mksfB] callB fuel pl (m0, []) code = Some (pl', st', t)
    /\ nth 0 (fst st') [] = bits (mantis_crypt_tweaked ks tw blk)
    /\ nth 1 (fst st') [] = bits blk /\ nth 2 (fst st') [] = bits tw /\ nth 3 (fst st') [] = mimage ks tail.
Proof.
  intros code fuel r pl sh pl' sh' c t Hr Hflat Hcheck out blk tw tail rcj Tj Kj Xj ks Ho Hb Htw Ht Hrc HT HK HX Hrounds m0 HInv.
  assert (Hm : shaped msizesB m0).
  { apply shapedF_shaped. unfold msizesB, m0.
    repeat constructor; try (apply bits_region; assumption); try (rewrite map_length; assumption); try apply bits_len8;
      apply mimage_region; exact Ht. }
  exists (execB callB c (m0, [])). split.
  - exact (interp_of_flat [mksfB] callB (disjoint_single _) (nodup_single _) fuel code pl sh m0 pl' sh' c t HInv Hflat).
  - rewrite (check_block_sound callP callB msizesB c _ _ callf_spec_hom (msteps_hom msizesB layB 0 r) Hcheck m0 Hm).
    rewrite (msteps_fold layB 8 layB_H1 layB_H2 0 r m0 eq_refl).
    change (perm bool layB m0) with ([bits out; bits blk; mimage ks tail; bits tw; bits rcj; bits Tj; bits Kj; bits Xj] : mem bool).
    destruct (micro_closed (bits out) (bits blk) (mimage ks tail) (bits tw) 0 r (bits rcj) (bits Tj) (bits Kj) (bits Xj)
                (mk_k0 ks) (mk_k0p ks) (mk_k1 ks) (load64 tw) Hr (rd8_mimage0 ks tail) (rd8_mimage8 ks tail) (rd8_mimage16 ks tail)
                (rd8_bits0 tw Htw)) as (T' & K' & E).
    rewrite E. cbv zeta. unfold unperm, layB, m0, reg. cbn [lo lrc lT lK lX set_nth nth].
    repeat split. unfold mantis_crypt_tweaked. rewrite stb_bits by exact Hb. rewrite Hrounds. reflexivity.
Qed.

Print Assumptions msteps_hom.
Print Assumptions micro_closed.
Print Assumptions mcryptA_final.
Print Assumptions mcryptB_final.
