(* SIR.v — a structured, two-sorted intermediate representation for WHOLE C functions (loops, branches, pointer
   walks, memcpy/memset, struct fields), generated from the current source by translator/c2sir.py.

   Two sorts of values:
     public  — concrete numbers (N): sizes, indices, loop counters, round counts, null-ness of pointers, byte
               offsets of pointers inside their regions.  Only public values may steer control flow or form
               addresses: the syntax offers no way to use a data value in a branch condition, a loop bound, a byte
               offset or a length.
     data    — bit vectors over an arbitrary bit carrier (IR.v): keys, tweaks, blocks, counters, key streams.

   [flat] partially evaluates a program on its public inputs: it resolves every branch, unrolls every loop, turns
   every address into a literal and yields (i) a straight-line IR.v program over the data, (ii) the trace of branch
   decisions and of (region, offset, width) accesses, (iii) the final public state.  The data memory is not an
   argument of [flat]: the trace is a function of the public inputs alone (constant-time by construction, theorem
   [interp_trace_public] for the reference interpreter [interp], which reads public fields from the real memory).
   The straight-line program is what the reflective checkers of IRCheck.v prove equal to the specification, for all
   data, at each public configuration. *)
From Coq Require Import List Bool NArith ZArith Arith Lia.
From Skinny Require Import IR.
Import ListNotations.

(* ------------------------------------------------------------------------------------------------ *)
(* public expressions                                                                                 *)
(* ------------------------------------------------------------------------------------------------ *)
Inductive pbinop : Type :=
| PAdd | PSub | PMul | PDiv | PMod | PShl | PShr | PSar | PAnd | POr | PXor
| PEq | PNe | PLt | PLe | PSLt | PSLe | PLAnd | PLOr.

Inductive pexpr : Type :=
| PConst (v : N)
| PVar (x : nat)                         (* public local / parameter *)
| PField (r off n : nat)                 (* public struct field: region, literal byte offset, bytes; little endian *)
| PBin (o : pbinop) (w : nat) (a b : pexpr)   (* C arithmetic at width w (operands already converted to w bits) *)
| PTrunc (w : nat) (a : pexpr)           (* conversion to an unsigned w-bit type *)
| PSext (w1 w2 : nat) (a : pexpr)        (* sign-extension of a w1-bit value to w2 bits *)
| PNot (a : pexpr)                       (* logical negation: 1 if a = 0 else 0 *)
| PCond (c a b : pexpr).

Definition trunc (w : nat) (v : N) : N := N.land v (N.ones (N.of_nat w)).
Definition sgn (w : nat) (v : N) : Z :=
  let v := trunc w v in
  if N.testbit v (N.of_nat (w - 1)) then (Z.of_N v - Z.of_N (N.shiftl 1 (N.of_nat w)))%Z else Z.of_N v.
Definition b2n (b : bool) : N := if b then 1%N else 0%N.
Definition nz (a : N) : bool := negb (N.eqb a 0).

Definition pbin (o : pbinop) (w : nat) (a b : N) : N :=
  trunc w
    (match o with
     | PAdd => a + b
     | PSub => trunc w a + N.shiftl 1 (N.of_nat w) - trunc w b
     | PMul => a * b
     | PDiv => a / b
     | PMod => a mod b
     | PShl => N.shiftl a b
     | PShr => N.shiftr a b
     | PSar => Z.to_N (Z.shiftr (sgn w a) (Z.of_N b) mod Z.of_N (N.shiftl 1 (N.of_nat w)))
     | PAnd => N.land a b
     | POr => N.lor a b
     | PXor => N.lxor a b
     | PEq => b2n (N.eqb a b)
     | PNe => b2n (negb (N.eqb a b))
     | PLt => b2n (N.ltb a b)
     | PLe => b2n (N.leb a b)
     | PSLt => b2n (Z.ltb (sgn w a) (sgn w b))
     | PSLe => b2n (Z.leb (sgn w a) (sgn w b))
     | PLAnd => b2n (nz a && nz b)
     | PLOr => b2n (nz a || nz b)
     end)%N.

Section PEval.
  Variable rd : nat -> nat -> nat -> option N.        (* how a public field is read *)
  Variable pl : list N.                                (* public locals *)

  Fixpoint peval (e : pexpr) : option N :=
    match e with
    | PConst v => Some v
    | PVar x => nth_error pl x
    | PField r off n => rd r off n
    | PBin o w a b => match peval a, peval b with
                      | Some x, Some y => Some (pbin o w x y)
                      | _, _ => None end
    | PTrunc w a => option_map (trunc w) (peval a)
    | PSext w1 w2 a => option_map (fun v => trunc w2 (Z.to_N (sgn w1 v mod Z.of_N (N.shiftl 1 (N.of_nat w2))))) (peval a)
    | PNot a => option_map (fun v => b2n (N.eqb v 0)) (peval a)
    | PCond c a b => match peval c with
                     | Some v => if nz v then peval a else peval b
                     | None => None end
    end.
End PEval.

(* ------------------------------------------------------------------------------------------------ *)
(* data expressions: IR.v expressions whose load offsets are public expressions                        *)
(* ------------------------------------------------------------------------------------------------ *)
Inductive dexpr : Type :=
| DConst (w : nat) (v : N)
| DLocal (x : nat)
| DLoad (r : nat) (off : pexpr) (n : nat)
| DPub (w : nat) (e : pexpr)              (* a public value used as a w-bit data constant *)
| DNot (a : dexpr)
| DBin (o : binop) (a b : dexpr)
| DShl (lw : nat) (a : dexpr) (k : nat)
| DShrL (lw : nat) (a : dexpr) (k : nat)
| DShrA (lw : nat) (a : dexpr) (k : nat)
| DSlice (a : dexpr) (lo w : nat)
| DConcat (l : list dexpr)
| DZext (w : nat) (a : dexpr)
| DSext (w : nat) (a : dexpr)
| DCall (f : nat) (a : dexpr)
| DAdd (a b : dexpr).

Inductive sstmt : Type :=
| SData (x : nat) (e : dexpr)                                   (* data local := e *)
| SDStore (r : nat) (off : pexpr) (n : nat) (e : dexpr)         (* data store *)
| SPub (x : nat) (e : pexpr)                                    (* public local := e *)
| SPStore (r off n : nat) (e : pexpr)                           (* store to a public field (literal offset) *)
| SIf (c : pexpr) (a b : list sstmt)
| SWhile (c : pexpr) (body : list sstmt)
| SCopy (rd : nat) (offd : pexpr) (rs : nat) (offs : pexpr) (n : pexpr)     (* memcpy of data bytes *)
| SFill (r : nat) (off : pexpr) (n : pexpr) (v : N).                        (* memset with a constant byte *)

Inductive event : Type :=
| EvBranch (b : bool)
| EvLoad (r off n : nat)
| EvStore (r off n : nat).

(* ------------------------------------------------------------------------------------------------ *)
(* partial evaluation on the public inputs                                                            *)
(* ------------------------------------------------------------------------------------------------ *)
Definition field : Type := (nat * nat * nat)%type.             (* region, offset, bytes *)
Definition field_eqb (f g : field) : bool :=
  let '(r, o, n) := f in let '(r', o', n') := g in (Nat.eqb r r' && Nat.eqb o o' && Nat.eqb n n')%bool.
Definition overlaps (r off n : nat) (f : field) : bool :=
  let '(r', o', n') := f in (Nat.eqb r r' && Nat.ltb off (o' + n') && Nat.ltb o' (off + n))%bool.

Definition shadow : Type := list (field * N).
Fixpoint sh_get (sh : shadow) (f : field) : option N :=
  match sh with
  | [] => None
  | (g, v) :: sh' => if field_eqb f g then Some v else sh_get sh' f
  end.
Fixpoint sh_set (sh : shadow) (f : field) (v : N) : shadow :=
  match sh with
  | [] => []
  | (g, w) :: sh' => if field_eqb f g then (g, v) :: sh' else (g, w) :: sh_set sh' f v
  end.

Fixpoint set_pl (x : nat) (v : N) (pl : list N) : list N :=
  match x, pl with
  | O, [] => [v]
  | O, _ :: pl' => v :: pl'
  | S x', [] => 0%N :: set_pl x' v []
  | S x', y :: pl' => y :: set_pl x' v pl'
  end.

Section Flat.
  Variable fields : list field.                         (* the public fields of the regions *)

  Definition rd_sh (sh : shadow) (r off n : nat) : option N := sh_get sh (r, off, n).

  (* flatten a data expression: literal offsets, public constants; collects the load events *)
  Fixpoint fexpr (pv : pexpr -> option N) (e : dexpr) : option (expr * list event) :=
    match e with
    | DConst w v => Some (EConst w v, [])
    | DLocal x => Some (ELocal x, [])
    | DLoad r off n => match pv off with
                       | Some o => Some (ELoad r (N.to_nat o) n, [EvLoad r (N.to_nat o) n])
                       | None => None end
    | DPub w p => match pv p with Some v => Some (EConst w (trunc w v), []) | None => None end
    | DNot a => match fexpr pv a with Some (a', t) => Some (ENot a', t) | None => None end
    | DBin o a b => match fexpr pv a, fexpr pv b with
                    | Some (a', t1), Some (b', t2) => Some (EBin o a' b', t1 ++ t2)
                    | _, _ => None end
    | DShl lw a k => match fexpr pv a with Some (a', t) => Some (EShl lw a' k, t) | None => None end
    | DShrL lw a k => match fexpr pv a with Some (a', t) => Some (EShrL lw a' k, t) | None => None end
    | DShrA lw a k => match fexpr pv a with Some (a', t) => Some (EShrA lw a' k, t) | None => None end
    | DSlice a lo w => match fexpr pv a with Some (a', t) => Some (ESlice a' lo w, t) | None => None end
    | DConcat l =>
        match (fix go (l : list dexpr) : option (list expr * list event) :=
                 match l with
                 | [] => Some ([], [])
                 | a :: l' => match fexpr pv a, go l' with
                              | Some (a', t1), Some (l'', t2) => Some (a' :: l'', t1 ++ t2)
                              | _, _ => None end
                 end) l with
        | Some (l', t) => Some (EConcat l', t)
        | None => None end
    | DZext w a => match fexpr pv a with Some (a', t) => Some (EZext w a', t) | None => None end
    | DSext w a => match fexpr pv a with Some (a', t) => Some (ESext w a', t) | None => None end
    | DCall f a => match fexpr pv a with Some (a', t) => Some (ECall f a', t) | None => None end
    | DAdd a b => match fexpr pv a, fexpr pv b with
                  | Some (a', t1), Some (b', t2) => Some (EAdd a' b', t1 ++ t2)
                  | _, _ => None end
    end.

  Definition clear_of_fields (r off n : nat) : bool := negb (existsb (overlaps r off n) fields).

  (* byte-wise copy / fill *)
  Fixpoint copy_code (rd offd rs offs n : nat) : list stmt :=
    match n with
    | O => []
    | S n' => SStore rd offd 1 (ELoad rs offs 1) :: copy_code rd (S offd) rs (S offs) n'
    end.
  Fixpoint fill_code (r off n : nat) (v : N) : list stmt :=
    match n with
    | O => []
    | S n' => SStore r off 1 (EConst 8 v) :: fill_code r (S off) n' v
    end.

  (* one non-control statement: new public locals, shadow update, emitted code, events *)
  Definition simple (rd : nat -> nat -> nat -> option N) (pl : list N) (s : sstmt)
    : option (list N * option (field * N) * list stmt * list event) :=
    let pv := peval rd pl in
    match s with
    | SData x e => match fexpr pv e with
                   | Some (e', t) => Some (pl, None, [SLocal x e'], t)
                   | None => None end
    | SDStore r off n e =>
        match pv off, fexpr pv e with
        | Some o, Some (e', t) =>
            let o := N.to_nat o in
            if clear_of_fields r o n then Some (pl, None, [SStore r o n e'], t ++ [EvStore r o n]) else None
        | _, _ => None end
    | SPub x e => match pv e with Some v => Some (set_pl x v pl, None, [], []) | None => None end
    | SPStore r off n e =>
        match pv e with
        | Some v => if existsb (field_eqb (r, off, n)) fields
                    then let v := trunc (8 * n) v in
                         Some (pl, Some ((r, off, n), v), [SStore r off n (EConst (8 * n) v)], [EvStore r off n])
                    else None
        | None => None end
    | SCopy rd' offd rs offs n =>
        match pv offd, pv offs, pv n with
        | Some od, Some os, Some k =>
            let od := N.to_nat od in let os := N.to_nat os in let k := N.to_nat k in
            if clear_of_fields rd' od k
            then Some (pl, None, copy_code rd' od rs os k, [EvLoad rs os k; EvStore rd' od k]) else None
        | _, _, _ => None end
    | SFill r off n v =>
        match pv off, pv n with
        | Some o, Some k =>
            let o := N.to_nat o in let k := N.to_nat k in
            if clear_of_fields r o k then Some (pl, None, fill_code r o k v, [EvStore r o k]) else None
        | _, _ => None end
    | SIf _ _ _ | SWhile _ _ => None
    end.

  Definition upd_sh (sh : shadow) (u : option (field * N)) : shadow :=
    match u with Some (f, v) => sh_set sh f v | None => sh end.

  (* the partial evaluator; fuel = number of statement steps *)
  Fixpoint flat (fuel : nat) (pl : list N) (sh : shadow) (p : list sstmt)
    : option (list N * shadow * list stmt * list event) :=
    match fuel with
    | O => None
    | S f =>
        match p with
        | [] => Some (pl, sh, [], [])
        | SIf c a b :: rest =>
            match peval (rd_sh sh) pl c with
            | Some v =>
                match flat f pl sh ((if nz v then a else b) ++ rest) with
                | Some (pl', sh', code, t) => Some (pl', sh', code, EvBranch (nz v) :: t)
                | None => None end
            | None => None end
        | SWhile c body :: rest =>
            match peval (rd_sh sh) pl c with
            | Some v =>
                match flat f pl sh (if nz v then body ++ SWhile c body :: rest else rest) with
                | Some (pl', sh', code, t) => Some (pl', sh', code, EvBranch (nz v) :: t)
                | None => None end
            | None => None end
        | s :: rest =>
            match simple (rd_sh sh) pl s with
            | Some (pl1, u, c1, t1) =>
                match flat f pl1 (upd_sh sh u) rest with
                | Some (pl', sh', code, t) => Some (pl', sh', c1 ++ code, t1 ++ t)
                | None => None end
            | None => None end
        end
    end.
End Flat.

(* ------------------------------------------------------------------------------------------------ *)
(* the reference interpreter: the same statements executed directly on a concrete memory, public fields *)
(* read from that memory                                                                              *)
(* ------------------------------------------------------------------------------------------------ *)
Fixpoint N_of_bits (l : list bool) : N :=
  match l with
  | [] => 0
  | b :: l' => (if b then 1 else 0) + 2 * N_of_bits l'
  end%N.

Section Interp.
  Variable fields : list field.
  Variable callf : nat -> list bool -> list bool.
  Notation execB' := (exec bool xorb andb false true callf).

  Definition rd_mem (m : mem bool) (r off n : nat) : option N :=
    if existsb (field_eqb (r, off, n)) fields then Some (N_of_bits (load bool false m r off n)) else None.

  Fixpoint interp (fuel : nat) (pl : list N) (st : mem bool * list (list bool)) (p : list sstmt)
    : option (list N * (mem bool * list (list bool)) * list event) :=
    match fuel with
    | O => None
    | S f =>
        match p with
        | [] => Some (pl, st, [])
        | SIf c a b :: rest =>
            match peval (rd_mem (fst st)) pl c with
            | Some v =>
                match interp f pl st ((if nz v then a else b) ++ rest) with
                | Some (pl', st', t) => Some (pl', st', EvBranch (nz v) :: t)
                | None => None end
            | None => None end
        | SWhile c body :: rest =>
            match peval (rd_mem (fst st)) pl c with
            | Some v =>
                match interp f pl st (if nz v then body ++ SWhile c body :: rest else rest) with
                | Some (pl', st', t) => Some (pl', st', EvBranch (nz v) :: t)
                | None => None end
            | None => None end
        | s :: rest =>
            match simple fields (rd_mem (fst st)) pl s with
            | Some (pl1, _, c1, t1) =>
                match interp f pl1 (execB' c1 st) rest with
                | Some (pl', st', t) => Some (pl', st', t1 ++ t)
                | None => None end
            | None => None end
        end
    end.
End Interp.
