(* ProofsCpu.v — back-end selection over the abstract CPU (property C13) *)
From Coq Require Import List Bool NArith Lia.
From Skinny Require Import ModelCpu.
Import ListNotations.
Local Open Scope N_scope.

Lemma cpuid_leaf0 c a s : eax_of (cpuid c a 0 s) = max_leaf c.
Proof.
  unfold cpuid. destruct (max_leaf c <? 0) eqn:E.
  - apply N.ltb_lt in E. lia.
  - reflexivity.
Qed.
Lemma cpuid_leaf1_edx c a s :
  edx_of (cpuid c a 1 s) = if 1 <=? max_leaf c then l1_edx c else 0.
Proof.
  unfold cpuid. destruct (max_leaf c <? 1) eqn:E.
  - apply N.ltb_lt in E. destruct (1 <=? max_leaf c) eqn:F; [apply N.leb_le in F; lia|reflexivity].
  - apply N.ltb_ge in E. destruct (1 <=? max_leaf c) eqn:F; [reflexivity|apply N.leb_gt in F; lia].
Qed.
Lemma cpuid_leaf1_ecx c a s : 1 <= max_leaf c -> ecx_of (cpuid c a 1 s) = l1_ecx c.
Proof.
  intros H. unfold cpuid. destruct (max_leaf c <? 1) eqn:E; [apply N.ltb_lt in E; lia|reflexivity].
Qed.
Lemma cpuid_leaf7_0 c a : 7 <= max_leaf c -> ebx_of (cpuid c a 7 (Some 0)) = l7_ebx0 c.
Proof.
  intros H. unfold cpuid. destruct (max_leaf c <? 7) eqn:E; [apply N.ltb_lt in E; lia|reflexivity].
Qed.

Lemma probe128_spec b c a : probe128 b c a = has128 b && sse2_usable c.
Proof.
  unfold probe128, sse2_usable. rewrite cpuid_leaf1_edx.
  destruct (1 <=? max_leaf c); [reflexivity|]. cbn. now rewrite andb_false_r.
Qed.

Lemma probe256_spec b c a : probe256 b c a = has256 b && avx2_usable c.
Proof.
  unfold probe256, avx2_usable. destruct (has256 b); [|reflexivity]. cbn [negb andb].
  rewrite cpuid_leaf0.
  destruct (max_leaf c <? 7) eqn:E.
  - apply N.ltb_lt in E. destruct (7 <=? max_leaf c) eqn:F; [apply N.leb_le in F; lia|reflexivity].
  - apply N.ltb_ge in E. assert (F : (7 <=? max_leaf c) = true) by (apply N.leb_le; exact E).
    rewrite F. rewrite cpuid_leaf1_ecx by lia. rewrite cpuid_leaf7_0 by exact E.
    destruct (N.testbit (l1_ecx c) 27), (N.testbit (l1_ecx c) 28),
      (N.land (xcr0 c) 6 =? 6); reflexivity.
Qed.

(* deterministic: the answer does not depend on what the registers held *)
Theorem probes_ignore_ambient : forall b c a1 a2,
  probe128 b c a1 = probe128 b c a2 /\ probe256 b c a1 = probe256 b c a2.
Proof. intros. now rewrite !probe128_spec, !probe256_spec. Qed.

(* accurate: the widest compiled-in back end that the CPU and OS can run *)
Theorem select_is_widest : forall wide b c a, select wide b c a = widest wide b c.
Proof.
  intros. unfold select, widest. rewrite probe128_spec, probe256_spec.
  destruct wide; cbn [andb]; [destruct (has256 b && avx2_usable c)|]; reflexivity.
Qed.
Theorem select_ignores_ambient : forall wide b c a1 a2, select wide b c a1 = select wide b c a2.
Proof. intros. now rewrite !select_is_widest. Qed.

(* never above the CPU *)
Theorem select_v256_usable : forall wide b c a,
  select wide b c a = BV256 -> wide = true /\ has256 b = true /\ avx2_usable c = true.
Proof.
  intros wide b c a. rewrite select_is_widest. unfold widest.
  destruct wide, (has256 b), (avx2_usable c); cbn;
    try (destruct (has128 b && sse2_usable c); discriminate); auto.
Qed.
Theorem select_v128_usable : forall wide b c a,
  select wide b c a = BV128 -> has128 b = true /\ sse2_usable c = true.
Proof.
  intros wide b c a. rewrite select_is_widest. unfold widest.
  destruct (wide && has256 b && avx2_usable c); [discriminate|].
  destruct (has128 b), (sse2_usable c); cbn; try discriminate; auto.
Qed.

(* the probe as shipped (before the repair) is neither deterministic nor safe *)
Definition avx2_cpu : cpu :=
  {| max_leaf := 13; l1_ecx := 0x7ffafbff; l1_edx := 0xbfebfbff; l7_ebx0 := 0x20;
     l7_ebxN := 0; xcr0 := 7; oor_ebx := 0 |}.
Theorem probe256_orig_ambient_refuted :
  exists b c a1 a2, probe256_orig b c a1 <> probe256_orig b c a2.
Proof.
  exists {| has128 := true; has256 := true |}, avx2_cpu, 0, 1. vm_compute. discriminate.
Qed.
Definition avx2_without_os : cpu :=
  {| max_leaf := 13; l1_ecx := 0; l1_edx := 0xbfebfbff; l7_ebx0 := 0x20;
     l7_ebxN := 0; xcr0 := 0; oor_ebx := 0 |}.
Theorem probe256_orig_unsafe_refuted :
  exists b c, probe256_orig b c 0 = true /\ avx2_usable c = false.
Proof.
  exists {| has128 := true; has256 := true |}, avx2_without_os. vm_compute. auto.
Qed.

(* non-vacuity: a CPU on which each back end is selected *)
Example select_examples :
  select true {| has128 := true; has256 := true |} avx2_cpu 5 = BV256
  /\ select false {| has128 := true; has256 := true |} avx2_cpu 5 = BV128
  /\ select true {| has128 := true; has256 := true |} avx2_without_os 5 = BV128
  /\ select true {| has128 := false; has256 := false |} avx2_cpu 5 = BDef.
Proof. vm_compute. auto. Qed.
