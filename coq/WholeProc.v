(* WholeProc.v — compositional whole-function checking: a caller (CTR mode, parallel ECB) whose callee (the block
   function) is NOT inlined but kept as a PROCEDURE CALL statement
        SStore rout offo n (ECall f (EConcat [ELoad rin offi n; ELoad rks offk kn]))        (f >= 10)
   whose meaning is supplied by the call interpretation cB (instantiated with the model's block function, which the
   block-function obligations blk* tie to the C source separately).  The flattened caller is cut at the procedure calls;
   the runs between them are call-free and are checked symbolically against specification steps (check_kernel); a run of
   procedure calls is taken as it is (its specification IS its execution), only its stores are checked to be in bounds. *)
From Coq Require Import List Bool NArith Arith Lia.
From Skinny Require Import IR Anf IRCheck KernelSpecs KernelHom SIRCheck WholeSpecs.
Import ListNotations.

Definition is_pcall (s : stmt) : bool :=
  match s with SStore _ _ _ (ECall f _) => Nat.leb 10 f | _ => false end.

Fixpoint expr_calls (e : expr) : bool :=
  match e with
  | EConst _ _ | ELocal _ | ELoad _ _ _ => false
  | ENot a | EShl _ a _ | EShrL _ a _ | EShrA _ a _ | ESlice a _ _ | EZext _ a | ESext _ a => expr_calls a
  | EBin _ a b | EAdd a b => expr_calls a || expr_calls b
  | EConcat l => existsb expr_calls l
  | ECall _ _ => true
  end.
Definition stmt_nocall (s : stmt) : bool :=
  match s with SLocal _ e | SStore _ _ _ e => negb (expr_calls e) end.

Section NoCall.
  Variables (c1 c2 : nat -> list bool -> list bool).
  Lemma eval_nocall : forall m loc e, expr_calls e = false -> evalB c1 m loc e = evalB c2 m loc e.
  Proof.
    intros m loc e. unfold evalB. induction e using expr_ind2; cbn [eval expr_calls]; intros Hc; try reflexivity;
      try (rewrite IHe by exact Hc; reflexivity).
    - apply orb_false_iff in Hc. destruct Hc as [H1 H2]. rewrite IHe1, IHe2 by assumption. reflexivity.
    - f_equal. apply map_ext_in. intros a Hin. rewrite Forall_forall in H. apply H; [exact Hin|].
      destruct (expr_calls a) eqn:E; [|reflexivity].
      assert (existsb expr_calls l = true) by (apply existsb_exists; exists a; split; assumption). congruence.
    - discriminate.
    - apply orb_false_iff in Hc. destruct Hc as [H1 H2]. rewrite IHe1, IHe2 by assumption. reflexivity.
  Qed.
  Lemma exec_nocall : forall p st, forallb stmt_nocall p = true -> execB c1 p st = execB c2 p st.
  Proof.
    induction p as [|s p IH]; intros st H; [reflexivity|].
    cbn [forallb] in H. apply andb_true_iff in H. destruct H as [Hs Hp].
    unfold execB, exec. cbn [fold_left].
    assert (E : exec1 bool xorb andb false true c1 st s = exec1 bool xorb andb false true c2 st s).
    { destruct st as [m loc]. destruct s as [x e|r off n e]; cbn [exec1 stmt_nocall] in *; apply negb_true_iff in Hs;
        rewrite (eval_nocall m loc e Hs : eval bool xorb andb false true c1 m loc e = _); reflexivity. }
    rewrite E. apply IH. exact Hp.
  Qed.
End NoCall.

(* ---- cutting at the procedure calls ---- *)
Fixpoint psplit_from (p : list stmt) (cur : list stmt) (k : bool) : list (bool * list stmt) :=
  match p with
  | [] => match cur with [] => [] | _ => [(k, rev cur)] end
  | s :: p' =>
      if Bool.eqb (is_pcall s) k then psplit_from p' (s :: cur) k
      else match cur with
           | [] => psplit_from p' [s] (is_pcall s)
           | _ => (k, rev cur) :: psplit_from p' [s] (is_pcall s)
           end
  end.
Definition psplit (p : list stmt) : list (bool * list stmt) := psplit_from p [] false.
Lemma psplit_from_concat : forall p cur k, concat (map snd (psplit_from p cur k)) = rev cur ++ p.
Proof.
  induction p as [|s p IH]; intros cur k; cbn [psplit_from].
  - destruct cur; cbn [map concat snd]; rewrite ?app_nil_r; reflexivity.
  - destruct (Bool.eqb (is_pcall s) k).
    + rewrite IH. cbn [rev]. rewrite <- app_assoc. reflexivity.
    + destruct cur as [|c cur]; cbn [map concat snd]; rewrite IH; reflexivity.
Qed.
Lemma psplit_concat : forall p, concat (map snd (psplit p)) = p.
Proof. intros p. unfold psplit. rewrite psplit_from_concat. reflexivity. Qed.

(* ---- procedure-call statements: decidable equality on their shape ---- *)
Definition pcall_eqb (s1 s2 : stmt) : bool :=
  match s1, s2 with
  | SStore r1 o1 n1 (ECall f1 (EConcat [ELoad a1 b1 c1; ELoad d1 e1 g1])),
    SStore r2 o2 n2 (ECall f2 (EConcat [ELoad a2 b2 c2; ELoad d2 e2 g2])) =>
      Nat.eqb r1 r2 && Nat.eqb o1 o2 && Nat.eqb n1 n2 && Nat.eqb f1 f2 && Nat.eqb a1 a2 && Nat.eqb b1 b2 && Nat.eqb c1 c2
      && Nat.eqb d1 d2 && Nat.eqb e1 e2 && Nat.eqb g1 g2
  (* a callee with a second data argument (MANTIS: the per-block tweak) *)
  | SStore r1 o1 n1 (ECall f1 (EConcat [ELoad a1 b1 c1; ELoad t1 u1 v1; ELoad d1 e1 g1])),
    SStore r2 o2 n2 (ECall f2 (EConcat [ELoad a2 b2 c2; ELoad t2 u2 v2; ELoad d2 e2 g2])) =>
      Nat.eqb r1 r2 && Nat.eqb o1 o2 && Nat.eqb n1 n2 && Nat.eqb f1 f2 && Nat.eqb a1 a2 && Nat.eqb b1 b2 && Nat.eqb c1 c2
      && Nat.eqb t1 t2 && Nat.eqb u1 u2 && Nat.eqb v1 v2 && Nat.eqb d1 d2 && Nat.eqb e1 e2 && Nat.eqb g1 g2
  | _, _ => false
  end.
Lemma pcall_eqb_eq : forall s1 s2, pcall_eqb s1 s2 = true -> s1 = s2.
Proof.
  intros s1 s2 H. unfold pcall_eqb in H.
  repeat match type of H with
         | match ?x with _ => _ end = true => destruct x; try discriminate
         end.
  all: repeat (apply andb_true_iff in H; destruct H as [H ?]).
  all: repeat match goal with E : Nat.eqb _ _ = true |- _ => apply Nat.eqb_eq in E end.
  all: subst; reflexivity.
Qed.
Fixpoint pcalls_eqb (l1 l2 : list stmt) : bool :=
  match l1, l2 with
  | [], [] => true
  | a :: l1', b :: l2' => pcall_eqb a b && pcalls_eqb l1' l2'
  | _, _ => false
  end.
Lemma pcalls_eqb_eq : forall l1 l2, pcalls_eqb l1 l2 = true -> l1 = l2.
Proof.
  induction l1 as [|a l1 IH]; intros [|b l2] H; try discriminate; [reflexivity|].
  cbn [pcalls_eqb] in H. apply andb_true_iff in H. destruct H as [H1 H2].
  rewrite (pcall_eqb_eq a b H1), (IH l2 H2). reflexivity.
Qed.

(* ---- the mixed checker.  A specification is a list of entries: [None, f] = a specification step for a call-free run,
        [Some l, _] = the run is exactly the procedure calls l (its meaning is their execution under cB) ---- *)
Section Mixed.
  Variable sizes : list nat.
  Notation callP := (callf_spec poly pxor pand pzero pone).
  Notation callB0 := (callf_spec bool xorb andb false true).
  Definition entry (B : Type) : Type := (option (list stmt) * (mem B -> mem B))%type.

  Fixpoint check_mixed (runs : list (bool * list stmt)) (eP : list (entry poly)) : bool :=
    match runs, eP with
    | [], [] => true
    | (true, run) :: runs', (Some l, _) :: eP' =>
        pcalls_eqb run l && stores_in_bounds sizes run && locals_closed run && check_mixed runs' eP'
    | (false, run) :: runs', (None, f) :: eP' =>
        check_kernel callP sizes run f && stores_in_bounds sizes run && locals_closed run &&
        forallb stmt_nocall run && check_mixed runs' eP'
    | _, _ => false
    end.

  Variable cB : nat -> list bool -> list bool.
  Definition entry_sem (e : entry bool) (m : mem bool) : mem bool :=
    match fst e with Some l => fst (execB cB l (m, [])) | None => snd e m end.
  Definition mixed_sem (eB : list (entry bool)) (m : mem bool) : mem bool := fold_left (fun acc e => entry_sem e acc) eB m.
  Definition entry_hom (a : entry poly) (b : entry bool) : Prop :=
    fst a = fst b /\ (fst a = None -> spec_hom sizes (snd a) (snd b)).

  Theorem check_mixed_sound : forall runs eP eB, Forall2 entry_hom eP eB ->
    check_mixed runs eP = true ->
    forall m loc, shaped sizes m ->
    fst (execB cB (concat (map snd runs)) (m, loc)) = mixed_sem eB m.
  Proof.
    induction runs as [|[k run] runs IH]; intros eP eB HF Hk m loc Hm.
    - destruct eP; [|discriminate]. inversion HF. reflexivity.
    - cbn [map concat snd]. rewrite execB_app. cbn [check_mixed] in Hk.
      destruct eP as [|[o fP] eP]; [destruct k; discriminate|].
      inversion HF as [|a [o' fB] eP' eB' [Ho Hf] HF']; subst. cbn [fst snd] in Ho, Hf. subst o'.
      unfold mixed_sem. cbn [fold_left]. fold (mixed_sem eB').
      destruct k, o as [l|]; try discriminate.
      + apply andb_true_iff in Hk. destruct Hk as [Hk K4]. apply andb_true_iff in Hk.
        destruct Hk as [Hk K3]. apply andb_true_iff in Hk. destruct Hk as [K1 K2].
        apply pcalls_eqb_eq in K1. subst l.
        pose proof (exec_shaped cB sizes run m loc K2 Hm) as Sh.
        pose proof (execB_closed cB run m loc K3) as Ec.
        destruct (execB cB run (m, loc)) as [m1 loc1] eqn:E1. cbn [fst] in Sh, Ec.
        rewrite (IH eP eB' HF' K4 m1 loc1 Sh). unfold entry_sem. cbn [fst]. rewrite Ec. reflexivity.
      + apply andb_true_iff in Hk. destruct Hk as [Hk K5]. apply andb_true_iff in Hk. destruct Hk as [Hk K4].
        apply andb_true_iff in Hk. destruct Hk as [Hk K3]. apply andb_true_iff in Hk. destruct Hk as [K1 K2].
        pose proof (exec_shaped cB sizes run m loc K2 Hm) as Sh.
        assert (Ec : fst (execB cB run (m, loc)) = fB m).
        { rewrite (execB_closed cB run m loc K3). rewrite (exec_nocall cB callB0 run (m, []) K4).
          apply (check_kernel_sound callP callB0 sizes run fP fB callf_spec_hom (Hf eq_refl) K1 m Hm). }
        destruct (execB cB run (m, loc)) as [m1 loc1] eqn:E1. cbn [fst] in Sh, Ec. subst m1.
        rewrite (IH eP eB' HF' K5 (fB m) loc1 Sh). reflexivity.
  Qed.

  Definition check_proc (code : list stmt) (eP : list (entry poly)) : bool := check_mixed (psplit code) eP.
  Theorem check_proc_sound : forall code eP eB, Forall2 entry_hom eP eB -> check_proc code eP = true ->
    forall m, shaped sizes m -> fst (execB cB code (m, [])) = mixed_sem eB m.
  Proof.
    intros code eP eB HF Hk m Hm. rewrite <- (psplit_concat code) at 1.
    apply (check_mixed_sound (psplit code) eP eB HF Hk m [] Hm).
  Qed.
End Mixed.

Print Assumptions check_proc_sound.
