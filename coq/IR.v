(* IR.v — a small straight-line intermediate representation for the bit-level kernels of the C code
   (S-boxes, LFSRs, cell permutations, round bodies), with ONE evaluator that is polymorphic in the carrier
   of a bit: at [bool] it is the concrete semantics (the rendering of the C subset on a little-endian host:
   unsigned fixed-width words, bitwise operators, shifts by literals, conversions, loads/stores of 1/2/4/8
   byte words at literal offsets inside named regions, lane-wise vector shifts), at GF(2) polynomials it
   is the symbolic execution used by the reflective checkers (Anf.v, IRCheck.v).
   Programs in this IR are GENERATED from the current source by translator/c2ir.py on every run. *)
From Coq Require Import List Bool NArith Arith.
Import ListNotations.

Inductive binop : Type := BAnd | BOr | BXor.

(* bit vectors are lists, least significant bit first *)
Inductive expr : Type :=
| EConst (w : nat) (v : N)                 (* w-bit constant *)
| ELocal (x : nat)                         (* local variable (parameters are the first locals) *)
| ELoad (r off nbytes : nat)               (* region r, byte offset, number of bytes; little endian *)
| ENot (a : expr)
| EBin (o : binop) (a b : expr)
| EShl (lw : nat) (a : expr) (k : nat)     (* shift left by k inside lanes of lw bits (lw = width for scalars) *)
| EShrL (lw : nat) (a : expr) (k : nat)    (* logical shift right inside lanes *)
| EShrA (lw : nat) (a : expr) (k : nat)    (* arithmetic shift right inside lanes (signed operands) *)
| ESlice (a : expr) (lo w : nat)           (* bits lo .. lo+w-1 *)
| EConcat (l : list expr)                  (* first element = least significant part *)
| EZext (w : nat) (a : expr)               (* zero-extend or truncate to w bits *)
| ESext (w : nat) (a : expr)               (* sign-extend or truncate to w bits *)
| ECall (f : nat) (a : expr)               (* opaque word function number f (a separately verified S-box) *)
| EAdd (a b : expr).                       (* addition modulo 2^width (ripple carry) *)

Inductive stmt : Type :=
| SLocal (x : nat) (e : expr)              (* x := e *)
| SStore (r off nbytes : nat) (e : expr).  (* store the low nbytes*8 bits of e, little endian *)

Section Eval.
  Variable B : Type.
  Variables (bx ba : B -> B -> B) (b0 b1 : B).
  Variable callf : nat -> list B -> list B.

  Definition bnot_ (a : B) : B := bx a b1.
  Definition bor_ (a b : B) : B := bx (bx a b) (ba a b).

  Fixpoint map2 (f : B -> B -> B) (a b : list B) : list B :=
    match a, b with
    | x :: a', y :: b' => f x y :: map2 f a' b'
    | _, _ => []
    end.

  (* ripple-carry addition, least significant bit first; the result has the length of the shorter operand *)
  Fixpoint add_bits (c : B) (a b : list B) : list B :=
    match a, b with
    | x :: a', y :: b' => bx (bx x y) c :: add_bits (bx (ba x y) (ba c (bx x y))) a' b'
    | _, _ => []
    end.

  Definition zeros_ (n : nat) : list B := repeat b0 n.
  (* take exactly n bits, padding with [p] *)
  Fixpoint take_pad (n : nat) (p : B) (l : list B) : list B :=
    match n with
    | O => []
    | S n' => match l with
              | [] => p :: take_pad n' p []
              | x :: l' => x :: take_pad n' p l'
              end
    end.
  Definition const_bits (w : nat) (v : N) : list B :=
    map (fun i => if N.testbit v (N.of_nat i) then b1 else b0) (seq 0 w).

  (* split into lanes of lw bits *)
  Fixpoint lanes (fuel lw : nat) (l : list B) : list (list B) :=
    match fuel with
    | O => []
    | S f => match l with
             | [] => []
             | _ => firstn lw l :: lanes f lw (skipn lw l)
             end
    end.
  Definition on_lanes (lw : nat) (f : list B -> list B) (l : list B) : list B :=
    if Nat.eqb lw 0 then l else concat (map f (lanes (length l) lw l)).
  Definition shl1 (k : nat) (l : list B) : list B := firstn (length l) (zeros_ k ++ l).
  Definition shrl1 (k : nat) (l : list B) : list B := take_pad (length l) b0 (skipn k l).
  Definition shra1 (k : nat) (l : list B) : list B := take_pad (length l) (last l b0) (skipn k l).

  (* memory: regions -> bytes -> 8 bits (LSB first); locals: bit vectors *)
  Definition mem : Type := list (list (list B)).
  Definition byte0_ : list B := zeros_ 8.
  Definition load (m : mem) (r off n : nat) : list B :=
    concat (map (fun i => take_pad 8 b0 (nth (off + i) (nth r m []) byte0_)) (seq 0 n)).
  Fixpoint bytes_of (n : nat) (l : list B) : list (list B) :=
    match n with
    | O => []
    | S n' => take_pad 8 b0 (firstn 8 l) :: bytes_of n' (skipn 8 l)
    end.
  Fixpoint set_nth {A} (i : nat) (x : A) (l : list A) : list A :=
    match l with
    | [] => []
    | y :: l' => match i with O => x :: l' | S i' => y :: set_nth i' x l' end
    end.
  Fixpoint store_bytes (off : nat) (bs : list (list B)) (reg : list (list B)) : list (list B) :=
    match bs with
    | [] => reg
    | b :: bs' => store_bytes (S off) bs' (set_nth off b reg)
    end.
  Definition store (m : mem) (r off n : nat) (v : list B) : mem :=
    set_nth r (store_bytes off (bytes_of n v) (nth r m [])) m.

  Fixpoint eval (m : mem) (loc : list (list B)) (e : expr) : list B :=
    match e with
    | EConst w v => const_bits w v
    | ELocal x => nth x loc []
    | ELoad r off n => load m r off n
    | ENot a => map bnot_ (eval m loc a)
    | EBin o a b =>
        map2 (match o with BAnd => ba | BOr => bor_ | BXor => bx end) (eval m loc a) (eval m loc b)
    | EShl lw a k => on_lanes lw (shl1 k) (eval m loc a)
    | EShrL lw a k => on_lanes lw (shrl1 k) (eval m loc a)
    | EShrA lw a k => on_lanes lw (shra1 k) (eval m loc a)
    | ESlice a lo w => take_pad w b0 (skipn lo (eval m loc a))
    | EConcat l => concat (map (eval m loc) l)
    | EZext w a => take_pad w b0 (eval m loc a)
    | ESext w a => let v := eval m loc a in take_pad w (last v b0) v
    | ECall f a => callf f (eval m loc a)
    | EAdd a b => add_bits b0 (eval m loc a) (eval m loc b)
    end.

  Definition exec1 (st : mem * list (list B)) (s : stmt) : mem * list (list B) :=
    let '(m, loc) := st in
    match s with
    | SLocal x e =>
        let v := eval m loc e in
        (m, if Nat.ltb x (length loc) then set_nth x v loc
            else loc ++ repeat [] (x - length loc) ++ [v])
    | SStore r off n e => (store m r off n (eval m loc e), loc)
    end.
  Definition exec (p : list stmt) (st : mem * list (list B)) : mem * list (list B) :=
    fold_left exec1 p st.
End Eval.

(* static width discipline (checked by computation on every generated program): the width of every
   expression is determined, binary operators get operands of equal width, shifts stay inside the lane,
   loads/stores stay inside their region *)
Fixpoint width (lw : list nat) (e : expr) : option nat :=
  match e with
  | EConst w _ => Some w
  | ELocal x => nth_error lw x
  | ELoad _ _ n => Some (8 * n)
  | ENot a => width lw a
  | EBin _ a b => match width lw a, width lw b with
                  | Some x, Some y => if Nat.eqb x y then Some x else None
                  | _, _ => None end
  | EShl l a k | EShrL l a k | EShrA l a k =>
      match width lw a with
      | Some x => if (Nat.ltb 0 l && Nat.eqb (x mod l) 0 && Nat.ltb k l)%bool then Some x else None
      | None => None end
  | ESlice a lo w => match width lw a with
                     | Some x => if Nat.leb (lo + w) x then Some w else None
                     | None => None end
  | EConcat l => fold_right (fun e acc => match width lw e, acc with
                                          | Some x, Some y => Some (x + y) | _, _ => None end) (Some 0) l
  | EZext w a | ESext w a => match width lw a with Some x => if Nat.ltb 0 x then Some w else None | None => None end
  | ECall _ a => width lw a
  | EAdd a b => match width lw a, width lw b with
                | Some x, Some y => if Nat.eqb x y then Some x else None
                | _, _ => None end
  end.
