(* ModelCpu.v — an abstract x86 CPU as seen through CPUID/XGETBV, the two
   probe functions of src/skinny-internal.c, and the selection cascades of
   the init functions. *)
From Coq Require Import List Bool NArith.
Import ListNotations.
Local Open Scope N_scope.

Record cpu : Type := {
  max_leaf : N;        (* CPUID.0:EAX *)
  l1_ecx : N; l1_edx : N;
  l7_ebx0 : N;         (* CPUID.(7,0):EBX *)
  l7_ebxN : N;         (* CPUID.(7,n):EBX for n <> 0 *)
  xcr0 : N;
  oor_ebx : N }.       (* EBX returned for a basic leaf above max_leaf *)

Definition regs : Type := (N * N * N * N)%type.   (* eax, ebx, ecx, edx *)

(* [sub] = None when the instruction is executed without the program having
   set ECX: the hardware then uses the ambient register content *)
Definition cpuid (c : cpu) (ambient : N) (leaf : N) (sub : option N) : regs :=
  let s := match sub with Some v => v | None => ambient end in
  if max_leaf c <? leaf then (0, oor_ebx c, 0, 0)
  else if leaf =? 0 then (max_leaf c, 0, 0, 0)
  else if leaf =? 1 then (0, 0, l1_ecx c, l1_edx c)
  else if leaf =? 7 then (0, (if s =? 0 then l7_ebx0 c else l7_ebxN c), 0, 0)
  else (0, 0, 0, 0).

Definition ebx_of (r : regs) : N := let '(_, b, _, _) := r in b.
Definition ecx_of (r : regs) : N := let '(_, _, c, _) := r in c.
Definition edx_of (r : regs) : N := let '(_, _, _, d) := r in d.
Definition eax_of (r : regs) : N := let '(a, _, _, _) := r in a.

(* which vector code was compiled in (SKINNY_VEC128_MATH / SKINNY_VEC256_MATH) *)
Record build : Type := { has128 : bool; has256 : bool }.

(* _skinny_has_vec128 *)
Definition probe128 (b : build) (c : cpu) (ambient : N) : bool :=
  has128 b && N.testbit (edx_of (cpuid c ambient 1 None)) 26.

(* _skinny_has_vec256, as repaired: leaf 0, leaf 1, XGETBV, leaf (7,0) *)
Definition probe256 (b : build) (c : cpu) (ambient : N) : bool :=
  if negb (has256 b) then false
  else if eax_of (cpuid c ambient 0 None) <? 7 then false
  else let e := ecx_of (cpuid c ambient 1 None) in
       if negb (N.testbit e 27) || negb (N.testbit e 28) then false
       else if negb (N.land (xcr0 c) 6 =? 6) then false
       else N.testbit (ebx_of (cpuid c ambient 7 (Some 0))) 5.

(* the original probe (before the fix): leaf 7 with ECX unspecified *)
Definition probe256_orig (b : build) (c : cpu) (ambient : N) : bool :=
  has256 b && N.testbit (ebx_of (cpuid c ambient 7 None)) 5.

Inductive backend : Type := BDef | BV128 | BV256.

(* skinny128: def, then vec128, then vec256; skinny64 and mantis: def, vec128 *)
Definition select (wide : bool) (b : build) (c : cpu) (ambient : N) : backend :=
  let v := if probe128 b c ambient then BV128 else BDef in
  if wide && probe256 b c ambient then BV256 else v.

(* the specification of "usable" *)
Definition sse2_usable (c : cpu) : bool := (1 <=? max_leaf c) && N.testbit (l1_edx c) 26.
Definition avx2_usable (c : cpu) : bool :=
  (7 <=? max_leaf c) && N.testbit (l1_ecx c) 27 && N.testbit (l1_ecx c) 28
  && (N.land (xcr0 c) 6 =? 6) && N.testbit (l7_ebx0 c) 5.
Definition widest (wide : bool) (b : build) (c : cpu) : backend :=
  if wide && has256 b && avx2_usable c then BV256
  else if has128 b && sse2_usable c then BV128 else BDef.

Definition rank (k : backend) : nat := match k with BDef => 0 | BV128 => 1 | BV256 => 2 end.
