(* WholeEndToEndK.v — C10 on the whole-function specification of skinny128/64_set_key (tied to the C code by the key* parts):
   at EVERY accepted length the key-schedule object after the call equals the object after the call with the same bytes
   zero-padded to the next primary size — for every key, every prior object. *)
From Coq Require Import List Bool NArith Arith Lia.
From Skinny Require Import Bits SpecSkinny IR SIR Anf IRCheck KernelSpecs KernelSpecs2 KernelHom KernelHom2 SIRCheck WholeSpecs SIRProofs Frame
                           ModelCipher ProofsSkinny WholeBridge WholeKey.
Import ListNotations.

Theorem c_set_key128_padding : forall (key hdr : list byte) (sched : list (half byte)) back rest,
  16 <= length key <= 48 -> length hdr = 8 -> length sched = 56 ->
  let n' := 16 * ((length key + 15) / 16) in
  let obj := bitsb hdr ++ concat (map (KernelSpecs2.half_bytes128 bool) sched) ++ back in
  nth 0 (w_set_key128 bool xorb false true (length key) (obj :: bitsb key :: rest)) []
  = nth 0 (w_set_key128 bool xorb false true n' (obj :: bitsb (pad_to n' key) :: rest)) [].
Proof.
  intros key hdr sched back rest Hk Hh Hs. cbv zeta.
  set (n' := 16 * ((length key + 15) / 16)).
  assert (Hn' : 16 <= n' <= 48).
  { unfold n'. pose proof (Nat.div_mod (length key + 15) 16 ltac:(lia)) as E. pose proof (Nat.mod_upper_bound (length key + 15) 16 ltac:(lia)). lia. }
  assert (Lp : length (pad_to n' key) = n') by apply pad_to_length.
  destruct (w_set_key128_model key hdr sched back 0%N rest Hk Hh Hs) as [_ E1]. cbv zeta in E1.
  destruct (w_set_key128_model (pad_to n' key) hdr sched back 0%N rest ltac:(rewrite Lp; exact Hn') Hh Hs) as [_ E2]. cbv zeta in E2.
  rewrite Lp in E2. rewrite E1, E2. cbn [nth].
  rewrite (m128_set_key_padding {| ks_rounds := 0%N; ks_sched := sched |} key (length key) Hk eq_refl). reflexivity.
Qed.

Theorem c_set_key64_padding : forall (key hdr : list byte) (sched : list (half nib)) back rest,
  8 <= length key <= 24 -> length hdr = 4 -> length sched = 40 ->
  let n' := 8 * ((length key + 7) / 8) in
  let obj := bitsb hdr ++ concat (map (KernelSpecs2.half_bytes64 bool) sched) ++ back in
  nth 0 (w_set_key64 bool xorb false true (length key) (obj :: bitsb key :: rest)) []
  = nth 0 (w_set_key64 bool xorb false true n' (obj :: bitsb (pad_to n' key) :: rest)) [].
Proof.
  intros key hdr sched back rest Hk Hh Hs. cbv zeta.
  set (n' := 8 * ((length key + 7) / 8)).
  assert (Hn' : 8 <= n' <= 24).
  { unfold n'. pose proof (Nat.div_mod (length key + 7) 8 ltac:(lia)) as E. pose proof (Nat.mod_upper_bound (length key + 7) 8 ltac:(lia)). lia. }
  assert (Lp : length (pad_to n' key) = n') by apply pad_to_length.
  destruct (w_set_key64_model key hdr sched back 0%N rest Hk Hh Hs) as [_ E1]. cbv zeta in E1.
  destruct (w_set_key64_model (pad_to n' key) hdr sched back 0%N rest ltac:(rewrite Lp; exact Hn') Hh Hs) as [_ E2]. cbv zeta in E2.
  rewrite Lp in E2. rewrite E1, E2. cbn [nth].
  rewrite (m64_set_key_padding {| ks_rounds := 0%N; ks_sched := sched |} key (length key) Hk eq_refl). reflexivity.
Qed.
Print Assumptions c_set_key128_padding.
Print Assumptions c_set_key64_padding.
