(* KernelHom2.v — the specification steps of KernelSpecs2.v (key-schedule loop bodies, MANTIS round segments):
   1. each commutes with a homomorphism of bit carriers, in particular with [peval rho : poly -> bool]
      ([spec_hom] premises of IRCheck.check_kernel_sound / check_segments);
   2. on the bool carrier the key-schedule bodies are exactly one step of ModelCipher.sched_loop;
   3. the MANTIS segments compose to one iteration of SpecMantis.fwd / bwd. *)
From Coq Require Import List Bool NArith Arith Lia.
From Skinny Require Import Bits SpecSkinny SpecMantis IR Anf IRCheck KernelSpecs KernelHom ModelCipher KernelSpecs2.
Import ListNotations.

(* ================================================================================================== *)
(* 1a. states over two cell types related by a map g: the tweakey updates                               *)
(* ================================================================================================== *)
Section StateHom2.
  Variables C1 C2 : Type.
  Variable g : C1 -> C2.
  Notation sm := (smapS C1 C2 g).
  Notation hmS := (hmapS C1 C2 g).

  Lemma hmapS_rows01 : forall s, hmS (rows01 C1 s) = rows01 C2 (sm s).
  Proof. intros s. dstate s. reflexivity. Qed.
  Lemma smapS_lfsr_rows01 : forall f1 f2, (forall x, g (f1 x) = f2 (g x)) ->
    forall s, sm (lfsr_rows01 C1 f1 s) = lfsr_rows01 C2 f2 (sm s).
  Proof. intros f1 f2 H s. dstate s. cbv [smapS rmapS lfsr_rows01 rmap]. rewrite !H. reflexivity. Qed.
  Lemma smapS_next_tk1 : forall s, sm (next_tk1 C1 s) = next_tk1 C2 (sm s).
  Proof. intros s. unfold next_tk1. apply smapS_permute_tk. Qed.
  Lemma smapS_next_tk2 : forall f1 f2, (forall x, g (f1 x) = f2 (g x)) ->
    forall s, sm (next_tk2 C1 f1 s) = next_tk2 C2 f2 (sm s).
  Proof. intros f1 f2 H s. unfold next_tk2. rewrite (smapS_lfsr_rows01 f1 f2 H), smapS_permute_tk. reflexivity. Qed.
  Lemma smapS_next_tk3 : forall f1 f2, (forall x, g (f1 x) = f2 (g x)) ->
    forall s, sm (next_tk3 C1 f1 s) = next_tk3 C2 f2 (sm s).
  Proof. intros f1 f2 H s. unfold next_tk3. rewrite (smapS_lfsr_rows01 f1 f2 H), smapS_permute_tk. reflexivity. Qed.
End StateHom2.

(* ================================================================================================== *)
(* 1b. a homomorphism h of bit carriers                                                                 *)
(* ================================================================================================== *)
Section CarrierHom2.
  Variables B1 B2 : Type.
  Variables (bx1 ba1 : B1 -> B1 -> B1) (z1 o1 : B1).
  Variables (bx2 ba2 : B2 -> B2 -> B2) (z2 o2 : B2).
  Variable h : B1 -> B2.
  Hypothesis h_bx : forall a b, h (bx1 a b) = bx2 (h a) (h b).
  Hypothesis h_ba : forall a b, h (ba1 a b) = ba2 (h a) (h b).
  Hypothesis h_z : h z1 = z2.
  Hypothesis h_o : h o1 = o2.

  Notation hb := (map (map h)).
  Notation hm := (map (map (map h))).
  Notation H8 := (h8 B1 B2 h).
  Notation H4 := (h4 B1 B2 h).
  Notation sm8 := (smapS (c8 B1) (c8 B2) (h8 B1 B2 h)).
  Notation sm4 := (smapS (c4 B1) (c4 B2) (h4 B1 B2 h)).
  Notation hm8 := (hmapS (c8 B1) (c8 B2) (h8 B1 B2 h)).
  Notation hm4 := (hmapS (c4 B1) (c4 B2) (h4 B1 B2 h)).

  Let Hcx8 := h8_cx8 B1 B2 bx1 bx2 h h_bx.
  Let Hcx4 := h4_cx4 B1 B2 bx1 bx2 h h_bx.
  Let Hst128 := state128_of_reg_homG B1 B2 z1 z2 h h_z.
  Let Hst64 := state64_of_reg_homG B1 B2 z1 z2 h h_z.
  Let Hhalf128 := half128_of_reg_homG B1 B2 z1 z2 h h_z.
  Let Hhalf64 := half64_of_reg_homG B1 B2 z1 z2 h h_z.
  Let Hnthz := nth_map_z B1 B2 z1 z2 h h_z.

  (* ---- splice, slot images, slot xor ---- *)
  Lemma hb_splice : forall bytes off new,
    hb (splice B1 bytes off new) = splice B2 (hb bytes) off (hb new).
  Proof.
    intros bytes off new. unfold splice. rewrite !map_app, map_length, firstn_map, skipn_map. reflexivity.
  Qed.
  Lemma half_bytes128_homG : forall k,
    hb (KernelSpecs2.half_bytes128 B1 k) = KernelSpecs2.half_bytes128 B2 (hm8 k).
  Proof.
    intros [k0 k1]. drow k0. drow k1.
    cbv [KernelSpecs2.half_bytes128 hmapS rmapS fst snd row_list app map].
    rewrite <- !map_bits_of_c8. reflexivity.
  Qed.
  Lemma half_bytes64_homG : forall k,
    hb (KernelSpecs2.half_bytes64 B1 k) = KernelSpecs2.half_bytes64 B2 (hm4 k).
  Proof.
    intros [k0 k1]. drow k0. drow k1.
    cbv [KernelSpecs2.half_bytes64 hmapS rmapS fst snd row_bytes64 app map].
    rewrite <- !h8_c8join, <- !map_bits_of_c8. reflexivity.
  Qed.
  Lemma hxor8_homG : forall a b, hm8 (hxor8 B1 bx1 a b) = hxor8 B2 bx2 (hm8 a) (hm8 b).
  Proof.
    intros [a0 a1] [d0 d1]. drow a0. drow a1. drow d0. drow d1.
    cbv [hxor8 hmapS rmapS rx fst snd]. rewrite !Hcx8. reflexivity.
  Qed.
  Lemma hxor4_homG : forall a b, hm4 (hxor4 B1 bx1 a b) = hxor4 B2 bx2 (hm4 a) (hm4 b).
  Proof.
    intros [a0 a1] [d0 d1]. drow a0. drow a1. drow d0. drow d1.
    cbv [hxor4 hmapS rmapS rx fst snd]. rewrite !Hcx4. reflexivity.
  Qed.

  (* ---- xor_tk1 / set_tk2 / set_tk3 bodies ---- *)
  Lemma k128_xor_body_homG : forall n1 n2, (forall s, sm8 (n1 s) = n2 (sm8 s)) ->
    forall m, hm (k128_xor_body B1 bx1 z1 n1 m) = k128_xor_body B2 bx2 z2 n2 (hm m).
  Proof.
    intros n1 n2 Hn m. unfold k128_xor_body. cbv zeta. cbn [map].
    rewrite !reg_homG, hb_splice, half_bytes128_homG, hxor8_homG, hmapS_rows01, reg_of_state128_homG, Hn.
    rewrite Hst128, skipn_map, Hhalf128. reflexivity.
  Qed.
  Lemma k64_xor_body_homG : forall n1 n2, (forall s, sm4 (n1 s) = n2 (sm4 s)) ->
    forall m, hm (k64_xor_body B1 bx1 z1 n1 m) = k64_xor_body B2 bx2 z2 n2 (hm m).
  Proof.
    intros n1 n2 Hn m. unfold k64_xor_body. cbv zeta. cbn [map].
    rewrite !reg_homG, hb_splice, half_bytes64_homG, hxor4_homG, hmapS_rows01, reg_of_state64_homG, Hn.
    rewrite Hst64, skipn_map, Hhalf64. reflexivity.
  Qed.

  Lemma k128_xor_tk1_body_homG : forall m,
    hm (k128_xor_tk1_body B1 bx1 z1 m) = k128_xor_tk1_body B2 bx2 z2 (hm m).
  Proof. apply k128_xor_body_homG. apply smapS_next_tk1. Qed.
  Lemma k128_tk2_body_homG : forall m,
    hm (k128_tk2_body B1 bx1 z1 m) = k128_tk2_body B2 bx2 z2 (hm m).
  Proof. apply k128_xor_body_homG. apply smapS_next_tk2. exact (h8_lfsr2 B1 B2 bx1 bx2 h h_bx). Qed.
  Lemma k128_tk3_body_homG : forall m,
    hm (k128_tk3_body B1 bx1 z1 m) = k128_tk3_body B2 bx2 z2 (hm m).
  Proof. apply k128_xor_body_homG. apply smapS_next_tk3. exact (h8_lfsr3 B1 B2 bx1 bx2 h h_bx). Qed.
  Lemma k64_xor_tk1_body_homG : forall m,
    hm (k64_xor_tk1_body B1 bx1 z1 m) = k64_xor_tk1_body B2 bx2 z2 (hm m).
  Proof. apply k64_xor_body_homG. apply smapS_next_tk1. Qed.
  Lemma k64_tk2_body_homG : forall m,
    hm (k64_tk2_body B1 bx1 z1 m) = k64_tk2_body B2 bx2 z2 (hm m).
  Proof. apply k64_xor_body_homG. apply smapS_next_tk2. exact (h4_lfsr2 B1 B2 bx1 bx2 h h_bx). Qed.
  Lemma k64_tk3_body_homG : forall m,
    hm (k64_tk3_body B1 bx1 z1 m) = k64_tk3_body B2 bx2 z2 (hm m).
  Proof. apply k64_xor_body_homG. apply smapS_next_tk3. exact (h4_lfsr3 B1 B2 bx1 bx2 h h_bx). Qed.

  (* ---- set_tk1 bodies ---- *)
  Lemma rc_next_bits_homG : forall l,
    map h (rc_next_bits B1 bx1 z1 o1 l) = rc_next_bits B2 bx2 z2 o2 (map h l).
  Proof.
    intros l. unfold rc_next_bits. cbn [map]. rewrite !Hnthz, !h_bx, h_o, !h_z. reflexivity.
  Qed.

  Lemma k128_tk1_body_homG : forall tweaked m,
    hm (k128_tk1_body B1 bx1 z1 o1 tweaked m) = k128_tk1_body B2 bx2 z2 o2 tweaked (hm m).
  Proof.
    intros tweaked m. unfold k128_tk1_body.
    rewrite !reg_homG, nth_hb, <- rc_next_bits_homG, <- Hst128.
    generalize (state128_of_reg B1 z1 (reg B1 m 0)).
    generalize (rc_next_bits B1 bx1 z1 o1 (nth 0 (reg B1 m 2) [])).
    generalize (reg B1 m 1). intros bytes r s. dstate s.
    cbn [rows01 smapS rmapS]. cbv zeta. cbn [map]. f_equal; [|f_equal].
    - rewrite reg_of_state128_homG, smapS_next_tk1. reflexivity.
    - rewrite hb_splice, half_bytes128_homG. cbv [hmapS rmapS fst snd]. rewrite !Hcx8.
      assert (Hc0 : H8 (z1, z1, z1, z1, nth 3 r z1, nth 2 r z1, nth 1 r z1, nth 0 r z1) =
                    (z2, z2, z2, z2, nth 3 (map h r) z2, nth 2 (map h r) z2, nth 1 (map h r) z2, nth 0 (map h r) z2)).
      { cbv [h8]. rewrite !Hnthz, !h_z. reflexivity. }
      assert (Hc1 : H8 (z1, z1, z1, z1, z1, z1, nth 5 r z1, nth 4 r z1) =
                    (z2, z2, z2, z2, z2, z2, nth 5 (map h r) z2, nth 4 (map h r) z2)).
      { cbv [h8]. rewrite !Hnthz, !h_z. reflexivity. }
      rewrite Hc0, Hc1. destruct tweaked; [|reflexivity].
      rewrite Hcx8. unfold nib8. rewrite (h8_c8nib B1 B2 z1 o1 z2 o2 h h_z h_o). reflexivity.
  Qed.

  Lemma k64_tk1_body_homG : forall tweaked m,
    hm (k64_tk1_body B1 bx1 z1 o1 tweaked m) = k64_tk1_body B2 bx2 z2 o2 tweaked (hm m).
  Proof.
    intros tweaked m. unfold k64_tk1_body.
    rewrite !reg_homG, nth_hb, <- rc_next_bits_homG, <- Hst64.
    generalize (state64_of_reg B1 z1 (reg B1 m 0)).
    generalize (rc_next_bits B1 bx1 z1 o1 (nth 0 (reg B1 m 2) [])).
    generalize (reg B1 m 1). intros bytes r s. dstate s.
    cbn [rows01 smapS rmapS]. cbv zeta. cbn [map]. f_equal; [|f_equal].
    - rewrite reg_of_state64_homG, smapS_next_tk1. reflexivity.
    - rewrite hb_splice, half_bytes64_homG. cbv [hmapS rmapS fst snd]. rewrite !Hcx4.
      assert (Hc0 : H4 (nth 3 r z1, nth 2 r z1, nth 1 r z1, nth 0 r z1) =
                    (nth 3 (map h r) z2, nth 2 (map h r) z2, nth 1 (map h r) z2, nth 0 (map h r) z2)).
      { cbv [h4]. rewrite !Hnthz. reflexivity. }
      assert (Hc1 : H4 (z1, z1, nth 5 r z1, nth 4 r z1) =
                    (z2, z2, nth 5 (map h r) z2, nth 4 (map h r) z2)).
      { cbv [h4]. rewrite !Hnthz, !h_z. reflexivity. }
      rewrite Hc0, Hc1. destruct tweaked; [|reflexivity].
      rewrite Hcx4. unfold nib4. rewrite (h4_c4nib B1 B2 z1 o1 z2 o2 h h_z h_o). reflexivity.
  Qed.

  (* ---- MANTIS segments ---- *)
  Lemma km_h_homG : forall m, hm (km_h B1 z1 m) = km_h B2 z2 (hm m).
  Proof.
    intros m. unfold km_h, mk4. cbn [map].
    rewrite !reg_homG, reg_of_state64_homG, smapS_h_perm, Hst64. reflexivity.
  Qed.
  Lemma km_h_inv_homG : forall m, hm (km_h_inv B1 z1 m) = km_h_inv B2 z2 (hm m).
  Proof.
    intros m. unfold km_h_inv, mk4. cbn [map].
    rewrite !reg_homG, reg_of_state64_homG, smapS_h_perm_inv, Hst64. reflexivity.
  Qed.
  Lemma km_sub_homG : forall m, hm (km_sub B1 bx1 ba1 z1 o1 m) = km_sub B2 bx2 ba2 z2 o2 (hm m).
  Proof.
    intros m. unfold km_sub, mk4. cbn [map].
    rewrite !reg_homG, reg_of_state64_homG.
    rewrite (smapS_smap _ _ H4 (Sb0_ B1 bx1 ba1 o1) (Sb0_ B2 bx2 ba2 o2)
               (h4_Sb0 B1 B2 bx1 ba1 o1 bx2 ba2 o2 h h_bx h_ba h_o)).
    rewrite Hst64. reflexivity.
  Qed.
  Lemma km_fwd_linear_homG : forall m, hm (km_fwd_linear B1 bx1 z1 m) = km_fwd_linear B2 bx2 z2 (hm m).
  Proof.
    intros m. unfold km_fwd_linear, mk4. cbn [map].
    rewrite !reg_homG, reg_of_state64_homG.
    rewrite (smapS_mix _ _ H4 _ _ Hcx4), smapS_permute_cells, !(smapS_sx _ _ H4 _ _ Hcx4), !Hst64.
    reflexivity.
  Qed.
  Lemma km_bwd_linear_homG : forall m, hm (km_bwd_linear B1 bx1 z1 m) = km_bwd_linear B2 bx2 z2 (hm m).
  Proof.
    intros m. unfold km_bwd_linear, mk4. cbn [map].
    rewrite !reg_homG, reg_of_state64_homG.
    rewrite !(smapS_sx _ _ H4 _ _ Hcx4), smapS_permute_cells_inv, (smapS_mix _ _ H4 _ _ Hcx4), !Hst64.
    reflexivity.
  Qed.
End CarrierHom2.

(* ================================================================================================== *)
(* 1c. the instance h = peval rho : poly -> bool                                                        *)
(* ================================================================================================== *)
Lemma k128_xor_tk1_body_hom : forall sizes,
  spec_hom sizes (k128_xor_tk1_body poly pxor pzero) (k128_xor_tk1_body bool xorb false).
Proof. hom_by k128_xor_tk1_body_homG. Qed.
Lemma k128_tk2_body_hom : forall sizes,
  spec_hom sizes (k128_tk2_body poly pxor pzero) (k128_tk2_body bool xorb false).
Proof. hom_by k128_tk2_body_homG. Qed.
Lemma k128_tk3_body_hom : forall sizes,
  spec_hom sizes (k128_tk3_body poly pxor pzero) (k128_tk3_body bool xorb false).
Proof. hom_by k128_tk3_body_homG. Qed.
Lemma k64_xor_tk1_body_hom : forall sizes,
  spec_hom sizes (k64_xor_tk1_body poly pxor pzero) (k64_xor_tk1_body bool xorb false).
Proof. hom_by k64_xor_tk1_body_homG. Qed.
Lemma k64_tk2_body_hom : forall sizes,
  spec_hom sizes (k64_tk2_body poly pxor pzero) (k64_tk2_body bool xorb false).
Proof. hom_by k64_tk2_body_homG. Qed.
Lemma k64_tk3_body_hom : forall sizes,
  spec_hom sizes (k64_tk3_body poly pxor pzero) (k64_tk3_body bool xorb false).
Proof. hom_by k64_tk3_body_homG. Qed.
Lemma k128_tk1_body_hom : forall tweaked sizes,
  spec_hom sizes (k128_tk1_body poly pxor pzero pone tweaked) (k128_tk1_body bool xorb false true tweaked).
Proof. intros tweaked. hom_by k128_tk1_body_homG. Qed.
Lemma k64_tk1_body_hom : forall tweaked sizes,
  spec_hom sizes (k64_tk1_body poly pxor pzero pone tweaked) (k64_tk1_body bool xorb false true tweaked).
Proof. intros tweaked. hom_by k64_tk1_body_homG. Qed.
Lemma km_h_hom : forall sizes, spec_hom sizes (km_h poly pzero) (km_h bool false).
Proof. hom_by km_h_homG. Qed.
Lemma km_h_inv_hom : forall sizes, spec_hom sizes (km_h_inv poly pzero) (km_h_inv bool false).
Proof. hom_by km_h_inv_homG. Qed.
Lemma km_sub_hom : forall sizes,
  spec_hom sizes (km_sub poly pxor pand pzero pone) (km_sub bool xorb andb false true).
Proof. hom_by km_sub_homG. Qed.
Lemma km_fwd_linear_hom : forall sizes,
  spec_hom sizes (km_fwd_linear poly pxor pzero) (km_fwd_linear bool xorb false).
Proof. hom_by km_fwd_linear_homG. Qed.
Lemma km_bwd_linear_hom : forall sizes,
  spec_hom sizes (km_bwd_linear poly pxor pzero) (km_bwd_linear bool xorb false).
Proof. hom_by km_bwd_linear_homG. Qed.

(* ================================================================================================== *)
(* 2. the key-schedule bodies are steps of ModelCipher.sched_loop                                       *)
(* ================================================================================================== *)
Definition rc_of_bits (l : list bool) : rc6 :=
  (nth 5 l false, nth 4 l false, nth 3 l false, nth 2 l false, nth 1 l false, nth 0 l false).
Definition bits_of_rc (r : rc6) : list bool :=
  let '(r5, r4, r3, r2, r1, r0) := r in [r0; r1; r2; r3; r4; r5; false; false].

Lemma rc_of_bits_of_rc : forall r, rc_of_bits (bits_of_rc r) = r.
Proof. intros [[[[[r5 r4] r3] r2] r1] r0]. reflexivity. Qed.

Lemma rc_next_bits_spec : forall r : rc6,
  rc_next_bits bool xorb false true (bits_of_rc r) = bits_of_rc (rc_next r).
Proof.
  intros [[[[[r5 r4] r3] r2] r1] r0]. cbv [rc_next_bits bits_of_rc rc_next nth].
  rewrite xorb_true_r. reflexivity.
Qed.

(* ---- lists: reading and replacing a slot in the middle of a region (any carrier) ---- *)
Section Slots.
  Variable B : Type.
  Variables (bx : B -> B -> B) (b0 : B).

  Lemma skipn_app_len : forall {A} (l1 l2 : list A), skipn (length l1) (l1 ++ l2) = l2.
  Proof. intros A l1 l2. induction l1 as [|x l1 IH]; [reflexivity|exact IH]. Qed.
  Lemma firstn_app_len : forall {A} (l1 l2 : list A), firstn (length l1) (l1 ++ l2) = l1.
  Proof. intros A l1 l2. induction l1 as [|x l1 IH]; [reflexivity|]. cbn. rewrite IH. reflexivity. Qed.
  Lemma skipn_plus : forall {A} a b (l : list A), skipn (a + b) l = skipn b (skipn a l).
  Proof.
    intros A a b. induction a as [|a IH]; intros l; [reflexivity|].
    destruct l as [|x l]; cbn; [destruct b; reflexivity|apply IH].
  Qed.
  Lemma splice_mid : forall (pre old post new : list (list B)) off,
    length pre = off -> length old = length new ->
    splice B (pre ++ old ++ post) off new = pre ++ new ++ post.
  Proof.
    intros pre old post new off <- Hlen. unfold splice.
    rewrite firstn_app_len, skipn_plus, skipn_app_len, <- Hlen, skipn_app_len. reflexivity.
  Qed.
  Lemma skipn_pre : forall (pre rest : list (list B)) off, length pre = off -> skipn off (pre ++ rest) = rest.
  Proof. intros pre rest off <-. apply skipn_app_len. Qed.

  Lemma half_bytes128_length : forall k, length (KernelSpecs2.half_bytes128 B k) = 8.
  Proof. intros [k0 k1]. drow k0. drow k1. reflexivity. Qed.
  Lemma half_bytes64_length : forall k, length (KernelSpecs2.half_bytes64 B k) = 4.
  Proof. intros [k0 k1]. drow k0. drow k1. reflexivity. Qed.
  Lemma half128_of_reg_half_bytes128 : forall k post,
    half128_of_reg B b0 (KernelSpecs2.half_bytes128 B k ++ post) = k.
  Proof.
    intros [k0 k1] post. drow k0. drow k1.
    cbv [half128_of_reg KernelSpecs2.half_bytes128 fst snd row_list app map nth].
    rewrite !c8_of_bits_of_c8. reflexivity.
  Qed.
  Lemma half64_of_reg_half_bytes64 : forall k post,
    half64_of_reg B b0 (KernelSpecs2.half_bytes64 B k ++ post) = k.
  Proof.
    intros [k0 k1] post. drow k0. drow k1.
    cbv [half64_of_reg KernelSpecs2.half_bytes64 fst snd row_bytes64 app map nth].
    rewrite !c8_of_bits_of_c8, !c8hi_joinG, !c8lo_joinG. reflexivity.
  Qed.

  Lemma reg_cons3_0 : forall (a b c : list (list B)), reg B [a; b; c] 0 = a.  Proof. reflexivity. Qed.
  Lemma reg_cons3_1 : forall (a b c : list (list B)), reg B [a; b; c] 1 = b.  Proof. reflexivity. Qed.
  Lemma reg_cons3_2 : forall (a b c : list (list B)), reg B [a; b; c] 2 = c.  Proof. reflexivity. Qed.

  (* one step of the xor_tk1 / set_tk2 / set_tk3 loops, any carrier, any tweakey update *)
  Lemma k128_xor_body_step : forall next tk slot pre post, length pre = 8 ->
    k128_xor_body B bx b0 next [reg_of_state128 B tk; pre ++ KernelSpecs2.half_bytes128 B slot ++ post]
    = [reg_of_state128 B (next tk);
       pre ++ KernelSpecs2.half_bytes128 B (hxor8 B bx slot (rows01 (c8 B) tk)) ++ post].
  Proof.
    intros next tk slot pre post Hpre. unfold k128_xor_body. cbv zeta.
    rewrite reg_cons2_0, reg_cons2_1, state128_of_reg_of_state128, (skipn_pre _ _ _ Hpre).
    rewrite half128_of_reg_half_bytes128, (splice_mid pre _ post _ 8 Hpre); [reflexivity|].
    rewrite !half_bytes128_length. reflexivity.
  Qed.
  Lemma k64_xor_body_step : forall next tk slot pre post, length pre = 4 ->
    k64_xor_body B bx b0 next [reg_of_state64 B tk; pre ++ KernelSpecs2.half_bytes64 B slot ++ post]
    = [reg_of_state64 B (next tk);
       pre ++ KernelSpecs2.half_bytes64 B (hxor4 B bx slot (rows01 (c4 B) tk)) ++ post].
  Proof.
    intros next tk slot pre post Hpre. unfold k64_xor_body. cbv zeta.
    rewrite reg_cons2_0, reg_cons2_1, state64_of_reg_of_state64, (skipn_pre _ _ _ Hpre).
    rewrite half64_of_reg_half_bytes64, (splice_mid pre _ post _ 4 Hpre); [reflexivity|].
    rewrite !half_bytes64_length. reflexivity.
  Qed.
End Slots.

(* ---- SKINNY-128, bool carrier ---- *)
Lemma k128_xor_tk1_body_step : forall tk slot pre post, length pre = 8 ->
  k128_xor_tk1_body bool xorb false
    [reg_of_state128 bool tk; pre ++ KernelSpecs2.half_bytes128 bool slot ++ post]
  = [reg_of_state128 bool (next_tk1 byte tk);
     pre ++ KernelSpecs2.half_bytes128 bool (hxor byte bxor8 slot (rows01 byte tk)) ++ post].
Proof. intros tk slot pre post H. exact (k128_xor_body_step bool xorb false _ tk slot pre post H). Qed.
Lemma k128_tk2_body_step : forall tk slot pre post, length pre = 8 ->
  k128_tk2_body bool xorb false
    [reg_of_state128 bool tk; pre ++ KernelSpecs2.half_bytes128 bool slot ++ post]
  = [reg_of_state128 bool (next_tk2 byte (lfsr2_8 bool xorb) tk);
     pre ++ KernelSpecs2.half_bytes128 bool (hxor byte bxor8 slot (rows01 byte tk)) ++ post].
Proof. intros tk slot pre post H. exact (k128_xor_body_step bool xorb false _ tk slot pre post H). Qed.
Lemma k128_tk3_body_step : forall tk slot pre post, length pre = 8 ->
  k128_tk3_body bool xorb false
    [reg_of_state128 bool tk; pre ++ KernelSpecs2.half_bytes128 bool slot ++ post]
  = [reg_of_state128 bool (next_tk3 byte (lfsr3_8 bool xorb) tk);
     pre ++ KernelSpecs2.half_bytes128 bool (hxor byte bxor8 slot (rows01 byte tk)) ++ post].
Proof. intros tk slot pre post H. exact (k128_xor_body_step bool xorb false _ tk slot pre post H). Qed.

Lemma bconst_bool : forall b, bconst bool false true b = b.
Proof. intros []; reflexivity. Qed.

Lemma k128_tk1_body_step : forall tweaked tk slot pre post r, length pre = 8 ->
  k128_tk1_body bool xorb false true tweaked
    [reg_of_state128 bool tk; pre ++ KernelSpecs2.half_bytes128 bool slot ++ post; [bits_of_rc r]]
  = [reg_of_state128 bool (next_tk1 byte tk);
     pre ++ KernelSpecs2.half_bytes128 bool
              (hxor byte bxor8 (rows01 byte tk) (const_half byte cnib8 byte0 tweaked (rc_next r))) ++ post;
     [bits_of_rc (rc_next r)]].
Proof.
  intros tweaked tk slot pre post r Hpre. unfold k128_tk1_body.
  rewrite reg_cons3_0, reg_cons3_1, reg_cons3_2, state128_of_reg_of_state128.
  change (nth 0 [bits_of_rc r] []) with (bits_of_rc r). rewrite rc_next_bits_spec.
  generalize (rc_next r). intros [[[[[r5 r4] r3] r2] r1] r0]. dstate tk.
  cbv zeta. cbv [rows01 bits_of_rc nth].
  rewrite (splice_mid bool pre _ post _ 8 Hpre) by (rewrite !half_bytes128_length; reflexivity).
  f_equal. f_equal. f_equal. f_equal.
  cbv [hxor const_half rx fst snd]. rewrite !bxor8_0_r. unfold c8nib. rewrite !bconst_bool.
  destruct tweaked; [reflexivity|]. rewrite bxor8_0_r. reflexivity.
Qed.

(* ---- SKINNY-64, bool carrier ---- *)
Lemma k64_xor_tk1_body_step : forall tk slot pre post, length pre = 4 ->
  k64_xor_tk1_body bool xorb false
    [reg_of_state64 bool tk; pre ++ KernelSpecs2.half_bytes64 bool slot ++ post]
  = [reg_of_state64 bool (next_tk1 nib tk);
     pre ++ KernelSpecs2.half_bytes64 bool (hxor nib bxor4 slot (rows01 nib tk)) ++ post].
Proof. intros tk slot pre post H. exact (k64_xor_body_step bool xorb false _ tk slot pre post H). Qed.
Lemma k64_tk2_body_step : forall tk slot pre post, length pre = 4 ->
  k64_tk2_body bool xorb false
    [reg_of_state64 bool tk; pre ++ KernelSpecs2.half_bytes64 bool slot ++ post]
  = [reg_of_state64 bool (next_tk2 nib (lfsr2_4 bool xorb) tk);
     pre ++ KernelSpecs2.half_bytes64 bool (hxor nib bxor4 slot (rows01 nib tk)) ++ post].
Proof. intros tk slot pre post H. exact (k64_xor_body_step bool xorb false _ tk slot pre post H). Qed.
Lemma k64_tk3_body_step : forall tk slot pre post, length pre = 4 ->
  k64_tk3_body bool xorb false
    [reg_of_state64 bool tk; pre ++ KernelSpecs2.half_bytes64 bool slot ++ post]
  = [reg_of_state64 bool (next_tk3 nib (lfsr3_4 bool xorb) tk);
     pre ++ KernelSpecs2.half_bytes64 bool (hxor nib bxor4 slot (rows01 nib tk)) ++ post].
Proof. intros tk slot pre post H. exact (k64_xor_body_step bool xorb false _ tk slot pre post H). Qed.

Lemma k64_tk1_body_step : forall tweaked tk slot pre post r, length pre = 4 ->
  k64_tk1_body bool xorb false true tweaked
    [reg_of_state64 bool tk; pre ++ KernelSpecs2.half_bytes64 bool slot ++ post; [bits_of_rc r]]
  = [reg_of_state64 bool (next_tk1 nib tk);
     pre ++ KernelSpecs2.half_bytes64 bool
              (hxor nib bxor4 (rows01 nib tk) (const_half nib cnib4 nib0 tweaked (rc_next r))) ++ post;
     [bits_of_rc (rc_next r)]].
Proof.
  intros tweaked tk slot pre post r Hpre. unfold k64_tk1_body.
  rewrite reg_cons3_0, reg_cons3_1, reg_cons3_2, state64_of_reg_of_state64.
  change (nth 0 [bits_of_rc r] []) with (bits_of_rc r). rewrite rc_next_bits_spec.
  generalize (rc_next r). intros [[[[[r5 r4] r3] r2] r1] r0]. dstate tk.
  cbv zeta. cbv [rows01 bits_of_rc nth].
  rewrite (splice_mid bool pre _ post _ 4 Hpre) by (rewrite !half_bytes64_length; reflexivity).
  f_equal. f_equal. f_equal. f_equal.
  cbv [hxor const_half rx fst snd]. rewrite !bxor4_0_r. unfold c4nib. rewrite !bconst_bool.
  destruct tweaked; [reflexivity|]. rewrite bxor4_0_r. reflexivity.
Qed.

(* the shape of one iteration of the model's loop, for reference: the [_step] lemmas above compute exactly
   [upd e (rows01 tk) (rc_next r)], [next tk] and [rc_next r] for the four [upd] / [next] of ModelCipher *)
Lemma sched_loop_step : forall C n upd next tk r e rest,
  sched_loop C (S n) upd next tk r (e :: rest)
  = upd e (rows01 C tk) (rc_next r) :: sched_loop C n upd next (next tk) (rc_next r) rest.
Proof. reflexivity. Qed.

(* ================================================================================================== *)
(* 3. the MANTIS segments compose to one iteration of SpecMantis.fwd / bwd                              *)
(* ================================================================================================== *)
Section ComposeMantis.
  Variable B : Type.
  Variables (bx ba : B -> B -> B) (b0 b1 : B).
  Notation rg := (reg_of_state64 B).
  Notation C := (c4 B).
  Notation cx := (cx4 B bx).

  Lemma reg_mk4_0 : forall a b c d : list (list B), reg B (mk4 B a b c d) 0 = a.  Proof. reflexivity. Qed.
  Lemma reg_mk4_1 : forall a b c d : list (list B), reg B (mk4 B a b c d) 1 = b.  Proof. reflexivity. Qed.
  Lemma reg_mk4_2 : forall a b c d : list (list B), reg B (mk4 B a b c d) 2 = c.  Proof. reflexivity. Qed.
  Lemma reg_mk4_3 : forall a b c d : list (list B), reg B (mk4 B a b c d) 3 = d.  Proof. reflexivity. Qed.

  Lemma km_fwd_is_specG : forall T x rcs k,
    km_fwd_linear B bx b0 (km_sub B bx ba b0 b1 (km_h B b0 [rg T; rg x; rg rcs; rg k]))
    = [rg (h_perm C T);
       rg (mix C cx (permute_cells C (sx C cx (sx C cx (smap C (Sb0 B bx ba b1) x) rcs)
                                                (sx C cx k (h_perm C T)))));
       rg rcs; rg k].
  Proof.
    intros T x rcs k. change [rg T; rg x; rg rcs; rg k] with (mk4 B (rg T) (rg x) (rg rcs) (rg k)).
    unfold km_fwd_linear, km_sub, km_h.
    rewrite ?reg_mk4_0, ?reg_mk4_1, ?reg_mk4_2, ?reg_mk4_3, !state64_of_reg_of_state64. reflexivity.
  Qed.
  Lemma km_bwd_is_specG : forall T x rcs k,
    km_h_inv B b0 (km_sub B bx ba b0 b1 (km_bwd_linear B bx b0 [rg T; rg x; rg rcs; rg k]))
    = [rg (h_perm_inv C T);
       rg (smap C (Sb0 B bx ba b1)
             (sx C cx (sx C cx (permute_cells_inv C (mix C cx x)) (sx C cx k T)) rcs));
       rg rcs; rg k].
  Proof.
    intros T x rcs k. change [rg T; rg x; rg rcs; rg k] with (mk4 B (rg T) (rg x) (rg rcs) (rg k)).
    unfold km_h_inv, km_sub, km_bwd_linear.
    rewrite ?reg_mk4_0, ?reg_mk4_1, ?reg_mk4_2, ?reg_mk4_3, !state64_of_reg_of_state64. reflexivity.
  Qed.
End ComposeMantis.

Lemma km_fwd_is_spec : forall T x rcs k,
  km_fwd_linear bool xorb false (km_sub bool xorb andb false true (km_h bool false
     [reg_of_state64 bool T; reg_of_state64 bool x; reg_of_state64 bool rcs; reg_of_state64 bool k]))
  = [reg_of_state64 bool (h_perm nib T);
     reg_of_state64 bool
       (mix nib bxor4 (permute_cells nib
          (sx nib bxor4 (sx nib bxor4 (smap nib (Sb0 bool xorb andb true) x) rcs)
                        (sx nib bxor4 k (h_perm nib T)))));
     reg_of_state64 bool rcs; reg_of_state64 bool k].
Proof. exact (km_fwd_is_specG bool xorb andb false true). Qed.
Lemma km_bwd_is_spec : forall T x rcs k,
  km_h_inv bool false (km_sub bool xorb andb false true (km_bwd_linear bool xorb false
     [reg_of_state64 bool T; reg_of_state64 bool x; reg_of_state64 bool rcs; reg_of_state64 bool k]))
  = [reg_of_state64 bool (h_perm_inv nib T);
     reg_of_state64 bool
       (smap nib (Sb0 bool xorb andb true)
          (sx nib bxor4 (sx nib bxor4 (permute_cells_inv nib (mix nib bxor4 x)) (sx nib bxor4 k T)) rcs));
     reg_of_state64 bool rcs; reg_of_state64 bool k].
Proof. exact (km_bwd_is_specG bool xorb andb false true). Qed.

(* with the table entry equal to the specification's constant, the segments are one unfolding of fwd / bwd *)
Lemma km_fwd_is_fwd_step : forall rc rest k T x,
  fwd nib bxor4 cnib4 (Sb0 bool xorb andb true) (rc :: rest) k T x =
  let m' := km_fwd_linear bool xorb false (km_sub bool xorb andb false true (km_h bool false
              [reg_of_state64 bool T; reg_of_state64 bool x;
               reg_of_state64 bool (const_state nib cnib4 rc); reg_of_state64 bool k])) in
  fwd nib bxor4 cnib4 (Sb0 bool xorb andb true) rest k
      (state64_of_reg bool false (reg bool m' 0)) (state64_of_reg bool false (reg bool m' 1)).
Proof.
  intros rc rest k T x. cbv zeta. rewrite km_fwd_is_spec.
  change (reg bool [?a; ?b; ?c; ?d] 0) with a. change (reg bool [?a; ?b; ?c; ?d] 1) with b.
  rewrite !state64_of_reg_of_state64. reflexivity.
Qed.
Lemma km_bwd_is_bwd_step : forall rc rest k T x,
  bwd nib bxor4 cnib4 (Sb0 bool xorb andb true) (rc :: rest) k T x =
  let m' := km_h_inv bool false (km_sub bool xorb andb false true (km_bwd_linear bool xorb false
              [reg_of_state64 bool T; reg_of_state64 bool x;
               reg_of_state64 bool (const_state nib cnib4 rc); reg_of_state64 bool k])) in
  bwd nib bxor4 cnib4 (Sb0 bool xorb andb true) rest k
      (state64_of_reg bool false (reg bool m' 0)) (state64_of_reg bool false (reg bool m' 1)).
Proof.
  intros rc rest k T x. cbv zeta. rewrite km_bwd_is_spec.
  change (reg bool [?a; ?b; ?c; ?d] 0) with a. change (reg bool [?a; ?b; ?c; ?d] 1) with b.
  rewrite !state64_of_reg_of_state64. reflexivity.
Qed.

Print Assumptions k128_xor_tk1_body_hom.
Print Assumptions k128_tk2_body_hom.
Print Assumptions k128_tk3_body_hom.
Print Assumptions k64_xor_tk1_body_hom.
Print Assumptions k64_tk2_body_hom.
Print Assumptions k64_tk3_body_hom.
Print Assumptions k128_tk1_body_hom.
Print Assumptions k64_tk1_body_hom.
Print Assumptions km_h_hom.
Print Assumptions km_h_inv_hom.
Print Assumptions km_sub_hom.
Print Assumptions km_fwd_linear_hom.
Print Assumptions km_bwd_linear_hom.
Print Assumptions rc_next_bits_spec.
Print Assumptions k128_xor_tk1_body_step.
Print Assumptions k128_tk2_body_step.
Print Assumptions k128_tk3_body_step.
Print Assumptions k128_tk1_body_step.
Print Assumptions k64_xor_tk1_body_step.
Print Assumptions k64_tk2_body_step.
Print Assumptions k64_tk3_body_step.
Print Assumptions k64_tk1_body_step.
Print Assumptions km_fwd_is_spec.
Print Assumptions km_bwd_is_spec.
Print Assumptions km_fwd_is_fwd_step.
Print Assumptions km_bwd_is_bwd_step.
