(* WholePar.v — the WHOLE parallel-ECB functions (skinny128/skinny64_parallel_ecb_encrypt / _decrypt of src/*-parallel.c) as
   translated into SIR.v with BOTH callees kept as procedure calls (WholeProc.v): the vector function of the selected back
   end on a whole group of parallel_size bytes, the single-block function on a left-over block.  The flattened function at a
   public configuration (request size, parallel size, vtable present or not) must be exactly the expected list of calls —
   groups first, then single blocks, at consecutive offsets —, and under any interpretation of the calls that meets the
   contracts "block function = E" and "vector function = E on every block of the group" the output is E applied block by
   block: property C07 for all data at that configuration.
   Memory: 0 = output, 1 = input, 2 = the parallel-ECB object, 3 = the key schedule object, then whatever else. *)
From Coq Require Import List Bool NArith Arith Lia.
From Skinny Require Import Bits IR SIR Anf IRCheck KernelSpecs KernelSpecs2 KernelHom SIRCheck WholeSpecs SIRProofs Frame
                           ModelCipher ModelCtr ProofsCtr WholeBridge WholeKey WholeProc WholeCtr WholeCtrModel.
Import ListNotations.

Section ParSpec.
  Variable kn : nat.
  Definition pcall (fno pos n : nat) : stmt := SStore 0 pos n (ECall fno (EConcat [ELoad 1 pos n; ELoad 3 0 kn])).
  Fixpoint chunk_calls (l : list (nat * nat)) (pos : nat) : list stmt :=
    match l with
    | [] => []
    | (n, fno) :: l' => pcall fno pos n :: chunk_calls l' (pos + n)
    end.
  Definition par_chunks (has_vt : bool) (psize bs fvec fblk size : nat) : list (nat * nat) :=
    let nv := if has_vt then size / psize else 0 in
    repeat (psize, fvec) nv ++ repeat (bs, fblk) ((size - nv * psize) / bs).
  Definition par_calls (has_vt : bool) (psize bs fvec fblk size : nat) : list stmt :=
    chunk_calls (par_chunks has_vt psize bs fvec fblk size) 0.
  Definition pspec (B : Type) (has_vt : bool) (psize bs fvec fblk size : nat) : list (entry B) :=
    match par_calls has_vt psize bs fvec fblk size with
    | [] => []
    | l => [(Some l, ident B)]
    end.
End ParSpec.

Lemma pspec_hom : forall sizes kn has_vt psize bs fvec fblk size,
  Forall2 (entry_hom sizes) (pspec kn poly has_vt psize bs fvec fblk size) (pspec kn bool has_vt psize bs fvec fblk size).
Proof.
  intros. unfold pspec. destruct (par_calls kn has_vt psize bs fvec fblk size); [constructor|].
  constructor; [|constructor]. split; [reflexivity | discriminate].
Qed.

Theorem ppar_final : forall fields code fuel pl sh pl' sh' c t sizes kn has_vt psize bs fvec fblk size,
  fields_okb fields = true ->
  flat fields fuel pl sh code = Some (pl', sh', c, t) ->
  check_proc sizes c (pspec kn poly has_vt psize bs fvec fblk size) = true ->
  forall (cB : nat -> list bool -> list bool) (m : mem bool), shaped sizes m -> SIRProofs.Inv fields sh m ->
  interp fields cB fuel pl (m, []) code = Some (pl', execB cB c (m, []), t)
  /\ fst (execB cB c (m, [])) = fst (execB cB (par_calls kn has_vt psize bs fvec fblk size) (m, [])).
Proof.
  intros fields code fuel pl sh pl' sh' c t sizes kn has_vt psize bs fvec fblk size Hf Hfl Hk cB m Hm HI.
  destruct (fields_okb_sound fields Hf) as [Hd Hn]. split.
  - apply (interp_of_flat fields cB Hd Hn fuel code pl sh m pl' sh' c t HI Hfl).
  - rewrite (check_proc_sound sizes cB c _ _ (pspec_hom sizes kn has_vt psize bs fvec fblk size) Hk m Hm).
    unfold pspec. destruct (par_calls kn has_vt psize bs fvec fblk size); reflexivity.
Qed.

(* ---- a list of consecutive chunk calls on the image ---- *)
Section Chunks.
  Variable kn : nat.
  Variable cB : nat -> list bool -> list bool.
  Variable G : nat -> list byte -> list byte.
  Variables (EO KS : list (list bool)) (rest : mem bool) (inp : list byte).
  Hypothesis HKS8 : bytes8 KS.
  Hypothesis Hkn : kn <= length KS.

  Fixpoint chunk_out (l : list (nat * nat)) (data : list byte) : list byte :=
    match l with
    | [] => []
    | (n, fno) :: l' => G fno (firstn n data) ++ chunk_out l' (skipn n data)
    end.
  Fixpoint total (l : list (nat * nat)) : nat := match l with [] => 0 | (n, _) :: l' => n + total l' end.
  Definition contract (l : list (nat * nat)) : Prop :=
    forall n fno, In (n, fno) l -> forall x : list byte, length x = n ->
      cB fno (concat (bitsB x) ++ concat (firstn kn KS)) = concat (bitsB (G fno x)) /\ length (G fno x) = n.

  Lemma chunk_out_length : forall l data, contract l -> total l <= length data -> length (chunk_out l data) = total l.
  Proof.
    induction l as [|[n fno] l IH]; intros data Hc Ht; unfold byte in *; [reflexivity|]. cbn [chunk_out total] in *.
    rewrite app_length. destruct (Hc n fno (or_introl eq_refl) (firstn n data)) as [_ Hl]; [rewrite firstn_length; lia|].
    unfold byte in *. rewrite Hl, IH; [reflexivity | intros n' f' Hin; apply Hc; right; exact Hin | rewrite skipn_length; lia].
  Qed.

  Notation MEM O := ((O : list (list bool)) :: bitsB inp :: EO :: KS :: rest).

  Theorem chunks_exec : forall l pos O, contract l -> pos + total l <= length inp -> length O = length inp ->
    execB cB (chunk_calls kn l pos) (MEM O, []) = (MEM (spl O pos (bitsB (chunk_out l (skipn pos inp)))), []).
  Proof.
    induction l as [|[n fno] l IH]; intros pos O Hc Ht HO; unfold byte in *.
    - cbn [chunk_calls chunk_out map]. rewrite splice_nil. reflexivity.
    - cbn [chunk_calls chunk_out total] in *. unfold execB, exec. cbn [fold_left]. fold (exec bool xorb andb false true cB). fold (execB cB).
      unfold pcall at 1. cbn [exec1 eval map concat]. rewrite app_nil_r. unfold store. cbn [nth set_nth].
      destruct (Hc n fno (or_introl eq_refl) (firstn n (skipn pos inp))) as [Hcb Hl]; [rewrite firstn_length, skipn_length; lia|].
      unfold byte in *.
      rewrite !load_slice; cbn [nth]; try apply bits_len8; try exact HKS8; try (rewrite map_length; lia); try lia.
      change (slice (bitsB inp) pos n) with (subB (bitsB inp) pos n). rewrite sub_bits.
      change (slice KS 0 kn) with (firstn kn KS). unfold byte. rewrite Hcb.
      rewrite (bytes_of_concat_n (bitsB (G fno (firstn n (skipn pos inp)))) n (bits_len8 _)) by (rewrite map_length; exact Hl).
      rewrite store_bytes_splice by (rewrite map_length, Hl, HO; lia).
      change (fold_left (exec1 bool xorb andb false true cB) (chunk_calls kn l (pos + n))) with (execB cB (chunk_calls kn l (pos + n))).
      rewrite IH; [ | intros n' f' Hin; apply Hc; right; exact Hin | lia | ].
      + f_equal. f_equal. rewrite map_app, splice_app.
        * rewrite map_length, Hl, <- skipn_add. reflexivity.
        * rewrite !map_length, Hl, chunk_out_length; [unfold byte in *; lia | intros n' f' Hin; apply Hc; right; exact Hin | rewrite !skipn_length; unfold byte in *; lia].
      + rewrite splice_length; [exact HO | rewrite map_length, Hl; lia].
  Qed.
End Chunks.

Print Assumptions ppar_final.
Print Assumptions chunks_exec.
