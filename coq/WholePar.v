(* WholePar.v — the WHOLE parallel-ECB functions (skinny128/skinny64_parallel_ecb_encrypt / _decrypt of src/*-parallel.c) as
   translated into SIR.v with BOTH callees kept as procedure calls (WholeProc.v): the vector function of the selected back
   end on a whole group of parallel_size bytes, the single-block function on a left-over block.  The flattened function at a
   public configuration (request size, parallel size, vtable present or not) must be exactly the expected list of calls —
   groups first, then single blocks, at consecutive offsets —, and under any interpretation of the calls that meets the
   contracts "block function = E" and "vector function = E on every block of the group" the output is E applied block by
   block: property C07 for all data at that configuration.
   Memory: 0 = output, 1 = input, 2 = the parallel-ECB object, 3 = the key schedule object, then whatever else. *)
From Coq Require Import List Bool NArith Arith Lia.
From Skinny Require Import Bits IR SIR Anf IRCheck KernelSpecs KernelSpecs2 KernelHom SIRCheck WholeSpecs SIRProofs Frame
                           ModelCipher ModelCtr ProofsCtr WholeBridge WholeKey WholeProc WholeCtr WholeCtrModel.
Import ListNotations.

Section ParSpec.
  Variable kn : nat.
  Definition pcall (fno pos n : nat) : stmt := SStore 0 pos n (ECall fno (EConcat [ELoad 1 pos n; ELoad 3 0 kn])).
  Fixpoint chunk_calls (l : list (nat * nat)) (pos : nat) : list stmt :=
    match l with
    | [] => []
    | (n, fno) :: l' => pcall fno pos n :: chunk_calls l' (pos + n)
    end.
  Definition par_chunks (has_vt : bool) (psize bs fvec fblk size : nat) : list (nat * nat) :=
    let nv := if has_vt then size / psize else 0 in
    repeat (psize, fvec) nv ++ repeat (bs, fblk) ((size - nv * psize) / bs).
  Definition par_calls (has_vt : bool) (psize bs fvec fblk size : nat) : list stmt :=
    chunk_calls (par_chunks has_vt psize bs fvec fblk size) 0.
  Definition pspec (B : Type) (has_vt : bool) (psize bs fvec fblk size : nat) : list (entry B) :=
    match par_calls has_vt psize bs fvec fblk size with
    | [] => []
    | l => [(Some l, ident B)]
    end.
End ParSpec.

Lemma pspec_hom : forall sizes kn has_vt psize bs fvec fblk size,
  Forall2 (entry_hom sizes) (pspec kn poly has_vt psize bs fvec fblk size) (pspec kn bool has_vt psize bs fvec fblk size).
Proof.
  intros. unfold pspec. destruct (par_calls kn has_vt psize bs fvec fblk size); [constructor|].
  constructor; [|constructor]. split; [reflexivity | discriminate].
Qed.

Theorem ppar_final : forall fields code fuel pl sh pl' sh' c t sizes kn has_vt psize bs fvec fblk size,
  fields_okb fields = true ->
  flat fields fuel pl sh code = Some (pl', sh', c, t) ->
  check_proc sizes c (pspec kn poly has_vt psize bs fvec fblk size) = true ->
  forall (cB : nat -> list bool -> list bool) (m : mem bool), shaped sizes m -> SIRProofs.Inv fields sh m ->
  interp fields cB fuel pl (m, []) code = Some (pl', execB cB c (m, []), t)
  /\ fst (execB cB c (m, [])) = fst (execB cB (par_calls kn has_vt psize bs fvec fblk size) (m, [])).
Proof.
  intros fields code fuel pl sh pl' sh' c t sizes kn has_vt psize bs fvec fblk size Hf Hfl Hk cB m Hm HI.
  destruct (fields_okb_sound fields Hf) as [Hd Hn]. split.
  - apply (interp_of_flat fields cB Hd Hn fuel code pl sh m pl' sh' c t HI Hfl).
  - rewrite (check_proc_sound sizes cB c _ _ (pspec_hom sizes kn has_vt psize bs fvec fblk size) Hk m Hm).
    unfold pspec. destruct (par_calls kn has_vt psize bs fvec fblk size); reflexivity.
Qed.

(* ---- a list of consecutive chunk calls on the image ---- *)
Section Chunks.
  Variable kn : nat.
  Variable cB : nat -> list bool -> list bool.
  Variable G : nat -> list byte -> list byte.
  Variables (EO KS : list (list bool)) (rest : mem bool) (inp : list byte).
  Hypothesis HKS8 : bytes8 KS.
  Hypothesis Hkn : kn <= length KS.

  Fixpoint chunk_out (l : list (nat * nat)) (data : list byte) : list byte :=
    match l with
    | [] => []
    | (n, fno) :: l' => G fno (firstn n data) ++ chunk_out l' (skipn n data)
    end.
  Fixpoint total (l : list (nat * nat)) : nat := match l with [] => 0 | (n, _) :: l' => n + total l' end.
  Definition contract (l : list (nat * nat)) : Prop :=
    forall n fno, In (n, fno) l -> forall x : list byte, length x = n ->
      cB fno (concat (bitsB x) ++ concat (firstn kn KS)) = concat (bitsB (G fno x)) /\ length (G fno x) = n.

  Lemma chunk_out_length : forall l data, contract l -> total l <= length data -> length (chunk_out l data) = total l.
  Proof.
    induction l as [|[n fno] l IH]; intros data Hc Ht; unfold byte in *; [reflexivity|]. cbn [chunk_out total] in *.
    rewrite app_length. destruct (Hc n fno (or_introl eq_refl) (firstn n data)) as [_ Hl]; [rewrite firstn_length; lia|].
    unfold byte in *. rewrite Hl, IH; [reflexivity | intros n' f' Hin; apply Hc; right; exact Hin | rewrite skipn_length; lia].
  Qed.

  Notation MEM O := ((O : list (list bool)) :: bitsB inp :: EO :: KS :: rest).

  Theorem chunks_exec : forall l pos O, contract l -> pos + total l <= length inp -> length O = length inp ->
    execB cB (chunk_calls kn l pos) (MEM O, []) = (MEM (spl O pos (bitsB (chunk_out l (skipn pos inp)))), []).
  Proof.
    induction l as [|[n fno] l IH]; intros pos O Hc Ht HO; unfold byte in *.
    - cbn [chunk_calls chunk_out map]. rewrite splice_nil. reflexivity.
    - cbn [chunk_calls chunk_out total] in *. unfold execB, exec. cbn [fold_left]. fold (exec bool xorb andb false true cB). fold (execB cB).
      unfold pcall at 1. cbn [exec1 eval map concat]. rewrite app_nil_r. unfold store. cbn [nth set_nth].
      destruct (Hc n fno (or_introl eq_refl) (firstn n (skipn pos inp))) as [Hcb Hl]; [rewrite firstn_length, skipn_length; lia|].
      unfold byte in *.
      rewrite !load_slice; cbn [nth]; try apply bits_len8; try exact HKS8; try (rewrite map_length; lia); try lia.
      change (slice (bitsB inp) pos n) with (subB (bitsB inp) pos n). rewrite sub_bits.
      change (slice KS 0 kn) with (firstn kn KS). unfold byte. rewrite Hcb.
      rewrite (bytes_of_concat_n (bitsB (G fno (firstn n (skipn pos inp)))) n (bits_len8 _)) by (rewrite map_length; exact Hl).
      rewrite store_bytes_splice by (rewrite map_length, Hl, HO; lia).
      change (fold_left (exec1 bool xorb andb false true cB) (chunk_calls kn l (pos + n))) with (execB cB (chunk_calls kn l (pos + n))).
      rewrite IH; [ | intros n' f' Hin; apply Hc; right; exact Hin | lia | ].
      + f_equal. f_equal. rewrite map_app, splice_app.
        * rewrite map_length, Hl, <- skipn_add. reflexivity.
        * rewrite !map_length, Hl, chunk_out_length; [unfold byte in *; lia | intros n' f' Hin; apply Hc; right; exact Hin | rewrite !skipn_length; unfold byte in *; lia].
      + rewrite splice_length; [exact HO | rewrite map_length, Hl; lia].
  Qed.
End Chunks.

Print Assumptions ppar_final.
Print Assumptions chunks_exec.

(* ---- the chunks of a parallel request, under the contracts, are E block by block ---- *)
Section ParBlocks.
  Variable E : list byte -> list byte.
  Variables (bs psize fvec fblk : nat).
  Hypothesis Hbs : 0 < bs.
  Hypothesis Hps : 0 < psize.
  Hypothesis Hpm : psize mod bs = 0.
  Hypothesis Hne : fvec <> fblk.
  Definition Gpar (f : nat) (x : list byte) : list byte :=
    if Nat.eqb f fvec then concat (map E (blocks bs x)) else E x.
  Notation cout := (chunk_out Gpar).

  Lemma chunk_out_app : forall l1 l2 data,
    cout (l1 ++ l2) data = cout l1 data ++ cout l2 (skipn (total l1) data).
  Proof.
    induction l1 as [|[n f] l1 IH]; intros l2 data; [reflexivity|].
    cbn [app chunk_out total]. rewrite IH, <- app_assoc, skipn_add. reflexivity.
  Qed.
  Lemma total_repeat : forall n f k, total (repeat (n, f) k) = k * n.
  Proof. intros n f k. induction k as [|k IH]; [reflexivity|]. cbn [repeat total]. rewrite IH. reflexivity. Qed.

  Lemma chunk_out_vec : forall k data, k * psize <= length data ->
    cout (repeat (psize, fvec) k) data = concat (map E (blocks bs (firstn (k * psize) data))).
  Proof.
    destruct (mod0_mult _ _ Hbs Hpm) as (p & Hp).
    induction k as [|k IH]; intros data Hk; [reflexivity|].
    cbn [repeat chunk_out]. rewrite IH by (rewrite skipn_length; lia).
    unfold Gpar. rewrite Nat.eqb_refl.
    replace (S k * psize) with (psize + k * psize) by lia.
    assert (Hsplit : firstn (psize + k * psize) data = firstn psize data ++ firstn (k * psize) (skipn psize data)).
    { rewrite <- (firstn_skipn psize data) at 1. rewrite firstn_app, firstn_length, Nat.min_l by lia.
      rewrite firstn_all2 by (rewrite firstn_length; lia). f_equal. f_equal. lia. }
    rewrite Hsplit, (blocks_app bs Hbs p) by (rewrite firstn_length, Nat.min_l by lia; exact Hp).
    rewrite map_app, concat_app. reflexivity.
  Qed.

  Lemma chunk_out_blk : forall k data, length data = k * bs ->
    cout (repeat (bs, fblk) k) data = concat (map E (blocks bs data)).
  Proof.
    induction k as [|k IH]; intros data Hk.
    - destruct data; [reflexivity | cbn in Hk; lia].
    - cbn [repeat chunk_out]. rewrite IH by (rewrite skipn_length; lia).
      unfold Gpar. destruct (Nat.eqb fblk fvec) eqn:Ef; [apply Nat.eqb_eq in Ef; congruence|].
      rewrite (blocks_step bs data Hbs) by (intros ->; cbn in Hk; lia). reflexivity.
  Qed.

  Theorem par_chunk_out_blocks : forall has_vt (inp : list byte), length inp mod bs = 0 ->
    cout (par_chunks has_vt psize bs fvec fblk (length inp)) inp = concat (map E (blocks bs inp)).
  Proof.
    intros has_vt inp Hm. unfold par_chunks. cbv zeta.
    destruct (mod0_mult _ _ Hbs Hpm) as (p & Hp). destruct (mod0_mult _ _ Hbs Hm) as (k & Hk).
    set (nv := if has_vt then length inp / psize else 0).
    assert (Hnv : nv * psize <= length inp).
    { unfold nv. destruct has_vt; [|lia]. rewrite Nat.mul_comm. apply Nat.mul_div_le. lia. }
    rewrite chunk_out_app, total_repeat, chunk_out_vec by exact Hnv.
    assert (Hrest : length (skipn (nv * psize) inp) = ((length inp - nv * psize) / bs) * bs).
    { rewrite skipn_length. rewrite Hk, Hp. replace (k * bs - nv * (p * bs)) with ((k - nv * p) * bs) by nia.
      rewrite Nat.div_mul by lia. reflexivity. }
    rewrite chunk_out_blk by exact Hrest.
    rewrite <- concat_app, <- map_app.
    rewrite <- (blocks_app bs Hbs (nv * p)) by (rewrite firstn_length, Nat.min_l by lia; rewrite Hp; lia).
    rewrite firstn_skipn. reflexivity.
  Qed.
End ParBlocks.

Lemma total_app : forall l1 l2, total (l1 ++ l2) = total l1 + total l2.
Proof. induction l1 as [|[n f] l1 IH]; intros l2; [reflexivity|]. cbn [app total]. rewrite IH. lia. Qed.
Lemma total_repeat' : forall n f k, total (repeat (n, f) k) = k * n.
Proof. intros n f k. induction k as [|k IH]; [reflexivity|]. cbn [repeat total]. rewrite IH. reflexivity. Qed.
Lemma total_app_repeat : forall a f x b g y, total (repeat (a, f) x ++ repeat (b, g) y) = x * a + y * b.
Proof. intros. rewrite total_app, !total_repeat'. reflexivity. Qed.

(* ================================================================================================== *)
(* the final statement: a checked parallel-ECB function computes E block by block                        *)
(* ================================================================================================== *)
Theorem ppar_model : forall fields code fuel pl sh pl' sh' c t kn has_vt psize bs fvec fblk size (rsz : list nat),
  fields_okb fields = true ->
  flat fields fuel pl sh code = Some (pl', sh', c, t) ->
  check_proc (size :: size :: rsz) c (pspec kn poly has_vt psize bs fvec fblk size) = true ->
  forall (cB : nat -> list bool -> list bool) (E : list byte -> list byte) (out inp : list byte)
         (EO KS : list (list bool)) (rest : mem bool),
  0 < bs -> 0 < psize -> psize mod bs = 0 -> size mod bs = 0 -> fvec <> fblk -> kn <= length KS -> bytes8 KS ->
  length out = size -> length inp = size ->
  (forall blk, length blk = bs -> length (E blk) = bs) ->
  (forall blk, length blk = bs -> cB fblk (concat (bitsB blk) ++ concat (firstn kn KS)) = concat (bitsB (E blk))) ->
  (forall grp, length grp = psize ->
     cB fvec (concat (bitsB grp) ++ concat (firstn kn KS)) = concat (bitsB (concat (map E (blocks bs grp))))) ->
  let m0 : mem bool := bitsB out :: bitsB inp :: EO :: KS :: rest in
  shaped (size :: size :: rsz) m0 -> SIRProofs.Inv fields sh m0 ->
  exists st', interp fields cB fuel pl (m0, []) code = Some (pl', st', t)
    /\ fst st' = bitsB (concat (map E (blocks bs inp))) :: bitsB inp :: EO :: KS :: rest.
Proof.
  intros fields code fuel pl sh pl' sh' c t kn has_vt psize bs fvec fblk size rsz Hf Hfl Hk cB E out inp EO KS rest
         Hbs Hps Hpm Hsm Hne Hkn HKS8 Ho Hi HE Hcblk Hcvec m0 Hm HI.
  destruct (ppar_final fields code fuel pl sh pl' sh' c t _ kn has_vt psize bs fvec fblk size Hf Hfl Hk cB m0 Hm HI) as [Hint Hsem].
  exists (execB cB c (m0, [])). split; [exact Hint|]. rewrite Hsem. unfold par_calls, m0.
  assert (HElen' : forall k x, length x = k * bs -> length (concat (map E (blocks bs x))) = length x).
  { induction k as [|k IHk]; intros x Hk'.
    - destruct x; [reflexivity | cbn in Hk'; lia].
    - rewrite (blocks_step bs x Hbs) by (intros ->; cbn in Hk'; lia). cbn [map concat]. rewrite app_length.
      rewrite HE by (rewrite firstn_length; lia).
      rewrite IHk by (rewrite skipn_length; lia). rewrite skipn_length. lia. }
  assert (HElen : forall x, length x mod bs = 0 -> length (concat (map E (blocks bs x))) = length x).
  { intros x Hx. destruct (mod0_mult _ _ Hbs Hx) as (k & Hk'). apply (HElen' k x Hk'). }
  rewrite (chunks_exec kn cB (Gpar E bs fvec) EO KS rest inp HKS8 Hkn).
  - cbn [fst skipn]. f_equal. rewrite <- Hi at 1.
    rewrite (par_chunk_out_blocks E bs psize fvec fblk Hbs Hps Hpm Hne has_vt inp) by (rewrite Hi; exact Hsm).
    unfold splice. cbn [firstn app plus]. rewrite skipn_all2; [apply app_nil_r|].
    rewrite !map_length, HElen by (rewrite Hi; exact Hsm). unfold byte in *. lia.
  - intros n fno Hin x Hx. unfold par_chunks in Hin. apply in_app_or in Hin. destruct Hin as [Hin|Hin]; apply repeat_spec in Hin;
      injection Hin as Hn Hf'; rewrite Hn in Hx |- *; rewrite Hf'; unfold Gpar.
    + rewrite Nat.eqb_refl. split; [apply Hcvec; exact Hx|]. rewrite HElen; [exact Hx | rewrite Hx; exact Hpm].
    + destruct (Nat.eqb fblk fvec) eqn:Ef; [apply Nat.eqb_eq in Ef; congruence|]. split; [apply Hcblk; exact Hx | apply HE; exact Hx].
  - assert (Ht : total (par_chunks has_vt psize bs fvec fblk size) <= size).
    { unfold par_chunks. cbv zeta. set (nv := if has_vt then size / psize else 0).
      assert (nv * psize <= size) by (unfold nv; destruct has_vt; [rewrite Nat.mul_comm; apply Nat.mul_div_le; lia | lia]).
      clear - H Hbs. rewrite total_app_repeat. pose proof (Nat.mul_div_le (size - nv * psize) bs ltac:(lia)). lia. }
    unfold byte in *. lia.
  - rewrite map_length. unfold byte in *. lia.
Qed.
Print Assumptions par_chunk_out_blocks.
Print Assumptions ppar_model.
