(* WholeCtrSet.v — the WHOLE *_ctr_*_set_counter functions of every CTR back end (generic, vec128, vec256; SKINNY-128, SKINNY-64,
   MANTIS) as translated into SIR.v and flattened at a public configuration (counter length, NULL or not), against

        block  := the counter bytes LEFT-padded with zeros to the block size (all zero for a NULL counter)
        lane k := block + k   (k = 0 .. L-1; big endian, byte-wise carries), stored row-sliced (WholeCtrVec.v)
        offset := L * bs      (the buffered key stream is empty)

   for ALL counter bytes and prior contents; on the image of a model state this is ModelCtr.set_counter (lanes = stagger).
   The generic back end is the layout L = 1.  Memory: 0 = the CTR object, 1 = counter, rctx = the context (2, or 3 when a local
   block buffer comes first). *)
From Coq Require Import List Bool NArith Arith Lia.
From Skinny Require Import Bits IR SIR Anf IRCheck KernelSpecs KernelSpecs2 KernelHom KernelHom2 SIRCheck WholeSpecs SIRProofs Frame
                           ModelCipher ModelCtr ProofsCtr WholeBridge WholeKey WholeProc WholeCtr WholeCtrModel WholeCtrVec WholeCtrVecModel.
Import ListNotations.

Section SetSpec.
  Variable B : Type.
  Variables (bx ba : B -> B -> B) (b0 b1 : B).
  Variables (bs L rw coff ooff rctx : nat).
  Notation reg := (reg B).
  (* the polymorphic counter area of a list of lanes (each a list of bytes) *)
  Definition TRP (lanes : list (list (list B))) : list (list B) :=
    map (fun p => nth (kidx L rw p) (nth (cidx L rw p) lanes []) []) (seq 0 (L * bs)).
  Definition blockP (size : nat) (null : bool) (cnt : list (list B)) : list (list B) :=
    if null then repeat (zbyte B b0) bs else repeat (zbyte B b0) (bs - size) ++ firstn size cnt.
  Definition lanesP (blk : list (list B)) : list (list (list B)) :=
    map (fun k => match k with O => blk | S _ => incK B bx ba b0 b1 (N.of_nat k) blk end) (seq 0 L).
  Definition w_set_counter (size : nat) (null : bool) (m : mem B) : mem B :=
    let ctx1 := splice B (reg m rctx) coff (TRP (lanesP (blockP size null (reg m 1)))) in
    [reg m 0; reg m 1; splice B ctx1 ooff (bytes_of B b0 4 (const_bits B b0 b1 32 (N.of_nat (L * bs))))].
End SetSpec.

Section SetHom.
  Variables B1 B2 : Type.
  Variables (bx1 ba1 : B1 -> B1 -> B1) (z1 o1 : B1).
  Variables (bx2 ba2 : B2 -> B2 -> B2) (z2 o2 : B2).
  Variable h : B1 -> B2.
  Hypothesis h_bx : forall a b, h (bx1 a b) = bx2 (h a) (h b).
  Hypothesis h_ba : forall a b, h (ba1 a b) = ba2 (h a) (h b).
  Hypothesis h_z : h z1 = z2.
  Hypothesis h_o : h o1 = o2.
  Notation hb := (map (map h)).
  Notation hm := (map (map (map h))).
  Let Hreg := reg_homG B1 B2 h.

  Lemma TRP_homG : forall bs L rw lanes, hb (TRP B1 bs L rw lanes) = TRP B2 bs L rw (map hb lanes).
  Proof.
    intros. unfold TRP. rewrite map_map. apply map_ext. intros p.
    rewrite <- (map_nth (map h) (nth (cidx L rw p) lanes []) [] (kidx L rw p)).
    rewrite <- (map_nth hb lanes [] (cidx L rw p)). reflexivity.
  Qed.
  Lemma blockP_homG : forall bs size null cnt, hb (blockP B1 z1 bs size null cnt) = blockP B2 z2 bs size null (hb cnt).
  Proof.
    intros. unfold blockP. destruct null; [apply (hb_zeros B1 B2 z1 z2 h h_z)|].
    rewrite map_app, (hb_zeros B1 B2 z1 z2 h h_z), firstn_map. reflexivity.
  Qed.
  Lemma lanesP_homG : forall L blk, map hb (lanesP B1 bx1 ba1 z1 o1 L blk) = lanesP B2 bx2 ba2 z2 o2 L (hb blk).
  Proof.
    intros. unfold lanesP. rewrite map_map. apply map_ext. intros k. destruct k; [reflexivity|].
    apply (incK_homG B1 B2 bx1 ba1 z1 o1 bx2 ba2 z2 o2 h h_bx h_ba h_z h_o).
  Qed.
  Lemma w_set_counter_homG : forall bs L rw coff ooff rctx size null m,
    hm (w_set_counter B1 bx1 ba1 z1 o1 bs L rw coff ooff rctx size null m) = w_set_counter B2 bx2 ba2 z2 o2 bs L rw coff ooff rctx size null (hm m).
  Proof.
    intros. unfold w_set_counter. cbv zeta. cbn [map]. rewrite !Hreg. f_equal. f_equal. f_equal.
    rewrite !(splice_homG B1 B2 h), TRP_homG, lanesP_homG, blockP_homG.
    rewrite (bytes_of_hom B1 B2 z1 z2 h h_z), (const_bits_hom B1 B2 z1 o1 z2 o2 h h_z h_o). reflexivity.
  Qed.
End SetHom.

Lemma w_set_counter_homU : forall bs L rw coff ooff rctx size null,
  homU (w_set_counter poly pxor pand pzero pone bs L rw coff ooff rctx size null) (w_set_counter bool xorb andb false true bs L rw coff ooff rctx size null).
Proof.
  intros. intros rho m. unfold mmap, vmap.
  apply w_set_counter_homG; intros; first [apply peval_pxor | apply peval_pand | reflexivity].
Qed.
Print Assumptions w_set_counter_homU.

(* ================================================================================================== *)
(* on the image of a model state: ModelCtr.set_counter                                                  *)
(* ================================================================================================== *)
Lemma inc_rev_zero : forall l, inc_rev l 0 = l.
Proof.
  induction l as [|b l IH]; [reflexivity|]. cbn [inc_rev]. rewrite N.add_0_r, byte_of_N_of_byte.
  assert (H : N.shiftr (N_of_byte b) 8 = 0%N).
  { pose proof (forall_bytes (fun x => N.eqb (N.shiftr (N_of_byte x) 8) 0) ltac:(vm_compute; reflexivity) b) as H. apply N.eqb_eq in H. exact H. }
  rewrite H, IH. reflexivity.
Qed.
Lemma inc_counter_zero : forall c, inc_counter c 0 = c.
Proof. intros c. unfold inc_counter. rewrite inc_rev_zero. apply rev_involutive. Qed.

Lemma zeros_bits : forall n, repeat (zbyte bool false) n = bitsB (zeros n).
Proof. intros n. unfold zeros. induction n as [|n IH]; [reflexivity|]. cbn [repeat map]. rewrite IH. reflexivity. Qed.

Lemma blockP_model : forall bs size null (cnt : list byte), size <= bs ->
  blockP bool false bs size null (bitsB cnt)
  = bitsB (if null then zeros bs else zeros (bs - size) ++ firstn size cnt).
Proof.
  intros bs size null cnt Hs. unfold blockP. destruct null; [apply zeros_bits|].
  rewrite map_app, zeros_bits, firstn_map. reflexivity.
Qed.

Lemma lanesP_model : forall L (blk : list byte), L <= 8 ->
  lanesP bool xorb andb false true L (bitsB blk) = map bitsB (stagger L blk).
Proof.
  intros L blk HL. unfold lanesP, stagger. rewrite map_map. apply map_ext_in. intros k Hk. apply in_seq in Hk.
  destruct k as [|k].
  - change (N.of_nat 0) with 0%N. rewrite inc_counter_zero. reflexivity.
  - apply incK_spec. lia.
Qed.

Lemma TRP_model : forall bs L rw (lanes : list (list byte)), TRP bool bs L rw (map bitsB lanes) = TR bs L rw lanes.
Proof.
  intros. unfold TRP, TR. apply map_ext. intros p.
  f_equal. exact (map_nth bitsB lanes [] (cidx L rw p)).
Qed.

Theorem w_set_counter_model : forall bs L rw coff rctx size null (cnt ecnt : list byte) (KS CA pad : list (list bool)) (m : mem bool) off,
  L <= 8 -> size <= bs -> length KS = coff -> length CA = L * bs -> length ecnt = L * bs ->
  reg bool m 1 = bitsB cnt -> reg bool m rctx = KS ++ CA ++ bitsB ecnt ++ rbytes off ++ pad ->
  w_set_counter bool xorb andb false true bs L rw coff (coff + L * bs + L * bs) rctx size null m
  = [reg bool m 0; bitsB cnt;
     KS ++ TR bs L rw (stagger L (if null then zeros bs else zeros (bs - size) ++ firstn size cnt))
        ++ bitsB ecnt ++ rbytes (L * bs) ++ pad].
Proof.
  intros bs L rw coff rctx size null cnt ecnt KS CA pad m off HL Hs HKS HCA He H1 Hc.
  unfold w_set_counter. cbv zeta. rewrite H1, Hc. f_equal. f_equal. f_equal.
  rewrite blockP_model by exact Hs. rewrite lanesP_model by exact HL. rewrite TRP_model.
  fold (rbytes (L * bs)).
  rewrite <- HKS. rewrite splice_mid by (rewrite TR_length; symmetry; exact HCA).
  set (T := TR bs L rw _).
  assert (Lp : length (KS ++ T ++ bitsB ecnt) = length KS + L * bs + L * bs).
  { unfold byte in *. rewrite !app_length, map_length, He. unfold T. rewrite TR_length. lia. }
  replace (KS ++ T ++ bitsB ecnt ++ rbytes off ++ pad) with ((KS ++ T ++ bitsB ecnt) ++ rbytes off ++ pad)
    by (rewrite <- !app_assoc; reflexivity).
  rewrite <- Lp, splice_mid by (rewrite !rbytes_len; reflexivity). rewrite <- !app_assoc. reflexivity.
Qed.
Print Assumptions w_set_counter_model.

(* the lanes / offset the specification writes are those of ModelCtr.set_counter *)
Lemma pad_to_firstn : forall n (b : list byte), n <= length b -> pad_to n b = firstn n b.
Proof. intros n b H. unfold pad_to. rewrite firstn_app. replace (n - length b) with 0 by lia. rewrite firstn_O, app_nil_r. reflexivity. Qed.
Theorem set_counter_is_spec : forall (K : Type) bs L (st : ctr K) (cnt : option (list byte)) size,
  size <= bs -> match cnt with Some b => size <= length b | None => True end ->
  let r := set_counter K bs L st cnt (N.of_nat size) in
  fst r = 1%N /\
  c_lanes (snd r) = stagger L (match cnt with Some b => zeros (bs - size) ++ firstn size b | None => zeros bs end) /\
  c_ecounter (snd r) = c_ecounter st /\ c_off (snd r) = L * bs /\ c_key (snd r) = c_key st.
Proof.
  intros K bs L st cnt size Hs Hc. cbv zeta. unfold set_counter.
  assert (E : N.leb (N.of_nat size) (N.of_nat bs) = true) by (apply N.leb_le; lia). rewrite E. cbn [fst snd c_lanes c_ecounter c_off c_key].
  rewrite Nat2N.id. repeat split. destruct cnt as [b|]; [rewrite pad_to_firstn by exact Hc|]; reflexivity.
Qed.
Print Assumptions set_counter_is_spec.
