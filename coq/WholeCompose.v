(* WholeCompose.v — composing the two whole-function layers INSIDE Coq.  pctr_model / vctr_model_* / ppar_model are stated for
   any interpretation cB of the procedure call that meets a contract ("on (block, key-schedule object) it returns E(block)");
   enc128_final etc. prove, for the callee's own translated code, that running it yields the model's block.  Here the
   interpretation is DEFINED as "run the callee's code in the reference interpreter on a memory built from the argument bits"
   (cB_run) and the contract is PROVED for it from the callee's obligations — so the CTR theorems hold with the call
   interpreted by the callee's real code, not by an assumed function. *)
From Coq Require Import List Bool NArith Arith Lia.
From Skinny Require Import Bits SpecSkinny IR SIR Anf IRCheck KernelSpecs KernelSpecs2 KernelHom KernelHom2 SIRCheck WholeSpecs SIRProofs Frame
                           ModelCipher ModelCtr WholeBridge WholeKey WholeProc WholeCtr WholeCtrModel WholeContracts WholeKeyTweak ProofsApiCtr.
Import ListNotations.

Notation callB := (callf_spec bool xorb andb false true).

(* the interpretation of a block-function call: argument = bs block bytes followed by kn key-schedule bytes *)
Definition cB_run (bs kn : nat) (code : list SIR.sstmt) (fuel : nat) (fno : nat) (bits : list bool) : list bool :=
  let L := bytes_of bool false (bs + kn) bits in
  let m0 : mem bool := [repeat (zbyte bool false) bs; firstn bs L; skipn bs L; repeat (zbyte bool false) bs] in
  match interp [ksf] callB fuel [0; 0; 0]%N (m0, []) code with
  | Some (_, st', _) => concat (nth 0 (fst st') [])
  | None => []
  end.

Lemma decode_arg : forall (blk : list byte) (ks : list (list bool)) bs kn, length blk = bs -> length ks = kn -> bytes8 ks ->
  bytes_of bool false (bs + kn) (concat (bitsB blk) ++ concat ks) = bitsB blk ++ ks.
Proof.
  intros blk ks bs kn Hb Hk H8. rewrite <- concat_app.
  apply bytes_of_concat_n.
  - apply Forall_app. split; [apply bitsB_bytes8 | exact H8].
  - rewrite app_length, map_length. unfold byte in *. lia.
Qed.

Lemma bits_of_c8_of_bits8 : forall l : list bool, length l = 8 -> bits_of_c8 bool (c8_of_bits bool false l) = l.
Proof. intros l H. do 8 (destruct l as [|? l]; [discriminate|]). destruct l; [reflexivity | discriminate]. Qed.

(* the public field ks->rounds of a key-schedule image whose header starts with the 4 little-endian bytes of R *)
Lemma field_val_rounds : forall R (tail o b s : list (list bool)) rest, (N.of_nat R < 2 ^ 32)%N ->
  field_val [o; b; (rbytes R ++ tail) ++ rest; s] ksf = N.of_nat R.
Proof.
  intros R tail o b s rest HR. unfold field_val, ksf, load. cbn [nth seq map Nat.add].
  unfold rbytes. set (X := const_bits bool false true 32 (N.of_nat R)).
  assert (LX : length X = 32) by (unfold X, const_bits; rewrite map_length, seq_length; reflexivity).
  cbn [bytes_of app nth].
  rewrite !(take_pad_id8 (take_pad bool 8 false _)) by apply take_pad_length.
  change (concat [take_pad bool 8 false (firstn 8 X); take_pad bool 8 false (firstn 8 (skipn 8 X));
                  take_pad bool 8 false (firstn 8 (skipn 8 (skipn 8 X)));
                  take_pad bool 8 false (firstn 8 (skipn 8 (skipn 8 (skipn 8 X))))])
    with (concat (bytes_of bool false 4 X)).
  rewrite concat_bytes_of by exact LX.
  unfold X. rewrite N_of_bits_const_bits. unfold trunc.
  change (N.ones (N.of_nat 32)) with (N.ones 32). rewrite N.land_ones. apply N.mod_small. exact HR.
Qed.

Section Compose128.
  Variables (code : list SIR.sstmt) (fuel R : nat) (pl' : list N) (sh' : SIR.shadow) (c : list IR.stmt) (t : list SIR.event).
  Hypothesis HR0 : 0 < R.
  Hypothesis HR : R <= 56.
  Hypothesis Hflat : flat [ksf] fuel [0; 0; 0]%N [(ksf, N.of_nat R)] code = Some (pl', sh', c, t).
  Hypothesis Hcheck : check_block_w callP sizes128 2 8 c (enc_offs 8 8 R)
    (enc_stepsW poly (k128_subcells poly pxor pand pzero pone) (k128_enc_linear poly pxor pzero pone) R)
    (enc_stepsW bool (k128_subcells bool xorb andb false true) (k128_enc_linear bool xorb false true) R) = true.

  (* the contract of pctr_model / vctr_model / ppar_model, proved for the callee's code *)
  Theorem enc128_contract : forall fno (KS : list (list bool)) (hdrtail : list byte) (sched : list (half byte)),
    length hdrtail = 4 -> length sched = 56 ->
    firstn 456 KS = (rbytes R ++ bitsB hdrtail) ++ concat (map (KernelSpecs2.half_bytes128 bool) sched) ->
    forall blk, length blk = 16 ->
    cB_run 16 456 code fuel fno (concat (bitsB blk) ++ concat (firstn 456 KS))
    = concat (bitsB (m128_encrypt {| ks_rounds := N.of_nat R; ks_sched := sched |} blk)).
  Proof.
    intros fno KS hdrtail sched Hh Hs HKS blk Hb. unfold cB_run. cbv zeta.
    (* the header as a byte list: rbytes R is the image of 4 bytes *)
    set (hdr := map (c8_of_bits bool false) (rbytes R) ++ hdrtail).
    assert (Ehdr : bitsB hdr = rbytes R ++ bitsB hdrtail).
    { unfold hdr. rewrite map_app. f_equal. }
    assert (Lhdr : length hdr = 8).
    { unfold hdr. rewrite app_length, map_length. unfold rbytes. cbn [bytes_of length]. unfold byte in *. lia. }
    assert (Lks : length (firstn 456 KS) = 456).
    { rewrite HKS, <- Ehdr, app_length, map_length, sched_image_len128. unfold byte in *. lia. }
    assert (K8 : bytes8 (firstn 456 KS)).
    { rewrite HKS, <- Ehdr. apply Forall_app. split; [apply bitsB_bytes8|].
      apply Forall_concat. apply Forall_forall. intros x Hx. apply in_map_iff in Hx. destruct Hx as [e [<- _]]. apply hb128_len8. }
    rewrite (decode_arg blk (firstn 456 KS) 16 456 Hb Lks K8).
    rewrite firstn_app, map_length, Hb, Nat.sub_diag, firstn_O, app_nil_r, firstn_all2 by (rewrite map_length; lia).
    rewrite skipn_app, map_length, Hb, Nat.sub_diag, skipn_all2 by (rewrite map_length; lia). cbn [app skipn].
    rewrite HKS, <- Ehdr.
    change (repeat (zbyte bool false) 16) with (bitsB (zeros 16)).
    change (bitsB hdr ++ concat (map (KernelSpecs2.half_bytes128 bool) sched)) with (ks_image128 (bitsB hdr) sched).
    destruct (enc128_final code fuel R pl' sh' c t HR0 HR Hflat Hcheck (zeros 16) blk (zeros 16) hdr sched
                eq_refl Hb eq_refl Lhdr Hs) as [st' [Hint [Hout _]]].
    { unfold ks_image128, ks_image. rewrite Ehdr. apply field_val_rounds.
      apply N.le_lt_trans with (m := 56%N); [lia | vm_compute; reflexivity]. }
    rewrite Hint, Hout. reflexivity.
  Qed.
End Compose128.

(* the generic SKINNY-128 CTR encryption with the call to skinny128_ecb_encrypt interpreted by that function's OWN translated
   code: both functions as translated, every request length `size` the CTR part was flattened for, every buffered offset,
   every counter, every key schedule with 1..56 rounds — the reference interpreter returns the model's CTR output and state *)
Theorem pctr128_composed :
  forall fields code fuel pl sh pl' sh' c t fno off size plen           (* the CTR function *)
         code2 fuel2 R pl2 sh2 c2 t2,                                   (* the block function *)
  fields_okb fields = true ->
  flat fields fuel pl sh code = Some (pl', sh', c, t) ->
  check_proc [size; size; 16; 472 + 16 + 16 + 4 + plen] c
    (cspec poly pxor pand pzero pone 16 456 472 (472 + 16) (472 + 16 + 16) fno off size) = true ->
  0 < R -> R <= 56 ->
  flat [ksf] fuel2 [0; 0; 0]%N [(ksf, N.of_nat R)] code2 = Some (pl2, sh2, c2, t2) ->
  check_block_w callP sizes128 2 8 c2 (enc_offs 8 8 R)
    (enc_stepsW poly (k128_subcells poly pxor pand pzero pone) (k128_enc_linear poly pxor pzero pone) R)
    (enc_stepsW bool (k128_subcells bool xorb andb false true) (k128_enc_linear bool xorb false true) R) = true ->
  forall (out inp cnt ecnt hdrtail tw : list byte) (sched : list (half byte)) (CO pad : list (list bool)),
  off <= 16 -> length out = size -> length inp = size -> length cnt = 16 -> length ecnt = 16 ->
  length hdrtail = 4 -> length sched = 56 -> length tw = 16 ->
  length CO = 16 -> bytes8 CO -> length pad = plen -> bytes8 pad ->
  let KS := (rbytes R ++ bitsB hdrtail) ++ concat (map (KernelSpecs2.half_bytes128 bool) sched) ++ bitsB tw in
  let E := m128_encrypt {| ks_rounds := N.of_nat R; ks_sched := sched |} in
  let m0 := img (bitsB inp) CO KS pad (bitsB out) cnt ecnt off in
  SIRProofs.Inv fields sh m0 ->
  forall c' outb,
  crypt unit (fun _ => E) 16 1 {| c_key := tt; c_lanes := [cnt]; c_ecounter := ecnt; c_off := off |} inp = Some (c', outb) ->
  exists st' cnt' ecnt',
    interp fields (cB_run 16 456 code2 fuel2) fuel pl (m0, []) code = Some (pl', st', t) /\
    c_lanes c' = [cnt'] /\ c_ecounter c' = ecnt' /\
    fst st' = img (bitsB inp) CO KS pad (bitsB outb) cnt' ecnt' (c_off c').
Proof.
  intros fields code fuel pl sh pl' sh' c t fno off size plen code2 fuel2 R pl2 sh2 c2 t2 Hf Hfl Hk HR0 HR Hfl2 Hk2
         out inp cnt ecnt hdrtail tw sched CO pad Hoff Ho Hi Hc He Hh Hs Htw HCO HCO8 Hpad Hpad8 KS E m0 HInv c' outb Hcr.
  unfold byte in *.
  assert (Lpre : length ((rbytes R ++ bitsB hdrtail) ++ concat (map (KernelSpecs2.half_bytes128 bool) sched)) = 456).
  { rewrite !app_length, map_length, sched_image_len128, rbytes_len. unfold byte in *. lia. }
  assert (LKS : length KS = 472).
  { unfold KS. rewrite app_assoc, app_length, Lpre, map_length. unfold byte in *. lia. }
  assert (KS8 : bytes8 KS).
  { unfold KS. repeat (apply Forall_app; split); try apply bitsB_bytes8; try apply bytes_of_bytes8.
    apply Forall_concat. apply Forall_forall. intros x Hx. apply in_map_iff in Hx. destruct Hx as [e [<- _]]. apply hb128_len8. }
  assert (FKS : firstn 456 KS = (rbytes R ++ bitsB hdrtail) ++ concat (map (KernelSpecs2.half_bytes128 bool) sched)).
  { unfold KS. rewrite app_assoc, <- Lpre, firstn_app, Nat.sub_diag, firstn_O, app_nil_r. apply firstn_all. }
  apply (pctr_model fields code fuel pl sh pl' sh' c t 16 456 472 fno off size plen Hf Hfl Hk (cB_run 16 456 code2 fuel2) E
           out inp cnt ecnt CO KS pad); try assumption; try lia.
  - intros blk _. apply ProofsApiCtr.m128_encrypt_length.
  - intros blk Hb. exact (enc128_contract code2 fuel2 R pl2 sh2 c2 t2 HR0 HR Hfl2 Hk2 fno KS hdrtail sched Hh Hs FKS blk Hb).
Qed.
Section Compose64.
  Variables (code : list SIR.sstmt) (fuel R : nat) (pl' : list N) (sh' : SIR.shadow) (c : list IR.stmt) (t : list SIR.event).
  Hypothesis HR0 : 0 < R.
  Hypothesis HR : R <= 40.
  Hypothesis Hflat : flat [ksf] fuel [0; 0; 0]%N [(ksf, N.of_nat R)] code = Some (pl', sh', c, t).
  Hypothesis Hcheck : check_block_w callP sizes64 2 4 c (enc_offs 4 4 R)
    (enc_stepsW poly (k64_subcells poly pxor pand pzero pone) (k64_enc_linear poly pxor pzero pone) R)
    (enc_stepsW bool (k64_subcells bool xorb andb false true) (k64_enc_linear bool xorb false true) R) = true.

  (* the contract of pctr_model / vctr_model / ppar_model, proved for the callee's code *)
  Theorem enc64_contract : forall fno (KS : list (list bool)) (hdrtail : list byte) (sched : list (half nib)),
    length hdrtail = 0 -> length sched = 40 ->
    firstn 164 KS = (rbytes R ++ bitsB hdrtail) ++ concat (map (KernelSpecs2.half_bytes64 bool) sched) ->
    forall blk, length blk = 8 ->
    cB_run 8 164 code fuel fno (concat (bitsB blk) ++ concat (firstn 164 KS))
    = concat (bitsB (m64_encrypt {| ks_rounds := N.of_nat R; ks_sched := sched |} blk)).
  Proof.
    intros fno KS hdrtail sched Hh Hs HKS blk Hb. unfold cB_run. cbv zeta.
    (* the header as a byte list: rbytes R is the image of 4 bytes *)
    set (hdr := map (c8_of_bits bool false) (rbytes R) ++ hdrtail).
    assert (Ehdr : bitsB hdr = rbytes R ++ bitsB hdrtail).
    { unfold hdr. rewrite map_app. f_equal. }
    assert (Lhdr : length hdr = 4).
    { unfold hdr. rewrite app_length, map_length. unfold rbytes. cbn [bytes_of length]. unfold byte in *. lia. }
    assert (Lks : length (firstn 164 KS) = 164).
    { rewrite HKS, <- Ehdr, app_length, map_length, sched_image_len64. unfold byte in *. lia. }
    assert (K8 : bytes8 (firstn 164 KS)).
    { rewrite HKS, <- Ehdr. apply Forall_app. split; [apply bitsB_bytes8|].
      apply Forall_concat. apply Forall_forall. intros x Hx. apply in_map_iff in Hx. destruct Hx as [e [<- _]]. apply hb64_len8. }
    rewrite (decode_arg blk (firstn 164 KS) 8 164 Hb Lks K8).
    rewrite firstn_app, map_length, Hb, Nat.sub_diag, firstn_O, app_nil_r, firstn_all2 by (rewrite map_length; lia).
    rewrite skipn_app, map_length, Hb, Nat.sub_diag, skipn_all2 by (rewrite map_length; lia). cbn [app skipn].
    rewrite HKS, <- Ehdr.
    change (repeat (zbyte bool false) 8) with (bitsB (zeros 8)).
    change (bitsB hdr ++ concat (map (KernelSpecs2.half_bytes64 bool) sched)) with (ks_image64 (bitsB hdr) sched).
    destruct (enc64_final code fuel R pl' sh' c t HR0 HR Hflat Hcheck (zeros 8) blk (zeros 8) hdr sched
                eq_refl Hb eq_refl Lhdr Hs) as [st' [Hint [Hout _]]].
    { unfold ks_image64, ks_image. rewrite Ehdr. apply field_val_rounds.
      apply N.le_lt_trans with (m := 40%N); [lia | vm_compute; reflexivity]. }
    rewrite Hint, Hout. reflexivity.
  Qed.
End Compose64.

(* the generic SKINNY-64 CTR encryption with the call to skinny64_ecb_encrypt interpreted by that function's OWN translated
   code: both functions as translated, every request length `size` the CTR part was flattened for, every buffered offset,
   every counter, every key schedule with 1..40 rounds — the reference interpreter returns the model's CTR output and state *)
Theorem pctr64_composed :
  forall fields code fuel pl sh pl' sh' c t fno off size plen           (* the CTR function *)
         code2 fuel2 R pl2 sh2 c2 t2,                                   (* the block function *)
  fields_okb fields = true ->
  flat fields fuel pl sh code = Some (pl', sh', c, t) ->
  check_proc [size; size; 16; 172 + 8 + 8 + 4 + plen] c
    (cspec poly pxor pand pzero pone 8 164 172 (172 + 8) (172 + 8 + 8) fno off size) = true ->
  0 < R -> R <= 40 ->
  flat [ksf] fuel2 [0; 0; 0]%N [(ksf, N.of_nat R)] code2 = Some (pl2, sh2, c2, t2) ->
  check_block_w callP sizes64 2 4 c2 (enc_offs 4 4 R)
    (enc_stepsW poly (k64_subcells poly pxor pand pzero pone) (k64_enc_linear poly pxor pzero pone) R)
    (enc_stepsW bool (k64_subcells bool xorb andb false true) (k64_enc_linear bool xorb false true) R) = true ->
  forall (out inp cnt ecnt hdrtail tw : list byte) (sched : list (half nib)) (CO pad : list (list bool)),
  off <= 8 -> length out = size -> length inp = size -> length cnt = 8 -> length ecnt = 8 ->
  length hdrtail = 0 -> length sched = 40 -> length tw = 8 ->
  length CO = 16 -> bytes8 CO -> length pad = plen -> bytes8 pad ->
  let KS := (rbytes R ++ bitsB hdrtail) ++ concat (map (KernelSpecs2.half_bytes64 bool) sched) ++ bitsB tw in
  let E := m64_encrypt {| ks_rounds := N.of_nat R; ks_sched := sched |} in
  let m0 := img (bitsB inp) CO KS pad (bitsB out) cnt ecnt off in
  SIRProofs.Inv fields sh m0 ->
  forall c' outb,
  crypt unit (fun _ => E) 8 1 {| c_key := tt; c_lanes := [cnt]; c_ecounter := ecnt; c_off := off |} inp = Some (c', outb) ->
  exists st' cnt' ecnt',
    interp fields (cB_run 8 164 code2 fuel2) fuel pl (m0, []) code = Some (pl', st', t) /\
    c_lanes c' = [cnt'] /\ c_ecounter c' = ecnt' /\
    fst st' = img (bitsB inp) CO KS pad (bitsB outb) cnt' ecnt' (c_off c').
Proof.
  intros fields code fuel pl sh pl' sh' c t fno off size plen code2 fuel2 R pl2 sh2 c2 t2 Hf Hfl Hk HR0 HR Hfl2 Hk2
         out inp cnt ecnt hdrtail tw sched CO pad Hoff Ho Hi Hc He Hh Hs Htw HCO HCO8 Hpad Hpad8 KS E m0 HInv c' outb Hcr.
  unfold byte in *.
  assert (Lpre : length ((rbytes R ++ bitsB hdrtail) ++ concat (map (KernelSpecs2.half_bytes64 bool) sched)) = 164).
  { rewrite !app_length, map_length, sched_image_len64, rbytes_len. unfold byte in *. lia. }
  assert (LKS : length KS = 172).
  { unfold KS. rewrite app_assoc, app_length, Lpre, map_length. unfold byte in *. lia. }
  assert (KS8 : bytes8 KS).
  { unfold KS. repeat (apply Forall_app; split); try apply bitsB_bytes8; try apply bytes_of_bytes8.
    apply Forall_concat. apply Forall_forall. intros x Hx. apply in_map_iff in Hx. destruct Hx as [e [<- _]]. apply hb64_len8. }
  assert (FKS : firstn 164 KS = (rbytes R ++ bitsB hdrtail) ++ concat (map (KernelSpecs2.half_bytes64 bool) sched)).
  { unfold KS. rewrite app_assoc, <- Lpre, firstn_app, Nat.sub_diag, firstn_O, app_nil_r. apply firstn_all. }
  apply (pctr_model fields code fuel pl sh pl' sh' c t 8 164 172 fno off size plen Hf Hfl Hk (cB_run 8 164 code2 fuel2) E
           out inp cnt ecnt CO KS pad); try assumption; try lia.
  - intros blk _. apply ProofsApiCtr.m64_encrypt_length.
  - intros blk Hb. exact (enc64_contract code2 fuel2 R pl2 sh2 c2 t2 HR0 HR Hfl2 Hk2 fno KS hdrtail sched Hh Hs FKS blk Hb).
Qed.
Print Assumptions enc128_contract.
Print Assumptions pctr128_composed.
Print Assumptions enc64_contract.
Print Assumptions pctr64_composed.
