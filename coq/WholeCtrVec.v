(* WholeCtrVec.v — the WHOLE SIMD CTR encryption functions (skinny128_ctr_vec128/vec256_encrypt, skinny64_ctr_vec128_encrypt,
   mantis_ctr_vec128_encrypt) as translated into SIR.v with the vector block function (skinny128_ecb_encrypt_four / _eight, ...)
   kept as a PROCEDURE CALL (WholeProc.v), against a specification program that mirrors ModelCtr.crypt_loop at batch size L:
        refill:   ecounter := [the procedure call](counter lanes, key schedule);
                  every counter lane += L (big endian, byte-wise carries, on the ROW-SLICED layout of the lanes);
                  output[pos..] := input[pos..] xor ecounter[..]; offset field updated for a final partial batch
        leftover: output[pos..] := input[pos..] xor ecounter[offset..]; offset := offset + n.
   The L counter blocks are stored transposed: byte k of lane c lies at  coff + (k / rw) * (rw * L) + rw * c + k mod rw
   (rw = bytes per row: 4 for SKINNY-128, 2 for SKINNY-64 and MANTIS).
   Memory: 0 = output, 1 = input, 2 = the CTR object, 3 = the context. *)
From Coq Require Import List Bool NArith Arith Lia.
From Skinny Require Import Bits IR SIR Anf IRCheck KernelSpecs KernelSpecs2 KernelHom KernelHom2 SIRCheck WholeSpecs SIRProofs
                           ModelCipher ModelCtr WholeProc WholeCtr.
Import ListNotations.

Section VecSpec.
  Variable B : Type.
  Variables (bx ba : B -> B -> B) (b0 b1 : B).
  Variables (bs L rw kn coff eoff ooff fno : nat).
  Notation reg := (reg B).
  Definition cpos (c k : nat) : nat := coff + (k / rw) * (rw * L) + rw * c + k mod rw.
  Definition gather (c : nat) (ctx : list (list B)) : list (list B) := map (fun k => nth (cpos c k) ctx []) (seq 0 bs).
  Definition scatter (c : nat) (blk ctx : list (list B)) : list (list B) :=
    fold_left (fun acc k => set_nth (cpos c k) (nth k blk []) acc) (seq 0 bs) ctx.
  Definition incK (inc : N) (c : list (list B)) : list (list B) :=
    rev (inc_rev_bits B bx ba b0 (rev c) (const_bits B b0 b1 16 inc)).
  Definition v_inc_lane (c : nat) (inc : N) (m : mem B) : mem B :=
    mk4m B (reg m 0) (reg m 1) (reg m 2) (scatter c (incK inc (gather c (reg m 3))) (reg m 3)).

  Definition vstmt : stmt := SStore 3 eoff (L * bs) (ECall fno (EConcat [ELoad 3 coff (L * bs); ELoad 3 0 kn])).
  Definition inc_entries : list (entry B) := map (fun c => (None, v_inc_lane c (N.of_nat L))) (seq 0 L).

  Fixpoint vmicro (fuel off size pos : nat) : list (entry B) :=
    match size with
    | O => []
    | S _ =>
      match fuel with
      | O => []
      | S f =>
        if Nat.leb (L * bs) off then
          (Some [vstmt], ident B) :: inc_entries ++
          (if Nat.leb (L * bs) size then (None, s_xor B bx pos eoff (L * bs)) :: vmicro f off (size - L * bs) (pos + L * bs)
           else [(None, s_xor B bx pos eoff size); (None, s_setoff B b0 b1 ooff size)])
        else
          let temp := Nat.min (L * bs - off) size in
          (None, s_xor B bx pos (eoff + off) temp) :: (None, s_setoff B b0 b1 ooff (off + temp))
          :: vmicro f (off + temp) (size - temp) (pos + temp)
      end
    end.
  Definition vspec (off size : nat) : list (entry B) := emerge B (vmicro (S size) off size 0).
End VecSpec.

(* ---- homomorphisms ---- *)
Section VecHom.
  Variables B1 B2 : Type.
  Variables (bx1 ba1 : B1 -> B1 -> B1) (z1 o1 : B1).
  Variables (bx2 ba2 : B2 -> B2 -> B2) (z2 o2 : B2).
  Variable h : B1 -> B2.
  Hypothesis h_bx : forall a b, h (bx1 a b) = bx2 (h a) (h b).
  Hypothesis h_ba : forall a b, h (ba1 a b) = ba2 (h a) (h b).
  Hypothesis h_z : h z1 = z2.
  Hypothesis h_o : h o1 = o2.
  Notation hb := (map (map h)).
  Notation hm := (map (map (map h))).
  Let Hreg := reg_homG B1 B2 h.

  Lemma gather_homG : forall bs L rw coff c ctx, hb (gather B1 bs L rw coff c ctx) = gather B2 bs L rw coff c (hb ctx).
  Proof.
    intros. unfold gather. rewrite map_map. apply map_ext. intros k.
    change (@nil B2) with (map h (@nil B1)). rewrite map_nth. reflexivity.
  Qed.
  Lemma set_nth_hb : forall i (x : list B1) l, hb (set_nth i x l) = set_nth i (map h x) (hb l).
  Proof.
    intros i x l. revert i. induction l as [|y l IH]; intros i; [destruct i; reflexivity|].
    destruct i as [|i]; cbn [set_nth map]; [reflexivity | rewrite IH; reflexivity].
  Qed.
  Lemma scatter_homG : forall bs L rw coff c blk ctx,
    hb (scatter B1 bs L rw coff c blk ctx) = scatter B2 bs L rw coff c (hb blk) (hb ctx).
  Proof.
    intros bs L rw coff c blk ctx. unfold scatter. generalize (seq 0 bs) as ks. intros ks. revert ctx.
    induction ks as [|k ks IH]; intros ctx; [reflexivity|]. cbn [fold_left]. rewrite IH, set_nth_hb. f_equal. f_equal.
    change (@nil B2) with (map h (@nil B1)). rewrite map_nth. reflexivity.
  Qed.
  Lemma incK_homG : forall inc c, hb (incK B1 bx1 ba1 z1 o1 inc c) = incK B2 bx2 ba2 z2 o2 inc (hb c).
  Proof.
    intros inc c. unfold incK.
    rewrite map_rev, (inc_rev_bits_homG B1 B2 bx1 ba1 z1 bx2 ba2 z2 h h_bx h_ba h_z), map_rev,
      (const_bits_hom B1 B2 z1 o1 z2 o2 h h_z h_o). reflexivity.
  Qed.
  Lemma v_inc_lane_homG : forall bs L rw coff c inc m,
    hm (v_inc_lane B1 bx1 ba1 z1 o1 bs L rw coff c inc m) = v_inc_lane B2 bx2 ba2 z2 o2 bs L rw coff c inc (hm m).
  Proof.
    intros. unfold v_inc_lane, mk4m. cbn [map]. rewrite !Hreg, scatter_homG, incK_homG, gather_homG. reflexivity.
  Qed.
End VecHom.

Lemma v_inc_lane_homU : forall bs L rw coff c inc,
  homU (v_inc_lane poly pxor pand pzero pone bs L rw coff c inc) (v_inc_lane bool xorb andb false true bs L rw coff c inc).
Proof.
  intros. intros rho m. unfold mmap, vmap.
  apply v_inc_lane_homG; intros; first [apply peval_pxor | apply peval_pand | reflexivity].
Qed.

Notation vmicroP := (vmicro poly pxor pand pzero pone).
Notation vmicroB := (vmicro bool xorb andb false true).

Lemma Forall2_app_e : forall {X Y} (R : X -> Y -> Prop) a1 b1 a2 b2,
  Forall2 R a1 b1 -> Forall2 R a2 b2 -> Forall2 R (a1 ++ a2) (b1 ++ b2).
Proof. intros X Y R a1 b1 a2 b2 H1 H2. induction H1; [exact H2 | constructor; assumption]. Qed.

Lemma inc_entries_hom : forall bs L rw coff,
  Forall2 entry_homU (inc_entries poly pxor pand pzero pone bs L rw coff) (inc_entries bool xorb andb false true bs L rw coff).
Proof.
  intros. unfold inc_entries. generalize (seq 0 L) as cs. intros cs. induction cs as [|c cs IH]; [constructor|].
  cbn [map]. constructor; [split; [reflexivity | apply v_inc_lane_homU] | exact IH].
Qed.

Lemma vmicro_hom : forall bs L rw kn coff eoff ooff fno fuel off size pos,
  Forall2 entry_homU (vmicroP bs L rw kn coff eoff ooff fno fuel off size pos) (vmicroB bs L rw kn coff eoff ooff fno fuel off size pos).
Proof.
  intros bs L rw kn coff eoff ooff fno fuel. induction fuel as [|f IH]; intros off size pos.
  - destruct size; constructor.
  - destruct size as [|sz]; [constructor|]. cbn [vmicro].
    destruct (Nat.leb (L * bs) off).
    + constructor; [split; [reflexivity | apply ident_homU]|].
      apply Forall2_app_e; [apply inc_entries_hom|].
      destruct (Nat.leb (L * bs) (S sz)).
      * constructor; [split; [reflexivity | apply s_xor_homU] | apply IH].
      * constructor; [split; [reflexivity | apply s_xor_homU]|].
        constructor; [split; [reflexivity | apply s_setoff_homU] | constructor].
    + constructor; [split; [reflexivity | apply s_xor_homU]|].
      constructor; [split; [reflexivity | apply s_setoff_homU] | apply IH].
Qed.

Theorem vspec_hom : forall sizes bs L rw kn coff eoff ooff fno off size,
  Forall2 (entry_hom sizes) (vspec poly pxor pand pzero pone bs L rw kn coff eoff ooff fno off size)
                            (vspec bool xorb andb false true bs L rw kn coff eoff ooff fno off size).
Proof.
  intros. apply entry_homU_hom. unfold vspec, emerge.
  pose proof (vmicro_hom bs L rw kn coff eoff ooff fno (S size) off size 0) as H.
  destruct H as [|a b lP lB Hab Hl]; [constructor | apply emerge_from_hom; assumption].
Qed.

Theorem vctr_final : forall fields code fuel pl sh pl' sh' c t sizes bs L rw kn coff eoff ooff fno off size,
  fields_okb fields = true ->
  flat fields fuel pl sh code = Some (pl', sh', c, t) ->
  check_proc sizes c (vspec poly pxor pand pzero pone bs L rw kn coff eoff ooff fno off size) = true ->
  forall (cB : nat -> list bool -> list bool) (m : mem bool), shaped sizes m -> Inv fields sh m ->
  interp fields cB fuel pl (m, []) code = Some (pl', execB cB c (m, []), t)
  /\ fst (execB cB c (m, [])) = mixed_sem cB (vmicroB bs L rw kn coff eoff ooff fno (S size) off size 0) m.
Proof.
  intros fields code fuel pl sh pl' sh' c t sizes bs L rw kn coff eoff ooff fno off size Hf Hfl Hk cB m Hm HI.
  destruct (fields_okb_sound fields Hf) as [Hd Hn]. split.
  - apply (interp_of_flat fields cB Hd Hn fuel code pl sh m pl' sh' c t HI Hfl).
  - rewrite (check_proc_sound sizes cB c _ _ (vspec_hom sizes bs L rw kn coff eoff ooff fno off size) Hk m Hm).
    unfold vspec. apply emerge_sem.
Qed.
Print Assumptions vctr_final.
