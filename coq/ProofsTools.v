(* ProofsTools.v — C20: the three example programs of ModelTools.v
   (skinny-ctr, skinny-ecb, skinny-tweak) against the library-level results:
   the 1024-byte chunking of the input is invisible, skinny-ctr is the CTR stream
   of the keyed cipher and an involution, skinny-ecb / skinny-tweak encrypt every
   whole block (the trailing partial block is dropped) and -d restores the whole
   blocks; invalid options give no output. *)
From Coq Require Import List Bool NArith ZArith Arith Lia ZifyNat.
From Skinny Require Import Bits SpecSkinny ModelCipher ModelCtr ModelCpu Api
  ProofsCtr ProofsSkinny ProofsApiCtr ModelTools.
Import ListNotations.
Ltac Zify.zify_post_hook ::= Z.div_mod_to_equations.

(* ================================================================== *)
(* chunking                                                            *)
(* ================================================================== *)
Lemma io_chunks_blocks file : io_chunks file = blocks 1024 file.
Proof. reflexivity. Qed.

Lemma io_chunks_concat : forall file, concat (io_chunks file) = file.
Proof. intros file. rewrite io_chunks_blocks. apply blocks_concat. lia. Qed.

(* ================================================================== *)
(* option validation                                                   *)
(* ================================================================== *)
Lemma opts_ok_true bs tweaked key tw : opts_ok bs tweaked key tw = true ->
  bs <= length key <= (if tweaked then 2 * bs else 3 * bs) /\ length (opt_block bs tw) <= bs.
Proof.
  unfold opts_ok. intros H.
  apply andb_prop in H as [H H3]. apply andb_prop in H as [H1 H2].
  apply Nat.leb_le in H1, H2. split; [split; assumption|].
  destruct tw as [t|]; cbn [opt_block].
  - now apply Nat.leb_le in H3.
  - rewrite ProofsSkinny.zeros_length. lia.
Qed.

(* ================================================================== *)
(* skinny-ctr                                                          *)
(* ================================================================== *)
Section CtrTool.
  Variable bs : nat.
  Variable K : Type.
  Variable TK : Type.
  Variable zero_tk : TK.
  Variable tk_ks_of : TK -> K.
  Variable set_key_tk : TK -> buf -> N -> N * TK.
  Variable enc : K -> list byte -> list byte.
  Hypothesis Hbs : 0 < bs.
  Hypothesis Henc : forall k b, length (enc k b) = bs.

  Notation E := (fun t : TK => enc (tk_ks_of t)).
  Lemma HE : forall (k : TK) blk, length (E k blk) = bs.
  Proof. intros k blk. apply Henc. Qed.

  Notation tool := (tool_ctr bs K TK zero_tk tk_ks_of set_key_tk enc).

  (* the loop over the chunks is a sequence of library calls, none of which fails *)
  Lemma ctr_loop_run B : 0 < B -> forall cs st acc,
    exists st' outs, run_calls TK E bs B st cs = Some (st', outs)
      /\ snd (fold_left (fun acc c =>
           match crypt TK (fun t => enc (tk_ks_of t)) bs B (fst acc) c with
           | Some (st', o) => (st', snd acc ++ o)
           | None => acc
           end) cs (st, acc)) = acc ++ concat outs.
  Proof.
    intros HB. induction cs as [|c cs IH]; intros st acc.
    - exists st, []. split; [reflexivity|]. cbn. now rewrite app_nil_r.
    - destruct (crypt_total_any TK E bs B Hbs HB HE st c) as (st1 & o & Hc).
      destruct (IH st1 (acc ++ o)) as (st2 & os & Hr & Hf).
      exists st2, (o :: os). cbn [run_calls fold_left fst snd].
      rewrite Hc, Hr. split; [reflexivity|].
      rewrite Hf. cbn [concat]. now rewrite app_assoc.
  Qed.

  Theorem tool_ctr_spec_gen : forall B key cnt file, 0 < B -> opts_ok bs false key cnt = true ->
    let c := opt_block bs cnt in
    let c0 := zeros (bs - length c) ++ c in
    let k1 := snd (set_key_tk zero_tk (Some key) (N.of_nat (length key))) in
    tool B key cnt file = Some (ctr_xor bs (enc (tk_ks_of k1)) c0 0 file).
  Proof.
    intros B key cnt file HB Hok c c0 k1.
    destruct (opts_ok_true _ _ _ _ Hok) as [_ Hc]. fold c in Hc.
    unfold tool_ctr. rewrite Hok. fold c. f_equal.
    set (st0 := snd (set_counter TK bs B (ctr_fresh TK bs B zero_tk) None 0)).
    assert (Hk0 : c_key st0 = zero_tk).
    { destruct (set_counter_fresh TK E bs B Hbs HB HE (ctr_fresh TK bs B zero_tk) None 0
                  ltac:(lia)) as (_ & _ & Hk). exact Hk. }
    rewrite Hk0. fold k1.
    set (st1 := reset_stream TK bs B (with_key TK st0 k1)).
    destruct (set_counter_fresh TK E bs B Hbs HB HE st1 (Some c) (N.of_nat (length c))
                ltac:(lia)) as (_ & Hf & Hk).
    cbv zeta in Hf. rewrite Nat2N.id, pad_to_self in Hf. fold c0 in Hf.
    set (st2 := snd (set_counter TK bs B st1 (Some c) (N.of_nat (length c)))) in *.
    assert (Hk2 : c_key st2 = k1) by (rewrite Hk; reflexivity).
    destruct (ctr_refinement TK E bs B Hbs HB HE st2 c0 (io_chunks file) Hf)
      as (st' & outs & Hr & Hc2 & _ & _).
    destruct (ctr_loop_run B HB (io_chunks file) st2 []) as (st'' & outs' & Hr' & Hl).
    rewrite Hr in Hr'. injection Hr' as <- <-.
    unfold ctr_loop. rewrite Hl. cbn [app]. rewrite Hc2, io_chunks_concat, Hk2. reflexivity.
  Qed.

  Theorem tool_ctr_invalid_gen : forall B key cnt file, opts_ok bs false key cnt = false ->
    tool B key cnt file = None.
  Proof. intros B key cnt file H. unfold tool_ctr. now rewrite H. Qed.

  Lemma tool_ctr_some_ok B key cnt file out : tool B key cnt file = Some out ->
    opts_ok bs false key cnt = true.
  Proof.
    intros H. destruct (opts_ok bs false key cnt) eqn:E0; [reflexivity|].
    rewrite tool_ctr_invalid_gen in H by exact E0. discriminate.
  Qed.

  Theorem tool_ctr_length_gen : forall B key cnt file out, 0 < B ->
    tool B key cnt file = Some out -> length out = length file.
  Proof.
    intros B key cnt file out HB H. pose proof (tool_ctr_some_ok _ _ _ _ _ H) as Hok.
    rewrite (tool_ctr_spec_gen B key cnt file HB Hok) in H. injection H as <-.
    apply ctr_xor_length; [exact Hbs|]. intros b. apply Henc.
  Qed.

  Theorem tool_ctr_involution_gen : forall B key cnt file out, 0 < B ->
    tool B key cnt file = Some out -> tool B key cnt out = Some file.
  Proof.
    intros B key cnt file out HB H. pose proof (tool_ctr_some_ok _ _ _ _ _ H) as Hok.
    rewrite (tool_ctr_spec_gen B key cnt file HB Hok) in H. injection H as <-.
    rewrite (tool_ctr_spec_gen B key cnt _ HB Hok). cbv zeta. f_equal.
    apply ctr_involution; [exact Hbs|]. intros b. apply Henc.
  Qed.

  Theorem tool_ctr_backend_independent_gen : forall B1 B2 key cnt file, 0 < B1 -> 0 < B2 ->
    tool B1 key cnt file = tool B2 key cnt file.
  Proof.
    intros B1 B2 key cnt file H1 H2. destruct (opts_ok bs false key cnt) eqn:Hok.
    - now rewrite !tool_ctr_spec_gen by assumption.
    - now rewrite !tool_ctr_invalid_gen by assumption.
  Qed.
End CtrTool.

Lemma set_plain128_ks t key n :
  tk_ks byte (snd (set_plain128 t key n)) = snd (m128_set_key (tk_ks byte t) key n).
Proof. unfold set_plain128. destruct (m128_set_key (tk_ks byte t) key n). reflexivity. Qed.
Lemma set_plain64_ks t key n :
  tk_ks nib (snd (set_plain64 t key n)) = snd (m64_set_key (tk_ks nib t) key n).
Proof. unfold set_plain64. destruct (m64_set_key (tk_ks nib t) key n). reflexivity. Qed.

Lemma lt_0_16 : 0 < 16. Proof. lia. Qed.
Lemma lt_0_8 : 0 < 8. Proof. lia. Qed.

(* --- skinny-ctr, 128-bit blocks --- *)
Theorem tool_ctr128_spec : forall B key cnt file, 0 < B -> opts_ok 16 false key cnt = true ->
  let c := opt_block 16 cnt in
  let c0 := zeros (16 - length c) ++ c in
  let ks := snd (m128_set_key (fresh_k128 byte0) (Some key) (N.of_nat (length key))) in
  tool_ctr128 B key cnt file = Some (ctr_xor 16 (m128_encrypt ks) c0 0 file).
Proof.
  intros B key cnt file HB Hok. cbv zeta. unfold tool_ctr128.
  rewrite (tool_ctr_spec_gen 16 ks128 tks128 zero_tks128 (tk_ks byte) set_plain128 m128_encrypt
             lt_0_16 m128_encrypt_length B key cnt file HB Hok).
  cbv zeta. rewrite set_plain128_ks. reflexivity.
Qed.
Theorem tool_ctr128_length : forall B key cnt file out, 0 < B ->
  tool_ctr128 B key cnt file = Some out -> length out = length file.
Proof. exact (tool_ctr_length_gen 16 ks128 tks128 zero_tks128 (tk_ks byte) set_plain128 m128_encrypt
                lt_0_16 m128_encrypt_length). Qed.
Theorem tool_ctr128_involution : forall B key cnt file out, 0 < B ->
  tool_ctr128 B key cnt file = Some out -> tool_ctr128 B key cnt out = Some file.
Proof. exact (tool_ctr_involution_gen 16 ks128 tks128 zero_tks128 (tk_ks byte) set_plain128 m128_encrypt
                lt_0_16 m128_encrypt_length). Qed.
Theorem tool_ctr128_backend_independent : forall B1 B2 key cnt file, 0 < B1 -> 0 < B2 ->
  tool_ctr128 B1 key cnt file = tool_ctr128 B2 key cnt file.
Proof. exact (tool_ctr_backend_independent_gen 16 ks128 tks128 zero_tks128 (tk_ks byte) set_plain128
                m128_encrypt lt_0_16 m128_encrypt_length). Qed.
Theorem tool_ctr128_invalid : forall B key cnt file, opts_ok 16 false key cnt = false ->
  tool_ctr128 B key cnt file = None.
Proof. exact (tool_ctr_invalid_gen 16 ks128 tks128 zero_tks128 (tk_ks byte) set_plain128 m128_encrypt). Qed.

(* --- skinny-ctr, 64-bit blocks --- *)
Theorem tool_ctr64_spec : forall B key cnt file, 0 < B -> opts_ok 8 false key cnt = true ->
  let c := opt_block 8 cnt in
  let c0 := zeros (8 - length c) ++ c in
  let ks := snd (m64_set_key (fresh_k64 byte0) (Some key) (N.of_nat (length key))) in
  tool_ctr64 B key cnt file = Some (ctr_xor 8 (m64_encrypt ks) c0 0 file).
Proof.
  intros B key cnt file HB Hok. cbv zeta. unfold tool_ctr64.
  rewrite (tool_ctr_spec_gen 8 ks64 tks64 zero_tks64 (tk_ks nib) set_plain64 m64_encrypt
             lt_0_8 m64_encrypt_length B key cnt file HB Hok).
  cbv zeta. rewrite set_plain64_ks. reflexivity.
Qed.
Theorem tool_ctr64_length : forall B key cnt file out, 0 < B ->
  tool_ctr64 B key cnt file = Some out -> length out = length file.
Proof. exact (tool_ctr_length_gen 8 ks64 tks64 zero_tks64 (tk_ks nib) set_plain64 m64_encrypt
                lt_0_8 m64_encrypt_length). Qed.
Theorem tool_ctr64_involution : forall B key cnt file out, 0 < B ->
  tool_ctr64 B key cnt file = Some out -> tool_ctr64 B key cnt out = Some file.
Proof. exact (tool_ctr_involution_gen 8 ks64 tks64 zero_tks64 (tk_ks nib) set_plain64 m64_encrypt
                lt_0_8 m64_encrypt_length). Qed.
Theorem tool_ctr64_backend_independent : forall B1 B2 key cnt file, 0 < B1 -> 0 < B2 ->
  tool_ctr64 B1 key cnt file = tool_ctr64 B2 key cnt file.
Proof. exact (tool_ctr_backend_independent_gen 8 ks64 tks64 zero_tks64 (tk_ks nib) set_plain64
                m64_encrypt lt_0_8 m64_encrypt_length). Qed.
Theorem tool_ctr64_invalid : forall B key cnt file, opts_ok 8 false key cnt = false ->
  tool_ctr64 B key cnt file = None.
Proof. exact (tool_ctr_invalid_gen 8 ks64 tks64 zero_tks64 (tk_ks nib) set_plain64 m64_encrypt). Qed.

(* ================================================================== *)
(* whole blocks of a file                                              *)
(* ================================================================== *)
Definition whole_blocks (bs : nat) (file : list byte) : list byte :=
  firstn (length file - length file mod bs) file.

Lemma whole_is_whole_blocks bs l : whole bs l = whole_blocks bs l.
Proof. reflexivity. Qed.

Lemma whole_blocks_nil bs : whole_blocks bs [] = [].
Proof. unfold whole_blocks. apply firstn_nil. Qed.

Lemma whole_blocks_length bs l : 0 < bs -> length (whole_blocks bs l) = (length l / bs) * bs.
Proof.
  intros Hbs. unfold whole_blocks. rewrite firstn_length.
  pose proof (Nat.div_mod (length l) bs ltac:(lia)) as E.
  pose proof (Nat.mod_upper_bound (length l) bs ltac:(lia)) as U.
  rewrite (Nat.mul_comm _ bs).
  set (q := length l / bs) in *. set (r := length l mod bs) in *. lia.
Qed.

Lemma whole_blocks_mod bs l : 0 < bs -> length (whole_blocks bs l) mod bs = 0.
Proof. intros Hbs. rewrite whole_blocks_length by exact Hbs. apply Nat.mod_mul. lia. Qed.

Lemma whole_blocks_id bs l k : 0 < bs -> length l = k * bs -> whole_blocks bs l = l.
Proof.
  intros Hbs H. unfold whole_blocks. rewrite H, Nat.mod_mul, Nat.sub_0_r, <- H by lia.
  apply firstn_all.
Qed.

Lemma whole_blocks_app bs k c rest : 0 < bs -> length c = k * bs ->
  whole_blocks bs (c ++ rest) = c ++ whole_blocks bs rest.
Proof.
  intros Hbs H. unfold whole_blocks. rewrite app_length, H.
  rewrite (Nat.add_comm (k * bs)), Nat.mod_add by lia.
  pose proof (Nat.mod_le (length rest) bs ltac:(lia)) as L.
  rewrite firstn_app, H. f_equal.
  - apply firstn_all2. lia.
  - f_equal. lia.
Qed.

Lemma whole_blocks_short bs l : length l < bs -> whole_blocks bs l = [].
Proof. intros H. unfold whole_blocks. rewrite Nat.mod_small, Nat.sub_diag by exact H. reflexivity. Qed.

Lemma div_app_len bs k a b : 0 < bs -> a = k * bs -> (a + b) / bs = k + b / bs.
Proof. intros Hbs ->. rewrite Nat.add_comm, Nat.div_add by lia. lia. Qed.

(* every chunk of size N (a multiple of the block size) contributes its whole
   blocks; only the last chunk can have a partial block *)
Section WholeChunks.
  Variables bs N : nat.
  Hypothesis Hbs : 0 < bs.
  Hypothesis HN : 0 < N.
  Hypothesis HNm : N mod bs = 0.
  Variable f : list byte -> list byte.

  Definition ecb_all (l : list byte) : list byte := concat (map f (blocks bs (whole_blocks bs l))).

  Lemma ecb_all_app k c rest : length c = k * bs -> ecb_all (c ++ rest) = ecb_all c ++ ecb_all rest.
  Proof.
    intros H. unfold ecb_all. rewrite (whole_blocks_app bs k c rest Hbs H).
    rewrite (whole_blocks_id bs c k Hbs H), (blocks_app bs Hbs k c _ H), map_app, concat_app.
    reflexivity.
  Qed.

  Lemma N_mult : N = (N / bs) * bs.
  Proof. pose proof (Nat.div_mod N bs ltac:(lia)). lia. Qed.

  Lemma ecb_chunks : forall k file, length file <= k * N ->
    concat (map ecb_all (blocks N file)) = ecb_all file.
  Proof.
    induction k as [|k IH]; intros file H.
    - destruct file; [|cbn in H; lia]. unfold ecb_all. now rewrite whole_blocks_nil.
    - destruct file as [|x file']; [unfold ecb_all; now rewrite whole_blocks_nil|].
      set (file := x :: file') in *.
      rewrite (blocks_step N file HN) by discriminate. cbn [map concat].
      destruct (le_lt_dec (length file) N) as [Hs|Hl].
      + rewrite firstn_all2, skipn_all2 by exact Hs. cbn. now rewrite app_nil_r.
      + rewrite IH by (rewrite skipn_length; lia).
        rewrite <- (firstn_skipn N file) at 3.
        symmetry. apply (ecb_all_app (N / bs)).
        rewrite firstn_length, <- N_mult. lia.
  Qed.
End WholeChunks.

(* ================================================================== *)
(* skinny-ecb                                                          *)
(* ================================================================== *)
Section EcbTool.
  Variable bs : nat.
  Variable K : Type.
  Variable set_key_k : K -> buf -> N -> N * K.
  Variable zero_k : K.
  Variable enc dec : K -> list byte -> list byte.
  Hypothesis Hbs : 0 < bs.
  Hypothesis Hchunk : 1024 mod bs = 0.

  Notation tool := (tool_ecb bs K set_key_k zero_k enc dec).

  Theorem tool_ecb_spec_gen : forall has_vt psize decrypt key file, 0 < psize -> psize mod bs = 0 ->
    opts_ok bs false key None = true ->
    let ks := snd (set_key_k zero_k (Some key) (N.of_nat (length key))) in
    tool has_vt psize decrypt key file
    = Some (concat (map (if decrypt then dec ks else enc ks) (blocks bs (whole_blocks bs file)))).
  Proof.
    intros has_vt psize decrypt key file Hp Hpm Hok ks. unfold tool_ecb. rewrite Hok. fold ks.
    set (f := if decrypt then dec ks else enc ks). f_equal.
    change (concat (map f (blocks bs (whole_blocks bs file)))) with (ecb_all bs f file).
    rewrite <- (ecb_chunks bs 1024 Hbs ltac:(lia) Hchunk f (length file) file) by lia.
    rewrite io_chunks_blocks. f_equal. apply map_ext. intros c.
    rewrite whole_is_whole_blocks.
    rewrite (par_crypt_spec bs (fun _ => f) has_vt psize _ _ Hbs Hp Hpm
               (whole_blocks_mod bs c Hbs) eq_refl).
    cbv beta. rewrite (map_combine_diag f). reflexivity.
  Qed.

  Theorem tool_ecb_invalid_gen : forall v p d key file, opts_ok bs false key None = false ->
    tool v p d key file = None.
  Proof. intros v p d key file H. unfold tool_ecb. now rewrite H. Qed.

  Hypothesis Henc : forall k b, length (enc k b) = bs.
  Hypothesis Hrt : forall key, opts_ok bs false key None = true ->
    let ks := snd (set_key_k zero_k (Some key) (N.of_nat (length key))) in
    forall b, length b = bs -> dec ks (enc ks b) = b.

  Theorem tool_ecb_roundtrip_gen : forall v1 p1 v2 p2 key file out,
    0 < p1 -> p1 mod bs = 0 -> 0 < p2 -> p2 mod bs = 0 ->
    tool v1 p1 false key file = Some out -> tool v2 p2 true key out = Some (whole_blocks bs file).
  Proof.
    intros v1 p1 v2 p2 key file out H1 H1m H2 H2m H.
    assert (Hok : opts_ok bs false key None = true).
    { destruct (opts_ok bs false key None) eqn:E0; [reflexivity|].
      rewrite tool_ecb_invalid_gen in H by exact E0. discriminate. }
    rewrite (tool_ecb_spec_gen v1 p1 false key file H1 H1m Hok) in H. injection H as <-.
    rewrite (tool_ecb_spec_gen v2 p2 true key _ H2 H2m Hok). cbv zeta. f_equal.
    set (ks := snd (set_key_k zero_k (Some key) (N.of_nat (length key)))).
    rewrite (whole_blocks_id bs _ (length (blocks bs (whole_blocks bs file))) Hbs)
      by (apply concat_map_length; intros b; apply Henc).
    apply par_roundtrip_gen; [exact Hbs|apply Henc|exact (Hrt key Hok)|].
    now apply whole_blocks_mod.
  Qed.
End EcbTool.

Lemma m128_set_key_accepts ks key n : 16 <= n <= 48 ->
  m128_set_key ks (Some key) (N.of_nat n) = (1%N, snd (m128_set_key ks (Some key) (N.of_nat n))).
Proof.
  intros H. unfold m128_set_key, set_key. rewrite size_ok_true by lia. reflexivity.
Qed.
Lemma m64_set_key_accepts ks key n : 8 <= n <= 24 ->
  m64_set_key ks (Some key) (N.of_nat n) = (1%N, snd (m64_set_key ks (Some key) (N.of_nat n))).
Proof.
  intros H. unfold m64_set_key, set_key. rewrite size_ok_true by lia. reflexivity.
Qed.

Lemma ecb128_rt : forall key, opts_ok 16 false key None = true ->
  let ks := snd (m128_set_key (fresh_k128 byte0) (Some key) (N.of_nat (length key))) in
  forall b, length b = 16 -> m128_decrypt ks (m128_encrypt ks b) = b.
Proof.
  intros key Hok ks b Hb. destruct (opts_ok_true _ _ _ _ Hok) as [Hk _]. cbv iota in Hk.
  apply (m128_keyed_roundtrip (fresh_k128 byte0) key (length key) ks ltac:(lia) eq_refl
           (repeat_length _ _) (m128_set_key_accepts _ key (length key) ltac:(lia)) b Hb).
Qed.
Lemma ecb64_rt : forall key, opts_ok 8 false key None = true ->
  let ks := snd (m64_set_key (fresh_k64 byte0) (Some key) (N.of_nat (length key))) in
  forall b, length b = 8 -> m64_decrypt ks (m64_encrypt ks b) = b.
Proof.
  intros key Hok ks b Hb. destruct (opts_ok_true _ _ _ _ Hok) as [Hk _]. cbv iota in Hk.
  apply (m64_keyed_roundtrip (fresh_k64 byte0) key (length key) ks ltac:(lia) eq_refl
           (repeat_length _ _) (m64_set_key_accepts _ key (length key) ltac:(lia)) b Hb).
Qed.

Theorem tool_ecb128_spec : forall has_vt psize decrypt key file, 0 < psize -> psize mod 16 = 0 ->
  opts_ok 16 false key None = true ->
  let ks := snd (m128_set_key (fresh_k128 byte0) (Some key) (N.of_nat (length key))) in
  tool_ecb128 has_vt psize decrypt key file
  = Some (concat (map (if decrypt then m128_decrypt ks else m128_encrypt ks)
                      (blocks 16 (whole_blocks 16 file)))).
Proof. exact (tool_ecb_spec_gen 16 ks128 m128_set_key (fresh_k128 byte0) m128_encrypt m128_decrypt
                lt_0_16 eq_refl). Qed.
Theorem tool_ecb128_roundtrip : forall v1 p1 v2 p2 key file out,
  0 < p1 -> p1 mod 16 = 0 -> 0 < p2 -> p2 mod 16 = 0 ->
  tool_ecb128 v1 p1 false key file = Some out ->
  tool_ecb128 v2 p2 true key out = Some (whole_blocks 16 file).
Proof. exact (tool_ecb_roundtrip_gen 16 ks128 m128_set_key (fresh_k128 byte0) m128_encrypt m128_decrypt
                lt_0_16 eq_refl m128_encrypt_length ecb128_rt). Qed.
Theorem tool_ecb128_invalid : forall v p d key file, opts_ok 16 false key None = false ->
  tool_ecb128 v p d key file = None.
Proof. exact (tool_ecb_invalid_gen 16 ks128 m128_set_key (fresh_k128 byte0) m128_encrypt m128_decrypt). Qed.

Theorem tool_ecb64_spec : forall has_vt psize decrypt key file, 0 < psize -> psize mod 8 = 0 ->
  opts_ok 8 false key None = true ->
  let ks := snd (m64_set_key (fresh_k64 byte0) (Some key) (N.of_nat (length key))) in
  tool_ecb64 has_vt psize decrypt key file
  = Some (concat (map (if decrypt then m64_decrypt ks else m64_encrypt ks)
                      (blocks 8 (whole_blocks 8 file)))).
Proof. exact (tool_ecb_spec_gen 8 ks64 m64_set_key (fresh_k64 byte0) m64_encrypt m64_decrypt
                lt_0_8 eq_refl). Qed.
Theorem tool_ecb64_roundtrip : forall v1 p1 v2 p2 key file out,
  0 < p1 -> p1 mod 8 = 0 -> 0 < p2 -> p2 mod 8 = 0 ->
  tool_ecb64 v1 p1 false key file = Some out ->
  tool_ecb64 v2 p2 true key out = Some (whole_blocks 8 file).
Proof. exact (tool_ecb_roundtrip_gen 8 ks64 m64_set_key (fresh_k64 byte0) m64_encrypt m64_decrypt
                lt_0_8 eq_refl m64_encrypt_length ecb64_rt). Qed.
Theorem tool_ecb64_invalid : forall v p d key file, opts_ok 8 false key None = false ->
  tool_ecb64 v p d key file = None.
Proof. exact (tool_ecb_invalid_gen 8 ks64 m64_set_key (fresh_k64 byte0) m64_encrypt m64_decrypt). Qed.

(* ================================================================== *)
(* skinny-tweak                                                        *)
(* ================================================================== *)
Lemma length0_nil {A} (l : list A) : length l = 0 -> l = [].
Proof. destruct l; [reflexivity|discriminate]. Qed.

Lemma pad_to_nil n : pad_to n [] = zeros n.
Proof. rewrite pad_to_ge by (cbn; lia). cbn [length app]. now rewrite Nat.sub_0_r. Qed.

Section TweakTool.
  Variable bs : nat.
  Variable K TK : Type.
  Variable zero_tk : TK.
  Variable tk_ks_of : TK -> K.
  Variable set_tweaked : TK -> buf -> N -> N * TK.
  Variable set_tweak : TK -> buf -> N -> N * TK.
  Variable enc dec : K -> list byte -> list byte.
  (* the specification's tweakable cipher under the fixed key: tweak block -> block -> block *)
  Variable Fenc Fdec : list byte -> list byte -> list byte.
  (* "t is a schedule for the fixed key whose tweak in force is T" *)
  Variable good : TK -> list byte -> Prop.
  Variable key : list byte.
  Hypothesis Hbs : 0 < bs.
  Hypothesis Hchunk : 1024 mod bs = 0.
  Hypothesis good_crypt : forall t T blk, good t T -> length blk = bs ->
    enc (tk_ks_of t) blk = Fenc T blk /\ dec (tk_ks_of t) blk = Fdec T blk.
  Hypothesis good_step : forall t T w, good t T -> length w <= bs ->
    good (snd (set_tweak t (Some w) (N.of_nat (length w))))
         (if Nat.eqb (length w) 0 then T else pad_to bs w).
  Hypothesis good_init :
    good (snd (set_tweaked zero_tk (Some key) (N.of_nat (length key)))) (zeros bs).

  Definition twF (decrypt : bool) : list byte -> list byte -> list byte :=
    if decrypt then Fdec else Fenc.
  Definition tw_all (tw0 : list byte) (decrypt : bool) (i : nat) (data : list byte) : list byte :=
    concat (map (fun ib => twF decrypt (pad_to bs (ctr_add tw0 (N.of_nat (fst ib)))) (snd ib))
                (combine (seq i (length data / bs)) (blocks bs (whole_blocks bs data)))).

  Lemma tw_all_app tw0 d k c rest i : length c = k * bs ->
    tw_all tw0 d i (c ++ rest) = tw_all tw0 d i c ++ tw_all tw0 d (i + k) rest.
  Proof.
    intros H. unfold tw_all.
    rewrite app_length, (div_app_len bs k _ _ Hbs H), seq_app.
    rewrite (whole_blocks_app bs k c rest Hbs H), (blocks_app bs Hbs k c _ H).
    destruct (blocks_length_k bs Hbs k c H) as [_ HL].
    rewrite combine_app by (rewrite seq_length, HL; reflexivity).
    rewrite map_app, concat_app.
    rewrite H, Nat.div_mul by lia. rewrite (whole_blocks_id bs c k Hbs H). reflexivity.
  Qed.

  Lemma tw_all_short tw0 d i data : length data < bs -> tw_all tw0 d i data = [].
  Proof. intros H. unfold tw_all. rewrite Nat.div_small by exact H. reflexivity. Qed.

  Lemma tw_all_block tw0 d i b : length b = bs ->
    tw_all tw0 d i b = twF d (pad_to bs (ctr_add tw0 (N.of_nat i))) b.
  Proof.
    intros H. unfold tw_all. rewrite H, Nat.div_same by lia.
    rewrite (whole_blocks_id bs b 1 Hbs) by lia.
    rewrite (blocks_single bs b Hbs H). cbn. now rewrite app_nil_r.
  Qed.

  Lemma tw_all_step tw0 d i data : bs <= length data ->
    tw_all tw0 d i data
    = twF d (pad_to bs (ctr_add tw0 (N.of_nat i))) (firstn bs data) ++ tw_all tw0 d (S i) (skipn bs data).
  Proof.
    intros H. rewrite <- (firstn_skipn bs data) at 1.
    assert (Hf : length (firstn bs data) = bs) by (rewrite firstn_length; lia).
    rewrite (tw_all_app tw0 d 1) by lia. rewrite tw_all_block by exact Hf.
    now rewrite Nat.add_1_r.
  Qed.

  Definition twinv (tw0 : list byte) (t : TK) (w : list byte) (i : nat) : Prop :=
    good t (pad_to bs w) /\ w = ctr_add tw0 (N.of_nat i).

  Lemma twinv_next tw0 t w i : length tw0 <= bs -> twinv tw0 t w i ->
    let w' := inc_counter w 1 in
    twinv tw0 (snd (set_tweak t (Some w') (N.of_nat (length w')))) w' (S i).
  Proof.
    intros Hl [Hg Hw] w'.
    assert (Hw' : w' = ctr_add tw0 (N.of_nat (S i))).
    { subst w' w. rewrite inc_counter_is_add, ctr_add_add. f_equal. lia. }
    assert (Hlen : length w' = length w).
    { rewrite Hw', Hw, !ctr_add_length. reflexivity. }
    assert (Hwl : length w' <= bs) by (rewrite Hw', ctr_add_length; exact Hl).
    split; [|exact Hw'].
    pose proof (good_step t _ w' Hg Hwl) as G.
    destruct (Nat.eqb_spec (length w') 0) as [E0|_]; [|exact G].
    assert (Epad : pad_to bs w = pad_to bs w').
    { rewrite (length0_nil w' E0), (length0_nil w) by lia. reflexivity. }
    rewrite <- Epad. exact G.
  Qed.

  Lemma skip_div (data : list byte) : bs <= length data -> length data / bs = S (length (skipn bs data) / bs).
  Proof.
    intros H. rewrite <- (firstn_skipn bs data) at 1. rewrite app_length.
    rewrite (div_app_len bs 1 _ _ Hbs); [reflexivity|]. rewrite firstn_length. lia.
  Qed.

  Lemma tweak_blocks_spec tw0 d : length tw0 <= bs -> forall fuel t w data i,
    twinv tw0 t w i -> length data / bs <= fuel ->
    exists t' w', tweak_blocks bs K TK tk_ks_of set_tweak enc dec fuel d t w data
                  = (tw_all tw0 d i data, t', w')
      /\ twinv tw0 t' w' (i + length data / bs).
  Proof.
    intros Hl. induction fuel as [|fuel IH]; intros t w data i HI Hf.
    - assert (Hs : length data < bs) by (apply Nat.div_small_iff; [lia|]; apply Nat.le_0_r; exact Hf).
      exists t, w. cbn [tweak_blocks]. rewrite tw_all_short by exact Hs.
      rewrite Nat.div_small, Nat.add_0_r by exact Hs. split; [reflexivity|exact HI].
    - cbn [tweak_blocks]. destruct (Nat.leb_spec bs (length data)) as [Hge|Hlt].
      + pose proof (skip_div data Hge) as Hd.
        destruct (IH _ _ (skipn bs data) (S i) (twinv_next tw0 t w i Hl HI) ltac:(lia))
          as (t' & w' & Heq & HI').
        rewrite Heq. exists t', w'. split.
        * rewrite (tw_all_step tw0 d i data Hge).
          assert (Ho : (if d then dec else enc) (tk_ks_of t) (firstn bs data)
                       = twF d (pad_to bs (ctr_add tw0 (N.of_nat i))) (firstn bs data)).
          { destruct HI as [Hg Hw].
            destruct (good_crypt t _ (firstn bs data) Hg) as [He Hdc];
              [rewrite firstn_length; lia|].
            rewrite <- Hw. unfold twF. destruct d; [exact Hdc|exact He]. }
          rewrite Ho. reflexivity.
        * rewrite Hd. replace (i + S (length (skipn bs data) / bs))
            with (S i + length (skipn bs data) / bs) by lia. exact HI'.
      + exists t, w. rewrite tw_all_short by exact Hlt.
        rewrite Nat.div_small, Nat.add_0_r by exact Hlt. split; [reflexivity|exact HI].
  Qed.

  Lemma div_le_self n : n / bs <= n.
  Proof. apply Nat.div_le_upper_bound; [lia|]. nia. Qed.

  Lemma tweak_fold_spec tw0 d N : 0 < N -> N mod bs = 0 -> length tw0 <= bs -> forall k file out t w i,
    length file <= k * N -> twinv tw0 t w i ->
    exists t' w',
      fold_left (fun acc c =>
                   let '(out, t, w) := acc in
                   let '(o, t', w') := tweak_blocks bs K TK tk_ks_of set_tweak enc dec
                                         (length c) d t w c in
                   (out ++ o, t', w')) (blocks N file) (out, t, w)
      = (out ++ tw_all tw0 d i file, t', w').
  Proof.
    intros HN HNm Hl.
    induction k as [|k IH]; intros file out t w i H HI.
    - destruct file; [|cbn in H; lia]. exists t, w. cbn [blocks length chunks fold_left].
      rewrite tw_all_short by (cbn; lia). now rewrite app_nil_r.
    - destruct file as [|x file'].
      { exists t, w. cbn [blocks length chunks fold_left].
        rewrite tw_all_short by (cbn; lia). now rewrite app_nil_r. }
      set (file := x :: file') in *.
      rewrite (blocks_step N file HN) by discriminate. cbn [fold_left].
      destruct (tweak_blocks_spec tw0 d Hl (length (firstn N file)) t w (firstn N file) i HI
                  (div_le_self _)) as (t1 & w1 & Heq & HI1).
      rewrite Heq.
      destruct (le_lt_dec (length file) N) as [Hs|Hlong].
      + rewrite skipn_all2 by exact Hs. rewrite firstn_all2 by exact Hs.
        exists t1, w1. reflexivity.
      + assert (Hc : length (firstn N file) = (N / bs) * bs).
        { rewrite firstn_length, <- (N_mult bs N Hbs HN HNm). lia. }
        rewrite Hc, Nat.div_mul in HI1 by lia.
        destruct (IH (skipn N file) (out ++ tw_all tw0 d i (firstn N file)) t1 w1 _
                    ltac:(rewrite skipn_length; lia) HI1) as (t2 & w2 & Heq2).
        rewrite Heq2. exists t2, w2. f_equal. f_equal.
        rewrite <- app_assoc. f_equal.
        rewrite <- (firstn_skipn N file) at 3. symmetry. now apply tw_all_app.
  Qed.

  Notation tool := (tool_tweak bs K TK zero_tk tk_ks_of set_tweaked set_tweak enc dec).

  Theorem tool_tweak_spec_gen : forall decrypt tw file, opts_ok bs true key tw = true ->
    tool decrypt key tw file = Some (tw_all (opt_block bs tw) decrypt 0 file).
  Proof.
    intros decrypt tw file Hok. destruct (opts_ok_true _ _ _ _ Hok) as [_ Hl].
    unfold tool_tweak. rewrite Hok. f_equal.
    set (tw0 := opt_block bs tw) in *.
    set (t0 := snd (set_tweaked zero_tk (Some key) (N.of_nat (length key)))).
    assert (HI : twinv tw0 (snd (set_tweak t0 (Some tw0) (N.of_nat (length tw0)))) tw0 0).
    { split; [|change (N.of_nat 0) with 0%N; now rewrite ctr_add_0].
      pose proof (good_step t0 _ tw0 good_init Hl) as G.
      destruct (Nat.eqb_spec (length tw0) 0) as [E0|_]; [|exact G].
      assert (Epad : zeros bs = pad_to bs tw0).
      { rewrite (length0_nil tw0 E0), pad_to_nil. reflexivity. }
      rewrite <- Epad. exact G. }
    rewrite io_chunks_blocks.
    destruct (tweak_fold_spec tw0 decrypt 1024 ltac:(lia) Hchunk Hl (length file) file [] _ _ 0 ltac:(lia) HI)
      as (t' & w' & Heq).
    rewrite Heq. reflexivity.
  Qed.

  (* -d after encryption *)
  Hypothesis Fenc_len : forall T b, length (Fenc T b) = bs.
  Hypothesis Fdec_enc : forall T b, length b = bs -> Fdec T (Fenc T b) = b.

  Lemma tw_pairs_roundtrip tw0 : forall bl s, Forall (fun b : list byte => length b = bs) bl ->
    map (fun ib => twF true (pad_to bs (ctr_add tw0 (N.of_nat (fst ib)))) (snd ib))
        (combine (seq s (length bl))
           (map (fun ib => twF false (pad_to bs (ctr_add tw0 (N.of_nat (fst ib)))) (snd ib))
                (combine (seq s (length bl)) bl)))
    = bl.
  Proof.
    induction bl as [|b bl IH]; intros s HF; [reflexivity|].
    inversion HF as [|? ? Hb HF']; subst.
    cbn [length seq combine map fst snd]. f_equal; [|apply IH; exact HF'].
    unfold twF. now apply Fdec_enc.
  Qed.

  Lemma tw_all_roundtrip tw0 file :
    tw_all tw0 true 0 (tw_all tw0 false 0 file) = whole_blocks bs file.
  Proof.
    set (bl := blocks bs (whole_blocks bs file)). set (n := length file / bs).
    destruct (blocks_length_k bs Hbs n (whole_blocks bs file) (whole_blocks_length bs file Hbs))
      as [HF HL]. fold bl in HF, HL.
    set (out := tw_all tw0 false 0 file).
    set (g := fun ib : nat * list byte =>
                twF false (pad_to bs (ctr_add tw0 (N.of_nat (fst ib)))) (snd ib)).
    assert (Hout : out = concat (map g (combine (seq 0 n) bl))) by reflexivity.
    assert (Hlen : length out = n * bs).
    { rewrite Hout, (concat_map_length g bs) by (intros [j b]; apply Fenc_len).
      rewrite combine_length, seq_length, HL, Nat.min_id. reflexivity. }
    unfold tw_all at 1. rewrite Hlen, Nat.div_mul by lia.
    rewrite (whole_blocks_id bs out n Hbs Hlen).
    rewrite Hout, (blocks_of_concat bs Hbs).
    2:{ apply Forall_forall. intros x Hx. apply in_map_iff in Hx as ([j b] & <- & _).
        apply Fenc_len. }
    rewrite <- (blocks_concat bs (whole_blocks bs file) Hbs). fold bl. f_equal.
    rewrite <- HL. now apply tw_pairs_roundtrip.
  Qed.

  Theorem tool_tweak_roundtrip_gen : forall tw file out, tool false key tw file = Some out ->
    tool true key tw out = Some (whole_blocks bs file).
  Proof.
    intros tw file out H.
    assert (Hok : opts_ok bs true key tw = true).
    { destruct (opts_ok bs true key tw) eqn:E0; [reflexivity|].
      unfold tool_tweak in H. rewrite E0 in H. discriminate. }
    rewrite (tool_tweak_spec_gen false tw file Hok) in H. injection H as <-.
    rewrite (tool_tweak_spec_gen true tw _ Hok). f_equal. apply tw_all_roundtrip.
  Qed.
End TweakTool.

(* --- the two instances of "good": reachable by a history of set_tweak calls from the keyed
       schedule, the latest valid tweak being T (C04) --- *)
Lemma latest_tweak_snoc bs cur qs w : length w <= bs ->
  latest_tweak bs cur (qs ++ [(Some w, N.of_nat (length w))])
  = if Nat.eqb (length w) 0 then latest_tweak bs cur qs else pad_to bs w.
Proof.
  intros Hw. unfold latest_tweak. rewrite fold_left_app. cbn [fold_left].
  unfold tweak_valid, tweak_bytes. cbn [fst snd].
  destruct (Nat.eqb_spec (length w) 0) as [E0|Hne].
  - rewrite E0. reflexivity.
  - replace (N.leb 1 (N.of_nat (length w))) with true by (symmetry; apply N.leb_le; lia).
    replace (N.leb (N.of_nat (length w)) (N.of_nat bs)) with true by (symmetry; apply N.leb_le; lia).
    cbn [andb]. rewrite Nat2N.id, firstn_all. reflexivity.
Qed.

Definition good128 (zk : nat) (pk : list byte) (t : tks128) (T : list byte) : Prop :=
  exists qs : list tweak_req,
    t = fold_left (fun t q => snd (m128_set_tweak t (fst q) (snd q))) qs
          (snd (m128_set_tweaked_key zero_tks128 (Some pk) (N.of_nat (16 * zk))))
    /\ latest_tweak 16 (zeros 16) qs = T.
Definition good64 (zk : nat) (pk : list byte) (t : tks64) (T : list byte) : Prop :=
  exists qs : list tweak_req,
    t = fold_left (fun t q => snd (m64_set_tweak t (fst q) (snd q))) qs
          (snd (m64_set_tweaked_key zero_tks64 (Some pk) (N.of_nat (8 * zk))))
    /\ latest_tweak 8 (zeros 8) qs = T.

Lemma good128_crypt zk pk : In zk [1; 2] -> length pk = 16 * zk ->
  forall t T blk, good128 zk pk t T -> length blk = 16 ->
    m128_encrypt (tk_ks byte t) blk = skinny128_tweaked_enc zk pk T blk
    /\ m128_decrypt (tk_ks byte t) blk = skinny128_tweaked_dec zk pk T blk.
Proof.
  intros Hz Hl t T blk (qs & -> & <-) Hb.
  pose proof (c04_tweak_history128 zk zero_tks128 pk qs Hz Hl (repeat_length _ _)) as H.
  cbv zeta in H. destruct H as (_ & _ & _ & H4 & _). exact (H4 blk Hb).
Qed.
Lemma good64_crypt zk pk : In zk [1; 2] -> length pk = 8 * zk ->
  forall t T blk, good64 zk pk t T -> length blk = 8 ->
    m64_encrypt (tk_ks nib t) blk = skinny64_tweaked_enc zk pk T blk
    /\ m64_decrypt (tk_ks nib t) blk = skinny64_tweaked_dec zk pk T blk.
Proof.
  intros Hz Hl t T blk (qs & -> & <-) Hb.
  pose proof (c04_tweak_history64 zk zero_tks64 pk qs Hz Hl (repeat_length _ _)) as H.
  cbv zeta in H. destruct H as (_ & _ & _ & H4 & _). exact (H4 blk Hb).
Qed.

Lemma good128_step zk pk : forall t T w, good128 zk pk t T -> length w <= 16 ->
  good128 zk pk (snd (m128_set_tweak t (Some w) (N.of_nat (length w))))
          (if Nat.eqb (length w) 0 then T else pad_to 16 w).
Proof.
  intros t T w (qs & -> & <-) Hw. exists (qs ++ [(Some w, N.of_nat (length w))]). split.
  - rewrite fold_left_app. reflexivity.
  - now apply latest_tweak_snoc.
Qed.
Lemma good64_step zk pk : forall t T w, good64 zk pk t T -> length w <= 8 ->
  good64 zk pk (snd (m64_set_tweak t (Some w) (N.of_nat (length w))))
         (if Nat.eqb (length w) 0 then T else pad_to 8 w).
Proof.
  intros t T w (qs & -> & <-) Hw. exists (qs ++ [(Some w, N.of_nat (length w))]). split.
  - rewrite fold_left_app. reflexivity.
  - now apply latest_tweak_snoc.
Qed.

Lemma good128_init (key : list byte) : 16 <= length key <= 32 ->
  good128 ((length key + 15) / 16) (pad_to (16 * ((length key + 15) / 16)) key)
          (snd (m128_set_tweaked_key zero_tks128 (Some key) (N.of_nat (length key)))) (zeros 16).
Proof.
  intros Hk. exists []. rewrite (m128_set_tweaked_key_padding zero_tks128 key (length key) Hk eq_refl).
  split; reflexivity.
Qed.
Lemma good64_init (key : list byte) : 8 <= length key <= 16 ->
  good64 ((length key + 7) / 8) (pad_to (8 * ((length key + 7) / 8)) key)
         (snd (m64_set_tweaked_key zero_tks64 (Some key) (N.of_nat (length key)))) (zeros 8).
Proof.
  intros Hk. exists []. rewrite (m64_set_tweaked_key_padding zero_tks64 key (length key) Hk eq_refl).
  split; reflexivity.
Qed.

Lemma zk128_in (key : list byte) : 16 <= length key <= 32 -> In ((length key + 15) / 16) [1; 2].
Proof.
  intros Hk. destruct (ceil_blocks 15 (length key) 2 Hk) as (z & Hz & _ & ->). now apply in12.
Qed.
Lemma zk64_in (key : list byte) : 8 <= length key <= 16 -> In ((length key + 7) / 8) [1; 2].
Proof.
  intros Hk. destruct (ceil_blocks 7 (length key) 2 Hk) as (z & Hz & _ & ->). now apply in12.
Qed.

Lemma tweaked128_enc_length zk pk T b : length (skinny128_tweaked_enc zk pk T b) = 16.
Proof. unfold skinny128_tweaked_enc. apply store128_length. Qed.
Lemma tweaked64_enc_length zk pk T b : length (skinny64_tweaked_enc zk pk T b) = 8.
Proof. unfold skinny64_tweaked_enc. apply store64_length. Qed.

Lemma opts_ok_tweak_key bs (key : list byte) tw : opts_ok bs true key tw = true -> bs <= length key <= 2 * bs.
Proof. intros H. destruct (opts_ok_true _ _ _ _ H) as [Hk _]. exact Hk. Qed.

(* --- skinny-tweak, 128-bit blocks --- *)
Theorem tool_tweak128_spec : forall decrypt key tw file, opts_ok 16 true key tw = true ->
  let zk := (length key + 15) / 16 in let pk := pad_to (16 * zk) key in
  let tw0 := opt_block 16 tw in
  tool_tweak128 decrypt key tw file
  = Some (concat (map (fun ib => (if decrypt then skinny128_tweaked_dec else skinny128_tweaked_enc) zk pk
                                    (pad_to 16 (ctr_add tw0 (N.of_nat (fst ib)))) (snd ib))
                      (combine (seq 0 (length file / 16)) (blocks 16 (whole_blocks 16 file))))).
Proof.
  intros decrypt key tw file Hok zk pk tw0.
  pose proof (opts_ok_tweak_key _ _ _ Hok) as Hk.
  assert (Hpk : length pk = 16 * zk) by apply ProofsSkinny.pad_to_length.
  unfold tool_tweak128.
  rewrite (tool_tweak_spec_gen 16 ks128 tks128 zero_tks128 (tk_ks byte) m128_set_tweaked_key
             m128_set_tweak m128_encrypt m128_decrypt
             (skinny128_tweaked_enc zk pk) (skinny128_tweaked_dec zk pk) (good128 zk pk) key
             lt_0_16 eq_refl (good128_crypt zk pk (zk128_in key Hk) Hpk) (good128_step zk pk)
             (good128_init key Hk) decrypt tw file Hok).
  unfold tw_all, twF. fold tw0. destruct decrypt; reflexivity.
Qed.

Theorem tool_tweak128_invalid : forall d key tw file, opts_ok 16 true key tw = false ->
  tool_tweak128 d key tw file = None.
Proof. intros d key tw file H. unfold tool_tweak128, tool_tweak. now rewrite H. Qed.

Theorem tool_tweak128_roundtrip : forall key tw file out, tool_tweak128 false key tw file = Some out ->
  tool_tweak128 true key tw out = Some (whole_blocks 16 file).
Proof.
  intros key tw file out H.
  destruct (opts_ok 16 true key tw) eqn:Hok;
    [|rewrite tool_tweak128_invalid in H by exact Hok; discriminate].
  pose proof (opts_ok_tweak_key _ _ _ Hok) as Hk.
  set (zk := (length key + 15) / 16). set (pk := pad_to (16 * zk) key).
  assert (Hpk : length pk = 16 * zk) by apply ProofsSkinny.pad_to_length.
  exact (tool_tweak_roundtrip_gen 16 ks128 tks128 zero_tks128 (tk_ks byte) m128_set_tweaked_key
           m128_set_tweak m128_encrypt m128_decrypt
           (skinny128_tweaked_enc zk pk) (skinny128_tweaked_dec zk pk) (good128 zk pk) key
           lt_0_16 eq_refl (good128_crypt zk pk (zk128_in key Hk) Hpk) (good128_step zk pk)
           (good128_init key Hk) (tweaked128_enc_length zk pk)
           (skinny128_tweaked_dec_enc zk pk) tw file out H).
Qed.

(* --- skinny-tweak, 64-bit blocks --- *)
Theorem tool_tweak64_spec : forall decrypt key tw file, opts_ok 8 true key tw = true ->
  let zk := (length key + 7) / 8 in let pk := pad_to (8 * zk) key in
  let tw0 := opt_block 8 tw in
  tool_tweak64 decrypt key tw file
  = Some (concat (map (fun ib => (if decrypt then skinny64_tweaked_dec else skinny64_tweaked_enc) zk pk
                                    (pad_to 8 (ctr_add tw0 (N.of_nat (fst ib)))) (snd ib))
                      (combine (seq 0 (length file / 8)) (blocks 8 (whole_blocks 8 file))))).
Proof.
  intros decrypt key tw file Hok zk pk tw0.
  pose proof (opts_ok_tweak_key _ _ _ Hok) as Hk.
  assert (Hpk : length pk = 8 * zk) by apply ProofsSkinny.pad_to_length.
  unfold tool_tweak64.
  rewrite (tool_tweak_spec_gen 8 ks64 tks64 zero_tks64 (tk_ks nib) m64_set_tweaked_key
             m64_set_tweak m64_encrypt m64_decrypt
             (skinny64_tweaked_enc zk pk) (skinny64_tweaked_dec zk pk) (good64 zk pk) key
             lt_0_8 eq_refl (good64_crypt zk pk (zk64_in key Hk) Hpk) (good64_step zk pk)
             (good64_init key Hk) decrypt tw file Hok).
  unfold tw_all, twF. fold tw0. destruct decrypt; reflexivity.
Qed.

Theorem tool_tweak64_invalid : forall d key tw file, opts_ok 8 true key tw = false ->
  tool_tweak64 d key tw file = None.
Proof. intros d key tw file H. unfold tool_tweak64, tool_tweak. now rewrite H. Qed.

Theorem tool_tweak64_roundtrip : forall key tw file out, tool_tweak64 false key tw file = Some out ->
  tool_tweak64 true key tw out = Some (whole_blocks 8 file).
Proof.
  intros key tw file out H.
  destruct (opts_ok 8 true key tw) eqn:Hok;
    [|rewrite tool_tweak64_invalid in H by exact Hok; discriminate].
  pose proof (opts_ok_tweak_key _ _ _ Hok) as Hk.
  set (zk := (length key + 7) / 8). set (pk := pad_to (8 * zk) key).
  assert (Hpk : length pk = 8 * zk) by apply ProofsSkinny.pad_to_length.
  exact (tool_tweak_roundtrip_gen 8 ks64 tks64 zero_tks64 (tk_ks nib) m64_set_tweaked_key
           m64_set_tweak m64_encrypt m64_decrypt
           (skinny64_tweaked_enc zk pk) (skinny64_tweaked_dec zk pk) (good64 zk pk) key
           lt_0_8 eq_refl (good64_crypt zk pk (zk64_in key Hk) Hpk) (good64_step zk pk)
           (good64_init key Hk) (tweaked64_enc_length zk pk)
           (skinny64_tweaked_dec_enc zk pk) tw file out H).
Qed.

(* ------------------------------------------------------------------ *)
Print Assumptions io_chunks_concat.
Print Assumptions tool_ctr128_spec.
Print Assumptions tool_ctr128_length.
Print Assumptions tool_ctr128_involution.
Print Assumptions tool_ctr128_backend_independent.
Print Assumptions tool_ctr128_invalid.
Print Assumptions tool_ctr64_spec.
Print Assumptions tool_ctr64_length.
Print Assumptions tool_ctr64_involution.
Print Assumptions tool_ctr64_backend_independent.
Print Assumptions tool_ctr64_invalid.
Print Assumptions tool_ecb128_spec.
Print Assumptions tool_ecb128_roundtrip.
Print Assumptions tool_ecb128_invalid.
Print Assumptions tool_ecb64_spec.
Print Assumptions tool_ecb64_roundtrip.
Print Assumptions tool_ecb64_invalid.
Print Assumptions tool_tweak128_spec.
Print Assumptions tool_tweak128_roundtrip.
Print Assumptions tool_tweak128_invalid.
Print Assumptions tool_tweak64_spec.
Print Assumptions tool_tweak64_roundtrip.
Print Assumptions tool_tweak64_invalid.
