(* WholeCtrKey.v — the key / tweak setters of the CTR back ends (skinny128/64_ctr_{def,vec128,vec256}_set_key, _set_tweaked_key,
   _set_tweak; mantis_ctr_{def,vec128}_set_key, _set_tweak) as WHOLE functions: they run the cipher's own key function on the
   key-schedule object at the start of the context and reset the buffered key stream (offset := L * bs).  The specification
   LIFTS the key-schedule specifications of WholeKey.v / WholeMantisKey.v (which are tied to the model there) to the context:

        context' = inner([first kobj bytes of the context; key]) ++ rest of the context,   offset field := L * bs

   Memory: 0 = the CTR object, 1 = key / tweak, rctx = the context. *)
From Coq Require Import List Bool NArith Arith Lia.
From Skinny Require Import Bits IR SIR Anf IRCheck KernelSpecs KernelSpecs2 KernelHom KernelHom2 SIRCheck WholeSpecs SIRProofs Frame
                           ModelCipher WholeBridge WholeKey WholeMantis WholeMantisKey WholeProc WholeCtr.
Import ListNotations.

Section Lift.
  Variable B : Type.
  Variables (b0 b1 : B).
  Notation reg := (reg B).
  Definition w_ctr_lift (inner : mem B -> mem B) (kobj ooff BSZ rctx : nat) (m : mem B) : mem B :=
    let ctx := reg m rctx in
    let r := inner [firstn kobj ctx; reg m 1] in
    [reg m 0; reg m 1;
     splice B (reg r 0 ++ skipn kobj ctx) ooff (bytes_of B b0 4 (const_bits B b0 b1 32 (N.of_nat BSZ)))].
End Lift.

Lemma w_ctr_lift_homU : forall innerP innerB kobj ooff BSZ rctx, homU innerP innerB ->
  homU (w_ctr_lift poly pzero pone innerP kobj ooff BSZ rctx) (w_ctr_lift bool false true innerB kobj ooff BSZ rctx).
Proof.
  intros innerP innerB kobj ooff BSZ rctx H rho m. unfold w_ctr_lift. cbv zeta.
  unfold mmap at 1. cbn [map]. rewrite !reg_mmap. f_equal. f_equal. f_equal.
  unfold vmap.
  rewrite (splice_homG poly bool (peval rho)), map_app, skipn_map.
  rewrite (bytes_of_hom poly bool pzero false (peval rho) eq_refl), (const_bits_hom poly bool pzero pone false true (peval rho) eq_refl eq_refl).
  f_equal. f_equal.
  change (map (map (peval rho)) (reg poly (innerP [firstn kobj (reg poly m rctx); reg poly m 1]) 0))
    with (map (vmap rho) (reg poly (innerP [firstn kobj (reg poly m rctx); reg poly m 1]) 0)).
  rewrite <- reg_mmap, H. unfold mmap at 1. cbn [map]. rewrite firstn_map. reflexivity.
Qed.
Print Assumptions w_ctr_lift_homU.
