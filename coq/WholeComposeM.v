(* WholeComposeM.v — WholeCompose.v for MANTIS: the generic MANTIS CTR encryption (mantis_ctr_def_encrypt, call kept as a
   procedure) composed with mantis_ecb_crypt's own translated code (mcryptA_final). *)
From Coq Require Import List Bool NArith Arith Lia.
From Skinny Require Import Bits SpecSkinny SpecMantis IR SIR Anf IRCheck KernelSpecs KernelSpecs2 KernelHom KernelHom2 SIRCheck WholeSpecs SIRProofs Frame
                           ModelCipher ModelCtr WholeBridge WholeKey WholeMantis WholeProc WholeCtr WholeCtrModel WholeContracts
                           WholeCompose ProofsApiCtr.
Import ListNotations.

Definition cB_runM (code : list SIR.sstmt) (fuel : nat) (pl : list N) (fno : nat) (bits : list bool) : list bool :=
  let L := bytes_of bool false (8 + 40) bits in
  let z := repeat (zbyte bool false) in
  let m0 : mem bool := [z 8; firstn 8 L; skipn 8 L; z 64; z 8; z 8; z 8] in
  match interp [mksfA] callB fuel pl (m0, []) code with
  | Some (_, st', _) => concat (nth 0 (fst st') [])
  | None => []
  end.

(* a 4-byte public field holding R at offset off of region 2 *)
Lemma field_val_at : forall R off (pre tail o b : list (list bool)) rest, length pre = off -> (N.of_nat R < 2 ^ 32)%N ->
  field_val (o :: b :: (pre ++ rbytes R ++ tail) :: rest) (2, off, 4) = N.of_nat R.
Proof.
  intros R off pre tail o b rest Hp HR. unfold field_val, load. cbn [nth seq map]. rewrite <- Hp.
  rewrite !app_nth2_plus.
  unfold rbytes. set (X := const_bits bool false true 32 (N.of_nat R)).
  assert (LX : length X = 32) by (unfold X, const_bits; rewrite map_length, seq_length; reflexivity).
  cbn [bytes_of app nth].
  rewrite !(take_pad_id8 (take_pad bool 8 false _)) by apply take_pad_length.
  change (concat [take_pad bool 8 false (firstn 8 X); take_pad bool 8 false (firstn 8 (skipn 8 X));
                  take_pad bool 8 false (firstn 8 (skipn 8 (skipn 8 X)));
                  take_pad bool 8 false (firstn 8 (skipn 8 (skipn 8 (skipn 8 X))))])
    with (concat (bytes_of bool false 4 X)).
  rewrite concat_bytes_of by exact LX.
  unfold X. rewrite N_of_bits_const_bits. unfold trunc.
  change (N.ones (N.of_nat 32)) with (N.ones 32). rewrite N.land_ones. apply N.mod_small. exact HR.
Qed.

(* the byte image of a MANTIS key schedule with r rounds (the 40-byte MantisKey_t) *)
Definition mimageR (ks : mantis_ks) (r : nat) (tailrest : list byte) : list (list bool) :=
  rgb (mk_k0 ks) ++ rgb (mk_k0p ks) ++ rgb (mk_k1 ks) ++ rgb (mk_tweak ks) ++ rbytes r ++ bitsB tailrest.

Lemma mimageR_mimage : forall ks r tailrest,
  mimageR ks r tailrest = mimage ks (map (c8_of_bits bool false) (rbytes r) ++ tailrest).
Proof. intros ks r tailrest. unfold mimageR, mimage. rewrite map_app. do 4 f_equal. Qed.

Section ComposeM.
  Variables (code : list SIR.sstmt) (fuel r : nat) (pl pl' : list N) (sh' : SIR.shadow) (c : list IR.stmt) (t : list SIR.event).
  Hypothesis Hr : r <= 8.
  Hypothesis Hflat : flat [mksfA] fuel pl [(mksfA, N.of_nat r)] code = Some (pl', sh', c, t).
  Hypothesis Hcheck : check_block callP msizesA c (msteps poly pxor pand pzero pone layA 24 r) (msteps bool xorb andb false true layA 24 r) = true.

  Theorem mantis_contract : forall fno (ks : mantis_ks) (tailrest : list byte),
    length tailrest = 4 -> N.to_nat (mk_rounds ks) = r ->
    forall blk, length blk = 8 ->
    cB_runM code fuel pl fno (concat (bitsB blk) ++ concat (firstn 40 (mimageR ks r tailrest)))
    = concat (bitsB (mantis_crypt ks blk)).
  Proof.
    intros fno ks tailrest Ht Hrounds blk Hb. unfold cB_runM. cbv zeta. unfold byte in *.
    set (tail := map (c8_of_bits bool false) (rbytes r) ++ tailrest).
    assert (Ltail : length tail = 8).
    { unfold tail. rewrite app_length, map_length, rbytes_len. unfold byte in *. lia. }
    assert (LK : length (mimageR ks r tailrest) = 40).
    { rewrite mimageR_mimage. apply (mimage_region ks tail Ltail). }
    assert (K8 : bytes8 (mimageR ks r tailrest)).
    { rewrite mimageR_mimage. apply (mimage_region ks tail Ltail). }
    assert (F40 : firstn 40 (mimageR ks r tailrest) = mimageR ks r tailrest) by (apply firstn_all2; rewrite LK; constructor).
    rewrite F40. clear F40.
    rewrite (decode_arg blk (mimageR ks r tailrest) 8 40 Hb LK K8).
    rewrite firstn_app, map_length, Hb, Nat.sub_diag, firstn_O, app_nil_r, firstn_all2 by (rewrite map_length; lia).
    rewrite skipn_app, map_length, Hb, Nat.sub_diag, skipn_all2 by (rewrite map_length; lia). cbn [app skipn].
    change (repeat (zbyte bool false) 8) with (bitsB (zeros 8)).
    change (repeat (zbyte bool false) 64) with (bitsB (zeros 64)).
    assert (HInv : SIRProofs.Inv [mksfA] [(mksfA, N.of_nat r)]
                     [bitsB (zeros 8); bitsB blk; mimageR ks r tailrest; bitsB (zeros 64); bitsB (zeros 8); bitsB (zeros 8); bitsB (zeros 8)]).
    { apply Inv_single.
      - unfold mksfA, mimageR.
        replace (rgb (mk_k0 ks) ++ rgb (mk_k0p ks) ++ rgb (mk_k1 ks) ++ rgb (mk_tweak ks) ++ rbytes r ++ bitsB tailrest)
          with ((rgb (mk_k0 ks) ++ rgb (mk_k0p ks) ++ rgb (mk_k1 ks) ++ rgb (mk_tweak ks)) ++ rbytes r ++ bitsB tailrest)
          by (rewrite <- !app_assoc; reflexivity).
        apply field_val_at; [rewrite !app_length, !rgb_len; reflexivity|].
        apply N.le_lt_trans with (m := 8%N); [lia | vm_compute; reflexivity].
      - unfold mksfA, field_inb. cbn [nth length]. rewrite LK. split; repeat constructor. }
    rewrite mimageR_mimage in *. fold tail in HInv |- *.
    destruct (mcryptA_final code fuel r pl [(mksfA, N.of_nat r)] pl' sh' c t Hr Hflat Hcheck (zeros 8) blk tail (zeros 64) (zeros 8) (zeros 8) (zeros 8) ks
                eq_refl Hb Ltail eq_refl eq_refl eq_refl eq_refl Hrounds HInv) as [st' [Hint [Hout _]]].
    rewrite Hint, Hout. reflexivity.
  Qed.
End ComposeM.

Theorem pctrM_composed :
  forall fields code fuel pl sh pl' sh' c t fno off size plen           (* mantis_ctr_def_encrypt *)
         code2 fuel2 r pl2 pl2' sh2 c2 t2,                              (* mantis_ecb_crypt *)
  fields_okb fields = true ->
  flat fields fuel pl sh code = Some (pl', sh', c, t) ->
  check_proc [size; size; 16; 40 + 8 + 8 + 4 + plen] c
    (cspec poly pxor pand pzero pone 8 40 40 (40 + 8) (40 + 8 + 8) fno off size) = true ->
  r <= 8 ->
  flat [mksfA] fuel2 pl2 [(mksfA, N.of_nat r)] code2 = Some (pl2', sh2, c2, t2) ->
  check_block callP msizesA c2 (msteps poly pxor pand pzero pone layA 24 r) (msteps bool xorb andb false true layA 24 r) = true ->
  forall (out inp cnt ecnt tailrest : list byte) (ks : mantis_ks) (CO pad : list (list bool)),
  off <= 8 -> length out = size -> length inp = size -> length cnt = 8 -> length ecnt = 8 ->
  length tailrest = 4 -> N.to_nat (mk_rounds ks) = r ->
  length CO = 16 -> bytes8 CO -> length pad = plen -> bytes8 pad ->
  let KS := mimageR ks r tailrest in
  let m0 := img (bitsB inp) CO KS pad (bitsB out) cnt ecnt off in
  SIRProofs.Inv fields sh m0 ->
  forall c' outb,
  crypt unit (fun _ => mantis_crypt ks) 8 1 {| c_key := tt; c_lanes := [cnt]; c_ecounter := ecnt; c_off := off |} inp = Some (c', outb) ->
  exists st' cnt' ecnt',
    interp fields (cB_runM code2 fuel2 pl2) fuel pl (m0, []) code = Some (pl', st', t) /\
    c_lanes c' = [cnt'] /\ c_ecounter c' = ecnt' /\
    fst st' = img (bitsB inp) CO KS pad (bitsB outb) cnt' ecnt' (c_off c').
Proof.
  intros fields code fuel pl sh pl' sh' c t fno off size plen code2 fuel2 r pl2 pl2' sh2 c2 t2 Hf Hfl Hk Hr Hfl2 Hk2
         out inp cnt ecnt tailrest ks CO pad Hoff Ho Hi Hc He Ht Hrounds HCO HCO8 Hpad Hpad8 KS m0 HInv c' outb Hcr.
  unfold byte in *.
  set (tail := map (c8_of_bits bool false) (rbytes r) ++ tailrest).
  assert (Ltail : length tail = 8).
  { unfold tail. rewrite app_length, map_length, rbytes_len. unfold byte in *. lia. }
  assert (LKS : length KS = 40) by (unfold KS; rewrite mimageR_mimage; apply (mimage_region ks tail Ltail)).
  assert (KS8 : bytes8 KS) by (unfold KS; rewrite mimageR_mimage; apply (mimage_region ks tail Ltail)).
  apply (pctr_model fields code fuel pl sh pl' sh' c t 8 40 40 fno off size plen Hf Hfl Hk (cB_runM code2 fuel2 pl2) (mantis_crypt ks)
           out inp cnt ecnt CO KS pad); try assumption; try lia.
  - intros blk _. apply mantis_crypt_length.
  - intros blk Hb. exact (mantis_contract code2 fuel2 r pl2 pl2' sh2 c2 t2 Hr Hfl2 Hk2 fno ks tailrest Ht Hrounds blk Hb).
Qed.
Print Assumptions mantis_contract.
Print Assumptions pctrM_composed.
