(* SpecSkinny.v — the SKINNY family of tweakable block ciphers, transcribed
   from Beierle et al., "The SKINNY Family of Block Ciphers and its
   Low-Latency Variant MANTIS" (CRYPTO 2016 / ePrint 2016/660), section 2.
   Cell level; polymorphic in the bit carrier.  This file contains no code
   from the implementation. *)
From Coq Require Import List Bool.
From Skinny Require Import Bits.
Import ListNotations.

(* ------------------------------------------------------------------ *)
(* S-boxes and tweakey LFSRs on bits (section 2.3 of the paper) *)
Section Sboxes.
  Variable B : Type.
  Variables (bx ba : B -> B -> B) (b0 b1 : B).
  Notation nor := (bnor B bx ba b1).

  (* S4: (x3,x2,x1,x0) -> (x3,x2,x1,x0 xor nor(x3,x2)), then rotate the bit
     positions left; four times, the last rotation omitted *)
  Definition s4_step (x : c4 B) : c4 B :=
    let '(x3, x2, x1, x0) := x in (x3, x2, x1, bx x0 (nor x3 x2)).
  Definition s4_rot (x : c4 B) : c4 B :=
    let '(x3, x2, x1, x0) := x in (x2, x1, x0, x3).
  Definition s4_rot_inv (x : c4 B) : c4 B :=
    let '(x3, x2, x1, x0) := x in (x0, x3, x2, x1).
  Definition S4 (x : c4 B) : c4 B :=
    s4_step (s4_rot (s4_step (s4_rot (s4_step (s4_rot (s4_step x)))))).
  Definition S4inv (x : c4 B) : c4 B :=
    s4_step (s4_rot_inv (s4_step (s4_rot_inv (s4_step (s4_rot_inv (s4_step x)))))).

  (* S8: (x7..x0) -> (x7,x6,x5,x4 xor nor(x7,x6),x3,x2,x1,x0 xor nor(x3,x2)),
     then the bit permutation (x7..x0) -> (x2,x1,x7,x6,x4,x0,x3,x5); four
     times, the last permutation replaced by a swap of x1 and x2 *)
  Definition s8_step (x : c8 B) : c8 B :=
    let '(x7, x6, x5, x4, x3, x2, x1, x0) := x in
    (x7, x6, x5, bx x4 (nor x7 x6), x3, x2, x1, bx x0 (nor x3 x2)).
  Definition s8_perm (x : c8 B) : c8 B :=
    let '(x7, x6, x5, x4, x3, x2, x1, x0) := x in (x2, x1, x7, x6, x4, x0, x3, x5).
  Definition s8_perm_inv (y : c8 B) : c8 B :=
    let '(y7, y6, y5, y4, y3, y2, y1, y0) := y in (y5, y4, y0, y3, y1, y7, y6, y2).
  Definition s8_swap (x : c8 B) : c8 B :=
    let '(x7, x6, x5, x4, x3, x2, x1, x0) := x in (x7, x6, x5, x4, x3, x1, x2, x0).
  Definition S8 (x : c8 B) : c8 B :=
    s8_swap (s8_step (s8_perm (s8_step (s8_perm (s8_step (s8_perm (s8_step x))))))).
  Definition S8inv (x : c8 B) : c8 B :=
    s8_step (s8_perm_inv (s8_step (s8_perm_inv (s8_step (s8_perm_inv (s8_step (s8_swap x))))))).

  (* tweakey LFSRs (table 3 of the paper) *)
  Definition lfsr2_4 (x : c4 B) : c4 B :=
    let '(x3, x2, x1, x0) := x in (x2, x1, x0, bx x3 x2).
  Definition lfsr3_4 (x : c4 B) : c4 B :=
    let '(x3, x2, x1, x0) := x in (bx x0 x3, x3, x2, x1).
  Definition lfsr2_8 (x : c8 B) : c8 B :=
    let '(x7, x6, x5, x4, x3, x2, x1, x0) := x in (x6, x5, x4, x3, x2, x1, x0, bx x7 x5).
  Definition lfsr3_8 (x : c8 B) : c8 B :=
    let '(x7, x6, x5, x4, x3, x2, x1, x0) := x in (bx x0 x6, x7, x6, x5, x4, x3, x2, x1).
End Sboxes.

(* ------------------------------------------------------------------ *)
(* The cipher over an abstract cell type *)
Section Generic.
  Variable C : Type.
  Variable cx : C -> C -> C.
  Variable cnib : bool -> bool -> bool -> bool -> C. (* constant, low nibble given *)
  Variables sb sbi l2 l3 : C -> C.

  Definition row : Type := (C * C * C * C)%type.
  Definition state : Type := (row * row * row * row)%type.

  Definition rx (a b : row) : row :=
    let '(a0, a1, a2, a3) := a in let '(d0, d1, d2, d3) := b in
    (cx a0 d0, cx a1 d1, cx a2 d2, cx a3 d3).
  Definition rmap (f : C -> C) (a : row) : row :=
    let '(a0, a1, a2, a3) := a in (f a0, f a1, f a2, f a3).
  Definition sx (s t : state) : state :=
    let '(s0, s1, s2, s3) := s in let '(t0, t1, t2, t3) := t in
    (rx s0 t0, rx s1 t1, rx s2 t2, rx s3 t3).
  Definition smap (f : C -> C) (s : state) : state :=
    let '(s0, s1, s2, s3) := s in (rmap f s0, rmap f s1, rmap f s2, rmap f s3).

  Definition sub_cells : state -> state := smap sb.
  Definition sub_cells_inv : state -> state := smap sbi.

  (* round constants: 6-bit affine LFSR, updated before use *)
  Definition rc6 : Type := (bool * bool * bool * bool * bool * bool)%type.
  Definition rc_init : rc6 := (false, false, false, false, false, false).
  Definition rc_next (r : rc6) : rc6 :=
    let '(r5, r4, r3, r2, r1, r0) := r in (r4, r3, r2, r1, r0, negb (xorb r5 r4)).
  (* c0 into cell (0,0), c1 into cell (1,0), c2 = 2 into cell (2,0) *)
  Definition add_constants (r : rc6) (s : state) : state :=
    let '(r5, r4, r3, r2, r1, r0) := r in
    let '(s0, s1, s2, s3) := s in
    let '(a0, a1, a2, a3) := s0 in
    let '(d0, d1, d2, d3) := s1 in
    let '(e0, e1, e2, e3) := s2 in
    ((cx a0 (cnib r3 r2 r1 r0), a1, a2, a3),
     (cx d0 (cnib false false r5 r4), d1, d2, d3),
     (cx e0 (cnib false false true false), e1, e2, e3), s3).

  (* AddRoundTweakey: the first two rows of the tweakey arrays *)
  Definition add_round_tweakey (k : row * row) (s : state) : state :=
    let '(s0, s1, s2, s3) := s in (rx s0 (fst k), rx s1 (snd k), s2, s3).
  (* the tweak-domain bit recommended for tweakable use (section 3.1? of the
     paper as implemented): a 1 in bit 1 of cell (0,2) in every round *)
  Definition add_tweak_bit (tweaked : bool) (s : state) : state :=
    if tweaked then
      let '(s0, s1, s2, s3) := s in
      let '(a0, a1, a2, a3) := s0 in
      ((a0, a1, cx a2 (cnib false false true false), a3), s1, s2, s3)
    else s.

  Definition rot1 (a : row) : row := let '(a0, a1, a2, a3) := a in (a3, a0, a1, a2).
  Definition rot2 (a : row) : row := let '(a0, a1, a2, a3) := a in (a2, a3, a0, a1).
  Definition rot3 (a : row) : row := let '(a0, a1, a2, a3) := a in (a1, a2, a3, a0).
  Definition shift_rows (s : state) : state :=
    let '(s0, s1, s2, s3) := s in (s0, rot1 s1, rot2 s2, rot3 s3).
  Definition shift_rows_inv (s : state) : state :=
    let '(s0, s1, s2, s3) := s in (s0, rot3 s1, rot2 s2, rot1 s3).

  (* M = [1 0 1 1; 1 0 0 0; 0 1 1 0; 1 0 1 0] *)
  Definition mix_columns (s : state) : state :=
    let '(s0, s1, s2, s3) := s in (rx s0 (rx s2 s3), s0, rx s1 s2, rx s0 s2).
  (* M^-1 = [0 1 0 0; 0 1 1 1; 0 1 0 1; 1 0 0 1] *)
  Definition mix_columns_inv (s : state) : state :=
    let '(s0, s1, s2, s3) := s in (s1, rx s1 (rx s2 s3), rx s1 s3, rx s0 s3).

  (* tweakey schedule: PT = [9,15,8,13,10,14,12,11,0,1,2,3,4,5,6,7] *)
  Definition permute_tk (t : state) : state :=
    let '(t0, t1, t2, t3) := t in
    let '(c8, c9, c10, c11) := t2 in
    let '(c12, c13, c14, c15) := t3 in
    ((c9, c15, c8, c13), (c10, c14, c12, c11), t0, t1).
  Definition lfsr_rows01 (f : C -> C) (t : state) : state :=
    let '(t0, t1, t2, t3) := t in (rmap f t0, rmap f t1, t2, t3).
  Definition next_tk1 (t : state) : state := permute_tk t.
  Definition next_tk2 (t : state) : state := lfsr_rows01 l2 (permute_tk t).
  Definition next_tk3 (t : state) : state := lfsr_rows01 l3 (permute_tk t).
  Definition rows01 (t : state) : row * row := let '(t0, t1, _, _) := t in (t0, t1).

  Definition round (tweaked : bool) (r : rc6) (k : row * row) (s : state) : state :=
    mix_columns (shift_rows (add_tweak_bit tweaked
      (add_round_tweakey k (add_constants r (sub_cells s))))).
  Definition round_inv (tweaked : bool) (r : rc6) (k : row * row) (s : state) : state :=
    sub_cells_inv (add_constants r (add_round_tweakey k (add_tweak_bit tweaked
      (shift_rows_inv (mix_columns_inv s))))).

  (* the round tweakeys and constants of an n-round cipher *)
  Fixpoint round_keys (n : nat) (r : rc6) (t1 t2 t3 : state) : list (rc6 * (row * row)) :=
    match n with
    | O => []
    | S n' => let r' := rc_next r in
              (r', rows01 (sx t1 (sx t2 t3)))
              :: round_keys n' r' (next_tk1 t1) (next_tk2 t2) (next_tk3 t3)
    end.

  Definition encrypt_with (tweaked : bool) (ks : list (rc6 * (row * row))) (s : state) : state :=
    fold_left (fun s k => round tweaked (fst k) (snd k) s) ks s.
  Definition decrypt_with (tweaked : bool) (ks : list (rc6 * (row * row))) (s : state) : state :=
    fold_left (fun s k => round_inv tweaked (fst k) (snd k) s) (rev ks) s.

  Definition encrypt (tweaked : bool) (n : nat) (t1 t2 t3 : state) : state -> state :=
    encrypt_with tweaked (round_keys n rc_init t1 t2 t3).
  Definition decrypt (tweaked : bool) (n : nat) (t1 t2 t3 : state) : state -> state :=
    decrypt_with tweaked (round_keys n rc_init t1 t2 t3).
End Generic.

Arguments row : clear implicits. Arguments state : clear implicits.

(* ------------------------------------------------------------------ *)
(* Instances: 8-bit cells (SKINNY-128) and 4-bit cells (SKINNY-64) *)
Section Instances.
  Variable B : Type.
  Variables (bx ba : B -> B -> B) (b0 b1 : B).

  Definition sk128_encrypt tweaked n :=
    encrypt (c8 B) (c8x bx) (c8nib B b0 b1) (S8 B bx ba b1)
            (lfsr2_8 B bx) (lfsr3_8 B bx) tweaked n.
  Definition sk128_decrypt tweaked n :=
    decrypt (c8 B) (c8x bx) (c8nib B b0 b1) (S8inv B bx ba b1)
            (lfsr2_8 B bx) (lfsr3_8 B bx) tweaked n.
  Definition sk64_encrypt tweaked n :=
    encrypt (c4 B) (c4x bx) (c4nib B b0 b1) (S4 B bx ba b1)
            (lfsr2_4 B bx) (lfsr3_4 B bx) tweaked n.
  Definition sk64_decrypt tweaked n :=
    decrypt (c4 B) (c4x bx) (c4nib B b0 b1) (S4inv B bx ba b1)
            (lfsr2_4 B bx) (lfsr3_4 B bx) tweaked n.

  (* blocks and tweakey words are loaded row-wise, cell i of the array is
     byte i (SKINNY-128) or nibble i, high nibble of a byte first (SKINNY-64) *)
  Definition z8 : c8 B := c8zero B b0.
  Definition z4 : c4 B := c4zero B b0.
  Definition state128_of_bytes (l : list (c8 B)) : state (c8 B) :=
    let g i := nth i l z8 in
    ((g 0, g 1, g 2, g 3), (g 4, g 5, g 6, g 7),
     (g 8, g 9, g 10, g 11), (g 12, g 13, g 14, g 15)).
  Definition row_list {C} (r : row C) : list C := let '(a, b, c, d) := r in [a; b; c; d].
  Definition bytes_of_state128 (s : state (c8 B)) : list (c8 B) :=
    let '(s0, s1, s2, s3) := s in row_list s0 ++ row_list s1 ++ row_list s2 ++ row_list s3.
  Definition state64_of_bytes (l : list (c8 B)) : state (c4 B) :=
    let h i := c8hi (nth i l z8) in let w i := c8lo (nth i l z8) in
    ((h 0, w 0, h 1, w 1), (h 2, w 2, h 3, w 3),
     (h 4, w 4, h 5, w 5), (h 6, w 6, h 7, w 7)).
  Definition row_bytes64 (r : row (c4 B)) : list (c8 B) :=
    let '(a, b, c, d) := r in [c8join a b; c8join c d].
  Definition bytes_of_state64 (s : state (c4 B)) : list (c8 B) :=
    let '(s0, s1, s2, s3) := s in
    row_bytes64 s0 ++ row_bytes64 s1 ++ row_bytes64 s2 ++ row_bytes64 s3.
  Definition zero128 : state (c8 B) := state128_of_bytes [].
  Definition zero64 : state (c4 B) := state64_of_bytes [].
End Instances.

Arguments row_list {C}.

(* ------------------------------------------------------------------ *)
(* The six variants on byte strings (bool carrier).  A tweakey of z blocks
   is TK1 || .. || TKz; the number of rounds follows table 1 of the paper. *)
Definition firstn_skip {A} (n k : nat) (l : list A) : list A := firstn n (skipn k l).

Definition skinny128_rounds (z : nat) : nat :=
  match z with 1 => 40 | 2 => 48 | _ => 56 end.
Definition skinny64_rounds (z : nat) : nat :=
  match z with 1 => 32 | 2 => 36 | _ => 40 end.

Definition tk128 (z : nat) (i : nat) (key : list byte) : state byte :=
  if Nat.ltb i z then state128_of_bytes bool false (firstn_skip 16 (16 * i) key)
  else zero128 bool false.
Definition tk64 (z : nat) (i : nat) (key : list byte) : state nib :=
  if Nat.ltb i z then state64_of_bytes bool false (firstn_skip 8 (8 * i) key)
  else zero64 bool false.

(* SKINNY-128-(128 z) with tweakey [key] of 16 z bytes *)
Definition skinny128_enc (z : nat) (key blk : list byte) : list byte :=
  bytes_of_state128 bool
    (sk128_encrypt bool xorb andb false true false (skinny128_rounds z)
       (tk128 z 0 key) (tk128 z 1 key) (tk128 z 2 key) (state128_of_bytes bool false blk)).
Definition skinny128_dec (z : nat) (key blk : list byte) : list byte :=
  bytes_of_state128 bool
    (sk128_decrypt bool xorb andb false true false (skinny128_rounds z)
       (tk128 z 0 key) (tk128 z 1 key) (tk128 z 2 key) (state128_of_bytes bool false blk)).
Definition skinny64_enc (z : nat) (key blk : list byte) : list byte :=
  bytes_of_state64 bool
    (sk64_encrypt bool xorb andb false true false (skinny64_rounds z)
       (tk64 z 0 key) (tk64 z 1 key) (tk64 z 2 key) (state64_of_bytes bool false blk)).
Definition skinny64_dec (z : nat) (key blk : list byte) : list byte :=
  bytes_of_state64 bool
    (sk64_decrypt bool xorb andb false true false (skinny64_rounds z)
       (tk64 z 0 key) (tk64 z 1 key) (tk64 z 2 key) (state64_of_bytes bool false blk)).

(* Tweakable use: tweak in TK1, key in TK2 (and TK3), tweak-domain bit set;
   zk = number of key blocks (1 or 2) *)
Definition skinny128_tweaked_enc (zk : nat) (key tweak blk : list byte) : list byte :=
  bytes_of_state128 bool
    (sk128_encrypt bool xorb andb false true true (skinny128_rounds (S zk))
       (state128_of_bytes bool false tweak) (tk128 zk 0 key) (tk128 zk 1 key)
       (state128_of_bytes bool false blk)).
Definition skinny128_tweaked_dec (zk : nat) (key tweak blk : list byte) : list byte :=
  bytes_of_state128 bool
    (sk128_decrypt bool xorb andb false true true (skinny128_rounds (S zk))
       (state128_of_bytes bool false tweak) (tk128 zk 0 key) (tk128 zk 1 key)
       (state128_of_bytes bool false blk)).
Definition skinny64_tweaked_enc (zk : nat) (key tweak blk : list byte) : list byte :=
  bytes_of_state64 bool
    (sk64_encrypt bool xorb andb false true true (skinny64_rounds (S zk))
       (state64_of_bytes bool false tweak) (tk64 zk 0 key) (tk64 zk 1 key)
       (state64_of_bytes bool false blk)).
Definition skinny64_tweaked_dec (zk : nat) (key tweak blk : list byte) : list byte :=
  bytes_of_state64 bool
    (sk64_decrypt bool xorb andb false true true (skinny64_rounds (S zk))
       (state64_of_bytes bool false tweak) (tk64 zk 0 key) (tk64 zk 1 key)
       (state64_of_bytes bool false blk)).
