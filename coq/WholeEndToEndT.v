(* WholeEndToEndT.v — the capstone for C04 (SKINNY-128): a HISTORY of calls, all functions of the current source.
   skinny128_set_tweaked_key's whole-function specification on any prior object, then ANY finite list of valid
   skinny128_set_tweak calls (each one the whole-function specification w_set_tweak128, tied to the C code by the key*_st
   parts), then skinny128_ecb_encrypt's own translated code on the resulting &tk.ks: the result is the SPECIFICATION's
   tweakable cipher under the key and the LATEST tweak — never an earlier one. *)
From Coq Require Import List Bool NArith Arith Lia.
From Skinny Require Import Bits SpecSkinny IR SIR Anf IRCheck KernelSpecs KernelSpecs2 KernelHom KernelHom2 SIRCheck WholeSpecs SIRProofs Frame
                           ModelCipher ProofsSkinny WholeBridge WholeKey WholeProc WholeCtr WholeCtrModel WholeKeyTweak WholeCompose.
Import ListNotations.

Definition imgT (t : tks128) (pad4 : list byte) (rest : list (list bool)) : list (list bool) :=
  (rbytes (N.to_nat (ks_rounds byte (tk_ks byte t))) ++ bitsB pad4)
    ++ concat (map hbT8 (ks_sched byte (tk_ks byte t))) ++ bitsB (tk_tweak byte t) ++ rest.

(* one skinny128_set_tweak(tk, tweak, size) call on the object, as its whole-function specification *)
Definition c_set_tweak128 (R : nat) (q : tweak_req) (ks : list (list bool)) : list (list bool) :=
  nth 0 (w_set_tweak128 bool xorb false R (N.to_nat (snd q)) (match fst q with None => true | Some _ => false end)
           [ks; bitsB (match fst q with Some b => b | None => [] end)]) [].

Lemma ks_eta : forall k : keysched byte, {| ks_rounds := ks_rounds byte k; ks_sched := ks_sched byte k |} = k.
Proof. intros [rr ss]. reflexivity. Qed.

Definition invT (R : nat) (t : tks128) : Prop :=
  length (ks_sched byte (tk_ks byte t)) = 56 /\ length (tk_tweak byte t) = 16 /\ N.to_nat (ks_rounds byte (tk_ks byte t)) = R.

Lemma c_set_tweak128_step : forall R (t : tks128) (q : tweak_req) pad4 rest,
  tweak_valid 16 q = true -> length pad4 = 4 -> R <= 56 -> invT R t ->
  c_set_tweak128 R q (imgT t pad4 rest) = imgT (snd (m128_set_tweak t (fst q) (snd q))) pad4 rest
  /\ invT R (snd (m128_set_tweak t (fst q) (snd q))).
Proof.
  intros R [[rr ss] tw] [b sz] pad4 rest Hv Hp HR (Hs & Ht & Hr). cbn [ks_sched ks_rounds tk_ks tk_tweak fst snd] in *.
  unfold tweak_valid in Hv. cbn [snd] in Hv. apply andb_true_iff in Hv. destruct Hv as [Hv1 Hv2]. apply N.leb_le in Hv1, Hv2.
  assert (Hsz : N.to_nat sz <= 16) by lia.
  unfold m128_set_tweak, set_tweak. cbn [tk_ks tk_tweak ks_rounds ks_sched].
  assert (Hok : size_ok 1 16 sz = true) by (unfold size_ok; apply andb_true_iff; split; apply N.leb_le; lia).
  rewrite Hok. cbn [snd]. rewrite Hr. split.
  - unfold c_set_tweak128, imgT. cbn [fst snd ks_sched ks_rounds tk_ks tk_tweak]. rewrite Hr.
    set (hdr := map (c8_of_bits bool false) (rbytes R) ++ pad4).
    assert (Ehdr : bitsB hdr = rbytes R ++ bitsB pad4) by (unfold hdr; rewrite map_app; f_equal).
    assert (Lhdr : length hdr = 8) by (unfold hdr; rewrite app_length, map_length, rbytes_len; unfold byte in *; lia).
    rewrite <- Ehdr.
    destruct b as [b|].
    + rewrite (w_set_tweak128_model R (N.to_nat sz) false b tw hdr ss rest [] Lhdr Hs Ht HR Hsz). reflexivity.
    + pose proof (w_set_tweak128_model R (N.to_nat sz) true [] tw hdr ss rest [] Lhdr Hs Ht HR Hsz) as Hm. cbv zeta in Hm.
      unfold byte in *. rewrite Hm. reflexivity.
  - unfold invT. cbn [ks_sched ks_rounds tk_ks tk_tweak]. repeat split.
    + unfold xor_tk1. rewrite !sched_loop_len. exact Hs.
    + destruct b; [apply pad_to_length | reflexivity].
    + exact Hr.
Qed.

Lemma c_set_tweak128_fold : forall R pad4 rest (qs : list tweak_req) (t : tks128),
  Forall (fun q => tweak_valid 16 q = true) qs -> length pad4 = 4 -> R <= 56 -> invT R t ->
  fold_left (fun ks q => c_set_tweak128 R q ks) qs (imgT t pad4 rest)
  = imgT (fold_left (fun t q => snd (m128_set_tweak t (fst q) (snd q))) qs t) pad4 rest
  /\ invT R (fold_left (fun t q => snd (m128_set_tweak t (fst q) (snd q))) qs t).
Proof.
  intros R pad4 rest qs. induction qs as [|q qs IH]; intros t Hq Hp HR Hi; [split; [reflexivity | exact Hi]|].
  inversion Hq as [|q' qs' Hv Hqs]; subst. cbn [fold_left].
  destruct (c_set_tweak128_step R t q pad4 rest Hv Hp HR Hi) as [E Hi']. rewrite E. apply IH; assumption.
Qed.

Theorem c_tweak_history_then_encrypt128_spec :
  forall (zk : nat) code fuel pl' sh' c t,                               (* skinny128_ecb_encrypt at the round count of zk+1 *)
  In zk [1; 2] ->
  flat [ksf] fuel [0; 0; 0]%N [(ksf, N.of_nat (skinny128_rounds (S zk)))] code = Some (pl', sh', c, t) ->
  check_block_w callP sizes128 2 8 c (enc_offs 8 8 (skinny128_rounds (S zk)))
    (enc_stepsW poly (k128_subcells poly pxor pand pzero pone) (k128_enc_linear poly pxor pzero pone) (skinny128_rounds (S zk)))
    (enc_stepsW bool (k128_subcells bool xorb andb false true) (k128_enc_linear bool xorb false true) (skinny128_rounds (S zk))) = true ->
  forall (key hdr prevtw out blk st : list byte) (sched : list (half byte)) (rest : list (list bool)) (mrest : mem bool) (qs : list tweak_req),
  length key = 16 * zk -> length hdr = 8 -> length sched = 56 -> length prevtw = 16 ->
  length out = 16 -> length blk = 16 -> length st = 16 ->
  Forall (fun q => tweak_valid 16 q = true) qs ->
  (* the tweakable object after set_tweaked_key and the history qs of set_tweak calls *)
  let obj1 := nth 0 (w_set_tweaked_key128 bool xorb false true (length key)
                       ((bitsB hdr ++ concat (map hbT8 sched) ++ bitsB prevtw ++ rest) :: bitsB key :: mrest)) [] in
  let obj2 := fold_left (fun ks q => c_set_tweak128 (skinny128_rounds (S zk)) q ks) qs obj1 in
  let ksobj := firstn 456 obj2 in                                           (* &tk.ks *)
  exists st', interp [ksf] callB fuel [0; 0; 0]%N (([bitsB out; bitsB blk; ksobj; bitsB st] : mem bool), []) code = Some (pl', st', t)
    /\ nth 0 (fst st') [] = bitsB (skinny128_tweaked_enc zk key (latest_tweak 16 (zeros 16) qs) blk)
    /\ nth 1 (fst st') [] = bitsB blk /\ nth 2 (fst st') [] = ksobj.
Proof.
  intros zk code fuel pl' sh' c t Hz Hflat Hcheck key hdr prevtw out blk st sched rest mrest qs Hk Hh Hs Hp Ho Hb Hst Hqs.
  cbv zeta. unfold byte in *.
  assert (Hk' : 16 <= length key <= 32) by (destruct Hz as [<-|[<-|[]]]; lia).
  set (t0 := {| tk_ks := {| ks_rounds := 0%N; ks_sched := sched |}; tk_tweak := prevtw |} : tks128).
  destruct (w_set_tweaked_key128_model key prevtw hdr sched 0%N rest mrest Hk' Hh Hs Hp) as [_ HW]. cbv zeta in HW.
  unfold byte in *. rewrite HW. cbn [nth]. clear HW. rewrite Hk.
  fold t0.
  set (t1 := snd (m128_set_tweaked_key t0 (Some key) (N.of_nat (16 * zk)))).
  set (R := skinny128_rounds (S zk)) in *.
  assert (HR : 0 < R /\ R <= 56) by (unfold R; destruct Hz as [<-|[<-|[]]]; cbn; lia).
  (* facts about t1 from the model-level theorem with the empty history *)
  destruct (c04_tweak_history128 zk t0 key [] Hz Hk Hs) as (_ & Htw1 & Hr1 & _). cbn [fold_left] in Htw1, Hr1. fold t1 in Htw1, Hr1.
  assert (Hi1 : invT R t1).
  { unfold invT. repeat split.
    - unfold t1, m128_set_tweaked_key, set_tweaked_key.
      rewrite (size_ok_true 16 (2 * 16) (16 * zk)) by (destruct Hz as [<-|[<-|[]]]; lia).
      cbn [snd tk_ks]. unfold set_key_inner.
      destruct (Nat.eqb _ 16); cbn [ks_sched mk_ks]; unfold set_tk1, set_tk2, set_tk3; rewrite !sched_loop_len; exact Hs.
    - replace (tk_tweak _ t1) with (latest_tweak 16 (zeros 16) []) by (symmetry; exact Htw1). reflexivity.
    - replace (ks_rounds _ (tk_ks _ t1)) with (N.of_nat R) by (symmetry; exact Hr1). apply Nat2N.id. }
  assert (E1 : (rbytes (N.to_nat (ks_rounds byte (tk_ks byte t1))) ++ skipn 4 (bitsB hdr))
                 ++ concat (map hbT8 (ks_sched byte (tk_ks byte t1))) ++ bitsB (tk_tweak byte t1) ++ rest
               = imgT t1 (skipn 4 hdr) rest).
  { unfold imgT. rewrite skipn_map. reflexivity. }
  unfold byte in *. rewrite E1.
  assert (Lp : length (skipn 4 hdr) = 4) by (rewrite skipn_length; unfold byte in *; lia).
  destruct (c_set_tweak128_fold R (skipn 4 hdr) rest qs t1 Hqs Lp (proj2 HR) Hi1) as [E2 Hi2]. rewrite E2.
  set (t2 := fold_left (fun t q => snd (m128_set_tweak t (fst q) (snd q))) qs t1) in *.
  destruct Hi2 as (Hs2 & Ht2 & Hr2).
  destruct (c04_tweak_history128 zk t0 key qs Hz Hk Hs) as (_ & _ & _ & Hspec & _). fold t1 t2 in Hspec.
  (* &tk.ks = the first 456 bytes *)
  set (hdr' := map (c8_of_bits bool false) (rbytes R) ++ skipn 4 hdr).
  assert (Ehdr : bitsB hdr' = rbytes R ++ bitsB (skipn 4 hdr)) by (unfold hdr'; rewrite map_app; f_equal).
  assert (Lhdr : length hdr' = 8) by (unfold hdr'; rewrite app_length, map_length, rbytes_len; unfold byte in *; lia).
  assert (F : firstn 456 (imgT t2 (skipn 4 hdr) rest) = ks_image128 (bitsB hdr') (ks_sched byte (tk_ks byte t2))).
  { unfold imgT, ks_image128, ks_image. rewrite Hr2, <- Ehdr.
    assert (L : length (bitsB hdr' ++ concat (map hbT8 (ks_sched byte (tk_ks byte t2)))) = 456).
    { rewrite app_length, map_length, sched_image_len128. unfold byte in *. lia. }
    rewrite app_assoc, <- L, firstn_app, Nat.sub_diag, firstn_O, app_nil_r. apply firstn_all. }
  unfold byte in *. rewrite F.
  destruct (enc128_final code fuel R pl' sh' c t (proj1 HR) (proj2 HR) Hflat Hcheck out blk st hdr' (ks_sched byte (tk_ks byte t2))
              Ho Hb Hst Lhdr Hs2) as [st' [Hint [Hout [H1 H2]]]].
  { unfold ks_image128, ks_image. rewrite Ehdr. apply field_val_rounds.
    apply N.le_lt_trans with (m := 56%N); [lia | vm_compute; reflexivity]. }
  exists st'. repeat split; try assumption.
  rewrite Hout. f_equal.
  replace {| ks_rounds := N.of_nat R; ks_sched := ks_sched byte (tk_ks byte t2) |} with (tk_ks byte t2).
  - apply (proj1 (Hspec blk Hb)).
  - rewrite <- Hr2, N2Nat.id. symmetry. apply ks_eta.
Qed.
Definition imgT64 (t : tks64) (pad4 : list byte) (rest : list (list bool)) : list (list bool) :=
  (rbytes (N.to_nat (ks_rounds nib (tk_ks nib t))) ++ bitsB pad4)
    ++ concat (map hbT4 (ks_sched nib (tk_ks nib t))) ++ bitsB (tk_tweak nib t) ++ rest.

(* one skinny64_set_tweak(tk, tweak, size) call on the object, as its whole-function specification *)
Definition c_set_tweak64 (R : nat) (q : tweak_req) (ks : list (list bool)) : list (list bool) :=
  nth 0 (w_set_tweak64 bool xorb false R (N.to_nat (snd q)) (match fst q with None => true | Some _ => false end)
           [ks; bitsB (match fst q with Some b => b | None => [] end)]) [].

Lemma ks_eta64 : forall k : keysched nib, {| ks_rounds := ks_rounds nib k; ks_sched := ks_sched nib k |} = k.
Proof. intros [rr ss]. reflexivity. Qed.

Definition invT64 (R : nat) (t : tks64) : Prop :=
  length (ks_sched nib (tk_ks nib t)) = 40 /\ length (tk_tweak nib t) = 8 /\ N.to_nat (ks_rounds nib (tk_ks nib t)) = R.

Lemma c_set_tweak64_step : forall R (t : tks64) (q : tweak_req) pad4 rest,
  tweak_valid 8 q = true -> length pad4 = 0 -> R <= 40 -> invT64 R t ->
  c_set_tweak64 R q (imgT64 t pad4 rest) = imgT64 (snd (m64_set_tweak t (fst q) (snd q))) pad4 rest
  /\ invT64 R (snd (m64_set_tweak t (fst q) (snd q))).
Proof.
  intros R [[rr ss] tw] [b sz] pad4 rest Hv Hp HR (Hs & Ht & Hr). cbn [ks_sched ks_rounds tk_ks tk_tweak fst snd] in *.
  unfold tweak_valid in Hv. cbn [snd] in Hv. apply andb_true_iff in Hv. destruct Hv as [Hv1 Hv2]. apply N.leb_le in Hv1, Hv2.
  assert (Hsz : N.to_nat sz <= 8) by lia.
  unfold m64_set_tweak, set_tweak. cbn [tk_ks tk_tweak ks_rounds ks_sched].
  assert (Hok : size_ok 1 8 sz = true) by (unfold size_ok; apply andb_true_iff; split; apply N.leb_le; lia).
  rewrite Hok. cbn [snd]. rewrite Hr. split.
  - unfold c_set_tweak64, imgT64. cbn [fst snd ks_sched ks_rounds tk_ks tk_tweak]. rewrite Hr.
    set (hdr := map (c8_of_bits bool false) (rbytes R) ++ pad4).
    assert (Ehdr : bitsB hdr = rbytes R ++ bitsB pad4) by (unfold hdr; rewrite map_app; f_equal).
    assert (Lhdr : length hdr = 4) by (unfold hdr; rewrite app_length, map_length, rbytes_len; unfold byte in *; lia).
    rewrite <- Ehdr.
    destruct b as [b|].
    + rewrite (w_set_tweak64_model R (N.to_nat sz) false b tw hdr ss rest [] Lhdr Hs Ht HR Hsz). reflexivity.
    + pose proof (w_set_tweak64_model R (N.to_nat sz) true [] tw hdr ss rest [] Lhdr Hs Ht HR Hsz) as Hm. cbv zeta in Hm.
      unfold byte in *. rewrite Hm. reflexivity.
  - unfold invT64. cbn [ks_sched ks_rounds tk_ks tk_tweak]. repeat split.
    + unfold xor_tk1. rewrite !sched_loop_len. exact Hs.
    + destruct b; [apply pad_to_length | reflexivity].
    + exact Hr.
Qed.

Lemma c_set_tweak64_fold : forall R pad4 rest (qs : list tweak_req) (t : tks64),
  Forall (fun q => tweak_valid 8 q = true) qs -> length pad4 = 0 -> R <= 40 -> invT64 R t ->
  fold_left (fun ks q => c_set_tweak64 R q ks) qs (imgT64 t pad4 rest)
  = imgT64 (fold_left (fun t q => snd (m64_set_tweak t (fst q) (snd q))) qs t) pad4 rest
  /\ invT64 R (fold_left (fun t q => snd (m64_set_tweak t (fst q) (snd q))) qs t).
Proof.
  intros R pad4 rest qs. induction qs as [|q qs IH]; intros t Hq Hp HR Hi; [split; [reflexivity | exact Hi]|].
  inversion Hq as [|q' qs' Hv Hqs]; subst. cbn [fold_left].
  destruct (c_set_tweak64_step R t q pad4 rest Hv Hp HR Hi) as [E Hi']. rewrite E. apply IH; assumption.
Qed.

Theorem c_tweak_history_then_encrypt64_spec :
  forall (zk : nat) code fuel pl' sh' c t,                               (* skinny64_ecb_encrypt at the round count of zk+1 *)
  In zk [1; 2] ->
  flat [ksf] fuel [0; 0; 0]%N [(ksf, N.of_nat (skinny64_rounds (S zk)))] code = Some (pl', sh', c, t) ->
  check_block_w callP sizes64 2 4 c (enc_offs 4 4 (skinny64_rounds (S zk)))
    (enc_stepsW poly (k64_subcells poly pxor pand pzero pone) (k64_enc_linear poly pxor pzero pone) (skinny64_rounds (S zk)))
    (enc_stepsW bool (k64_subcells bool xorb andb false true) (k64_enc_linear bool xorb false true) (skinny64_rounds (S zk))) = true ->
  forall (key hdr prevtw out blk st : list byte) (sched : list (half nib)) (rest : list (list bool)) (mrest : mem bool) (qs : list tweak_req),
  length key = 8 * zk -> length hdr = 4 -> length sched = 40 -> length prevtw = 8 ->
  length out = 8 -> length blk = 8 -> length st = 8 ->
  Forall (fun q => tweak_valid 8 q = true) qs ->
  (* the tweakable object after set_tweaked_key and the history qs of set_tweak calls *)
  let obj1 := nth 0 (w_set_tweaked_key64 bool xorb false true (length key)
                       ((bitsB hdr ++ concat (map hbT4 sched) ++ bitsB prevtw ++ rest) :: bitsB key :: mrest)) [] in
  let obj2 := fold_left (fun ks q => c_set_tweak64 (skinny64_rounds (S zk)) q ks) qs obj1 in
  let ksobj := firstn 164 obj2 in                                           (* &tk.ks *)
  exists st', interp [ksf] callB fuel [0; 0; 0]%N (([bitsB out; bitsB blk; ksobj; bitsB st] : mem bool), []) code = Some (pl', st', t)
    /\ nth 0 (fst st') [] = bitsB (skinny64_tweaked_enc zk key (latest_tweak 8 (zeros 8) qs) blk)
    /\ nth 1 (fst st') [] = bitsB blk /\ nth 2 (fst st') [] = ksobj.
Proof.
  intros zk code fuel pl' sh' c t Hz Hflat Hcheck key hdr prevtw out blk st sched rest mrest qs Hk Hh Hs Hp Ho Hb Hst Hqs.
  cbv zeta. unfold byte in *.
  assert (Hk' : 8 <= length key <= 16) by (destruct Hz as [<-|[<-|[]]]; lia).
  set (t0 := {| tk_ks := {| ks_rounds := 0%N; ks_sched := sched |}; tk_tweak := prevtw |} : tks64).
  destruct (w_set_tweaked_key64_model key prevtw hdr sched 0%N rest mrest Hk' Hh Hs Hp) as [_ HW]. cbv zeta in HW.
  unfold byte in *. rewrite HW. cbn [nth]. clear HW. rewrite Hk.
  fold t0.
  set (t1 := snd (m64_set_tweaked_key t0 (Some key) (N.of_nat (8 * zk)))).
  set (R := skinny64_rounds (S zk)) in *.
  assert (HR : 0 < R /\ R <= 40) by (unfold R; destruct Hz as [<-|[<-|[]]]; cbn; lia).
  (* facts about t1 from the model-level theorem with the empty history *)
  destruct (c04_tweak_history64 zk t0 key [] Hz Hk Hs) as (_ & Htw1 & Hr1 & _). cbn [fold_left] in Htw1, Hr1. fold t1 in Htw1, Hr1.
  assert (Hi1 : invT64 R t1).
  { unfold invT64. repeat split.
    - unfold t1, m64_set_tweaked_key, set_tweaked_key.
      rewrite (size_ok_true 8 (2 * 8) (8 * zk)) by (destruct Hz as [<-|[<-|[]]]; lia).
      cbn [snd tk_ks]. unfold set_key_inner.
      destruct (Nat.eqb _ 8); cbn [ks_sched mk_ks]; unfold set_tk1, set_tk2, set_tk3; rewrite !sched_loop_len; exact Hs.
    - replace (tk_tweak _ t1) with (latest_tweak 8 (zeros 8) []) by (symmetry; exact Htw1). reflexivity.
    - replace (ks_rounds _ (tk_ks _ t1)) with (N.of_nat R) by (symmetry; exact Hr1). apply Nat2N.id. }
  assert (E1 : (rbytes (N.to_nat (ks_rounds nib (tk_ks nib t1))) ++ skipn 4 (bitsB hdr))
                 ++ concat (map hbT4 (ks_sched nib (tk_ks nib t1))) ++ bitsB (tk_tweak nib t1) ++ rest
               = imgT64 t1 (skipn 4 hdr) rest).
  { unfold imgT64. rewrite skipn_map. reflexivity. }
  unfold byte in *. rewrite E1.
  assert (Lp : length (skipn 4 hdr) = 0) by (rewrite skipn_length; unfold byte in *; lia).
  destruct (c_set_tweak64_fold R (skipn 4 hdr) rest qs t1 Hqs Lp (proj2 HR) Hi1) as [E2 Hi2]. rewrite E2.
  set (t2 := fold_left (fun t q => snd (m64_set_tweak t (fst q) (snd q))) qs t1) in *.
  destruct Hi2 as (Hs2 & Ht2 & Hr2).
  destruct (c04_tweak_history64 zk t0 key qs Hz Hk Hs) as (_ & _ & _ & Hspec & _). fold t1 t2 in Hspec.
  (* &tk.ks = the first 456 bytes *)
  set (hdr' := map (c8_of_bits bool false) (rbytes R) ++ skipn 4 hdr).
  assert (Ehdr : bitsB hdr' = rbytes R ++ bitsB (skipn 4 hdr)) by (unfold hdr'; rewrite map_app; f_equal).
  assert (Lhdr : length hdr' = 4) by (unfold hdr'; rewrite app_length, map_length, rbytes_len; unfold byte in *; lia).
  assert (F : firstn 164 (imgT64 t2 (skipn 4 hdr) rest) = ks_image64 (bitsB hdr') (ks_sched nib (tk_ks nib t2))).
  { unfold imgT64, ks_image64, ks_image. rewrite Hr2, <- Ehdr.
    assert (L : length (bitsB hdr' ++ concat (map hbT4 (ks_sched nib (tk_ks nib t2)))) = 164).
    { rewrite app_length, map_length, sched_image_len64. unfold byte in *. lia. }
    rewrite app_assoc, <- L, firstn_app, Nat.sub_diag, firstn_O, app_nil_r. apply firstn_all. }
  unfold byte in *. rewrite F.
  destruct (enc64_final code fuel R pl' sh' c t (proj1 HR) (proj2 HR) Hflat Hcheck out blk st hdr' (ks_sched nib (tk_ks nib t2))
              Ho Hb Hst Lhdr Hs2) as [st' [Hint [Hout [H1 H2]]]].
  { unfold ks_image64, ks_image. rewrite Ehdr. apply field_val_rounds.
    apply N.le_lt_trans with (m := 40%N); [lia | vm_compute; reflexivity]. }
  exists st'. repeat split; try assumption.
  rewrite Hout. f_equal.
  replace {| ks_rounds := N.of_nat R; ks_sched := ks_sched nib (tk_ks nib t2) |} with (tk_ks nib t2).
  - apply (proj1 (Hspec blk Hb)).
  - rewrite <- Hr2, N2Nat.id. symmetry. apply ks_eta64.
Qed.
Print Assumptions c_tweak_history_then_encrypt128_spec.
Print Assumptions c_tweak_history_then_encrypt64_spec.

Theorem c_tweak_history_then_decrypt128_spec :
  forall (zk : nat) code fuel pl' sh' c t,                               (* skinny128_ecb_decrypt at the round count of zk+1 *)
  In zk [1; 2] ->
  flat [ksf] fuel [0; 0; 0]%N [(ksf, N.of_nat (skinny128_rounds (S zk)))] code = Some (pl', sh', c, t) ->
  check_block_w callP sizes128 2 8 c (dec_offs 8 8 (skinny128_rounds (S zk)))
    (dec_stepsW poly (k128_subcells_inv poly pxor pand pzero pone) (k128_dec_linear poly pxor pzero pone) (skinny128_rounds (S zk)))
    (dec_stepsW bool (k128_subcells_inv bool xorb andb false true) (k128_dec_linear bool xorb false true) (skinny128_rounds (S zk))) = true ->
  forall (key hdr prevtw out blk st : list byte) (sched : list (half byte)) (rest : list (list bool)) (mrest : mem bool) (qs : list tweak_req),
  length key = 16 * zk -> length hdr = 8 -> length sched = 56 -> length prevtw = 16 ->
  length out = 16 -> length blk = 16 -> length st = 16 ->
  Forall (fun q => tweak_valid 16 q = true) qs ->
  (* the tweakable object after set_tweaked_key and the history qs of set_tweak calls *)
  let obj1 := nth 0 (w_set_tweaked_key128 bool xorb false true (length key)
                       ((bitsB hdr ++ concat (map hbT8 sched) ++ bitsB prevtw ++ rest) :: bitsB key :: mrest)) [] in
  let obj2 := fold_left (fun ks q => c_set_tweak128 (skinny128_rounds (S zk)) q ks) qs obj1 in
  let ksobj := firstn 456 obj2 in                                           (* &tk.ks *)
  exists st', interp [ksf] callB fuel [0; 0; 0]%N (([bitsB out; bitsB blk; ksobj; bitsB st] : mem bool), []) code = Some (pl', st', t)
    /\ nth 0 (fst st') [] = bitsB (skinny128_tweaked_dec zk key (latest_tweak 16 (zeros 16) qs) blk)
    /\ nth 1 (fst st') [] = bitsB blk /\ nth 2 (fst st') [] = ksobj.
Proof.
  intros zk code fuel pl' sh' c t Hz Hflat Hcheck key hdr prevtw out blk st sched rest mrest qs Hk Hh Hs Hp Ho Hb Hst Hqs.
  cbv zeta. unfold byte in *.
  assert (Hk' : 16 <= length key <= 32) by (destruct Hz as [<-|[<-|[]]]; lia).
  set (t0 := {| tk_ks := {| ks_rounds := 0%N; ks_sched := sched |}; tk_tweak := prevtw |} : tks128).
  destruct (w_set_tweaked_key128_model key prevtw hdr sched 0%N rest mrest Hk' Hh Hs Hp) as [_ HW]. cbv zeta in HW.
  unfold byte in *. rewrite HW. cbn [nth]. clear HW. rewrite Hk.
  fold t0.
  set (t1 := snd (m128_set_tweaked_key t0 (Some key) (N.of_nat (16 * zk)))).
  set (R := skinny128_rounds (S zk)) in *.
  assert (HR : 0 < R /\ R <= 56) by (unfold R; destruct Hz as [<-|[<-|[]]]; cbn; lia).
  (* facts about t1 from the model-level theorem with the empty history *)
  destruct (c04_tweak_history128 zk t0 key [] Hz Hk Hs) as (_ & Htw1 & Hr1 & _). cbn [fold_left] in Htw1, Hr1. fold t1 in Htw1, Hr1.
  assert (Hi1 : invT R t1).
  { unfold invT. repeat split.
    - unfold t1, m128_set_tweaked_key, set_tweaked_key.
      rewrite (size_ok_true 16 (2 * 16) (16 * zk)) by (destruct Hz as [<-|[<-|[]]]; lia).
      cbn [snd tk_ks]. unfold set_key_inner.
      destruct (Nat.eqb _ 16); cbn [ks_sched mk_ks]; unfold set_tk1, set_tk2, set_tk3; rewrite !sched_loop_len; exact Hs.
    - replace (tk_tweak _ t1) with (latest_tweak 16 (zeros 16) []) by (symmetry; exact Htw1). reflexivity.
    - replace (ks_rounds _ (tk_ks _ t1)) with (N.of_nat R) by (symmetry; exact Hr1). apply Nat2N.id. }
  assert (E1 : (rbytes (N.to_nat (ks_rounds byte (tk_ks byte t1))) ++ skipn 4 (bitsB hdr))
                 ++ concat (map hbT8 (ks_sched byte (tk_ks byte t1))) ++ bitsB (tk_tweak byte t1) ++ rest
               = imgT t1 (skipn 4 hdr) rest).
  { unfold imgT. rewrite skipn_map. reflexivity. }
  unfold byte in *. rewrite E1.
  assert (Lp : length (skipn 4 hdr) = 4) by (rewrite skipn_length; unfold byte in *; lia).
  destruct (c_set_tweak128_fold R (skipn 4 hdr) rest qs t1 Hqs Lp (proj2 HR) Hi1) as [E2 Hi2]. rewrite E2.
  set (t2 := fold_left (fun t q => snd (m128_set_tweak t (fst q) (snd q))) qs t1) in *.
  destruct Hi2 as (Hs2 & Ht2 & Hr2).
  destruct (c04_tweak_history128 zk t0 key qs Hz Hk Hs) as (_ & _ & _ & Hspec & _). fold t1 t2 in Hspec.
  (* &tk.ks = the first 456 bytes *)
  set (hdr' := map (c8_of_bits bool false) (rbytes R) ++ skipn 4 hdr).
  assert (Ehdr : bitsB hdr' = rbytes R ++ bitsB (skipn 4 hdr)) by (unfold hdr'; rewrite map_app; f_equal).
  assert (Lhdr : length hdr' = 8) by (unfold hdr'; rewrite app_length, map_length, rbytes_len; unfold byte in *; lia).
  assert (F : firstn 456 (imgT t2 (skipn 4 hdr) rest) = ks_image128 (bitsB hdr') (ks_sched byte (tk_ks byte t2))).
  { unfold imgT, ks_image128, ks_image. rewrite Hr2, <- Ehdr.
    assert (L : length (bitsB hdr' ++ concat (map hbT8 (ks_sched byte (tk_ks byte t2)))) = 456).
    { rewrite app_length, map_length, sched_image_len128. unfold byte in *. lia. }
    rewrite app_assoc, <- L, firstn_app, Nat.sub_diag, firstn_O, app_nil_r. apply firstn_all. }
  unfold byte in *. rewrite F.
  destruct (dec128_final code fuel R pl' sh' c t (proj1 HR) (proj2 HR) Hflat Hcheck out blk st hdr' (ks_sched byte (tk_ks byte t2))
              Ho Hb Hst Lhdr Hs2) as [st' [Hint [Hout [H1 H2]]]].
  { unfold ks_image128, ks_image. rewrite Ehdr. apply field_val_rounds.
    apply N.le_lt_trans with (m := 56%N); [lia | vm_compute; reflexivity]. }
  exists st'. repeat split; try assumption.
  rewrite Hout. f_equal.
  replace {| ks_rounds := N.of_nat R; ks_sched := ks_sched byte (tk_ks byte t2) |} with (tk_ks byte t2).
  - apply (proj2 (Hspec blk Hb)).
  - rewrite <- Hr2, N2Nat.id. symmetry. apply ks_eta.
Qed.
Print Assumptions c_tweak_history_then_decrypt128_spec.

Theorem c_tweak_history_then_decrypt64_spec :
  forall (zk : nat) code fuel pl' sh' c t,                               (* skinny64_ecb_decrypt at the round count of zk+1 *)
  In zk [1; 2] ->
  flat [ksf] fuel [0; 0; 0]%N [(ksf, N.of_nat (skinny64_rounds (S zk)))] code = Some (pl', sh', c, t) ->
  check_block_w callP sizes64 2 4 c (dec_offs 4 4 (skinny64_rounds (S zk)))
    (dec_stepsW poly (k64_subcells_inv poly pxor pand pzero pone) (k64_dec_linear poly pxor pzero pone) (skinny64_rounds (S zk)))
    (dec_stepsW bool (k64_subcells_inv bool xorb andb false true) (k64_dec_linear bool xorb false true) (skinny64_rounds (S zk))) = true ->
  forall (key hdr prevtw out blk st : list byte) (sched : list (half nib)) (rest : list (list bool)) (mrest : mem bool) (qs : list tweak_req),
  length key = 8 * zk -> length hdr = 4 -> length sched = 40 -> length prevtw = 8 ->
  length out = 8 -> length blk = 8 -> length st = 8 ->
  Forall (fun q => tweak_valid 8 q = true) qs ->
  (* the tweakable object after set_tweaked_key and the history qs of set_tweak calls *)
  let obj1 := nth 0 (w_set_tweaked_key64 bool xorb false true (length key)
                       ((bitsB hdr ++ concat (map hbT4 sched) ++ bitsB prevtw ++ rest) :: bitsB key :: mrest)) [] in
  let obj2 := fold_left (fun ks q => c_set_tweak64 (skinny64_rounds (S zk)) q ks) qs obj1 in
  let ksobj := firstn 164 obj2 in                                           (* &tk.ks *)
  exists st', interp [ksf] callB fuel [0; 0; 0]%N (([bitsB out; bitsB blk; ksobj; bitsB st] : mem bool), []) code = Some (pl', st', t)
    /\ nth 0 (fst st') [] = bitsB (skinny64_tweaked_dec zk key (latest_tweak 8 (zeros 8) qs) blk)
    /\ nth 1 (fst st') [] = bitsB blk /\ nth 2 (fst st') [] = ksobj.
Proof.
  intros zk code fuel pl' sh' c t Hz Hflat Hcheck key hdr prevtw out blk st sched rest mrest qs Hk Hh Hs Hp Ho Hb Hst Hqs.
  cbv zeta. unfold byte in *.
  assert (Hk' : 8 <= length key <= 16) by (destruct Hz as [<-|[<-|[]]]; lia).
  set (t0 := {| tk_ks := {| ks_rounds := 0%N; ks_sched := sched |}; tk_tweak := prevtw |} : tks64).
  destruct (w_set_tweaked_key64_model key prevtw hdr sched 0%N rest mrest Hk' Hh Hs Hp) as [_ HW]. cbv zeta in HW.
  unfold byte in *. rewrite HW. cbn [nth]. clear HW. rewrite Hk.
  fold t0.
  set (t1 := snd (m64_set_tweaked_key t0 (Some key) (N.of_nat (8 * zk)))).
  set (R := skinny64_rounds (S zk)) in *.
  assert (HR : 0 < R /\ R <= 40) by (unfold R; destruct Hz as [<-|[<-|[]]]; cbn; lia).
  (* facts about t1 from the model-level theorem with the empty history *)
  destruct (c04_tweak_history64 zk t0 key [] Hz Hk Hs) as (_ & Htw1 & Hr1 & _). cbn [fold_left] in Htw1, Hr1. fold t1 in Htw1, Hr1.
  assert (Hi1 : invT64 R t1).
  { unfold invT64. repeat split.
    - unfold t1, m64_set_tweaked_key, set_tweaked_key.
      rewrite (size_ok_true 8 (2 * 8) (8 * zk)) by (destruct Hz as [<-|[<-|[]]]; lia).
      cbn [snd tk_ks]. unfold set_key_inner.
      destruct (Nat.eqb _ 8); cbn [ks_sched mk_ks]; unfold set_tk1, set_tk2, set_tk3; rewrite !sched_loop_len; exact Hs.
    - replace (tk_tweak _ t1) with (latest_tweak 8 (zeros 8) []) by (symmetry; exact Htw1). reflexivity.
    - replace (ks_rounds _ (tk_ks _ t1)) with (N.of_nat R) by (symmetry; exact Hr1). apply Nat2N.id. }
  assert (E1 : (rbytes (N.to_nat (ks_rounds nib (tk_ks nib t1))) ++ skipn 4 (bitsB hdr))
                 ++ concat (map hbT4 (ks_sched nib (tk_ks nib t1))) ++ bitsB (tk_tweak nib t1) ++ rest
               = imgT64 t1 (skipn 4 hdr) rest).
  { unfold imgT64. rewrite skipn_map. reflexivity. }
  unfold byte in *. rewrite E1.
  assert (Lp : length (skipn 4 hdr) = 0) by (rewrite skipn_length; unfold byte in *; lia).
  destruct (c_set_tweak64_fold R (skipn 4 hdr) rest qs t1 Hqs Lp (proj2 HR) Hi1) as [E2 Hi2]. rewrite E2.
  set (t2 := fold_left (fun t q => snd (m64_set_tweak t (fst q) (snd q))) qs t1) in *.
  destruct Hi2 as (Hs2 & Ht2 & Hr2).
  destruct (c04_tweak_history64 zk t0 key qs Hz Hk Hs) as (_ & _ & _ & Hspec & _). fold t1 t2 in Hspec.
  (* &tk.ks = the first 456 bytes *)
  set (hdr' := map (c8_of_bits bool false) (rbytes R) ++ skipn 4 hdr).
  assert (Ehdr : bitsB hdr' = rbytes R ++ bitsB (skipn 4 hdr)) by (unfold hdr'; rewrite map_app; f_equal).
  assert (Lhdr : length hdr' = 4) by (unfold hdr'; rewrite app_length, map_length, rbytes_len; unfold byte in *; lia).
  assert (F : firstn 164 (imgT64 t2 (skipn 4 hdr) rest) = ks_image64 (bitsB hdr') (ks_sched nib (tk_ks nib t2))).
  { unfold imgT64, ks_image64, ks_image. rewrite Hr2, <- Ehdr.
    assert (L : length (bitsB hdr' ++ concat (map hbT4 (ks_sched nib (tk_ks nib t2)))) = 164).
    { rewrite app_length, map_length, sched_image_len64. unfold byte in *. lia. }
    rewrite app_assoc, <- L, firstn_app, Nat.sub_diag, firstn_O, app_nil_r. apply firstn_all. }
  unfold byte in *. rewrite F.
  destruct (dec64_final code fuel R pl' sh' c t (proj1 HR) (proj2 HR) Hflat Hcheck out blk st hdr' (ks_sched nib (tk_ks nib t2))
              Ho Hb Hst Lhdr Hs2) as [st' [Hint [Hout [H1 H2]]]].
  { unfold ks_image64, ks_image. rewrite Ehdr. apply field_val_rounds.
    apply N.le_lt_trans with (m := 40%N); [lia | vm_compute; reflexivity]. }
  exists st'. repeat split; try assumption.
  rewrite Hout. f_equal.
  replace {| ks_rounds := N.of_nat R; ks_sched := ks_sched nib (tk_ks nib t2) |} with (tk_ks nib t2).
  - apply (proj2 (Hspec blk Hb)).
  - rewrite <- Hr2, N2Nat.id. symmetry. apply ks_eta64.
Qed.
Print Assumptions c_tweak_history_then_decrypt64_spec.
