(* WholeCtrVecModel.v — the SIMD CTR specification program of WholeCtrVec.v on the byte image of a model CTR state with L
   counter lanes (stored row-sliced), with the procedure call interpreted as "E on every lane", IS ModelCtr.crypt_loop at
   batch size L: same output bytes, same lanes, same buffered key stream, same offset.
   Part 1 (this file, generic): the loop, for ANY image function that satisfies four step facts.
   Part 2: the step facts for the concrete layouts (L = 4, rw = 4, bs = 16), (8, 4, 16), (8, 2, 8). *)
From Coq Require Import List Bool NArith Arith Lia.
From Skinny Require Import Bits IR SIR Anf IRCheck KernelSpecs KernelSpecs2 KernelHom SIRCheck WholeSpecs SIRProofs Frame
                           ModelCipher ModelCtr WholeBridge WholeKey WholeProc WholeCtr WholeCtrModel WholeCtrVec.
Import ListNotations.

(* ---- the carry loop with an initial increment up to 8 ---- *)
Lemma inc_step_sweep8 :
  forallb (fun b => forallb (fun c => inc_step_ok c b) [0; 1; 2; 3; 4; 5; 6; 7; 8]%N) all_bytes = true.
Proof. vm_compute. reflexivity. Qed.
Lemma inc_step_spec8 : forall (c : N) (b : byte), (c <= 8)%N ->
  inc_step bool xorb andb false (c16 c) (bits_of_c8 bool b)
  = (bits_of_c8 bool (byte_of_N (N_of_byte b + c)), c16 (N.shiftr (N_of_byte b + c) 8)).
Proof.
  intros c b Hc.
  pose proof (forall_bytes _ inc_step_sweep8 b) as H. rewrite forallb_forall in H.
  assert (Hk : inc_step_ok c b = true).
  { apply H. assert (Hn : (c = 0 \/ c = 1 \/ c = 2 \/ c = 3 \/ c = 4 \/ c = 5 \/ c = 6 \/ c = 7 \/ c = 8)%N) by lia.
    cbn [In]. intuition congruence. }
  unfold inc_step_ok in Hk. cbv zeta in Hk. apply andb_true_iff in Hk. destruct Hk as [K1 K2].
  apply list_beq_bool_eq in K1. apply list_beq_bool_eq in K2.
  destruct (inc_step bool xorb andb false (c16 c) (bits_of_c8 bool b)) as [r1 r2]. cbn [fst snd] in K1, K2. subst. reflexivity.
Qed.
Lemma carry_le8 : forall (c : N) (b : byte), (c <= 8)%N -> (N.shiftr (N_of_byte b + c) 8 <= 8)%N.
Proof.
  intros c b Hc.
  assert (Hb : (N_of_byte b < 256)%N).
  { pose proof (forall_bytes (fun x => N.ltb (N_of_byte x) 256) ltac:(vm_compute; reflexivity) b) as H. apply N.ltb_lt in H. exact H. }
  rewrite N.shiftr_div_pow2. change (2 ^ 8)%N with 256%N.
  assert ((N_of_byte b + c) / 256 < 2)%N by (apply N.div_lt_upper_bound; lia). lia.
Qed.
Lemma inc_rev_bits_spec8 : forall (l : list byte) (c : N), (c <= 8)%N ->
  inc_rev_bits bool xorb andb false (bitsB l) (c16 c) = bitsB (inc_rev l c).
Proof.
  induction l as [|b l IH]; intros c Hc; [reflexivity|].
  cbn [map inc_rev_bits inc_rev]. rewrite (inc_step_spec8 c b Hc). cbv zeta.
  rewrite IH by (apply carry_le8; exact Hc). reflexivity.
Qed.
Theorem incK_spec : forall (k : N) (cnt : list byte), (k <= 8)%N ->
  incK bool xorb andb false true k (bitsB cnt) = bitsB (inc_counter cnt k).
Proof.
  intros k cnt Hk. unfold incK, inc_counter. rewrite <- map_rev.
  change (const_bits bool false true 16 k) with (c16 k).
  rewrite inc_rev_bits_spec8 by exact Hk. rewrite map_rev. reflexivity.
Qed.

Lemma mixed_sem_app : forall cB a b m, mixed_sem cB (a ++ b) m = mixed_sem cB b (mixed_sem cB a m).
Proof. intros. unfold mixed_sem. apply fold_left_app. Qed.

(* ================================================================================================== *)
(* Part 1: the loop, for any image function that satisfies the step facts                               *)
(* ================================================================================================== *)
Section Loop.
  Variables (bs L rw kn coff eoff ooff fno : nat).
  Variable cB : nat -> list bool -> list bool.
  Variable E : list byte -> list byte.
  Variable inp : list byte.
  Variable IMG : list (list bool) -> list (list byte) -> list byte -> nat -> mem bool.
  Hypothesis Hbs : 0 < bs.
  Hypothesis HL : 0 < L.
  Let BSZ := L * bs.
  Definition lanes_ok (lanes : list (list byte)) : Prop := length lanes = L /\ Forall (fun l => length l = bs) lanes.
  Hypothesis HE : forall blk, length blk = bs -> length (E blk) = bs.
  Hypothesis Sproc : forall O lanes ecnt off, lanes_ok lanes -> length ecnt = BSZ ->
    entry_sem cB (Some [vstmt bs L kn coff eoff fno], ident bool) (IMG O lanes ecnt off) = IMG O lanes (concat (map E lanes)) off.
  Hypothesis Sincs : forall O lanes ecnt off, lanes_ok lanes -> length ecnt = BSZ ->
    mixed_sem cB (inc_entries bool xorb andb false true bs L rw coff) (IMG O lanes ecnt off)
    = IMG O (map (fun l => inc_counter l (N.of_nat L)) lanes) ecnt off.
  Hypothesis Sxor : forall O lanes ecnt off pos o n, lanes_ok lanes -> length ecnt = BSZ -> o + n <= BSZ ->
    s_xor bool xorb pos (eoff + o) n (IMG O lanes ecnt off)
    = IMG (spl O pos (bitsB (xor_bytes (slice inp pos n) (slice ecnt o n)))) lanes ecnt off.
  Hypothesis Soff : forall O lanes ecnt off v, lanes_ok lanes -> length ecnt = BSZ ->
    s_setoff bool false true ooff v (IMG O lanes ecnt off) = IMG O lanes ecnt v.

  Notation st lanes ecnt off := {| c_key := tt; c_lanes := lanes; c_ecounter := ecnt; c_off := off |}.
  Notation loop := (crypt_loop unit (fun _ => E) bs L).
  Notation spec := (vmicroB bs L rw kn coff eoff ooff fno).

  Lemma Sxor0v : forall O lanes ecnt off pos n, lanes_ok lanes -> length ecnt = BSZ -> n <= BSZ ->
    s_xor bool xorb pos eoff n (IMG O lanes ecnt off)
    = IMG (spl O pos (bitsB (xor_bytes (slice inp pos n) (slice ecnt 0 n)))) lanes ecnt off.
  Proof. intros. rewrite <- (Nat.add_0_r eoff). apply Sxor; assumption || lia. Qed.
  Lemma BSL : BS bs L = BSZ.
  Proof. reflexivity. Qed.
  Lemma lanes_ok_inc : forall lanes k, lanes_ok lanes -> lanes_ok (map (fun l => inc_counter l k) lanes).
  Proof.
    intros lanes k [H1 H2]. split; [rewrite map_length; exact H1|].
    apply Forall_forall. intros x Hx. apply in_map_iff in Hx. destruct Hx as [l [<- Hl]].
    rewrite inc_counter_length. rewrite Forall_forall in H2. apply H2. exact Hl.
  Qed.
  Lemma concat_E_length : forall lanes, lanes_ok lanes -> length (concat (map E lanes)) = BSZ.
  Proof.
    intros lanes [H1 H2]. unfold BSZ. rewrite <- H1. clear H1. induction H2 as [|l lanes Hl _ IH]; [reflexivity|].
    cbn [map concat length]. rewrite app_length, HE, IH by exact Hl. lia.
  Qed.

  Theorem vmicro_model : forall fuel off size pos O lanes ecnt c' outb,
    lanes_ok lanes -> length ecnt = BSZ -> off <= BSZ -> pos + size = length inp -> length O = length inp ->
    loop fuel (st lanes ecnt off) (skipn pos inp) = Some (c', outb) ->
    exists lanes' ecnt', c_lanes c' = lanes' /\ c_ecounter c' = ecnt' /\ lanes_ok lanes' /\ length ecnt' = BSZ /\
      length outb = size /\
      mixed_sem cB (spec fuel off size pos) (IMG O lanes ecnt off) = IMG (spl O pos (bitsB outb)) lanes' ecnt' (c_off c').
  Proof.
    assert (HBpos : 0 < BSZ) by (unfold BSZ; nia).
    induction fuel as [|f IH]; intros off size pos O lanes ecnt c' outb Hc He Hoff Hps HO Hl.
    - destruct size as [|sz].
      + rewrite skipn_all2 in Hl by lia. cbn [crypt_loop] in Hl. inversion Hl; subst.
        exists lanes, ecnt. cbn [c_lanes c_ecounter c_off map]. rewrite splice_nil. repeat split; try assumption; try reflexivity; destruct Hc; assumption.
      + destruct (skipn pos inp) as [|x r] eqn:Er.
        * assert (length (skipn pos inp) = S sz) by (rewrite skipn_length; lia). rewrite Er in H. discriminate.
        * cbn [crypt_loop] in Hl. discriminate.
    - destruct size as [|sz].
      + rewrite skipn_all2 in Hl by lia. cbn [crypt_loop] in Hl. inversion Hl; subst.
        exists lanes, ecnt. cbn [c_lanes c_ecounter c_off map]. rewrite splice_nil. repeat split; try assumption; try reflexivity; destruct Hc; assumption.
      + assert (Hrem : length (skipn pos inp) = S sz) by (rewrite skipn_length; lia).
        destruct (skipn pos inp) as [|x r] eqn:Er; [discriminate|]. rewrite <- Er in Hl, Hrem.
        assert (Hstep : loop (S f) (st lanes ecnt off) (skipn pos inp)
                = if Nat.leb (BS bs L) off then
                    let c1 := refill unit (fun _ => E) L (st lanes ecnt off) in
                    if Nat.leb (BS bs L) (length (skipn pos inp)) then
                      match loop f c1 (skipn (BS bs L) (skipn pos inp)) with
                      | Some (c2, out) => Some (c2, xor_bytes (firstn (BS bs L) (skipn pos inp)) (c_ecounter c1) ++ out)
                      | None => None end
                    else Some (with_off unit c1 (length (skipn pos inp)), xor_bytes (skipn pos inp) (c_ecounter c1))
                  else
                    let temp := Nat.min (BS bs L - off) (length (skipn pos inp)) in
                    match loop f (with_off unit (st lanes ecnt off) (off + temp)) (skipn temp (skipn pos inp)) with
                    | Some (c2, out) => Some (c2, xor_bytes (firstn temp (skipn pos inp)) (skipn off ecnt) ++ out)
                    | None => None end).
        { rewrite Er. reflexivity. }
        rewrite Hstep in Hl. clear Hstep. rewrite !BSL, Hrem in Hl.
        cbn [vmicro]. fold BSZ.
        destruct (Nat.leb BSZ off) eqn:Eoff.
        * (* refill *)
          apply Nat.leb_le in Eoff. assert (off = BSZ) by lia. subst off.
          unfold refill in Hl. cbn [c_key c_lanes c_ecounter c_off] in Hl.
          set (lanes1 := map (fun l => inc_counter l (N.of_nat L)) lanes) in *.
          set (ecnt1 := concat (map E lanes)) in *.
          assert (Hc1 : lanes_ok lanes1) by (apply lanes_ok_inc; exact Hc).
          assert (He1 : length ecnt1 = BSZ) by (apply concat_E_length; exact Hc).
          rewrite mixed_sem_cons, Sproc by assumption. fold ecnt1.
          rewrite mixed_sem_app, Sincs by assumption. fold lanes1.
          destruct (Nat.leb BSZ (S sz)) eqn:Esz.
          -- apply Nat.leb_le in Esz.
             destruct (loop f (st lanes1 ecnt1 BSZ) (skipn BSZ (skipn pos inp))) as [[c2 out]|] eqn:Er2; [|discriminate].
             inversion Hl; subst c' outb. clear Hl.
             rewrite mixed_sem_cons, entry_sem_none.
             rewrite Sxor0v by (assumption || lia).
             rewrite <- skipn_add in Er2.
             destruct (IH BSZ (S sz - BSZ) (pos + BSZ) (spl O pos (bitsB (xor_bytes (slice inp pos BSZ) (slice ecnt1 0 BSZ))))
                         lanes1 ecnt1 c2 out) as (lanes' & ecnt' & K1 & K2 & K3 & K4 & KL & K5); try assumption; try lia.
             { rewrite splice_length; [exact HO|]. rewrite map_length, xor_bytes_length. unfold slice.
               rewrite !firstn_length, !skipn_length. lia. }
             assert (LX : length (xor_bytes (firstn BSZ (skipn pos inp)) ecnt1) = BSZ).
             { rewrite xor_bytes_length, firstn_length, skipn_length. lia. }
             exists lanes', ecnt'. repeat split; try assumption; try (destruct K3; assumption).
             { rewrite app_length, LX, KL. lia. }
             rewrite K5. f_equal. unfold slice. cbn [skipn]. rewrite (firstn_all2 ecnt1) by lia.
             rewrite map_app, splice_app by (rewrite !map_length, LX, KL; lia).
             rewrite map_length, LX. reflexivity.
          -- apply Nat.leb_gt in Esz.
             inversion Hl; subst c' outb. clear Hl.
             rewrite mixed_sem_cons, entry_sem_none, Sxor0v by (assumption || lia).
             rewrite mixed_sem_cons, entry_sem_none, Soff by assumption.
             rewrite mixed_sem_nil.
             exists lanes1, ecnt1. cbn [with_off c_lanes c_ecounter c_off c_key].
             repeat split; try assumption; try (destruct Hc1; assumption).
             { rewrite xor_bytes_length, Hrem. lia. }
             f_equal. f_equal. f_equal. unfold slice. cbn [skipn].
             rewrite (firstn_all2 (skipn pos inp)) by lia.
             rewrite <- Hrem at 1. apply xor_bytes_trunc.
        * (* left-over key stream *)
          apply Nat.leb_gt in Eoff. cbv zeta in Hl.
          set (temp := Nat.min (BSZ - off) (S sz)) in *.
          assert (Ht : temp <= BSZ - off /\ temp <= S sz /\ 0 < temp) by (unfold temp; lia).
          destruct (loop f (with_off unit (st lanes ecnt off) (off + temp)) (skipn temp (skipn pos inp))) as [[c2 out]|] eqn:Er2; [|discriminate].
          inversion Hl; subst c' outb. clear Hl.
          rewrite mixed_sem_cons, entry_sem_none, Sxor by (lia || assumption).
          rewrite mixed_sem_cons, entry_sem_none, Soff by assumption.
          rewrite <- skipn_add in Er2. unfold with_off in Er2. cbn [c_key c_lanes c_ecounter] in Er2.
          destruct (IH (off + temp) (S sz - temp) (pos + temp)
                      (spl O pos (bitsB (xor_bytes (slice inp pos temp) (slice ecnt off temp)))) lanes ecnt c2 out)
            as (lanes' & ecnt' & K1 & K2 & K3 & K4 & KL & K5); try assumption; try lia.
          { rewrite splice_length; [exact HO|]. rewrite map_length, xor_bytes_length. unfold slice.
            rewrite !firstn_length, !skipn_length. lia. }
          assert (LX : length (xor_bytes (firstn temp (skipn pos inp)) (skipn off ecnt)) = temp).
          { rewrite xor_bytes_length, firstn_length, !skipn_length. lia. }
          exists lanes', ecnt'. repeat split; try assumption; try (destruct K3; assumption).
          { rewrite app_length, LX, KL. lia. }
          rewrite K5. f_equal.
          assert (EX : xor_bytes (slice inp pos temp) (slice ecnt off temp) = xor_bytes (firstn temp (skipn pos inp)) (skipn off ecnt)).
          { unfold slice. replace temp with (length (firstn temp (skipn pos inp))) at 2 by (rewrite firstn_length, skipn_length; lia).
            apply xor_bytes_trunc. }
          rewrite EX. rewrite map_app, splice_app by (rewrite !map_length, LX, KL; lia).
          rewrite map_length, LX. reflexivity.
  Qed.
End Loop.
Print Assumptions incK_spec.
Print Assumptions vmicro_model.

(* ================================================================================================== *)
(* Part 2: the image of a model state with row-sliced counter lanes, and the step facts                 *)
(* ================================================================================================== *)
Section TRdef.
  Variables (bs L rw : nat).
  Definition cpos0 (c k : nat) : nat := (k / rw) * (rw * L) + rw * c + k mod rw.
  Definition cidx (p : nat) : nat := (p mod (rw * L)) / rw.
  Definition kidx (p : nat) : nat := (p / (rw * L)) * rw + (p mod (rw * L)) mod rw.
  (* the L*bs bytes of the counter area: byte k of lane c at cpos0 c k *)
  Definition TR (lanes : list (list byte)) : list (list bool) :=
    map (fun p => nth (kidx p) (bitsB (nth (cidx p) lanes [])) []) (seq 0 (L * bs)).
  Lemma TR_length : forall lanes, length (TR lanes) = L * bs.
  Proof. intros. unfold TR. rewrite map_length, seq_length. reflexivity. Qed.
End TRdef.

Lemma cpos_split : forall L rw coff c k, cpos L rw coff c k = coff + cpos0 L rw c k.
Proof. intros. unfold cpos, cpos0. lia. Qed.

Lemma set_nth_app_r : forall {A} (l r : list A) n x, set_nth (length l + n) x (l ++ r) = l ++ set_nth n x r.
Proof. intros A l. induction l as [|y l IH]; intros r n x; [reflexivity|]. cbn [length plus app set_nth]. rewrite IH. reflexivity. Qed.

Lemma gather_app : forall bs L rw (KS X : list (list bool)) c,
  gather bool bs L rw (length KS) c (KS ++ X) = map (fun k => nth (cpos0 L rw c k) X []) (seq 0 bs).
Proof.
  intros. unfold gather. apply map_ext. intros k. rewrite cpos_split. apply app_nth2_plus.
Qed.
Lemma scatter_app : forall bs L rw (KS X blk : list (list bool)) c,
  scatter bool bs L rw (length KS) c blk (KS ++ X)
  = KS ++ fold_left (fun acc k => set_nth (cpos0 L rw c k) (nth k blk []) acc) (seq 0 bs) X.
Proof.
  intros bs L rw KS X blk c. unfold scatter. generalize (seq 0 bs) as ks. intros ks. revert X.
  induction ks as [|k ks IH]; intros X; [reflexivity|]. cbn [fold_left]. rewrite cpos_split, set_nth_app_r. apply IH.
Qed.
Lemma map_nth_seq16 : forall (l : list (list bool)), length l = 16 -> map (fun k => nth k l []) (seq 0 16) = l.
Proof. intros l H. do 16 (destruct l as [|? l]; [discriminate|]). destruct l; [reflexivity | discriminate]. Qed.
Lemma map_nth_seq8 : forall (l : list (list bool)), length l = 8 -> map (fun k => nth k l []) (seq 0 8) = l.
Proof. intros l H. do 8 (destruct l as [|? l]; [discriminate|]). destruct l; [reflexivity | discriminate]. Qed.

(* the general step facts on an image whose counter area is any CA of BSZ bytes *)
Section OnImageV.
  Variables (BSZ kn coff fno : nat).
  Let eoff := coff + BSZ.
  Let ooff := coff + BSZ + BSZ.
  Variable cB : nat -> list bool -> list bool.
  Variables (I CO KS pad : list (list bool)) (inp : list byte).
  Hypothesis HI : I = bitsB inp.
  Hypothesis HKS : length KS = coff.
  Hypothesis HKS8 : bytes8 KS.
  Hypothesis Hpad8 : bytes8 pad.
  Hypothesis Hkn : kn <= coff.
  Definition imgv (O CA : list (list bool)) (ecnt : list byte) (off : nat) : mem bool :=
    [O; I; CO; KS ++ CA ++ bitsB ecnt ++ rbytes off ++ pad].

  Lemma stepv_setoff : forall O CA ecnt off v, length CA = BSZ -> length ecnt = BSZ ->
    s_setoff bool false true ooff v (imgv O CA ecnt off) = imgv O CA ecnt v.
  Proof.
    intros O CA ecnt off v Hc He. unfold byte in *. unfold s_setoff, imgv, mk4m, reg. cbn [nth]. fold (rbytes v).
    assert (L : length (KS ++ CA ++ bitsB ecnt) = ooff) by (rewrite !app_length, !map_length, HKS, Hc, He; unfold ooff; lia).
    replace (KS ++ CA ++ bitsB ecnt ++ rbytes off ++ pad) with ((KS ++ CA ++ bitsB ecnt) ++ rbytes off ++ pad)
      by (rewrite <- !app_assoc; reflexivity).
    rewrite <- L, splice_mid by (rewrite !rbytes_len; reflexivity). rewrite <- !app_assoc. reflexivity.
  Qed.

  Lemma stepv_xor : forall O CA ecnt off pos o n, length CA = BSZ -> length ecnt = BSZ -> o + n <= BSZ ->
    s_xor bool xorb pos (eoff + o) n (imgv O CA ecnt off)
    = imgv (spl O pos (bitsB (xor_bytes (slice inp pos n) (slice ecnt o n)))) CA ecnt off.
  Proof.
    intros O CA ecnt off pos o n Hc He Hn. unfold byte in *. unfold s_xor, imgv, mk4m, reg. cbn [nth]. rewrite !sub_is_slice.
    f_equal. f_equal. rewrite HI. change (slice (bitsB inp) pos n) with (subB (bitsB inp) pos n). rewrite sub_bits.
    replace (KS ++ CA ++ bitsB ecnt ++ rbytes off ++ pad) with ((KS ++ CA) ++ bitsB ecnt ++ rbytes off ++ pad)
      by (rewrite <- !app_assoc; reflexivity).
    assert (L : length (KS ++ CA) = eoff) by (rewrite app_length, HKS, Hc; reflexivity).
    rewrite <- L, slice_mid by (rewrite map_length; lia).
    change (slice (bitsB ecnt) o n) with (subB (bitsB ecnt) o n). rewrite sub_bits. apply xorB_bits.
  Qed.

  Lemma ctxv_bytes8 : forall CA ecnt off, bytes8 CA -> bytes8 (KS ++ CA ++ bitsB ecnt ++ rbytes off ++ pad).
  Proof.
    intros. unfold bytes8. repeat (apply Forall_app; split); try apply bits_len8; try assumption. apply bytes_of_bytes8.
  Qed.

  Lemma stepv_proc : forall O CA ecnt off (enew : list byte) L bs, L * bs = BSZ ->
    length CA = BSZ -> bytes8 CA -> length ecnt = BSZ -> length enew = BSZ ->
    cB fno (concat CA ++ concat (firstn kn KS)) = concat (bitsB enew) ->
    entry_sem cB (Some [vstmt bs L kn coff eoff fno], ident bool) (imgv O CA ecnt off) = imgv O CA enew off.
  Proof.
    intros O CA ecnt off enew L bs HLb Hc Hc8 He Hn Hcb. unfold byte in *. unfold entry_sem, vstmt. cbn [fst]. rewrite HLb.
    unfold execB, exec. cbn [fold_left exec1 fst eval map concat].
    rewrite app_nil_r. unfold store, imgv. cbn [nth set_nth].
    assert (Ltot : length (KS ++ CA ++ bitsB ecnt ++ rbytes off ++ pad) = coff + BSZ + BSZ + 4 + length pad)
      by (rewrite !app_length, !map_length, rbytes_len, HKS, Hc, He; lia).
    rewrite !load_slice; cbn [nth]; try (apply ctxv_bytes8; exact Hc8); try lia.
    rewrite (slice_at KS CA _ coff BSZ HKS Hc).
    rewrite slice_head by lia. rewrite Hcb.
    rewrite (bytes_of_concat_n (bitsB enew) BSZ (bits_len8 _)) by (rewrite map_length; exact Hn).
    rewrite store_bytes_splice by (rewrite Ltot, map_length, Hn; unfold eoff; lia).
    replace (KS ++ CA ++ bitsB ecnt ++ rbytes off ++ pad) with ((KS ++ CA) ++ bitsB ecnt ++ rbytes off ++ pad)
      by (rewrite <- !app_assoc; reflexivity).
    assert (Le : length (KS ++ CA) = eoff) by (rewrite app_length, HKS, Hc; reflexivity).
    rewrite <- Le, splice_mid by (rewrite !map_length, Hn; symmetry; exact He).
    rewrite <- !app_assoc. reflexivity.
  Qed.
End OnImageV.

Lemma v_inc_lane_img : forall bs L rw coff c k (O I CO X : list (list bool)),
  v_inc_lane bool xorb andb false true bs L rw coff c k [O; I; CO; X]
  = [O; I; CO; scatter bool bs L rw coff c (incK bool xorb andb false true k (gather bool bs L rw coff c X)) X].
Proof. reflexivity. Qed.
(* ---- one lane increment on the image, by computation on an explicit list of lanes ---- *)
Ltac lane_step bsn Ln rwn lanes_before lane lane_len lanes_after seqlemma :=
  rewrite mixed_sem_cons, entry_sem_none;
  unfold imgv; rewrite v_inc_lane_img, gather_app, scatter_app;
  let G := fresh "G" in
  match goal with
  | |- context [map (fun k => nth (cpos0 Ln rwn ?c k) (TR bsn Ln rwn lanes_before ++ ?tail) []) (seq 0 bsn)] =>
      assert (G : map (fun k => nth (cpos0 Ln rwn c k) (TR bsn Ln rwn lanes_before ++ tail) []) (seq 0 bsn) = bitsB lane)
        by (rewrite <- (seqlemma (bitsB lane)) by (rewrite map_length; exact lane_len); reflexivity)
  end;
  rewrite G; clear G;
  rewrite incK_spec by (vm_compute; discriminate);
  let S := fresh "S" in
  match goal with
  | |- context [fold_left ?f (seq 0 bsn) (TR bsn Ln rwn lanes_before ++ ?tail)] =>
      assert (S : fold_left f (seq 0 bsn) (TR bsn Ln rwn lanes_before ++ tail) = TR bsn Ln rwn lanes_after ++ tail) by reflexivity;
      rewrite S; clear S
  end;
  idtac.

Section Incs.
  Variable cB : nat -> list bool -> list bool.
  Variables (I CO KS pad : list (list bool)).

  Lemma incs_4_4_16 : forall O (lanes : list (list byte)) ecnt off, length lanes = 4 -> Forall (fun l => length l = 16) lanes ->
    mixed_sem cB (inc_entries bool xorb andb false true 16 4 4 (length KS)) (imgv I CO KS pad O (TR 16 4 4 lanes) ecnt off)
    = imgv I CO KS pad O (TR 16 4 4 (map (fun l => inc_counter l (N.of_nat 4)) lanes)) ecnt off.
  Proof.
    intros O lanes ecnt off Hl Hf.
    destruct lanes as [|l0 [|l1 [|l2 [|l3 [|? ?]]]]]; try discriminate.
    inversion Hf as [|? ? H0 Hf1]; subst. inversion Hf1 as [|? ? H1 Hf2]; subst. inversion Hf2 as [|? ? H2 Hf3]; subst.
    inversion Hf3 as [|? ? H3 _]; subst.
    unfold inc_entries. cbn [seq map]. change (N.of_nat 4) with 4%N.
    lane_step 16 4 4 [l0; l1; l2; l3] l0 H0 [inc_counter l0 4; l1; l2; l3] map_nth_seq16.
    lane_step 16 4 4 [inc_counter l0 4; l1; l2; l3] l1 H1 [inc_counter l0 4; inc_counter l1 4; l2; l3] map_nth_seq16.
    lane_step 16 4 4 [inc_counter l0 4; inc_counter l1 4; l2; l3] l2 H2 [inc_counter l0 4; inc_counter l1 4; inc_counter l2 4; l3] map_nth_seq16.
    lane_step 16 4 4 [inc_counter l0 4; inc_counter l1 4; inc_counter l2 4; l3] l3 H3
      [inc_counter l0 4; inc_counter l1 4; inc_counter l2 4; inc_counter l3 4] map_nth_seq16.
    reflexivity.
  Qed.

  Ltac explode8 lanes Hf :=
    destruct lanes as [|l0 [|l1 [|l2 [|l3 [|l4 [|l5 [|l6 [|l7 [|? ?]]]]]]]]]; try discriminate;
    inversion Hf as [|? ? H0 Hf1]; subst; inversion Hf1 as [|? ? H1 Hf2]; subst; inversion Hf2 as [|? ? H2 Hf3]; subst;
    inversion Hf3 as [|? ? H3 Hf4]; subst; inversion Hf4 as [|? ? H4 Hf5]; subst; inversion Hf5 as [|? ? H5 Hf6]; subst;
    inversion Hf6 as [|? ? H6 Hf7]; subst; inversion Hf7 as [|? ? H7 _]; subst.

  Lemma incs_8_4_16 : forall O (lanes : list (list byte)) ecnt off, length lanes = 8 -> Forall (fun l => length l = 16) lanes ->
    mixed_sem cB (inc_entries bool xorb andb false true 16 8 4 (length KS)) (imgv I CO KS pad O (TR 16 8 4 lanes) ecnt off)
    = imgv I CO KS pad O (TR 16 8 4 (map (fun l => inc_counter l (N.of_nat 8)) lanes)) ecnt off.
  Proof.
    intros O lanes ecnt off Hl Hf. explode8 lanes Hf.
    unfold inc_entries. cbn [seq map]. change (N.of_nat 8) with 8%N.
    set (i0 := inc_counter l0 8). set (i1 := inc_counter l1 8). set (i2 := inc_counter l2 8). set (i3 := inc_counter l3 8).
    set (i4 := inc_counter l4 8). set (i5 := inc_counter l5 8). set (i6 := inc_counter l6 8). set (i7 := inc_counter l7 8).
    lane_step 16 8 4 [l0; l1; l2; l3; l4; l5; l6; l7] l0 H0 [i0; l1; l2; l3; l4; l5; l6; l7] map_nth_seq16.
    lane_step 16 8 4 [i0; l1; l2; l3; l4; l5; l6; l7] l1 H1 [i0; i1; l2; l3; l4; l5; l6; l7] map_nth_seq16.
    lane_step 16 8 4 [i0; i1; l2; l3; l4; l5; l6; l7] l2 H2 [i0; i1; i2; l3; l4; l5; l6; l7] map_nth_seq16.
    lane_step 16 8 4 [i0; i1; i2; l3; l4; l5; l6; l7] l3 H3 [i0; i1; i2; i3; l4; l5; l6; l7] map_nth_seq16.
    lane_step 16 8 4 [i0; i1; i2; i3; l4; l5; l6; l7] l4 H4 [i0; i1; i2; i3; i4; l5; l6; l7] map_nth_seq16.
    lane_step 16 8 4 [i0; i1; i2; i3; i4; l5; l6; l7] l5 H5 [i0; i1; i2; i3; i4; i5; l6; l7] map_nth_seq16.
    lane_step 16 8 4 [i0; i1; i2; i3; i4; i5; l6; l7] l6 H6 [i0; i1; i2; i3; i4; i5; i6; l7] map_nth_seq16.
    lane_step 16 8 4 [i0; i1; i2; i3; i4; i5; i6; l7] l7 H7 [i0; i1; i2; i3; i4; i5; i6; i7] map_nth_seq16.
    reflexivity.
  Qed.

  Lemma incs_8_2_8 : forall O (lanes : list (list byte)) ecnt off, length lanes = 8 -> Forall (fun l => length l = 8) lanes ->
    mixed_sem cB (inc_entries bool xorb andb false true 8 8 2 (length KS)) (imgv I CO KS pad O (TR 8 8 2 lanes) ecnt off)
    = imgv I CO KS pad O (TR 8 8 2 (map (fun l => inc_counter l (N.of_nat 8)) lanes)) ecnt off.
  Proof.
    intros O lanes ecnt off Hl Hf. explode8 lanes Hf.
    unfold inc_entries. cbn [seq map]. change (N.of_nat 8) with 8%N.
    set (i0 := inc_counter l0 8). set (i1 := inc_counter l1 8). set (i2 := inc_counter l2 8). set (i3 := inc_counter l3 8).
    set (i4 := inc_counter l4 8). set (i5 := inc_counter l5 8). set (i6 := inc_counter l6 8). set (i7 := inc_counter l7 8).
    lane_step 8 8 2 [l0; l1; l2; l3; l4; l5; l6; l7] l0 H0 [i0; l1; l2; l3; l4; l5; l6; l7] map_nth_seq8.
    lane_step 8 8 2 [i0; l1; l2; l3; l4; l5; l6; l7] l1 H1 [i0; i1; l2; l3; l4; l5; l6; l7] map_nth_seq8.
    lane_step 8 8 2 [i0; i1; l2; l3; l4; l5; l6; l7] l2 H2 [i0; i1; i2; l3; l4; l5; l6; l7] map_nth_seq8.
    lane_step 8 8 2 [i0; i1; i2; l3; l4; l5; l6; l7] l3 H3 [i0; i1; i2; i3; l4; l5; l6; l7] map_nth_seq8.
    lane_step 8 8 2 [i0; i1; i2; i3; l4; l5; l6; l7] l4 H4 [i0; i1; i2; i3; i4; l5; l6; l7] map_nth_seq8.
    lane_step 8 8 2 [i0; i1; i2; i3; i4; l5; l6; l7] l5 H5 [i0; i1; i2; i3; i4; i5; l6; l7] map_nth_seq8.
    lane_step 8 8 2 [i0; i1; i2; i3; i4; i5; l6; l7] l6 H6 [i0; i1; i2; i3; i4; i5; i6; l7] map_nth_seq8.
    lane_step 8 8 2 [i0; i1; i2; i3; i4; i5; i6; l7] l7 H7 [i0; i1; i2; i3; i4; i5; i6; i7] map_nth_seq8.
    reflexivity.
  Qed.
End Incs.

(* ---- every byte of the counter area of a well-formed lane list has 8 bits ---- *)
Lemma nth_bitsB_len8 : forall (l : list byte) k, k < length l -> length (nth k (bitsB l) []) = 8.
Proof.
  intros l k H. pose proof (bits_len8 l) as F. rewrite Forall_forall in F. apply F. apply nth_In. rewrite map_length. exact H.
Qed.
Lemma TR8_4_4_16 : forall lanes : list (list byte), length lanes = 4 -> Forall (fun l => length l = 16) lanes -> bytes8 (TR 16 4 4 lanes).
Proof.
  intros lanes Hl Hf. destruct lanes as [|l0 [|l1 [|l2 [|l3 [|? ?]]]]]; try discriminate.
  inversion Hf as [|? ? H0 Hf1]; subst. inversion Hf1 as [|? ? H1 Hf2]; subst. inversion Hf2 as [|? ? H2 Hf3]; subst.
  inversion Hf3 as [|? ? H3 _]; subst.
  unfold bytes8. cbv [TR seq map cidx kidx Nat.mul Nat.add Nat.div Nat.modulo Nat.divmod fst snd Nat.sub nth].
  repeat constructor; apply nth_bitsB_len8; lia.
Qed.
Ltac explode8' lanes Hf :=
  destruct lanes as [|l0 [|l1 [|l2 [|l3 [|l4 [|l5 [|l6 [|l7 [|? ?]]]]]]]]]; try discriminate;
  inversion Hf as [|? ? H0 Hf1]; subst; inversion Hf1 as [|? ? H1 Hf2]; subst; inversion Hf2 as [|? ? H2 Hf3]; subst;
  inversion Hf3 as [|? ? H3 Hf4]; subst; inversion Hf4 as [|? ? H4 Hf5]; subst; inversion Hf5 as [|? ? H5 Hf6]; subst;
  inversion Hf6 as [|? ? H6 Hf7]; subst; inversion Hf7 as [|? ? H7 _]; subst.
Lemma TR8_8_4_16 : forall lanes : list (list byte), length lanes = 8 -> Forall (fun l => length l = 16) lanes -> bytes8 (TR 16 8 4 lanes).
Proof.
  intros lanes Hl Hf. explode8' lanes Hf.
  unfold bytes8. cbv [TR seq map cidx kidx Nat.mul Nat.add Nat.div Nat.modulo Nat.divmod fst snd Nat.sub nth].
  repeat constructor; apply nth_bitsB_len8; lia.
Qed.
Lemma TR8_8_2_8 : forall lanes : list (list byte), length lanes = 8 -> Forall (fun l => length l = 8) lanes -> bytes8 (TR 8 8 2 lanes).
Proof.
  intros lanes Hl Hf. explode8' lanes Hf.
  unfold bytes8. cbv [TR seq map cidx kidx Nat.mul Nat.add Nat.div Nat.modulo Nat.divmod fst snd Nat.sub nth].
  repeat constructor; apply nth_bitsB_len8; lia.
Qed.

(* ================================================================================================== *)
(* the final statement                                                                                  *)
(* ================================================================================================== *)
Theorem vctr_model_gen : forall bs L rw, 0 < bs -> 0 < L ->
  (forall cB I CO KS pad O (lanes : list (list byte)) ecnt off, length lanes = L -> Forall (fun l => length l = bs) lanes ->
     mixed_sem cB (inc_entries bool xorb andb false true bs L rw (length KS)) (imgv I CO KS pad O (TR bs L rw lanes) ecnt off)
     = imgv I CO KS pad O (TR bs L rw (map (fun l => inc_counter l (N.of_nat L)) lanes)) ecnt off) ->
  (forall lanes : list (list byte), length lanes = L -> Forall (fun l => length l = bs) lanes -> bytes8 (TR bs L rw lanes)) ->
  forall fields code fuel pl sh pl' sh' c t kn coff fno off size plen,
  fields_okb fields = true ->
  flat fields fuel pl sh code = Some (pl', sh', c, t) ->
  check_proc [size; size; 16; coff + L * bs + L * bs + 4 + plen] c
    (vspec poly pxor pand pzero pone bs L rw kn coff (coff + L * bs) (coff + L * bs + L * bs) fno off size) = true ->
  forall (cB : nat -> list bool -> list bool) (E : list byte -> list byte)
         (out inp ecnt : list byte) (lanes : list (list byte)) (CO KS pad : list (list bool)),
  kn <= coff -> off <= L * bs ->
  length out = size -> length inp = size -> length lanes = L -> Forall (fun l => length l = bs) lanes -> length ecnt = L * bs ->
  length CO = 16 -> bytes8 CO -> length KS = coff -> bytes8 KS -> length pad = plen -> bytes8 pad ->
  (forall blk, length blk = bs -> length (E blk) = bs) ->
  (forall lanes' : list (list byte), length lanes' = L -> Forall (fun l => length l = bs) lanes' ->
     cB fno (concat (TR bs L rw lanes') ++ concat (firstn kn KS)) = concat (bitsB (concat (map E lanes')))) ->
  let m0 := imgv (bitsB inp) CO KS pad (bitsB out) (TR bs L rw lanes) ecnt off in
  Inv fields sh m0 ->
  forall c' outb,
  crypt unit (fun _ => E) bs L {| c_key := tt; c_lanes := lanes; c_ecounter := ecnt; c_off := off |} inp = Some (c', outb) ->
  exists st',
    interp fields cB fuel pl (m0, []) code = Some (pl', st', t) /\
    fst st' = imgv (bitsB inp) CO KS pad (bitsB outb) (TR bs L rw (c_lanes c')) (c_ecounter c') (c_off c').
Proof.
  intros bs L rw Hbs HL Hincs HTR8 fields code fuel pl sh pl' sh' c t kn coff fno off size plen Hf Hfl Hk cB E out inp ecnt lanes CO KS pad
         Hkn Hoff Ho Hi Hln Hlf He HCO HCO8 HKS HKS8 Hpad Hpad8 HE Hcb m0 HI c' outb Hcr.
  unfold byte in *.
  assert (HTRl : forall l, length (TR bs L rw l) = L * bs) by (intros; apply TR_length).
  assert (Hm : shaped [size; size; 16; coff + L * bs + L * bs + 4 + plen] m0).
  { apply shapedF_shaped. unfold m0, imgv. repeat constructor; try (rewrite map_length; assumption); try apply bits_len8; try assumption.
    - rewrite !app_length, !map_length, HTRl, rbytes_len. lia.
    - apply ctxv_bytes8; try assumption. apply HTR8; assumption. }
  destruct (vctr_final fields code fuel pl sh pl' sh' c t _ bs L rw kn coff (coff + L * bs) (coff + L * bs + L * bs) fno off size
              Hf Hfl Hk cB m0 Hm HI) as [Hint Hsem].
  unfold crypt in Hcr.
  assert (Hconc : forall ls : list (list byte), lanes_ok bs L ls -> length (concat (map E ls)) = L * bs).
  { intros ls [H1 H2]. rewrite <- H1. clear H1. induction H2 as [|l ls' Hl _ IHl]; [reflexivity|].
    cbn [map concat length]. rewrite app_length, HE, IHl by exact Hl. lia. }
  destruct (vmicro_model bs L rw kn coff (coff + L * bs) (coff + L * bs + L * bs) fno cB E inp
              (fun O ls ec o => imgv (bitsB inp) CO KS pad O (TR bs L rw ls) ec o) Hbs HL HE) with
      (fuel := S (length inp)) (off := off) (size := size) (pos := 0) (O := bitsB out) (lanes := lanes) (ecnt := ecnt) (c' := c') (outb := outb)
    as (lanes' & ecnt' & K1 & K2 & K3 & K4 & KL & K5).
  - intros O ls ec o [Hl1 Hl2] Hec.
    apply (stepv_proc (L * bs) kn coff fno cB (bitsB inp) CO KS pad HKS HKS8 Hpad8 Hkn O (TR bs L rw ls) ec o (concat (map E ls)) L bs eq_refl).
    + apply HTRl.
    + apply HTR8; assumption.
    + exact Hec.
    + apply Hconc. split; assumption.
    + apply Hcb; assumption.
  - intros O ls ec o [Hl1 Hl2] Hec. rewrite <- HKS. apply Hincs; assumption.
  - intros O ls ec o pos oo n [Hl1 Hl2] Hec Hn.
    apply (stepv_xor (L * bs) kn coff (bitsB inp) CO KS pad inp eq_refl HKS Hkn O (TR bs L rw ls) ec o pos oo n (HTRl ls) Hec Hn).
  - intros O ls ec o v [Hl1 Hl2] Hec.
    apply (stepv_setoff (L * bs) kn coff (bitsB inp) CO KS pad HKS Hkn O (TR bs L rw ls) ec o v (HTRl ls) Hec).
  - split; assumption.
  - exact He.
  - exact Hoff.
  - unfold byte in *. lia.
  - rewrite map_length. unfold byte in *. lia.
  - cbn [skipn]. exact Hcr.
  - exists (execB cB c (m0, [])). split; [exact Hint|].
    rewrite Hsem. unfold byte in *. rewrite Hi in K5. unfold m0. rewrite K5, K1, K2. f_equal.
    unfold splice. cbn [firstn app plus]. rewrite map_length, KL, skipn_all2 by (rewrite map_length; lia). apply app_nil_r.
Qed.

Definition vctr_model_4_4_16 := vctr_model_gen 16 4 4 ltac:(lia) ltac:(lia) incs_4_4_16 TR8_4_4_16.
Definition vctr_model_8_4_16 := vctr_model_gen 16 8 4 ltac:(lia) ltac:(lia) incs_8_4_16 TR8_8_4_16.
Definition vctr_model_8_2_8 := vctr_model_gen 8 8 2 ltac:(lia) ltac:(lia) incs_8_2_8 TR8_8_2_8.
Print Assumptions vctr_model_4_4_16.
Print Assumptions vctr_model_8_4_16.
Print Assumptions vctr_model_8_2_8.
