(* SpecMantis.v — MANTIS-r, transcribed from section 6 of Beierle et al.
   (ePrint 2016/660).  Cell level, polymorphic in the bit carrier. *)
From Coq Require Import List Bool NArith.
From Skinny Require Import Bits SpecSkinny.
Import ListNotations.

Section Sb0.
  Variable B : Type.
  Variables (bx ba : B -> B -> B) (b0 b1 : B).
  Notation nor := (bnor B bx ba b1).
  Notation nand := (bnand B bx ba b1).
  Notation or := (bor B bx ba b1).
  Notation not := (bnot B bx b1).
  (* MIDORI Sb0 (Banik et al., ePrint 2015/1142, section 4.2), a = MSB *)
  Definition Sb0 (x : c4 B) : c4 B :=
    let '(a, b, c, d) := x in
    (nand (nand (not c) (nand a b)) (or a d),
     nand (nor (nor a d) (ba b c)) (nand (ba a c) d),
     nand (nand b d) (or (nor b d) a),
     nor (nor a (or b c)) (nand (nand a b) (or c d))).
End Sb0.

Section Generic.
  Variable C : Type.
  Variable cx : C -> C -> C.
  Variable cnib : bool -> bool -> bool -> bool -> C.
  Variable sb : C -> C.

  Notation state := (state C).
  Notation sx := (sx C cx).
  Notation rx := (rx C cx).

  (* constants: the 16 hex digits of a 64-bit number, most significant first *)
  Definition nibc (n : N) (i : nat) : C :=
    let v := N.shiftr n (4 * N.of_nat (15 - i)) in
    cnib (N.testbit v 3) (N.testbit v 2) (N.testbit v 1) (N.testbit v 0).
  Definition const_state (n : N) : state :=
    let g := nibc n in
    ((g 0, g 1, g 2, g 3), (g 4, g 5, g 6, g 7),
     (g 8, g 9, g 10, g 11), (g 12, g 13, g 14, g 15)).

  Definition RCs : list N :=
    [0x13198A2E03707344; 0xA4093822299F31D0; 0x082EFA98EC4E6C89; 0x452821E638D01377;
     0xBE5466CF34E90C6C; 0xC0AC29B7C97C50DD; 0x3F84D5B5B5470917; 0x9216D5D98979FB1B]%N.
  Definition ALPHA : N := 0x243F6A8885A308D3%N.

  (* h = [6,5,14,15,0,1,2,3,7,12,13,4,8,9,10,11]: T'[i] = T[h[i]] *)
  Definition h_perm (t : state) : state :=
    let '((c0, c1, c2, c3), (c4, c5, c6, c7), (c8, c9, c10, c11), (c12, c13, c14, c15)) := t in
    ((c6, c5, c14, c15), (c0, c1, c2, c3), (c7, c12, c13, c4), (c8, c9, c10, c11)).
  Definition h_perm_inv (t : state) : state :=
    let '((d0, d1, d2, d3), (d4, d5, d6, d7), (d8, d9, d10, d11), (d12, d13, d14, d15)) := t in
    ((d4, d5, d6, d7), (d11, d1, d0, d8), (d12, d13, d14, d15), (d9, d10, d2, d3)).
  (* P = [0,11,6,13,10,1,12,7,5,14,3,8,15,4,9,2]: S'[i] = S[P[i]] *)
  Definition permute_cells (s : state) : state :=
    let '((c0, c1, c2, c3), (c4, c5, c6, c7), (c8, c9, c10, c11), (c12, c13, c14, c15)) := s in
    ((c0, c11, c6, c13), (c10, c1, c12, c7), (c5, c14, c3, c8), (c15, c4, c9, c2)).
  Definition permute_cells_inv (s : state) : state :=
    let '((d0, d1, d2, d3), (d4, d5, d6, d7), (d8, d9, d10, d11), (d12, d13, d14, d15)) := s in
    ((d0, d5, d15, d10), (d13, d8, d2, d7), (d11, d14, d4, d1), (d6, d3, d9, d12)).
  (* M = circ(0,1,1,1), an involution *)
  Definition mix (s : state) : state :=
    let '(s0, s1, s2, s3) := s in
    (rx s1 (rx s2 s3), rx s0 (rx s2 s3), rx s0 (rx s1 s3), rx s0 (rx s1 s2)).
  Definition sub (s : state) : state := smap C sb s.

  (* forward rounds R_1..R_r; returns the state and the updated tweak *)
  Fixpoint fwd (rcs : list N) (k t x : state) : state * state :=
    match rcs with
    | [] => (x, t)
    | rc :: rest =>
        let t' := h_perm t in
        fwd rest k t' (mix (permute_cells (sx (sx (sub x) (const_state rc)) (sx k t'))))
    end.
  (* inverse rounds, constants given in reverse order *)
  Fixpoint bwd (rcs : list N) (k t x : state) : state * state :=
    match rcs with
    | [] => (x, t)
    | rc :: rest =>
        bwd rest k (h_perm_inv t)
            (sub (sx (sx (permute_cells_inv (mix x)) (sx k t)) (const_state rc)))
    end.

  Definition core (r : nat) (k0 k0' k1 t m : state) : state :=
    let rcs := firstn r RCs in
    let '(x, tr) := fwd rcs k1 t (sx m (sx k0 (sx k1 t))) in
    let x := sub (mix (sub x)) in
    let k1a := sx k1 (const_state ALPHA) in
    let '(y, t0) := bwd (rev rcs) k1a tr x in
    sx y (sx k0' (sx k1a t0)).
End Generic.

Section Instance.
  Variable B : Type.
  Variables (bx ba : B -> B -> B) (b0 b1 : B).

  Definition bits_of_state64 (s : state (c4 B)) : list B :=
    concat (map c8bits (bytes_of_state64 B s)).
  Fixpoint bytes_of_bits (n : nat) (l : list B) : list (c8 B) :=
    match n with
    | O => []
    | S n' => c8ofbits b0 (firstn 8 l) :: bytes_of_bits n' (skipn 8 l)
    end.
  Definition state64_of_bits (l : list B) : state (c4 B) :=
    state64_of_bytes B b0 (bytes_of_bits 8 l).

  (* k0' = (k0 >>> 1) xor (k0 >> 63) on the 64-bit big-endian value *)
  Definition k0_prime_bits (l : list B) : list B :=
    let msb := hd b0 l in
    let lsb := last l b0 in
    let body := removelast l in  (* b63 .. b1 *)
    lsb :: removelast body ++ [bx (last body b0) msb].
  Definition k0_prime (k0 : state (c4 B)) : state (c4 B) :=
    state64_of_bits (k0_prime_bits (bits_of_state64 k0)).

  Definition mantis_core :=
    core (c4 B) (c4x bx) (c4nib B b0 b1) (Sb0 B bx ba b1).
  Definition alpha_state := const_state (c4 B) (c4nib B b0 b1) ALPHA.

  Definition mantis_encrypt (r : nat) (k0 k1 t m : state (c4 B)) : state (c4 B) :=
    mantis_core r k0 (k0_prime k0) k1 t m.
  (* decryption = encryption under (k0', k0, k1 xor alpha) *)
  Definition mantis_decrypt (r : nat) (k0 k1 t m : state (c4 B)) : state (c4 B) :=
    mantis_core r (k0_prime k0) k0 (sx (c4 B) (c4x bx) k1 alpha_state) t m.
End Instance.

(* byte-string level, bool carrier: key = k0 || k1 (16 bytes) *)
Definition mantis_enc (r : nat) (key tweak blk : list byte) : list byte :=
  bytes_of_state64 bool
    (mantis_encrypt bool xorb andb false true r
       (state64_of_bytes bool false (firstn 8 key))
       (state64_of_bytes bool false (firstn_skip 8 8 key))
       (state64_of_bytes bool false tweak) (state64_of_bytes bool false blk)).
Definition mantis_dec (r : nat) (key tweak blk : list byte) : list byte :=
  bytes_of_state64 bool
    (mantis_decrypt bool xorb andb false true r
       (state64_of_bytes bool false (firstn 8 key))
       (state64_of_bytes bool false (firstn_skip 8 8 key))
       (state64_of_bytes bool false tweak) (state64_of_bytes bool false blk)).
