(* SIRProofs.v — the reference interpreter of SIR.v (public fields read from the real memory) agrees with the
   partial evaluator [flat] (public fields read from a shadow that depends on public inputs only); consequently
   the trace of branch decisions and memory addresses of every execution is a function of the public inputs:
   [interp_trace_public] (constant-time, for the source-level leakage model of branches and addresses). *)
From Coq Require Import List Bool NArith ZArith Arith Lia.
From Skinny Require Import IR SIR IRCheck Frame.
Import ListNotations.

(* ================================================================================================== *)
(* bits <-> numbers                                                                                     *)
(* ================================================================================================== *)
Lemma N_of_bits_testbit : forall l i, N.testbit (N_of_bits l) (N.of_nat i) = nth i l false.
Proof.
  induction l as [|b l IH]; intros i.
  - destruct i; reflexivity.
  - cbn [N_of_bits]. replace ((if b then 1 else 0) + 2 * N_of_bits l)%N with (2 * N_of_bits l + N.b2n b)%N
      by (destruct b; cbn [N.b2n]; lia).
    destruct i as [|i].
    + apply N.testbit_0_r.
    + rewrite Nat2N.inj_succ, N.testbit_succ_r. apply IH.
Qed.

Lemma N_of_bits_const_bits : forall w v, N_of_bits (const_bits bool false true w v) = trunc w v.
Proof.
  intros w v. apply N.bits_inj. intros k.
  rewrite <- (N2Nat.id k). rewrite N_of_bits_testbit. unfold trunc, const_bits.
  rewrite N.land_spec.
  destruct (Nat.lt_ge_cases (N.to_nat k) w) as [Hlt|Hge].
  - rewrite (nth_indep _ false (if N.testbit v (N.of_nat 0) then true else false))
      by (rewrite map_length, seq_length; exact Hlt).
    rewrite (map_nth (fun i => if N.testbit v (N.of_nat i) then true else false) (seq 0 w) 0).
    rewrite seq_nth by exact Hlt. cbn [plus].
    rewrite N.ones_spec_low by lia. rewrite andb_true_r. destruct (N.testbit v (N.of_nat (N.to_nat k))); reflexivity.
  - rewrite nth_overflow by (rewrite map_length, seq_length; exact Hge).
    rewrite N.ones_spec_high by lia. rewrite andb_false_r. reflexivity.
Qed.

(* ================================================================================================== *)
(* memory: frame and read-after-write                                                                   *)
(* ================================================================================================== *)
Section MemB.
  Notation load' := (load bool false).
  Notation store' := (store bool false).

  Lemma nth_store_bytes_out : forall bs off (reg : list (list bool)) j d,
    j < off \/ off + length bs <= j -> nth j (store_bytes bool off bs reg) d = nth j reg d.
  Proof.
    induction bs as [|b bs IH]; intros off reg j d H; [reflexivity|].
    cbn [store_bytes]. rewrite IH by (cbn [length] in H; lia).
    apply nth_set_nth_ne. cbn [length] in H. lia.
  Qed.
  Lemma bytes_of_length : forall n (l : list bool), length (bytes_of bool false n l) = n.
  Proof. induction n as [|n IH]; intros l; [reflexivity|]. cbn [bytes_of length]. rewrite IH. reflexivity. Qed.

  Lemma load_store_other : forall m r off n v r' off' n',
    overlaps r off n (r', off', n') = false -> load' (store' m r off n v) r' off' n' = load' m r' off' n'.
  Proof.
    intros m r off n v r' off' n' H. unfold load, store. f_equal. apply map_ext_in. intros i Hi.
    apply in_seq in Hi. f_equal.
    destruct (Nat.eq_dec r r') as [<-|Hne].
    - cbn [overlaps] in H. rewrite Nat.eqb_refl in H. cbn [andb] in H.
      destruct (Nat.lt_ge_cases r (length m)) as [Hr|Hr].
      + rewrite nth_set_nth_eq by exact Hr.
        apply nth_store_bytes_out. rewrite bytes_of_length.
        apply andb_false_iff in H. destruct H as [H|H]; [apply Nat.ltb_ge in H | apply Nat.ltb_ge in H]; lia.
      + rewrite nth_set_nth. destruct (Nat.ltb r (length m)) eqn:E; [apply Nat.ltb_lt in E; lia|].
        rewrite andb_false_r. reflexivity.
    - rewrite nth_set_nth_ne by exact Hne. reflexivity.
  Qed.

  Lemma nth_store_bytes_in : forall bs off (reg : list (list bool)) i d,
    off + length bs <= length reg -> i < length bs -> nth (off + i) (store_bytes bool off bs reg) d = nth i bs d.
  Proof.
    induction bs as [|b bs IH]; intros off reg i d Hb Hi; [cbn [length] in Hi; lia|].
    cbn [store_bytes]. cbn [length] in Hb, Hi. destruct i as [|i].
    - rewrite Nat.add_0_r. rewrite nth_store_bytes_out by lia. apply nth_set_nth_eq. lia.
    - replace (off + S i) with (S off + i) by lia. apply IH; [rewrite set_nth_length; lia | lia].
  Qed.

  Lemma load_store_same : forall m r off n v,
    r < length m -> off + n <= length (nth r m []) ->
    load' (store' m r off n v) r off n = concat (bytes_of bool false n v).
  Proof.
    intros m r off n v Hr Hb. unfold load, store. rewrite nth_set_nth_eq by exact Hr. f_equal.
    apply nth_ext with (d := []) (d' := []).
    - rewrite map_length, seq_length, bytes_of_length. reflexivity.
    - intros i Hi. rewrite map_length, seq_length in Hi.
      rewrite (nth_indep _ [] (take_pad bool 8 false (nth (off + 0) (store_bytes bool off (bytes_of bool false n v) (nth r m [])) (byte0_ bool false))))
        by (rewrite map_length, seq_length; exact Hi).
      rewrite (map_nth (fun i => take_pad bool 8 false (nth (off + i) _ (byte0_ bool false))) (seq 0 n) 0).
      rewrite seq_nth by exact Hi. cbn [plus].
      rewrite nth_store_bytes_in by (rewrite bytes_of_length; lia).
      rewrite (nth_indep _ (byte0_ bool false) []) by (rewrite bytes_of_length; exact Hi).
      (* every byte produced by bytes_of has exactly 8 bits: take_pad 8 is the identity on it *)
      assert (H8 : forall (l : list bool), length l = 8 -> take_pad bool 8 false l = l).
      { intros l Hl. do 9 (destruct l as [|? l]; try discriminate). reflexivity. }
      apply H8. pose proof (bytes_of_len8 false n v) as F. rewrite Forall_forall in F. apply F.
      apply nth_In. rewrite bytes_of_length. exact Hi.
  Qed.

  Lemma concat_bytes_of : forall n (l : list bool), length l = 8 * n -> concat (bytes_of bool false n l) = l.
  Proof.
    induction n as [|n IH]; intros l Hl.
    - destruct l; [reflexivity | discriminate].
    - cbn [bytes_of concat]. rewrite IH by (rewrite skipn_length; lia).
      assert (H8 : forall (x : list bool), length x = 8 -> take_pad bool 8 false x = x).
      { intros x Hx. do 9 (destruct x as [|? x]; try discriminate). reflexivity. }
      rewrite H8 by (rewrite firstn_length; lia). apply firstn_skipn.
  Qed.

  Lemma store_length : forall (m : mem bool) r off n v, length (store' m r off n v) = length m.
  Proof. intros. unfold store. apply set_nth_length. Qed.
  Lemma store_region_length : forall (m : mem bool) r off n v r',
    length (nth r' (store' m r off n v) []) = length (nth r' m []).
  Proof.
    intros m r off n v r'. unfold store. rewrite nth_set_nth.
    destruct (Nat.eqb r' r && Nat.ltb r (length m))%bool eqn:E; [|reflexivity].
    apply andb_true_iff in E. destruct E as [E _]. apply Nat.eqb_eq in E. subst r'.
    apply store_bytes_length.
  Qed.
End MemB.

Lemma field_eqb_eq0 : forall f g, field_eqb f g = true <-> f = g.
Proof.
  intros [[r o] n] [[r' o'] n']. cbn [field_eqb]. rewrite !andb_true_iff, !Nat.eqb_eq.
  split; [intros [[-> ->] ->]; reflexivity | intros H; inversion H; auto].
Qed.
Lemma sh_set_keys : forall sh f v, map fst (sh_set sh f v) = map fst sh.
Proof.
  induction sh as [|[g w] sh IH]; intros f v; [reflexivity|]. cbn [sh_set map fst].
  destruct (field_eqb f g); cbn [map fst]; [reflexivity | rewrite IH; reflexivity].
Qed.
Lemma vals_after_set : forall (val val' : field -> N) f v sh,
  NoDup (map fst sh) -> val' f = v -> (forall g, In g (map fst sh) -> g <> f -> val' g = val g) ->
  Forall (fun fv => val (fst fv) = snd fv) sh -> Forall (fun fv => val' (fst fv) = snd fv) (sh_set sh f v).
Proof.
  intros val val' f v sh. induction sh as [|[g w] sh IH]; intros Hnd Hs Ho Hv; [constructor|].
  inversion Hv as [|x l Hx Hl]; subst x l. cbn [map fst] in Hnd. inversion Hnd as [|y k Hnin Hnd']; subst y k.
  cbn [sh_set]. destruct (field_eqb f g) eqn:E.
  - apply field_eqb_eq0 in E. subst g. constructor; [exact Hs|].
    apply Forall_forall. intros [g2 w2] Hin2. cbn [fst snd]. rewrite Forall_forall in Hl.
    rewrite Ho.
    + apply (Hl _ Hin2).
    + cbn [map fst]. right. apply in_map_iff. exists (g2, w2). auto.
    + intros ->. apply Hnin. apply in_map_iff. exists (f, w2). auto.
  - constructor.
    + cbn [fst snd]. rewrite Ho; [exact Hx | cbn [map fst]; left; reflexivity |].
      intros ->. rewrite (proj2 (field_eqb_eq0 _ _) eq_refl) in E. discriminate.
    + apply IH; [exact Hnd' | exact Hs | | exact Hl].
      intros g2 Hg2. apply Ho. cbn [map fst]. right. exact Hg2.
Qed.

(* ================================================================================================== *)
(* the invariant tying the shadow to the memory                                                         *)
(* ================================================================================================== *)
Section Agree.
  Variable fields : list field.
  Variable callf : nat -> list bool -> list bool.
  Notation execB' := (exec bool xorb andb false true callf).

  Definition field_val (m : mem bool) (f : field) : N :=
    let '(r, off, n) := f in N_of_bits (load bool false m r off n).
  Definition field_inb (m : mem bool) (f : field) : Prop :=
    let '(r, off, n) := f in r < length m /\ off + n <= length (nth r m []).
  Definition disjoint_fields : Prop :=
    forall f g, In f fields -> In g fields -> f <> g -> overlaps (fst (fst f)) (snd (fst f)) (snd f) g = false.

  Record Inv (sh : shadow) (m : mem bool) : Prop := {
    inv_keys : map fst sh = fields;
    inv_vals : Forall (fun fv => field_val m (fst fv) = snd fv) sh;
    inv_inb : Forall (field_inb m) fields
  }.

  Lemma field_eqb_eq : forall f g, field_eqb f g = true <-> f = g.
  Proof.
    intros [[r o] n] [[r' o'] n']. cbn [field_eqb]. rewrite !andb_true_iff, !Nat.eqb_eq.
    split; [intros [[-> ->] ->]; reflexivity | intros H; inversion H; auto].
  Qed.
  Lemma existsb_field : forall f l, existsb (field_eqb f) l = true <-> In f l.
  Proof.
    intros f l. rewrite existsb_exists. split.
    - intros [g [Hg E]]. apply field_eqb_eq in E. subst g. exact Hg.
    - intros H. exists f. split; [exact H | apply field_eqb_eq; reflexivity].
  Qed.

  (* reading a public field: shadow and memory agree *)
  Lemma rd_agree : forall sh m, Inv sh m -> forall r off n, rd_sh sh r off n = rd_mem fields m r off n.
  Proof.
    intros sh m [Hk Hv _] r off n. unfold rd_sh, rd_mem. subst fields.
    induction sh as [|[g v] sh IH]; [reflexivity|].
    inversion Hv as [|x l Hx Hl]; subst. cbn [sh_get map existsb fst].
    destruct (field_eqb (r, off, n) g) eqn:E.
    - apply field_eqb_eq in E. subst g. cbn [orb]. cbn [fst snd field_val] in Hx. rewrite Hx. reflexivity.
    - cbn [orb]. apply IH. exact Hl.
  Qed.

  Lemma peval_agree : forall sh m pl, Inv sh m -> forall e, peval (rd_sh sh) pl e = peval (rd_mem fields m) pl e.
  Proof.
    intros sh m pl HI e. induction e; cbn [peval]; try reflexivity.
    - apply (rd_agree sh m HI).
    - rewrite IHe1, IHe2. reflexivity.
    - rewrite IHe. reflexivity.
    - rewrite IHe. reflexivity.
    - rewrite IHe. reflexivity.
    - rewrite IHe1, IHe2, IHe3. reflexivity.
  Qed.

  Lemma fexpr_ext : forall pv1 pv2, (forall e, pv1 e = pv2 e) -> forall e, fexpr pv1 e = fexpr pv2 e.
  Proof.
    intros pv1 pv2 H. fix IH 1. intros e. destruct e; cbn [fexpr]; try reflexivity;
      try (rewrite H; reflexivity); try (rewrite (IH e); reflexivity).
    - rewrite (IH e1), (IH e2). reflexivity.
    - match goal with |- match ?g1 with _ => _ end = match ?g2 with _ => _ end => assert (E : g1 = g2) end.
      { induction l as [|a l IHl]; [reflexivity|]. rewrite (IH a), IHl. reflexivity. }
      rewrite E. reflexivity.
    - rewrite (IH e1), (IH e2). reflexivity.
  Qed.

  Lemma simple_agree : forall sh m pl s, Inv sh m ->
    simple fields (rd_sh sh) pl s = simple fields (rd_mem fields m) pl s.
  Proof.
    intros sh m pl s HI. pose proof (peval_agree sh m pl HI) as Hp.
    destruct s; cbn [simple]; try reflexivity; rewrite ?Hp;
      try rewrite (fexpr_ext _ _ Hp); reflexivity.
  Qed.

  (* ---- code whose stores stay clear of the public fields preserves their values ---- *)
  Fixpoint stores_clear (p : list stmt) : bool :=
    match p with
    | [] => true
    | SLocal _ _ :: p' => stores_clear p'
    | SStore r off n _ :: p' => clear_of_fields fields r off n && stores_clear p'
    end.

  Lemma clear_not_overlaps : forall r off n f, clear_of_fields fields r off n = true -> In f fields ->
    overlaps r off n f = false.
  Proof.
    intros r off n f H Hin. unfold clear_of_fields in H. apply negb_true_iff in H.
    destruct (overlaps r off n f) eqn:E; [|reflexivity].
    assert (existsb (overlaps r off n) fields = true) by (apply existsb_exists; exists f; auto). congruence.
  Qed.

  Lemma exec_clear : forall p m loc, stores_clear p = true ->
    (forall f, In f fields -> field_val (fst (execB' p (m, loc))) f = field_val m f) /\
    (forall f, field_inb m f -> field_inb (fst (execB' p (m, loc))) f).
  Proof.
    induction p as [|s p IH]; intros m loc H; [split; auto|].
    unfold exec. cbn [fold_left]. destruct s as [x e | r off n e]; cbn [stores_clear] in H.
    - apply (IH m _ H).
    - apply andb_true_iff in H. destruct H as [H1 H2]. cbn [exec1].
      destruct (IH (store bool false m r off n (eval bool xorb andb false true callf m loc e)) loc H2) as [A B].
      split.
      + intros f Hf. unfold exec in A. rewrite (A f Hf). destruct f as [[r' o'] n']. cbn [field_val]. f_equal.
        apply load_store_other. apply (clear_not_overlaps r off n (r', o', n') H1 Hf).
      + intros f Hf. unfold exec in B. apply B. destruct f as [[r' o'] n']. cbn [field_inb] in *.
        rewrite store_length, store_region_length. exact Hf.
  Qed.

  Lemma clear_sub : forall r off n off' n', clear_of_fields fields r off n = true -> off <= off' -> off' + n' <= off + n ->
    clear_of_fields fields r off' n' = true.
  Proof.
    intros r off n off' n' H H1 H2. unfold clear_of_fields in *. apply negb_true_iff in H. apply negb_true_iff.
    destruct (existsb (overlaps r off' n') fields) eqn:E; [|reflexivity].
    apply existsb_exists in E. destruct E as [[[r2 o2] n2] [Hin Ho]].
    assert (existsb (overlaps r off n) fields = true); [|congruence].
    apply existsb_exists. exists (r2, o2, n2). split; [exact Hin|].
    cbn [overlaps] in *. apply andb_true_iff in Ho. destruct Ho as [Ho Ho3]. apply andb_true_iff in Ho. destruct Ho as [Ho1 Ho2].
    rewrite Ho1. apply Nat.ltb_lt in Ho2. apply Nat.ltb_lt in Ho3. cbn [andb].
    apply andb_true_iff. split; apply Nat.ltb_lt; lia.
  Qed.
  Lemma copy_code_clear : forall n rd offd rs offs base len, clear_of_fields fields rd base len = true ->
    base <= offd -> offd + n <= base + len -> stores_clear (copy_code rd offd rs offs n) = true.
  Proof.
    induction n as [|n IH]; intros rd offd rs offs base len H H1 H2; [reflexivity|].
    cbn [copy_code stores_clear]. apply andb_true_iff. split.
    - apply (clear_sub rd base len offd 1 H); lia.
    - apply (IH rd (S offd) rs (S offs) base len H); lia.
  Qed.
  Lemma fill_code_clear : forall n r off v base len, clear_of_fields fields r base len = true ->
    base <= off -> off + n <= base + len -> stores_clear (fill_code r off n v) = true.
  Proof.
    induction n as [|n IH]; intros r off v base len H H1 H2; [reflexivity|].
    cbn [fill_code stores_clear]. apply andb_true_iff. split.
    - apply (clear_sub r base len off 1 H); lia.
    - apply (IH r (S off) v base len H); lia.
  Qed.

  Hypothesis Hdisj : disjoint_fields.
  Hypothesis Hnodup : NoDup fields.

  (* one simple statement preserves the invariant *)
  Lemma simple_inv : forall sh m loc pl s pl1 u c1 t1, Inv sh m ->
    simple fields (rd_sh sh) pl s = Some (pl1, u, c1, t1) ->
    Inv (upd_sh sh u) (fst (execB' c1 (m, loc))).
  Proof.
    intros sh m loc pl s pl1 u c1 t1 HI Hs.
    assert (Hclear : forall c, stores_clear c = true -> Inv sh (fst (execB' c (m, loc)))).
    { intros c Hc. destruct HI as [Hk Hv Hb]. destruct (exec_clear c m loc Hc) as [A Bn]. constructor.
      - exact Hk.
      - apply Forall_forall. intros [f v] Hin. rewrite Forall_forall in Hv. cbn [fst snd].
        rewrite A; [apply (Hv (f, v) Hin)|]. rewrite <- Hk. apply in_map_iff. exists (f, v). auto.
      - apply Forall_forall. intros f Hf. rewrite Forall_forall in Hb. apply Bn, Hb, Hf. }
    destruct s; cbn [simple] in Hs.
    - destruct (fexpr (peval (rd_sh sh) pl) e) as [[e' t]|]; [|discriminate]. inversion Hs; subst. apply (Hclear [SLocal x e']). reflexivity.
    - destruct (peval (rd_sh sh) pl off) as [o|]; [|discriminate].
      destruct (fexpr (peval (rd_sh sh) pl) e) as [[e' t]|]; [|discriminate].
      destruct (clear_of_fields fields r (N.to_nat o) n) eqn:Ec; [|discriminate]. inversion Hs; subst.
      apply (Hclear [SStore r (N.to_nat o) n e']). cbn [stores_clear]. rewrite Ec. reflexivity.
    - destruct (peval (rd_sh sh) pl e) as [v|]; [|discriminate]. inversion Hs; subst. apply (Hclear []). reflexivity.
    - destruct (peval (rd_sh sh) pl e) as [v|]; [|discriminate].
      destruct (existsb (field_eqb (r, off, n)) fields) eqn:Ef; [|discriminate]. inversion Hs; subst. clear Hs.
      apply existsb_field in Ef. destruct HI as [Hk Hv Hb]. cbn [upd_sh].
      unfold exec. cbn [fold_left exec1 fst eval].
      assert (Hin : field_inb m (r, off, n)) by (rewrite Forall_forall in Hb; apply Hb, Ef).
      cbn [field_inb] in Hin. destruct Hin as [Hr Ho].
      constructor.
      + rewrite sh_set_keys. exact Hk.
      + apply (vals_after_set (field_val m)).
        * rewrite Hk. exact Hnodup.
        * cbn [field_val]. rewrite load_store_same by assumption.
          rewrite concat_bytes_of by (unfold const_bits; rewrite map_length, seq_length; reflexivity).
          rewrite N_of_bits_const_bits. unfold trunc. rewrite <- N.land_assoc, N.land_diag. reflexivity.
        * intros [[r' o'] n'] Hg Hne. cbn [field_val]. f_equal. apply load_store_other.
          rewrite Hk in Hg. apply (Hdisj (r, off, n) (r', o', n') Ef Hg). congruence.
        * exact Hv.
      + apply Forall_forall. intros [[r' o'] n'] Hf. rewrite Forall_forall in Hb. specialize (Hb _ Hf).
        cbn [field_inb] in *. rewrite store_length, store_region_length. exact Hb.
    - discriminate.
    - discriminate.
    - destruct (peval (rd_sh sh) pl offd) as [od|]; [|discriminate].
      destruct (peval (rd_sh sh) pl offs) as [os|]; [|discriminate].
      destruct (peval (rd_sh sh) pl n) as [k|]; [|discriminate].
      destruct (clear_of_fields fields rd (N.to_nat od) (N.to_nat k)) eqn:Ec; [|discriminate]. inversion Hs; subst.
      apply Hclear. apply (copy_code_clear _ _ _ _ _ (N.to_nat od) (N.to_nat k) Ec); lia.
    - destruct (peval (rd_sh sh) pl off) as [o|]; [|discriminate].
      destruct (peval (rd_sh sh) pl n) as [k|]; [|discriminate].
      destruct (clear_of_fields fields r (N.to_nat o) (N.to_nat k)) eqn:Ec; [|discriminate]. inversion Hs; subst.
      apply Hclear. apply (fill_code_clear _ _ _ _ (N.to_nat o) (N.to_nat k) Ec); lia.
  Qed.

  (* ---- the interpreter is the partial evaluator followed by the straight-line code ---- *)
  Theorem interp_flat : forall fuel p pl sh m loc, Inv sh m ->
    interp fields callf fuel pl (m, loc) p
    = match flat fields fuel pl sh p with
      | Some (pl', sh', code, t) => Some (pl', execB' code (m, loc), t)
      | None => None
      end.
  Proof.
    induction fuel as [|fuel IH]; intros p pl sh m loc HI; [reflexivity|].
    cbn [interp flat]. destruct p as [|s rest]; [reflexivity|].
    cbn [fst].
    destruct s.
    1-4,7-8:
      (rewrite <- (simple_agree sh m pl _ HI);
       match goal with |- context [simple ?a ?b ?c ?d] => destruct (simple a b c d) as [[[[pl1 u] c1] t1]|] eqn:Es end;
       [|reflexivity];
       pose proof (simple_inv sh m loc pl _ pl1 u c1 t1 HI Es) as HI1;
       destruct (execB' c1 (m, loc)) as [m1 loc1] eqn:Ex; cbn [fst] in HI1;
       rewrite (IH rest pl1 (upd_sh sh u) m1 loc1 HI1);
       destruct (flat fields fuel pl1 (upd_sh sh u) rest) as [[[[pl' sh'] code] t]|]; [|reflexivity];
       unfold exec; rewrite fold_left_app; fold (exec bool xorb andb false true callf c1 (m, loc)); rewrite Ex; reflexivity).
    - rewrite <- (peval_agree sh m pl HI). destruct (peval (rd_sh sh) pl c) as [v|]; [|reflexivity].
      rewrite (IH _ pl sh m loc HI). destruct (flat fields fuel pl sh _) as [[[[pl' sh'] code] t]|]; reflexivity.
    - rewrite <- (peval_agree sh m pl HI). destruct (peval (rd_sh sh) pl c) as [v|]; [|reflexivity].
      rewrite (IH _ pl sh m loc HI). destruct (flat fields fuel pl sh _) as [[[[pl' sh'] code] t]|]; reflexivity.
  Qed.

  (* ---- constant time: the trace and the final public state depend on the public inputs only ---- *)
  Theorem interp_trace_public : forall fuel p pl sh m1 m2 loc1 loc2 pl1 st1 t1 pl2 st2 t2,
    Inv sh m1 -> Inv sh m2 ->
    interp fields callf fuel pl (m1, loc1) p = Some (pl1, st1, t1) ->
    interp fields callf fuel pl (m2, loc2) p = Some (pl2, st2, t2) ->
    t1 = t2 /\ pl1 = pl2.
  Proof.
    intros fuel p pl sh m1 m2 loc1 loc2 pl1 st1 t1 pl2 st2 t2 H1 H2 E1 E2.
    rewrite (interp_flat fuel p pl sh m1 loc1 H1) in E1. rewrite (interp_flat fuel p pl sh m2 loc2 H2) in E2.
    destruct (flat fields fuel pl sh p) as [[[[pl' sh'] code] t]|]; [|discriminate].
    inversion E1; inversion E2; subst. split; reflexivity.
  Qed.

  (* and termination / failure is public too *)
  Theorem interp_defined_public : forall fuel p pl sh m1 m2 loc1 loc2, Inv sh m1 -> Inv sh m2 ->
    (interp fields callf fuel pl (m1, loc1) p = None <-> interp fields callf fuel pl (m2, loc2) p = None).
  Proof.
    intros fuel p pl sh m1 m2 loc1 loc2 H1 H2.
    rewrite (interp_flat fuel p pl sh m1 loc1 H1), (interp_flat fuel p pl sh m2 loc2 H2).
    destruct (flat fields fuel pl sh p) as [[[[pl' sh'] code] t]|]; split; intros; (reflexivity || discriminate).
  Qed.
End Agree.

(* ================================================================================================== *)
(* convenience: a single public field; running a program = flattening it and running the straight-line   *)
(* code                                                                                                 *)
(* ================================================================================================== *)
Lemma disjoint_single : forall f, disjoint_fields [f].
Proof. intros f g1 g2 [<-|[]] [<-|[]] H. congruence. Qed.
Lemma nodup_single : forall f : field, NoDup [f].
Proof. intros f. constructor; [intros [] | constructor]. Qed.
Lemma Inv_single : forall f v m, field_val m f = v -> field_inb m f -> Inv [f] [(f, v)] m.
Proof.
  intros f v m Hv Hi. constructor; [reflexivity | constructor; [exact Hv | constructor] | constructor; [exact Hi | constructor]].
Qed.
Lemma disjoint_nil : disjoint_fields []. Proof. intros f g []. Qed.
Lemma Inv_nil : forall m, Inv [] [] m. Proof. intros m. constructor; constructor. Qed.

Theorem interp_of_flat : forall fields callf, disjoint_fields fields -> NoDup fields ->
  forall fuel code pl sh m pl' sh' c t, Inv fields sh m ->
  flat fields fuel pl sh code = Some (pl', sh', c, t) ->
  interp fields callf fuel pl (m, []) code = Some (pl', exec bool xorb andb false true callf c (m, []), t).
Proof.
  intros fields callf Hd Hn fuel code pl sh m pl' sh' c t HI Hf.
  rewrite (interp_flat fields callf Hd Hn fuel code pl sh m [] HI), Hf. reflexivity.
Qed.

(* decidable side conditions on the field list of a generated function *)
Definition fields_okb (fields : list field) : bool :=
  forallb (fun f => forallb (fun g => field_eqb f g || negb (overlaps (fst (fst f)) (snd (fst f)) (snd f) g)) fields) fields
  && (fix nodup (l : list field) : bool :=
        match l with [] => true | f :: l' => negb (existsb (field_eqb f) l') && nodup l' end) fields.
Lemma fields_okb_sound : forall fields, fields_okb fields = true -> disjoint_fields fields /\ NoDup fields.
Proof.
  intros fields H. unfold fields_okb in H. apply andb_true_iff in H. destruct H as [H1 H2]. split.
  - intros f g Hf Hg Hne. rewrite forallb_forall in H1. specialize (H1 f Hf). rewrite forallb_forall in H1.
    specialize (H1 g Hg). apply orb_true_iff in H1. destruct H1 as [H1|H1].
    + apply field_eqb_eq0 in H1. congruence.
    + apply negb_true_iff in H1. exact H1.
  - clear H1. induction fields as [|f l IH]; [constructor|].
    apply andb_true_iff in H2. destruct H2 as [Ha Hb]. constructor; [|apply IH; exact Hb].
    intros Hin. apply negb_true_iff in Ha.
    assert (existsb (field_eqb f) l = true) by (apply existsb_exists; exists f; split; [exact Hin | apply field_eqb_eq0; reflexivity]).
    congruence.
Qed.

(* a translated function at one public configuration: runs to completion on every memory that agrees with the public fields,
   with the SAME trace of branch decisions and (region, offset, width) accesses *)
Theorem run_final : forall fields callf code fuel pl sh pl' sh' c t,
  fields_okb fields = true ->
  flat fields fuel pl sh code = Some (pl', sh', c, t) ->
  forall m, Inv fields sh m ->
  interp fields callf fuel pl (m, []) code = Some (pl', exec bool xorb andb false true callf c (m, []), t).
Proof.
  intros fields callf code fuel pl sh pl' sh' c t Hf Hfl m HI.
  destruct (fields_okb_sound fields Hf) as [Hd Hn].
  apply (interp_of_flat fields callf Hd Hn fuel code pl sh m pl' sh' c t HI Hfl).
Qed.
