(* WholeKeyTweak.v — the key-schedule specification of the TWEAKABLE SKINNY-128 key setup (what the whole-function
   obligations key128_stk_* / kctr_*_stk_* check skinny128_set_tweaked_key against, for all data) on the byte image of a model
   schedule IS the byte image of the model's result (ModelCipher.set_key_inner with the all-zero tweak in TK1 and the
   tweak-domain constant), for every accepted key length 16..32. *)
From Coq Require Import List Bool NArith Arith Lia.
From Skinny Require Import Bits SpecSkinny IR SIR Anf IRCheck KernelSpecs KernelSpecs2 KernelHom KernelHom2 SIRCheck WholeSpecs Frame
                           SIRProofs ModelCipher ModelCtr ProofsSkinny KernelBridge WholeBridge WholeKey WholeProc WholeCtr WholeCtrModel.
Import ListNotations.

(* KeyModel128T *)
Notation hbK8 := (KernelSpecs2.half_bytes128 bool).
Notation l2K8 := (lfsr2_8 bool xorb).
Notation l3K8 := (lfsr3_8 bool xorb).
Notation KSt128 := (key_sched bool false true (k128_tk1_body bool xorb false true) (k128_tk2_body bool xorb false)
                          (k128_tk3_body bool xorb false) 8 16 40 48 56).

Lemma zeros_region128 : repeat (zbyte bool false) 16 = reg_of_state128 bool (load128 (pad_to 16 (zeros 16))).
Proof. vm_compute. reflexivity. Qed.

Theorem key_sched128_tweaked_model : forall (key hdr : list byte) (sched : list (half byte)) back r0,
  16 <= length key <= 32 -> length hdr = 8 -> length sched = 56 ->
  let ks' := set_key_inner byte bxor8 cnib8 l2K8 l3K8 16 load128 byte0 m128_rounds {| ks_rounds := r0; ks_sched := sched |} key
                           (Some (zeros 16)) in
  KSt128 (length key) true (bitsb key) (repeat (zbyte bool false) 16) (bitsb hdr ++ concat (map hbK8 sched) ++ back)
  = (rbytes (N.to_nat (ks_rounds byte ks')) ++ skipn 4 (bitsb hdr)) ++ concat (map hbK8 (ks_sched byte ks')) ++ back.
Proof.
  intros key hdr sched back r0 Hk Hh Hs. cbv zeta.
  assert (Hh' : length (bitsb hdr) = 8) by (rewrite map_length; exact Hh).
  assert (L48 : 48 <= length sched) by (replace (length sched) with 56 by (symmetry; exact Hs); repeat constructor).
  assert (L56 : 56 <= length sched) by (replace (length sched) with 56 by (symmetry; exact Hs); repeat constructor).
  unfold key_sched, set_key_inner. cbn [negb ks_sched].
  destruct (Nat.eqb (length key) 16) eqn:E1.
  - cbn [mk_ks ks_rounds ks_sched]. rewrite Nat2N.id.
    change (m128_rounds 2) with 48. rewrite set_rounds_image by exact Hh'.
    rewrite tk_region128, zeros_region128.
    match goal with
    | |- pass bool ?b2 ?w ?n ?t2 ?r2 (pass bool ?b1 ?w ?n ?t1 ?r1 ?m) = _ =>
        etransitivity; [apply (f_equal (fun x => pass bool b2 w n t2 r2 x));
                        exact (pass1_128_image true 48 _ _ sched back (hdr'_len 48 _ Hh') L48)|]
    end.
    rewrite (passx128_image (k128_tk2_body bool xorb false) (next_tk2 byte l2K8)
               (fun tk slot pre Hp => k128_tk2_body_step tk slot pre [] Hp) 48 _ _ _ back (hdr'_len 48 _ Hh'))
      by (eapply Nat.le_trans; [exact L48 | apply Nat.eq_le_incl; symmetry; apply sched_loop_len]).
    reflexivity.
  - cbn [mk_ks ks_rounds ks_sched]. rewrite Nat2N.id.
    change (m128_rounds 3) with 56. rewrite set_rounds_image by exact Hh'.
    rewrite (bits_skipn 16 key), (bits_firstn 16 key), tk_region128, zeros_region128.
    rewrite (tk_region128_full (firstn 16 key)) by (rewrite firstn_length; lia).
    match goal with
    | |- pass bool ?b3 ?w ?n ?t3 ?r3 (pass bool ?b2 ?w ?n ?t2 ?r2 (pass bool ?b1 ?w ?n ?t1 ?r1 ?m)) = _ =>
        etransitivity; [apply (f_equal (fun x => pass bool b3 w n t3 r3 (pass bool b2 w n t2 r2 x)));
                        exact (pass1_128_image true 56 _ _ sched back (hdr'_len 56 _ Hh') L56)|]
    end.
    match goal with
    | |- pass bool ?b3 ?w ?n ?t3 ?r3 (pass bool ?b2 ?w ?n ?t2 ?r2 ?m) = _ =>
        etransitivity; [apply (f_equal (fun x => pass bool b3 w n t3 r3 x));
                        refine (passx128_image (k128_tk2_body bool xorb false) (next_tk2 byte l2K8)
                                  (fun tk slot pre Hp => k128_tk2_body_step tk slot pre [] Hp) 56 _ _ _ back (hdr'_len 56 _ Hh') _);
                        eapply Nat.le_trans; [exact L56 | apply Nat.eq_le_incl; symmetry; apply sched_loop_len]|]
    end.
    rewrite (passx128_image (k128_tk3_body bool xorb false) (next_tk3 byte l3K8)
               (fun tk slot pre Hp => k128_tk3_body_step tk slot pre [] Hp) 56 _ _ _ back (hdr'_len 56 _ Hh'))
      by (eapply Nat.le_trans; [exact L56 | apply Nat.eq_le_incl; symmetry; etransitivity; [apply sched_loop_len | apply sched_loop_len]]).
    reflexivity.
Qed.

(* KeyModel64T *)
Notation hbK4 := (KernelSpecs2.half_bytes64 bool).
Notation l2K4 := (lfsr2_4 bool xorb).
Notation l3K4 := (lfsr3_4 bool xorb).
Notation KSt64 := (key_sched bool false true (k64_tk1_body bool xorb false true) (k64_tk2_body bool xorb false)
                          (k64_tk3_body bool xorb false) 4 8 32 36 40).

Lemma zeros_region64 : repeat (zbyte bool false) 8 = reg_of_state64 bool (load64 (pad_to 8 (zeros 8))).
Proof. vm_compute. reflexivity. Qed.

Theorem key_sched64_tweaked_model : forall (key hdr : list byte) (sched : list (half nib)) back r0,
  8 <= length key <= 16 -> length hdr = 4 -> length sched = 40 ->
  let ks' := set_key_inner nib bxor4 cnib4 l2K4 l3K4 8 load64 nib0 m64_rounds {| ks_rounds := r0; ks_sched := sched |} key
                           (Some (zeros 8)) in
  KSt64 (length key) true (bitsb key) (repeat (zbyte bool false) 8) (bitsb hdr ++ concat (map hbK4 sched) ++ back)
  = (rbytes (N.to_nat (ks_rounds nib ks')) ++ skipn 4 (bitsb hdr)) ++ concat (map hbK4 (ks_sched nib ks')) ++ back.
Proof.
  intros key hdr sched back r0 Hk Hh Hs. cbv zeta.
  assert (Hh' : length (bitsb hdr) = 4) by (rewrite map_length; exact Hh).
  assert (L36 : 36 <= length sched) by (replace (length sched) with 40 by (symmetry; exact Hs); repeat constructor).
  assert (L40 : 40 <= length sched) by (replace (length sched) with 40 by (symmetry; exact Hs); repeat constructor).
  unfold key_sched, set_key_inner. cbn [negb ks_sched].
  destruct (Nat.eqb (length key) 8) eqn:E1.
  - cbn [mk_ks ks_rounds ks_sched]. rewrite Nat2N.id.
    change (m64_rounds 2) with 36. rewrite set_rounds_image4 by exact Hh'.
    rewrite tk_region64, zeros_region64.
    match goal with
    | |- pass bool ?b2 ?w ?n ?t2 ?r2 (pass bool ?b1 ?w ?n ?t1 ?r1 ?m) = _ =>
        etransitivity; [apply (f_equal (fun x => pass bool b2 w n t2 r2 x));
                        exact (pass1_64_image true 36 _ _ sched back (hdr4'_len 36 _ Hh') L36)|]
    end.
    rewrite (passx64_image (k64_tk2_body bool xorb false) (next_tk2 nib l2K4)
               (fun tk slot pre Hp => k64_tk2_body_step tk slot pre [] Hp) 36 _ _ _ back (hdr4'_len 36 _ Hh'))
      by (eapply Nat.le_trans; [exact L36 | apply Nat.eq_le_incl; symmetry; apply sched_loop_len]).
    reflexivity.
  - cbn [mk_ks ks_rounds ks_sched]. rewrite Nat2N.id.
    change (m64_rounds 3) with 40. rewrite set_rounds_image4 by exact Hh'.
    rewrite (bits_skipn64 8 key), (bits_firstn64 8 key), tk_region64, zeros_region64.
    rewrite (tk_region64_full (firstn 8 key)) by (rewrite firstn_length; lia).
    match goal with
    | |- pass bool ?b3 ?w ?n ?t3 ?r3 (pass bool ?b2 ?w ?n ?t2 ?r2 (pass bool ?b1 ?w ?n ?t1 ?r1 ?m)) = _ =>
        etransitivity; [apply (f_equal (fun x => pass bool b3 w n t3 r3 (pass bool b2 w n t2 r2 x)));
                        exact (pass1_64_image true 40 _ _ sched back (hdr4'_len 40 _ Hh') L40)|]
    end.
    match goal with
    | |- pass bool ?b3 ?w ?n ?t3 ?r3 (pass bool ?b2 ?w ?n ?t2 ?r2 ?m) = _ =>
        etransitivity; [apply (f_equal (fun x => pass bool b3 w n t3 r3 x));
                        refine (passx64_image (k64_tk2_body bool xorb false) (next_tk2 nib l2K4)
                                  (fun tk slot pre Hp => k64_tk2_body_step tk slot pre [] Hp) 40 _ _ _ back (hdr4'_len 40 _ Hh') _);
                        eapply Nat.le_trans; [exact L40 | apply Nat.eq_le_incl; symmetry; apply sched_loop_len]|]
    end.
    rewrite (passx64_image (k64_tk3_body bool xorb false) (next_tk3 nib l3K4)
               (fun tk slot pre Hp => k64_tk3_body_step tk slot pre [] Hp) 40 _ _ _ back (hdr4'_len 40 _ Hh'))
      by (eapply Nat.le_trans; [exact L40 | apply Nat.eq_le_incl; symmetry; etransitivity; [apply sched_loop_len | apply sched_loop_len]]).
    reflexivity.
Qed.

Print Assumptions key_sched128_tweaked_model.
Print Assumptions key_sched64_tweaked_model.

(* ================================================================================================== *)
(* set_tweak: xor the previous tweak out, the new one in                                                *)
(* ================================================================================================== *)
(* Tweak128 *)
Notation hbT8 := (KernelSpecs2.half_bytes128 bool).
Notation xbodyT8 := (k128_xor_tk1_body bool xorb false).
Notation xtk1T8 := (xor_tk1 byte bxor8 16 load128).

Lemma sched_image_len128 : forall sched : list (half byte), length (concat (map hbT8 sched)) = 8 * length sched.
Proof. induction sched as [|e s IH]; [reflexivity|]. cbn [map concat length]. rewrite app_length, hb128_len, IH. lia. Qed.

Lemma xor_pass128 : forall R (tw hdr : list byte) sched back, length tw = 16 -> length hdr = 8 -> R <= length sched ->
  pass bool xbodyT8 8 R (bitsb tw) [] (bitsb hdr ++ concat (map hbT8 sched) ++ back)
  = bitsb hdr ++ concat (map hbT8 (xtk1T8 R tw sched)) ++ back.
Proof.
  intros R tw hdr sched back Ht Hh HR.
  rewrite (tk_region128_full tw Ht).
  rewrite (passx128_image xbodyT8 (next_tk1 byte) (fun tk slot pre Hp => k128_xor_tk1_body_step tk slot pre [] Hp) R _ (bitsb hdr) sched back)
    by (rewrite ?map_length; assumption).
  reflexivity.
Qed.

Theorem w_set_tweak128_model : forall R tsz (null : bool) (twarg prevtw hdr : list byte) (sched : list (half byte)) rest mrest,
  length hdr = 8 -> length sched = 56 -> length prevtw = 16 -> R <= 56 -> tsz <= 16 ->
  let newtw := if null then zeros 16 else pad_to 16 (firstn tsz twarg) in
  w_set_tweak128 bool xorb false R tsz null
    ((bitsb hdr ++ concat (map hbT8 sched) ++ bitsb prevtw ++ rest) :: bitsb twarg :: mrest)
  = [bitsb hdr ++ concat (map hbT8 (xtk1T8 R newtw (xtk1T8 R prevtw sched))) ++ bitsb newtw ++ rest; bitsb twarg].
Proof.
  intros R tsz null twarg prevtw hdr sched rest mrest Hh Hs Hp HR Ht. cbv zeta. unfold byte in *.
  unfold w_set_tweak128, w_set_tweak, reg. cbn [nth].
  assert (Lpre : length (bitsb hdr ++ concat (map hbT8 sched)) = 456).
  { rewrite app_length, map_length, sched_image_len128. unfold byte in *. lia. }
  assert (Eprev : firstn 16 (skipn 456 (bitsb hdr ++ concat (map hbT8 sched) ++ bitsb prevtw ++ rest)) = bitsb prevtw).
  { rewrite (app_assoc (bitsb hdr)). rewrite <- Lpre, skipn_app, Nat.sub_diag, skipn_all. cbn [app skipn].
    rewrite firstn_app, map_length, Hp, Nat.sub_diag, firstn_O, app_nil_r. apply firstn_all2. rewrite map_length. lia. }
  rewrite Eprev.
  set (newbits := if null then repeat (zbyte bool false) 16 else padb bool false 16 (firstn tsz (bitsb twarg))).
  assert (Enew : newbits = bitsb (if null then zeros 16 else pad_to 16 (firstn tsz twarg))).
  { unfold newbits. destruct null; [vm_compute; reflexivity|]. rewrite firstn_map, <- bits_pad_to. reflexivity. }
  assert (Lnew : length (if null then zeros 16 else pad_to 16 (firstn tsz twarg)) = 16).
  { destruct null; [reflexivity | apply pad_to_length]. }
  rewrite Enew.
  assert (Espl : splice bool (bitsb hdr ++ concat (map hbT8 sched) ++ bitsb prevtw ++ rest) 456
                   (bitsb (if null then zeros 16 else pad_to 16 (firstn tsz twarg)))
                 = bitsb hdr ++ concat (map hbT8 sched) ++ bitsb (if null then zeros 16 else pad_to 16 (firstn tsz twarg)) ++ rest).
  { rewrite (app_assoc (bitsb hdr)). rewrite <- Lpre.
    rewrite (splice_mid _ (bitsb prevtw) rest) by (rewrite !map_length; unfold byte in *; lia).
    rewrite <- app_assoc. reflexivity. }
  rewrite Espl.
  assert (HRs : R <= length sched) by (rewrite Hs; exact HR).
  assert (HRs2 : R <= length (xtk1T8 R prevtw sched)) by (unfold xor_tk1; rewrite sched_loop_len; exact HRs).
  rewrite (xor_pass128 R prevtw hdr sched _ Hp Hh HRs).
  rewrite (xor_pass128 R _ hdr _ _ Lnew Hh HRs2).
  reflexivity.
Qed.

(* Tweak64 *)
Notation hbT4 := (KernelSpecs2.half_bytes64 bool).
Notation xbodyT4 := (k64_xor_tk1_body bool xorb false).
Notation xtk1T4 := (xor_tk1 nib bxor4 8 load64).

Lemma sched_image_len64 : forall sched : list (half nib), length (concat (map hbT4 sched)) = 4 * length sched.
Proof. induction sched as [|e s IH]; [reflexivity|]. cbn [map concat length]. rewrite app_length, hb64_len, IH. lia. Qed.

Lemma xor_pass64 : forall R (tw hdr : list byte) sched back, length tw = 8 -> length hdr = 4 -> R <= length sched ->
  pass bool xbodyT4 4 R (bitsb tw) [] (bitsb hdr ++ concat (map hbT4 sched) ++ back)
  = bitsb hdr ++ concat (map hbT4 (xtk1T4 R tw sched)) ++ back.
Proof.
  intros R tw hdr sched back Ht Hh HR.
  rewrite (tk_region64_full tw Ht).
  rewrite (passx64_image xbodyT4 (next_tk1 nib) (fun tk slot pre Hp => k64_xor_tk1_body_step tk slot pre [] Hp) R _ (bitsb hdr) sched back)
    by (rewrite ?map_length; assumption).
  reflexivity.
Qed.

Theorem w_set_tweak64_model : forall R tsz (null : bool) (twarg prevtw hdr : list byte) (sched : list (half nib)) rest mrest,
  length hdr = 4 -> length sched = 40 -> length prevtw = 8 -> R <= 40 -> tsz <= 8 ->
  let newtw := if null then zeros 8 else pad_to 8 (firstn tsz twarg) in
  w_set_tweak64 bool xorb false R tsz null
    ((bitsb hdr ++ concat (map hbT4 sched) ++ bitsb prevtw ++ rest) :: bitsb twarg :: mrest)
  = [bitsb hdr ++ concat (map hbT4 (xtk1T4 R newtw (xtk1T4 R prevtw sched))) ++ bitsb newtw ++ rest; bitsb twarg].
Proof.
  intros R tsz null twarg prevtw hdr sched rest mrest Hh Hs Hp HR Ht. cbv zeta. unfold byte in *.
  unfold w_set_tweak64, w_set_tweak, reg. cbn [nth].
  assert (Lpre : length (bitsb hdr ++ concat (map hbT4 sched)) = 164).
  { rewrite app_length, map_length, sched_image_len64. unfold byte in *. lia. }
  assert (Eprev : firstn 8 (skipn 164 (bitsb hdr ++ concat (map hbT4 sched) ++ bitsb prevtw ++ rest)) = bitsb prevtw).
  { rewrite (app_assoc (bitsb hdr)). rewrite <- Lpre, skipn_app, Nat.sub_diag, skipn_all. cbn [app skipn].
    rewrite firstn_app, map_length, Hp, Nat.sub_diag, firstn_O, app_nil_r. apply firstn_all2. rewrite map_length. lia. }
  rewrite Eprev.
  set (newbits := if null then repeat (zbyte bool false) 8 else padb bool false 8 (firstn tsz (bitsb twarg))).
  assert (Enew : newbits = bitsb (if null then zeros 8 else pad_to 8 (firstn tsz twarg))).
  { unfold newbits. destruct null; [vm_compute; reflexivity|]. rewrite firstn_map, <- bits_pad_to. reflexivity. }
  assert (Lnew : length (if null then zeros 8 else pad_to 8 (firstn tsz twarg)) = 8).
  { destruct null; [reflexivity | apply pad_to_length]. }
  rewrite Enew.
  assert (Espl : splice bool (bitsb hdr ++ concat (map hbT4 sched) ++ bitsb prevtw ++ rest) 164
                   (bitsb (if null then zeros 8 else pad_to 8 (firstn tsz twarg)))
                 = bitsb hdr ++ concat (map hbT4 sched) ++ bitsb (if null then zeros 8 else pad_to 8 (firstn tsz twarg)) ++ rest).
  { rewrite (app_assoc (bitsb hdr)). rewrite <- Lpre.
    rewrite (splice_mid _ (bitsb prevtw) rest) by (rewrite !map_length; unfold byte in *; lia).
    rewrite <- app_assoc. reflexivity. }
  rewrite Espl.
  assert (HRs : R <= length sched) by (rewrite Hs; exact HR).
  assert (HRs2 : R <= length (xtk1T4 R prevtw sched)) by (unfold xor_tk1; rewrite sched_loop_len; exact HRs).
  rewrite (xor_pass64 R prevtw hdr sched _ Hp Hh HRs).
  rewrite (xor_pass64 R _ hdr _ _ Lnew Hh HRs2).
  reflexivity.
Qed.


(* the observable result of skinny128_set_tweaked_key(ks, key, size) on the byte image of a model tweakable schedule
   (header, 56 schedule words, the stored tweak, anything behind) is the byte image of the model's result: the schedule of
   set_key_inner under a zero TK1, and a zero stored tweak — for every accepted key size *)
Theorem w_set_tweaked_key128_model : forall (key prevtw hdr : list byte) (sched : list (half byte)) r0 rest mrest,
  16 <= length key <= 32 -> length hdr = 8 -> length sched = 56 -> length prevtw = 16 ->
  let res := m128_set_tweaked_key {| tk_ks := {| ks_rounds := r0; ks_sched := sched |}; tk_tweak := prevtw |} (Some key)
                                  (N.of_nat (length key)) in
  fst res = 1%N /\
  w_set_tweaked_key128 bool xorb false true (length key)
    ((bitsb hdr ++ concat (map hbT8 sched) ++ bitsb prevtw ++ rest) :: bitsb key :: mrest)
  = [ (rbytes (N.to_nat (ks_rounds byte (tk_ks byte (snd res)))) ++ skipn 4 (bitsb hdr))
        ++ concat (map hbT8 (ks_sched byte (tk_ks byte (snd res)))) ++ bitsb (tk_tweak byte (snd res)) ++ rest;
      bitsb key ].
Proof.
  intros key prevtw hdr sched r0 rest mrest Hk Hh Hs Hp. cbv zeta. unfold byte in *.
  unfold m128_set_tweaked_key, set_tweaked_key.
  assert (Hok : size_ok 16 (2 * 16) (N.of_nat (length key)) = true).
  { unfold size_ok. apply andb_true_iff. split; apply N.leb_le; lia. }
  rewrite Hok. cbn [fst snd tk_ks tk_tweak]. split; [reflexivity|].
  rewrite Nat2N.id, (pad_to_id (length key) key eq_refl).
  unfold w_set_tweaked_key128, w_set_tweaked_key, reg. cbv zeta. cbn [nth].
  rewrite firstn_all2 by (apply Nat.eq_le_incl, map_length).
  assert (Lpre : length (bitsb hdr ++ concat (map hbT8 sched)) = 456).
  { rewrite app_length, map_length, sched_image_len128. unfold byte in *. lia. }
  assert (Espl : splice bool (bitsb hdr ++ concat (map hbT8 sched) ++ bitsb prevtw ++ rest) 456 (repeat (zbyte bool false) 16)
                 = bitsb hdr ++ concat (map hbT8 sched) ++ repeat (zbyte bool false) 16 ++ rest).
  { rewrite (app_assoc (bitsb hdr)). rewrite <- Lpre.
    rewrite (splice_mid _ (bitsb prevtw) rest) by (rewrite map_length, repeat_length; unfold byte in *; lia).
    rewrite <- app_assoc. reflexivity. }
  rewrite Espl. f_equal.
  change (bitsb (zeros 16)) with (repeat (zbyte bool false) 16).
  exact (key_sched128_tweaked_model key hdr sched (repeat (zbyte bool false) 16 ++ rest) r0 Hk Hh Hs).
Qed.

(* the observable result of skinny64_set_tweaked_key(ks, key, size) on the byte image of a model tweakable schedule
   (header, 40 schedule words, the stored tweak, anything behind) is the byte image of the model's result: the schedule of
   set_key_inner under a zero TK1, and a zero stored tweak — for every accepted key size *)
Theorem w_set_tweaked_key64_model : forall (key prevtw hdr : list byte) (sched : list (half nib)) r0 rest mrest,
  8 <= length key <= 16 -> length hdr = 4 -> length sched = 40 -> length prevtw = 8 ->
  let res := m64_set_tweaked_key {| tk_ks := {| ks_rounds := r0; ks_sched := sched |}; tk_tweak := prevtw |} (Some key)
                                  (N.of_nat (length key)) in
  fst res = 1%N /\
  w_set_tweaked_key64 bool xorb false true (length key)
    ((bitsb hdr ++ concat (map hbT4 sched) ++ bitsb prevtw ++ rest) :: bitsb key :: mrest)
  = [ (rbytes (N.to_nat (ks_rounds nib (tk_ks nib (snd res)))) ++ skipn 4 (bitsb hdr))
        ++ concat (map hbT4 (ks_sched nib (tk_ks nib (snd res)))) ++ bitsb (tk_tweak nib (snd res)) ++ rest;
      bitsb key ].
Proof.
  intros key prevtw hdr sched r0 rest mrest Hk Hh Hs Hp. cbv zeta. unfold byte in *.
  unfold m64_set_tweaked_key, set_tweaked_key.
  assert (Hok : size_ok 8 (2 * 8) (N.of_nat (length key)) = true).
  { unfold size_ok. apply andb_true_iff. split; apply N.leb_le; lia. }
  rewrite Hok. cbn [fst snd tk_ks tk_tweak]. split; [reflexivity|].
  rewrite Nat2N.id, (pad_to_id (length key) key eq_refl).
  unfold w_set_tweaked_key64, w_set_tweaked_key, reg. cbv zeta. cbn [nth].
  rewrite firstn_all2 by (apply Nat.eq_le_incl, map_length).
  assert (Lpre : length (bitsb hdr ++ concat (map hbT4 sched)) = 164).
  { rewrite app_length, map_length, sched_image_len64. unfold byte in *. lia. }
  assert (Espl : splice bool (bitsb hdr ++ concat (map hbT4 sched) ++ bitsb prevtw ++ rest) 164 (repeat (zbyte bool false) 8)
                 = bitsb hdr ++ concat (map hbT4 sched) ++ repeat (zbyte bool false) 8 ++ rest).
  { rewrite (app_assoc (bitsb hdr)). rewrite <- Lpre.
    rewrite (splice_mid _ (bitsb prevtw) rest) by (rewrite map_length, repeat_length; unfold byte in *; lia).
    rewrite <- app_assoc. reflexivity. }
  rewrite Espl. f_equal.
  change (bitsb (zeros 8)) with (repeat (zbyte bool false) 8).
  exact (key_sched64_tweaked_model key hdr sched (repeat (zbyte bool false) 8 ++ rest) r0 Hk Hh Hs).
Qed.

Print Assumptions w_set_tweak128_model.
Print Assumptions w_set_tweak64_model.
Print Assumptions w_set_tweaked_key128_model.
Print Assumptions w_set_tweaked_key64_model.
