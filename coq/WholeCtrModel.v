(* WholeCtrModel.v — the CTR specification program of WholeCtr.v (what the translated generic CTR encryption functions are
   proved to compute, for all data) on the byte image of a model CTR state, with the procedure call interpreted as a block
   function E, IS ModelCtr.crypt_loop at batch size 1: same output bytes, same counter, same buffered key stream, same
   offset.  In particular the byte-wise carry loop of the specification is big-endian addition of 1. *)
From Coq Require Import List Bool NArith Arith Lia.
From Skinny Require Import Bits IR SIR Anf IRCheck KernelSpecs KernelSpecs2 KernelHom SIRCheck WholeSpecs SIRProofs
                           ModelCipher ModelCtr WholeBridge WholeKey WholeProc WholeCtr.
Import ListNotations.

Notation bitsB := (map (bits_of_c8 bool)).
Notation subB := (sub bool).
Notation spl := (splice bool).

(* ---- bytes ---- *)
Lemma sub_bits : forall (l : list byte) off n, subB (bitsB l) off n = bitsB (firstn n (skipn off l)).
Proof. intros. unfold sub. rewrite skipn_map, firstn_map. reflexivity. Qed.

Lemma xor_byte_bits : forall x y : byte, map2 bool xorb (bits_of_c8 bool x) (bits_of_c8 bool y) = bits_of_c8 bool (bxor8 x y).
Proof. intros x y. d8 x. d8 y. reflexivity. Qed.
Lemma xorB_bits : forall a b : list byte, xorB bool xorb (bitsB a) (bitsB b) = bitsB (xor_bytes a b).
Proof.
  induction a as [|x a IH]; intros [|y b]; try reflexivity.
  unfold xorB in *. cbn [map combine fst snd xor_bytes]. rewrite IH, xor_byte_bits. reflexivity.
Qed.

(* ---- the carry loop: one byte, by a finite sweep ---- *)
Definition c16 (c : N) : list bool := const_bits bool false true 16 c.
Definition inc_step_ok (c : N) (b : byte) : bool :=
  let s := (N_of_byte b + c)%N in
  let r := inc_step bool xorb andb false (c16 c) (bits_of_c8 bool b) in
  list_beq bool Bool.eqb (fst r) (bits_of_c8 bool (byte_of_N s)) && list_beq bool Bool.eqb (snd r) (c16 (N.shiftr s 8)).
Lemma list_beq_bool_eq : forall a b : list bool, list_beq bool Bool.eqb a b = true -> a = b.
Proof.
  induction a as [|x a IH]; intros [|y b] H; try discriminate; [reflexivity|].
  cbn [list_beq] in H. apply andb_true_iff in H. destruct H as [H1 H2].
  apply eqb_prop in H1. subst. f_equal. apply IH. exact H2.
Qed.
Lemma inc_step_sweep : forallb (fun b => inc_step_ok 0 b && inc_step_ok 1 b) all_bytes = true.
Proof. vm_compute. reflexivity. Qed.
Lemma inc_step_spec : forall (c : N) (b : byte), (c <= 1)%N ->
  inc_step bool xorb andb false (c16 c) (bits_of_c8 bool b)
  = (bits_of_c8 bool (byte_of_N (N_of_byte b + c)), c16 (N.shiftr (N_of_byte b + c) 8)).
Proof.
  intros c b Hc.
  pose proof (forall_bytes _ inc_step_sweep b) as H. apply andb_true_iff in H. destruct H as [H0 H1].
  assert (Hk : inc_step_ok c b = true) by (destruct c as [|[| |]]; [exact H0 | lia | lia | exact H1]).
  unfold inc_step_ok in Hk. cbv zeta in Hk. apply andb_true_iff in Hk. destruct Hk as [K1 K2].
  apply list_beq_bool_eq in K1. apply list_beq_bool_eq in K2.
  destruct (inc_step bool xorb andb false (c16 c) (bits_of_c8 bool b)) as [r1 r2]. cbn [fst snd] in K1, K2. subst. reflexivity.
Qed.
Lemma carry_le1 : forall (c : N) (b : byte), (c <= 1)%N -> (N.shiftr (N_of_byte b + c) 8 <= 1)%N.
Proof.
  intros c b Hc.
  assert (Hb : (N_of_byte b < 256)%N).
  { pose proof (forall_bytes (fun x => N.ltb (N_of_byte x) 256) ltac:(vm_compute; reflexivity) b) as H. apply N.ltb_lt in H. exact H. }
  rewrite N.shiftr_div_pow2. change (2 ^ 8)%N with 256%N.
  apply N.lt_succ_r. apply N.div_lt_upper_bound; [lia|]. lia.
Qed.

Lemma inc_rev_bits_spec : forall (l : list byte) (c : N), (c <= 1)%N ->
  inc_rev_bits bool xorb andb false (bitsB l) (c16 c) = bitsB (inc_rev l c).
Proof.
  induction l as [|b l IH]; intros c Hc; [reflexivity|].
  cbn [map inc_rev_bits inc_rev]. rewrite (inc_step_spec c b Hc). cbv zeta.
  rewrite IH by (apply carry_le1; exact Hc). reflexivity.
Qed.
Theorem incB_spec : forall cnt : list byte, incB bool xorb andb false true (bitsB cnt) = bitsB (inc_counter cnt 1).
Proof.
  intros cnt. unfold incB, inc_counter. rewrite <- map_rev.
  change (const_bits bool false true 16 1) with (c16 1).
  rewrite inc_rev_bits_spec by lia. rewrite map_rev. reflexivity.
Qed.
Print Assumptions incB_spec.
