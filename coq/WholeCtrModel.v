(* WholeCtrModel.v — the CTR specification program of WholeCtr.v (what the translated generic CTR encryption functions are
   proved to compute, for all data) on the byte image of a model CTR state, with the procedure call interpreted as a block
   function E, IS ModelCtr.crypt_loop at batch size 1: same output bytes, same counter, same buffered key stream, same
   offset.  In particular the byte-wise carry loop of the specification is big-endian addition of 1. *)
From Coq Require Import List Bool NArith Arith Lia.
From Skinny Require Import Bits IR SIR Anf IRCheck KernelSpecs KernelSpecs2 KernelHom SIRCheck WholeSpecs SIRProofs Frame
                           ModelCipher ModelCtr WholeBridge WholeKey WholeProc WholeCtr.
Import ListNotations.

Notation bitsB := (map (bits_of_c8 bool)).
Notation subB := (sub bool).
Notation spl := (splice bool).

(* ---- bytes ---- *)
Lemma sub_bits : forall (l : list byte) off n, subB (bitsB l) off n = bitsB (firstn n (skipn off l)).
Proof. intros. unfold sub. rewrite skipn_map, firstn_map. reflexivity. Qed.

Lemma xor_byte_bits : forall x y : byte, map2 bool xorb (bits_of_c8 bool x) (bits_of_c8 bool y) = bits_of_c8 bool (bxor8 x y).
Proof. intros x y. d8 x. d8 y. reflexivity. Qed.
Lemma xorB_bits : forall a b : list byte, xorB bool xorb (bitsB a) (bitsB b) = bitsB (xor_bytes a b).
Proof.
  induction a as [|x a IH]; intros [|y b]; try reflexivity.
  unfold xorB in *. cbn [map combine fst snd xor_bytes]. rewrite IH, xor_byte_bits. reflexivity.
Qed.

(* ---- the carry loop: one byte, by a finite sweep ---- *)
Definition c16 (c : N) : list bool := const_bits bool false true 16 c.
Fixpoint list_beq (A : Type) (eqb : A -> A -> bool) (a b : list A) : bool :=
  match a, b with
  | [], [] => true
  | x :: a', y :: b' => eqb x y && list_beq A eqb a' b'
  | _, _ => false
  end.
Definition inc_step_ok (c : N) (b : byte) : bool :=
  let s := (N_of_byte b + c)%N in
  let r := inc_step bool xorb andb false (c16 c) (bits_of_c8 bool b) in
  list_beq bool Bool.eqb (fst r) (bits_of_c8 bool (byte_of_N s)) && list_beq bool Bool.eqb (snd r) (c16 (N.shiftr s 8)).
Lemma list_beq_bool_eq : forall a b : list bool, list_beq bool Bool.eqb a b = true -> a = b.
Proof.
  induction a as [|x a IH]; intros [|y b] H; try discriminate; [reflexivity|].
  cbn [list_beq] in H. apply andb_true_iff in H. destruct H as [H1 H2].
  apply eqb_prop in H1. subst. f_equal. apply IH. exact H2.
Qed.
Lemma inc_step_sweep : forallb (fun b => inc_step_ok 0 b && inc_step_ok 1 b) all_bytes = true.
Proof. vm_compute. reflexivity. Qed.
Lemma inc_step_spec : forall (c : N) (b : byte), (c <= 1)%N ->
  inc_step bool xorb andb false (c16 c) (bits_of_c8 bool b)
  = (bits_of_c8 bool (byte_of_N (N_of_byte b + c)), c16 (N.shiftr (N_of_byte b + c) 8)).
Proof.
  intros c b Hc.
  pose proof (forall_bytes _ inc_step_sweep b) as H. apply andb_true_iff in H. destruct H as [H0 H1].
  assert (Hk : inc_step_ok c b = true) by (destruct c as [|[| |]]; [exact H0 | lia | lia | exact H1]).
  unfold inc_step_ok in Hk. cbv zeta in Hk. apply andb_true_iff in Hk. destruct Hk as [K1 K2].
  apply list_beq_bool_eq in K1. apply list_beq_bool_eq in K2.
  destruct (inc_step bool xorb andb false (c16 c) (bits_of_c8 bool b)) as [r1 r2]. cbn [fst snd] in K1, K2. subst. reflexivity.
Qed.
Lemma carry_le1 : forall (c : N) (b : byte), (c <= 1)%N -> (N.shiftr (N_of_byte b + c) 8 <= 1)%N.
Proof.
  intros c b Hc.
  assert (Hb : (N_of_byte b < 256)%N).
  { pose proof (forall_bytes (fun x => N.ltb (N_of_byte x) 256) ltac:(vm_compute; reflexivity) b) as H. apply N.ltb_lt in H. exact H. }
  rewrite N.shiftr_div_pow2. change (2 ^ 8)%N with 256%N.
  apply N.lt_succ_r. apply N.div_lt_upper_bound; [lia|]. lia.
Qed.

Lemma inc_rev_bits_spec : forall (l : list byte) (c : N), (c <= 1)%N ->
  inc_rev_bits bool xorb andb false (bitsB l) (c16 c) = bitsB (inc_rev l c).
Proof.
  induction l as [|b l IH]; intros c Hc; [reflexivity|].
  cbn [map inc_rev_bits inc_rev]. rewrite (inc_step_spec c b Hc). cbv zeta.
  rewrite IH by (apply carry_le1; exact Hc). reflexivity.
Qed.
Theorem incB_spec : forall cnt : list byte, incB bool xorb andb false true (bitsB cnt) = bitsB (inc_counter cnt 1).
Proof.
  intros cnt. unfold incB, inc_counter. rewrite <- map_rev.
  change (const_bits bool false true 16 1) with (c16 1).
  rewrite inc_rev_bits_spec by lia. rewrite map_rev. reflexivity.
Qed.
Print Assumptions incB_spec.

(* ================================================================================================== *)
(* lists: slices and splices of a concatenation                                                         *)
(* ================================================================================================== *)
Definition slice {A} (l : list A) (off n : nat) : list A := firstn n (skipn off l).
Lemma sub_is_slice : forall (l : list (list bool)) off n, subB l off n = slice l off n.
Proof. reflexivity. Qed.

Lemma slice_mid : forall {A} (a x r : list A) o n, o + n <= length x ->
  slice (a ++ x ++ r) (length a + o) n = slice x o n.
Proof.
  intros A a x r o n H. unfold slice. rewrite skipn_add, skipn_app, Nat.sub_diag, skipn_all. cbn [app skipn].
  rewrite skipn_app, firstn_app, skipn_length.
  replace (n - (length x - o)) with 0 by lia. rewrite firstn_O, app_nil_r. reflexivity.
Qed.
Lemma slice_mid0 : forall {A} (a x r : list A), slice (a ++ x ++ r) (length a) (length x) = x.
Proof.
  intros A a x r. rewrite <- (Nat.add_0_r (length a)), slice_mid by lia. unfold slice. cbn [skipn]. apply firstn_all.
Qed.
Lemma slice_at : forall {A} (a x r : list A) n k, length a = n -> length x = k -> slice (a ++ x ++ r) n k = x.
Proof. intros A a x r n k <- <-. apply slice_mid0. Qed.
Lemma slice_head : forall {A} (x r : list A) n, n <= length x -> slice (x ++ r) 0 n = firstn n x.
Proof.
  intros A x r n H. unfold slice. cbn [skipn]. rewrite firstn_app. replace (n - length x) with 0 by lia.
  rewrite firstn_O, app_nil_r. reflexivity.
Qed.

Lemma splice_mid : forall (a x r x' : list (list bool)), length x' = length x ->
  spl (a ++ x ++ r) (length a) x' = a ++ x' ++ r.
Proof.
  intros a x r x' H. unfold splice.
  rewrite firstn_app, Nat.sub_diag, firstn_all, firstn_O, app_nil_r. f_equal. f_equal.
  rewrite H, skipn_add, skipn_app, Nat.sub_diag, skipn_all. cbn [app skipn].
  rewrite skipn_app, Nat.sub_diag, skipn_all. reflexivity.
Qed.
Lemma splice_length : forall (l new : list (list bool)) pos, pos + length new <= length l ->
  length (spl l pos new) = length l.
Proof.
  intros l new pos H. unfold splice. rewrite !app_length, firstn_length, skipn_length. lia.
Qed.

(* ---- store_bytes is a splice, load is the concatenation of a slice ---- *)
Lemma set_nth_split : forall {A} (l : list A) i x, i < length l -> set_nth i x l = firstn i l ++ x :: skipn (S i) l.
Proof.
  intros A l. induction l as [|y l IH]; intros i x H; [cbn in H; lia|].
  destruct i as [|i]; [reflexivity|]. cbn [set_nth firstn skipn app]. rewrite IH by (cbn in H; lia). reflexivity.
Qed.
Lemma store_bytes_splice : forall (new l : list (list bool)) off, off + length new <= length l ->
  store_bytes bool off new l = spl l off new.
Proof.
  induction new as [|b new IH]; intros l off H.
  - unfold splice. cbn [store_bytes app length]. rewrite Nat.add_0_r, firstn_skipn. reflexivity.
  - cbn [store_bytes length] in *. rewrite IH by (rewrite set_nth_length; lia).
    rewrite set_nth_split by lia. unfold splice.
    rewrite firstn_app, firstn_length, Nat.min_l by lia.
    replace (S off - off) with 1 by lia. rewrite (firstn_all2 (firstn off l)) by (rewrite firstn_length; lia).
    cbn [firstn app]. rewrite <- app_assoc. cbn [app]. f_equal. f_equal. f_equal.
    rewrite skipn_app, firstn_length, Nat.min_l by lia.
    rewrite (skipn_all2 (firstn off l)) by (rewrite firstn_length; lia). cbn [app].
    replace (S off + length new - off) with (S (length new)) by lia. rewrite skipn_cons.
    replace (off + length (b :: new)) with (S off + length new) by (cbn [length]; lia). rewrite skipn_add. reflexivity.
Qed.

Definition bytes8 (l : list (list bool)) : Prop := Forall (fun b => length b = 8) l.
Lemma take_pad_id8 : forall (b : list bool), length b = 8 -> take_pad bool 8 false b = b.
Proof. intros b H. do 8 (destruct b as [|? b]; [discriminate|]). destruct b; [reflexivity | discriminate]. Qed.
Lemma load_slice : forall (m : mem bool) r off n, bytes8 (nth r m []) -> off + n <= length (nth r m []) ->
  load bool false m r off n = concat (slice (nth r m []) off n).
Proof.
  intros m r off n H8 Hn. unfold load. set (l := nth r m []) in *.
  revert off Hn. induction n as [|n IH]; intros off Hn.
  - unfold slice. rewrite firstn_O. reflexivity.
  - rewrite seq_S. rewrite map_app, concat_app. cbn [map concat]. rewrite app_nil_r.
    rewrite IH by lia. unfold slice.
    assert (E : firstn (S n) (skipn off l) = firstn n (skipn off l) ++ [nth (off + n) l (byte0_ bool false)]).
    { assert (Hl : n < length (skipn off l)) by (rewrite skipn_length; lia).
      rewrite <- (nth_skipn' l off n). clear - Hl. revert Hl. generalize (skipn off l) as k. intros k. revert n.
      induction k as [|y k IHk]; intros n Hl; [cbn in Hl; lia|].
      destruct n as [|n]; [reflexivity|]. cbn [firstn nth app]. rewrite <- IHk by (cbn in Hl; lia). reflexivity. }
    rewrite E, concat_app. cbn [concat]. rewrite app_nil_r. f_equal.
    apply take_pad_id8. unfold bytes8 in H8. rewrite Forall_forall in H8. apply H8. apply nth_In. lia.
Qed.

Lemma bytes_of_concat : forall (L : list (list bool)), bytes8 L -> bytes_of bool false (length L) (concat L) = L.
Proof.
  induction L as [|b L IH]; intros H; [reflexivity|]. inversion H as [|b' L' Hb HL]; subst.
  cbn [length bytes_of concat]. rewrite firstn_app, Hb, Nat.sub_diag, firstn_O, app_nil_r, firstn_all2 by lia.
  rewrite take_pad_id8 by exact Hb. f_equal.
  rewrite skipn_app, Hb, Nat.sub_diag, skipn_all2 by lia. cbn [app skipn]. apply IH. exact HL.
Qed.
Lemma bytes_of_concat_n : forall (L : list (list bool)) n, bytes8 L -> length L = n -> bytes_of bool false n (concat L) = L.
Proof. intros L n H <-. apply bytes_of_concat. exact H. Qed.
Lemma bitsB_bytes8 : forall l : list byte, bytes8 (bitsB l).
Proof. intros l. apply bits_len8. Qed.

Lemma inc_rev_length : forall l c, length (inc_rev l c) = length l.
Proof. induction l as [|b l IH]; intros c; [reflexivity|]. cbn [inc_rev length]. rewrite IH. reflexivity. Qed.
Lemma inc_counter_length : forall c k, length (inc_counter c k) = length c.
Proof. intros c k. unfold inc_counter. rewrite rev_length, inc_rev_length, rev_length. reflexivity. Qed.

Lemma skipn_app_exact : forall {A} (p r : list A) n, length p = n -> skipn n (p ++ r) = r.
Proof. intros A p r n <-. rewrite skipn_app, Nat.sub_diag, skipn_all. reflexivity. Qed.
Lemma firstn_app_exact : forall {A} (p r : list A) n, length p = n -> firstn n (p ++ r) = p.
Proof. intros A p r n <-. rewrite firstn_app, Nat.sub_diag, firstn_all, firstn_O, app_nil_r. reflexivity. Qed.
Lemma bytes_of_bytes8 : forall n l, bytes8 (bytes_of bool false n l).
Proof.
  induction n as [|n IH]; intros l; [constructor|]. cbn [bytes_of]. constructor; [apply take_pad_length | apply IH].
Qed.
Lemma splice_app : forall (O a b : list (list bool)) pos, pos + length a + length b <= length O ->
  spl O pos (a ++ b) = spl (spl O pos a) (pos + length a) b.
Proof.
  intros O a b pos H. unfold splice.
  set (R := skipn (pos + length a) O).
  assert (LP : length (firstn pos O ++ a) = pos + length a) by (rewrite app_length, firstn_length; lia).
  rewrite (app_assoc (firstn pos O) a R).
  rewrite (firstn_app_exact _ R _ LP).
  rewrite (skipn_add (pos + length a) (length b)), (skipn_app_exact _ R _ LP).
  rewrite <- !app_assoc. f_equal. f_equal. f_equal.
  unfold R. rewrite <- skipn_add, app_length. f_equal. lia.
Qed.

(* ================================================================================================== *)
(* the specification steps on the image of a model state                                                *)
(* ================================================================================================== *)
Section OnImage.
  Variables (bs kn coff fno : nat).
  Let eoff := coff + bs.
  Let ooff := coff + bs + bs.
  Variable cB : nat -> list bool -> list bool.
  Variable E : list byte -> list byte.
  Variables (I CO KS pad : list (list bool)) (inp : list byte).
  Hypothesis HI : I = bitsB inp.
  Hypothesis HKS : length KS = coff.
  Hypothesis HKS8 : bytes8 KS.
  Hypothesis Hpad8 : bytes8 pad.
  Hypothesis Hkn : kn <= coff.
  Hypothesis HE : forall blk, length blk = bs -> length (E blk) = bs.
  (* the contract of the procedure call: on (counter block, key-schedule object) it returns E(counter block) *)
  Hypothesis Hcb : forall blk, length blk = bs ->
    cB fno (concat (bitsB blk) ++ concat (firstn kn KS)) = concat (bitsB (E blk)).

  Definition img (O : list (list bool)) (cnt ecnt : list byte) (off : nat) : mem bool :=
    [O; I; CO; KS ++ bitsB cnt ++ bitsB ecnt ++ rbytes off ++ pad].

  Lemma step_inc : forall O cnt ecnt off, length cnt = bs ->
    s_inc bool xorb andb false true bs coff (img O cnt ecnt off) = img O (inc_counter cnt 1) ecnt off.
  Proof.
    intros O cnt ecnt off Hc. unfold byte in *. unfold s_inc, img, mk4m, reg. cbn [nth]. rewrite !sub_is_slice.
    rewrite (slice_at KS (bitsB cnt) _ coff bs HKS) by (rewrite map_length; exact Hc).
    rewrite incB_spec. rewrite <- HKS. rewrite splice_mid by (rewrite !map_length, inc_counter_length; reflexivity). reflexivity.
  Qed.

  Lemma step_setoff : forall O cnt ecnt off v, length cnt = bs -> length ecnt = bs ->
    s_setoff bool false true ooff v (img O cnt ecnt off) = img O cnt ecnt v.
  Proof.
    intros O cnt ecnt off v Hc He. unfold byte in *. unfold s_setoff, img, mk4m, reg. cbn [nth]. fold (rbytes v).
    assert (L : length (KS ++ bitsB cnt ++ bitsB ecnt) = ooff) by (rewrite !app_length, !map_length, HKS, Hc, He; unfold ooff; lia).
    replace (KS ++ bitsB cnt ++ bitsB ecnt ++ rbytes off ++ pad) with ((KS ++ bitsB cnt ++ bitsB ecnt) ++ rbytes off ++ pad)
      by (rewrite <- !app_assoc; reflexivity).
    rewrite <- L, splice_mid by (rewrite !rbytes_len; reflexivity). rewrite <- !app_assoc. reflexivity.
  Qed.

  Lemma step_xor : forall O cnt ecnt off pos o n, length cnt = bs -> length ecnt = bs -> o + n <= bs ->
    s_xor bool xorb pos (eoff + o) n (img O cnt ecnt off)
    = img (spl O pos (bitsB (xor_bytes (slice inp pos n) (slice ecnt o n)))) cnt ecnt off.
  Proof.
    intros O cnt ecnt off pos o n Hc He Hn. unfold byte in *. unfold s_xor, img, mk4m, reg. cbn [nth]. rewrite !sub_is_slice.
    f_equal. f_equal. rewrite HI. change (slice (bitsB inp) pos n) with (subB (bitsB inp) pos n). rewrite sub_bits.
    replace (KS ++ bitsB cnt ++ bitsB ecnt ++ rbytes off ++ pad) with ((KS ++ bitsB cnt) ++ bitsB ecnt ++ rbytes off ++ pad)
      by (rewrite <- !app_assoc; reflexivity).
    assert (L : length (KS ++ bitsB cnt) = eoff) by (rewrite app_length, map_length, HKS, Hc; reflexivity).
    rewrite <- L, slice_mid by (rewrite map_length; lia).
    change (slice (bitsB ecnt) o n) with (subB (bitsB ecnt) o n). rewrite sub_bits. apply xorB_bits.
  Qed.

  Lemma ctx_bytes8 : forall cnt ecnt off, bytes8 (KS ++ bitsB cnt ++ bitsB ecnt ++ rbytes off ++ pad).
  Proof.
    intros. unfold bytes8. repeat (apply Forall_app; split); try apply bits_len8; try assumption.
    apply bytes_of_bytes8.
  Qed.

  Lemma step_proc : forall O cnt ecnt off, length cnt = bs -> length ecnt = bs ->
    entry_sem cB (Some [pstmt bs kn coff eoff fno], ident bool) (img O cnt ecnt off) = img O cnt (E cnt) off.
  Proof.
    intros O cnt ecnt off Hc He. unfold byte in *. unfold entry_sem, pstmt. cbn [fst]. unfold execB, exec. cbn [fold_left exec1 fst eval map concat].
    rewrite app_nil_r. unfold store, img. cbn [nth set_nth].
    assert (Ltot : length (KS ++ bitsB cnt ++ bitsB ecnt ++ rbytes off ++ pad) = coff + bs + bs + 4 + length pad)
      by (rewrite !app_length, !map_length, rbytes_len, HKS, Hc, He; lia).
    rewrite !load_slice; cbn [nth]; try apply ctx_bytes8; try lia.
    rewrite (slice_at KS (bitsB cnt) _ coff bs HKS) by (rewrite map_length; exact Hc).
    rewrite slice_head by lia. rewrite (Hcb cnt Hc).
    rewrite (bytes_of_concat_n (bitsB (E cnt)) bs (bits_len8 _)) by (rewrite map_length; apply HE; exact Hc).
    rewrite store_bytes_splice by (rewrite Ltot, map_length, HE by exact Hc; unfold eoff; lia).
    replace (KS ++ bitsB cnt ++ bitsB ecnt ++ rbytes off ++ pad) with ((KS ++ bitsB cnt) ++ bitsB ecnt ++ rbytes off ++ pad)
      by (rewrite <- !app_assoc; reflexivity).
    assert (L : length (KS ++ bitsB cnt) = eoff) by (rewrite app_length, map_length, HKS, Hc; reflexivity).
    rewrite <- L, splice_mid by (rewrite !map_length, HE by exact Hc; symmetry; exact He).
    rewrite <- !app_assoc. reflexivity.
  Qed.
End OnImage.

(* ================================================================================================== *)
(* the specification program = ModelCtr.crypt_loop (batch size 1) on the image                          *)
(* ================================================================================================== *)
Lemma splice_nil : forall (O : list (list bool)) pos, spl O pos [] = O.
Proof. intros O pos. unfold splice. cbn [app length]. rewrite Nat.add_0_r. apply firstn_skipn. Qed.
Lemma skipn_nonempty_length : forall {A} (l : list A) n x r, skipn n l = x :: r -> n < length l.
Proof.
  intros A l n x r H. destruct (Nat.lt_ge_cases n (length l)) as [Hl|Hl]; [exact Hl|].
  rewrite skipn_all2 in H by exact Hl. discriminate.
Qed.

Lemma xor_bytes_trunc : forall a b, xor_bytes a (firstn (length a) b) = xor_bytes a b.
Proof.
  induction a as [|x a IH]; intros [|y b]; try reflexivity. cbn [length firstn xor_bytes]. rewrite IH. reflexivity.
Qed.
Lemma mixed_sem_nil : forall cB m, mixed_sem cB [] m = m.
Proof. reflexivity. Qed.
Lemma entry_sem_none : forall cB (f : mem bool -> mem bool) m, entry_sem cB (None, f) m = f m.
Proof. reflexivity. Qed.

Section Main.
  Variables (bs kn coff fno : nat).
  Let eoff := coff + bs.
  Let ooff := coff + bs + bs.
  Variable cB : nat -> list bool -> list bool.
  Variable E : list byte -> list byte.
  Variables (I CO KS pad : list (list bool)) (inp : list byte).
  Hypothesis HI : I = bitsB inp.
  Hypothesis HKS : length KS = coff.
  Hypothesis HKS8 : bytes8 KS.
  Hypothesis Hpad8 : bytes8 pad.
  Hypothesis Hkn : kn <= coff.
  Hypothesis Hbs : 0 < bs.
  Hypothesis HE : forall blk, length blk = bs -> length (E blk) = bs.
  Hypothesis Hcb : forall blk, length blk = bs ->
    cB fno (concat (bitsB blk) ++ concat (firstn kn KS)) = concat (bitsB (E blk)).
  Notation IMG := (img I CO KS pad).
  Notation st cnt ecnt off := {| c_key := tt; c_lanes := [cnt]; c_ecounter := ecnt; c_off := off |}.
  Notation loop := (crypt_loop unit (fun _ => E) bs 1).
  Notation spec := (cmicroB bs kn coff eoff ooff fno).

  Let Sproc := step_proc bs kn coff fno cB E I CO KS pad HKS HKS8 Hpad8 Hkn HE Hcb.
  Let Sinc := step_inc bs coff I CO KS pad HKS.
  Let Soff := step_setoff bs kn coff I CO KS pad HKS Hkn.
  Let Sxor := step_xor bs kn coff I CO KS pad inp HI HKS Hkn.

  Lemma Sxor0 : forall (O : list (list bool)) (cnt ecnt : list byte) (off pos n : nat),
    length cnt = bs -> length ecnt = bs -> n <= bs ->
    s_xor bool xorb pos eoff n (IMG O cnt ecnt off)
    = IMG (spl O pos (bitsB (xor_bytes (slice inp pos n) (slice ecnt 0 n)))) cnt ecnt off.
  Proof. intros. rewrite <- (Nat.add_0_r eoff). apply Sxor; assumption || lia. Qed.
  Lemma BS1 : BS bs 1 = bs.
  Proof. unfold BS. lia. Qed.

  Theorem cmicro_model : forall fuel off size pos O cnt ecnt c' outb,
    length cnt = bs -> length ecnt = bs -> off <= bs -> pos + size = length inp -> length O = length inp ->
    loop fuel (st cnt ecnt off) (skipn pos inp) = Some (c', outb) ->
    exists cnt' ecnt', c_lanes c' = [cnt'] /\ c_ecounter c' = ecnt' /\ length cnt' = bs /\ length ecnt' = bs /\
      length outb = size /\
      mixed_sem cB (spec fuel off size pos) (IMG O cnt ecnt off) = IMG (spl O pos (bitsB outb)) cnt' ecnt' (c_off c').
  Proof.
    induction fuel as [|f IH]; intros off size pos O cnt ecnt c' outb Hc He Hoff Hps HO Hl.
    - destruct size as [|sz].
      + rewrite skipn_all2 in Hl by lia. cbn [crypt_loop] in Hl. inversion Hl; subst.
        exists cnt, ecnt. cbn [c_lanes c_ecounter c_off map]. rewrite splice_nil. repeat split; assumption || reflexivity.
      + destruct (skipn pos inp) as [|x r] eqn:Er.
        * assert (length (skipn pos inp) = S sz) by (rewrite skipn_length; lia). rewrite Er in H. discriminate.
        * cbn [crypt_loop] in Hl. discriminate.
    - destruct size as [|sz].
      + rewrite skipn_all2 in Hl by lia. cbn [crypt_loop] in Hl. inversion Hl; subst.
        exists cnt, ecnt. cbn [c_lanes c_ecounter c_off map]. rewrite splice_nil. repeat split; assumption || reflexivity.
      + assert (Hrem : length (skipn pos inp) = S sz) by (rewrite skipn_length; lia).
        destruct (skipn pos inp) as [|x r] eqn:Er; [discriminate|]. rewrite <- Er in Hl, Hrem.
        assert (Hstep : loop (S f) (st cnt ecnt off) (skipn pos inp)
                = if Nat.leb (BS bs 1) off then
                    let c1 := refill unit (fun _ => E) 1 (st cnt ecnt off) in
                    if Nat.leb (BS bs 1) (length (skipn pos inp)) then
                      match loop f c1 (skipn (BS bs 1) (skipn pos inp)) with
                      | Some (c2, out) => Some (c2, xor_bytes (firstn (BS bs 1) (skipn pos inp)) (c_ecounter c1) ++ out)
                      | None => None end
                    else Some (with_off unit c1 (length (skipn pos inp)), xor_bytes (skipn pos inp) (c_ecounter c1))
                  else
                    let temp := Nat.min (BS bs 1 - off) (length (skipn pos inp)) in
                    match loop f (with_off unit (st cnt ecnt off) (off + temp)) (skipn temp (skipn pos inp)) with
                    | Some (c2, out) => Some (c2, xor_bytes (firstn temp (skipn pos inp)) (skipn off ecnt) ++ out)
                    | None => None end).
        { rewrite Er. reflexivity. }
        rewrite Hstep in Hl. clear Hstep. rewrite !BS1, Hrem in Hl.
        cbn [cmicro].
        destruct (Nat.leb bs off) eqn:Eoff.
        * (* refill *)
          apply Nat.leb_le in Eoff. assert (off = bs) by lia. subst off.
          unfold refill in Hl. cbn [c_key c_lanes c_ecounter c_off map concat] in Hl. rewrite app_nil_r in Hl.
          change (N.of_nat 1) with 1%N in Hl.
          rewrite mixed_sem_cons, Sproc by assumption. rewrite mixed_sem_cons, entry_sem_none, Sinc by assumption.
          destruct (Nat.leb bs (S sz)) eqn:Esz.
          -- apply Nat.leb_le in Esz.
             destruct (loop f (st (inc_counter cnt 1) (E cnt) bs) (skipn bs (skipn pos inp))) as [[c2 out]|] eqn:Er2; [|discriminate].
             inversion Hl; subst c' outb. clear Hl.
             rewrite mixed_sem_cons, entry_sem_none.
             rewrite Sxor0 by (rewrite ?inc_counter_length, ?HE; lia || assumption).
             rewrite <- skipn_add in Er2.
             assert (LE : length (E cnt) = bs) by (apply HE; exact Hc).
             destruct (IH bs (S sz - bs) (pos + bs) (spl O pos (bitsB (xor_bytes (slice inp pos bs) (slice (E cnt) 0 bs))))
                         (inc_counter cnt 1) (E cnt) c2 out) as (cnt' & ecnt' & K1 & K2 & K3 & K4 & KL & K5);
               try (rewrite ?inc_counter_length; assumption); try lia.
             { rewrite splice_length; [exact HO|]. rewrite map_length, xor_bytes_length. unfold slice.
               rewrite !firstn_length, !skipn_length. lia. }
             assert (LX : length (xor_bytes (firstn bs (skipn pos inp)) (E cnt)) = bs).
             { rewrite xor_bytes_length, firstn_length, skipn_length. lia. }
             exists cnt', ecnt'. repeat split; try assumption.
             { rewrite app_length, LX, KL. lia. }
             rewrite K5. f_equal. unfold slice. cbn [skipn]. rewrite (firstn_all2 (E cnt)) by lia.
             rewrite map_app, splice_app by (rewrite !map_length, LX, KL; lia).
             rewrite map_length, LX. reflexivity.
          -- apply Nat.leb_gt in Esz.
             inversion Hl; subst c' outb. clear Hl.
             assert (LE : length (E cnt) = bs) by (apply HE; exact Hc).
             rewrite mixed_sem_cons, entry_sem_none, Sxor0 by (rewrite ?inc_counter_length, ?HE; lia || assumption).
             rewrite mixed_sem_cons, entry_sem_none, Soff by (rewrite ?inc_counter_length, ?HE; lia || assumption).
             rewrite mixed_sem_nil.
             exists (inc_counter cnt 1), (E cnt). cbn [with_off c_lanes c_ecounter c_off c_key].
             repeat split; try (rewrite ?inc_counter_length; assumption).
             { rewrite xor_bytes_length, Hrem. lia. }
             f_equal. f_equal. f_equal. unfold slice. cbn [skipn].
             rewrite (firstn_all2 (skipn pos inp)) by lia.
             rewrite <- Hrem at 1. apply xor_bytes_trunc.
        * (* left-over key stream *)
          apply Nat.leb_gt in Eoff. cbv zeta in Hl.
          set (temp := Nat.min (bs - off) (S sz)) in *.
          assert (Ht : temp <= bs - off /\ temp <= S sz /\ 0 < temp) by (unfold temp; lia).
          destruct (loop f (with_off unit (st cnt ecnt off) (off + temp)) (skipn temp (skipn pos inp))) as [[c2 out]|] eqn:Er2; [|discriminate].
          inversion Hl; subst c' outb. clear Hl.
          rewrite mixed_sem_cons, entry_sem_none, Sxor by (lia || assumption).
          rewrite mixed_sem_cons, entry_sem_none, Soff by assumption.
          rewrite <- skipn_add in Er2. unfold with_off in Er2. cbn [c_key c_lanes c_ecounter] in Er2.
          destruct (IH (off + temp) (S sz - temp) (pos + temp)
                      (spl O pos (bitsB (xor_bytes (slice inp pos temp) (slice ecnt off temp)))) cnt ecnt c2 out)
            as (cnt' & ecnt' & K1 & K2 & K3 & K4 & KL & K5); try assumption; try lia.
          { rewrite splice_length; [exact HO|]. rewrite map_length, xor_bytes_length. unfold slice.
            rewrite !firstn_length, !skipn_length. lia. }
          assert (LX : length (xor_bytes (firstn temp (skipn pos inp)) (skipn off ecnt)) = temp).
          { rewrite xor_bytes_length, firstn_length, !skipn_length. lia. }
          exists cnt', ecnt'. repeat split; try assumption.
          { rewrite app_length, LX, KL. lia. }
          rewrite K5. f_equal.
          assert (EX : xor_bytes (slice inp pos temp) (slice ecnt off temp) = xor_bytes (firstn temp (skipn pos inp)) (skipn off ecnt)).
          { unfold slice. replace temp with (length (firstn temp (skipn pos inp))) at 2 by (rewrite firstn_length, skipn_length; lia).
            apply xor_bytes_trunc. }
          rewrite EX. rewrite map_app, splice_app by (rewrite !map_length, LX, KL; lia).
          rewrite map_length, LX. reflexivity.
  Qed.

End Main.

(* ================================================================================================== *)
(* the final statement: a checked CTR encryption function computes ModelCtr.crypt on the image            *)
(* ================================================================================================== *)
Theorem pctr_model : forall fields code fuel pl sh pl' sh' c t bs kn coff fno off size plen,
  fields_okb fields = true ->
  flat fields fuel pl sh code = Some (pl', sh', c, t) ->
  check_proc [size; size; 16; coff + bs + bs + 4 + plen] c
    (cspec poly pxor pand pzero pone bs kn coff (coff + bs) (coff + bs + bs) fno off size) = true ->
  forall (cB : nat -> list bool -> list bool) (E : list byte -> list byte)
         (out inp cnt ecnt : list byte) (CO KS pad : list (list bool)),
  0 < bs -> kn <= coff -> off <= bs ->
  length out = size -> length inp = size -> length cnt = bs -> length ecnt = bs ->
  length CO = 16 -> bytes8 CO -> length KS = coff -> bytes8 KS -> length pad = plen -> bytes8 pad ->
  (forall blk, length blk = bs -> length (E blk) = bs) ->
  (forall blk, length blk = bs -> cB fno (concat (bitsB blk) ++ concat (firstn kn KS)) = concat (bitsB (E blk))) ->
  let m0 := img (bitsB inp) CO KS pad (bitsB out) cnt ecnt off in
  Inv fields sh m0 ->
  forall c' outb,
  crypt unit (fun _ => E) bs 1 {| c_key := tt; c_lanes := [cnt]; c_ecounter := ecnt; c_off := off |} inp = Some (c', outb) ->
  exists st' cnt' ecnt',
    interp fields cB fuel pl (m0, []) code = Some (pl', st', t) /\
    c_lanes c' = [cnt'] /\ c_ecounter c' = ecnt' /\
    fst st' = img (bitsB inp) CO KS pad (bitsB outb) cnt' ecnt' (c_off c').
Proof.
  intros fields code fuel pl sh pl' sh' c t bs kn coff fno off size plen Hf Hfl Hk cB E out inp cnt ecnt CO KS pad
         Hbs Hkn Hoff Ho Hi Hc He HCO HCO8 HKS HKS8 Hpad Hpad8 HE Hcb m0 HI c' outb Hcr.
  unfold byte in *.
  assert (Hm : shaped [size; size; 16; coff + bs + bs + 4 + plen] m0).
  { apply shapedF_shaped. unfold m0, img. repeat constructor; try (rewrite map_length; assumption); try apply bits_len8; try assumption.
    - rewrite !app_length, !map_length, rbytes_len. lia.
    - apply ctx_bytes8; assumption. }
  destruct (pctr_final fields code fuel pl sh pl' sh' c t _ bs kn coff (coff + bs) (coff + bs + bs) fno off size Hf Hfl Hk cB m0 Hm HI)
    as [Hint Hsem].
  unfold crypt in Hcr.
  destruct (cmicro_model bs kn coff fno cB E (bitsB inp) CO KS pad inp eq_refl HKS HKS8 Hpad8 Hkn Hbs HE Hcb
              (S (length inp)) off size 0 (bitsB out) cnt ecnt c' outb Hc He Hoff) as (cnt' & ecnt' & K1 & K2 & K3 & K4 & KL & K5).
  - unfold byte in *. lia.
  - rewrite map_length. unfold byte in *. lia.
  - cbn [skipn]. exact Hcr.
  - exists (execB cB c (m0, [])), cnt', ecnt'. split; [exact Hint|]. split; [exact K1|]. split; [exact K2|].
    rewrite Hsem. unfold byte in *. rewrite Hi in K5. unfold m0. rewrite K5. f_equal.
    unfold splice. cbn [firstn app plus]. rewrite map_length, KL, skipn_all2 by (rewrite map_length; lia). apply app_nil_r.
Qed.
Print Assumptions cmicro_model.
Print Assumptions pctr_model.
