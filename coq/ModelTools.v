(* ModelTools.v — the three example programs (examples/skinny-ctr.c, skinny-tweak.c, skinny-ecb.c)
   from the parsed option values on: (block size, key bytes, counter/tweak bytes, -d flag, input file)
   -> None (non-zero exit status, no output file) | Some (bytes written to the output file).
   The hex syntax of the option arguments and getopt are handled by the harness (checks/extra.py). *)
From Coq Require Import List Bool NArith Arith.
From Skinny Require Import Bits SpecSkinny ModelCipher ModelCtr ModelCpu Api.
Import ListNotations.

(* fread(buffer, 1, 1024, infile) until end of file *)
Definition io_chunks (file : list byte) : list (list byte) := chunks (length file) 1024 file.

(* option validation of examples/options.c after parsing: key length range (tweaked tools accept up to two
   blocks), counter/tweak at most one block; an absent -c/-t means a whole block of zeros *)
Definition opts_ok (bs : nat) (tweaked : bool) (key : list byte) (tw : option (list byte)) : bool :=
  Nat.leb bs (length key) && Nat.leb (length key) (if tweaked then 2 * bs else 3 * bs)
  && match tw with Some t => Nat.leb (length t) bs | None => true end.
Definition opt_block (bs : nat) (tw : option (list byte)) : list byte :=
  match tw with Some t => t | None => zeros bs end.

Section Tools.
  Variable bs : nat.                                  (* 16 or 8 *)
  Variable K : Type.                                  (* plain key schedule *)
  Variable TK : Type.                                 (* tweakable key schedule *)
  Variable zero_tk : TK.
  Variable tk_ks_of : TK -> K.
  Variable set_key_tk : TK -> buf -> N -> N * TK.     (* skinnyNN_ctr_set_key on the context's kt *)
  Variable set_tweaked : TK -> buf -> N -> N * TK.
  Variable set_tweak : TK -> buf -> N -> N * TK.
  Variable set_key_k : K -> buf -> N -> N * K.
  Variable zero_k : K.
  Variable enc dec : K -> list byte -> list byte.

  (* skinny-ctr: B = batch size of whatever back end the library selected *)
  Definition ctr_loop (B : nat) (st : ctr TK) (cs : list (list byte)) : list byte :=
    snd (fold_left (fun acc c =>
           match crypt TK (fun t => enc (tk_ks_of t)) bs B (fst acc) c with
           | Some (st', o) => (st', snd acc ++ o)
           | None => acc
           end) cs (st, [])).
  Definition tool_ctr (B : nat) (key : list byte) (cnt : option (list byte)) (file : list byte)
    : option (list byte) :=
    if opts_ok bs false key cnt then
      let st0 := snd (set_counter TK bs B (ctr_fresh TK bs B zero_tk) None 0) in           (* *_ctr_init *)
      let st1 := reset_stream TK bs B (with_key TK st0
                   (snd (set_key_tk (c_key st0) (Some key) (N.of_nat (length key))))) in      (* *_ctr_set_key *)
      let c := opt_block bs cnt in
      let st2 := snd (set_counter TK bs B st1 (Some c) (N.of_nat (length c))) in            (* *_ctr_set_counter *)
      Some (ctr_loop B st2 (io_chunks file))
    else None.

  (* skinny-ecb: whole blocks of each chunk through the parallel functions *)
  Definition whole (l : list byte) : list byte := firstn (length l - length l mod bs) l.
  Definition tool_ecb (has_vt : bool) (psize : nat) (decrypt : bool) (key : list byte) (file : list byte)
    : option (list byte) :=
    if opts_ok bs false key None then
      let ks := snd (set_key_k zero_k (Some key) (N.of_nat (length key))) in
      let f := if decrypt then dec ks else enc ks in
      Some (concat (map (fun c => par_crypt bs (fun _ b => f b) has_vt psize (whole c) (whole c))
                        (io_chunks file)))
    else None.

  (* skinny-tweak: block by block, the tweak incremented (big-endian over its own length) after each block *)
  Fixpoint tweak_blocks (fuel : nat) (decrypt : bool) (t : TK) (tw : list byte) (data : list byte)
    : list byte * TK * list byte :=
    match fuel with
    | O => ([], t, tw)
    | S f =>
        if Nat.leb bs (length data) then
          let o := (if decrypt then dec else enc) (tk_ks_of t) (firstn bs data) in
          let tw' := inc_counter tw 1 in
          let t' := snd (set_tweak t (Some tw') (N.of_nat (length tw'))) in
          let '(os, t2, tw2) := tweak_blocks f decrypt t' tw' (skipn bs data) in
          (o ++ os, t2, tw2)
        else ([], t, tw)
    end.
  Definition tool_tweak (decrypt : bool) (key : list byte) (tw : option (list byte)) (file : list byte)
    : option (list byte) :=
    if opts_ok bs true key tw then
      let t0 := snd (set_tweaked zero_tk (Some key) (N.of_nat (length key))) in
      let tw0 := opt_block bs tw in
      let t1 := snd (set_tweak t0 (Some tw0) (N.of_nat (length tw0))) in
      Some (fst (fst (fold_left (fun acc c =>
                   let '(out, t, w) := acc in
                   let '(o, t', w') := tweak_blocks (length c) decrypt t w c in
                   (out ++ o, t', w')) (io_chunks file) ([], t1, tw0))))
    else None.
End Tools.

(* instances *)
Definition tool_ctr128 := tool_ctr 16 ks128 tks128 zero_tks128 (tk_ks byte) set_plain128 m128_encrypt.
Definition tool_ctr64 := tool_ctr 8 ks64 tks64 zero_tks64 (tk_ks nib) set_plain64 m64_encrypt.
Definition tool_ecb128 := tool_ecb 16 ks128 m128_set_key (fresh_k128 byte0) m128_encrypt m128_decrypt.
Definition tool_ecb64 := tool_ecb 8 ks64 m64_set_key (fresh_k64 byte0) m64_encrypt m64_decrypt.
Definition tool_tweak128 :=
  tool_tweak 16 ks128 tks128 zero_tks128 (tk_ks byte) m128_set_tweaked_key m128_set_tweak m128_encrypt m128_decrypt.
Definition tool_tweak64 :=
  tool_tweak 8 ks64 tks64 zero_tks64 (tk_ks nib) m64_set_tweaked_key m64_set_tweak m64_encrypt m64_decrypt.
