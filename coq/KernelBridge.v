(* KernelBridge.v — the leaf steps of the hand model of the C library (ModelCipher.v) ARE the kernel specification
   steps of KernelSpecs.v / KernelSpecs2.v, on the bool carrier.

   The generated obligation files prove, for every build configuration of the C source, "C kernel = kernel
   specification step" for all inputs; ProofsSkinny.v / ProofsMantis.v prove "model = paper specification".  The
   lemmas here connect the two: every round / schedule iteration / MANTIS round performed by the model is one
   application of the corresponding kernel specification step to the byte memory that holds the model's values,
   and the single-block functions are iterations of those steps.

   1. SKINNY-128 / SKINNY-64: one model round = the two kernel layers on the memory [state; schedule word];
   2. m128/m64_encrypt/decrypt = fold of the kernel round step over the used schedule slots;
   3. one iteration of each of the model's four schedule passes = the kernel loop-body specification;
   4. MANTIS: fwd / bwd = folds of the forward / backward kernel steps; the whole core in that form. *)
From Coq Require Import List Bool NArith Arith Lia.
From Skinny Require Import Bits SpecSkinny SpecMantis IR KernelSpecs KernelHom ModelCipher KernelSpecs2 KernelHom2.
Import ListNotations.

(* ================================================================================================== *)
(* 0. generic facts                                                                                     *)
(* ================================================================================================== *)
(* fold_left fusion: a map g from model values to memories that turns the model step f into the kernel step k *)
Lemma fold_left_fusion : forall {S T E : Type} (f : E -> S -> S) (k : T -> E -> T) (g : S -> T),
  (forall e s, g (f e s) = k (g s) e) ->
  forall l s0, g (fold_left (fun s e => f e s) l s0) = fold_left k l (g s0).
Proof.
  intros S T E f k g H l. induction l as [|e l IH]; intros s0; [reflexivity|].
  cbn [fold_left]. rewrite IH, H. reflexivity.
Qed.

Lemma reg_cons4_0 : forall (a b c d : list (list bool)), reg bool [a; b; c; d] 0 = a.  Proof. reflexivity. Qed.
Lemma reg_cons4_1 : forall (a b c d : list (list bool)), reg bool [a; b; c; d] 1 = b.  Proof. reflexivity. Qed.
Lemma reg_cons4_2 : forall (a b c d : list (list bool)), reg bool [a; b; c; d] 2 = c.  Proof. reflexivity. Qed.
Lemma reg_cons4_3 : forall (a b c d : list (list bool)), reg bool [a; b; c; d] 3 = d.  Proof. reflexivity. Qed.

(* reading back a slot that is the whole region *)
Lemma half128_of_reg_half_bytes128_nil : forall e : half byte,
  half128_of_reg bool false (KernelSpecs2.half_bytes128 bool e) = e.
Proof.
  intros e. rewrite <- (app_nil_r (KernelSpecs2.half_bytes128 bool e)).
  apply half128_of_reg_half_bytes128.
Qed.
Lemma half64_of_reg_half_bytes64_nil : forall e : half nib,
  half64_of_reg bool false (KernelSpecs2.half_bytes64 bool e) = e.
Proof.
  intros e. rewrite <- (app_nil_r (KernelSpecs2.half_bytes64 bool e)).
  apply half64_of_reg_half_bytes64.
Qed.

(* a block of the right length is the region image of its loaded state *)
Lemma reg_of_state128_load128 : forall blk : list byte, length blk = 16 ->
  reg_of_state128 bool (load128 blk) = map (bits_of_c8 bool) blk.
Proof.
  intros blk H. unfold reg_of_state128. f_equal.
  do 16 (destruct blk as [|? blk]; [discriminate|]).
  destruct blk; [reflexivity|discriminate].
Qed.
Lemma reg_of_state64_load64 : forall blk : list byte, length blk = 8 ->
  reg_of_state64 bool (load64 blk) = map (bits_of_c8 bool) blk.
Proof.
  intros blk H. unfold reg_of_state64. f_equal.
  do 8 (destruct blk as [|? blk]; [discriminate|]).
  destruct blk; [|discriminate].
  unfold load64, state64_of_bytes, bytes_of_state64, row_bytes64. cbn [app nth].
  rewrite !c8join_hi_lo. reflexivity.
Qed.

(* ================================================================================================== *)
(* 1. one model round = the two kernel layers on the memory [state; schedule word]                      *)
(* ================================================================================================== *)
Lemma bridge128_enc_round : forall (e : half byte) (s : state byte),
  reg_of_state128 bool (enc_round byte bxor8 cnib8 S8b e s)
  = reg bool (k128_enc_linear bool xorb false true (k128_subcells bool xorb andb false true
        [reg_of_state128 bool s; KernelSpecs2.half_bytes128 bool e])) 0.
Proof.
  intros e s. rewrite k128_round_is_spec_bool, !reg_cons2_0, !reg_cons2_1.
  rewrite state128_of_reg_of_state128, half128_of_reg_half_bytes128_nil. reflexivity.
Qed.
Lemma bridge128_dec_round : forall (e : half byte) (s : state byte),
  reg_of_state128 bool (dec_round byte bxor8 cnib8 S8ib e s)
  = reg bool (k128_subcells_inv bool xorb andb false true (k128_dec_linear bool xorb false true
        [reg_of_state128 bool s; KernelSpecs2.half_bytes128 bool e])) 0.
Proof.
  intros e s. rewrite k128_round_inv_is_spec_bool, !reg_cons2_0, !reg_cons2_1.
  rewrite state128_of_reg_of_state128, half128_of_reg_half_bytes128_nil. reflexivity.
Qed.
Lemma bridge64_enc_round : forall (e : half nib) (s : state nib),
  reg_of_state64 bool (enc_round nib bxor4 cnib4 S4b e s)
  = reg bool (k64_enc_linear bool xorb false true (k64_subcells bool xorb andb false true
        [reg_of_state64 bool s; KernelSpecs2.half_bytes64 bool e])) 0.
Proof.
  intros e s. rewrite k64_round_is_spec_bool, !reg_cons2_0, !reg_cons2_1.
  rewrite state64_of_reg_of_state64, half64_of_reg_half_bytes64_nil. reflexivity.
Qed.
Lemma bridge64_dec_round : forall (e : half nib) (s : state nib),
  reg_of_state64 bool (dec_round nib bxor4 cnib4 S4ib e s)
  = reg bool (k64_subcells_inv bool xorb andb false true (k64_dec_linear bool xorb false true
        [reg_of_state64 bool s; KernelSpecs2.half_bytes64 bool e])) 0.
Proof.
  intros e s. rewrite k64_round_inv_is_spec_bool, !reg_cons2_0, !reg_cons2_1.
  rewrite state64_of_reg_of_state64, half64_of_reg_half_bytes64_nil. reflexivity.
Qed.

(* the schedule-word region is left as it was by both layers (so the memory after a round is again of the shape
   [state; schedule word]) *)
Lemma bridge128_enc_round_mem : forall (e : half byte) (s : state byte),
  k128_enc_linear bool xorb false true (k128_subcells bool xorb andb false true
        [reg_of_state128 bool s; KernelSpecs2.half_bytes128 bool e])
  = [reg_of_state128 bool (enc_round byte bxor8 cnib8 S8b e s); KernelSpecs2.half_bytes128 bool e].
Proof.
  intros e s. rewrite k128_round_is_spec_bool, !reg_cons2_0, !reg_cons2_1.
  rewrite state128_of_reg_of_state128, half128_of_reg_half_bytes128_nil. reflexivity.
Qed.
Lemma bridge128_dec_round_mem : forall (e : half byte) (s : state byte),
  k128_subcells_inv bool xorb andb false true (k128_dec_linear bool xorb false true
        [reg_of_state128 bool s; KernelSpecs2.half_bytes128 bool e])
  = [reg_of_state128 bool (dec_round byte bxor8 cnib8 S8ib e s); KernelSpecs2.half_bytes128 bool e].
Proof.
  intros e s. rewrite k128_round_inv_is_spec_bool, !reg_cons2_0, !reg_cons2_1.
  rewrite state128_of_reg_of_state128, half128_of_reg_half_bytes128_nil. reflexivity.
Qed.
Lemma bridge64_enc_round_mem : forall (e : half nib) (s : state nib),
  k64_enc_linear bool xorb false true (k64_subcells bool xorb andb false true
        [reg_of_state64 bool s; KernelSpecs2.half_bytes64 bool e])
  = [reg_of_state64 bool (enc_round nib bxor4 cnib4 S4b e s); KernelSpecs2.half_bytes64 bool e].
Proof.
  intros e s. rewrite k64_round_is_spec_bool, !reg_cons2_0, !reg_cons2_1.
  rewrite state64_of_reg_of_state64, half64_of_reg_half_bytes64_nil. reflexivity.
Qed.
Lemma bridge64_dec_round_mem : forall (e : half nib) (s : state nib),
  k64_subcells_inv bool xorb andb false true (k64_dec_linear bool xorb false true
        [reg_of_state64 bool s; KernelSpecs2.half_bytes64 bool e])
  = [reg_of_state64 bool (dec_round nib bxor4 cnib4 S4ib e s); KernelSpecs2.half_bytes64 bool e].
Proof.
  intros e s. rewrite k64_round_inv_is_spec_bool, !reg_cons2_0, !reg_cons2_1.
  rewrite state64_of_reg_of_state64, half64_of_reg_half_bytes64_nil. reflexivity.
Qed.

(* ================================================================================================== *)
(* 2. the single-block functions are iterations of the kernel round step                                *)
(* ================================================================================================== *)
(* the kernel round step on the state region, with the schedule slot [e] placed in region 1 *)
Definition kstep128_enc (st : list (list bool)) (e : half byte) : list (list bool) :=
  reg bool (k128_enc_linear bool xorb false true (k128_subcells bool xorb andb false true
     [st; KernelSpecs2.half_bytes128 bool e])) 0.
Definition kstep128_dec (st : list (list bool)) (e : half byte) : list (list bool) :=
  reg bool (k128_subcells_inv bool xorb andb false true (k128_dec_linear bool xorb false true
     [st; KernelSpecs2.half_bytes128 bool e])) 0.
Definition kstep64_enc (st : list (list bool)) (e : half nib) : list (list bool) :=
  reg bool (k64_enc_linear bool xorb false true (k64_subcells bool xorb andb false true
     [st; KernelSpecs2.half_bytes64 bool e])) 0.
Definition kstep64_dec (st : list (list bool)) (e : half nib) : list (list bool) :=
  reg bool (k64_subcells_inv bool xorb andb false true (k64_dec_linear bool xorb false true
     [st; KernelSpecs2.half_bytes64 bool e])) 0.

Theorem m128_encrypt_by_kernels : forall (ks : ks128) (blk : list byte), length blk = 16 ->
  map (bits_of_c8 bool) (m128_encrypt ks blk)
  = fold_left kstep128_enc (used byte ks) (map (bits_of_c8 bool) blk).
Proof.
  intros ks blk H. unfold m128_encrypt, ecb_encrypt, store128.
  change (map (bits_of_c8 bool) (bytes_of_state128 bool ?s)) with (reg_of_state128 bool s).
  rewrite (fold_left_fusion (enc_round byte bxor8 cnib8 S8b) kstep128_enc (reg_of_state128 bool)
             bridge128_enc_round).
  rewrite (reg_of_state128_load128 blk H). reflexivity.
Qed.
Theorem m128_decrypt_by_kernels : forall (ks : ks128) (blk : list byte), length blk = 16 ->
  map (bits_of_c8 bool) (m128_decrypt ks blk)
  = fold_left kstep128_dec (rev (used byte ks)) (map (bits_of_c8 bool) blk).
Proof.
  intros ks blk H. unfold m128_decrypt, ecb_decrypt, store128.
  change (map (bits_of_c8 bool) (bytes_of_state128 bool ?s)) with (reg_of_state128 bool s).
  rewrite (fold_left_fusion (dec_round byte bxor8 cnib8 S8ib) kstep128_dec (reg_of_state128 bool)
             bridge128_dec_round).
  rewrite (reg_of_state128_load128 blk H). reflexivity.
Qed.
(* SKINNY-64 blocks are 8 bytes holding two cells each: [map (bits_of_c8 bool) blk] is the 8-byte region *)
Theorem m64_encrypt_by_kernels : forall (ks : ks64) (blk : list byte), length blk = 8 ->
  map (bits_of_c8 bool) (m64_encrypt ks blk)
  = fold_left kstep64_enc (used nib ks) (map (bits_of_c8 bool) blk).
Proof.
  intros ks blk H. unfold m64_encrypt, ecb_encrypt, store64.
  change (map (bits_of_c8 bool) (bytes_of_state64 bool ?s)) with (reg_of_state64 bool s).
  rewrite (fold_left_fusion (enc_round nib bxor4 cnib4 S4b) kstep64_enc (reg_of_state64 bool)
             bridge64_enc_round).
  rewrite (reg_of_state64_load64 blk H). reflexivity.
Qed.
Theorem m64_decrypt_by_kernels : forall (ks : ks64) (blk : list byte), length blk = 8 ->
  map (bits_of_c8 bool) (m64_decrypt ks blk)
  = fold_left kstep64_dec (rev (used nib ks)) (map (bits_of_c8 bool) blk).
Proof.
  intros ks blk H. unfold m64_decrypt, ecb_decrypt, store64.
  change (map (bits_of_c8 bool) (bytes_of_state64 bool ?s)) with (reg_of_state64 bool s).
  rewrite (fold_left_fusion (dec_round nib bxor4 cnib4 S4ib) kstep64_dec (reg_of_state64 bool)
             bridge64_dec_round).
  rewrite (reg_of_state64_load64 blk H). reflexivity.
Qed.

(* ================================================================================================== *)
(* 3. key schedule: one iteration of the model's passes = the kernel loop-body specification            *)
(*    memory: region 0 = tk, region 1 = pre ++ slot ++ post (slot at offset 8 / 4), region 2 = rc byte  *)
(* ================================================================================================== *)
Notation xor_upd128 := (fun (e k : half byte) (_ : rc6) => hxor byte bxor8 e k).
Notation xor_upd64 := (fun (e k : half nib) (_ : rc6) => hxor nib bxor4 e k).
Notation tk1_upd128 tweaked :=
  (fun (_ k : half byte) (r : rc6) => hxor byte bxor8 k (const_half byte cnib8 byte0 tweaked r)).
Notation tk1_upd64 tweaked :=
  (fun (_ k : half nib) (r : rc6) => hxor nib bxor4 k (const_half nib cnib4 nib0 tweaked r)).

(* reading the results of a body out of the memory it leaves *)
Lemma read_body128 : forall tk' (pre : list (list bool)) slot' post, length pre = 8 ->
  half128_of_reg bool false (skipn 8 (pre ++ KernelSpecs2.half_bytes128 bool slot' ++ post)) = slot'
  /\ state128_of_reg bool false (reg_of_state128 bool tk') = tk'.
Proof.
  intros tk' pre slot' post Hpre. split.
  - rewrite (skipn_pre bool pre _ 8 Hpre). apply half128_of_reg_half_bytes128.
  - apply state128_of_reg_of_state128.
Qed.
Lemma read_body64 : forall tk' (pre : list (list bool)) slot' post, length pre = 4 ->
  half64_of_reg bool false (skipn 4 (pre ++ KernelSpecs2.half_bytes64 bool slot' ++ post)) = slot'
  /\ state64_of_reg bool false (reg_of_state64 bool tk') = tk'.
Proof.
  intros tk' pre slot' post Hpre. split.
  - rewrite (skipn_pre bool pre _ 4 Hpre). apply half64_of_reg_half_bytes64.
  - apply state64_of_reg_of_state64.
Qed.

(* ---- SKINNY-128 ---- *)
Lemma bridge128_tk2_iteration : forall n tk r e rest pre post, length pre = 8 ->
  let m' := k128_tk2_body bool xorb false
              [reg_of_state128 bool tk; pre ++ KernelSpecs2.half_bytes128 bool e ++ post] in
  sched_loop byte (S n) xor_upd128 (next_tk2 byte (lfsr2_8 bool xorb)) tk r (e :: rest)
  = half128_of_reg bool false (skipn 8 (reg bool m' 1))
    :: sched_loop byte n xor_upd128 (next_tk2 byte (lfsr2_8 bool xorb))
                  (state128_of_reg bool false (reg bool m' 0)) (rc_next r) rest.
Proof.
  intros n tk r e rest pre post Hpre. cbv zeta.
  rewrite (k128_tk2_body_step tk e pre post Hpre), reg_cons2_0, reg_cons2_1.
  destruct (read_body128 (next_tk2 byte (lfsr2_8 bool xorb) tk) pre
              (hxor byte bxor8 e (rows01 byte tk)) post Hpre) as [-> ->].
  reflexivity.
Qed.
Lemma bridge128_tk3_iteration : forall n tk r e rest pre post, length pre = 8 ->
  let m' := k128_tk3_body bool xorb false
              [reg_of_state128 bool tk; pre ++ KernelSpecs2.half_bytes128 bool e ++ post] in
  sched_loop byte (S n) xor_upd128 (next_tk3 byte (lfsr3_8 bool xorb)) tk r (e :: rest)
  = half128_of_reg bool false (skipn 8 (reg bool m' 1))
    :: sched_loop byte n xor_upd128 (next_tk3 byte (lfsr3_8 bool xorb))
                  (state128_of_reg bool false (reg bool m' 0)) (rc_next r) rest.
Proof.
  intros n tk r e rest pre post Hpre. cbv zeta.
  rewrite (k128_tk3_body_step tk e pre post Hpre), reg_cons2_0, reg_cons2_1.
  destruct (read_body128 (next_tk3 byte (lfsr3_8 bool xorb) tk) pre
              (hxor byte bxor8 e (rows01 byte tk)) post Hpre) as [-> ->].
  reflexivity.
Qed.
Lemma bridge128_xor_tk1_iteration : forall n tk r e rest pre post, length pre = 8 ->
  let m' := k128_xor_tk1_body bool xorb false
              [reg_of_state128 bool tk; pre ++ KernelSpecs2.half_bytes128 bool e ++ post] in
  sched_loop byte (S n) xor_upd128 (next_tk1 byte) tk r (e :: rest)
  = half128_of_reg bool false (skipn 8 (reg bool m' 1))
    :: sched_loop byte n xor_upd128 (next_tk1 byte)
                  (state128_of_reg bool false (reg bool m' 0)) (rc_next r) rest.
Proof.
  intros n tk r e rest pre post Hpre. cbv zeta.
  rewrite (k128_xor_tk1_body_step tk e pre post Hpre), reg_cons2_0, reg_cons2_1.
  destruct (read_body128 (next_tk1 byte tk) pre
              (hxor byte bxor8 e (rows01 byte tk)) post Hpre) as [-> ->].
  reflexivity.
Qed.
(* set_tk1: the round constant is carried in region 2 and read back with rc_of_bits *)
Lemma bridge128_set_tk1_iteration : forall tweaked n tk r e rest pre post, length pre = 8 ->
  let m' := k128_tk1_body bool xorb false true tweaked
              [reg_of_state128 bool tk; pre ++ KernelSpecs2.half_bytes128 bool e ++ post; [bits_of_rc r]] in
  sched_loop byte (S n) (tk1_upd128 tweaked) (next_tk1 byte) tk r (e :: rest)
  = half128_of_reg bool false (skipn 8 (reg bool m' 1))
    :: sched_loop byte n (tk1_upd128 tweaked) (next_tk1 byte)
                  (state128_of_reg bool false (reg bool m' 0))
                  (rc_of_bits (nth 0 (reg bool m' 2) [])) rest.
Proof.
  intros tweaked n tk r e rest pre post Hpre. cbv zeta.
  rewrite (k128_tk1_body_step tweaked tk e pre post r Hpre), reg_cons3_0, reg_cons3_1, reg_cons3_2.
  destruct (read_body128 (next_tk1 byte tk) pre
              (hxor byte bxor8 (rows01 byte tk) (const_half byte cnib8 byte0 tweaked (rc_next r))) post Hpre)
    as [-> ->].
  change (nth 0 [bits_of_rc (rc_next r)] []) with (bits_of_rc (rc_next r)).
  rewrite rc_of_bits_of_rc. reflexivity.
Qed.

(* ---- SKINNY-64 ---- *)
Lemma bridge64_tk2_iteration : forall n tk r e rest pre post, length pre = 4 ->
  let m' := k64_tk2_body bool xorb false
              [reg_of_state64 bool tk; pre ++ KernelSpecs2.half_bytes64 bool e ++ post] in
  sched_loop nib (S n) xor_upd64 (next_tk2 nib (lfsr2_4 bool xorb)) tk r (e :: rest)
  = half64_of_reg bool false (skipn 4 (reg bool m' 1))
    :: sched_loop nib n xor_upd64 (next_tk2 nib (lfsr2_4 bool xorb))
                  (state64_of_reg bool false (reg bool m' 0)) (rc_next r) rest.
Proof.
  intros n tk r e rest pre post Hpre. cbv zeta.
  rewrite (k64_tk2_body_step tk e pre post Hpre), reg_cons2_0, reg_cons2_1.
  destruct (read_body64 (next_tk2 nib (lfsr2_4 bool xorb) tk) pre
              (hxor nib bxor4 e (rows01 nib tk)) post Hpre) as [-> ->].
  reflexivity.
Qed.
Lemma bridge64_tk3_iteration : forall n tk r e rest pre post, length pre = 4 ->
  let m' := k64_tk3_body bool xorb false
              [reg_of_state64 bool tk; pre ++ KernelSpecs2.half_bytes64 bool e ++ post] in
  sched_loop nib (S n) xor_upd64 (next_tk3 nib (lfsr3_4 bool xorb)) tk r (e :: rest)
  = half64_of_reg bool false (skipn 4 (reg bool m' 1))
    :: sched_loop nib n xor_upd64 (next_tk3 nib (lfsr3_4 bool xorb))
                  (state64_of_reg bool false (reg bool m' 0)) (rc_next r) rest.
Proof.
  intros n tk r e rest pre post Hpre. cbv zeta.
  rewrite (k64_tk3_body_step tk e pre post Hpre), reg_cons2_0, reg_cons2_1.
  destruct (read_body64 (next_tk3 nib (lfsr3_4 bool xorb) tk) pre
              (hxor nib bxor4 e (rows01 nib tk)) post Hpre) as [-> ->].
  reflexivity.
Qed.
Lemma bridge64_xor_tk1_iteration : forall n tk r e rest pre post, length pre = 4 ->
  let m' := k64_xor_tk1_body bool xorb false
              [reg_of_state64 bool tk; pre ++ KernelSpecs2.half_bytes64 bool e ++ post] in
  sched_loop nib (S n) xor_upd64 (next_tk1 nib) tk r (e :: rest)
  = half64_of_reg bool false (skipn 4 (reg bool m' 1))
    :: sched_loop nib n xor_upd64 (next_tk1 nib)
                  (state64_of_reg bool false (reg bool m' 0)) (rc_next r) rest.
Proof.
  intros n tk r e rest pre post Hpre. cbv zeta.
  rewrite (k64_xor_tk1_body_step tk e pre post Hpre), reg_cons2_0, reg_cons2_1.
  destruct (read_body64 (next_tk1 nib tk) pre
              (hxor nib bxor4 e (rows01 nib tk)) post Hpre) as [-> ->].
  reflexivity.
Qed.
Lemma bridge64_set_tk1_iteration : forall tweaked n tk r e rest pre post, length pre = 4 ->
  let m' := k64_tk1_body bool xorb false true tweaked
              [reg_of_state64 bool tk; pre ++ KernelSpecs2.half_bytes64 bool e ++ post; [bits_of_rc r]] in
  sched_loop nib (S n) (tk1_upd64 tweaked) (next_tk1 nib) tk r (e :: rest)
  = half64_of_reg bool false (skipn 4 (reg bool m' 1))
    :: sched_loop nib n (tk1_upd64 tweaked) (next_tk1 nib)
                  (state64_of_reg bool false (reg bool m' 0))
                  (rc_of_bits (nth 0 (reg bool m' 2) [])) rest.
Proof.
  intros tweaked n tk r e rest pre post Hpre. cbv zeta.
  rewrite (k64_tk1_body_step tweaked tk e pre post r Hpre), reg_cons3_0, reg_cons3_1, reg_cons3_2.
  destruct (read_body64 (next_tk1 nib tk) pre
              (hxor nib bxor4 (rows01 nib tk) (const_half nib cnib4 nib0 tweaked (rc_next r))) post Hpre)
    as [-> ->].
  change (nth 0 [bits_of_rc (rc_next r)] []) with (bits_of_rc (rc_next r)).
  rewrite rc_of_bits_of_rc. reflexivity.
Qed.

(* the passes of the model are [sched_loop] at exactly these [upd] / [next] (by definition) *)
Lemma set_tk2_128_is_loop : forall n key sched,
  set_tk2 byte bxor8 (lfsr2_8 bool xorb) 16 load128 n key sched
  = sched_loop byte n xor_upd128 (next_tk2 byte (lfsr2_8 bool xorb)) (load128 (pad_to 16 key)) (rc_init) sched.
Proof. reflexivity. Qed.
Lemma set_tk3_128_is_loop : forall n key sched,
  set_tk3 byte bxor8 (lfsr3_8 bool xorb) 16 load128 n key sched
  = sched_loop byte n xor_upd128 (next_tk3 byte (lfsr3_8 bool xorb)) (load128 (pad_to 16 key)) (rc_init) sched.
Proof. reflexivity. Qed.
Lemma xor_tk1_128_is_loop : forall n key sched,
  xor_tk1 byte bxor8 16 load128 n key sched
  = sched_loop byte n xor_upd128 (next_tk1 byte) (load128 (pad_to 16 key)) (rc_init) sched.
Proof. reflexivity. Qed.
Lemma set_tk1_128_is_loop : forall n key tweaked sched,
  set_tk1 byte bxor8 cnib8 16 load128 byte0 n key tweaked sched
  = sched_loop byte n (tk1_upd128 tweaked) (next_tk1 byte) (load128 (pad_to 16 key)) (rc_init) sched.
Proof. reflexivity. Qed.
Lemma set_tk2_64_is_loop : forall n key sched,
  set_tk2 nib bxor4 (lfsr2_4 bool xorb) 8 load64 n key sched
  = sched_loop nib n xor_upd64 (next_tk2 nib (lfsr2_4 bool xorb)) (load64 (pad_to 8 key)) (rc_init) sched.
Proof. reflexivity. Qed.
Lemma set_tk3_64_is_loop : forall n key sched,
  set_tk3 nib bxor4 (lfsr3_4 bool xorb) 8 load64 n key sched
  = sched_loop nib n xor_upd64 (next_tk3 nib (lfsr3_4 bool xorb)) (load64 (pad_to 8 key)) (rc_init) sched.
Proof. reflexivity. Qed.
Lemma xor_tk1_64_is_loop : forall n key sched,
  xor_tk1 nib bxor4 8 load64 n key sched
  = sched_loop nib n xor_upd64 (next_tk1 nib) (load64 (pad_to 8 key)) (rc_init) sched.
Proof. reflexivity. Qed.
Lemma set_tk1_64_is_loop : forall n key tweaked sched,
  set_tk1 nib bxor4 cnib4 8 load64 nib0 n key tweaked sched
  = sched_loop nib n (tk1_upd64 tweaked) (next_tk1 nib) (load64 (pad_to 8 key)) (rc_init) sched.
Proof. reflexivity. Qed.

(* ================================================================================================== *)
(* 4. MANTIS: fwd / bwd are iterations of the kernel round steps                                        *)
(*    memory: regions tweak, state, rc (the table entry of this round), k1                              *)
(* ================================================================================================== *)
Notation Sb0b := (Sb0 bool xorb andb true).
Notation rg64 := (reg_of_state64 bool).
Notation st64 := (state64_of_reg bool false).

Definition kstep_mantis_fwd (mem4 : mem bool) (rc : N) : mem bool :=
  let m := [reg bool mem4 0; reg bool mem4 1; reg_of_state64 bool (const_state nib cnib4 rc); reg bool mem4 3] in
  km_fwd_linear bool xorb false (km_sub bool xorb andb false true (km_h bool false m)).
Definition kstep_mantis_bwd (mem4 : mem bool) (rc : N) : mem bool :=
  let m := [reg bool mem4 0; reg bool mem4 1; reg_of_state64 bool (const_state nib cnib4 rc); reg bool mem4 3] in
  km_h_inv bool false (km_sub bool xorb andb false true (km_bwd_linear bool xorb false m)).

(* one kernel step on a memory that holds model values, in closed form *)
Lemma kstep_mantis_fwd_mem : forall T x c k rc,
  kstep_mantis_fwd [rg64 T; rg64 x; c; rg64 k] rc
  = [rg64 (h_perm nib T);
     rg64 (mix nib bxor4 (permute_cells nib
             (sx nib bxor4 (sx nib bxor4 (smap nib Sb0b x) (const_state nib cnib4 rc))
                           (sx nib bxor4 k (h_perm nib T)))));
     rg64 (const_state nib cnib4 rc); rg64 k].
Proof.
  intros T x c k rc. unfold kstep_mantis_fwd. cbv zeta.
  rewrite reg_cons4_0, reg_cons4_1, reg_cons4_3. apply km_fwd_is_spec.
Qed.
Lemma kstep_mantis_bwd_mem : forall T x c k rc,
  kstep_mantis_bwd [rg64 T; rg64 x; c; rg64 k] rc
  = [rg64 (h_perm_inv nib T);
     rg64 (smap nib Sb0b
             (sx nib bxor4 (sx nib bxor4 (permute_cells_inv nib (mix nib bxor4 x)) (sx nib bxor4 k T))
                 (const_state nib cnib4 rc)));
     rg64 (const_state nib cnib4 rc); rg64 k].
Proof.
  intros T x c k rc. unfold kstep_mantis_bwd. cbv zeta.
  rewrite reg_cons4_0, reg_cons4_1, reg_cons4_3. apply km_bwd_is_spec.
Qed.

(* the statement with an arbitrary content [c] of the rc region (it is overwritten before it is read) *)
Lemma mantis_fwd_by_kernels_gen : forall rcs k T x c,
  let mr := fold_left kstep_mantis_fwd rcs [rg64 T; rg64 x; c; rg64 k] in
  fwd nib bxor4 cnib4 Sb0b rcs k T x = (st64 (reg bool mr 1), st64 (reg bool mr 0))
  /\ reg bool mr 3 = rg64 k.
Proof.
  intros rcs k. induction rcs as [|rc rest IH]; intros T x c; cbv zeta.
  - cbn [fold_left fwd]. rewrite reg_cons4_0, reg_cons4_1, reg_cons4_3, !state64_of_reg_of_state64.
    split; reflexivity.
  - cbn [fold_left fwd]. rewrite kstep_mantis_fwd_mem. apply IH.
Qed.
Lemma mantis_bwd_by_kernels_gen : forall rcs k T x c,
  let mr := fold_left kstep_mantis_bwd rcs [rg64 T; rg64 x; c; rg64 k] in
  bwd nib bxor4 cnib4 Sb0b rcs k T x = (st64 (reg bool mr 1), st64 (reg bool mr 0))
  /\ reg bool mr 3 = rg64 k.
Proof.
  intros rcs k. induction rcs as [|rc rest IH]; intros T x c; cbv zeta.
  - cbn [fold_left bwd]. rewrite reg_cons4_0, reg_cons4_1, reg_cons4_3, !state64_of_reg_of_state64.
    split; reflexivity.
  - cbn [fold_left bwd]. rewrite kstep_mantis_bwd_mem. apply IH.
Qed.

Theorem mantis_fwd_by_kernels : forall rcs k T x,
  let m0 := [reg_of_state64 bool T; reg_of_state64 bool x; []; reg_of_state64 bool k] in
  let mr := fold_left kstep_mantis_fwd rcs m0 in
  fwd nib bxor4 cnib4 (Sb0 bool xorb andb true) rcs k T x
  = (state64_of_reg bool false (reg bool mr 1), state64_of_reg bool false (reg bool mr 0)).
Proof. intros rcs k T x. cbv zeta. apply (mantis_fwd_by_kernels_gen rcs k T x []). Qed.
Theorem mantis_bwd_by_kernels : forall rcs k T x,
  let m0 := [reg_of_state64 bool T; reg_of_state64 bool x; []; reg_of_state64 bool k] in
  let mr := fold_left kstep_mantis_bwd rcs m0 in
  bwd nib bxor4 cnib4 (Sb0 bool xorb andb true) rcs k T x
  = (state64_of_reg bool false (reg bool mr 1), state64_of_reg bool false (reg bool mr 0)).
Proof. intros rcs k T x. cbv zeta. apply (mantis_bwd_by_kernels_gen rcs k T x []). Qed.

(* the whole MANTIS core: whitening, r forward kernel steps, the middle, r backward kernel steps (constants in
   reverse order, key k1 xor alpha), whitening *)
Definition mantis_core_by_kernels (r : nat) (k0 k0' k1 t m : state nib) : state nib :=
  let rcs := firstn r (RCs) in
  let mF := fold_left kstep_mantis_fwd rcs
              [rg64 t; rg64 (sx nib bxor4 m (sx nib bxor4 k0 (sx nib bxor4 k1 t))); []; rg64 k1] in
  let xm := smap nib Sb0b (mix nib bxor4 (smap nib Sb0b (st64 (reg bool mF 1)))) in
  let k1a := sx nib bxor4 k1 (const_state nib cnib4 ALPHA) in
  let mB := fold_left kstep_mantis_bwd (rev rcs) [rg64 (st64 (reg bool mF 0)); rg64 xm; []; rg64 k1a] in
  sx nib bxor4 (st64 (reg bool mB 1)) (sx nib bxor4 k0' (sx nib bxor4 k1a (st64 (reg bool mB 0)))).

Theorem mantis_core_is_by_kernels : forall r k0 k0' k1 t m,
  mantis_core bool xorb andb false true r k0 k0' k1 t m = mantis_core_by_kernels r k0 k0' k1 t m.
Proof.
  intros r k0 k0' k1 t m. unfold mantis_core, core, mantis_core_by_kernels. cbv zeta.
  change (@c4x bool xorb) with bxor4.
  rewrite mantis_fwd_by_kernels. cbv zeta.
  unfold sub. rewrite mantis_bwd_by_kernels. cbv zeta. reflexivity.
Qed.

Theorem mantis_crypt_by_kernels : forall ks blk,
  mantis_crypt ks blk
  = store64 (mantis_core_by_kernels (N.to_nat (mk_rounds ks)) (mk_k0 ks) (mk_k0p ks) (mk_k1 ks)
               (mk_tweak ks) (load64 blk)).
Proof. intros ks blk. unfold mantis_crypt. rewrite mantis_core_is_by_kernels. reflexivity. Qed.
Theorem mantis_crypt_tweaked_by_kernels : forall ks tw blk,
  mantis_crypt_tweaked ks tw blk
  = store64 (mantis_core_by_kernels (N.to_nat (mk_rounds ks)) (mk_k0 ks) (mk_k0p ks) (mk_k1 ks)
               (load64 tw) (load64 blk)).
Proof. intros ks tw blk. unfold mantis_crypt_tweaked. rewrite mantis_core_is_by_kernels. reflexivity. Qed.

Print Assumptions bridge128_enc_round.
Print Assumptions bridge128_dec_round.
Print Assumptions bridge64_enc_round.
Print Assumptions bridge64_dec_round.
Print Assumptions bridge128_enc_round_mem.
Print Assumptions bridge128_dec_round_mem.
Print Assumptions bridge64_enc_round_mem.
Print Assumptions bridge64_dec_round_mem.
Print Assumptions m128_encrypt_by_kernels.
Print Assumptions m128_decrypt_by_kernels.
Print Assumptions m64_encrypt_by_kernels.
Print Assumptions m64_decrypt_by_kernels.
Print Assumptions bridge128_tk2_iteration.
Print Assumptions bridge128_tk3_iteration.
Print Assumptions bridge128_xor_tk1_iteration.
Print Assumptions bridge128_set_tk1_iteration.
Print Assumptions bridge64_tk2_iteration.
Print Assumptions bridge64_tk3_iteration.
Print Assumptions bridge64_xor_tk1_iteration.
Print Assumptions bridge64_set_tk1_iteration.
Print Assumptions mantis_fwd_by_kernels.
Print Assumptions mantis_bwd_by_kernels.
Print Assumptions mantis_core_is_by_kernels.
Print Assumptions mantis_crypt_by_kernels.
Print Assumptions mantis_crypt_tweaked_by_kernels.
