(* ProofsArduino.v — C19: the Arduino port (ModelArduino.v) against the model of the C library
   (ModelCipher.v / ModelCtr.v):
     - the plain classes Skinny128_128/_256/_384 and Skinny64_64/_128/_192 compute the C library's
       ECB functions for the same key;
     - the tweakable classes, under any history of setTweak calls, equal the C library's tweakable
       schedule under the same history, hence depend only on the key and the latest valid tweak;
     - Mantis8 is the C library keyed with 8 rounds in encrypt mode;
     - CTR<T> with the full-width counter produces input xor E(iv), E(iv+1), ...
   Every theorem is closed under the global context. *)
From Coq Require Import List Bool NArith Arith Lia.
From Skinny Require Import Bits SpecSkinny SpecMantis ModelCipher ModelCtr ModelArduino
  ProofsSkinny.
Import ListNotations.

(* ------------------------------------------------------------------ *)
(* helpers *)
Lemma pad_to_firstn n b : pad_to n (firstn n b) = pad_to n b.
Proof.
  destruct (le_lt_dec (length b) n) as [H|H].
  - now rewrite firstn_all2 by exact H.
  - unfold pad_to. rewrite firstn_app_le by (rewrite firstn_length; lia).
    rewrite firstn_firstn, Nat.min_id. rewrite firstn_app_le by lia. reflexivity.
Qed.

Lemma fold_left_map_gen {A B S} (f : S -> B -> S) (g : A -> B) : forall l s,
  fold_left f (map g l) s = fold_left (fun x a => f x (g a)) l s.
Proof. induction l as [|a l IH]; intros s; simpl; auto. Qed.

(* a tweak request as the Arduino API sees it: (tweak pointer, len) *)
Definition ard_treq : Type := (buf * nat)%type.
(* the tweak in force after a history of setTweak calls on a freshly keyed object: the last request
   of exactly one block counts (NULL = zero), everything else is rejected *)
Definition ard_latest (bs : nat) (qs : list ard_treq) : list byte :=
  fold_left (fun t q => if Nat.eqb (snd q) bs
                        then match fst q with Some b => pad_to bs b | None => zeros bs end
                        else t) qs (zeros bs).
Definition c_req (q : ard_treq) : tweak_req := (fst q, N.of_nat (snd q)).

Lemma latest_tweak_ard bs : 0 < bs -> forall qs cur,
  latest_tweak bs cur (map c_req (filter (fun q => Nat.eqb (snd q) bs) qs))
  = fold_left (fun t q => if Nat.eqb (snd q) bs
                          then match fst q with Some b => pad_to bs b | None => zeros bs end
                          else t) qs cur.
Proof.
  intros Hbs. induction qs as [|[tw len] qs IH]; intros cur; [reflexivity|].
  cbn [filter fold_left snd fst]. destruct (Nat.eqb_spec len bs) as [->|Hne].
  - cbn [map]. unfold latest_tweak in *. cbn [fold_left]. rewrite IH. f_equal.
    unfold tweak_valid, tweak_bytes, c_req. cbn [fst snd].
    replace (N.leb 1 (N.of_nat bs)) with true by (symmetry; apply N.leb_le; lia).
    rewrite N.leb_refl. cbn [andb]. destruct tw as [b|]; [|reflexivity].
    rewrite Nat2N.id. apply pad_to_firstn.
  - apply IH.
Qed.

(* ------------------------------------------------------------------ *)
(* Generic development over the cell type *)
Section ArdGen.
  Variable C : Type.
  Variable cx : C -> C -> C.
  Variable cnib : bool -> bool -> bool -> bool -> C.
  Variables sb sbi l2 l3 : C -> C.
  Variable bs : nat.
  Variable load : list byte -> state C.
  Variable store : state C -> list byte.
  Variable czero : C.
  Variable rounds_for : nat -> nat.

  Hypothesis cx0 : forall a, cx a czero = a.
  Hypothesis load_zeros : load (zeros bs) = zstate C czero.
  Hypothesis bs_pos : 0 < bs.

  Notation sloop := (sched_loop C).
  Notation half := (half C).
  Notation skinner := (set_key_inner C cx cnib l2 l3 bs load czero rounds_for).
  Notation skey := (set_key C cx cnib l2 l3 bs load czero rounds_for).
  Notation stkey := (set_tweaked_key C cx cnib l2 l3 bs load czero rounds_for).
  Notation stweak := (set_tweak C cx bs load).
  Notation aset := (ard_set_key C cx cnib l2 l3 bs load czero).
  Notation asett := (ard_set_key_tweaked C cx cnib l2 l3 bs load czero).
  Notation atweak := (ard_set_tweak C cx bs load).
  Notation ard := (ard C).

  (* the loop over the first n slots commutes with cutting the array to n slots *)
  Lemma sloop_firstn n upd next : forall tk r s,
    firstn n (sloop n upd next tk r s) = sloop n upd next tk r (firstn n s).
  Proof.
    induction n as [|n IH]; intros tk r [|e s]; simpl; auto. f_equal. apply IH.
  Qed.
  (* a pass that ignores the old slot contents overwrites all of an n-slot array *)
  Lemma sloop_overwrite upd next : (forall e e' k r, upd e k r = upd e' k r) ->
    forall n tk r s s', length s = n -> length s' = n ->
    sloop n upd next tk r s = sloop n upd next tk r s'.
  Proof.
    intros Hu. induction n as [|n IH]; intros tk r [|e s] [|e' s'] H H'; simpl in H, H' |- *;
      try discriminate; auto.
    f_equal; [apply Hu|apply IH; [now injection H|now injection H']].
  Qed.
  Lemma set_tk1_cut n key tw s s' : n <= length s -> length s' = n ->
    firstn n (set_tk1 C cx cnib bs load czero n key tw s)
    = set_tk1 C cx cnib bs load czero n key tw s'.
  Proof.
    intros H H'. unfold set_tk1. rewrite sloop_firstn.
    apply sloop_overwrite; auto. rewrite firstn_length. lia.
  Qed.
  Lemma set_tk2_cut n key s : firstn n (set_tk2 C cx l2 bs load n key s)
    = set_tk2 C cx l2 bs load n key (firstn n s).
  Proof. apply sloop_firstn. Qed.
  Lemma set_tk3_cut n key s : firstn n (set_tk3 C cx l3 bs load n key s)
    = set_tk3 C cx l3 bs load n key (firstn n s).
  Proof. apply sloop_firstn. Qed.
  Lemma xor_tk1_cut n key s : firstn n (xor_tk1 C cx bs load n key s)
    = xor_tk1 C cx bs load n key (firstn n s).
  Proof. apply sloop_firstn. Qed.
  Lemma xor_tk1_zeros n s : xor_tk1 C cx bs load n (zeros bs) s = s.
  Proof.
    unfold xor_tk1. rewrite pad_to_id by apply zeros_length. rewrite load_zeros.
    apply (zero_pass C cx czero cx0). reflexivity.
  Qed.

  (* ---------------------------------------------------------------- *)
  (* plain classes *)
  Lemma ard_plain_gen z (a : ard) ks key :
    In z [1; 2; 3] -> length key = z * bs -> length (a_sched C a) = rounds_for z ->
    rounds_for z <= length (ks_sched C ks) ->
    fst (aset z a key) = true
    /\ used C (skinner ks key None) = a_sched C (snd (aset z a key)).
  Proof.
    intros Hz Hl Ha Hn. unfold ard_set_key, set_key_inner, used, r_of.
    destruct (Nat.eqb_spec (length key) (z * bs)) as [_|Hne]; [|contradiction].
    split; [reflexivity|]. rewrite Ha.
    destruct Hz as [<-|[<-|[<-|[]]]]; cbn [Nat.leb snd a_sched with_sched].
    - destruct (Nat.eqb_spec (length key) bs); [|lia].
      cbn [mk_ks ks_rounds ks_sched]. rewrite Nat2N.id.
      rewrite (firstn_all2 (n := bs) key) by lia.
      apply set_tk1_cut; assumption.
    - destruct (Nat.eqb_spec (length key) bs); [lia|].
      destruct (Nat.leb_spec (length key) (2 * bs)); [|lia].
      cbn [mk_ks ks_rounds ks_sched]. rewrite Nat2N.id.
      rewrite (firstn_all2 (n := bs) (skipn bs key)) by (rewrite skipn_length; lia).
      rewrite set_tk2_cut. f_equal. apply set_tk1_cut; assumption.
    - destruct (Nat.eqb_spec (length key) bs); [lia|].
      destruct (Nat.leb_spec (length key) (2 * bs)); [lia|].
      cbn [mk_ks ks_rounds ks_sched]. rewrite Nat2N.id.
      rewrite (firstn_all2 (n := bs) (skipn (2 * bs) key)) by (rewrite skipn_length; lia).
      rewrite set_tk3_cut, set_tk2_cut. do 2 f_equal. apply set_tk1_cut; assumption.
  Qed.

  Lemma ard_set_key_reject z (a : ard) key : length key <> z * bs -> aset z a key = (false, a).
  Proof.
    intros H. unfold ard_set_key. destruct (Nat.eqb_spec (length key) (z * bs)); [contradiction|].
    reflexivity.
  Qed.

  (* same used schedule, same block functions *)
  Lemma ard_crypt_used (a : ard) (ks : keysched C) : used C ks = a_sched C a ->
    forall blk,
      ard_encrypt C cx cnib sb load store a blk = ecb_encrypt C cx cnib sb load store ks blk
      /\ ard_decrypt C cx cnib sbi load store a blk = ecb_decrypt C cx cnib sbi load store ks blk.
  Proof.
    intros H blk. unfold ard_encrypt, ard_decrypt, ecb_encrypt, ecb_decrypt. rewrite H.
    split; reflexivity.
  Qed.

  Theorem ard_plain_equiv_gen z (a : ard) ks key :
    In z [1; 2; 3] -> length key = z * bs -> length (a_sched C a) = rounds_for z ->
    rounds_for z <= length (ks_sched C ks) ->
    fst (aset z a key) = true
    /\ fst (skey ks (Some key) (N.of_nat (z * bs))) = 1%N
    /\ forall blk,
         ard_encrypt C cx cnib sb load store (snd (aset z a key)) blk
         = ecb_encrypt C cx cnib sb load store (snd (skey ks (Some key) (N.of_nat (z * bs)))) blk
         /\ ard_decrypt C cx cnib sbi load store (snd (aset z a key)) blk
            = ecb_decrypt C cx cnib sbi load store (snd (skey ks (Some key) (N.of_nat (z * bs)))) blk.
  Proof.
    intros Hz Hl Ha Hn.
    rewrite (set_key_exact C cx cnib l2 l3 bs load czero rounds_for bs_pos z (z * bs) ks key Hz
               eq_refl Hl).
    destruct (ard_plain_gen z a ks key Hz Hl Ha Hn) as [H1 H2].
    split; [exact H1|]. split; [reflexivity|]. cbn [snd]. now apply ard_crypt_used.
  Qed.

  (* ---------------------------------------------------------------- *)
  (* tweakable classes: the simulation relation between the two objects *)
  Definition trel (a : ard) (t : tkeysched C) : Prop :=
    used C (tk_ks C t) = a_sched C a
    /\ tk_tweak C t = a_tweak C a
    /\ N.to_nat (ks_rounds C (tk_ks C t)) = length (a_sched C a).

  Lemma trel_init zk (a : ard) (ks : keysched C) key :
    In zk [1; 2] -> length key = zk * bs -> length (a_sched C a) = rounds_for (S zk) ->
    rounds_for (S zk) <= length (ks_sched C ks) ->
    fst (asett zk a key) = true
    /\ trel (snd (asett zk a key))
            {| tk_ks := skinner ks key (Some (zeros bs)); tk_tweak := zeros bs |}.
  Proof.
    intros Hz Hl Ha Hn. unfold ard_set_key_tweaked, set_key_inner, trel, used, r_of.
    destruct (Nat.eqb_spec (length key) (zk * bs)) as [_|Hne]; [|contradiction].
    split; [reflexivity|]. rewrite Ha.
    destruct Hz as [<-|[<-|[]]]; cbn [Nat.leb snd a_sched a_tweak tk_ks tk_tweak].
    - destruct (Nat.eqb_spec (length key) bs); [|lia].
      cbn [mk_ks ks_rounds ks_sched]. rewrite Nat2N.id.
      rewrite (firstn_all2 (n := bs) key) by lia.
      split; [|split; [reflexivity|]].
      + rewrite set_tk2_cut. f_equal. apply set_tk1_cut; assumption.
      + unfold set_tk2, set_tk1. now rewrite !sloop_length.
    - destruct (Nat.eqb_spec (length key) bs); [lia|].
      cbn [mk_ks ks_rounds ks_sched]. rewrite Nat2N.id.
      rewrite (firstn_all2 (n := bs) (skipn bs key)) by (rewrite skipn_length; lia).
      split; [|split; [reflexivity|]].
      + rewrite set_tk3_cut, set_tk2_cut. do 2 f_equal. apply set_tk1_cut; assumption.
      + unfold set_tk3, set_tk2, set_tk1. now rewrite !sloop_length.
  Qed.

  Lemma trel_step (a : ard) t tw : trel a t ->
    trel (snd (atweak a tw bs)) (snd (stweak t tw (N.of_nat bs))).
  Proof.
    intros (Hu & Ht & Hr). unfold ard_set_tweak, set_tweak, r_of.
    rewrite Nat.eqb_refl. rewrite size_ok_true by lia. rewrite Nat2N.id.
    unfold used in Hu. unfold trel, used.
    destruct tw as [b|]; cbn [snd tk_ks tk_tweak ks_rounds ks_sched a_sched a_tweak].
    - rewrite pad_to_firstn. split; [|split; [reflexivity|]].
      + rewrite !xor_tk1_cut, Hu, Ht, Hr. reflexivity.
      + unfold xor_tk1. now rewrite !sloop_length.
    - split; [|split; [reflexivity|]].
      + rewrite xor_tk1_zeros. rewrite xor_tk1_cut, Hu, Ht, Hr. reflexivity.
      + unfold xor_tk1. now rewrite !sloop_length.
  Qed.
  Lemma ard_set_tweak_reject (a : ard) tw len : len <> bs -> atweak a tw len = (false, a).
  Proof.
    intros H. unfold ard_set_tweak. destruct (Nat.eqb_spec len bs); [contradiction|reflexivity].
  Qed.

  Lemma trel_fold : forall (qs : list ard_treq) (a : ard) t, trel a t ->
    trel (fold_left (fun x q => snd (atweak x (fst q) (snd q))) qs a)
         (fold_left (fun x q => snd (stweak x (fst q) (N.of_nat (snd q))))
                    (filter (fun q => Nat.eqb (snd q) bs) qs) t).
  Proof.
    induction qs as [|[tw len] qs IH]; intros a t H; [exact H|].
    cbn [filter fold_left fst snd]. destruct (Nat.eqb_spec len bs) as [->|Hne].
    - cbn [fold_left fst snd]. apply IH. now apply trel_step.
    - rewrite ard_set_tweak_reject by exact Hne. cbn [snd]. now apply IH.
  Qed.

  Theorem ard_tweaked_equiv_gen zk (a : ard) (t0 : tkeysched C) key (qs : list ard_treq) :
    In zk [1; 2] -> length key = zk * bs -> length (a_sched C a) = rounds_for (S zk) ->
    rounds_for (S zk) <= length (ks_sched C (tk_ks C t0)) ->
    let a1 := snd (asett zk a key) in
    let a2 := fold_left (fun x q => snd (atweak x (fst q) (snd q))) qs a1 in
    let c1 := snd (stkey t0 (Some key) (N.of_nat (zk * bs))) in
    let c2 := fold_left (fun x q => snd (stweak x (fst q) (N.of_nat (snd q))))
                        (filter (fun q => Nat.eqb (snd q) bs) qs) c1 in
    fst (asett zk a key) = true
    /\ forall blk,
         ard_encrypt C cx cnib sb load store a2 blk
         = ecb_encrypt C cx cnib sb load store (tk_ks C c2) blk
         /\ ard_decrypt C cx cnib sbi load store a2 blk
            = ecb_decrypt C cx cnib sbi load store (tk_ks C c2) blk.
  Proof.
    intros Hz Hl Ha Hn a1 a2 c1 c2.
    destruct (trel_init zk a (tk_ks C t0) key Hz Hl Ha Hn) as [H1 H2].
    split; [exact H1|].
    assert (R : trel a2 c2).
    { subst a2 c2 a1 c1.
      rewrite (set_tweaked_key_exact C cx cnib l2 l3 bs load czero rounds_for bs_pos zk (zk * bs)
                 t0 key Hz eq_refl Hl).
      cbn [snd]. apply trel_fold. exact H2. }
    apply ard_crypt_used. apply R.
  Qed.
End ArdGen.

(* ------------------------------------------------------------------ *)
(* Instances: SKINNY-128 (byte cells) and SKINNY-64 (nibble cells) *)
Lemma load128_zeros : load128 (zeros 16) = zstate byte byte0.
Proof. reflexivity. Qed.
Lemma load64_zeros : load64 (zeros 8) = zstate nib nib0.
Proof. reflexivity. Qed.
Lemma rounds128_le z : In z [1; 2; 3] -> m128_rounds z <= 56.
Proof. intros [<-|[<-|[<-|[]]]]; simpl; lia. Qed.
Lemma rounds64_le z : In z [1; 2; 3] -> m64_rounds z <= 40.
Proof. intros [<-|[<-|[<-|[]]]]; simpl; lia. Qed.
Lemma in12_S zk : In zk [1; 2] -> In (S zk) [1; 2; 3].
Proof. intros [<-|[<-|[]]]; simpl; auto. Qed.

(* plain classes: z in {1,2,3}; the Arduino object owns exactly rounds(z) slots, the C object 56 (40) *)
Theorem a128_plain_equiv : forall (z : nat) (a : ard128) (ks : ks128) (key : list byte),
  In z [1; 2; 3] -> length key = z * 16 -> length (a_sched byte a) = skinny128_rounds z ->
  length (ks_sched byte ks) = 56 ->
  fst (a128_set_key z a key) = true /\
  fst (m128_set_key ks (Some key) (N.of_nat (z * 16))) = 1%N /\
  forall blk,
    a128_encrypt (snd (a128_set_key z a key)) blk
    = m128_encrypt (snd (m128_set_key ks (Some key) (N.of_nat (z * 16)))) blk /\
    a128_decrypt (snd (a128_set_key z a key)) blk
    = m128_decrypt (snd (m128_set_key ks (Some key) (N.of_nat (z * 16)))) blk.
Proof.
  intros z a ks key Hz Hl Ha Hs.
  assert (Hn : m128_rounds z <= length (ks_sched byte ks)) by (rewrite Hs; now apply rounds128_le).
  exact (ard_plain_equiv_gen byte bxor8 cnib8 S8b S8ib l2_8 l3_8 16 load128 store128 byte0
           m128_rounds (Nat.lt_0_succ _) z a ks key Hz Hl Ha Hn).
Qed.
Theorem a128_set_key_wrong_length : forall z a key,
  length key <> z * 16 -> a128_set_key z a key = (false, a).
Proof. intros z a key H. now apply ard_set_key_reject. Qed.

Theorem a64_plain_equiv : forall (z : nat) (a : ard64) (ks : ks64) (key : list byte),
  In z [1; 2; 3] -> length key = z * 8 -> length (a_sched nib a) = skinny64_rounds z ->
  length (ks_sched nib ks) = 40 ->
  fst (a64_set_key z a key) = true /\
  fst (m64_set_key ks (Some key) (N.of_nat (z * 8))) = 1%N /\
  forall blk,
    a64_encrypt (snd (a64_set_key z a key)) blk
    = m64_encrypt (snd (m64_set_key ks (Some key) (N.of_nat (z * 8)))) blk /\
    a64_decrypt (snd (a64_set_key z a key)) blk
    = m64_decrypt (snd (m64_set_key ks (Some key) (N.of_nat (z * 8)))) blk.
Proof.
  intros z a ks key Hz Hl Ha Hs.
  assert (Hn : m64_rounds z <= length (ks_sched nib ks)) by (rewrite Hs; now apply rounds64_le).
  exact (ard_plain_equiv_gen nib bxor4 cnib4 S4b S4ib l2_4 l3_4 8 load64 store64 nib0
           m64_rounds (Nat.lt_0_succ _) z a ks key Hz Hl Ha Hn).
Qed.
Theorem a64_set_key_wrong_length : forall z a key,
  length key <> z * 8 -> a64_set_key z a key = (false, a).
Proof. intros z a key H. now apply ard_set_key_reject. Qed.

(* tweakable classes, any history of setTweak calls *)
Theorem a128_tweaked_equiv : forall (zk : nat) (a : ard128) (t0 : tks128) (key : list byte)
    (qs : list ard_treq),
  In zk [1; 2] -> length key = zk * 16 -> length (a_sched byte a) = skinny128_rounds (S zk) ->
  length (ks_sched byte (tk_ks byte t0)) = 56 ->
  let a1 := snd (a128_set_key_tweaked zk a key) in
  let a2 := fold_left (fun x q => snd (a128_set_tweak x (fst q) (snd q))) qs a1 in
  let c1 := snd (m128_set_tweaked_key t0 (Some key) (N.of_nat (zk * 16))) in
  let c2 := fold_left (fun x q => snd (m128_set_tweak x (fst q) (N.of_nat (snd q))))
                      (filter (fun q => Nat.eqb (snd q) 16) qs) c1 in
  fst (a128_set_key_tweaked zk a key) = true /\
  forall blk, a128_encrypt a2 blk = m128_encrypt (tk_ks byte c2) blk
           /\ a128_decrypt a2 blk = m128_decrypt (tk_ks byte c2) blk.
Proof.
  intros zk a t0 key qs Hz Hl Ha Hs.
  assert (Hn : m128_rounds (S zk) <= length (ks_sched byte (tk_ks byte t0)))
    by (rewrite Hs; apply rounds128_le; now apply in12_S).
  exact (ard_tweaked_equiv_gen byte bxor8 cnib8 S8b S8ib l2_8 l3_8 16 load128 store128 byte0
           m128_rounds bxor8_0_r load128_zeros (Nat.lt_0_succ _) zk a t0 key qs Hz Hl Ha Hn).
Qed.
Theorem a64_tweaked_equiv : forall (zk : nat) (a : ard64) (t0 : tks64) (key : list byte)
    (qs : list ard_treq),
  In zk [1; 2] -> length key = zk * 8 -> length (a_sched nib a) = skinny64_rounds (S zk) ->
  length (ks_sched nib (tk_ks nib t0)) = 40 ->
  let a1 := snd (a64_set_key_tweaked zk a key) in
  let a2 := fold_left (fun x q => snd (a64_set_tweak x (fst q) (snd q))) qs a1 in
  let c1 := snd (m64_set_tweaked_key t0 (Some key) (N.of_nat (zk * 8))) in
  let c2 := fold_left (fun x q => snd (m64_set_tweak x (fst q) (N.of_nat (snd q))))
                      (filter (fun q => Nat.eqb (snd q) 8) qs) c1 in
  fst (a64_set_key_tweaked zk a key) = true /\
  forall blk, a64_encrypt a2 blk = m64_encrypt (tk_ks nib c2) blk
           /\ a64_decrypt a2 blk = m64_decrypt (tk_ks nib c2) blk.
Proof.
  intros zk a t0 key qs Hz Hl Ha Hs.
  assert (Hn : m64_rounds (S zk) <= length (ks_sched nib (tk_ks nib t0)))
    by (rewrite Hs; apply rounds64_le; now apply in12_S).
  exact (ard_tweaked_equiv_gen nib bxor4 cnib4 S4b S4ib l2_4 l3_4 8 load64 store64 nib0
           m64_rounds bxor4_0_r load64_zeros (Nat.lt_0_succ _) zk a t0 key qs Hz Hl Ha Hn).
Qed.
(* requests of any other length are rejected and change nothing *)
Theorem a128_set_tweak_wrong_length : forall a tw len,
  len <> 16 -> a128_set_tweak a tw len = (false, a).
Proof. intros a tw len H. now apply ard_set_tweak_reject. Qed.
Theorem a64_set_tweak_wrong_length : forall a tw len,
  len <> 8 -> a64_set_tweak a tw len = (false, a).
Proof. intros a tw len H. now apply ard_set_tweak_reject. Qed.

(* hence the Arduino result depends only on the key and the latest valid tweak (NULL = zero) *)
Definition tks128_blank : tks128 :=
  {| tk_ks := {| ks_rounds := 0; ks_sched := repeat (zhalf byte byte0) 56 |}; tk_tweak := zeros 16 |}.
Definition tks64_blank : tks64 :=
  {| tk_ks := {| ks_rounds := 0; ks_sched := repeat (zhalf nib nib0) 40 |}; tk_tweak := zeros 8 |}.

Theorem a128_tweak_history_independent : forall zk a key (qs : list ard_treq) blk,
  In zk [1; 2] -> length key = zk * 16 ->
  length (a_sched byte a) = skinny128_rounds (S zk) -> length blk = 16 ->
  let a2 := fold_left (fun x q => snd (a128_set_tweak x (fst q) (snd q))) qs
                      (snd (a128_set_key_tweaked zk a key)) in
  a128_encrypt a2 blk = skinny128_tweaked_enc zk key (ard_latest 16 qs) blk
  /\ a128_decrypt a2 blk = skinny128_tweaked_dec zk key (ard_latest 16 qs) blk.
Proof.
  intros zk a key qs blk Hz Hl Ha Hb a2.
  assert (Hs : length (ks_sched byte (tk_ks byte tks128_blank)) = 56) by reflexivity.
  pose proof (a128_tweaked_equiv zk a tks128_blank key qs Hz Hl Ha Hs) as HA.
  cbv zeta in HA. destruct HA as [_ HA]. fold a2 in HA.
  assert (Hl' : length key = 16 * zk) by lia.
  pose proof (c04_tweak_history128 zk tks128_blank key
                (map c_req (filter (fun q => Nat.eqb (snd q) 16) qs)) Hz Hl' Hs) as HC.
  cbv zeta in HC. destruct HC as (_ & _ & _ & HC & _).
  rewrite (Nat.mul_comm 16 zk) in HC. rewrite fold_left_map_gen in HC.
  unfold c_req in HC at 1. cbn [fst snd] in HC.
  rewrite (latest_tweak_ard 16 (Nat.lt_0_succ _)) in HC. fold (ard_latest 16 qs) in HC.
  destruct (HA blk) as [E1 E2]. destruct (HC blk Hb) as [F1 F2].
  split; [now rewrite E1|now rewrite E2].
Qed.
Theorem a64_tweak_history_independent : forall zk a key (qs : list ard_treq) blk,
  In zk [1; 2] -> length key = zk * 8 ->
  length (a_sched nib a) = skinny64_rounds (S zk) -> length blk = 8 ->
  let a2 := fold_left (fun x q => snd (a64_set_tweak x (fst q) (snd q))) qs
                      (snd (a64_set_key_tweaked zk a key)) in
  a64_encrypt a2 blk = skinny64_tweaked_enc zk key (ard_latest 8 qs) blk
  /\ a64_decrypt a2 blk = skinny64_tweaked_dec zk key (ard_latest 8 qs) blk.
Proof.
  intros zk a key qs blk Hz Hl Ha Hb a2.
  assert (Hs : length (ks_sched nib (tk_ks nib tks64_blank)) = 40) by reflexivity.
  pose proof (a64_tweaked_equiv zk a tks64_blank key qs Hz Hl Ha Hs) as HA.
  cbv zeta in HA. destruct HA as [_ HA]. fold a2 in HA.
  assert (Hl' : length key = 8 * zk) by lia.
  pose proof (c04_tweak_history64 zk tks64_blank key
                (map c_req (filter (fun q => Nat.eqb (snd q) 8) qs)) Hz Hl' Hs) as HC.
  cbv zeta in HC. destruct HC as (_ & _ & _ & HC & _).
  rewrite (Nat.mul_comm 8 zk) in HC. rewrite fold_left_map_gen in HC.
  unfold c_req in HC at 1. cbn [fst snd] in HC.
  rewrite (latest_tweak_ard 8 (Nat.lt_0_succ _)) in HC. fold (ard_latest 8 qs) in HC.
  destruct (HA blk) as [E1 E2]. destruct (HC blk Hb) as [F1 F2].
  split; [now rewrite E1|now rewrite E2].
Qed.

(* ------------------------------------------------------------------ *)
(* Mantis8 = the C library keyed with 8 rounds in encrypt mode *)
Theorem am_equiv : forall m key, length key = 16 ->
  am_set_key m key = (true, snd (mantis_set_key m (Some key) 16 8 1))
  /\ fst (mantis_set_key m (Some key) 16 8 1) = 1%N.
Proof. intros m key H. unfold am_set_key. rewrite H. split; reflexivity. Qed.
Theorem am_set_tweak_equiv : forall m tw,
  am_set_tweak m tw 8 = (true, snd (mantis_set_tweak m tw 8)).
Proof. intros m tw. reflexivity. Qed.
Theorem am_wrong_lengths : forall m key tw len,
  (length key <> 16 -> am_set_key m key = (false, m))
  /\ (len <> 8 -> am_set_tweak m tw len = (false, m)).
Proof.
  intros m key tw len. split; intros H.
  - unfold am_set_key. destruct (Nat.eqb_spec (length key) 16); [contradiction|reflexivity].
  - unfold am_set_tweak. destruct (Nat.eqb_spec len 8); [contradiction|reflexivity].
Qed.
(* swapModes and the block function are the C library's by definition *)
Theorem am_swap_crypt_equiv : forall m blk,
  am_swap m = mantis_swap_modes m /\ am_crypt m blk = mantis_crypt m blk.
Proof. intros m blk. split; reflexivity. Qed.

(* ------------------------------------------------------------------ *)
(* CTR<T> *)
From Skinny Require Import ProofsCtr.

(* narrower counters (Arduino-only extension): only the low 16 - start bytes are incremented,
   modulo 2^(8 (16 - start)) *)
Theorem actr_inc_spec : forall start c, length c = 16 -> start <= 16 ->
  actr_inc start c = firstn start c ++ ctr_add (skipn start c) 1.
Proof. intros start c _ _. unfold actr_inc. now rewrite inc_counter_is_add. Qed.
Lemma actr_inc_full c : actr_inc 0 c = ctr_add c 1.
Proof. unfold actr_inc. cbn [firstn skipn app]. apply inc_counter_is_add. Qed.

Lemma keystream_one Eb c : keystream Eb c 1 = Eb c.
Proof.
  unfold keystream. cbn [seq map concat]. change (N.of_nat 0) with 0%N.
  now rewrite ctr_add_0, app_nil_r.
Qed.

Section ActrProofs.
  Variable K : Type.
  Variable E : K -> list byte -> list byte.
  Hypothesis HE : forall k blk, length (E k blk) = 16.

  Notation actr := (actr K).
  (* the three steps of one loop iteration *)
  Definition actr_refill (a : actr) : actr :=
    if Nat.leb 16 (ac_posn K a) then
      {| ac_key := ac_key K a; ac_counter := actr_inc (ac_start K a) (ac_counter K a);
         ac_state := E (ac_key K a) (ac_counter K a); ac_posn := 0; ac_start := ac_start K a |}
    else a.
  Definition actr_take (a1 : actr) (inp : list byte) : nat :=
    Nat.min (16 - ac_posn K a1) (length inp).
  Definition actr_adv (a1 : actr) (n : nat) : actr :=
    {| ac_key := ac_key K a1; ac_counter := ac_counter K a1; ac_state := ac_state K a1;
       ac_posn := ac_posn K a1 + n; ac_start := ac_start K a1 |}.
  Lemma actr_loop_S f a x r :
    actr_loop K E (S f) a (x :: r) =
    let inp := x :: r in
    let a1 := actr_refill a in
    let n := actr_take a1 inp in
    let '(a3, rest) := actr_loop K E f (actr_adv a1 n) (skipn n inp) in
    (a3, xor_bytes (firstn n inp) (skipn (ac_posn K a1) (ac_state K a1)) ++ rest).
  Proof. reflexivity. Qed.

  (* "pos bytes of the stream that starts at counter c0 have been consumed", full-width counter;
     q = number of blocks encrypted so far *)
  Definition AInv (k : K) (a : actr) (c0 : list byte) (pos : nat) : Prop :=
    length c0 = 16 /\ ac_key K a = k /\ ac_start K a = 0 /\
    exists q, ac_counter K a = ctr_add c0 (N.of_nat q)
      /\ 0 < ac_posn K a <= 16
      /\ pos + 16 = q * 16 + ac_posn K a
      /\ (ac_posn K a < 16 -> ac_state K a = E k (ctr_add c0 (N.of_nat (q - 1)))).

  Lemma refill_spec k a c0 pos : AInv k a c0 pos ->
    let a1 := actr_refill a in
    ac_key K a1 = k /\ ac_start K a1 = 0 /\ ac_posn K a1 < 16 /\
    exists q, ac_counter K a1 = ctr_add c0 (N.of_nat (S q))
      /\ pos = q * 16 + ac_posn K a1
      /\ ac_state K a1 = E k (ctr_add c0 (N.of_nat q)).
  Proof.
    intros (Hc0 & Hk & Hst & q & Hc & Hp & Hpos & Hs). unfold actr_refill.
    destruct (Nat.leb_spec 16 (ac_posn K a)) as [Hfull|Hpart].
    - cbn [ac_key ac_start ac_posn ac_counter ac_state].
      split; [exact Hk|]. split; [exact Hst|]. split; [lia|]. exists q.
      rewrite Hst, Hc, Hk, actr_inc_full, ctr_add_add.
      split; [f_equal; lia|]. split; [lia|reflexivity].
    - split; [exact Hk|]. split; [exact Hst|]. split; [exact Hpart|].
      destruct q as [|q]; [lia|]. exists q.
      split; [exact Hc|]. split; [lia|].
      rewrite (Hs Hpart). do 3 f_equal. lia.
  Qed.

  Lemma actr_loop_spec k c0 : forall fuel a pos d, AInv k a c0 pos -> length d <= fuel ->
    snd (actr_loop K E fuel a d) = ctr_xor 16 (E k) c0 pos d
    /\ AInv k (fst (actr_loop K E fuel a d)) c0 (pos + length d).
  Proof.
    assert (H16 : 0 < 16) by lia.
    assert (Hlen : forall b, length (E k b) = 16) by (intros b; apply HE).
    induction fuel as [|fuel IH]; intros a pos d HI Hf.
    - destruct d as [|x r]; [|cbn in Hf; lia].
      cbn [actr_loop fst snd length]. rewrite Nat.add_0_r. split; [reflexivity|exact HI].
    - destruct d as [|x r].
      { cbn [actr_loop fst snd length]. rewrite Nat.add_0_r. split; [reflexivity|exact HI]. }
      rewrite actr_loop_S. cbv zeta. set (inp := x :: r) in *.
      assert (Hinp : 0 < length inp) by (cbn; lia).
      pose proof HI as (Hc0 & _).
      destruct (refill_spec k a c0 pos HI) as (Hk & Hst & Hp & q & Hc & Hpos & Hs).
      set (a1 := actr_refill a) in *. set (n := actr_take a1 inp).
      assert (Hn : 0 < n <= length inp /\ ac_posn K a1 + n <= 16) by (unfold n, actr_take; lia).
      destruct (IH (actr_adv a1 n) (pos + n) (skipn n inp)) as [Ho HI'].
      { split; [exact Hc0|]. cbn [actr_adv ac_key ac_start ac_posn ac_counter ac_state].
        split; [exact Hk|]. split; [exact Hst|]. exists (S q).
        split; [exact Hc|]. split; [lia|]. split; [lia|].
        intros _. rewrite Hs. do 3 f_equal. lia. }
      { rewrite skipn_length. lia. }
      destruct (actr_loop K E fuel (actr_adv a1 n) (skipn n inp)) as [a3 rest].
      cbn [fst snd] in *. split.
      + rewrite Ho, Hs.
        apply (step_out 16 H16 (E k) Hlen 1 c0 pos inp n q (ac_posn K a1)); try lia.
        symmetry. apply keystream_one.
      + replace (pos + length inp) with (pos + n + length (skipn n inp)); [exact HI'|].
        rewrite skipn_length. lia.
  Qed.

  Lemma actr_run_spec k c0 : forall calls a pos outs0, AInv k a c0 pos ->
    let run := fold_left (fun acc d => let '(a, outs) := acc in
                                       let '(a', o) := actr_encrypt K E a d in (a', outs ++ [o]))
                         calls (a, outs0) in
    concat (snd run) = concat outs0 ++ ctr_xor 16 (E k) c0 pos (concat calls)
    /\ map (@length byte) (snd run) = map (@length byte) outs0 ++ map (@length byte) calls.
  Proof.
    assert (H16 : 0 < 16) by lia.
    assert (Hlen : forall b, length (E k b) = 16) by (intros b; apply HE).
    induction calls as [|d rest IH]; intros a pos outs0 HI; cbv zeta.
    - cbn [fold_left snd concat map]. rewrite !app_nil_r. split; reflexivity.
    - cbn [fold_left].
      destruct (actr_loop_spec k c0 (S (length d)) a pos d HI (Nat.le_succ_diag_r _)) as [Ho HI'].
      fold (actr_encrypt K E a d) in Ho, HI'.
      destruct (actr_encrypt K E a d) as [a' o]. cbn [fst snd] in Ho, HI'.
      destruct (IH a' (pos + length d) (outs0 ++ [o]) HI') as [H1 H2].
      split.
      + rewrite H1. rewrite concat_app. cbn [concat]. rewrite app_nil_r, <- app_assoc. f_equal.
        rewrite (ctr_xor_app 16 H16 (E k) Hlen). now rewrite Ho.
      + rewrite H2. rewrite map_app. cbn [map]. rewrite <- app_assoc. cbn [app].
        rewrite Ho, (ctr_xor_length 16 H16 (E k) Hlen). reflexivity.
  Qed.

  Lemma set_iv_AInv k iv : length iv = 16 ->
    AInv k (snd (actr_set_iv K (actr_new K k) iv)) iv 0.
  Proof.
    intros H. unfold actr_set_iv. rewrite H. cbn [Nat.eqb snd actr_new ac_key ac_start].
    split; [exact H|]. cbn [ac_key ac_start ac_posn ac_counter ac_state].
    split; [reflexivity|]. split; [reflexivity|]. exists 0.
    change (N.of_nat 0) with 0%N. rewrite ctr_add_0.
    split; [reflexivity|]. split; [lia|]. split; [reflexivity|]. intros Hlt. lia.
  Qed.
End ActrProofs.

(* CTR<T> with the default full-width counter: any sequence of encrypt calls gives
   input xor E(iv), E(iv+1), ... — the C library's CTR stream (ctr_refinement) from the same IV *)
Theorem actr_refinement : forall (K : Type) (E : K -> list byte -> list byte) (k : K)
    (iv : list byte) (calls : list (list byte)),
  (forall k blk, length (E k blk) = 16) -> length iv = 16 ->
  let a0 := snd (actr_set_iv K (actr_new K k) iv) in
  let run := fold_left (fun acc d => let '(a, outs) := acc in
                                     let '(a', o) := actr_encrypt K E a d in (a', outs ++ [o]))
                       calls (a0, []) in
  concat (snd run) = ctr_xor 16 (E k) iv 0 (concat calls)
  /\ map (@length byte) (snd run) = map (@length byte) calls.
Proof.
  intros K E k iv calls HE Hiv a0 run.
  exact (actr_run_spec K E HE k iv calls a0 0 [] (set_iv_AInv K E HE k iv Hiv)).
Qed.

(* the same calls through the C library's generic back end (B = 1) from a counter set to iv
   give the same bytes *)
Corollary actr_matches_c_ctr : forall (K : Type) (E : K -> list byte -> list byte) (k : K)
    (iv : list byte) (calls : list (list byte)) (st : ctr K),
  (forall k blk, length (E k blk) = 16) -> length iv = 16 ->
  fresh_at K 16 1 st iv -> c_key st = k ->
  let a0 := snd (actr_set_iv K (actr_new K k) iv) in
  let run := fold_left (fun acc d => let '(a, outs) := acc in
                                     let '(a', o) := actr_encrypt K E a d in (a', outs ++ [o]))
                       calls (a0, []) in
  exists st' outs, run_calls K E 16 1 st calls = Some (st', outs)
    /\ concat outs = concat (snd run)
    /\ map (@length byte) outs = map (@length byte) (snd run).
Proof.
  intros K E k iv calls st HE Hiv Hf Hk a0 run.
  destruct (actr_refinement K E k iv calls HE Hiv) as [A1 A2].
  destruct (ctr_refinement K E 16 1 (Nat.lt_0_succ _) (Nat.lt_0_succ _) HE st iv calls Hf)
    as (st' & outs & R1 & R2 & R3 & _).
  exists st', outs. split; [exact R1|]. rewrite Hk in R2. fold a0 in A1, A2. fold run in A1, A2.
  split; [now rewrite A1|now rewrite A2].
Qed.

(* ------------------------------------------------------------------ *)
Print Assumptions a128_plain_equiv.
Print Assumptions a128_set_key_wrong_length.
Print Assumptions a64_plain_equiv.
Print Assumptions a64_set_key_wrong_length.
Print Assumptions a128_tweaked_equiv.
Print Assumptions a64_tweaked_equiv.
Print Assumptions a128_set_tweak_wrong_length.
Print Assumptions a64_set_tweak_wrong_length.
Print Assumptions a128_tweak_history_independent.
Print Assumptions a64_tweak_history_independent.
Print Assumptions am_equiv.
Print Assumptions am_set_tweak_equiv.
Print Assumptions am_wrong_lengths.
Print Assumptions am_swap_crypt_equiv.
Print Assumptions actr_inc_spec.
Print Assumptions actr_refinement.
Print Assumptions actr_matches_c_ctr.
